/-
Helper lemmas for C11 (second extension round): constant data and the modelled `iterfit`.
* `splineAt_const`, `value_of_const_coeffs`: a spline whose coefficients are all `v` evaluates to `v` at EVERY abscissa (partition of unity
  of `bsplvn`, needing only non-zero denominators: strictly increasing good knots) - `value` returns `v` for every point asked;
* `fit_const_coeffs`: `bspline.fit` with status 0 on data that are `v` wherever the weight is not 0 stores `v` in every good coefficient,
  PROVIDED the LAPACK pair returned THE solution of the banded system (`huniq`: any solution of the system that was factored equals
  what `cholesky_solve` returned - success of the factorisation means a non-singular matrix);
* `FitConstData`: the contract of `const_flux_const` (Props/C11.lean).
-/
import PydlVerif.Model.CombineFit
import PydlVerif.Props.C09
import PydlVerif.Lemmas.IterFit
import PydlVerif.Props.C10
import PydlVerif.Props.C17
namespace PydlVerif.CombineConst
open PydlVerif PydlVerif.BSpline PydlVerif.BSplineFit PydlVerif.BSplineFitLemmas PydlVerif.IterFit PydlVerif.Combine Finset

set_option linter.unusedSectionVars false
set_option linter.unusedVariables false
set_option linter.unusedSimpArgs false

variable {K : Type} [Field K] [LinearOrder K] [IsStrictOrderedRing K] [FloorRing K]

local notation "stepK" => @bsplvnStep _ (fieldScalar _)
local notation "loopK" => @bsplvnLoop _ (fieldScalar _)
local notation "bsplvnK" => @bsplvn1 _ (fieldScalar _)
local notation "intrvOfK" => @intrvOf _ (fieldScalar _)
local notation "splineAtK" => @splineAt _ (fieldScalar _)
local notation "assembleK" => @assemble _ (fieldScalar _)
local notation "fitK" => @BSplineFit.fit _ (fieldScalar _)
local notation "gbK" => @BS.gb _ (fieldScalar _)
local notation "knotAtK" => @knotAt _ (fieldScalar _)
local notation "normalSystemK" => @normalSystem _ (fieldScalar _)
local notation "choleskyBandK" => @choleskyBand _ (fieldScalar _)
local notation "choleskySolveK" => @choleskySolve _ (fieldScalar _)
local notation "coeffAtK" => @C08.coeffAt _ (fieldScalar _)
local notation "valueK" => @BS.value _ (fieldScalar _)
noncomputable local instance instInhabitedKC : Inhabited K := @PydlVerif.instInhabitedOfScalar K (fieldScalar K)

/-! ## partition of unity without a bracket -/

theorem loop_sum (dp dm : ℕ → K) (fuel j : ℕ) (v : List K) (hlen : v.length = j + 1) (hsum : v.sum = 1)
    (H : ∀ a b, a + b < j + fuel → dp a + dm b ≠ 0) : (loopK dp dm fuel j v).sum = 1 := by
  induction fuel generalizing j v with
  | zero => simpa [bsplvnLoop] using hsum
  | succ f ih =>
    simp only [bsplvnLoop, C08.sc_zero]
    refine ih (j+1) (stepK dp dm j 0 0 v) (by rw [C08.step_length, hlen]) ?_ (fun a b hab => H a b (by omega))
    rw [C08.step_sum, hsum, zero_add]
    intro i hi
    rw [Nat.zero_add]
    exact H i (j - i) (by omega)

/-- the `nord` values of `bsplvn` sum to one at ANY `x` (inside the knot interval or not) as long as the differences of knots it
divides by are not zero -/
theorem bsplvn_sum_one' (t : ℕ → K) (k i : ℕ) (x : K) (hden : ∀ a b, a + b < k - 1 → t (i + a + 1) - t (i - b) ≠ 0) :
    (bsplvnK t k x i).sum = 1 := by
  have := loop_sum (K := K) (fun l => t (i + l + 1) - x) (fun l => x - t (i - l)) (k - 1) 0 [1] (by simp) (by simp) ?_
  · simp only [bsplvn1, C08.sc_sub, C08.sc_one]
    exact this
  · intro a b hab
    have := hden a b (by omega)
    intro h
    apply this
    rw [← h]; ring

theorem sum_getD_range (l : List K) : ∑ i ∈ range l.length, l.getD i 0 = l.sum := by
  induction l with
  | nil => simp
  | cons v vs ih =>
    rw [List.length_cons, Finset.sum_range_succ', List.sum_cons, List.getD_cons_zero, add_comm]
    congr 1

/-- **a spline whose first `n` coefficients are all `v` is the constant `v` - at every abscissa** (good knots strictly increasing) -/
theorem splineAt_const (t : ℕ → K) (k n : ℕ) (hk : 1 ≤ k) (hkn : k ≤ n) (c : ℕ → K) (v : K) (hc : ∀ j, j < n → c j = v)
    (hstrict : ∀ a b, a < b → b ≤ n + k - 1 → t a < t b) (x : K) : splineAtK t c k n x = v := by
  have hle := C08.intrvOf_le t k n x hk hkn
  have hge : k - 1 ≤ intrvOfK t k n x := C08.adv_ge t n x (n - (k - 1)) (k - 1)
  unfold splineAt
  simp only []
  rw [C09.dot_eq_sum, C08.bsplvn_length t k _ x hk]
  have : ∀ a ∈ range k, (bsplvnK t k x (intrvOfK t k n x)).getD a 0 * c (intrvOfK t k n x + 1 - k + a) =
      (bsplvnK t k x (intrvOfK t k n x)).getD a 0 * v := by
    intro a ha
    rw [Finset.mem_range] at ha
    rw [hc _ (by omega)]
  rw [Finset.sum_congr rfl this, ← Finset.sum_mul]
  have hl := C08.bsplvn_length t k (intrvOfK t k n x) x hk
  have hs : ∑ a ∈ range k, (bsplvnK t k x (intrvOfK t k n x)).getD a 0 = (bsplvnK t k x (intrvOfK t k n x)).sum := by
    rw [← sum_getD_range, hl]
  rw [hs, bsplvn_sum_one', one_mul]
  intro a b hab
  exact ne_of_gt (sub_pos.2 (hstrict _ _ (by omega) (by omega)))

/-- **`value` of an object whose good coefficients are all `v`**: `v` for every point asked, one value per point (`perm` a sorting
permutation of the points; at least `2·nord` good breakpoints, strictly increasing) -/
theorem value_of_const_coeffs (b : BS K) (v : K) (xs : List K) (perm : List ℕ) (hk : 1 ≤ b.nord)
    (hsize : 2 * b.nord ≤ (gbK b).size) (hne : xs ≠ []) (hperm : perm.Perm (List.range xs.length))
    (hsorted : (perm.map (fun p => xs.getD p 0)).Pairwise (· ≤ ·))
    (hco : ∀ j, j < (gbK b).size - b.nord → coeffAtK b j = v)
    (hstrict : ∀ a c, a < c → c ≤ (gbK b).size - 1 → knotAtK (gbK b) a < knotAtK (gbK b) c) :
    ∃ m, valueK b xs perm = .ok (xs.map (fun _ => v), m) := by
  have hplen : perm.length = xs.length := by rw [hperm.length_eq, List.length_range]
  have hpne : perm ≠ [] := by
    intro h; rw [h] at hplen; exact hne (List.length_eq_zero_iff.1 hplen.symm)
  have hv := @C08.value_eq K (fieldScalar K) b xs perm hk hsize hpne
  simp only [C08.sc_zero] at hv
  have hkn : b.nord ≤ (gbK b).size - b.nord := by omega
  rw [show (gbK b).size - b.nord - b.nord + 1 = ((gbK b).size - b.nord) - b.nord + 1 from rfl,
    C08.value_spec (knotAtK (gbK b)) (coeffAtK b) b.nord ((gbK b).size - b.nord) hk hkn xs hne perm hperm hsorted] at hv
  have hmap : xs.map (splineAtK (knotAtK (gbK b)) (coeffAtK b) b.nord ((gbK b).size - b.nord)) = xs.map (fun _ => v) := by
    apply List.map_congr_left
    intro x _
    exact splineAt_const _ _ _ hk hkn _ v hco (fun a c hac hc => hstrict a c hac (by omega)) x
  rw [hmap] at hv
  exact ⟨_, hv⟩

/-! ## `fit` on constant data -/
local notation "actionK" => @BS.action _ (fieldScalar _)
local notation "scanK" => @intrvScan _ (fieldScalar _)

/-- **status-0 `fit` of constant data stores the constant in every good coefficient** - when the LAPACK pair returned THE solution
of the banded system it was handed (`huniq`; the factorisation having succeeded, the matrix is non-singular).  Data `ys` equal `v` wherever the
weight is not 0; sorted points; good knots strictly increasing (the rows of the design matrix then sum to 1: `bsplvn_sum_one'`);
an object whose first `nord` breakpoints are unmasked (`hnn`).  Also: `fit` leaves `nord`, the good knots and the mask as they are. -/
theorem fit_const_coeffs (Kn : Kernels K) (b : BS K) (xs ys ws : List K) (perm : List ℕ) (out : FitOut K)
    (h : fitK Kn b xs ys ws perm = .ok out) (h0 : out.status = 0)
    (hk : 1 ≤ b.nord)
    (hnn : (goodIdx (b.mask.toList.drop b.nord)).length = (gbK b).size - b.nord)
    (hcs : b.mask.size - b.nord ≤ b.coeff.size)
    (hsorted : xs.Pairwise (· ≤ ·)) (hyl : ys.length = xs.length) (hwl : ws.length = xs.length)
    (hstrict : ∀ a c, a < c → c ≤ (gbK b).size - 1 → knotAtK (gbK b) a < knotAtK (gbK b) c)
    (v : K) (hy : ∀ p, p < xs.length → ws.getD p 0 ≠ 0 → ys.getD p 0 = v)
    (huniq : ∀ rows lower upper mininf a, actionK b xs = .ok (some (rows, lower, upper)) →
      choleskyBandK Kn (normalSystemK rows ys ws lower upper xs.length b.nord ((gbK b).size - b.nord)).1 mininf = .ok (.factor a) →
      ∀ s : ℕ → K, (∀ c, c < (gbK b).size - b.nord → ∑ c' ∈ range ((gbK b).size - b.nord),
          C09.bandFull (assembleK (fun p a => ((rows.map List.toArray).toArray[p]!)[a]!) (fun p => ys.toArray[p]!)
            (fun p => ws.toArray[p]!) lower upper xs.length b.nord ((gbK b).size - b.nord - b.nord + 1)).1 b.nord c c' * s c'
          = (assembleK (fun p a => ((rows.map List.toArray).toArray[p]!)[a]!) (fun p => ys.toArray[p]!)
            (fun p => ws.toArray[p]!) lower upper xs.length b.nord ((gbK b).size - b.nord - b.nord + 1)).2 c) →
        ∀ c, c < (gbK b).size - b.nord →
          (choleskySolveK Kn a (normalSystemK rows ys ws lower upper xs.length b.nord ((gbK b).size - b.nord)).2)[c]! = s c) :
    out.obj.nord = b.nord ∧ gbK out.obj = gbK b ∧ out.obj.mask = b.mask ∧ 2 * b.nord ≤ (gbK b).size ∧
      ∀ j, j < (gbK b).size - b.nord → coeffAtK out.obj j = v := by
  obtain ⟨rows, lower, upper, a, hact, hchol, hcoeff⟩ := @C09.fit_status0 K (fieldScalar K) Kn b xs ys ws perm out h h0
  rw [hnn] at hchol hcoeff
  obtain ⟨hsize, hne, hrows, hlu⟩ := @C10.action_some K (fieldScalar K) b xs rows lower upper hk hact
  have hlo : lower = C09.actLower (knotAtK (gbK b)) b.nord ((gbK b).size - b.nord) xs := congrArg Prod.fst hlu
  have hup : upper = C09.actUpper (knotAtK (gbK b)) b.nord ((gbK b).size - b.nord) xs := congrArg Prod.snd hlu
  subst hlo hup
  have hkn : b.nord ≤ (gbK b).size - b.nord := by omega
  obtain ⟨hnord, hbk⟩ := @C09.fit_obj_fields K (fieldScalar K) Kn b xs ys ws perm out h
  have hmask : out.obj.mask = b.mask := by
    rcases @C09.fit_status K (fieldScalar K) Kn b xs ys ws perm out h with ⟨_, hm⟩ | ⟨hs, _⟩ | ⟨hs, _⟩
    · exact hm
    · rw [h0] at hs; cases hs
    · rw [h0] at hs; cases hs
  have hgb : gbK out.obj = gbK b := by unfold BS.gb; rw [hmask, hbk]
  refine ⟨hnord, hgb, hmask, hsize, ?_⟩
  -- the system
  set t := knotAtK (gbK b) with ht
  set k := b.nord with hkdef
  set n := (gbK b).size - b.nord with hn
  set a1 : ℕ → ℕ → K := fun p a => ((rows.map List.toArray).toArray[p]!)[a]! with ha1def
  set y : ℕ → K := fun p => ys.toArray[p]! with hydef
  set w : ℕ → K := fun p => ws.toArray[p]! with hwdef
  obtain ⟨hα, hβ⟩ := C09.assemble_is_normal_action t k n hk hkn xs hne hsorted a1 y w
  -- the rows of `action` are the `bsplvn` values
  have ha1 : ∀ p, p < xs.length → ∀ a, a < k → a1 p a = C09.basisRow t k n (C09.ptAt xs) p a := by
    intro p hp a ha
    have hrl : rows.length = xs.length := by
      rw [hrows, List.length_zipWith, @C08.scan_length K (fieldScalar K)]; omega
    have hrp : rows[p]'(by omega) = bsplvnK t k xs[p] (intrvOfK t k n xs[p]) := by
      simp only [hrows, C08.intrv_pointwise _ _ _ xs hsorted, List.getElem_zipWith, List.getElem_map]
    have hx : xs.getD p 0 = xs[p] := by
      rw [List.getD_eq_getElem?_getD, List.getElem?_eq_getElem hp]; rfl
    unfold C09.basisRow C09.ptAt
    rw [hx, ha1def]
    simp only []
    rw [C09.arr2_get rows p a (by omega) (by rw [hrp, C08.bsplvn_length _ _ _ _ hk]; exact ha), hrp]
  set D : ℕ → ℕ → K := design a1 (C09.segOf t k n (C09.ptAt xs)) k with hD
  have hDeq : ∀ p, p < xs.length → ∀ j, D p j = design (C09.basisRow t k n (C09.ptAt xs)) (C09.segOf t k n (C09.ptAt xs)) k p j := by
    intro p hp j
    rw [hD]
    unfold design
    split
    · rename_i hc
      exact ha1 p hp _ (by omega)
    · rfl
  -- rows of the design matrix sum to one
  have hrow : ∀ p, p < xs.length → ∑ j ∈ range n, D p j = 1 := by
    intro p hp
    have h1 := C09.design_row_is_spline t k n hk hkn (C09.ptAt xs) p (fun _ => (1 : K))
    rw [splineAt_const t k n hk hkn (fun _ => 1) 1 (fun _ _ => rfl) (fun a c hac hc => hstrict a c hac (by omega))] at h1
    rw [← h1]
    apply Finset.sum_congr rfl
    intro j _
    rw [hDeq p hp j, mul_one]
  have hband : ∀ p c c', c + k ≤ c' → D p c * D p c' = 0 := fun p c c' hcc => C09.design_band a1 _ k p c c' hcc
  -- the full symmetric matrix
  have hG : ∀ c c', C09.bandFull (assembleK a1 y w (C09.actLower t k n xs) (C09.actUpper t k n xs) xs.length k (n - k + 1)).1 k c c'
      = ∑ p ∈ range xs.length, w p * D p c * D p c' := by
    intro c c'
    unfold C09.bandFull
    by_cases h1 : c ≤ c'
    · rw [if_pos h1]
      by_cases h2 : c' - c < k
      · rw [if_pos h2, hα c (c' - c) h2, show c + (c' - c) = c' by omega]
        apply Finset.sum_congr rfl; intros; ring
      · rw [if_neg h2]; symm
        apply Finset.sum_eq_zero; intro p _
        rw [mul_assoc, hband p c c' (by omega)]; ring
    · rw [if_neg h1]
      by_cases h2 : c - c' < k
      · rw [if_pos h2, hα c' (c - c') h2, show c' + (c - c') = c by omega]
        apply Finset.sum_congr rfl; intros; ring
      · rw [if_neg h2]; symm
        apply Finset.sum_eq_zero; intro p _
        rw [mul_assoc, mul_comm (D p c), hband p c' c (by omega)]; ring
  -- the constant vector solves it
  have hsol : ∀ c, c < n → ∑ c' ∈ range n,
      C09.bandFull (assembleK a1 y w (C09.actLower t k n xs) (C09.actUpper t k n xs) xs.length k (n - k + 1)).1 k c c' * (fun _ => v) c'
      = (assembleK a1 y w (C09.actLower t k n xs) (C09.actUpper t k n xs) xs.length k (n - k + 1)).2 c := by
    intro c _
    simp only [hG, hβ c]
    rw [← Finset.sum_mul, Finset.sum_comm]
    rw [Finset.sum_mul]
    apply Finset.sum_congr rfl
    intro p hp
    rw [Finset.mem_range] at hp
    have e : ∑ c' ∈ range n, w p * D p c * D p c' = w p * D p c := by
      rw [← Finset.mul_sum, hrow p hp, mul_one]
    rw [e]
    by_cases hw0 : w p = 0
    · rw [hw0]; ring
    · have hwp : ws.getD p 0 ≠ 0 := by
        rw [← C09.toArray_getD ws p (by omega)]; exact hw0
      have : y p = v := by
        rw [hydef]; simp only []
        rw [C09.toArray_getD ys p (by omega)]; exact hy p hp hwp
      rw [this]; ring
  have hsolv := huniq rows _ _ _ a hact hchol (fun _ => v) hsol
  -- reading the coefficients back
  intro j hj
  have hjl : j < (goodIdx (b.mask.toList.drop b.nord)).length := by rw [hnn]; exact hj
  unfold C08.coeffAt BS.goodcoeff
  rw [hmask, hnord, hcoeff, getElem!_pos _ j (by simpa using hjl)]
  simp only [List.getElem_toArray, List.getElem_map]
  rw [C09.putGood_get b.coeff _ _ j hjl (by simp; omega)]
  exact hsolv j hj

/-! ## structural invariant of the spline object inside `iterfit` -/
attribute [local instance] fieldScalar
attribute [-instance] Scalar.instOfNat Scalar.instOfScientific

/-- the object is well formed: mask and breakpoints of equal length, a coefficient slot for every breakpoint beyond the first `nord`,
the first `nord` breakpoints unmasked, breakpoints strictly increasing -/
structure ObjOK (b : BS K) : Prop where
  msize : b.mask.size = b.breakpoints.size
  csize : b.mask.size - b.nord ≤ b.coeff.size
  first : ∀ i, i < b.nord → i < b.mask.size → b.mask[i]! = true
  strict : ∀ i j, i < j → j < b.breakpoints.size → b.breakpoints[i]! < b.breakpoints[j]!

theorem goodIdx_pairwise (m : List Bool) : (goodIdx m).Pairwise (· < ·) :=
  List.Pairwise.filter _ List.pairwise_lt_range

theorem pairwise_lt_ge0 : ∀ (l : List ℕ), l.Pairwise (· < ·) → ∀ j (hj : j < l.length), l[0]'(by omega) + j ≤ l[j] := by
  intro l
  induction l with
  | nil => intro _ j hj; cases hj
  | cons a l ih =>
    intro hp j hj
    rw [List.pairwise_cons] at hp
    cases j with
    | zero => simp
    | succ j =>
      simp only [List.getElem_cons_succ, List.getElem_cons_zero]
      have hj' : j < l.length := by simpa using hj
      have h1 := ih hp.2 j hj'
      have h2 := hp.1 _ (List.getElem_mem (show 0 < l.length by omega))
      omega

theorem pairwise_lt_ge (l : List ℕ) (hp : l.Pairwise (· < ·)) (j : ℕ) (hj : j < l.length) : j ≤ l[j] := by
  have := pairwise_lt_ge0 l hp j hj
  omega

theorem goodIdx_append_true (l1 l2 : List Bool) (h1 : ∀ v ∈ l1, v = true) :
    goodIdx (l1 ++ l2) = List.range l1.length ++ (goodIdx l2).map (l1.length + ·) := by
  unfold goodIdx
  rw [List.length_append, List.range_add, List.filter_append]
  congr 1
  · apply List.filter_eq_self.2
    intro i hi
    rw [List.mem_range] at hi
    rw [List.getD_eq_getElem?_getD, List.getElem?_append_left hi, List.getElem?_eq_getElem hi, Option.getD_some]
    exact h1 _ (List.getElem_mem hi)
  · rw [List.filter_map]
    congr 1
    apply List.filter_congr
    intro i _
    simp only [Function.comp, List.getD_eq_getElem?_getD]
    rw [List.getElem?_append_right (by omega), show l1.length + i - l1.length = i by omega]

theorem ObjOK.hnn {b : BS K} (h : ObjOK b) : (goodIdx (b.mask.toList.drop b.nord)).length = (gbK b).size - b.nord := by
  have hsz : (gbK b).size = (goodIdx b.mask.toList).length := by unfold BS.gb; simp
  rw [hsz]
  have hsplit : b.mask.toList = b.mask.toList.take b.nord ++ b.mask.toList.drop b.nord := (List.take_append_drop _ _).symm
  have htrue : ∀ v ∈ b.mask.toList.take b.nord, v = true := by
    intro v hv
    obtain ⟨i, hi, rfl⟩ := List.getElem_of_mem hv
    rw [List.length_take] at hi
    rw [List.getElem_take]
    have := h.first i (by omega) (by simp at hi ⊢; omega)
    rw [getElem!_pos b.mask i (by simp at hi ⊢; omega)] at this
    simpa using this
  conv_rhs => rw [hsplit, goodIdx_append_true _ _ htrue]
  rw [List.length_append, List.length_range, List.length_map, List.length_take]
  by_cases hn : b.nord ≤ b.mask.toList.length
  · omega
  · have : b.mask.toList.drop b.nord = [] := List.drop_eq_nil_of_le (by omega)
    rw [this]
    simp [goodIdx]

theorem ObjOK.gb_strict {b : BS K} (h : ObjOK b) :
    ∀ a c, a < c → c ≤ (gbK b).size - 1 → knotAtK (gbK b) a < knotAtK (gbK b) c := by
  intro a c hac hc
  have hsz : (gbK b).size = (goodIdx b.mask.toList).length := by unfold BS.gb; simp
  by_cases hpos : 0 < (gbK b).size
  · have hcl : c < (goodIdx b.mask.toList).length := by omega
    have hal : a < (goodIdx b.mask.toList).length := by omega
    have hget : ∀ q (hq : q < (goodIdx b.mask.toList).length), knotAtK (gbK b) q = b.breakpoints[(goodIdx b.mask.toList)[q]]! := by
      intro q hq
      unfold knotAt BS.gb
      rw [getElem!_pos _ q (by simpa using hq)]
      simp
    rw [hget a hal, hget c hcl]
    apply h.strict
    · exact List.pairwise_iff_getElem.1 (goodIdx_pairwise _) a c hal hcl hac
    · have := C09.goodIdx_lt _ _ (List.getElem_mem hcl)
      rw [← h.msize]; simpa using this
  · omega

theorem setIf_get_ne (m : Array Bool) (p i : ℕ) (v : Bool) (h : p ≠ i) : (m.setIfInBounds p v)[i]! = m[i]! := by
  rw [getElem!_def, getElem!_def, Array.getElem?_setIfInBounds_ne h]

theorem foldl_mask_inv {σ : Type} (proj : σ → Array Bool) (pos : ℕ → ℕ) (nord : ℕ) (step : σ → ℕ → σ)
    (hstep : ∀ s il, proj (step s il) = proj s ∨ proj (step s il) = (proj s).setIfInBounds (pos il) false)
    (l : List ℕ) (hl : ∀ il ∈ l, nord ≤ pos il) (s : σ) :
    (proj (l.foldl step s)).size = (proj s).size ∧ ∀ i, i < nord → (proj (l.foldl step s))[i]! = (proj s)[i]! := by
  induction l generalizing s with
  | nil => exact ⟨rfl, fun _ _ => rfl⟩
  | cons il l ih =>
    simp only [List.foldl_cons]
    obtain ⟨h1, h2⟩ := ih (fun x hx => hl x (List.mem_cons_of_mem _ hx)) (step s il)
    rcases hstep s il with h | h
    · rw [h] at h1 h2; exact ⟨h1, h2⟩
    · rw [h] at h1 h2
      refine ⟨by rw [h1]; simp, fun i hi => ?_⟩
      rw [h2 i hi]
      apply setIf_get_ne
      have := hl il List.mem_cons_self
      omega

/-- `requiren` only masks breakpoints beyond the first `nord` -/
theorem requirenMask_ok (b : BS K) (xw iw : List K) (mw : List Bool) (r : ℕ) (m : Array Bool)
    (h : requirenMask b xw iw mw r = .ok m) (hb : ObjOK b) : ObjOK { b with mask := m } := by
  unfold requirenMask at h
  simp only [] at h
  split at h
  · cases h
  split at h
  · cases h
  rename_i hn2 hng
  simp only [pure, Except.pure, Except.ok.injEq] at h
  have hmem : ∀ il ∈ List.range' b.nord ((goodIdx b.mask.toList).length - b.nord + 1 - b.nord),
      b.nord ≤ (goodIdx b.mask.toList).getD il 0 := by
    intro il hil
    rw [List.mem_range'_1] at hil
    have hil2 : il < (goodIdx b.mask.toList).length := by omega
    rw [List.getD_eq_getElem?_getD, List.getElem?_eq_getElem hil2, Option.getD_some]
    have := pairwise_lt_ge _ (goodIdx_pairwise b.mask.toList) il hil2
    omega
  generalize hm : List.foldl _ _ _ = res at h
  have hkey : res.2.2.size = b.mask.size ∧ ∀ i, i < b.nord → res.2.2[i]! = b.mask[i]! := by
    rw [← hm]
    refine foldl_mask_inv (fun s : ℕ × ℕ × Array Bool => s.2.2) (fun il => (goodIdx b.mask.toList).getD il 0) b.nord _ ?_ _ hmem _
    intro s il
    split
    · left; rfl
    · right; rfl
  obtain ⟨h1, h2⟩ := hkey
  rw [h] at h1 h2
  exact ⟨by simp only []; rw [h1]; exact hb.msize, by simp only []; rw [h1]; exact hb.csize,
    fun i hi hi2 => by simp only [] at hi hi2 ⊢; rw [h2 i hi]; exact hb.first i hi (by rw [← h1]; exact hi2), hb.strict⟩

/-- `maskpoints` only masks breakpoints beyond the first `nord` -/
theorem maskpoints_keep (mask : Array Bool) (nord : ℕ) (err : List ℕ) :
    (maskpoints mask nord err).2.size = mask.size ∧ ∀ i, i < nord → (maskpoints mask nord err).2[i]! = mask[i]! := by
  unfold maskpoints
  simp only []
  repeat' split
  all_goals first
    | exact ⟨rfl, fun _ _ => rfl⟩
    | skip
  rename_i hnb _ _ _ _
  refine foldl_mask_inv (fun s : Array Bool => s) (fun p => p) nord _ (fun s il => Or.inr rfl) _ ?_ _
  intro p hp
  obtain ⟨i, hi, rfl⟩ := List.mem_map.1 hp
  rw [List.mem_filter, List.mem_range] at hi
  obtain ⟨hil, hc⟩ := hi
  have hmemt := List.contains_iff_mem.1 hc
  obtain ⟨jj, _, hjj⟩ := List.mem_flatMap.1 hmemt
  obtain ⟨hh, _, rfl⟩ := List.mem_map.1 hjj
  have hr := (@C09.insideIdx_range nord ((goodIdx mask.toList).length - nord) hh jj (by omega)).1
  rw [List.getD_eq_getElem?_getD, List.getElem?_eq_getElem hil, Option.getD_some]
  have := pairwise_lt_ge _ (goodIdx_pairwise mask.toList) _ hil
  omega

theorem putGood_size (coeff : Array K) (goodbk : List Bool) (sol : Array K) : (putGood coeff goodbk sol).size = coeff.size := by
  unfold putGood
  simp only []
  generalize (goodIdx goodbk).zip (List.range (goodIdx goodbk).length) = l
  induction l generalizing coeff with
  | nil => rfl
  | cons x l ih => rw [List.foldl_cons, ih, Array.size_setIfInBounds]

/-- whatever `fit` answers, the object it returns is well formed when the one it was given is -/
theorem fit_obj_ok (Kn : Kernels K) (b : BS K) (xs ys ws : List K) (perm : List ℕ) (out : FitOut K)
    (h : BSplineFit.fit Kn b xs ys ws perm = .ok out) (hb : ObjOK b) : ObjOK out.obj := by
  unfold BSplineFit.fit at h
  simp only [bind, Except.bind, pure, Except.pure] at h
  repeat' split at h
  all_goals cases h
  all_goals first
    | exact hb
    | (obtain ⟨h1, h2⟩ := maskpoints_keep b.mask b.nord ‹List ℕ›
       exact ⟨by simp only []; rw [h1]; exact hb.msize, by simp only []; rw [h1]; exact hb.csize,
         fun i hi hi2 => by simp only [] at hi hi2 ⊢; rw [h2 i hi]; exact hb.first i hi (by rw [← h1]; exact hi2), hb.strict⟩)
    | exact ⟨hb.msize, by simp only []; rw [putGood_size]; exact hb.csize, hb.first, hb.strict⟩

/-! ## `iterfit` on constant data -/

theorem z0c : (@OfNat.ofNat K (nat_lit 0) Scalar.instOfNat : K) = 0 := by rw [scalar_lit]; exact Nat.cast_zero

/-- **rejection rejects nothing when the residuals are exactly 0**: `djs_reject` as `iterfit` calls it (`invvar` given, no `maxdev`,
`grow = 0`, not sticky, `inmask = outmask =` the current mask) on a model that equals the data at every pixel the mask keeps returns
the SAME mask and `qdone = True` - whatever `sqrt` is, whatever the weights and the limits -/
theorem reject_keeps_exact (sqrt : K → K) (o : Reject.Opts K) (hu : o.useSigma = false) (hd : o.maxdev = none)
    (hg : o.grow = 0) (hst : o.sticky = false) (data mdl sv : List K) (m : List Bool)
    (hl1 : mdl.length = data.length) (hl2 : m.length = data.length) (hl3 : sv.length = data.length)
    (hex : ∀ i, i < data.length → m.getD i true = true → mdl.getD i 0 = data.getD i 0) :
    Reject.djsReject sqrt o data (some mdl) (some m) (some m) sv = .ok (m, true) := by
  unfold Reject.djsReject
  simp only [hl1, hl2, hl3, ne_eq, not_true_eq_false, if_false, bind, Except.bind, pure, Except.pure, Option.isSome_some]
  rw [C10.djsRejectPix_pointwise sqrt { o with hasIn := true } _ hg rfl hst]
  have hpix : ∀ i, i < data.length →
      (Reject.isZero (Reject.badness sqrt { o with hasIn := true }
        (⟨data.getD i (@OfNat.ofNat K (nat_lit 0) Scalar.instOfNat), mdl.getD i (@OfNat.ofNat K (nat_lit 0) Scalar.instOfNat),
          sv.getD i (@OfNat.ofNat K (nat_lit 0) Scalar.instOfNat), m.getD i true, m.getD i true⟩ : Reject.Pix K)) && m.getD i true) = m.getD i true := by
    intro i hi
    cases hmi : m.getD i true with
    | false => simp
    | true =>
      have he := hex i hi hmi
      rw [z0c] at *
      unfold Reject.badness Reject.addDev Reject.addUp Reject.addLow
      simp only [hu, hd, Bool.false_eq_true, if_false, he, sub_self, neg_zero, zero_mul, gt_iff_lt, lt_irrefl, decide_false,
        Bool.false_and, z0c, if_true]
      cases o.lower <;> cases o.upper <;> simp [Reject.castB, Reject.isZero, z0c]
  congr 1
  refine Prod.ext ?_ ?_
  · simp only [List.map_map]
    have : (List.range data.length).map ((fun p => Reject.isZero (Reject.badness sqrt { o with hasIn := true } p) && p.inm) ∘
        fun i => (⟨data.getD i (@OfNat.ofNat K (nat_lit 0) Scalar.instOfNat), mdl.getD i (@OfNat.ofNat K (nat_lit 0) Scalar.instOfNat),
          sv.getD i (@OfNat.ofNat K (nat_lit 0) Scalar.instOfNat), m.getD i true, m.getD i true⟩ : Reject.Pix K)) =
        (List.range data.length).map (fun i => m.getD i true) := by
      apply List.map_congr_left
      intro i hi
      exact hpix i (List.mem_range.1 hi)
    rw [this, ← hl2]
    exact C10.range_map_getD' m true
  · simp only [List.all_map, List.all_eq_true]
    intro i hi
    simp only [Function.comp]
    rw [hpix i (List.mem_range.1 hi)]
    simp


/-- every stored coefficient is 0 (the state of the object before the first status-0 fit) -/
def AllZero (b : BS K) : Prop := ∀ i : ℕ, b.coeff[i]! = 0

/-- a well-formed object with at least `2·nord` good breakpoints whose good coefficients are all `v` -/
def GoodObj (v : K) (b : BS K) : Prop :=
  ObjOK b ∧ 1 ≤ b.nord ∧ 2 * b.nord ≤ b.gb.size ∧ ∀ j, j < b.gb.size - b.nord → C08.coeffAt b j = v

/-- **contract of the LAPACK pair used by the constant theorem**: whenever `cholesky_band` factored the system that `fit` assembled, what
`cholesky_solve` returns is THE solution of that system - any vector solving it equals it (a successful Cholesky factorisation means a
positive definite, hence non-singular, matrix).  Stated, like C09's `hsolve`, on the calls `fit` makes. -/
def SolveUnique (Kn : Kernels K) : Prop :=
  ∀ (b : BS K) (xs ys ws : List K) rows lower upper mininf a, b.action xs = .ok (some (rows, lower, upper)) →
    choleskyBand Kn (normalSystem rows ys ws lower upper xs.length b.nord (b.gb.size - b.nord)).1 mininf = .ok (.factor a) →
    ∀ s : ℕ → K, (∀ c, c < b.gb.size - b.nord → ∑ c' ∈ range (b.gb.size - b.nord),
        C09.bandFull (assemble (fun p a => ((rows.map List.toArray).toArray[p]!)[a]!) (fun p => ys.toArray[p]!)
          (fun p => ws.toArray[p]!) lower upper xs.length b.nord (b.gb.size - b.nord - b.nord + 1)).1 b.nord c c' * s c'
        = (assemble (fun p a => ((rows.map List.toArray).toArray[p]!)[a]!) (fun p => ys.toArray[p]!)
          (fun p => ws.toArray[p]!) lower upper xs.length b.nord (b.gb.size - b.nord - b.nord + 1)).2 c) →
      ∀ c, c < b.gb.size - b.nord →
        (choleskySolve Kn a (normalSystem rows ys ws lower upper xs.length b.nord (b.gb.size - b.nord)).2)[c]! = s c

/-- with status 0 the fitted values are `yfitOf` of the returned object on the rows of `action` -/
theorem fit_status0_yfit (Kn : Kernels K) (b : BS K) (xs ys ws : List K) (perm : List ℕ) (out : FitOut K)
    (h : BSplineFit.fit Kn b xs ys ws perm = .ok out) (h0 : out.status = 0) :
    ∃ rows lower upper, b.action xs = .ok (some (rows, lower, upper)) ∧
      yfitOf out.obj rows lower upper xs.length perm = .ok out.yfit := by
  unfold BSplineFit.fit at h
  simp only [bind, Except.bind, pure, Except.pure] at h
  repeat' split at h
  all_goals cases h
  all_goals first
    | (exact absurd h0 (C09.maskpoints_ne_zero _ _ _))
    | (simp at h0; done)
    | (exact ⟨_, _, _, by assumption, by assumption⟩)

theorem getD_of_all (l : List K) (v : K) (h : ∀ y ∈ l, y = v) (i : ℕ) (hi : i < l.length) : l.getD i 0 = v := by
  rw [List.getD_eq_getElem?_getD, List.getElem?_eq_getElem hi, Option.getD_some]
  exact h _ (List.getElem_mem hi)

/-- the object handed to `fit` in a pass: `requiren` applied -/
noncomputable def rqSset (rq : Option ℕ) (xw iw : List K) (s : IterFit.St K) : BSpline.R (BS K) :=
  match rq with
  | none => pure s.sset
  | some r => do
    let m ← requirenMask s.sset xw iw s.maskwork r
    pure { s.sset with mask := m }

/-- the rest of a pass: fit, status, rejection -/
noncomputable def bodyTail (Kn : Kernels K) (p : Params K) (xw yw iw : List K) (s : IterFit.St K) (sset' : BS K) : BSpline.R (Outcome K × Bool) := do
  let out ← BSplineFit.fit Kn sset' xw yw (maskedWeights iw s.maskwork) (List.range xw.length)
  let st : IterFit.St K := { s with sset := out.obj, yfit := out.yfit, error := out.status, iiter := s.iiter + 1 }
  if out.status = -2 then pure (.failed out.obj, false)
  else if out.status = 0 then
    let (m, q) ← Reject.djsReject Kn.sqrt (rejectOpts p) yw (some out.yfit) (some s.maskwork) (some s.maskwork) iw
    pure (.done { st with maskwork := m, qdone := q }, false)
  else pure (.done st, false)

theorem iterBodyRq_else (Kn : Kernels K) (p : Params K) (rq : Option ℕ) (xw yw iw : List K) (s : IterFit.St K)
    (hc : ¬ (countTrue s.maskwork ≤ 1 ∨ !(s.sset.mask.any id))) :
    iterBodyRq Kn p rq xw yw iw s = rqSset rq xw iw s >>= bodyTail Kn p xw yw iw s := by
  unfold iterBodyRq
  rw [if_neg hc]
  cases rq with
  | none => rfl
  | some r =>
    simp only [rqSset, bind, Except.bind]
    cases requirenMask s.sset xw iw s.maskwork r <;> rfl

/-- **one pass of `iterfit`'s loop on constant data**: from an object with all-zero coefficients the pass either leaves them all zero (no
status-0 fit: too few breakpoints, masked breakpoints, the degenerate branch) or - status 0 - stores `v` in every good coefficient, the
fitted values equal the data, `djs_reject` rejects NOTHING (`reject_keeps_exact`) and sets `qdone`, which ends the loop -/
theorem iterBodyRq_const (Kn : Kernels K) (hU : SolveUnique Kn) (p : Params K) (rq : Option ℕ) (xw yw iw : List K) (v : K)
    (hsorted : xw.Pairwise (· ≤ ·)) (hyw : ∀ y ∈ yw, y = v) (hyl : yw.length = xw.length) (hil : iw.length = xw.length)
    (s : IterFit.St K) (hz : AllZero s.sset) (hok : ObjOK s.sset) (hk : 1 ≤ s.sset.nord) (hmw : s.maskwork.length = xw.length)
    (o : Outcome K) (z : Bool) (h : iterBodyRq Kn p rq xw yw iw s = .ok (o, z)) :
    match o with
    | .failed b => AllZero b
    | .done s' => (AllZero s'.sset ∧ ObjOK s'.sset ∧ 1 ≤ s'.sset.nord ∧ s'.maskwork.length = xw.length) ∨
        (GoodObj v s'.sset ∧ s'.error = 0 ∧ s'.qdone = true) := by
  by_cases hcond : countTrue s.maskwork ≤ 1 ∨ !(s.sset.mask.any id)
  · -- the degenerate branch
    unfold iterBodyRq at h
    rw [if_pos hcond] at h
    simp only [] at h
    split at h
    · simp only [bind, Except.bind] at h
      split at h
      · cases h
      · rename_i mq hrej
        obtain ⟨m, q⟩ := mq
        simp only [pure, Except.pure, Except.ok.injEq, Prod.mk.injEq] at h
        obtain ⟨rfl, _⟩ := h
        left
        refine ⟨hz, hok, hk, ?_⟩
        simp only []
        rw [C10.djsReject_length Kn.sqrt _ yw s.yfit s.maskwork s.maskwork iw m q hrej, hyl]
    · simp only [pure, Except.pure, Except.ok.injEq, Prod.mk.injEq] at h
      obtain ⟨rfl, _⟩ := h
      left
      exact ⟨hz, hok, hk, hmw⟩
  · -- a fit
    rw [iterBodyRq_else Kn p rq xw yw iw s hcond] at h
    simp only [bind, Except.bind] at h
    split at h
    · cases h
    rename_i sset' hss
    have hss' : sset'.coeff = s.sset.coeff ∧ sset'.nord = s.sset.nord ∧ ObjOK sset' := by
      unfold rqSset at hss
      cases rq with
      | none =>
        simp only [pure, Except.pure, Except.ok.injEq] at hss
        subst hss
        exact ⟨rfl, rfl, hok⟩
      | some r =>
        simp only [bind, Except.bind] at hss
        split at hss
        · cases hss
        · rename_i m hm
          simp only [pure, Except.pure, Except.ok.injEq] at hss
          subst hss
          exact ⟨rfl, rfl, requirenMask_ok s.sset xw iw s.maskwork r m hm hok⟩
    unfold bodyTail at h
    simp only [bind, Except.bind] at h
    obtain ⟨hco', hno', hok'⟩ := hss'
    split at h
    · cases h
    rename_i out hfit
    have hwl : (maskedWeights iw s.maskwork).length = xw.length := by
      unfold maskedWeights; rw [List.length_zipWith, hil, hmw, Nat.min_self]
    obtain ⟨hon, _⟩ := @C09.fit_obj_fields K (fieldScalar K) Kn sset' xw yw _ _ out hfit
    have hobjok := fit_obj_ok Kn sset' xw yw _ _ out hfit hok'
    by_cases hst : out.status = -2
    · -- status -2
      rw [if_pos hst] at h
      simp only [pure, Except.pure, Except.ok.injEq, Prod.mk.injEq] at h
      obtain ⟨rfl, _⟩ := h
      simp only []
      rcases @C09.fit_status K (fieldScalar K) Kn sset' xw yw _ _ out hfit with ⟨h0, _⟩ | ⟨_, hc⟩ | ⟨_, hc, _⟩
      · rw [hst] at h0; cases h0
      · intro i; rw [hc, hco']; exact hz i
      · intro i; rw [hc, hco']; exact hz i
 
    · rw [if_neg hst] at h
      by_cases h0 : out.status = 0
      · -- status 0
        rw [if_pos h0] at h
        have hk' : 1 ≤ sset'.nord := by rw [hno']; exact hk
        obtain ⟨hnord, hgb, hmask, hsize, hcoef⟩ := fit_const_coeffs Kn sset' xw yw _ (List.range xw.length) out hfit h0 hk'
          hok'.hnn hok'.csize hsorted hyl hwl hok'.gb_strict v (fun q hq _ => getD_of_all yw v hyw q (by omega))
          (fun rows lower upper mininf a hact hch => hU sset' xw yw _ rows lower upper mininf a hact hch)
        have hgood : GoodObj v out.obj := by
          refine ⟨hobjok, by rw [hnord]; exact hk', by rw [hgb, hnord]; exact hsize, ?_⟩
          rw [hgb, hnord]; exact hcoef
        -- the fitted values are the data
        obtain ⟨rows, lower, upper, hact, hyf⟩ := fit_status0_yfit Kn sset' xw yw _ _ out hfit h0
        obtain ⟨_, hne, hrows, hlu⟩ := @C10.action_some K (fieldScalar K) sset' xw rows lower upper hk' hact
        have hyfit : out.yfit = xw.map (fun _ => v) := by
          unfold yfitOf at hyf
          simp only [] at hyf
          rw [hgb, hnord] at hyf
          rw [if_neg (by omega)] at hyf
          simp only [pure, Except.pure, Except.ok.injEq] at hyf
          rw [← hyf]
          have hlo : lower = (lowerUpper sset'.nord (sset'.gb.size - sset'.nord)
              (intrvScan (knotAt sset'.gb) (sset'.gb.size - sset'.nord) xw (sset'.nord - 1)).toArray).1 := congrArg Prod.fst hlu
          have hup : upper = (lowerUpper sset'.nord (sset'.gb.size - sset'.nord)
              (intrvScan (knotAt sset'.gb) (sset'.gb.size - sset'.nord) xw (sset'.nord - 1)).toArray).2 := congrArg Prod.snd hlu
          have hvs := C08.value_spec (knotAt sset'.gb) (C08.coeffAt out.obj) sset'.nord (sset'.gb.size - sset'.nord) hk' (by omega) xw hne
            (List.range xw.length) (List.Perm.refl _) (by rw [C10.range_map_getD']; exact hsorted)
          rw [C10.range_map_getD'] at hvs
          rw [hrows, hlo, hup]
          refine Eq.trans hvs ?_
          apply List.map_congr_left
          intro x _
          exact splineAt_const _ _ _ hk' (by omega) _ v hcoef (fun a c hac hc => hok'.gb_strict a c hac (by omega)) x
        -- rejection rejects nothing
        have hrej := reject_keeps_exact Kn.sqrt (rejectOpts p) rfl rfl rfl rfl yw out.yfit iw s.maskwork
          (by rw [hyfit, List.length_map, hyl]) (by rw [hmw, hyl]) (by rw [hil, hyl])
          (fun i hi _ => by
            rw [hyfit, getD_of_all yw v hyw i hi]
            exact getD_of_all _ v (fun y hy => by obtain ⟨_, _, rfl⟩ := List.mem_map.1 hy; rfl) i (by rw [List.length_map, ← hyl]; exact hi))
        rw [hrej] at h
        simp only [pure, Except.pure, Except.ok.injEq, Prod.mk.injEq] at h
        obtain ⟨rfl, _⟩ := h
        right
        exact ⟨hgood, h0, rfl⟩
      · -- masked breakpoints: coefficients unchanged
        rw [if_neg h0] at h
        simp only [pure, Except.pure, Except.ok.injEq, Prod.mk.injEq] at h
        obtain ⟨rfl, _⟩ := h
        left
        refine ⟨?_, hobjok, by rw [hon, hno']; exact hk, hmw⟩
        rcases @C09.fit_status K (fieldScalar K) Kn sset' xw yw _ _ out hfit with ⟨h00, _⟩ | ⟨_, hc⟩ | ⟨_, hc, _⟩
        · exact absurd h00 h0
        · intro i; simp only []; rw [hc, hco']; exact hz i
        · intro i; simp only []; rw [hc, hco']; exact hz i

theorem loop_stop (Kn : Kernels K) (p : Params K) (rq : Option ℕ) (xw yw iw : List K) (fuel : ℕ) (s : IterFit.St K) (cz : Bool)
    (he : s.error = 0) (hq : s.qdone = true) : iterLoopRq Kn p rq xw yw iw fuel s cz = .ok (.done s, cz) := by
  cases fuel with
  | zero => rfl
  | succ f =>
    unfold iterLoopRq
    rw [if_neg]
    · rfl
    · rw [he, hq]; simp

/-- what `iterfit`'s loop can leave on constant data -/
def FinalOK (v : K) : Outcome K → Prop
  | .failed b => AllZero b
  | .done s => AllZero s.sset ∨ GoodObj v s.sset

/-- **the whole rejection loop on constant data**: the object it leaves has all-zero coefficients (never fitted with status 0) or
is the object of the status-0 pass, which was the last one (nothing rejected, `qdone`) -/
theorem iterLoopRq_const (Kn : Kernels K) (hU : SolveUnique Kn) (p : Params K) (rq : Option ℕ) (xw yw iw : List K) (v : K)
    (hsorted : xw.Pairwise (· ≤ ·)) (hyw : ∀ y ∈ yw, y = v) (hyl : yw.length = xw.length) (hil : iw.length = xw.length) :
    ∀ (fuel : ℕ) (s : IterFit.St K) (cz : Bool), AllZero s.sset → ObjOK s.sset → 1 ≤ s.sset.nord → s.maskwork.length = xw.length →
      ∀ (o : Outcome K) (z : Bool), iterLoopRq Kn p rq xw yw iw fuel s cz = .ok (o, z) → FinalOK v o := by
  intro fuel
  induction fuel with
  | zero =>
    intro s cz hz _ _ _ o z h
    simp only [iterLoopRq, pure, Except.pure, Except.ok.injEq, Prod.mk.injEq] at h
    rw [← h.1]
    exact Or.inl hz
  | succ fuel ih =>
    intro s cz hz hok hk hmw o z h
    unfold iterLoopRq at h
    split at h
    · simp only [bind, Except.bind] at h
      cases hB : iterBodyRq Kn p rq xw yw iw s with
      | error e => rw [hB] at h; cases h
      | ok oz =>
        obtain ⟨o', z'⟩ := oz
        rw [hB] at h
        have hb := iterBodyRq_const Kn hU p rq xw yw iw v hsorted hyw hyl hil s hz hok hk hmw o' z' hB
        cases o' with
        | failed b =>
          simp only [pure, Except.pure, Except.ok.injEq, Prod.mk.injEq] at h
          rw [← h.1]
          exact hb
        | done s' =>
          simp only [] at h hb
          rcases hb with ⟨h1, h2, h3, h4⟩ | ⟨hg, he, hq⟩
          · exact ih s' z' h1 h2 h3 h4 o z h
          · rw [loop_stop Kn p rq xw yw iw fuel s' z' he hq] at h
            simp only [Except.ok.injEq, Prod.mk.injEq] at h
            rw [← h.1]
            exact Or.inr hg
    · simp only [pure, Except.pure, Except.ok.injEq, Prod.mk.injEq] at h
      rw [← h.1]
      exact Or.inl hz

theorem default0c : (default : K) = 0 := by
  show ((0 : ℕ) : K) = 0
  exact Nat.cast_zero

theorem allZero_replicate (nord : ℕ) (bk : Array K) (m : Array Bool) (n : ℕ) :
    AllZero (⟨nord, bk, m, Array.replicate n (@OfNat.ofNat K (nat_lit 0) Scalar.instOfNat)⟩ : BS K) := by
  intro i
  simp only []
  rw [getElem!_def, Array.getElem?_replicate]
  by_cases hi : i < n
  · rw [if_pos hi]; exact z0c (K := K)
  · rw [if_neg hi]; exact default0c (K := K)

theorem goodx_sublist (xw : List K) (m : List Bool) : (((xw.zip m).filter (fun xm => xm.2)).map (fun xm => xm.1)).Sublist xw := by
  refine List.Sublist.trans (List.Sublist.map _ List.filter_sublist) ?_
  have : ∀ (xw : List K) (m : List Bool), ((xw.zip m).map (fun xm => xm.1)).Sublist xw := by
    intro xw
    induction xw with
    | nil => intro m; simp
    | cons x xw ih =>
      intro m
      cases m with
      | nil => simp
      | cons b m => simpa using ih m
  exact this xw m

theorem goodx_length : ∀ (xw : List K) (m : List Bool), m.length ≤ xw.length →
    (((xw.zip m).filter (fun xm => xm.2)).map (fun xm => xm.1)).length = countTrue m := by
  intro xw
  induction xw with
  | nil => intro m hm; have : m = [] := List.length_eq_zero_iff.1 (by simpa using hm); subst this; rfl
  | cons x xw ih =>
    intro m hm
    cases m with
    | nil => rfl
    | cons b m =>
      have hm' : m.length ≤ xw.length := by simpa using hm
      have := ih m hm'
      unfold countTrue at this ⊢
      cases b with
      | true => simp only [List.zip_cons_cons, List.filter_cons_of_pos, List.map_cons, List.length_cons, id, this]
      | false => simp only [List.zip_cons_cons, Bool.false_eq_true, not_false_eq_true, List.filter_cons_of_neg, id, this]

/-- **`iterfit`'s core on constant data** (`hknots`: the breakpoints placed on at least `nord` strictly increasing good abscissae are
strictly increasing) -/
theorem iterCoreRq_const (Kn : Kernels K) (hU : SolveUnique Kn) (r32 : K → K) (p : Params K) (hp1 : 1 ≤ p.nord) (rq : Option ℕ)
    (xw yw iw : List K) (v : K) (hstrictx : xw.Pairwise (· < ·)) (hyw : ∀ y ∈ yw, y = v) (hyl : yw.length = xw.length)
    (hil : iw.length = xw.length)
    (hknots : ∀ goodx knots, goodx.Pairwise (· < ·) → p.nord ≤ goodx.length → mkKnots r32 goodx p.nord p.opts = .ok knots →
      knots.Pairwise (· < ·))
    (sset : BS K) (cz : Bool) (m : Option (List Bool)) (h : iterCoreRq Kn r32 p rq xw yw iw = .ok (sset, cz, m)) :
    AllZero sset ∨ GoodObj v sset := by
  have hsorted : xw.Pairwise (· ≤ ·) := hstrictx.imp le_of_lt
  unfold iterCoreRq at h
  simp only [] at h
  split at h
  · cases h
  simp only [bind, Except.bind] at h
  split at h
  · cases h
  rename_i knots hkn
  split at h
  · simp only [pure, Except.pure, Except.ok.injEq, Prod.mk.injEq] at h
    rw [← h.1]
    exact Or.inl (allZero_replicate _ _ _ _)
  · rename_i hcount
    have hgl := goodx_length xw (iw.map (fun v => decide ((@OfNat.ofNat K (nat_lit 0) Scalar.instOfNat) < v))) (by simp [hil])
    have hstrictk := hknots _ knots (hstrictx.sublist (goodx_sublist xw _)) (by rw [hgl]; omega) hkn
    have hok0 : ObjOK (⟨p.nord, knots.toArray, Array.replicate knots.length true,
        Array.replicate (knots.length - p.nord) (@OfNat.ofNat K (nat_lit 0) Scalar.instOfNat)⟩ : BS K) := by
      refine ⟨by simp, by simp, ?_, ?_⟩
      · intro i _ hi
        simp only [Array.size_replicate] at hi
        simp only []
        rw [getElem!_pos _ i (by simpa using hi)]
        simp
      · intro i j hij hj
        simp only [List.size_toArray] at hj
        simp only []
        rw [getElem!_pos _ i (by simp; omega), getElem!_pos _ j (by simpa using hj)]
        simp only [List.getElem_toArray]
        exact List.pairwise_iff_getElem.1 hstrictk i j (by omega) hj hij
    split at h
    · cases h
    · rename_i oz hloop
      obtain ⟨o, z⟩ := oz
      have hfin := iterLoopRq_const Kn hU p rq xw yw iw v hsorted hyw hyl hil (p.maxiter + 1) _ false
        (allZero_replicate _ _ _ _) hok0 hp1 (by simp only [List.length_map]; exact hil) o z hloop
      cases o with
      | failed b =>
        simp only [pure, Except.pure, Except.ok.injEq, Prod.mk.injEq] at h
        rw [← h.1]
        exact Or.inl hfin
      | done s' =>
        simp only [pure, Except.pure, Except.ok.injEq, Prod.mk.injEq] at h
        rw [← h.1]
        exact hfin

/-- **`iterfit` (requiren, degenerate branch, all passes) on constant data** -/
theorem iterfitRq_const (Kn : Kernels K) (hU : SolveUnique Kn) (r32 : K → K) (var : List K → K) (p : Params K) (hp1 : 1 ≤ p.nord)
    (rq : Option ℕ) (xs ys : List K) (ivs : Option (List K)) (perm : List ℕ) (v : K)
    (hperm : perm.Perm (List.range xs.length)) (hsorted : (perm.map (fun i => xs.getD i 0)).Pairwise (· < ·))
    (hys : ∀ y ∈ ys, y = v)
    (hknots : ∀ goodx knots, goodx.Pairwise (· < ·) → p.nord ≤ goodx.length → mkKnots r32 goodx p.nord p.opts = .ok knots →
      knots.Pairwise (· < ·))
    (o : RqOut K) (h : iterfitRq Kn r32 var p rq xs ys ivs perm = .ok o) : AllZero o.sset ∨ GoodObj v o.sset := by
  have hplen : perm.length = xs.length := by rw [hperm.length_eq, List.length_range]
  have hsorted' : (perm.map (fun i => xs.getD i (@OfNat.ofNat K (nat_lit 0) Scalar.instOfNat))).Pairwise (· < ·) := by
    simp only [z0c]; exact hsorted
  unfold iterfitRq at h
  simp only [] at h
  by_cases hyl : ys.length ≠ xs.length
  · rw [if_pos hyl] at h; cases h
  rw [if_neg hyl] at h
  have hyl' : ys.length = xs.length := by simpa using hyl
  have hyw : ∀ y ∈ perm.map (fun i => ys.getD i (@OfNat.ofNat K (nat_lit 0) Scalar.instOfNat)), y = v := by
    intro y hy
    obtain ⟨i, hi, rfl⟩ := List.mem_map.1 hy
    have hil := C10.perm_mem_lt perm _ hperm i hi
    rw [z0c]
    exact getD_of_all ys v hys i (by omega)
  -- the part after the weights are known
  have tail : ∀ (C : BSpline.R (BS K × Bool × Option (List Bool))) (kont : BS K × Bool × Option (List Bool) → BSpline.R (RqOut K)),
      (∀ sset cz m, C = .ok (sset, cz, m) → AllZero sset ∨ GoodObj v sset) →
      (∀ r o', kont r = .ok o' → o'.sset = r.1) →
      (if xs.length ≤ 1 then (.error "Unmodelled" : BSpline.R (RqOut K)) else Except.bind C kont) = .ok o →
      AllZero o.sset ∨ GoodObj v o.sset := by
    intro C kont hC hk ht
    split at ht
    · cases ht
    cases C with
    | error e => cases ht
    | ok r =>
      obtain ⟨sset, cz, m⟩ := r
      have hres := hC sset cz m rfl
      simp only [Except.bind] at ht
      rw [hk _ _ ht]
      exact hres
  have hcoreC : ∀ ivl : List K, ∀ sset cz m,
      iterCoreRq Kn r32 p rq (perm.map (fun i => xs.getD i (@OfNat.ofNat K (nat_lit 0) Scalar.instOfNat)))
        (perm.map (fun i => ys.getD i (@OfNat.ofNat K (nat_lit 0) Scalar.instOfNat)))
        (perm.map (fun i => ivl.getD i (@OfNat.ofNat K (nat_lit 0) Scalar.instOfNat))) = .ok (sset, cz, m) →
      AllZero sset ∨ GoodObj v sset := by
    intro ivl sset cz m hcore
    exact iterCoreRq_const Kn hU r32 p hp1 rq _ _ _ v hsorted' hyw (by simp) (by simp) hknots sset cz m hcore
  cases ivs with
  | some iv =>
    simp only [bind] at h
    by_cases hil : iv.length ≠ xs.length
    · rw [if_pos hil] at h; cases h
    · rw [if_neg hil] at h
      simp only [pure, Except.pure, Except.bind] at h
      refine tail _ _ (hcoreC iv) ?_ h
      intro r o' hr
      obtain ⟨sset, cz, m⟩ := r
      cases m <;> (simp only [Except.ok.injEq] at hr; rw [← hr])
  | none =>
    simp only [bind] at h
    cases hD : defaultIvar var ys with
    | error e => rw [hD] at h; cases h
    | ok ivl =>
      rw [hD] at h
      simp only [Except.bind] at h
      refine tail _ _ (hcoreC ivl) ?_ h
      intro r o' hr
      obtain ⟨sset, cz, m⟩ := r
      cases m <;> (simp only [pure, Except.pure, Except.ok.injEq] at hr; rw [← hr])

theorem coeffZero_of_allZero (b : BS K) (h : AllZero b) : coeffZero b.coeff.toList = true := by
  unfold coeffZero
  have : ∀ (l : List K), (∀ u ∈ l, u = 0) → l.foldl (fun s u => s + absS u) (@OfNat.ofNat K (nat_lit 0) Scalar.instOfNat) = 0 := by
    intro l hl
    rw [z0c]
    induction l with
    | nil => rfl
    | cons u l ih =>
      simp only [List.foldl_cons]
      have hu : u = 0 := hl u List.mem_cons_self
      have : (0 : K) + absS u = 0 := by
        rw [hu]; unfold absS; simp only [z0c, lt_irrefl, if_false, add_zero]
      rw [this]
      exact ih (fun w hw => hl w (List.mem_cons_of_mem _ hw))
  rw [this]
  · exact (scalar_beq _ _).2 z0c.symm
  · intro u hu
    obtain ⟨i, hi, rfl⟩ := List.getElem_of_mem hu
    have := h i
    rw [getElem!_pos b.coeff i (by simpa using hi)] at this
    simpa using this

theorem coeffZero_zero : coeffZero ([(@OfNat.ofNat K (nat_lit 0) Scalar.instOfNat)] : List K) = true := by
  unfold coeffZero
  simp only [List.foldl_cons, List.foldl_nil, absS, z0c, lt_irrefl, if_false, add_zero]
  exact (scalar_beq _ _).2 rfl

/-- **the fit contract of the constant theorem** (about calls whose data are all `v` and whose abscissae are pairwise different only):
a fit that is used (`coeffs` not all zero) evaluates to `v` at every abscissa it is asked for, one value per abscissa -/
def FitConstData (fit : ℕ → K → List K → List K → Option (List K) → Combine.R (Fit K)) (v : K) : Prop :=
  ∀ k bk gx gy giv F, gx.Pairwise (· ≠ ·) → (∀ y ∈ gy, y = v) → fit k bk gx gy giv = .ok F → coeffZero F.coeffs = false →
    ∀ xs vals vm, F.value xs = .ok (vals, vm) → vals.length = xs.length ∧ ∀ u ∈ vals, u = v

/-- **the modelled `iterfit` meets the contract of the constant theorem**: `FitConstData (fitFull …) v` for every `v`, under
* `SolveUnique`: the LAPACK pair returns THE solution of a system it factored,
* `hargsort`: `argsort` returns a sorting permutation,
* `hknots`: the breakpoints the constructor places on at least three strictly increasing good abscissae are strictly increasing.
Everything else - `requiren`, `maskpoints`, the status logic, the ten-pass loop, `djs_reject`, `value` - is followed through the model. -/
theorem fitFull_const (Kn : Kernels K) (hU : SolveUnique Kn) (r32 : K → K) (var : List K → K) (argsortG : List K → List ℕ)
    (hargsort : ∀ l : List K, (argsortG l).Perm (List.range l.length) ∧ ((argsortG l).map (fun i => l.getD i 0)).Pairwise (· ≤ ·))
    (hknots : ∀ (bk : K) goodx knots, goodx.Pairwise (· < ·) → 3 ≤ goodx.length →
      mkKnots r32 goodx 3 (c1fParams bk).opts = .ok knots → knots.Pairwise (· < ·)) (v : K) :
    FitConstData (fitFull Kn r32 var argsortG) v := by
  intro k bk gx gy giv F hgx hgy hF hz xs vals vm hval
  unfold fitFull at hF
  simp only [bind, Except.bind] at hF
  split at hF
  · cases hF
  rename_i o ho
  simp only [pure, Except.pure, Except.ok.injEq] at hF
  subst hF
  simp only [] at hz hval
  obtain ⟨hperm, hsorted⟩ := hargsort gx
  have hdist : ((argsortG gx).map (fun i => gx.getD i 0)).Pairwise (· ≠ ·) :=
    ((C10.map_getD_perm gx 0 (argsortG gx) hperm).pairwise_iff (fun {a b} (h : a ≠ b) => h.symm)).2 hgx
  have hstrict : ((argsortG gx).map (fun i => gx.getD i 0)).Pairwise (· < ·) :=
    (hsorted.and hdist).imp (fun {a b} h => lt_of_le_of_ne h.1 h.2)
  have hres := iterfitRq_const Kn hU r32 var (c1fParams bk) (by simp [c1fParams]) (some 1) gx gy giv (argsortG gx) v hperm hstrict hgy
    (hknots bk) o ho
  cases hcz : o.cz with
  | true =>
    rw [hcz] at hz
    simp only [if_true] at hz
    rw [coeffZero_zero] at hz
    cases hz
  | false =>
    rw [hcz] at hz hval
    simp only [Bool.false_eq_true, if_false] at hz hval
    rcases hres with hall | ⟨hok, hk, hsize, hco⟩
    · rw [coeffZero_of_allZero _ hall] at hz
      cases hz
    · obtain ⟨hpx, hsx⟩ := hargsort xs
      by_cases hne : xs = []
      · -- no abscissa: `value` raises
        subst hne
        have hp0 : argsortG [] = [] := by
          have := hpx.length_eq
          simpa using this
        rw [hp0] at hval
        exfalso
        simp [BS.value, BS.action, BS.intrv, BS.bsplvn, bind, Except.bind, pure, Except.pure, indexError,
          show ¬ o.sset.gb.size < 2 * o.sset.nord by omega] at hval
      · obtain ⟨m, hm⟩ := value_of_const_coeffs o.sset v xs (argsortG xs) hk hsize hne hpx hsx hco hok.gb_strict
        rw [hm] at hval
        simp only [Except.ok.injEq, Prod.mk.injEq] at hval
        rw [← hval.1]
        refine ⟨by rw [List.length_map], ?_⟩
        intro u hu
        obtain ⟨_, _, rfl⟩ := List.mem_map.1 hu
        rfl

/-! ## the breakpoints of a group are strictly increasing (`hknots` discharged in exact arithmetic) -/

theorem padKnots_strict (nord : ℕ) (bs first last : K) (b2 : List K) (hbs : 0 < bs)
    (hsorted : b2.Pairwise (· < ·)) (hfirst : ∀ y ∈ b2, first ≤ y) (hlast : ∀ y ∈ b2, y ≤ last) (hfl : first ≤ last) :
    (padKnots id id nord bs first last b2).Pairwise (· < ·) := by
  simp only [padKnots, id, C08.sc_sub, C08.sc_add, C08.sc_mul, scalar_ofNat]
  have hnn : ∀ i : ℕ, 0 < bs * ((i + 1 : ℕ) : K) := fun i => mul_pos hbs (Nat.cast_pos.2 (by omega))
  have hstep : ∀ a b : ℕ, a < b → bs * ((a + 1 : ℕ) : K) < bs * ((b + 1 : ℕ) : K) := by
    intro a b hab
    exact mul_lt_mul_of_pos_left (Nat.cast_lt.2 (by omega)) hbs
  rw [List.pairwise_append, List.pairwise_append]
  refine ⟨⟨?_, hsorted, ?_⟩, ?_, ?_⟩
  · rw [List.pairwise_map, List.pairwise_reverse]
    exact List.Pairwise.imp_of_mem (fun {a b} _ _ hab => by have := hstep a b hab; linarith) List.pairwise_lt_range
  · intro u hu w hw
    simp only [List.mem_map, List.mem_reverse] at hu
    obtain ⟨i, _, rfl⟩ := hu
    have := hfirst w hw; have := hnn i; linarith
  · rw [List.pairwise_map]
    exact List.Pairwise.imp_of_mem (fun {a b} _ _ hab => by have := hstep a b hab; linarith) List.pairwise_lt_range
  · intro u hu w hw
    simp only [List.mem_map] at hw
    obtain ⟨i, _, rfl⟩ := hw
    have hi := hnn i
    rcases List.mem_append.1 hu with hu | hu
    · simp only [List.mem_map, List.mem_reverse] at hu
      obtain ⟨i', _, rfl⟩ := hu
      have := hnn i'
      linarith
    · have := hlast u hu; linarith

/-- **`hknots` in exact arithmetic** (`r32 = id`): for the call `combine1fiber` makes (`nord = 3`, `bkspace = bkptbin`, `bkspread = 1`) on
strictly increasing good abscissae (at least two), the knot vector the constructor returns is strictly increasing -/
theorem mkKnots_strict (bk : K) (goodx knots : List K) (hs : goodx.Pairwise (· < ·)) (hl : 2 ≤ goodx.length)
    (h : mkKnots id goodx 3 (c1fParams bk).opts = .ok knots) : knots.Pairwise (· < ·) := by
  obtain ⟨x0, rest, rfl⟩ : ∃ x0 rest, goodx = x0 :: rest := by
    cases goodx with
    | nil => simp at hl
    | cons a l => exact ⟨a, l, rfl⟩
  obtain ⟨hminm, hminl⟩ := C08.minOf_spec x0 rest
  obtain ⟨hmaxm, hmaxl⟩ := C08.maxOf_spec x0 rest
  -- the range is positive
  have hrange : 0 < maxOf x0 rest - minOf x0 rest := by
    cases rest with
    | nil => simp at hl
    | cons x1 r =>
      have h01 : x0 < x1 := (List.pairwise_cons.1 hs).1 x1 List.mem_cons_self
      have h1 := hminl x0 List.mem_cons_self
      have h2 := hmaxl x1 (List.mem_cons_of_mem _ List.mem_cons_self)
      linarith
  unfold mkKnots at h
  simp only [bind, Except.bind] at h
  split at h
  · cases h
  rename_i bf hshort
  obtain ⟨b, f32⟩ := bf
  -- the short breakpoint vector
  simp only [shortBkpt, c1fParams] at hshort
  split at hshort
  · split at hshort <;> cases hshort
  rename_i hbk0
  simp only [pure, Except.pure, Except.ok.injEq, Prod.mk.injEq] at hshort
  obtain ⟨hb, hf⟩ := hshort
  generalize hnb : (if truncInt ((maxOf x0 rest - minOf x0 rest) / bk) + 1 < 2 then 2
      else (truncInt ((maxOf x0 rest - minOf x0 rest) / bk) + 1).toNat) = nb at hb
  have hnb2 : 2 ≤ nb := by rw [← hnb]; split <;> omega
  have hpos : (0 : K) < ((nb - 1 : ℕ) : K) := Nat.cast_pos.2 (by omega)
  set temp := (maxOf x0 rest - minOf x0 rest) / (Scalar.ofNat (nb - 1) : K) with htemp
  have htpos : 0 < temp := div_pos hrange hpos
  have hbeq : b = (List.range nb).map (fun (i : ℕ) => (i : K) * temp + minOf x0 rest) := by
    rw [← hb, C08.evenBkpt_eq]
  have hbstrict : b.Pairwise (· < ·) := by
    rw [hbeq, List.pairwise_map]
    refine List.Pairwise.imp_of_mem (fun {a c} _ _ hac => ?_) List.pairwise_lt_range
    have : (a : K) < (c : K) := Nat.cast_lt.2 hac
    have := mul_lt_mul_of_pos_right this htpos
    linarith
  have hblen : b.length = nb := by rw [hbeq]; simp
  obtain ⟨b0, mid, bl, hbsplit⟩ := C08.exists_ends b (by omega)
  have hb0 : b0 = minOf x0 rest := by
    have : b[0]? = some b0 := by rw [hbsplit]; rfl
    rw [hbeq, List.getElem?_map, List.getElem?_range (by omega)] at this
    simp only [Option.map_some, Option.some.injEq, Nat.cast_zero, zero_mul, zero_add] at this
    exact this.symm
  have hbl : bl = maxOf x0 rest := by
    have hlast : b[nb - 1]? = some bl := by
      rw [hbsplit]
      have : (b0 :: (mid ++ [bl])).length = nb := by rw [← hbsplit]; exact hblen
      simp only [List.length_cons, List.length_append, List.length_nil] at this
      rw [show nb - 1 = mid.length + 1 by omega, List.getElem?_cons_succ, List.getElem?_append_right (le_refl _)]
      simp
    rw [hbeq, List.getElem?_map, List.getElem?_range (by omega)] at hlast
    simp only [Option.map_some, Option.some.injEq] at hlast
    rw [← hlast, htemp]
    simp only [scalar_ofNat]
    field_simp
    ring
  have hb1 : b.getD 1 b0 = temp + minOf x0 rest := by
    rw [hbeq, List.getD_eq_getElem?_getD, List.getElem?_map, List.getElem?_range (by omega)]
    simp
  -- patching and padding
  rw [hbsplit, C08.padBkpt_eq 3 _ _ _ b0 bl mid f32 (by rw [← hbsplit]; exact hbstrict.imp le_of_lt)] at h
  injection h with h
  have hsp : (c1fParams bk).opts.bkspread = (1.0 : K) := rfl
  rw [hsp] at h
  rw [← h]
  have e1 : min b0 (minOf x0 rest) = b0 := by rw [hb0]; exact min_self _
  have e2 : max bl (maxOf x0 rest) = bl := by rw [hbl]; exact max_self _
  rw [e1, e2, ← hbsplit]
  have hbs : 0 < (b.getD 1 b0 - b0) * (1.0 : K) := by
    rw [hb1, hb0]
    norm_num
    exact htpos
  refine padKnots_strict 3 _ b0 bl b hbs hbstrict ?_ ?_ (by rw [hb0, hbl]; linarith)
  · intro y hy
    rw [hbsplit] at hy hbstrict
    rcases List.mem_cons.1 hy with rfl | hy
    · exact le_refl _
    · exact le_of_lt ((List.pairwise_cons.1 hbstrict).1 y hy)
  · intro y hy
    rw [hbsplit] at hy hbstrict
    rcases List.mem_cons.1 hy with rfl | hy
    · exact le_of_lt ((List.pairwise_cons.1 hbstrict).1 bl (by simp))
    · rcases List.mem_append.1 hy with hy | hy
      · have := (List.pairwise_append.1 (List.pairwise_cons.1 hbstrict).2).2.2 y hy bl (by simp)
        exact le_of_lt this
      · rw [List.mem_singleton] at hy; rw [hy]

end PydlVerif.CombineConst

/-
Helper lemmas for C11, extension round: the grouping trick of combine1fiber (`padwave`, `ig1`, `ig2`) as a
statement about cut positions (pure `Nat`/`Bool`/`List`), and list facts used by the group loop.
-/
import PydlVerif.Lemmas.Combine
import Mathlib.Tactic.Linarith
import Mathlib.Tactic.Ring

namespace PydlVerif.Combine
open PydlVerif PydlVerif.Interp

/-- the cuts tile the positions `s .. N-1`: each starts where the previous one ended -/
def Tiles : Nat → List (Nat × Nat) → Nat → Prop
  | s, [], N => s = N
  | s, p :: r, N => p.1 = s ∧ p.1 ≤ p.2 ∧ Tiles (p.2 + 1) r N

/-- `l[p.1 : p.2+1]` -/
def piece {β : Type} (l : List β) (p : Nat × Nat) : List β := (l.drop p.1).take (p.2 + 1 - p.1)

theorem tiles_le : ∀ (cuts : List (Nat × Nat)) (s N : Nat), Tiles s cuts N → s ≤ N := by
  intro cuts
  induction cuts with
  | nil => intro s N h; exact le_of_eq h
  | cons p r ih =>
    intro s N h
    obtain ⟨h1, h2, h3⟩ := h
    have := ih _ _ h3
    omega

/-- tiling cuts partition the list: their pieces, concatenated, are the list again -/
theorem tiles_flatten {β : Type} (l : List β) : ∀ (cuts : List (Nat × Nat)) (s N : Nat), Tiles s cuts N →
    (cuts.map (piece l)).flatten = (l.drop s).take (N - s) := by
  intro cuts
  induction cuts with
  | nil => intro s N h; simp [Tiles] at h; subst h; simp
  | cons p r ih =>
    intro s N h
    obtain ⟨h1, h2, h3⟩ := h
    have hle := tiles_le _ _ _ h3
    simp only [List.map_cons, List.flatten_cons, ih _ _ h3, piece]
    subst h1
    have e : N - p.1 = (p.2 + 1 - p.1) + (N - (p.2 + 1)) := by omega
    rw [e, List.take_add, List.drop_drop]
    congr 3
    omega

/-- the per-cut facts of the grouping: the gap after the cut's last position is flagged, the gap before its
first position is flagged unless it is the running first group, no gap inside is flagged -/
def CutOK (g : Nat → Bool) (s o : Nat) (p : Nat × Nat) : Prop :=
  s ≤ p.1 ∧ o ≤ p.2 ∧ g (p.2 + 1) = true ∧ (p.1 = s ∨ g p.1 = true) ∧
  ∀ i, p.1 ≤ i → o ≤ i → i < p.2 → g (i + 1) = false

/-- **the grouping trick, combinatorially**: `g i` = "the gap in front of position `i` is flagged".  With a
group running from `s` up to (at least) `o`, starts = `s` and the flagged positions among `o+1 .. o+n`, ends =
the positions among `o .. o+n` whose next gap is flagged (the last one is): equally many, they tile `s .. o+n`,
and every cut is a maximal unflagged run -/
theorem cuts_tiles (g : Nat → Bool) : ∀ (n s o : Nat), s ≤ o → g (o + n + 1) = true →
    (s :: (List.range' (o + 1) n).filter g).length = ((List.range' o (n + 1)).filter (fun i => g (i + 1))).length ∧
    Tiles s ((s :: (List.range' (o + 1) n).filter g).zip ((List.range' o (n + 1)).filter (fun i => g (i + 1)))) (o + n + 1) ∧
    ∀ p ∈ (s :: (List.range' (o + 1) n).filter g).zip ((List.range' o (n + 1)).filter (fun i => g (i + 1))),
      CutOK g s o p := by
  intro n
  induction n with
  | zero =>
    intro s o hso hg
    have hg' : g (o + 1) = true := by simpa using hg
    have ef : (List.range' o (0 + 1)).filter (fun i => g (i + 1)) = [o] := by
      simp [List.range'_one, List.filter_cons, hg']
    rw [ef]
    simp only [List.range'_zero, List.filter_nil, List.zip_cons_cons, List.zip_nil_right, List.length_cons,
      List.length_nil, true_and]
    refine ⟨⟨rfl, hso, rfl⟩, ?_⟩
    intro p hp
    simp only [List.mem_singleton] at hp
    subst hp
    exact ⟨le_refl _, le_refl _, hg', Or.inl rfl, fun i _ h2 h3 => absurd h3 (by simp only; omega)⟩
  | succ n ih =>
    intro s o hso hg
    have e1 : List.range' o (n + 1 + 1) = o :: List.range' (o + 1) (n + 1) := List.range'_succ ..
    have e2 : List.range' (o + 1) (n + 1) = (o + 1) :: List.range' (o + 1 + 1) n := List.range'_succ ..
    have hg2 : g (o + 1 + n + 1) = true := by rw [← hg]; congr 1; omega
    cases hgo : g (o + 1) with
    | true =>
      obtain ⟨l1, t1, c1⟩ := ih (o + 1) (o + 1) (le_refl _) hg2
      have hA : (List.range' (o + 1) (n + 1)).filter g = (o + 1) :: (List.range' (o + 1 + 1) n).filter g := by
        rw [e2, List.filter_cons, hgo]; rfl
      have hB : (List.range' o (n + 1 + 1)).filter (fun i => g (i + 1)) =
          o :: (List.range' (o + 1) (n + 1)).filter (fun i => g (i + 1)) := by
        rw [e1, List.filter_cons, hgo]; rfl
      rw [hA, hB]
      simp only [List.zip_cons_cons, List.length_cons] at l1 t1 c1 ⊢
      refine ⟨by omega, ⟨rfl, hso, ?_⟩, ?_⟩
      · have : o + (n + 1) + 1 = o + 1 + n + 1 := by omega
        rw [this]; exact t1
      · intro p hp
        rcases List.mem_cons.1 hp with rfl | hp
        · exact ⟨le_refl _, le_refl _, hgo, Or.inl rfl, fun i _ h2 h3 => absurd h3 (by simp only; omega)⟩
        · obtain ⟨a1, a2, a3, a4, a5⟩ := c1 p hp
          refine ⟨by omega, by omega, a3, ?_, fun i h1 h2 h3 => a5 i h1 (by omega) h3⟩
          rcases a4 with h | h
          · right; rw [h]; exact hgo
          · right; exact h
    | false =>
      obtain ⟨l1, t1, c1⟩ := ih s (o + 1) (by omega) hg2
      have hA : (List.range' (o + 1) (n + 1)).filter g = (List.range' (o + 1 + 1) n).filter g := by
        rw [e2, List.filter_cons, hgo]; rfl
      have hB : (List.range' o (n + 1 + 1)).filter (fun i => g (i + 1)) =
          (List.range' (o + 1) (n + 1)).filter (fun i => g (i + 1)) := by
        rw [e1, List.filter_cons, hgo]; rfl
      rw [hA, hB]
      refine ⟨l1, ?_, ?_⟩
      · have : o + (n + 1) + 1 = o + 1 + n + 1 := by omega
        rw [this]; exact t1
      · intro p hp
        obtain ⟨a1, a2, a3, a4, a5⟩ := c1 p hp
        refine ⟨a1, by omega, a3, a4, fun i h1 h2 h3 => ?_⟩
        by_cases hi : i = o
        · subst hi; exact hgo
        · exact a5 i h1 (by omega) h3


/-! ## lengths through `aesthetics` (any scalar type) -/

section lengths
variable {α : Type} [Scalar α]

theorem interpCore_length (t : List (Pt α)) (const : Bool) : (interpCore t const).length = t.length := by
  unfold interpCore
  split
  · simp
  · split
    · simp
    · split
      · simp
      · split
        · simp [constEnds]
        · simp

theorem maskinterp1_length (y : List α) (bad : List Bool) (const : Bool) :
    (maskinterp1 y bad const).length = y.length := by
  simp [maskinterp1, interpCore_length, ptsIdx]

theorem aesthetics_length (flux invvar : List α) (m : Method) (gm : α) (r : List α)
    (hl : invvar.length = flux.length) (h : aesthetics flux invvar m gm = .ok r) : r.length = flux.length := by
  unfold aesthetics at h
  simp only at h
  split at h
  · cases m <;> simp only [Except.ok.injEq] at h <;> first
      | (subst h; simp [maskinterp1_length]; done)
      | (subst h; simp [hl]; done)
      | (subst h; rfl)
      | cases h
  · simp only [Except.ok.injEq] at h; subst h; rfl

theorem damp_length (erf : α → α) (flux invvar : List α) (r : List α) (h : damp erf flux invvar = .ok r) :
    r.length = flux.length := by
  unfold damp at h
  simp only at h
  split at h
  · cases h
  · simp only [Except.ok.injEq] at h
    subst h
    split <;> split <;> simp [maskinterp1_length]

theorem aesth_length (mean : List α → α) (erf : α → α) (flux ivar : List α) (m : Method) (r : List α)
    (hl : ivar.length = flux.length) (h : aesth mean erf flux ivar m = .ok r) : r.length = flux.length := by
  unfold aesth at h
  cases m
  case damp =>
    simp only at h
    split at h
    · exact damp_length erf flux ivar r h
    · simp only [Except.ok.injEq] at h; subst h; rfl
  all_goals exact aesthetics_length flux ivar _ _ r hl h

theorem aesthIf_length (mean : List α → α) (erf : α → α) (flux ivar : List α) (m : Method) (r : List α)
    (hl : ivar.length = flux.length) (h : aesthIf mean erf flux ivar m = .ok r) : r.length = flux.length := by
  unfold aesthIf at h
  split at h
  · exact aesth_length mean erf flux ivar m r hl h
  · simp only [pure, Except.pure, Except.ok.injEq] at h; subst h; rfl

end lengths


section field
variable {K : Type} [Field K] [LinearOrder K] [IsStrictOrderedRing K] [FloorRing K]
attribute [local instance] fieldScalar
attribute [-instance] Scalar.instOfNat Scalar.instOfScientific

theorem lmin_le_init (x0 : K) (xs : List K) : lmin x0 xs ≤ x0 := by
  unfold lmin
  induction xs generalizing x0 with
  | nil => exact le_refl _
  | cons y ys ih =>
    simp only [List.foldl_cons]
    by_cases h : y < x0
    · simp only [h, if_true]; exact le_trans (ih y) (le_of_lt h)
    · simp only [h, if_false]; exact ih x0

theorem lmax_ge_init (x0 : K) (xs : List K) : x0 ≤ lmax x0 xs := by
  unfold lmax
  induction xs generalizing x0 with
  | nil => exact le_refl _
  | cons y ys ih =>
    simp only [List.foldl_cons]
    by_cases h : x0 < y
    · simp only [h, if_true]; exact le_trans (le_of_lt h) (ih y)
    · simp only [h, if_false]; exact ih x0

theorem lmax_ge_mem (x0 : K) (xs : List K) : ∀ a ∈ xs, a ≤ lmax x0 xs := by
  induction xs generalizing x0 with
  | nil => intro a ha; cases ha
  | cons y ys ih =>
    intro a ha
    have e : lmax x0 (y :: ys) = lmax (if x0 < y then y else x0) ys := by simp [lmax]
    rw [e]
    rcases List.mem_cons.1 ha with rfl | ha
    · refine le_trans ?_ (lmax_ge_init _ _)
      by_cases h : x0 < a
      · simp [h]
      · simp only [h, if_false]; exact not_lt.1 h
    · exact ih _ a ha

theorem lmin_le_mem (x0 : K) (xs : List K) : ∀ a ∈ xs, lmin x0 xs ≤ a := by
  induction xs generalizing x0 with
  | nil => intro a ha; cases ha
  | cons y ys ih =>
    intro a ha
    have e : lmin x0 (y :: ys) = lmin (if y < x0 then y else x0) ys := by simp [lmin]
    rw [e]
    rcases List.mem_cons.1 ha with rfl | ha
    · refine le_trans (lmin_le_init _ _) ?_
      by_cases h : a < x0
      · simp [h]
      · simp only [h, if_false]; exact not_lt.1 h
    · exact ih _ a ha

theorem two_lit (m : K) : (@OfNat.ofNat K 2 Scalar.instOfNat : K) * m = 2 * m := by
  rw [scalar_lit]; try norm_num

theorem pad_eq (w0 : K) (ws : List K) (m : K) :
    padwave w0 ws m = (lmin w0 ws - 2 * m) :: ((w0 :: ws) ++ [lmax w0 ws + 2 * m]) := by
  unfold padwave
  rw [two_lit]; rfl

theorem pad_get_zero (w0 : K) (ws : List K) (m d : K) :
    (padwave w0 ws m).getD 0 d = lmin w0 ws - 2 * m := by
  rw [pad_eq]; rfl

theorem pad_get_mid (w0 : K) (ws : List K) (m d : K) (i : Nat) (hi : i < ws.length + 1) :
    (padwave w0 ws m).getD (i + 1) d = (w0 :: ws).getD i d := by
  rw [pad_eq, List.getD_cons_succ]
  simp only [List.getD_eq_getElem?_getD]
  rw [List.getElem?_append_left (by simpa using hi)]

theorem pad_get_last (w0 : K) (ws : List K) (m d : K) :
    (padwave w0 ws m).getD (ws.length + 1 + 1) d = lmax w0 ws + 2 * m := by
  rw [pad_eq, List.getD_cons_succ]
  simp only [List.getD_eq_getElem?_getD]
  rw [List.getElem?_append_right (by simp only [List.length_cons]; omega)]
  have : ws.length + 1 - (w0 :: ws).length = 0 := by simp only [List.length_cons]; omega
  rw [this]; rfl

end field

end PydlVerif.Combine

/-
Helper lemmas for C11 (second extension round): `combine1fiber` (Model/Combine.lean) is equivariant under
`(flux, ivar) ↦ (c·flux, ivar/c²)`, `c > 0` - the group loop for ANY fit that is itself equivariant (`FitScales`; the
modelled `iterfit` is: Lemmas/CombineScaleFit.lean `fitFull_scale`), the variance smoothing of stacked exposures, the
inverse-variance pipeline, the scrub and `aesthetics`.  The bad-region growth compares with the absolute `EPS`; it commutes with
the scaling when no smoothed inverse variance lies in `(0, EPS·max(1, c²))` (`GrowStable`).
-/
import PydlVerif.Lemmas.CombineScaleFit
import PydlVerif.Lemmas.Combine
import PydlVerif.Lemmas.CombineGroups
namespace PydlVerif.CombineScale
open PydlVerif PydlVerif.Interp PydlVerif.Combine

set_option linter.unusedSectionVars false
set_option linter.unusedVariables false
set_option linter.unusedSimpArgs false

section generic
variable {α : Type} [Scalar α]

/-- the part of `groupStep` after the fit -/
def afterFit (newx : List α) (st : St α) (ss : List Nat) (gx : List α) (fb : Option (Fit α) × List Bool) : Combine.R (St α) :=
  match gx with
  | [] => .error "ValueError"
  | g0 :: gr =>
    match fb.1 with
    | some f =>
      if (insideOf newx (lmin g0 gr) (lmax g0 gr)).isEmpty then .ok { st with fcm := scatter st.fcm ss fb.2 } else
        match f.value ((insideOf newx (lmin g0 gr) (lmax g0 gr)).map (fun p => newx.getD p 0)) with
        | .error e => .error e
        | .ok vv => .ok
          { flux := scatter st.flux (insideOf newx (lmin g0 gr) (lmax g0 gr)) vv.1
            mask := scatterConst st.mask (select (insideOf newx (lmin g0 gr) (lmax g0 gr)) vv.2) true
            fcm := scatter st.fcm ss fb.2
            ivar := if (fb.2.map (!·)).any id then st.ivar.map (fun iv => scatterConst iv (select ss (fb.2.map (!·))) 0)
                    else st.ivar }
    | none => .ok { st with fcm := scatter st.fcm ss fb.2 }

def fitOf (fit : Nat → α → List α → List α → Option (List α) → Combine.R (Fit α)) (k : Nat) (bk : α) (gx gy : List α)
    (giv : Option (List α)) (n : Nat) : Combine.R (Option (Fit α) × List Bool) :=
  if n > 2 then do
    let f ← fit k bk gx gy giv
    if coeffZero f.coeffs then pure (none, List.replicate n false) else pure (some f, f.bmask)
  else pure (none, List.replicate n false)

theorem groupStep_eq (fit : Nat → α → List α → List α → Option (List α) → Combine.R (Fit α)) (bk : α) (x y newx : List α)
    (st : St α) (k : Nat) (ss : List Nat) :
    groupStep fit bk x y newx st k ss =
      fitOf fit k bk (ss.map (fun i => x.getD i 0)) (ss.map (fun i => y.getD i 0))
        (st.ivar.map fun iv => ss.map (fun i => iv.getD i 0)) ss.length >>=
      afterFit newx st ss (ss.map (fun i => x.getD i 0)) := by
  unfold groupStep fitOf afterFit
  simp only []
  by_cases h : ss.length > 2
  · simp only [h, if_true, bind, Except.bind]
    cases fit k bk (ss.map (fun i => x.getD i 0)) (ss.map (fun i => y.getD i 0)) (st.ivar.map fun iv => ss.map (fun i => iv.getD i 0)) with
    | error e => rfl
    | ok f =>
      simp only []
      by_cases hz : coeffZero f.coeffs = true
      · simp only [if_pos hz]
        cases ss.map (fun i => x.getD i 0) <;> rfl
      · simp only [if_neg hz]
        cases ss.map (fun i => x.getD i 0) with
        | nil => rfl
        | cons g0 gr =>
          simp only [pure, Except.pure]
          split
          · rfl
          · cases f.value ((insideOf newx (lmin g0 gr) (lmax g0 gr)).map (fun p => newx.getD p 0)) <;> rfl
  · simp only [h, if_false]
    cases ss.map (fun i => x.getD i 0) <;> rfl
/-- the inverse variance of the output pixels before the bad-region growth, as `finish` computes it from the state of the loop -/
def rawOf (oneD : Bool) (nspec ncol : Nat) (x newx : List α) (st : St α) : List α :=
  rawIvar (specsOf oneD nspec ncol x (workIvar oneD x.length st.ivar) st.fcm) newx st.mask

/-- `combine1fiber` up to and including the group loop: `none` when no input pixel is good (the function returns zeros),
otherwise `(oneD, nspec, ncol)` and the state the loop leaves -/
def c1fLoop (fit : Nat → α → List α → List α → Option (List α) → Combine.R (Fit α))
    (argsort : List α → List Nat) (med : List α → α) (inp : Input α) : Combine.R (Option (Bool × Nat × Nat × St α)) := do
  if inp.fshape ≠ inp.xshape then throw "ValueError"
  match inp.ishape with
  | some s => if s ≠ inp.xshape then throw "ValueError"
  | none => pure ()
  let binsz ← binszOf inp
  let maxsep : α := match inp.maxsep with | some m => m | none => 2.0 * binsz
  let (oneD, nspec, ncol) ← match inp.xshape with
    | [n] => pure (true, 1, n)
    | [ns, nc] => pure (false, ns, nc)
    | _ => throw "ValueError"
  let npix := inp.x.length
  let nfinal := inp.newx.length
  let nonzero : List Nat := match inp.ivar with
    | none => List.range npix
    | some iv => (List.range npix).filter fun i => decide (iv.getD i 0 > 0)
  if nonzero.isEmpty then pure none else
  let perm := argsort (nonzero.map fun i => inp.x.getD i 0)
  let isort := perm.map fun p => nonzero.getD p 0
  let groups ← groupsOf inp.x isort maxsep
  let iv0 ← match inp.ivar with
    | some iv => if oneD then pure (some iv) else some <$> smoothIvar med nspec ncol iv
    | none => pure none
  let st0 : St α := ⟨List.replicate nfinal 0, List.replicate nfinal false, List.replicate npix false, iv0⟩
  let st ← groupLoop fit (1.2 * binsz) inp.x inp.flux inp.newx st0 groups
  pure (some (oneD, nspec, ncol, st))

/-- what `combine1fiber` does with the state of the loop -/
def c1fFinish (mean : List α → α) (erf : α → α) (classify : α → Val α) (inp : Input α) :
    Option (Bool × Nat × Nat × St α) → Combine.R (List α × List α)
  | none => pure (List.replicate inp.newx.length 0, List.replicate inp.newx.length 0)
  | some (oneD, nspec, ncol, st) => finish mean erf classify oneD nspec ncol inp.x inp.newx inp.method st

set_option hygiene false in
local macro "c1f_loop" : tactic =>
  `(tactic| (generalize groupLoop (α := α) _ _ _ _ _ _ _ = L; cases L <;> rfl))
set_option hygiene false in
local macro "c1f_groups" : tactic =>
  `(tactic| (generalize groupsOf (α := α) _ _ _ = G; cases G with
      | error e => rfl
      | ok groups =>
        simp only [if_true, Bool.false_eq_true, if_false]
        first
          | c1f_loop
          | (generalize smoothIvar (α := α) _ _ _ _ = S
             cases S with
             | error e => rfl
             | ok iv1 => simp only [Functor.map, Except.map]; c1f_loop)))
set_option hygiene false in
local macro "c1f_ivar" : tactic =>
  `(tactic| (cases ivar with
      | none =>
        simp only []
        by_cases he : (List.range x.length).isEmpty = true
        · simp only [he, if_true]
        · simp only [he, if_false]; c1f_groups
      | some iv =>
        simp only []
        by_cases he : (List.filter (fun i => decide (iv.getD i 0 > 0)) (List.range x.length)).isEmpty = true
        · simp only [he, if_true]
        · simp only [he, if_false]; c1f_groups))
set_option hygiene false in
local macro "c1f_tail" : tactic =>
  `(tactic| (cases B with
      | error e => rfl
      | ok bz =>
        simp only []
        rcases fshape with _ | ⟨n, _ | ⟨nc, _ | ⟨n3, rest⟩⟩⟩
        · rfl
        · c1f_ivar
        · c1f_ivar
        · rfl))

theorem combine1fiber_eq (fit : Nat → α → List α → List α → Option (List α) → Combine.R (Fit α))
    (argsort : List α → List Nat) (med : List α → α) (mean : List α → α) (erf : α → α) (classify : α → Val α) (inp : Input α) :
    combine1fiber fit argsort med mean erf classify inp =
      c1fLoop fit argsort med inp >>= c1fFinish mean erf classify inp := by
  unfold combine1fiber c1fLoop c1fFinish
  generalize binszOf inp = B
  obtain ⟨xshape, fshape, ishape, x, flux, ivar, newx, binsz, maxsep, method⟩ := inp
  simp only [bind, Except.bind, pure, Except.pure, throw, throwThe, MonadExceptOf.throw, ne_eq]
  by_cases h1 : fshape = xshape
  swap
  · simp only [h1, not_false_eq_true, if_true]
  subst h1
  simp only [not_true_eq_false, if_false]
  have finishTac : True := trivial
  cases ishape with
  | none =>
    simp only []
    c1f_tail
  | some s =>
    simp only []
    by_cases h2 : s = fshape
    swap
    · simp only [h2, not_false_eq_true, if_true]
    simp only [h2, not_true_eq_false, if_false]
    c1f_tail

/-- the group loop keeps `objivar` an array -/
theorem groupStep_ivar_some (fit : Nat → α → List α → List α → Option (List α) → Combine.R (Fit α)) (bk : α)
    (x y newx : List α) (st st' : St α) (k : Nat) (ss : List Nat) (h : groupStep fit bk x y newx st k ss = .ok st')
    (hs : st.ivar.isSome) : st'.ivar.isSome := by
  rw [groupStep_eq] at h
  generalize fitOf fit k bk _ _ _ ss.length = F at h
  cases F with
  | error e => cases h
  | ok fb =>
    simp only [bind, Except.bind] at h
    unfold afterFit at h
    obtain ⟨iv, hiv⟩ := Option.isSome_iff_exists.1 hs
    repeat' split at h
    all_goals cases h
    all_goals simp only [hiv, Option.map_some, Option.isSome_some]

theorem groupLoop_ivar_some (fit : Nat → α → List α → List α → Option (List α) → Combine.R (Fit α)) (bk : α)
    (x y newx : List α) (groups : List (List Nat)) (st st' : St α) (h : groupLoop fit bk x y newx st groups = .ok st')
    (hs : st.ivar.isSome) : st'.ivar.isSome := by
  unfold groupLoop at h
  generalize List.range groups.length = l at h
  induction l generalizing st with
  | nil => simp only [List.foldlM_nil, pure, Except.pure, Except.ok.injEq] at h; rw [← h]; exact hs
  | cons k l ih =>
    simp only [List.foldlM_cons, bind, Except.bind] at h
    split at h
    · cases h
    · rename_i s1 hs1
      exact ih s1 (groupStep_ivar_some fit bk x y newx st s1 k _ hs1 hs) h

set_option hygiene false in
local macro "c1fi_loop" : tactic =>
  `(tactic| (generalize hL : groupLoop (α := α) _ _ _ _ _ _ _ = L at h
             cases L with
             | error e => cases h
             | ok st1 =>
               simp only [Except.ok.injEq, Option.some.injEq, Prod.mk.injEq] at h
               obtain ⟨_, _, _, rfl⟩ := h
               exact groupLoop_ivar_some _ _ _ _ _ _ _ _ hL rfl))
set_option hygiene false in
local macro "c1fi_groups" : tactic =>
  `(tactic| (by_cases he : (List.filter (fun i => decide (iv.getD i 0 > 0)) (List.range x.length)).isEmpty = true
             · simp only [he, if_true] at h; cases h
             · simp only [he, if_false] at h
               generalize groupsOf (α := α) _ _ _ = G at h
               cases G with
               | error e => cases h
               | ok groups =>
                 simp only [if_true, Bool.false_eq_true, if_false] at h
                 first
                   | c1fi_loop
                   | (generalize smoothIvar (α := α) _ _ _ _ = S at h
                      cases S with
                      | error e => cases h
                      | ok iv1 => simp only [Functor.map, Except.map] at h; c1fi_loop)))
set_option hygiene false in
local macro "c1fi_tail" : tactic =>
  `(tactic| (cases B with
      | error e => cases h
      | ok bz =>
        simp only [] at h
        rcases fshape with _ | ⟨n, _ | ⟨nc, _ | ⟨n3, rest⟩⟩⟩
        · cases h
        · c1fi_groups
        · c1fi_groups
        · cases h))

/-- with `objivar` given, the state the group loop leaves still carries the (working) inverse variance -/
theorem c1fLoop_ivar_some (fit : Nat → α → List α → List α → Option (List α) → Combine.R (Fit α))
    (argsort : List α → List Nat) (med : List α → α) (inp : Input α) (iv : List α) (hiv : inp.ivar = some iv)
    (oneD : Bool) (nspec ncol : Nat) (st : St α)
    (h : c1fLoop fit argsort med inp = .ok (some (oneD, nspec, ncol, st))) : st.ivar.isSome := by
  obtain ⟨xshape, fshape, ishape, x, flux, ivar, newx, binsz, maxsep, method⟩ := inp
  simp only [] at hiv
  subst hiv
  unfold c1fLoop at h
  generalize binszOf (⟨xshape, fshape, ishape, x, flux, some iv, newx, binsz, maxsep, method⟩ : Input α) = B at h
  simp only [bind, Except.bind, pure, Except.pure, throw, throwThe, MonadExceptOf.throw, ne_eq] at h
  by_cases h1 : fshape = xshape
  swap
  · simp only [h1, not_false_eq_true, if_true] at h; cases h
  subst h1
  simp only [not_true_eq_false, if_false] at h
  cases ishape with
  | none =>
    simp only [] at h
    c1fi_tail
  | some s =>
    simp only [] at h
    by_cases h2 : s = fshape
    swap
    · simp only [h2, not_false_eq_true, if_true] at h; cases h
    simp only [h2, not_true_eq_false, if_false] at h
    c1fi_tail


/-- `nonzero`: the input pixels that take part (all of them without `objivar`) -/
def nonzeroOf (inp : Input α) : List Nat :=
  match inp.ivar with
  | none => List.range inp.x.length
  | some iv => (List.range inp.x.length).filter fun i => decide (iv.getD i 0 > 0)

/-- `isort = nonzero[inloglam[nonzero].argsort()]` -/
def isortOf (argsort : List α → List Nat) (inp : Input α) : List Nat :=
  (argsort ((nonzeroOf inp).map fun i => inp.x.getD i 0)).map fun p => (nonzeroOf inp).getD p 0

set_option hygiene false in
local macro "c1fp_loop" : tactic =>
  `(tactic| (generalize hL : groupLoop (α := α) _ _ _ _ _ _ _ = L at h
             cases L with
             | error e => cases h
             | ok st1 =>
               simp only [Except.ok.injEq, Option.some.injEq, Prod.mk.injEq] at h
               obtain ⟨_, _, _, rfl⟩ := h
               exact ⟨_, _, _, _, hG, hL⟩))
set_option hygiene false in
local macro "c1fp_groups" : tactic =>
  `(tactic| (generalize hG : groupsOf (α := α) _ _ _ = G at h
             cases G with
             | error e => cases h
             | ok groups =>
               simp only [if_true, Bool.false_eq_true, if_false] at h
               first
                 | c1fp_loop
                 | (generalize smoothIvar (α := α) _ _ _ _ = S at h
                    cases S with
                    | error e => cases h
                    | ok iv1 => simp only [Functor.map, Except.map] at h; c1fp_loop)))
set_option hygiene false in
local macro "c1fp_ivar" : tactic =>
  `(tactic| (cases ivar with
      | none =>
        simp only [] at h
        by_cases he : (List.range x.length).isEmpty = true
        · simp only [he, if_true] at h; cases h
        · simp only [he, if_false] at h; c1fp_groups
      | some iv =>
        simp only [] at h
        by_cases he : (List.filter (fun i => decide (iv.getD i 0 > 0)) (List.range x.length)).isEmpty = true
        · simp only [he, if_true] at h; cases h
        · simp only [he, if_false] at h; c1fp_groups))
set_option hygiene false in
local macro "c1fp_tail" : tactic =>
  `(tactic| (cases B with
      | error e => cases h
      | ok bz =>
        simp only [] at h
        rcases fshape with _ | ⟨n, _ | ⟨nc, _ | ⟨n3, rest⟩⟩⟩
        · cases h
        · c1fp_ivar
        · c1fp_ivar
        · cases h))

/-- **`combine1fiber` decomposed**: when the prelude and the group loop return a state, that state is what `groupLoop` leaves for the
groups of `groupsOf` on the sorted good pixels, started from zero flux, all-False `newmask` and `fullcombmask` (`combine1fiber_eq`:
the function's result is `finish` of that state) -/
theorem c1fLoop_some_spec (fit : Nat → α → List α → List α → Option (List α) → Combine.R (Fit α))
    (argsort : List α → List Nat) (med : List α → α) (inp : Input α) (oneD : Bool) (nspec ncol : Nat) (st : St α)
    (h : c1fLoop fit argsort med inp = .ok (some (oneD, nspec, ncol, st))) :
    ∃ (bk maxsep : α) (groups : List (List Nat)) (iv0 : Option (List α)),
      groupsOf inp.x (isortOf argsort inp) maxsep = .ok groups ∧
      groupLoop fit bk inp.x inp.flux inp.newx
        ⟨List.replicate inp.newx.length 0, List.replicate inp.newx.length false, List.replicate inp.x.length false, iv0⟩ groups = .ok st := by
  obtain ⟨xshape, fshape, ishape, x, flux, ivar, newx, binsz, maxsep, method⟩ := inp
  unfold c1fLoop at h
  generalize binszOf (⟨xshape, fshape, ishape, x, flux, ivar, newx, binsz, maxsep, method⟩ : Input α) = B at h
  simp only [bind, Except.bind, pure, Except.pure, throw, throwThe, MonadExceptOf.throw, ne_eq] at h
  by_cases h1 : fshape = xshape
  swap
  · simp only [h1, not_false_eq_true, if_true] at h; cases h
  subst h1
  simp only [not_true_eq_false, if_false] at h
  cases ishape with
  | none =>
    simp only [] at h
    c1fp_tail
  | some s =>
    simp only [] at h
    by_cases h2 : s = fshape
    swap
    · simp only [h2, not_false_eq_true, if_true] at h; cases h
    simp only [h2, not_true_eq_false, if_false] at h
    c1fp_tail

end generic

section field
variable {K : Type} [Field K] [LinearOrder K] [IsStrictOrderedRing K] [FloorRing K]
attribute [local instance] fieldScalar
attribute [-instance] Scalar.instOfNat Scalar.instOfScientific

/-! ## scatter / select -/

theorem scatter_map {β : Type} (g : β → β) (arr : List β) (idx : List ℕ) (vals : List β) :
    scatter (arr.map g) idx (vals.map g) = (scatter arr idx vals).map g := by
  unfold scatter
  rw [List.zip_map_right]
  generalize idx.zip vals = l
  induction l generalizing arr with
  | nil => rfl
  | cons iv l ih =>
    simp only [List.map_cons, List.foldl_cons, Prod.map, id]
    rw [← List.map_set, ih]

theorem scatterConst_map {β : Type} (g : β → β) (arr : List β) (idx : List ℕ) (v : β) :
    scatterConst (arr.map g) idx (g v) = (scatterConst arr idx v).map g := by
  unfold scatterConst
  induction idx generalizing arr with
  | nil => rfl
  | cons i l ih =>
    simp only [List.foldl_cons]
    rw [← List.map_set, ih]

/-! ## the all-zero-coefficient test -/

theorem absS_scale (c : K) (hc : 0 < c) (v : K) : absS (c * v) = c * absS v := by
  unfold absS
  simp only [z0]
  by_cases h : v < 0
  · rw [if_pos h, if_pos (mul_neg_of_pos_of_neg hc h)]; ring
  · rw [if_neg h, if_neg (fun h' => h (by
      rcases lt_or_ge v 0 with h1 | h1
      · exact h1
      · exact absurd h' (not_lt.2 (mul_nonneg hc.le h1))))]

theorem coeffZero_scale (c : K) (hc : 0 < c) (l : List K) : coeffZero (l.map (c * ·)) = coeffZero l := by
  unfold coeffZero
  have h : ∀ (l : List K) (a : K), (l.map (c * ·)).foldl (fun s v => s + absS v) (c * a) = c * l.foldl (fun s v => s + absS v) a := by
    intro l
    induction l with
    | nil => intro a; rfl
    | cons v l ih =>
      intro a
      simp only [List.map_cons, List.foldl_cons]
      rw [absS_scale c hc, ← mul_add, ih]
  have h0 := h l 0
  rw [mul_zero] at h0
  simp only [z0]
  rw [h0]
  simp only [Scalar.beq]
  rw [decide_eq_decide]
  exact mul_eq_zero.trans (or_iff_right (ne_of_gt hc))

/-! ## the group loop -/

/-- the loop state for the scaled input -/
def scaleSt (c : K) (st : St K) : St K :=
  { flux := st.flux.map (c * ·), mask := st.mask, fcm := st.fcm, ivar := st.ivar.map (fun iv => iv.map (· / c ^ 2)) }

/-- the `fit` parameter is scale equivariant (calls with an inverse variance) -/
def FitScales (fit : ℕ → K → List K → List K → Option (List K) → Combine.R (Fit K)) (c : K) : Prop :=
  ∀ k bk gx gy giv, fit k bk gx (gy.map (c * ·)) (some (giv.map (· / c ^ 2))) = (fit k bk gx gy (some giv)).map (scaleFit c)

theorem fitOf_scale (fit : ℕ → K → List K → List K → Option (List K) → Combine.R (Fit K)) (c : K) (hc : 0 < c)
    (hfit : FitScales fit c) (k : ℕ) (bk : K) (gx gy giv : List K) (n : ℕ) :
    fitOf fit k bk gx (gy.map (c * ·)) (some (giv.map (· / c ^ 2))) n =
      (fitOf fit k bk gx gy (some giv) n).map (fun fb => (fb.1.map (scaleFit c), fb.2)) := by
  unfold fitOf
  split
  · rw [hfit]
    cases fit k bk gx gy (some giv) with
    | error e => rfl
    | ok f =>
      simp only [Except.map, bind, Except.bind]
      have : coeffZero (scaleFit c f).coeffs = coeffZero f.coeffs := coeffZero_scale c hc f.coeffs
      rw [this]
      split <;> rfl
  · rfl

theorem afterFit_scale (c : K) (newx : List K) (st : St K) (ss : List ℕ) (gx : List K) (fo : Option (Fit K)) (bm : List Bool) :
    afterFit newx (scaleSt c st) ss gx (fo.map (scaleFit c), bm) = (afterFit newx st ss gx (fo, bm)).map (scaleSt c) := by
  have hz : ∀ (l : List K) (idx : List ℕ), scatterConst (l.map (· / c ^ 2)) idx (@OfNat.ofNat K (nat_lit 0) Scalar.instOfNat) =
      (scatterConst l idx (@OfNat.ofNat K (nat_lit 0) Scalar.instOfNat)).map (· / c ^ 2) := by
    intro l idx
    have := scatterConst_map (fun v : K => v / c ^ 2) l idx 0
    rw [zero_div] at this
    rw [z0]; exact this
  unfold afterFit
  cases gx with
  | nil => rfl
  | cons g0 gr =>
    cases fo with
    | none => rfl
    | some f =>
      simp only [Option.map_some]
      split
      · rfl
      · have hv : (scaleFit c f).value = fun xs => (f.value xs).map (fun vm => (vm.1.map (c * ·), vm.2)) := rfl
        rw [hv]
        simp only []
        cases f.value ((insideOf newx (lmin g0 gr) (lmax g0 gr)).map (fun p => newx.getD p (@OfNat.ofNat K (nat_lit 0) Scalar.instOfNat))) with
        | error e => rfl
        | ok vv =>
          simp only [Except.map, scaleSt, scatter_map]
          congr 2
          cases st.ivar with
          | none => simp only [Option.map_none, ite_self]
          | some iv =>
            simp only [Option.map_some, hz]
            split <;> rfl

/-- **one pass of the group loop is scale equivariant** (any equivariant fit; `objivar` given) -/
theorem groupStep_scale (fit : ℕ → K → List K → List K → Option (List K) → Combine.R (Fit K)) (c : K) (hc : 0 < c)
    (hfit : FitScales fit c) (bk : K) (x y newx : List K) (st : St K) (iv : List K) (hst : st.ivar = some iv)
    (k : ℕ) (ss : List ℕ) :
    groupStep fit bk x (y.map (c * ·)) newx (scaleSt c st) k ss =
      (groupStep fit bk x y newx st k ss).map (scaleSt c) := by
  rw [groupStep_eq, groupStep_eq]
  have e1 : (scaleSt c st).ivar = some (iv.map (· / c ^ 2)) := by unfold scaleSt; rw [hst]; rfl
  rw [e1, hst]
  simp only [Option.map_some, map_getD_map (fun x => c * x) (mul_zero c), map_getD_map (fun x => x / c ^ 2) (zero_div _)]
  rw [fitOf_scale fit c hc hfit]
  exact bind_map_comm _ _ _ _ _ (fun fb => afterFit_scale c newx st ss _ fb.1 fb.2)

theorem groupLoop_scale (fit : ℕ → K → List K → List K → Option (List K) → Combine.R (Fit K)) (c : K) (hc : 0 < c)
    (hfit : FitScales fit c) (bk : K) (x y newx : List K) (groups : List (List ℕ)) (st : St K) (hs : st.ivar.isSome) :
    groupLoop fit bk x (y.map (c * ·)) newx (scaleSt c st) groups =
      (groupLoop fit bk x y newx st groups).map (scaleSt c) := by
  unfold groupLoop
  generalize List.range groups.length = l
  induction l generalizing st with
  | nil => rfl
  | cons k l ih =>
    simp only [List.foldlM_cons]
    obtain ⟨iv, hiv⟩ := Option.isSome_iff_exists.1 hs
    rw [groupStep_scale fit c hc hfit bk x y newx st iv hiv]
    cases hG : groupStep fit bk x y newx st k (groups.getD k []) with
    | error e => rfl
    | ok st1 =>
      simp only [Except.map, bind, Except.bind]
      exact ih st1 (groupStep_ivar_some fit bk x y newx st st1 k _ hG hs)

/-! ## the variance smoothing of stacked exposures (`djs_median`, width 101) -/

theorem medianFilt_scale (c : K) (med : List K → K) (hmed : ∀ l, med (l.map (· / c ^ 2)) = med l / c ^ 2) (a : List K) (w : ℕ) :
    medianFilt med (a.map (· / c ^ 2)) w = (medianFilt med a w).map (fun l => l.map (· / c ^ 2)) := by
  unfold medianFilt
  simp only [List.length_map]
  split
  · rfl
  · simp only [Except.map, List.map_map, Function.comp_def]
    congr 1
    apply List.map_congr_left
    intro i _
    split
    · exact getD_map0' (fun x => x / c ^ 2) (zero_div _) a i
    · rw [← List.map_drop, ← List.map_take, hmed]

theorem smoothIvar_scale (c : K) (hc : 0 < c) (med : List K → K) (hmed : ∀ l, med (l.map (· / c ^ 2)) = med l / c ^ 2)
    (nspec ncol : ℕ) (iv : List K) :
    smoothIvar med nspec ncol (iv.map (· / c ^ 2)) = (smoothIvar med nspec ncol iv).map (fun l => l.map (· / c ^ 2)) := by
  unfold smoothIvar
  generalize List.range nspec = l
  induction l generalizing iv with
  | nil => rfl
  | cons spec l ih =>
    simp only [List.foldlM_cons]
    have hgood : (List.range ncol).filter (fun col => decide ((iv.map (· / c ^ 2)).getD (spec * ncol + col) (@OfNat.ofNat K (nat_lit 0) Scalar.instOfNat) > (@OfNat.ofNat K (nat_lit 0) Scalar.instOfNat))) =
        (List.range ncol).filter (fun col => decide (iv.getD (spec * ncol + col) (@OfNat.ofNat K (nat_lit 0) Scalar.instOfNat) > (@OfNat.ofNat K (nat_lit 0) Scalar.instOfNat))) := by
      congr 1
      funext col
      rw [getD_map0' (fun x => x / c ^ 2) (zero_div _), decide_eq_decide, z0]
      exact pos_div_sq c hc _
    rw [hgood]
    split
    · simp only [pure, Except.pure, bind, Except.bind]
      exact ih iv
    · have hget : ∀ idx : List ℕ, idx.map (fun col => (iv.map (· / c ^ 2)).getD (spec * ncol + col) (@OfNat.ofNat K (nat_lit 0) Scalar.instOfNat)) =
          (idx.map (fun col => iv.getD (spec * ncol + col) (@OfNat.ofNat K (nat_lit 0) Scalar.instOfNat))).map (· / c ^ 2) := by
        intro idx
        rw [List.map_map]
        apply List.map_congr_left
        intro col _
        exact getD_map0' (fun x => x / c ^ 2) (zero_div _) iv _
      rw [hget, medianFilt_scale c med hmed]
      cases medianFilt med _ 101 with
      | error e => rfl
      | ok m =>
        simp only [Except.map, bind, Except.bind, pure, Except.pure, scatter_map]
        exact ih _

/-! ## bad-region growth, scrub -/

theorem smooth3_scale (c : K) (a : List K) : smooth3 (a.map (· / c ^ 2)) = (smooth3 a).map (· / c ^ 2) := by
  unfold smooth3
  simp only [List.length_map, List.map_map, Function.comp_def]
  apply List.map_congr_left
  intro i _
  split
  · exact getD_map0' (fun x => x / c ^ 2) (zero_div _) a i
  · rw [getD_map0' (fun x => x / c ^ 2) (zero_div _), getD_map0' (fun x => x / c ^ 2) (zero_div _),
      getD_map0' (fun x => x / c ^ 2) (zero_div _)]
    generalize (@OfScientific.ofScientific K Scalar.instOfScientific 30 true 1) = t
    ring

/-- the bad-region test `|smooth(newivar, 3)| < EPS` gives the same answer for `newivar/c²`: no smoothed value lies between the
two thresholds -/
def GrowStable (c : K) (a : List K) : Prop := ∀ v ∈ smooth3 a, (absS (v / c ^ 2) < eps ↔ absS v < eps)

theorem absS_eq_abs (v : K) : absS v = |v| := by
  unfold absS
  simp only [z0]
  split
  · rename_i h; rw [abs_of_neg h]
  · rename_i h; rw [abs_of_nonneg (not_lt.1 h)]

/-- sufficient: every smoothed value is 0 or at least `EPS·max(1, c²)` -/
theorem growStable_of_gap (c : K) (hc : 0 < c) (a : List K)
    (h : ∀ v ∈ smooth3 a, v = 0 ∨ (eps ≤ |v| ∧ eps * c ^ 2 ≤ |v|)) : GrowStable c a := by
  intro v hv
  have hc2 : (0 : K) < c ^ 2 := by positivity
  rw [absS_eq_abs, absS_eq_abs, abs_div, abs_of_pos hc2]
  rcases h v hv with rfl | ⟨h1, h2⟩
  · simp
  · constructor
    · intro h3
      exact absurd ((div_lt_iff₀ hc2).1 h3) (not_lt.2 h2)
    · intro h3
      exact absurd h3 (not_lt.2 h1)

theorem growBad_scale (c : K) (a : List K) (hg : GrowStable c a) : growBad (a.map (· / c ^ 2)) = (growBad a).map (· / c ^ 2) := by
  have hbad : badRegion (a.map (· / c ^ 2)) = badRegion a := by
    unfold badRegion
    rw [smooth3_scale, List.map_map]
    apply List.map_congr_left
    intro v hv
    rw [Function.comp, decide_eq_decide]
    exact hg v hv
  unfold growBad
  simp only [hbad, List.length_map, List.map_map, Function.comp_def]
  apply List.map_congr_left
  intro p _
  split
  · rw [z0, zero_div]
  · exact getD_map0' (fun x => x / c ^ 2) (zero_div _) a p

theorem scrub_scale (c : K) (classify : K → Val K) (hcl : ∀ v, isFin classify v = true) (f v : List K) :
    scrub classify (f.map (c * ·)) (v.map (· / c ^ 2)) = (scrub classify f v).map (fun q => (c * q.1, q.2 / c ^ 2)) := by
  unfold scrub
  simp only [hcl, Bool.and_self, if_true]
  rw [List.zipWith_map_left, List.zipWith_map_right, List.map_zipWith]

/-! ## aesthetics -/

theorem interpGo_mul (c lam : K) : ∀ (rest : List (K × K)) (x0 f0 : K),
    interpGo lam x0 (c * f0) (rest.map fun q => (q.1, c * q.2)) = c * interpGo lam x0 f0 rest := by
  intro rest
  induction rest with
  | nil => intro x0 f0; simp [interpGo]
  | cons q rest ih =>
    intro x0 f0
    obtain ⟨x1, f1⟩ := q
    simp only [List.map_cons, interpGo]
    split
    · split
      · rfl
      · ring
    · exact ih x1 f1

theorem npInterp_mul (c x0 f0 : K) (rest : List (K × K)) (lam : K) :
    npInterp x0 (c * f0) (rest.map fun q => (q.1, c * q.2)) lam = c * npInterp x0 f0 rest lam := by
  unfold npInterp
  split
  · rfl
  · exact interpGo_mul c lam rest x0 f0

/-- the samples with their values multiplied by `c` -/
def scalePts (c : K) (t : List (Pt K)) : List (Pt K) := t.map fun p => ⟨p.x, c * p.y, p.bad⟩

theorem findIdx_scalePts (c : K) (t : List (Pt K)) (P : Bool → Bool) :
    (scalePts c t).findIdx (fun p => P p.bad) = t.findIdx (fun p => P p.bad) := by
  unfold scalePts
  induction t with
  | nil => rfl
  | cons p t ih => simp only [List.map_cons, List.findIdx_cons, ih]

theorem scalePts_reverse (c : K) (t : List (Pt K)) : (scalePts c t).reverse = scalePts c t.reverse := by
  unfold scalePts; rw [List.map_reverse]

theorem constEnds_map (g : K → K) (hg : g 0 = 0) (first last : ℕ) (out : List K) :
    constEnds first last (out.map g) = (constEnds first last out).map g := by
  unfold constEnds
  simp only [List.length_map, List.map_map, Function.comp_def]
  apply List.map_congr_left
  intro i _
  split
  · exact getD_map0' g hg out first
  · split
    · exact getD_map0' g hg out last
    · exact getD_map0' g hg out i

theorem interpCore_scale (c : K) (t : List (Pt K)) (const : Bool) :
    interpCore (scalePts c t) const = (interpCore t const).map (c * ·) := by
  have hall : (scalePts c t).all (fun p => !p.bad) = t.all (fun p => !p.bad) := by
    unfold scalePts; rw [List.all_map]; rfl
  have hy : (scalePts c t).map (·.y) = (t.map (·.y)).map (c * ·) := by
    unfold scalePts; simp only [List.map_map, Function.comp_def]
  have hgood : goodPts (scalePts c t) = (goodPts t).map (fun q => (q.1, c * q.2)) := by
    unfold goodPts scalePts
    rw [List.filter_map, List.map_map, List.map_map]
    rfl
  unfold interpCore
  rw [hall, hy, hgood]
  split
  · rfl
  · cases goodPts t with
    | nil => rfl
    | cons q rest =>
      obtain ⟨x0, f0⟩ := q
      simp only [List.map_cons, List.isEmpty_map]
      split
      · unfold scalePts
        simp only [List.map_map, Function.comp_def, z0]
        apply List.map_congr_left
        intro p _
        ring
      · have hout : (scalePts c t).map (fun p => if p.bad then npInterp x0 (c * f0) (rest.map fun q => (q.1, c * q.2)) p.x else p.y) =
            (t.map (fun p => if p.bad then npInterp x0 f0 rest p.x else p.y)).map (c * ·) := by
          unfold scalePts
          simp only [List.map_map, Function.comp_def]
          apply List.map_congr_left
          intro p _
          split
          · exact npInterp_mul c x0 f0 rest p.x
          · rfl
        rw [hout]
        have hlen : (scalePts c t).length = t.length := by unfold scalePts; rw [List.length_map]
        split
        · rw [findIdx_scalePts c t (fun b => !b), scalePts_reverse, findIdx_scalePts c t.reverse (fun b => !b), hlen]
          exact constEnds_map (fun x => c * x) (mul_zero c) _ _ _
        · rfl

theorem maskinterp1_scale (c : K) (y : List K) (bad : List Bool) (const : Bool) :
    maskinterp1 (y.map (c * ·)) bad const = (maskinterp1 y bad const).map (c * ·) := by
  unfold maskinterp1
  have : ptsIdx (y.map (c * ·)) bad = scalePts c (ptsIdx y bad) := by
    unfold ptsIdx scalePts
    simp only [List.length_map, List.map_map, Function.comp_def]
    apply List.map_congr_left
    intro i _
    rw [getD_map0' (fun x => c * x) (mul_zero c)]
  rw [this, interpCore_scale]

theorem isZeroI_scale (c : K) (hc : c ≠ 0) (v : K) : isZeroI (v / c ^ 2) = isZeroI v := by
  unfold isZeroI
  simp only [Scalar.beq, z0]
  rw [decide_eq_decide]
  exact div_eq_zero_iff.trans (or_iff_left (pow_ne_zero 2 hc))

theorem mapIdx_mul (c : K) (l : List K) (w : ℕ → K) :
    (l.map (c * ·)).mapIdx (fun i v => v * w i) = (l.mapIdx (fun i v => v * w i)).map (c * ·) := by
  apply mapIdx_map_comm
  intro p v
  ring

theorem damp_scale (c : K) (hc : c ≠ 0) (erf : K → K) (flux ivar : List K) :
    damp erf (flux.map (c * ·)) (ivar.map (· / c ^ 2)) = (damp erf flux ivar).map (fun l => l.map (c * ·)) := by
  unfold damp
  have hz : (fun (i : ℕ) => !(isZeroI ((ivar.map (· / c ^ 2)).getD i (@OfNat.ofNat K (nat_lit 0) Scalar.instOfNat)))) =
      fun (i : ℕ) => !(isZeroI (ivar.getD i (@OfNat.ofNat K (nat_lit 0) Scalar.instOfNat))) := by
    funext i
    rw [getD_map0' (fun x => x / c ^ 2) (zero_div _), isZeroI_scale c hc]
  have hm : (ivar.map (· / c ^ 2)).map isZeroI = ivar.map isZeroI := by
    rw [List.map_map]
    apply List.map_congr_left
    intro v _
    exact isZeroI_scale c hc v
  simp only [List.length_map, hz, hm, maskinterp1_scale]
  cases (List.range ivar.length).filter (fun i => !(isZeroI (ivar.getD i (@OfNat.ofNat K (nat_lit 0) Scalar.instOfNat)))) with
  | nil => rfl
  | cons g0 gs =>
    simp only [Except.map]
    congr 1
    split <;> split <;> simp only [mapIdx_mul]

theorem aesthetics_scale (c : K) (hc : 0 < c) (flux ivar : List K) (m : Method) (gm : K) :
    aesthetics (flux.map (c * ·)) (ivar.map (· / c ^ 2)) m (c * gm) =
      (aesthetics flux ivar m gm).map (fun l => l.map (c * ·)) := by
  have hc0 : c ≠ 0 := ne_of_gt hc
  have hm : (ivar.map (· / c ^ 2)).map isZeroI = ivar.map isZeroI := by
    rw [List.map_map]
    apply List.map_congr_left
    intro v _
    exact isZeroI_scale c hc0 v
  unfold aesthetics
  simp only [hm, maskinterp1_scale]
  split
  · cases m with
    | traditional => rfl
    | noconst => rfl
    | mean =>
      simp only [Except.map]
      congr 1
      rw [List.zip_map, List.map_map, List.map_map]
      apply List.map_congr_left
      intro fv _
      obtain ⟨f, v⟩ := fv
      simp only [Function.comp, Prod.map, z0]
      have : (v / c ^ 2 > 0) ↔ (v > 0) := pos_div_sq c hc v
      by_cases h : v > 0
      · rw [if_pos (by simpa using this.2 h), if_pos (by simpa using h)]
      · rw [if_neg (by simpa using fun h' => h (this.1 h')), if_neg (by simpa using h)]
    | nothing => rfl
    | damp => rfl
    | unknown => rfl
  · rfl

theorem aesth_scale (c : K) (hc : 0 < c) (mean : List K → K) (hmean : ∀ l, mean (l.map (c * ·)) = c * mean l)
    (erf : K → K) (flux ivar : List K) (m : Method) :
    aesth mean erf (flux.map (c * ·)) (ivar.map (· / c ^ 2)) m = (aesth mean erf flux ivar m).map (fun l => l.map (c * ·)) := by
  have hc0 : c ≠ 0 := ne_of_gt hc
  have hm : (ivar.map (· / c ^ 2)).map isZeroI = ivar.map isZeroI := by
    rw [List.map_map]
    apply List.map_congr_left
    intro v _
    exact isZeroI_scale c hc0 v
  have hgood : (((flux.map (c * ·)).zip (ivar.map (· / c ^ 2))).filter (fun (fv : K × K) => decide (fv.2 > (@OfNat.ofNat K (nat_lit 0) Scalar.instOfNat)))).map (·.1) =
      ((((flux.zip ivar).filter (fun (fv : K × K) => decide (fv.2 > (@OfNat.ofNat K (nat_lit 0) Scalar.instOfNat)))).map (·.1))).map (c * ·) := by
    rw [List.zip_map, List.filter_map, List.map_map, List.map_map]
    have : (fun (fv : K × K) => decide (fv.2 > (@OfNat.ofNat K (nat_lit 0) Scalar.instOfNat))) ∘ Prod.map (fun x => c * x) (fun x => x / c ^ 2) =
        (fun (fv : K × K) => decide (fv.2 > (@OfNat.ofNat K (nat_lit 0) Scalar.instOfNat))) := by
      funext fv
      simp only [Function.comp, Prod.map, z0, decide_eq_decide]
      exact pos_div_sq c hc fv.2
    rw [this]
    rfl
  unfold aesth
  cases m with
  | damp =>
    simp only [hm, damp_scale c hc0]
    split <;> rfl
  | traditional => simp only [hgood, hmean, aesthetics_scale c hc]
  | noconst => simp only [hgood, hmean, aesthetics_scale c hc]
  | mean => simp only [hgood, hmean, aesthetics_scale c hc]
  | nothing => simp only [hgood, hmean, aesthetics_scale c hc]
  | unknown => simp only [hgood, hmean, aesthetics_scale c hc]

theorem aesthIf_scale (c : K) (hc : 0 < c) (mean : List K → K) (hmean : ∀ l, mean (l.map (c * ·)) = c * mean l)
    (erf : K → K) (flux ivar : List K) (m : Method) :
    aesthIf mean erf (flux.map (c * ·)) (ivar.map (· / c ^ 2)) m = (aesthIf mean erf flux ivar m).map (fun l => l.map (c * ·)) := by
  unfold aesthIf
  have : (ivar.map (· / c ^ 2)).any (fun v => decide (v > (@OfNat.ofNat K (nat_lit 0) Scalar.instOfNat))) =
      ivar.any (fun v => decide (v > (@OfNat.ofNat K (nat_lit 0) Scalar.instOfNat))) := by
    rw [List.any_map]
    congr 1
    funext v
    simp only [Function.comp, z0, decide_eq_decide]
    exact pos_div_sq c hc v
  rw [this]
  split
  · exact aesth_scale c hc mean hmean erf flux ivar m
  · rfl

theorem workIvar_scale (c : K) (hc : 0 < c) (oneD : Bool) (n : ℕ) (iv : List K) :
    workIvar oneD n (some (iv.map (· / c ^ 2))) = (workIvar oneD n (some iv)).map (· / c ^ 2) := by
  unfold workIvar
  simp only []
  split
  · rfl
  · rw [List.map_map, List.map_map]
    apply List.map_congr_left
    intro a _
    simp only [Function.comp, z0]
    have : (a / c ^ 2 > 0) ↔ (a > 0) := pos_div_sq c hc a
    rw [decide_eq_decide.2 this]
    ring


/-! ## the whole function up to the group loop -/

/-- the scaled input: `objflux·c`, `objivar/c²`, everything else unchanged -/
def scaleInput (c : K) (inp : Input K) : Input K :=
  { inp with flux := inp.flux.map (c * ·), ivar := inp.ivar.map (fun iv => iv.map (· / c ^ 2)) }

/-- `(oneD, nspec, ncol, st) ↦ (oneD, nspec, ncol, scaled st)` -/
def scaleLoopOut (c : K) (o : Option (Bool × ℕ × ℕ × St K)) : Option (Bool × ℕ × ℕ × St K) :=
  o.map (fun t => (t.1, t.2.1, t.2.2.1, scaleSt c t.2.2.2))

set_option hygiene false in
local macro "c1fs_loop" : tactic =>
  `(tactic| (rw [hst0, groupLoop_scale fit c hc hfit _ _ _ _ _ _ rfl]
             generalize groupLoop (α := K) _ _ _ _ _ _ _ = L
             cases L <;> rfl))
set_option hygiene false in
local macro "c1fs_groups" : tactic =>
  `(tactic| (by_cases he : (List.filter (fun i => decide (iv.getD i (@OfNat.ofNat K (nat_lit 0) Scalar.instOfNat) > (@OfNat.ofNat K (nat_lit 0) Scalar.instOfNat))) (List.range x.length)).isEmpty = true
             · simp only [he, if_true]; rfl
             · simp only [he, if_false]
               generalize groupsOf (α := K) _ _ _ = G
               cases G with
               | error e => rfl
               | ok groups =>
                 simp only [if_true, Bool.false_eq_true, if_false]
                 first
                   | c1fs_loop
                   | (rw [smoothIvar_scale c hc med hmed]
                      generalize smoothIvar (α := K) _ _ _ _ = S
                      cases S with
                      | error e => rfl
                      | ok iv1 => simp only [Functor.map, Except.map]; c1fs_loop)))
set_option hygiene false in
local macro "c1fs_tail" : tactic =>
  `(tactic| (cases B with
      | error e => rfl
      | ok bz =>
        simp only []
        rcases fshape with _ | ⟨n, _ | ⟨nc, _ | ⟨n3, rest⟩⟩⟩
        · rfl
        · c1fs_groups
        · c1fs_groups
        · rfl))

/-- **`combine1fiber` up to the end of the group loop is scale equivariant**: same refusals, same grouping, and the state the
loop leaves for `(c·flux, ivar/c²)` is the state it leaves for `(flux, ivar)` with `newflux` multiplied by `c`, the working
inverse variance divided by `c²`, and the SAME `newmask` and `fullcombmask` (every rejection decision is the same) -/
theorem c1fLoop_scale (fit : ℕ → K → List K → List K → Option (List K) → Combine.R (Fit K)) (c : K) (hc : 0 < c)
    (hfit : FitScales fit c) (argsort : List K → List ℕ) (med : List K → K)
    (hmed : ∀ l, med (l.map (· / c ^ 2)) = med l / c ^ 2) (inp : Input K) (iv : List K) (hiv : inp.ivar = some iv) :
    c1fLoop fit argsort med (scaleInput c inp) = (c1fLoop fit argsort med inp).map (scaleLoopOut c) := by
  obtain ⟨xshape, fshape, ishape, x, flux, ivar, newx, binsz, maxsep, method⟩ := inp
  simp only [] at hiv
  subst hiv
  unfold c1fLoop scaleInput
  simp only [Option.map_some]
  have hb : binszOf (⟨xshape, fshape, ishape, x, flux.map (c * ·), some (iv.map (· / c ^ 2)), newx, binsz, maxsep, method⟩ : Input K) =
      binszOf ⟨xshape, fshape, ishape, x, flux, some iv, newx, binsz, maxsep, method⟩ := rfl
  rw [hb]
  generalize binszOf (⟨xshape, fshape, ishape, x, flux, some iv, newx, binsz, maxsep, method⟩ : Input K) = B
  have hnz : (List.range x.length).filter (fun i => decide ((iv.map (· / c ^ 2)).getD i (@OfNat.ofNat K (nat_lit 0) Scalar.instOfNat) > (@OfNat.ofNat K (nat_lit 0) Scalar.instOfNat))) =
      (List.range x.length).filter (fun i => decide (iv.getD i (@OfNat.ofNat K (nat_lit 0) Scalar.instOfNat) > (@OfNat.ofNat K (nat_lit 0) Scalar.instOfNat))) := by
    congr 1
    funext i
    rw [getD_map0' (fun x => x / c ^ 2) (zero_div _), decide_eq_decide, z0]
    exact pos_div_sq c hc _
  simp only [bind, Except.bind, pure, Except.pure, throw, throwThe, MonadExceptOf.throw, ne_eq, hnz]
  by_cases h1 : fshape = xshape
  swap
  · simp only [h1, not_false_eq_true, if_true]; rfl
  subst h1
  simp only [not_true_eq_false, if_false]
  have hst0 : ∀ ivs : List K, (⟨List.replicate newx.length (@OfNat.ofNat K (nat_lit 0) Scalar.instOfNat), List.replicate newx.length false,
        List.replicate x.length false, some (ivs.map (· / c ^ 2))⟩ : St K) =
      scaleSt c ⟨List.replicate newx.length (@OfNat.ofNat K (nat_lit 0) Scalar.instOfNat), List.replicate newx.length false,
        List.replicate x.length false, some ivs⟩ := by
    intro ivs
    unfold scaleSt
    simp only [List.map_replicate, z0, mul_zero, Option.map_some]
  cases ishape with
  | none =>
    simp only []
    c1fs_tail
  | some s =>
    simp only []
    by_cases h2 : s = fshape
    swap
    · simp only [h2, not_false_eq_true, if_true]; rfl
    simp only [h2, not_true_eq_false, if_false]
    c1fs_tail


end field
end PydlVerif.CombineScale

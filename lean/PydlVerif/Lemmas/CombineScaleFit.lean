/-
Helper lemmas for C11 (second extension round): the modelled `iterfit` behind `combine1fiber`'s `fit` parameter
(`Model/CombineFit.lean`: `fitFull` = `iterfitRq` on C09 `fit`, C17 `djsReject`, C08 `BS.value`) is EQUIVARIANT under
`(flux, ivar) ↦ (c·flux, ivar/c²)`, `c > 0`, over any linearly ordered field: same breakpoints, same masks, same status
codes, same rejection decisions in every pass of the loop, coefficients and fitted values multiplied by `c`.

What has to be assumed about the kernel parameters (`KernelScale`): `sqrt (v/c²) = sqrt v / c`, `isFinite` does not
change under multiplication by a non-zero number, the LAPACK pair is homogeneous
(`cholesky_banded(A/c²) = cholesky_banded(A)/c`, `cho_solve_banded(L/c, b/c) = c·cho_solve_banded(L, b)`).  Everything
else - the assembly of the normal equations, the screening in `cholesky_band`, its fallback loop, `maskpoints`,
`requiren`, `djs_reject`, the ten-pass loop, the degenerate branch - is followed through the model's code.
-/
import PydlVerif.Model.CombineFit
import PydlVerif.Lemmas.ScalarField
import PydlVerif.Lemmas.BSplineFit
import Mathlib.Tactic.Ring
import Mathlib.Tactic.Linarith
import Mathlib.Tactic.FieldSimp
import Mathlib.Tactic.Positivity
namespace PydlVerif.CombineScale
open PydlVerif PydlVerif.BSpline PydlVerif.BSplineFit PydlVerif.IterFit PydlVerif.Combine

set_option linter.unusedSectionVars false
set_option linter.unusedVariables false
set_option linter.unusedSimpArgs false

section field
variable {K : Type} [Field K] [LinearOrder K] [IsStrictOrderedRing K] [FloorRing K]
attribute [local instance] fieldScalar
attribute [-instance] Scalar.instOfNat Scalar.instOfScientific

/-! ## lists -/

/-- the model's literal `0` is the field's -/
theorem z0 : (@OfNat.ofNat K (nat_lit 0) Scalar.instOfNat : K) = 0 := by rw [scalar_lit]; exact Nat.cast_zero
theorem o1 : (@OfNat.ofNat K (nat_lit 1) Scalar.instOfNat : K) = 1 := by rw [scalar_lit]; exact Nat.cast_one

theorem getD_map0 (g : K → K) (hg : g 0 = 0) (l : List K) (i : ℕ) : (l.map g).getD i 0 = g (l.getD i 0) := by
  rw [List.getD_eq_getElem?_getD, List.getD_eq_getElem?_getD, List.getElem?_map]
  cases l[i]? with
  | none => exact hg.symm
  | some v => rfl

/-- the same with the model's `0` as default -/
theorem getD_map0' (g : K → K) (hg : g 0 = 0) (l : List K) (i : ℕ) :
    (l.map g).getD i (@OfNat.ofNat K (nat_lit 0) Scalar.instOfNat) = g (l.getD i (@OfNat.ofNat K (nat_lit 0) Scalar.instOfNat)) := by
  rw [z0]; exact getD_map0 g hg l i

theorem map_getD_map (g : K → K) (hg : g 0 = 0) (l : List K) (idx : List ℕ) :
    idx.map (fun i => (l.map g).getD i (@OfNat.ofNat K (nat_lit 0) Scalar.instOfNat)) =
      (idx.map (fun i => l.getD i (@OfNat.ofNat K (nat_lit 0) Scalar.instOfNat))).map g := by
  rw [List.map_map]
  apply List.map_congr_left
  intro i _
  exact getD_map0' g hg l i

/-- multiplication by `c` / division by `c²` fix 0 -/
theorem mul0 (c : K) : (fun v : K => c * v) 0 = 0 := mul_zero c
theorem div0 (c : K) : (fun v : K => v / c ^ 2) 0 = 0 := zero_div _

/-! ## `Except` plumbing -/

theorem map_ok {ε β γ : Type} (g : β → γ) (b : β) : Except.map g (Except.ok b : Except ε β) = .ok (g b) := rfl
theorem map_error {ε β γ : Type} (g : β → γ) (e : ε) : Except.map g (Except.error e : Except ε β) = .error e := rfl

/-- pushing a map through a bind -/
theorem bind_map_comm {ε β β' γ γ' : Type} (x : Except ε β) (g : β → β') (f : β → Except ε γ) (f' : β' → Except ε γ')
    (h : γ → γ') (hf : ∀ b, f' (g b) = (f b).map h) :
    (x.map g >>= f') = (x >>= f).map h := by
  cases x with
  | error e => rfl
  | ok b => exact hf b

/-! ## djs_reject: the rejection test is scale invariant -/

/-- **the rejection test is invariant**: `(c·data - c·model)·sqrt(invvar/c²) = (data - model)·sqrt(invvar)`, hence the
working array `badness` of a pixel does not change (call of `iterfit`: `invvar` given, no `maxdev`) -/
theorem badness_scale (sqrt : K → K) (c : K) (hc : 0 < c) (hs : ∀ v, sqrt (v / c ^ 2) = sqrt v / c)
    (o : Reject.Opts K) (hu : o.useSigma = false) (hd : o.maxdev = none) (d m s : K) (i p : Bool) :
    Reject.badness sqrt o ⟨c * d, c * m, s / c ^ 2, i, p⟩ = Reject.badness sqrt o ⟨d, m, s, i, p⟩ := by
  have hc0 : c ≠ 0 := ne_of_gt hc
  have k1 : (c * d - c * m) * sqrt (s / c ^ 2) = (d - m) * sqrt s := by rw [hs]; field_simp
  have k2 : -(c * d - c * m) * sqrt (s / c ^ 2) = -(d - m) * sqrt s := by rw [hs]; field_simp
  unfold Reject.badness Reject.addDev Reject.addUp Reject.addLow
  simp only [hu, hd, Bool.false_eq_true, if_false, k1, k2]

theorem djsReject_scale (sqrt : K → K) (c : K) (hc : 0 < c) (hs : ∀ v, sqrt (v / c ^ 2) = sqrt v / c)
    (o : Reject.Opts K) (hu : o.useSigma = false) (hd : o.maxdev = none)
    (data mdl sv : List K) (om im : Option (List Bool)) :
    Reject.djsReject sqrt o (data.map (c * ·)) (some (mdl.map (c * ·))) om im (sv.map (· / c ^ 2)) =
      Reject.djsReject sqrt o data (some mdl) om im sv := by
  unfold Reject.djsReject
  simp only [List.length_map, scalar_lit, Nat.cast_zero]
  have hpx : ∀ (inm prev : List Bool),
      (List.range data.length).map (fun i => (⟨(data.map (c * ·)).getD i 0, (mdl.map (c * ·)).getD i 0,
        (sv.map (· / c ^ 2)).getD i 0, inm.getD i true, prev.getD i true⟩ : Reject.Pix K)) =
      (List.range data.length).map (fun i => (⟨c * data.getD i 0, c * mdl.getD i 0,
        sv.getD i 0 / c ^ 2, inm.getD i true, prev.getD i true⟩ : Reject.Pix K)) := by
    intro inm prev
    apply List.map_congr_left
    intro i _
    rw [getD_map0 (fun x => c * x) (mul_zero c), getD_map0 (fun x => c * x) (mul_zero c),
      getD_map0 (fun x => x / c ^ 2) (zero_div _)]
  have hrp : ∀ (hi : Bool) (inm prev : List Bool),
      Reject.djsRejectPix sqrt { o with hasIn := hi } ((List.range data.length).map (fun i => (⟨c * data.getD i 0, c * mdl.getD i 0,
        sv.getD i 0 / c ^ 2, inm.getD i true, prev.getD i true⟩ : Reject.Pix K))) =
      Reject.djsRejectPix sqrt { o with hasIn := hi } ((List.range data.length).map (fun i => (⟨data.getD i 0, mdl.getD i 0,
        sv.getD i 0, inm.getD i true, prev.getD i true⟩ : Reject.Pix K))) := by
    intro hi inm prev
    unfold Reject.djsRejectPix
    simp only [List.map_map, Function.comp_def, badness_scale sqrt c hc hs { o with hasIn := hi } hu hd, List.zipWith_map_right]
  cases om <;> cases im <;>
    simp only [bind, Except.bind, pure, Except.pure, hpx, hrp]

/-! ## the spline object with its coefficients multiplied by `c` -/

/-- the `Inhabited` instance the model's `arr[i]!` reads use (default `Scalar.ofNat 0`), as in Props/C09 -/
noncomputable local instance instInhabitedKS : Inhabited K := @PydlVerif.instInhabitedOfScalar K (fieldScalar K)

theorem default0 : (default : K) = 0 := by
  show ((0 : ℕ) : K) = 0
  exact Nat.cast_zero

theorem arr_get_map (a : Array K) (g : K → K) (hg : g 0 = 0) (i : ℕ) : (a.map g)[i]! = g (a[i]!) := by
  rw [getElem!_def, getElem!_def, Array.getElem?_map]
  cases a[i]? with
  | none => simp only [Option.map_none, default0, hg]
  | some v => rfl

/-- `sset` with `coeff` multiplied by `c` -/
def scaleBS (c : K) (b : BS K) : BS K := { b with coeff := b.coeff.map (c * ·) }

theorem gb_scale (c : K) (b : BS K) : (scaleBS c b).gb = b.gb := rfl

theorem goodcoeff_scale (c : K) (b : BS K) : (scaleBS c b).goodcoeff = b.goodcoeff.map (c * ·) := by
  unfold BS.goodcoeff scaleBS
  simp only [List.map_toArray, List.map_map, Function.comp_def, arr_get_map _ (fun x => c * x) (mul_zero c)]

theorem action_scale (c : K) (b : BS K) (xs : List K) : (scaleBS c b).action xs = b.action xs := rfl

theorem dotFrom_scale (c : K) (g : ℕ → K) (row : List K) (off : ℕ) :
    dotFrom (fun i => c * g i) row off = c * dotFrom g row off := by
  induction row generalizing off with
  | nil => simp only [dotFrom, z0, mul_zero]
  | cons a as ih => simp only [dotFrom, ih]; ring

theorem mapIdx_map_comm {β : Type} (y : List β) (g : β → β) (h h' : ℕ → β → β) (hh : ∀ p v, h' p (g v) = g (h p v)) :
    (y.map g).mapIdx h' = (y.mapIdx h).map g := by
  apply List.ext_getElem?
  intro i
  simp only [List.getElem?_mapIdx, List.getElem?_map]
  cases y[i]? with
  | none => rfl
  | some v => simp only [Option.map_some, hh]

theorem fillRows_scale (c : K) (rows : List (List K)) (g : ℕ → K) (lower upper : Array ℤ) (m nx : ℕ) :
    fillRows rows (fun i => c * g i) lower upper m nx = (fillRows rows g lower upper m nx).map (c * ·) := by
  unfold fillRows
  have h : ∀ (l : List ℕ) (y : List K),
      l.foldl (fun (y : List K) i =>
        if upper[i]! - lower[i]! + 1 > 0 then
          y.mapIdx (fun p v => if lower[i]! ≤ (p : ℤ) ∧ (p : ℤ) ≤ upper[i]! then dotFrom (fun i => c * g i) (rows.getD p []) i else v)
        else y) (y.map (c * ·)) =
      (l.foldl (fun (y : List K) i =>
        if upper[i]! - lower[i]! + 1 > 0 then
          y.mapIdx (fun p v => if lower[i]! ≤ (p : ℤ) ∧ (p : ℤ) ≤ upper[i]! then dotFrom g (rows.getD p []) i else v)
        else y) y).map (c * ·) := by
    intro l
    induction l with
    | nil => intro y; rfl
    | cons i l ih =>
      intro y
      simp only [List.foldl_cons]
      split
      · rw [← ih]
        congr 1
        apply mapIdx_map_comm
        intro p v
        split
        · exact dotFrom_scale c g _ _
        · rfl
      · exact ih y
  have h0 : List.replicate nx (@OfNat.ofNat K (nat_lit 0) Scalar.instOfNat) = (List.replicate nx (@OfNat.ofNat K (nat_lit 0) Scalar.instOfNat)).map (c * ·) := by
    rw [List.map_replicate, z0, mul_zero]
  exact Eq.trans (by rw [← h0]) (h _ _)

theorem unsort_map {β : Type} (g : β → β) (perm : List ℕ) (y : List β) : unsort perm (y.map g) = (unsort perm y).map g := by
  unfold unsort
  have h : ∀ (l : List (ℕ × β)) (yy : List β),
      (l.map (fun pv => (pv.1, g pv.2))).foldl (fun (yy : List β) (pv : ℕ × β) => yy.set pv.1 pv.2) (yy.map g) =
      (l.foldl (fun (yy : List β) (pv : ℕ × β) => yy.set pv.1 pv.2) yy).map g := by
    intro l
    induction l with
    | nil => intro yy; rfl
    | cons pv l ih =>
      intro yy
      simp only [List.map_cons, List.foldl_cons]
      rw [← List.map_set, ih]
  rw [← h, List.zip_map_right]
  rfl

theorem yfitOf_scale (c : K) (b : BS K) (rows : List (List K)) (lower upper : Array ℤ) (nx : ℕ) (perm : List ℕ) :
    yfitOf (scaleBS c b) rows lower upper nx perm = (yfitOf b rows lower upper nx perm).map (fun l => l.map (c * ·)) := by
  unfold yfitOf
  simp only [gb_scale, goodcoeff_scale]
  have e : (scaleBS c b).nord = b.nord := rfl
  rw [e]
  split
  · rfl
  · simp only [pure, Except.pure, Except.map]
    congr 1
    rw [← unsort_map, ← fillRows_scale]
    congr 2
    funext i
    exact arr_get_map _ (fun x => c * x) (mul_zero c) i

/-- **`value` is linear in the coefficients**: the object with `c·coeff` evaluates to `c` times the values, same validity mask -/
theorem value_scale (c : K) (b : BS K) (xs : List K) (perm : List ℕ) :
    (scaleBS c b).value xs perm = (b.value xs perm).map (fun vm => (vm.1.map (c * ·), vm.2)) := by
  unfold BS.value
  simp only [action_scale, gb_scale, goodcoeff_scale]
  have e : (scaleBS c b).nord = b.nord := rfl
  have e2 : (scaleBS c b).mask = b.mask := rfl
  have e3 : (scaleBS c b).breakpoints = b.breakpoints := rfl
  rw [e, e2, e3]
  generalize b.action (perm.map (fun p => xs.getD p (@OfNat.ofNat K (nat_lit 0) Scalar.instOfNat))) = A
  cases A with
  | error err => rfl
  | ok act =>
    simp only [bind, Except.bind, pure, Except.pure, Except.map]
    split
    · rfl
    · simp only [Except.ok.injEq, Prod.mk.injEq, and_true]
      rw [← unsort_map]
      congr 1
      cases act with
      | none => simp only [List.map_replicate, z0, mul_zero]
      | some t =>
        obtain ⟨rows, lower, upper⟩ := t
        simp only []
        rw [← fillRows_scale]
        congr 2
        funext i
        exact arr_get_map _ (fun x => c * x) (mul_zero c) i

/-! ## matrices stored as arrays of rows (`cholesky_band`) -/

theorem get2_eq (M : Array (Array K)) (r c : ℕ) :
    get2 M r c = ((M[r]?.getD #[])[c]?).getD 0 := by
  unfold get2
  rw [getElem!_def, getElem!_def]
  cases M[r]? with
  | none => simp [default0]; rfl
  | some row =>
    simp only [Option.getD_some, default0]
    cases row[c]? <;> rfl

theorem rowsize_eq (M : Array (Array K)) (r : ℕ) : (M[r]!).size = (M[r]?.getD #[]).size := by
  rw [getElem!_def]
  cases M[r]? <;> rfl

theorem get2_oob (M : Array (Array K)) (r c : ℕ) (h : ¬ (r < M.size ∧ c < (M[r]!).size)) : get2 M r c = 0 := by
  rw [get2_eq]
  rw [rowsize_eq] at h
  by_cases hr : r < M.size
  · rw [Array.getElem?_eq_getElem hr] at h ⊢
    simp only [Option.getD_some] at h ⊢
    have : ¬ c < M[r].size := fun hc => h ⟨hr, hc⟩
    rw [Array.getElem?_eq_none (Nat.le_of_not_lt this)]
    rfl
  · rw [Array.getElem?_eq_none (Nat.le_of_not_lt hr)]
    rfl

theorem get2_modify2 (M : Array (Array K)) (r c : ℕ) (g : K → K) (r' c' : ℕ) :
    get2 (modify2 M r c g) r' c' =
      if r' = r ∧ c' = c ∧ r < M.size ∧ c < (M[r]!).size then g (get2 M r c) else get2 M r' c' := by
  rw [get2_eq, get2_eq, get2_eq]
  unfold modify2
  simp only [Array.getElem?_modify]
  by_cases hr : r = r'
  · subst hr
    simp only [if_true, true_and]
    by_cases hlt : r < M.size
    · simp only [Array.getElem?_eq_getElem hlt, Option.map_some, Option.getD_some, Array.getElem?_modify, hlt, true_and,
        getElem!_pos M r hlt]
      by_cases hc : c = c'
      · subst hc
        simp only [if_true, true_and]
        by_cases hcl : c < M[r].size
        · simp [hcl]
        · simp [hcl]
      · have : ¬ c' = c := fun h => hc h.symm
        simp [hc, this]
    · simp [hlt]
  · have : ¬ r' = r := fun h => hr h.symm
    simp [hr, this]

theorem size_modify2 (M : Array (Array K)) (r c : ℕ) (g : K → K) : (modify2 M r c g).size = M.size := by
  unfold modify2; rw [Array.size_modify]

theorem rowsize_modify2 (M : Array (Array K)) (r c : ℕ) (g : K → K) (r' : ℕ) :
    ((modify2 M r c g)[r']!).size = (M[r']!).size := by
  rw [rowsize_eq, rowsize_eq]
  unfold modify2
  rw [Array.getElem?_modify]
  split
  · cases M[r']? with
    | none => rfl
    | some row => simp only [Option.map_some, Option.getD_some, Array.size_modify]
  · rfl

/-- every entry multiplied by `k` -/
def sc2 (k : K) (M : Array (Array K)) : Array (Array K) := M.map (fun row => row.map (k * ·))

theorem get2_sc2 (k : K) (M : Array (Array K)) (r c : ℕ) : get2 (sc2 k M) r c = k * get2 M r c := by
  rw [get2_eq, get2_eq]
  unfold sc2
  simp only [Array.getElem?_map]
  cases M[r]? with
  | none => simp
  | some row =>
    simp only [Option.map_some, Option.getD_some, Array.getElem?_map]
    cases row[c]? <;> simp

theorem size_sc2 (k : K) (M : Array (Array K)) : (sc2 k M).size = M.size := by unfold sc2; rw [Array.size_map]

theorem rowsize_sc2 (k : K) (M : Array (Array K)) (r : ℕ) : ((sc2 k M)[r]!).size = (M[r]!).size := by
  rw [rowsize_eq, rowsize_eq]
  unfold sc2
  rw [Array.getElem?_map]
  cases M[r]? with
  | none => rfl
  | some row => simp only [Option.map_some, Option.getD_some, Array.size_map]

/-- `M'` has the shape of `M` and entry `(r, col)` of `M'` is `Φ r col` times that of `M` -/
def MRel (Φ : ℕ → ℕ → K) (M M' : Array (Array K)) : Prop :=
  M'.size = M.size ∧ (∀ r : ℕ, (M'[r]! : Array K).size = (M[r]! : Array K).size) ∧ ∀ r col, get2 M' r col = Φ r col * get2 M r col

theorem MRel.modify2 {Φ Φ' : ℕ → ℕ → K} {M M' : Array (Array K)} (h : MRel Φ M M') (r c : ℕ) (g g' : K → K)
    (hg : g' (get2 M' r c) = Φ' r c * g (get2 M r c))
    (hΦ : ∀ r' c', ¬ (r' = r ∧ c' = c) → Φ' r' c' = Φ r' c') :
    MRel Φ' (BSplineFit.modify2 M r c g) (BSplineFit.modify2 M' r c g') := by
  obtain ⟨h1, h2, h3⟩ := h
  refine ⟨by rw [size_modify2, size_modify2, h1], fun r' => by rw [rowsize_modify2, rowsize_modify2, h2], fun r' c' => ?_⟩
  rw [get2_modify2, get2_modify2, h1, h2]
  by_cases hp : r' = r ∧ c' = c
  · obtain ⟨rfl, rfl⟩ := hp
    by_cases hin : r' < M.size ∧ c' < (M[r']!).size
    · rw [if_pos ⟨rfl, rfl, hin⟩, if_pos ⟨rfl, rfl, hin⟩, hg]
    · rw [if_neg (fun h => hin h.2.2), if_neg (fun h => hin h.2.2), h3, get2_oob M r' c' hin, mul_zero, mul_zero]
  · rw [if_neg (fun h => hp ⟨h.1, h.2.1⟩), if_neg (fun h => hp ⟨h.1, h.2.1⟩), h3, hΦ r' c' hp]

theorem MRel.congr {Φ Φ' : ℕ → ℕ → K} {M M' : Array (Array K)} (h : MRel Φ M M')
    (hΦ : ∀ r col, r < M.size → Φ' r col = Φ r col) : MRel Φ' M M' := by
  obtain ⟨h1, h2, h3⟩ := h
  refine ⟨h1, h2, fun r col => ?_⟩
  by_cases hr : r < M.size
  · rw [h3, hΦ r col hr]
  · rw [h3, get2_oob M r col (fun h => hr h.1), mul_zero, mul_zero]

theorem foldl_rel {β : Type} (Φ : ℕ → ℕ → K) (l : List β) (F F' : Array (Array K) → β → Array (Array K))
    (hstep : ∀ b ∈ l, ∀ M M', MRel Φ M M' → MRel Φ (F M b) (F' M' b)) :
    ∀ M M', MRel Φ M M' → MRel Φ (l.foldl F M) (l.foldl F' M') := by
  induction l with
  | nil => intro M M' h; exact h
  | cons b l ih =>
    intro M M' h
    simp only [List.foldl_cons]
    exact ih (fun b' hb' => hstep b' (List.mem_cons_of_mem _ hb')) _ _ (hstep b List.mem_cons_self M M' h)

/-- the factors while the fallback loop of `cholesky_band` works on column `j`: columns `< j` hold the factor `L`
(multiplied by `1/c`), columns `≥ j` the not yet eliminated part of `A` (multiplied by `1/c²`) -/
def Φ0 (c : K) (j : ℕ) : ℕ → ℕ → K := fun _ col => if col < j then c⁻¹ else (c ^ 2)⁻¹
/-- … and rows `≤ t` of column `j` are already divided -/
def Φ2 (c : K) (j t : ℕ) : ℕ → ℕ → K := fun r col => if col < j ∨ (col = j ∧ r ≤ t) then c⁻¹ else (c ^ 2)⁻¹

theorem phase2_rel (c : K) (hc : c ≠ 0) (j : ℕ) (d : K) : ∀ (t : ℕ) (M M' : Array (Array K)), MRel (Φ2 c j 0) M M' →
    MRel (Φ2 c j t) ((List.range t).foldl (fun m s => BSplineFit.modify2 m (s+1) j (fun v => v / d)) M)
      ((List.range t).foldl (fun m s => BSplineFit.modify2 m (s+1) j (fun v => v / (d / c))) M') := by
  intro t
  induction t with
  | zero => intro M M' h; exact h
  | succ t ih =>
    intro M M' h
    rw [List.range_succ, List.foldl_append, List.foldl_append]
    simp only [List.foldl_cons, List.foldl_nil]
    have h' := ih M M' h
    refine h'.modify2 (t+1) j _ _ ?_ ?_
    · rw [h'.2.2 (t+1) j]
      have e1 : Φ2 c j t (t+1) j = (c ^ 2)⁻¹ := by unfold Φ2; rw [if_neg]; omega
      have e2 : Φ2 c j (t+1) (t+1) j = c⁻¹ := by unfold Φ2; rw [if_pos]; omega
      rw [e1, e2, div_div_eq_mul_div]
      have : ∀ g : K, (c ^ 2)⁻¹ * g * c = c⁻¹ * g := by intro g; field_simp
      rw [this, mul_div_assoc]
    · intro r' c' hne
      unfold Φ2
      by_cases hcj : c' = j
      · subst hcj
        have : ¬ r' = t + 1 := fun h => hne ⟨h, rfl⟩
        have e : (r' ≤ t + 1) ↔ (r' ≤ t) := by omega
        simp only [e]
      · simp only [hcj, false_and]

theorem phase3_rel (c : K) (hc : c ≠ 0) (j kn : ℕ) (x : Array K) (Φ : ℕ → ℕ → K) (hΦ : ∀ r col, j < col → Φ r col = (c ^ 2)⁻¹)
    (M M' : Array (Array K)) (h : MRel Φ M M') :
    MRel Φ ((List.range kn).foldl (fun m i =>
        (List.range (kn - i)).foldl (fun m r => BSplineFit.modify2 m r (j+1+i) (fun v => v - x[i]! * x[i+r]!)) m) M)
      ((List.range kn).foldl (fun m i =>
        (List.range (kn - i)).foldl (fun m r => BSplineFit.modify2 m r (j+1+i)
          (fun v => v - (x.map (c⁻¹ * ·))[i]! * (x.map (c⁻¹ * ·))[i+r]!)) m) M') := by
  refine foldl_rel Φ _ _ _ ?_ M M' h
  intro i _ M M' h
  refine foldl_rel Φ _ _ _ ?_ M M' h
  intro r _ M M' h
  refine h.modify2 r (j+1+i) _ _ ?_ (fun _ _ _ => rfl)
  rw [h.2.2, hΦ r (j+1+i) (by omega), arr_get_map _ (fun v => c⁻¹ * v) (mul_zero _), arr_get_map _ (fun v => c⁻¹ * v) (mul_zero _)]
  field_simp

/-- the contract of the kernel parameters under which the fit is scale equivariant (`c > 0`) -/
structure KernelScale (Kn : Kernels K) (c : K) : Prop where
  /-- `np.sqrt` is positively homogeneous of degree 1/2 -/
  sqrt : ∀ v, Kn.sqrt (v / c ^ 2) = Kn.sqrt v / c
  /-- `np.isfinite` does not change under multiplication by a non-zero number (an exact field: everything is finite) -/
  fin : ∀ k v, k ≠ 0 → Kn.isFinite (k * v) = Kn.isFinite v
  /-- `cholesky_banded(A/c²) = cholesky_banded(A)/c`, failing alike -/
  chol : ∀ bw n A, Kn.cholFactor bw n (sc2 (c ^ 2)⁻¹ A) = (Kn.cholFactor bw n A).map (sc2 c⁻¹)
  /-- `cho_solve_banded(L/c, b/c) = c·cho_solve_banded(L, b)` -/
  solve : ∀ bw n L b, Kn.cholSolve bw n (sc2 c⁻¹ L) (b.map (c⁻¹ * ·)) = (Kn.cholSolve bw n L b).map (c * ·)

theorem ite_not_bool {β : Type} (b : Bool) (x y : β) : (if (!b) = true then x else y) = if b = true then y else x := by
  cases b <;> rfl

theorem fallbackCol_rel (Kn : Kernels K) (c : K) (hc : 0 < c) (hK : KernelScale Kn c) (kn j : ℕ)
    (M M' : Array (Array K)) (h : MRel (Φ0 c j) M M') :
    (fallbackCol Kn kn j M = none ∧ fallbackCol Kn kn j M' = none) ∨
    ∃ N N', fallbackCol Kn kn j M = some N ∧ fallbackCol Kn kn j M' = some N' ∧ MRel (Φ2 c j kn) N N' ∧ N.size = M.size := by
  have hc0 : c ≠ 0 := ne_of_gt hc
  have hd : Kn.sqrt (get2 M' 0 j) = Kn.sqrt (get2 M 0 j) / c := by
    rw [h.2.2 0 j]
    have : Φ0 c j 0 j = (c ^ 2)⁻¹ := by unfold Φ0; rw [if_neg (lt_irrefl j)]
    rw [this, ← hK.sqrt, div_eq_inv_mul]
  -- phase 1
  have h1 : MRel (Φ2 c j 0) (BSplineFit.modify2 M 0 j (fun _ => Kn.sqrt (get2 M 0 j)))
      (BSplineFit.modify2 M' 0 j (fun _ => Kn.sqrt (get2 M' 0 j))) := by
    refine h.modify2 0 j _ _ ?_ ?_
    · have : Φ2 c j 0 0 j = c⁻¹ := by unfold Φ2; rw [if_pos (Or.inr ⟨rfl, le_refl 0⟩)]
      rw [this, hd, div_eq_inv_mul]
    · intro r' c' hne
      unfold Φ2 Φ0
      by_cases hcj : c' = j
      · subst hcj
        have : ¬ r' = 0 := fun h => hne ⟨h, rfl⟩
        have e : ¬ r' ≤ 0 := by omega
        simp only [e, and_false, or_false]
      · simp only [hcj, false_and, or_false]
  -- phase 2
  have h2 := phase2_rel c hc0 j (Kn.sqrt (get2 M 0 j)) kn _ _ h1
  rw [← hd] at h2
  set L2 := (List.range kn).foldl (fun m s => BSplineFit.modify2 m (s+1) j (fun v => v / Kn.sqrt (get2 M 0 j)))
    (BSplineFit.modify2 M 0 j (fun _ => Kn.sqrt (get2 M 0 j))) with hL2
  set L2' := (List.range kn).foldl (fun m s => BSplineFit.modify2 m (s+1) j (fun v => v / Kn.sqrt (get2 M' 0 j)))
    (BSplineFit.modify2 M' 0 j (fun _ => Kn.sqrt (get2 M' 0 j))) with hL2'
  have hx : ((List.range kn).map (fun s => get2 L2' (s+1) j)).toArray =
      (((List.range kn).map (fun s => get2 L2 (s+1) j)).toArray).map (c⁻¹ * ·) := by
    rw [List.map_toArray, List.map_map]
    congr 1
    apply List.map_congr_left
    intro s hs
    have hs' := List.mem_range.1 hs
    rw [Function.comp, h2.2.2 (s+1) j]
    have : Φ2 c j kn (s+1) j = c⁻¹ := by unfold Φ2; rw [if_pos (Or.inr ⟨rfl, by omega⟩)]
    rw [this]
  have hpos : (0 < Kn.sqrt (get2 M' 0 j)) ↔ (0 < Kn.sqrt (get2 M 0 j)) := by
    rw [hd]; exact div_pos_iff_of_pos_right hc
  have hfin : (((List.range kn).map (fun s => get2 L2' (s+1) j)).toArray).all Kn.isFinite =
      (((List.range kn).map (fun s => get2 L2 (s+1) j)).toArray).all Kn.isFinite := by
    rw [hx, Array.all_map]
    congr 1
    funext v
    exact hK.fin _ v (inv_ne_zero hc0)
  have hsz : L2.size = M.size := by
    have : ∀ (l : List ℕ) (A : Array (Array K)),
        (l.foldl (fun m s => BSplineFit.modify2 m (s+1) j (fun v => v / Kn.sqrt (get2 M 0 j))) A).size = A.size := by
      intro l
      induction l with
      | nil => intro A; rfl
      | cons s l ih => intro A; rw [List.foldl_cons, ih, size_modify2]
    rw [hL2, this, size_modify2]
  unfold fallbackCol
  simp only [← hL2, ← hL2', scalar_lit, Nat.cast_zero]
  by_cases hok : (decide (0 < Kn.sqrt (get2 M 0 j)) && (((List.range kn).map (fun s => get2 L2 (s+1) j)).toArray).all Kn.isFinite) = true
  · right
    have hok' : (decide (0 < Kn.sqrt (get2 M' 0 j)) && (((List.range kn).map (fun s => get2 L2' (s+1) j)).toArray).all Kn.isFinite) = true := by
      rw [hfin, decide_eq_decide.2 hpos]; exact hok
    rw [if_neg (by simpa using hok), if_neg (by simpa using hok')]
    refine ⟨_, _, rfl, rfl, ?_, ?_⟩
    · rw [hx]
      exact phase3_rel c hc0 j kn _ (Φ2 c j kn) (fun r col hcol => by unfold Φ2; rw [if_neg]; omega) _ _ h2
    · have : ∀ (l : List ℕ) (F : Array (Array K) → ℕ → Array (Array K)) (hF : ∀ A i, (F A i).size = A.size) (A : Array (Array K)),
          (l.foldl F A).size = A.size := by
        intro l F hF
        induction l with
        | nil => intro A; rfl
        | cons s l ih => intro A; rw [List.foldl_cons, ih, hF]
      rw [this _ _ _ L2, hsz]
      intro A i
      exact this _ _ (fun A r => size_modify2 _ _ _ _) A
  · left
    have hok' : ¬ (decide (0 < Kn.sqrt (get2 M' 0 j)) && (((List.range kn).map (fun s => get2 L2' (s+1) j)).toArray).all Kn.isFinite) = true := by
      rw [hfin, decide_eq_decide.2 hpos]; exact hok
    rw [ite_not_bool, ite_not_bool]
    exact ⟨if_neg hok, if_neg hok'⟩

theorem fallbackLoop_rel (Kn : Kernels K) (c : K) (hc : 0 < c) (hK : KernelScale Kn c) (kn : ℕ) :
    ∀ (m j : ℕ) (M M' : Array (Array K)), MRel (Φ0 c j) M M' → M.size = kn + 1 →
    (∃ i, fallbackLoop Kn kn (List.range' j m) M = .inl i ∧ fallbackLoop Kn kn (List.range' j m) M' = .inl i) ∨
    ∃ N N', fallbackLoop Kn kn (List.range' j m) M = .inr N ∧ fallbackLoop Kn kn (List.range' j m) M' = .inr N' ∧
      MRel (Φ0 c (j + m)) N N' := by
  intro m
  induction m with
  | zero =>
    intro j M M' h hs
    right
    exact ⟨M, M', rfl, rfl, h⟩
  | succ m ih =>
    intro j M M' h hs
    rw [List.range'_succ]
    simp only [fallbackLoop]
    rcases fallbackCol_rel Kn c hc hK kn j M M' h with ⟨e1, e2⟩ | ⟨N, N', e1, e2, hN, hsz⟩
    · left
      rw [e1, e2]
      exact ⟨j, rfl, rfl⟩
    · rw [e1, e2]
      simp only []
      have hN' : MRel (Φ0 c (j+1)) N N' := by
        refine hN.congr ?_
        intro r col hr
        unfold Φ0 Φ2
        have hr' : r ≤ kn := by omega
        by_cases h1 : col < j
        · rw [if_pos (by omega), if_pos (Or.inl h1)]
        · by_cases h2 : col = j
          · rw [if_pos (by omega), if_pos (Or.inr ⟨h2, hr'⟩)]
          · rw [if_neg (by omega), if_neg (by omega)]
      have := ih (j+1) N N' hN' (by rw [hsz, hs])
      rw [show j + 1 + m = j + (m + 1) by omega] at this
      exact this


/-- the result of `cholesky_band` for the scaled system: the factor is divided by `c`, the bad columns are the same -/
def scaleChol (c : K) : CholRes K → CholRes K
  | .factor L => .factor (sc2 c⁻¹ L)
  | .bad idx s => .bad idx s

theorem padBand_rel (k : K) (bw n nn : ℕ) (M M' : Array (Array K))
    (h : ∀ r col, col < n → get2 M' r col = k * get2 M r col) :
    padBand bw n nn M' = sc2 k (padBand bw n nn M) := by
  unfold padBand sc2
  simp only [List.map_toArray, List.map_map, Function.comp_def]
  congr 1
  apply List.map_congr_left
  intro r _
  congr 1
  apply List.map_congr_left
  intro col _
  split
  · rename_i hcol; exact h r col hcol
  · rw [z0, mul_zero]

theorem choleskyBand_scale (Kn : Kernels K) (c : K) (hc : 0 < c) (hK : KernelScale Kn c) (l : Array (Array K)) (mininf : K) :
    choleskyBand Kn (sc2 (c ^ 2)⁻¹ l) ((c ^ 2)⁻¹ * mininf) = (choleskyBand Kn l mininf).map (scaleChol c) := by
  have hc0 : c ≠ 0 := ne_of_gt hc
  have hk : (0 : K) < (c ^ 2)⁻¹ := by positivity
  unfold choleskyBand
  simp only [size_sc2, rowsize_sc2]
  by_cases hbw : l.size = 0
  · simp only [hbw, if_true]; rfl
  simp only [hbw, if_false]
  by_cases hnn : (l[0]!).size < l.size
  · simp only [hnn, if_true]; rfl
  simp only [hnn, if_false]
  have hneg : (List.range ((l[0]!).size - l.size)).filter (fun col => decide (get2 (sc2 (c ^ 2)⁻¹ l) 0 col ≤ (c ^ 2)⁻¹ * mininf)) =
      (List.range ((l[0]!).size - l.size)).filter (fun col => decide (get2 l 0 col ≤ mininf)) := by
    congr 1
    funext col
    rw [get2_sc2, decide_eq_decide]
    exact mul_le_mul_iff_right₀ hk
  have hall : (sc2 (c ^ 2)⁻¹ l).all (fun row => row.all Kn.isFinite) = l.all (fun row => row.all Kn.isFinite) := by
    unfold sc2
    rw [Array.all_map]
    congr 1
    funext row
    rw [Function.comp, Array.all_map]
    congr 1
    funext v
    exact hK.fin _ v (ne_of_gt hk)
  have hall' : (sc2 (c ^ 2)⁻¹ l).all (fun row => row.all Kn.isFinite) 0 l.size = l.all (fun row => row.all Kn.isFinite) :=
    (by rw [size_sc2] : _ = (sc2 (c ^ 2)⁻¹ l).all (fun row => row.all Kn.isFinite) 0 (sc2 (c ^ 2)⁻¹ l).size).trans hall
  rw [hneg, hall']
  split
  · rfl
  have hext : (sc2 (c ^ 2)⁻¹ l).map (fun row => row.extract 0 ((l[0]!).size - l.size)) =
      sc2 (c ^ 2)⁻¹ (l.map (fun row => row.extract 0 ((l[0]!).size - l.size))) := by
    unfold sc2
    rw [Array.map_map, Array.map_map]
    congr 1
    funext row
    simp only [Function.comp, Array.map_extract]
  rw [hext, hK.chol]
  cases Kn.cholFactor l.size ((l[0]!).size - l.size) (l.map (fun row => row.extract 0 ((l[0]!).size - l.size))) with
  | some L =>
    simp only [Option.map_some, pure, Except.pure, Except.map, scaleChol]
    congr 2
    exact padBand_rel c⁻¹ _ _ _ _ _ (fun r col _ => get2_sc2 _ _ _ _)
  | none =>
    simp only [Option.map_none]
    have h0 : MRel (Φ0 c 0) l (sc2 (c ^ 2)⁻¹ l) :=
      ⟨size_sc2 _ _, fun r => rowsize_sc2 _ _ r, fun r col => by rw [get2_sc2]; rfl⟩
    have := fallbackLoop_rel Kn c hc hK (l.size - 1) ((l[0]!).size - l.size) 0 l _ h0 (by omega)
    rw [← List.range_eq_range'] at this
    rcases this with ⟨i, e1, e2⟩ | ⟨N, N', e1, e2, hN⟩
    · rw [e1, e2]; rfl
    · rw [e1, e2]
      simp only [pure, Except.pure, Except.map, scaleChol]
      congr 2
      refine padBand_rel c⁻¹ _ _ _ _ _ (fun r col hcol => ?_)
      rw [hN.2.2 r col]
      unfold Φ0
      rw [if_pos (by omega)]

theorem choleskySolve_scale (Kn : Kernels K) (c : K) (hK : KernelScale Kn c) (a : Array (Array K)) (bb : Array K) :
    choleskySolve Kn (sc2 c⁻¹ a) (bb.map (c⁻¹ * ·)) = (choleskySolve Kn a bb).map (c * ·) := by
  unfold choleskySolve
  simp only [size_sc2, Array.size_map]
  have hext : (sc2 c⁻¹ a).map (fun row => row.extract 0 (bb.size - a.size)) =
      sc2 c⁻¹ (a.map (fun row => row.extract 0 (bb.size - a.size))) := by
    unfold sc2
    rw [Array.map_map, Array.map_map]
    congr 1
    funext row
    simp only [Function.comp, Array.map_extract]
  rw [hext, ← Array.map_extract, hK.solve]
  simp only [List.map_toArray, List.map_map, Function.comp_def]
  congr 1
  apply List.map_congr_left
  intro i _
  split
  · exact arr_get_map _ (fun x => c * x) (mul_zero c) i
  · rw [z0, mul_zero]


/-! ## the normal equations and `fit` -/

theorem assemble_scale (c : K) (hc : c ≠ 0) (a1 : ℕ → ℕ → K) (y w : ℕ → K) (lower upper : Array ℤ) (nx bw nseg : ℕ) :
    (∀ col r, r < bw → (assemble a1 (fun p => c * y p) (fun p => w p / c ^ 2) lower upper nx bw nseg).1 (col * bw + r) =
      (c ^ 2)⁻¹ * (assemble a1 y w lower upper nx bw nseg).1 (col * bw + r)) ∧
    (∀ col, (assemble a1 (fun p => c * y p) (fun p => w p / c ^ 2) lower upper nx bw nseg).2 col =
      c⁻¹ * (assemble a1 y w lower upper nx bw nseg).2 col) := by
  obtain ⟨h1, h2⟩ := BSplineFitLemmas.assemble_apply a1 y w lower upper nx bw nseg
  obtain ⟨h1', h2'⟩ := BSplineFitLemmas.assemble_apply a1 (fun p => c * y p) (fun p => w p / c ^ 2) lower upper nx bw nseg
  refine ⟨fun col r hr => ?_, fun col => ?_⟩
  · rw [h1 col r hr, h1' col r hr, Finset.mul_sum]
    apply Finset.sum_congr rfl
    intro k _
    split
    · rw [Finset.mul_sum]
      apply Finset.sum_congr rfl
      intro p _
      split
      · field_simp
      · rw [mul_zero]
    · rw [mul_zero]
  · rw [h2 col, h2' col, Finset.mul_sum]
    apply Finset.sum_congr rfl
    intro k _
    split
    · rw [Finset.mul_sum]
      apply Finset.sum_congr rfl
      intro p _
      split
      · field_simp
      · rw [mul_zero]
    · rw [mul_zero]

theorem toArray_get_map (l : List K) (g : K → K) (hg : g 0 = 0) (p : ℕ) :
    ((l.map g).toArray : Array K)[p]! = g ((l.toArray : Array K)[p]!) := by
  rw [← List.map_toArray, arr_get_map _ g hg]

theorem normalSystem_scale (c : K) (hc : c ≠ 0) (rows : List (List K)) (ys ws : List K) (lower upper : Array ℤ) (nx nord nn : ℕ) :
    normalSystem rows (ys.map (c * ·)) (ws.map (· / c ^ 2)) lower upper nx nord nn =
      (sc2 (c ^ 2)⁻¹ (normalSystem rows ys ws lower upper nx nord nn).1,
       (normalSystem rows ys ws lower upper nx nord nn).2.map (c⁻¹ * ·)) := by
  unfold normalSystem
  simp only []
  have e1 : (fun (p : ℕ) => (ys.map (c * ·)).toArray[p]!) = fun (p : ℕ) => c * ys.toArray[p]! := by
    funext p; exact toArray_get_map ys (fun x => c * x) (mul_zero c) p
  have e2 : (fun (p : ℕ) => (ws.map (· / c ^ 2)).toArray[p]!) = fun (p : ℕ) => ws.toArray[p]! / c ^ 2 := by
    funext p; exact toArray_get_map ws (fun x => x / c ^ 2) (zero_div _) p
  rw [e1, e2]
  obtain ⟨h1, h2⟩ := assemble_scale c hc (fun p a => ((rows.map List.toArray).toArray[p]!)[a]!) (fun p => ys.toArray[p]!)
    (fun p => ws.toArray[p]!) lower upper nx nord (nn - nord + 1)
  unfold sc2
  simp only [List.map_toArray, List.map_map, Function.comp_def]
  refine Prod.ext ?_ ?_
  · simp only []
    congr 1
    apply List.map_congr_left
    intro r hr
    congr 1
    apply List.map_congr_left
    intro col _
    exact h1 col r (List.mem_range.1 hr)
  · simp only []
    congr 1
    apply List.map_congr_left
    intro col _
    exact h2 col

theorem sumL_scale (k : K) (l : List K) : BSplineFit.sumL (l.map (· / k)) = BSplineFit.sumL l / k := by
  induction l with
  | nil => simp only [List.map_nil, BSplineFit.sumL, List.foldr_nil, z0, zero_div]
  | cons a l ih =>
    have e : ∀ (a : K) (l : List K), BSplineFit.sumL (a :: l) = a + BSplineFit.sumL l := fun _ _ => rfl
    rw [List.map_cons, e, e, ih, add_div]

theorem putGood_scale (c : K) (coeff : Array K) (goodbk : List Bool) (sol : Array K) :
    putGood (coeff.map (c * ·)) goodbk (sol.map (c * ·)) = (putGood coeff goodbk sol).map (c * ·) := by
  unfold putGood
  simp only []
  generalize (goodIdx goodbk).zip (List.range (goodIdx goodbk).length) = l
  induction l generalizing coeff with
  | nil => rfl
  | cons ij l ih =>
    simp only [List.foldl_cons]
    rw [arr_get_map _ (fun x => c * x) (mul_zero c), ← Array.map_setIfInBounds]
    exact ih _

/-- what `fit` returns for the scaled data -/
def scaleFitOut (c : K) (o : FitOut K) : FitOut K :=
  { status := o.status, yfit := o.yfit.map (c * ·), obj := scaleBS c o.obj,
    alpha := sc2 (c ^ 2)⁻¹ o.alpha, beta := o.beta.map (c⁻¹ * ·) }

/-- **`bspline.fit` is scale equivariant**: for `(y, invvar) ↦ (c·y, invvar/c²)` on an object whose coefficients are
multiplied by `c`, `fit` takes the same branch, returns the same status and breakpoint mask, and `c` times the fitted values and
coefficients -/
theorem fit_scale (Kn : Kernels K) (c : K) (hc : 0 < c) (hK : KernelScale Kn c) (b : BS K) (xs ys ws : List K) (perm : List ℕ) :
    fit Kn (scaleBS c b) xs (ys.map (c * ·)) (ws.map (· / c ^ 2)) perm =
      (fit Kn b xs ys ws perm).map (scaleFitOut c) := by
  have hc0 : c ≠ 0 := ne_of_gt hc
  unfold fit
  have e1 : (scaleBS c b).nord = b.nord := rfl
  have e2 : (scaleBS c b).mask = b.mask := rfl
  simp only [e1, e2, action_scale]
  split
  · simp only [pure, Except.pure, Except.map, scaleFitOut, List.map_replicate, z0, mul_zero, sc2, Array.map_empty]
  split
  · rfl
  generalize b.action xs = A
  cases A with
  | error e => rfl
  | ok act =>
    simp only [bind, Except.bind]
    cases act with
    | none => rfl
    | some t =>
      obtain ⟨rows, lower, upper⟩ := t
      simp only []
      split
      · rfl
      rw [normalSystem_scale c hc0]
      simp only []
      have hmin : (1.0e-10 : K) * BSplineFit.sumL (ws.map (· / c ^ 2)) / (Scalar.ofNat (goodIdx (b.mask.toList.drop b.nord)).length : K) =
          (c ^ 2)⁻¹ * ((1.0e-10 : K) * BSplineFit.sumL ws / (Scalar.ofNat (goodIdx (b.mask.toList.drop b.nord)).length : K)) := by
        rw [sumL_scale]; ring
      simp only [scalar_sci] at hmin ⊢
      rw [hmin, choleskyBand_scale Kn c hc hK]
      generalize choleskyBand Kn _ _ = E
      cases E with
      | error e => rfl
      | ok errb =>
        simp only [Except.map]
        cases errb with
        | bad idx sc =>
          simp only [scaleChol, yfitOf_scale]
          generalize yfitOf b rows lower upper xs.length perm = Y
          cases Y with
          | error e => rfl
          | ok yf => rfl
        | factor a =>
          simp only [scaleChol]
          rw [choleskySolve_scale Kn c hK]
          generalize hsol : choleskySolve Kn a (normalSystem rows ys ws lower upper xs.length b.nord (goodIdx (b.mask.toList.drop b.nord)).length).2 = sol
          have hb : (⟨b.nord, (scaleBS c b).breakpoints, b.mask,
                putGood (scaleBS c b).coeff (b.mask.toList.drop b.nord) (sol.map (c * ·))⟩ : BS K) =
              scaleBS c ⟨b.nord, b.breakpoints, b.mask, putGood b.coeff (b.mask.toList.drop b.nord) sol⟩ := by
            unfold scaleBS
            simp only [putGood_scale]
          rw [hb, yfitOf_scale]
          generalize yfitOf _ rows lower upper xs.length perm = Y
          cases Y with
          | error e => rfl
          | ok yf => rfl


/-! ## `iterfit`: requiren, the rejection loop, the degenerate branch -/

theorem pos_div_sq (c : K) (hc : 0 < c) (v : K) : (0 < v / c ^ 2) ↔ (0 < v) := div_pos_iff_of_pos_right (by positivity)

theorem requirenMask_scale (c : K) (hc : 0 < c) (b : BS K) (xw iw : List K) (mw : List Bool) (r : ℕ) :
    requirenMask (scaleBS c b) xw (iw.map (· / c ^ 2)) mw r = requirenMask b xw iw mw r := by
  have hgood : (fun (i : ℕ) => decide ((0 : K) < (iw.map (· / c ^ 2)).toArray[i]! * Reject.castB mw.toArray[i]!)) =
      (fun (i : ℕ) => decide ((0 : K) < iw.toArray[i]! * Reject.castB mw.toArray[i]!)) := by
    funext i
    rw [decide_eq_decide, toArray_get_map iw (fun x => x / c ^ 2) (zero_div _) i, div_mul_eq_mul_div]
    exact pos_div_sq c hc _
  unfold requirenMask
  have e1 : (scaleBS c b).nord = b.nord := rfl
  have e2 : (scaleBS c b).mask = b.mask := rfl
  have e3 : (scaleBS c b).breakpoints = b.breakpoints := rfl
  simp only [e1, e2, e3, scalar_lit, Nat.cast_zero, hgood]

theorem maskedWeights_scale (c : K) (iw : List K) (m : List Bool) :
    maskedWeights (iw.map (· / c ^ 2)) m = (maskedWeights iw m).map (· / c ^ 2) := by
  unfold maskedWeights
  rw [List.zipWith_map_left, List.map_zipWith]
  congr 1
  funext v mb
  exact div_mul_eq_mul_div _ _ _

/-- the loop variables of `iterfit` for the scaled data -/
def scaleISt (c : K) (s : IterFit.St K) : IterFit.St K :=
  { s with sset := scaleBS c s.sset, yfit := s.yfit.map (c * ·) }

def scaleOutcome (c : K) : Outcome K → Outcome K
  | .done s => .done (scaleISt c s)
  | .failed b => .failed (scaleBS c b)

/-- **one pass of the `while` loop of `iterfit` is scale equivariant**: same branch, same breakpoint masks (`requiren`,
`maskpoints`), same status, SAME REJECTIONS (`djs_reject` sees `(c·y - c·yfit)·sqrt(invvar/c²)`), `c` times the coefficients and
the fitted values -/
theorem iterBodyRq_scale (Kn : Kernels K) (c : K) (hc : 0 < c) (hK : KernelScale Kn c) (p : Params K) (rq : Option ℕ)
    (xw yw iw : List K) (s : IterFit.St K) :
    iterBodyRq Kn p rq xw (yw.map (c * ·)) (iw.map (· / c ^ 2)) (scaleISt c s) =
      (iterBodyRq Kn p rq xw yw iw s).map (fun oz => (scaleOutcome c oz.1, oz.2)) := by
  have hrej := fun (mdl : List K) (om im : Option (List Bool)) =>
    djsReject_scale Kn.sqrt c hc hK.sqrt (rejectOpts p) rfl rfl yw mdl iw om im
  unfold iterBodyRq
  have e1 : (scaleISt c s).maskwork = s.maskwork := rfl
  have e2 : (scaleISt c s).sset = scaleBS c s.sset := rfl
  have e3 : (scaleBS c s.sset).mask = s.sset.mask := rfl
  have e4 : (scaleISt c s).error = s.error := rfl
  have e5 : (scaleISt c s).yfit = s.yfit.map (c * ·) := rfl
  have e6 : (scaleISt c s).iiter = s.iiter := rfl
  have e7 : (scaleISt c s).qdone = s.qdone := rfl
  simp only [e1, e2, e3, e4, e5, e6, e7, hrej]
  split
  · split
    · generalize Reject.djsReject Kn.sqrt (rejectOpts p) yw (some s.yfit) (some s.maskwork) (some s.maskwork) iw = R
      cases R with
      | error e => rfl
      | ok mq => rfl
    · rfl
  · cases rq with
    | none =>
      simp only [Except.map, bind, Except.bind, pure, Except.pure, maskedWeights_scale, fit_scale Kn c hc hK]
      generalize fit Kn _ xw yw (maskedWeights iw s.maskwork) (List.range xw.length) = F
      cases F with
      | error e => rfl
      | ok out =>
        simp only [Except.map]
        have f1 : (scaleFitOut c out).status = out.status := rfl
        have f2 : (scaleFitOut c out).yfit = out.yfit.map (c * ·) := rfl
        have f3 : (scaleFitOut c out).obj = scaleBS c out.obj := rfl
        simp only [f1, f2, f3, hrej]
        split
        · rfl
        · split
          · generalize Reject.djsReject Kn.sqrt (rejectOpts p) yw (some out.yfit) (some s.maskwork) (some s.maskwork) iw = R
            cases R with
            | error e => rfl
            | ok mq => rfl
          · rfl
    | some r =>
      simp only [requirenMask_scale c hc, bind, Except.bind]
      generalize requirenMask s.sset xw iw s.maskwork r = Rm
      cases Rm with
      | error e => rfl
      | ok m =>
        have hB : (⟨(scaleBS c s.sset).nord, (scaleBS c s.sset).breakpoints, m, (scaleBS c s.sset).coeff⟩ : BS K) =
            scaleBS c ⟨s.sset.nord, s.sset.breakpoints, m, s.sset.coeff⟩ := rfl
        simp only [hB]
        simp only [Except.map, bind, Except.bind, pure, Except.pure, maskedWeights_scale, fit_scale Kn c hc hK]
        generalize fit Kn _ xw yw (maskedWeights iw s.maskwork) (List.range xw.length) = F
        cases F with
        | error e => rfl
        | ok out =>
          simp only [Except.map]
          have f1 : (scaleFitOut c out).status = out.status := rfl
          have f2 : (scaleFitOut c out).yfit = out.yfit.map (c * ·) := rfl
          have f3 : (scaleFitOut c out).obj = scaleBS c out.obj := rfl
          simp only [f1, f2, f3, hrej]
          split
          · rfl
          · split
            · generalize Reject.djsReject Kn.sqrt (rejectOpts p) yw (some out.yfit) (some s.maskwork) (some s.maskwork) iw = R
              cases R with
              | error e => rfl
              | ok mq => rfl
            · rfl

theorem iterLoopRq_scale (Kn : Kernels K) (c : K) (hc : 0 < c) (hK : KernelScale Kn c) (p : Params K) (rq : Option ℕ)
    (xw yw iw : List K) : ∀ (fuel : ℕ) (s : IterFit.St K) (cz : Bool),
    iterLoopRq Kn p rq xw (yw.map (c * ·)) (iw.map (· / c ^ 2)) fuel (scaleISt c s) cz =
      (iterLoopRq Kn p rq xw yw iw fuel s cz).map (fun oz => (scaleOutcome c oz.1, oz.2)) := by
  intro fuel
  induction fuel with
  | zero => intro s cz; rfl
  | succ fuel ih =>
    intro s cz
    unfold iterLoopRq
    have e4 : (scaleISt c s).error = s.error := rfl
    have e5 : (scaleISt c s).qdone = s.qdone := rfl
    have e6 : (scaleISt c s).iiter = s.iiter := rfl
    simp only [e4, e5, e6]
    split
    · rw [iterBodyRq_scale Kn c hc hK]
      generalize iterBodyRq Kn p rq xw yw iw s = B
      cases B with
      | error e => rfl
      | ok oz =>
        obtain ⟨o, z⟩ := oz
        cases o with
        | failed b => rfl
        | done s' =>
          simp only [Except.map, bind, Except.bind, scaleOutcome]
          exact ih s' z
    · rfl

theorem scaleBS_zero (c : K) (nord : ℕ) (bk : Array K) (m : Array Bool) (n : ℕ) :
    scaleBS c ⟨nord, bk, m, Array.replicate n (0 : K)⟩ = ⟨nord, bk, m, Array.replicate n (0 : K)⟩ := by
  unfold scaleBS
  simp only [Array.map_replicate, mul_zero]

theorem iterLoopRq_scale0 (Kn : Kernels K) (c : K) (hc : 0 < c) (hK : KernelScale Kn c) (p : Params K) (rq : Option ℕ)
    (xw yw iw : List K) (nord : ℕ) (bk : Array K) (m : Array Bool) (n nx : ℕ) (mw : List Bool) (e : ℤ) (q : Bool) (i fuel : ℕ) (cz : Bool) :
    iterLoopRq Kn p rq xw (yw.map (c * ·)) (iw.map (· / c ^ 2)) fuel
      ⟨⟨nord, bk, m, Array.replicate n (@OfNat.ofNat K (nat_lit 0) Scalar.instOfNat)⟩, mw,
        List.replicate nx (@OfNat.ofNat K (nat_lit 0) Scalar.instOfNat), e, q, i⟩ cz =
      (iterLoopRq Kn p rq xw yw iw fuel
        ⟨⟨nord, bk, m, Array.replicate n (@OfNat.ofNat K (nat_lit 0) Scalar.instOfNat)⟩, mw,
          List.replicate nx (@OfNat.ofNat K (nat_lit 0) Scalar.instOfNat), e, q, i⟩ cz).map
        (fun oz => (scaleOutcome c oz.1, oz.2)) := by
  have := iterLoopRq_scale Kn c hc hK p rq xw yw iw fuel
    ⟨⟨nord, bk, m, Array.replicate n (@OfNat.ofNat K (nat_lit 0) Scalar.instOfNat)⟩, mw,
      List.replicate nx (@OfNat.ofNat K (nat_lit 0) Scalar.instOfNat), e, q, i⟩ cz
  unfold scaleISt at this
  simp only [z0] at this ⊢
  simp only [scaleBS_zero, List.map_replicate, mul_zero] at this
  exact this

theorem iterCoreRq_scale (Kn : Kernels K) (c : K) (hc : 0 < c) (hK : KernelScale Kn c) (r32 : K → K) (p : Params K)
    (rq : Option ℕ) (xw yw iw : List K) :
    iterCoreRq Kn r32 p rq xw (yw.map (c * ·)) (iw.map (· / c ^ 2)) =
      (iterCoreRq Kn r32 p rq xw yw iw).map (fun r => (scaleBS c r.1, r.2.1, r.2.2)) := by
  unfold iterCoreRq
  have hm : (iw.map (· / c ^ 2)).map (fun v => decide ((@OfNat.ofNat K (nat_lit 0) Scalar.instOfNat) < v)) =
      iw.map (fun v => decide ((@OfNat.ofNat K (nat_lit 0) Scalar.instOfNat) < v)) := by
    rw [List.map_map]
    apply List.map_congr_left
    intro v _
    rw [Function.comp, decide_eq_decide, z0]
    exact pos_div_sq c hc v
  simp only [hm, List.length_map]
  split
  · rfl
  generalize mkKnots r32 _ p.nord p.opts = Kt
  cases Kt with
  | error e => rfl
  | ok knots =>
    simp only [bind, Except.bind]
    split
    · simp only [pure, Except.pure, Except.map, z0, scaleBS_zero]
    · rw [iterLoopRq_scale0 Kn c hc hK]
      generalize iterLoopRq Kn p rq xw yw iw (p.maxiter + 1) _ false = L
      cases L with
      | error e => rfl
      | ok oz =>
        obtain ⟨o, z⟩ := oz
        cases o with
        | failed b => rfl
        | done s' => rfl

def scaleRqOut (c : K) (o : RqOut K) : RqOut K := ⟨scaleBS c o.sset, o.cz, o.outmask⟩

/-- **`iterfit` (as `combine1fiber` calls it, `invvar` given) is scale equivariant** -/
theorem iterfitRq_scale (Kn : Kernels K) (c : K) (hc : 0 < c) (hK : KernelScale Kn c) (r32 : K → K) (var : List K → K)
    (p : Params K) (rq : Option ℕ) (xs ys ivs : List K) (perm : List ℕ) :
    iterfitRq Kn r32 var p rq xs (ys.map (c * ·)) (some (ivs.map (· / c ^ 2))) perm =
      (iterfitRq Kn r32 var p rq xs ys (some ivs) perm).map (scaleRqOut c) := by
  unfold iterfitRq
  simp only [List.length_map]
  split
  · rfl
  split
  · rfl
  simp only [bind, Except.bind, pure, Except.pure]
  split
  · rfl
  rw [map_getD_map (fun x => c * x) (mul_zero c), map_getD_map (fun x => x / c ^ 2) (zero_div _), iterCoreRq_scale Kn c hc hK]
  generalize iterCoreRq Kn r32 p rq _ _ _ = C
  cases C with
  | error e => rfl
  | ok r =>
    obtain ⟨sset, cz, m⟩ := r
    cases m with
    | none => rfl
    | some mw => rfl

/-- the `Fit` record of the scaled data -/
def scaleFit (c : K) (F : Fit K) : Fit K :=
  { coeffs := F.coeffs.map (c * ·)
    value := fun xs => (F.value xs).map (fun vm => (vm.1.map (c * ·), vm.2))
    bmask := F.bmask }

/-- **the `fit` parameter of `combine1fiber`, instantiated with the modelled `iterfit`, is scale equivariant** -/
theorem fitFull_scale (Kn : Kernels K) (c : K) (hc : 0 < c) (hK : KernelScale Kn c) (r32 : K → K) (var : List K → K)
    (argsort : List K → List ℕ) (k : ℕ) (bk : K) (x y iv : List K) :
    fitFull Kn r32 var argsort k bk x (y.map (c * ·)) (some (iv.map (· / c ^ 2))) =
      (fitFull Kn r32 var argsort k bk x y (some iv)).map (scaleFit c) := by
  unfold fitFull
  rw [iterfitRq_scale Kn c hc hK]
  generalize iterfitRq Kn r32 var (c1fParams bk) (some 1) x y (some iv) (argsort x) = O
  cases O with
  | error e => rfl
  | ok o =>
    simp only [Except.map, bind, Except.bind, pure, Except.pure, scaleRqOut, scaleFit]
    congr 2
    · cases o.cz with
      | true => simp only [if_true, List.map_cons, List.map_nil, z0, mul_zero]
      | false =>
        simp only [Bool.false_eq_true, if_false]
        unfold scaleBS
        simp only [Array.toList_map]
    · funext xs
      cases o.cz with
      | true => rfl
      | false =>
        simp only [Bool.false_eq_true, if_false]
        exact value_scale c o.sset xs (argsort xs)


end field
end PydlVerif.CombineScale

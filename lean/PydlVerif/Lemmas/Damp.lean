/-
Helper lemmas for C17, second extension round: first / last element of `filter P (range n)`
(`goodpts.min()`, `goodpts.max()` of aesthetics('damp')).
-/
import PydlVerif.Model.Interp

namespace PydlVerif.Interp

theorem filter_range_head (P : Nat → Bool) (n lo : Nat) (hlo : lo < n) (Plo : P lo = true)
    (hpre : ∀ k, k < lo → P k = false) : ((List.range n).filter P).head? = some lo := by
  rw [List.head?_filter, List.find?_range_eq_some]
  refine ⟨Plo, List.mem_range.2 hlo, ?_⟩
  intro j hj
  simp [hpre j hj]

theorem filter_range_last (P : Nat → Bool) (hi : Nat) (Phi : P hi = true) :
    ∀ n, hi < n → (∀ k, hi < k → k < n → P k = false) → ((List.range n).filter P).getLast? = some hi := by
  intro n
  induction n with
  | zero => intro h; omega
  | succ n ih =>
    intro hn hpost
    rw [List.range_succ, List.filter_append]
    by_cases e : n = hi
    · subst e
      simp [Phi]
    · have : P n = false := hpost n (by omega) (by omega)
      simp only [List.filter_cons, this, Bool.false_eq_true, if_false, List.filter_nil, List.append_nil]
      exact ih (by omega) (fun k h1 h2 => hpost k h1 (by omega))

theorem filter_range_nil (P : Nat → Bool) (n : Nat) (h : ∀ k, k < n → P k = false) :
    (List.range n).filter P = [] := by
  rw [List.filter_eq_nil_iff]
  intro k hk
  simp [h k (List.mem_range.1 hk)]

end PydlVerif.Interp

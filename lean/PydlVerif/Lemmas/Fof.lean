/-
Helper lemmas for C05 (friends-of-friends): functional arrays, the intrusive
first/next lists built by `link`, the list walk, counting, renumbering.
Core Lean only.
-/
import PydlVerif.Model.Fof
namespace PydlVerif.Fof

@[simp] theorem upd_get {α} (f : Arr α) (i : Nat) (v : α) (j : Nat) :
    (upd f i v).get j = if j = i then v else f.get j := rfl

@[simp] theorem const_get {α} (v : α) (j : Nat) : (Arr.const v).get j = v := rfl

@[simp] theorem freeze_eq {α} (n : Nat) (f : Arr α) : freeze n f = f := by
  cases f with | mk g =>
  simp only [freeze, Arr.mk.injEq]
  funext j
  split
  · simp
  · rfl

/-- a fold of `a[j] = v` over a list of indices -/
theorem foldl_upd_const {α} (v : α) (l : List Nat) (g : Arr α) (x : Nat) :
    (l.foldl (fun g j => upd g j v) g).get x = if x ∈ l then v else g.get x := by
  induction l generalizing g with
  | nil => simp
  | cons a l ih =>
    simp only [List.foldl_cons, ih, upd_get, List.mem_cons]
    by_cases h1 : x ∈ l <;> by_cases h2 : x = a <;> simp [h1, h2]

/-- `first`/`next` are the sorted member lists of the labelling `g` restricted to `[lo, top)` -/
structure IsLists (g : Arr Nat) (lo top : Nat) (L : Lists) : Prop where
  first_none : ∀ c, L.first.get c = none → ∀ x, lo ≤ x → x < top → g.get x ≠ c
  first_some : ∀ c y, L.first.get c = some y →
    lo ≤ y ∧ y < top ∧ g.get y = c ∧ ∀ x, lo ≤ x → x < y → g.get x ≠ c
  next_none : ∀ x, lo ≤ x → x < top → L.next.get x = none → ∀ z, x < z → z < top → g.get z ≠ g.get x
  next_some : ∀ x, lo ≤ x → x < top → ∀ y, L.next.get x = some y →
    x < y ∧ y < top ∧ g.get y = g.get x ∧ ∀ z, x < z → z < y → g.get z ≠ g.get x

theorem isLists_step (g : Arr Nat) (k top : Nat) (hk : k < top) (s : Lists) (h : IsLists g (k+1) top s) :
    IsLists g k top ⟨upd s.first (g.get k) (some k), upd s.next k (s.first.get (g.get k))⟩ := by
  refine ⟨?_, ?_, ?_, ?_⟩
  · intro c hc x hx1 hx2
    simp only [upd_get] at hc
    split at hc
    · cases hc
    · rename_i hne
      by_cases hxk : x = k
      · subst hxk; exact fun e => hne e.symm
      · exact h.first_none c hc x (by omega) hx2
  · intro c y hc
    simp only [upd_get] at hc
    split at hc
    · rename_i he
      cases hc
      exact ⟨Nat.le_refl _, hk, he.symm, fun x h1 h2 => by omega⟩
    · rename_i hne
      obtain ⟨a, b, c', d⟩ := h.first_some c y hc
      refine ⟨by omega, b, c', fun x h1 h2 => ?_⟩
      by_cases hxk : x = k
      · subst hxk; exact fun e => hne e.symm
      · exact d x (by omega) h2
  · intro x hx1 hx2 hn z hz1 hz2
    simp only [upd_get] at hn
    split at hn
    · rename_i he
      subst he
      exact h.first_none _ hn z (by omega) hz2
    · exact h.next_none x (by omega) hx2 hn z hz1 hz2
  · intro x hx1 hx2 y hn
    simp only [upd_get] at hn
    split at hn
    · rename_i he
      subst he
      obtain ⟨a, b, c', d⟩ := h.first_some _ y hn
      exact ⟨by omega, b, c', fun z h1 h2 => d z (by omega) h2⟩
    · exact h.next_some x (by omega) hx2 y hn

theorem isLists_link (g : Arr Nat) (top : Nat) : ∀ k, k ≤ top → ∀ s, IsLists g k top s →
    IsLists g 0 top (link g k s) := by
  intro k
  induction k with
  | zero => intro _ s h; exact h
  | succ k ih =>
    intro hk s h
    simp only [link]
    exact ih (by omega) _ (isLists_step g k top (by omega) s h)

theorem isLists_empty (g : Arr Nat) (top : Nat) (nx : Arr (Option Nat)) :
    IsLists g top top ⟨Arr.const none, nx⟩ := by
  refine ⟨?_, ?_, ?_, ?_⟩
  · intro c _ x h1 h2; omega
  · intro c y h; simp at h
  · intro x h1 h2; omega
  · intro x h1 h2; omega

/-- the lists rebuilt from scratch are the member lists of the labelling -/
theorem isLists_rebuild (g : Arr Nat) (n : Nat) (nx : Arr (Option Nat)) :
    IsLists g 0 n (link g n ⟨Arr.const none, nx⟩) :=
  isLists_link g n n (Nat.le_refl _) _ (isLists_empty g n nx)

/-- members of class `c` in `[lo, top)`, increasing -/
def members (g : Arr Nat) (c lo top : Nat) : List Nat :=
  (List.range' lo (top - lo)).filter (fun x => g.get x = c)

theorem members_nil (g : Arr Nat) (c lo top : Nat) (h : ∀ x, lo ≤ x → x < top → g.get x ≠ c) :
    members g c lo top = [] := by
  simp only [members, List.filter_eq_nil_iff, List.mem_range'_1, decide_eq_true_eq]
  intro x hx
  exact h x hx.1 (by omega)

theorem members_cons (g : Arr Nat) (c lo top y : Nat) (h1 : lo ≤ y) (h2 : y < top) (h3 : g.get y = c)
    (h4 : ∀ x, lo ≤ x → x < y → g.get x ≠ c) :
    members g c lo top = y :: members g c (y+1) top := by
  have e1 : List.range' lo (top - lo) = List.range' lo (y - lo) ++ List.range' y (top - y) := by
    have := List.range'_append_1 (s := lo) (m := y - lo) (n := top - y)
    rw [show lo + (y - lo) = y by omega, show y - lo + (top - y) = top - lo by omega] at this
    exact this.symm
  have e2 : List.range' y (top - y) = y :: List.range' (y+1) (top - (y+1)) := by
    rw [show top - y = (top - (y+1)) + 1 by omega, List.range'_succ]
  have e3 : (List.range' lo (y - lo)).filter (fun x => g.get x = c) = [] := by
    simp only [List.filter_eq_nil_iff, List.mem_range'_1, decide_eq_true_eq]
    intro x hx
    exact h4 x hx.1 (by omega)
  simp only [members]
  rw [e1, List.filter_append, e3, e2, List.nil_append, List.filter_cons]
  simp [h3]

/-- walking the list from the least member `≥ lo` enumerates exactly the members in `[lo, top)` in
increasing order, and reaches `-1` within the fuel -/
theorem walk_members (g : Arr Nat) (top : Nat) (L : Lists) (hL : IsLists g 0 top L) (c : Nat) :
    ∀ fuel lo (k : Option Nat), top ≤ fuel + lo →
    (k = none → ∀ x, lo ≤ x → x < top → g.get x ≠ c) →
    (∀ y, k = some y → lo ≤ y ∧ y < top ∧ g.get y = c ∧ ∀ x, lo ≤ x → x < y → g.get x ≠ c) →
    walkEnds L.next fuel k = true ∧ walk L.next fuel k = members g c lo top := by
  intro fuel
  induction fuel with
  | zero =>
    intro lo k hf hn hs
    cases k with
    | none => exact ⟨rfl, by rw [members_nil g c lo top (hn rfl)]; rfl⟩
    | some y => obtain ⟨a, b, _, _⟩ := hs y rfl; omega
  | succ fuel ih =>
    intro lo k hf hn hs
    cases k with
    | none => exact ⟨rfl, by rw [members_nil g c lo top (hn rfl)]; rfl⟩
    | some y =>
      obtain ⟨a, b, hc, d⟩ := hs y rfl
      have := ih (y+1) (L.next.get y) (by omega)
        (fun hnone x h1 h2 => by
          have := hL.next_none y (Nat.zero_le _) b hnone x (by omega) h2
          rw [hc] at this; exact this)
        (fun z hz => by
          obtain ⟨p, q, r, s⟩ := hL.next_some y (Nat.zero_le _) b z hz
          exact ⟨by omega, q, by rw [r, hc], fun x h1 h2 => by
            have := s x (by omega) h2
            rw [hc] at this; exact this⟩)
      simp only [walk, walkEnds]
      exact ⟨this.1, by rw [this.2, members_cons g c lo top y a b hc d]⟩

theorem walk_first (g : Arr Nat) (top fuel : Nat) (L : Lists) (hL : IsLists g 0 top L) (hf : top ≤ fuel) (c : Nat) :
    walkEnds L.next fuel (L.first.get c) = true ∧
    walk L.next fuel (L.first.get c) = (List.range top).filter (fun x => g.get x = c) := by
  have := walk_members g top L hL c fuel 0 (L.first.get c) (by omega)
    (fun h x _ h2 => hL.first_none c h x (Nat.zero_le _) h2)
    (fun y h => hL.first_some c y h)
  refine ⟨this.1, ?_⟩
  rw [this.2, members, List.range_eq_range']
  simp

theorem mem_walk_first (g : Arr Nat) (top fuel : Nat) (L : Lists) (hL : IsLists g 0 top L) (hf : top ≤ fuel)
    (c x : Nat) : x ∈ walk L.next fuel (L.first.get c) ↔ x < top ∧ g.get x = c := by
  rw [(walk_first g top fuel L hL hf c).2]
  simp

/-! ### counting -/

theorem foldl_count (c : Nat) (l : List Nat) (m : Arr Nat) (j : Nat) :
    (l.foldl (fun m _ => upd m c (m.get c + 1)) m).get j = if j = c then m.get c + l.length else m.get j := by
  induction l generalizing m with
  | nil => by_cases h : j = c <;> simp [h]
  | cons a l ih =>
    simp only [List.foldl_cons, ih, upd_get, List.length_cons]
    by_cases h : j = c <;> simp [h]; omega

theorem countAll_get (fuel : Nat) (L : Lists) (reset : Bool) (mult : Arr Nat) (ng j : Nat) :
    (countAll fuel L reset ng mult).get j =
      if j < ng then (if reset then 0 else mult.get j) + (walk L.next fuel (L.first.get j)).length
      else mult.get j := by
  induction ng with
  | zero => simp [countAll]
  | succ ng ih =>
    simp only [countAll] at ih ⊢
    rw [List.range_succ, List.foldl_append, List.foldl_cons, List.foldl_nil]
    simp only [countStep, foldl_count]
    by_cases h : j = ng
    · subst h
      cases reset <;> simp [ih]
    · by_cases h2 : j < ng
      · have : j < ng + 1 := by omega
        cases reset <;> simp [h, h2, this, ih]
      · have : ¬ j < ng + 1 := by omega
        cases reset <;> simp [h, h2, this, ih]

theorem countOk_of (fuel : Nat) (L : Lists) (ng : Nat) (h : ∀ c, walkEnds L.next fuel (L.first.get c) = true) :
    countOk fuel L ng = true := by
  simp [countOk, h]

end PydlVerif.Fof

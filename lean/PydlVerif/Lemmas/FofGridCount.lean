/-
C05 (extension round 2): counting for the occupancy bound of `chunks.assign` (core Lean only).
* `tabSum`: the sum over the cells `for i in range(nDec): for j in range(nRa[i])` of a function of the cell;
  the total size of `cellLists` is such a sum (`occ_eq`);
* one iteration of `assign` (reset pass + append pass) adds at most one entry per VISITED cell, hence at
  most `len(visit list)` entries (`assignCells_occ`), and the whole loop at most the sum of these lengths
  (`assignAll_occ`);
* the visit list of `getbounds` ranges with at most 3 bands of at most 3 indices has at most 9 entries
  (`cellsOfRange_length`).
-/
import PydlVerif.Model.FofGrid
import PydlVerif.Lemmas.SphereIndex
namespace PydlVerif.FofGrid
open PydlVerif PydlVerif.Sphere

def rowSum (f : Nat × Nat → Nat) (i m : Nat) : Nat := ((List.range m).map fun j => f (i, j)).sum

def tabSum (f : Nat × Nat → Nat) (nDec : Nat) (nRa : Array Nat) : Nat :=
  ((List.range nDec).map fun i => rowSum f i (nRa.getD i 0)).sum

theorem rowSum_succ (f : Nat × Nat → Nat) (i m : Nat) : rowSum f i (m + 1) = rowSum f i m + f (i, m) := by
  simp [rowSum, List.range_succ, List.map_append, List.sum_append]

theorem tabSum_succ (f : Nat × Nat → Nat) (k : Nat) (nRa : Array Nat) :
    tabSum f (k + 1) nRa = tabSum f k nRa + rowSum f k (nRa.getD k 0) := by
  simp [tabSum, List.range_succ, List.map_append, List.sum_append]

theorem rowSum_congr (f f' : Nat × Nat → Nat) (h : ∀ c, f' c = f c) (i m : Nat) : rowSum f' i m = rowSum f i m := by
  have : f' = f := funext h
  rw [this]

theorem tabSum_congr (f f' : Nat × Nat → Nat) (h : ∀ c, f' c = f c) (k : Nat) (nRa : Array Nat) :
    tabSum f' k nRa = tabSum f k nRa := by
  have : f' = f := funext h
  rw [this]

theorem rowSum_zero (f : Nat × Nat → Nat) (h : ∀ c, f c = 0) (i m : Nat) : rowSum f i m = 0 := by
  induction m with
  | zero => rfl
  | succ m ih => rw [rowSum_succ, ih, h]

theorem tabSum_zero (f : Nat × Nat → Nat) (h : ∀ c, f c = 0) (k : Nat) (nRa : Array Nat) : tabSum f k nRa = 0 := by
  induction k with
  | zero => rfl
  | succ k ih => rw [tabSum_succ, ih, rowSum_zero f h]

/-- a function that grows by at most one, and only at the cell `c0` -/
theorem rowSum_le (f f' : Nat × Nat → Nat) (c0 : Nat × Nat)
    (h : ∀ c, f' c ≤ f c + if c = c0 then 1 else 0) (i m : Nat) :
    rowSum f' i m ≤ rowSum f i m + if i = c0.1 ∧ c0.2 < m then 1 else 0 := by
  induction m with
  | zero => simp [rowSum]
  | succ m ih =>
    rw [rowSum_succ, rowSum_succ]
    have h1 := h (i, m)
    by_cases hc : (i, m) = c0
    · subst hc
      simp only [Nat.lt_irrefl, and_false, if_false, Nat.add_zero] at ih
      simp only [if_true] at h1
      simp only [Nat.lt_succ_self, and_self, if_true]
      omega
    · rw [if_neg hc] at h1
      have : (if i = c0.1 ∧ c0.2 < m then 1 else 0) ≤ (if i = c0.1 ∧ c0.2 < m + 1 then 1 else 0) := by
        by_cases h2 : i = c0.1 ∧ c0.2 < m
        · rw [if_pos h2, if_pos ⟨h2.1, by omega⟩]; exact Nat.le_refl _
        · rw [if_neg h2]; exact Nat.zero_le _
      omega

theorem tabSum_le (f f' : Nat × Nat → Nat) (c0 : Nat × Nat)
    (h : ∀ c, f' c ≤ f c + if c = c0 then 1 else 0) (k : Nat) (nRa : Array Nat) :
    tabSum f' k nRa ≤ tabSum f k nRa + if c0.1 < k then 1 else 0 := by
  induction k with
  | zero => simp [tabSum]
  | succ k ih =>
    rw [tabSum_succ, tabSum_succ]
    have h1 := rowSum_le f f' c0 h k (nRa.getD k 0)
    by_cases hc : k = c0.1
    · have e0 : (if c0.1 < k then 1 else 0) = 0 := by rw [if_neg (by omega)]
      have e1 : (if c0.1 < k + 1 then 1 else 0) = 1 := by rw [if_pos (by omega)]
      have e2 : (if k = c0.1 ∧ c0.2 < nRa.getD k 0 then 1 else 0) ≤ 1 := by split <;> omega
      omega
    · have e2 : (if k = c0.1 ∧ c0.2 < nRa.getD k 0 then 1 else 0) = 0 := by
        rw [if_neg (fun hh => hc hh.1)]
      have e3 : (if c0.1 < k then 1 else 0) ≤ (if c0.1 < k + 1 then 1 else 0) := by
        by_cases h2 : c0.1 < k
        · rw [if_pos h2, if_pos (by omega)]; exact Nat.le_refl _
        · rw [if_neg h2]; exact Nat.zero_le _
      omega

theorem tabSum_le_one (f f' : Nat × Nat → Nat) (c0 : Nat × Nat)
    (h : ∀ c, f' c ≤ f c + if c = c0 then 1 else 0) (k : Nat) (nRa : Array Nat) :
    tabSum f' k nRa ≤ tabSum f k nRa + 1 := by
  have := tabSum_le f f' c0 h k nRa
  have e : (if c0.1 < k then 1 else 0) ≤ 1 := by split <;> omega
  omega

/-- total number of entries of the cell table -/
def occT (nDec : Nat) (nRa : Array Nat) (t : Tab CellSt) : Nat := tabSum (fun c => (t.get c).1.length) nDec nRa

/-- the total size of the cell lists handed to friendsoffriends is the number of entries of the table -/
theorem occ_eq (nDec : Nat) (nRa : Array Nat) (t : Tab CellSt) :
    ((cellLists nDec nRa t).map Array.size).sum = occT nDec nRa t := by
  have key : ∀ (l : List Nat) (F : Nat → List (Array Nat)),
      ((l.flatMap F).map Array.size).sum = (l.map fun i => ((F i).map Array.size).sum).sum := by
    intro l F
    induction l with
    | nil => rfl
    | cons x l ih => simp [List.flatMap_cons, List.map_append, List.sum_append, ih]
  unfold cellLists occT tabSum
  rw [key]
  congr 1
  apply List.map_congr_left
  intro i _
  simp only [rowSum, List.map_map]
  congr 1

theorem appStep_len (i : Nat) (t : Tab CellSt) (c0 c : Nat × Nat) :
    ((appStep i t c0).get c).1.length ≤ (t.get c).1.length + if c = c0 then 1 else 0 := by
  by_cases hd : (t.get c0).2 = true
  · rw [appStep_done _ _ _ hd]; omega
  · rw [appStep_not _ _ _ hd]
    by_cases hc : c0 = c
    · subst hc
      rw [if_pos rfl]
      rcases Tab.get_modify_same t c0 (fun x => (x.1 ++ [i], true)) with ⟨_, h2⟩ | ⟨_, h2, _⟩
      · rw [h2]; simp
      · rw [h2]; omega
    · rw [Tab.get_modify_ne _ _ _ _ hc]; omega

theorem appendPass_occ (nDec : Nat) (nRa : Array Nat) (i : Nat) (cells : List (Nat × Nat)) (t : Tab CellSt) :
    occT nDec nRa (appendPass i t cells) ≤ occT nDec nRa t + cells.length := by
  induction cells generalizing t with
  | nil => exact Nat.le_refl _
  | cons c0 rest ih =>
    rw [appendPass_cons]
    have h1 := ih (appStep i t c0)
    have h2 : occT nDec nRa (appStep i t c0) ≤ occT nDec nRa t + 1 :=
      tabSum_le_one _ _ c0 (fun c => appStep_len i t c0 c) nDec nRa
    simp only [List.length_cons]
    omega

theorem resetPass_occ (nDec : Nat) (nRa : Array Nat) (cells : List (Nat × Nat)) (t : Tab CellSt) :
    occT nDec nRa (resetPass t cells) = occT nDec nRa t :=
  tabSum_congr _ _ (fun c => by rw [resetPass_fst]) nDec nRa

/-- one point: at most one new entry per visited cell -/
theorem assignCells_occ (nDec : Nat) (nRa : Array Nat) (i : Nat) (t : Tab CellSt) (R V : List (Nat × Nat)) :
    occT nDec nRa (assignCells i t R V) ≤ occT nDec nRa t + V.length := by
  unfold assignCells
  have := appendPass_occ nDec nRa i V (resetPass t R)
  rw [resetPass_occ] at this
  exact this

/-- the loop over points of `assign`: if every point visits at most `B` cells, the table holds at most
`B * n` entries -/
theorem assignAll_occ (nDec : Nat) (nRa : Array Nat) (B n : Nat) (R V : Nat → List (Nat × Nat)) (init : Tab CellSt)
    (h0 : ∀ c, (init.get c).1 = []) (hV : ∀ i, i < n → (V i).length ≤ B) :
    occT nDec nRa (assignAll n R V init) ≤ B * n := by
  induction n with
  | zero =>
    have : occT nDec nRa init = 0 := tabSum_zero _ (fun c => by rw [h0 c]; rfl) nDec nRa
    simp [assignAll, this]
  | succ n ih =>
    rw [assignAll_succ]
    have h1 := assignCells_occ nDec nRa n (assignAll n R V init) (R n) (V n)
    have h2 := ih (fun i hi => hV i (by omega))
    have h3 := hV n (by omega)
    rw [Nat.mul_succ]
    omega

/-! ### the visit list of one point -/

theorem flatMap_length_le {β γ : Type} (f : β → List γ) (b : Nat) (l : List β) (h : ∀ x ∈ l, (f x).length ≤ b) :
    (l.flatMap f).length ≤ b * l.length := by
  induction l with
  | nil => simp
  | cons x l ih =>
    rw [List.flatMap_cons, List.length_append, List.length_cons, Nat.mul_succ]
    have h1 := h x List.mem_cons_self
    have h2 := ih (fun y hy => h y (List.mem_cons_of_mem _ hy))
    omega

theorem irange_length (lo hi : Int) : (irange lo hi).length = (hi + 1 - lo).toNat := by
  simp [irange]

/-- at most 3 declination bands with at most 3 RA indices each: at most 9 visited cells -/
theorem cellsOfRange_length (nRa : Array Nat) (B : Bounds) (hn : B.ra.length ≤ 3)
    (hlen : ∀ x ∈ B.ra, (x.2 + 1 - x.1).toNat ≤ 3) : (cellsOfRange nRa B 0).length ≤ 9 := by
  unfold cellsOfRange
  have h1 := flatMap_length_le
    (fun (x : Nat × Int × Int) =>
      (irange (x.2.1 - 0) (x.2.2 + 0)).filterMap fun r => (wrapIdx (nRa.getD (x.1 + B.decMin) 0) r).map fun c =>
        (x.1 + B.decMin, c)) 3
    ((List.range (B.decMax + 1 - B.decMin)).zip B.ra) (by
      intro x hx
      have hx2 : x.2 ∈ B.ra := (List.of_mem_zip hx).2
      have := hlen x.2 hx2
      refine Nat.le_trans (List.length_filterMap_le _ _) ?_
      rw [irange_length]
      simp only [Int.sub_zero, Int.add_zero]
      exact this)
  have h2 : ((List.range (B.decMax + 1 - B.decMin)).zip B.ra).length ≤ 3 := by
    rw [List.length_zip]; omega
  calc _ ≤ 3 * ((List.range (B.decMax + 1 - B.decMin)).zip B.ra).length := h1
    _ ≤ 9 := by omega

end PydlVerif.FofGrid

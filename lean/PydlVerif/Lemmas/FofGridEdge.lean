/-
C05 (extension round 2): a pair at EXACTLY the linking length on the grid of spheregroup (ℝ).
The closeness test of `groups` is `sep <= distance`, the cover theorems of C04 are about
`sep < margin`, and the loops of `getbounds` compare with strict `<`.  On the boundary `sep = ll` the
cell of the one point need not be visited for the other - but then the cell of the other is visited
for the one: the DOWNWARD loops never need strictness (the partner lies strictly below the upper
edge of its cell), so
* different declinations: the RA margin is strict (`ra_margin_covers_eq`: part of the separation is
  spent on the declination difference) and the point in the higher band reaches down to the band of
  the other (`OwnGrid.cover_eq_dec`);
* equal declinations: both points use the same RA margin, the RA difference on the circle is at most
  the margin (`ra_margin_le_of_eq`), and the point of larger RA reaches down to the cell of the other,
  or - across the seam - the point of smaller RA runs down to index -1, which wraps onto the last
  cell, where the other lies (`OwnGrid.cover_eq_ra`).
Hence some cell is visited for both (`OwnGrid.share_eq`).
-/
import PydlVerif.Lemmas.FofGridReal
namespace PydlVerif.FofGrid
open Real PydlVerif PydlVerif.Sphere

attribute [local instance] realFns fieldScalar fieldTrig
attribute [-instance] Scalar.instOfNat Scalar.instOfScientific

/-! ### the RA margin at `sep = m` -/

theorem le_of_sq_le_sq' {a b : ℝ} (ha : 0 ≤ a) (hb : 0 ≤ b) (h : a ^ 2 ≤ b ^ 2) : a ≤ b := by
  have := Real.sqrt_le_sqrt h
  rwa [Real.sqrt_sq ha, Real.sqrt_sq hb] at this

/-- different declinations, separation EXACTLY m: the RA difference on the circle is still strictly
below the margin (a separation d' < m has the same haversine of the RA difference) -/
theorem ra_margin_covers_eq (c a1 δp a2 δq m Δ : ℝ) (hc : 0 < c) (hcp : c ≤ cos (δp * (π / 180)))
    (hcq : 0 < cos (δq * (π / 180))) (hΔ0 : 0 ≤ Δ) (hΔ : Δ ≤ 180) (hm : m ≤ 180)
    (hΔs : sin (Δ / 2 * (π / 180)) ^ 2 = sin ((a2 * (π / 180) - a1 * (π / 180)) / 2) ^ 2)
    (heq : @gcircDeg ℝ realTrig a1 δp a2 δq = m) (hne : δp ≠ δq) (hp : |δp| < 90) (hq : |δq| < 90) :
    Δ < @raMarginOf ℝ realTrig c δq m := by
  have hpi := Real.pi_pos
  have hk : 0 < π / 180 := by positivity
  have hcp0 : 0 < cos (δp * (π / 180)) := lt_of_lt_of_le hc hcp
  obtain ⟨hid, ⟨hm0, _⟩, _, _⟩ := C04.hav_identity a1 δp a2 δq
  rw [heq] at hid hm0
  rw [← hΔs] at hid
  obtain ⟨X, hX⟩ : ∃ X, X = cos (δp * (π / 180)) * cos (δq * (π / 180)) * sin (Δ / 2 * (π / 180)) ^ 2 := ⟨_, rfl⟩
  rw [← hX] at hid
  have hX0 : 0 ≤ X := by rw [hX]; exact mul_nonneg (mul_nonneg hcp0.le hcq.le) (sq_nonneg _)
  -- the declination part of the haversine is positive
  have hS : 0 < sin ((δq * (π / 180) - δp * (π / 180)) / 2) ^ 2 := by
    have hu : (δq * (π / 180) - δp * (π / 180)) / 2 = (δq - δp) * (π / 180) / 2 := by ring
    rw [hu]
    have hne' : δq - δp ≠ 0 := sub_ne_zero.2 (Ne.symm hne)
    rw [abs_lt] at hp hq
    have hsin : sin ((δq - δp) * (π / 180) / 2) ≠ 0 := by
      rcases lt_or_gt_of_ne hne' with hlt | hgt
      · apply ne_of_lt
        apply Real.sin_neg_of_neg_of_neg_pi_lt
        · have : (δq - δp) * (π / 180) < 0 := mul_neg_of_neg_of_pos hlt hk
          linarith
        · nlinarith
      · apply ne_of_gt
        apply Real.sin_pos_of_pos_of_lt_pi
        · have : 0 < (δq - δp) * (π / 180) := mul_pos hgt hk
          linarith
        · nlinarith
    exact lt_of_le_of_ne (sq_nonneg _) (Ne.symm (pow_ne_zero 2 hsin))
  have hXlt : X < sin (m / 2 * (π / 180)) ^ 2 := by rw [hid]; linarith
  have hmk0 : 0 ≤ m / 2 * (π / 180) := by positivity
  have hmk1 : m / 2 * (π / 180) ≤ π / 2 := by nlinarith
  have hsm0 : 0 ≤ sin (m / 2 * (π / 180)) := Real.sin_nonneg_of_nonneg_of_le_pi hmk0 (by linarith)
  have hX1 : X ≤ 1 := by have := Real.sin_sq_le_one (m / 2 * (π / 180)); linarith
  have hsmpos : 0 < sin (m / 2 * (π / 180)) := by
    rcases eq_or_lt_of_le hsm0 with h | h
    · rw [← h] at hXlt; norm_num at hXlt; linarith
    · exact h
  have hsq_lt : sqrt X < sin (m / 2 * (π / 180)) := (Real.sqrt_lt' hsmpos).2 hXlt
  have hsq1 : sqrt X ≤ 1 := Real.sqrt_le_one.2 hX1
  have hsq0 : 0 ≤ sqrt X := Real.sqrt_nonneg X
  have harc : arcsin (sqrt X) < m / 2 * (π / 180) :=
    (Real.arcsin_lt_iff_lt_sin ⟨by linarith, hsq1⟩ ⟨by linarith, hmk1⟩).2 hsq_lt
  have harc0 : 0 ≤ arcsin (sqrt X) := Real.arcsin_nonneg.2 hsq0
  have h180 : 0 < 180 / π := by positivity
  have hd0 : 0 ≤ 2 * arcsin (sqrt X) * (180 / π) := by positivity
  have hhalf : 2 * arcsin (sqrt X) * (180 / π) / 2 * (π / 180) = arcsin (sqrt X) := by field_simp
  have hdm : 2 * arcsin (sqrt X) * (180 / π) < m := by
    have h1 : 2 * arcsin (sqrt X) * (180 / π) < 2 * (m / 2 * (π / 180)) * (180 / π) :=
      mul_lt_mul_of_pos_right (by linarith) h180
    have h2 : 2 * (m / 2 * (π / 180)) * (180 / π) = m := by field_simp
    linarith
  apply ra_cover_of_hav c δq δp m Δ (2 * arcsin (sqrt X) * (180 / π)) hc hcp hcq hΔ0 hΔ hd0 hdm hm
  rw [hhalf, Real.sin_arcsin (by linarith) hsq1, Real.sq_sqrt hX0, hX]

/-- equal declinations, separation EXACTLY m: the RA difference on the circle is at most the margin -/
theorem ra_margin_le_of_eq (c a1 δ a2 m Δ : ℝ) (hc : 0 < c) (hcδ : c ≤ cos (δ * (π / 180)))
    (hΔ0 : 0 ≤ Δ) (hΔ : Δ ≤ 180) (hm : m ≤ 180)
    (hΔs : sin (Δ / 2 * (π / 180)) ^ 2 = sin ((a2 * (π / 180) - a1 * (π / 180)) / 2) ^ 2)
    (heq : @gcircDeg ℝ realTrig a1 δ a2 δ = m) :
    Δ ≤ @raMarginOf ℝ realTrig c δ m := by
  have hpi := Real.pi_pos
  have hk : 0 < π / 180 := by positivity
  have hcδ0 : 0 < cos (δ * (π / 180)) := lt_of_lt_of_le hc hcδ
  obtain ⟨hid, ⟨hm0, _⟩, _, _⟩ := C04.hav_identity a1 δ a2 δ
  rw [heq] at hid hm0
  rw [← hΔs, sub_self, zero_div, Real.sin_zero] at hid
  have hmk0 : 0 ≤ m / 2 * (π / 180) := by positivity
  have hmk1 : m / 2 * (π / 180) ≤ π / 2 := by nlinarith
  have hsm0 : 0 ≤ sin (m / 2 * (π / 180)) := Real.sin_nonneg_of_nonneg_of_le_pi hmk0 (by linarith)
  have hΔk0 : 0 ≤ Δ / 2 * (π / 180) := by positivity
  have hΔk1 : Δ / 2 * (π / 180) ≤ π / 2 := by nlinarith
  have hsΔ0 : 0 ≤ sin (Δ / 2 * (π / 180)) := Real.sin_nonneg_of_nonneg_of_le_pi hΔk0 (by linarith)
  rw [raMarginOf_real]
  have e05 : (0.5 : ℝ) * m * (π / 180) = m / 2 * (π / 180) := by norm_num; ring
  rw [e05]
  split
  · rename_i hs
    have hpos : 0 < c * cos (δ * (π / 180)) := mul_pos hc hcδ0
    have hsq : 0 < sqrt (c * cos (δ * (π / 180))) := Real.sqrt_pos.2 hpos
    have hle : sin (Δ / 2 * (π / 180)) ≤ sin (m / 2 * (π / 180)) / sqrt (c * cos (δ * (π / 180))) := by
      rw [le_div_iff₀ hsq]
      apply le_of_sq_le_sq' (mul_nonneg hsΔ0 hsq.le) hsm0
      rw [mul_pow, Real.sq_sqrt hpos.le, hid]
      have h1 : 0 ≤ sin (Δ / 2 * (π / 180)) ^ 2 * cos (δ * (π / 180)) := mul_nonneg (sq_nonneg _) hcδ0.le
      nlinarith
    have harc : Δ / 2 * (π / 180) ≤ arcsin (sin (m / 2 * (π / 180)) / sqrt (c * cos (δ * (π / 180)))) :=
      (Real.le_arcsin_iff_sin_le ⟨by linarith, hΔk1⟩
        ⟨by have := div_nonneg hsm0 hsq.le; linarith, hs.le⟩).2 hle
    have h180 : 0 < 180 / π := by positivity
    have h1 := mul_le_mul_of_nonneg_right harc h180.le
    have h2 : Δ / 2 * (π / 180) * (180 / π) = Δ / 2 := by field_simp
    linarith
  · linarith

/-! ### `chunks.get` -/

theorem get_inv (g : Grid ℝ) (a δ : ℝ) (d r : Nat) (h : Sphere.get g a δ = .ok (d, r)) :
    decIndex g δ = (d : Int) ∧ d < g.nDec ∧
    cellIndex (g.raBounds.getD d #[]) (g.nRa.getD d 0) a = (r : Int) ∧ r < g.nRa.getD d 0 := by
  unfold Sphere.get at h
  simp only [bind, Except.bind, pure, Except.pure] at h
  split at h
  · rename_i hd
    split at h
    · cases h
    · rename_i hr
      simp only [Except.ok.injEq, Prod.mk.injEq] at h
      obtain ⟨h1, h2⟩ := h
      subst h1
      subst h2
      refine ⟨by omega, by omega, by omega, by omega⟩
  · cases h

section own
variable {g : Grid ℝ} {ra dec : Array ℝ} {ms ll : ℝ}

/-- a point of the list is visited in its own home cell -/
theorem OwnGrid.own (H : OwnGrid g ra dec ms ll) (i : Nat) (hi : i < ra.size) (d r : Nat)
    (hget : Sphere.get g (fmod360 (ra.getD i 0 + g.raOffset)) (dec.getD i 0) = .ok (d, r)) :
    (d, r) ∈ cellsOfPoint g ra dec ll 0 i :=
  H.cover i i hi hi (by rw [gcircDeg_self]; exact H.hll) d r hget

theorem OwnGrid.offset (H : OwnGrid g ra dec ms ll) : 0 ≤ g.raOffset ∧ g.raOffset < 360 := by
  obtain ⟨j, hj, hoff⟩ := H.hF.off
  have hj' : (j : ℝ) ≤ 5 := by exact_mod_cast (by omega : j ≤ 5)
  have hj0 : (0 : ℝ) ≤ j := Nat.cast_nonneg j
  rw [hoff]
  constructor
  · positivity
  · linarith

/-- **different declinations, separation exactly ll**: the point k in the band that is not lower reaches
the home cell of the point i -/
theorem OwnGrid.cover_eq_dec (H : OwnGrid g ra dec ms ll) (i k : Nat) (hi : i < ra.size) (hk : k < ra.size)
    (heq : gcircDeg (ra.getD i 0) (dec.getD i 0) (ra.getD k 0) (dec.getD k 0) = ll)
    (hne : dec.getD i 0 ≠ dec.getD k 0) (di ri dk rk : Nat)
    (hgi : Sphere.get g (fmod360 (ra.getD i 0 + g.raOffset)) (dec.getD i 0) = .ok (di, ri))
    (hgk : Sphere.get g (fmod360 (ra.getD k 0 + g.raOffset)) (dec.getD k 0) = .ok (dk, rk))
    (hle : di ≤ dk) :
    (di, ri) ∈ cellsOfPoint g ra dec ll 0 k := by
  have hll180 : ll ≤ 180 := by linarith [H.ms_lt, H.hms]
  have hedges : ∀ d, d < g.nDec → EdgesOK (g.raBounds.getD d #[]) (g.nRa.getD d 0) :=
    fun d hd => (H.hF.band d hd).edges
  obtain ⟨ho0, ho⟩ := H.offset
  obtain ⟨hdk, hdkn, _, _⟩ := get_inv g _ _ dk rk hgk
  obtain ⟨hbp, hjp, hpd, hpr⟩ := Sphere.get_bracket g _ _ di ri H.hF.dec_edges hedges hgi
  obtain ⟨B, hB⟩ := H.bounds k hk
  obtain ⟨d0, hd0, hd0n, hmin, hmax, _, hband⟩ := getbounds_inv g _ _ ll B hB
  have hd0k : d0 = dk := by rw [hdk] at hd0; exact_mod_cast hd0.symm
  subst hd0k
  -- the declinations differ by at most ll
  have hdd : |dec.getD k 0 - dec.getD i 0| ≤ ll := by
    have := ddec_le_gcirc (ra.getD i 0) (dec.getD i 0) (ra.getD k 0) (dec.getD k 0) (H.hdec i hi) (H.hdec k hk)
    rw [gcircDeg_real'] at heq
    linarith
  have hdd' := abs_le.1 hdd
  -- the downward declination loop reaches the band of i
  have h1 : B.decMin ≤ di := by
    rw [hmin]
    apply decDown_cover' g.decBounds (dec.getD k 0) ll d0 di hle
    intro i' hi1 hi2
    have hstrict : dec.getD i 0 < g.decBounds.getD (di + 1) 0 := by
      rcases hpd.2.2 with h | ⟨h, _⟩
      · exact h
      · omega
    have := H.hF.dec_edges.mono (di + 1) i' (by omega) (by omega)
    linarith
  have h2 : di ≤ B.decMax := by
    rw [hmax]
    have := decUp_ge g.decBounds (dec.getD k 0) ll d0 (g.nDec - 1 - d0)
    omega
  have hvis : visitedBand g (dec.getD k 0) ll di := by
    unfold visitedBand
    rw [hd0]
    simp only [Int.toNat_natCast]
    rw [← hmin, ← hmax]
    exact ⟨h1, h2⟩
  obtain ⟨r0, hr0, hr0n, hkk⟩ := hband (di - B.decMin) (by omega)
  have hidx : di - B.decMin + B.decMin = di := by omega
  rw [hidx] at hr0 hr0n hkk
  have hq := cellIndex_bracket (hedges di hbp) _ r0 hr0n hr0
  -- the RA margin is strict
  obtain ⟨p0, p1, _⟩ := fmod360_off_range (ra.getD i 0) g.raOffset (H.hra i hi).1 (H.hra i hi).2 ho0 ho
  obtain ⟨q0, q1, _⟩ := fmod360_off_range (ra.getD k 0) g.raOffset (H.hra k hk).1 (H.hra k hk).2 ho0 ho
  obtain ⟨Δ, hΔ0, hΔ1, hΔe, hΔs⟩ := circ_diff (ra.getD i 0) (ra.getD k 0) g.raOffset
    (H.hra i hi).1 (H.hra i hi).2 (H.hra k hk).1 (H.hra k hk).2 ho0 ho
  have hpi := Real.pi_pos
  have hq' := abs_lt.1 (H.hdec k hk)
  have hcq : 0 < cos (dec.getD k 0 * (π / 180)) := Real.cos_pos_of_mem_Ioo ⟨by nlinarith, by nlinarith⟩
  have hlo : -90 ≤ g.decBounds.getD 0 0 := by
    rcases H.hF.dec_lo with h | h
    · linarith
    · linarith [h.1]
  have hhi : g.decBounds.getD g.nDec 0 ≤ 90 := by
    rcases H.hF.dec_hi with h | h
    · linarith
    · linarith [h.1]
  have hcp : cosDecMinOf g.decBounds di ≤ cos (dec.getD i 0 * (π / 180)) := by
    apply cosDecMin_le _ _ _ hpd.1 hpd.2.1
    · have := H.hF.dec_edges.mono 0 di (by omega) (by omega); linarith
    · have := H.hF.dec_edges.mono (di + 1) g.nDec (by omega) (by omega); linarith
  have hM := ra_margin_covers_eq (cosDecMinOf g.decBounds di) (ra.getD i 0) (dec.getD i 0) (ra.getD k 0)
    (dec.getD k 0) ll Δ (H.hF.band di hbp).cpos hcp hcq hΔ0 hΔ1 hll180 hΔs heq hne (H.hdec i hi) (H.hdec k hk)
  have hseam := (H.room k hk di hbp hvis).2
  obtain ⟨r, hr1, hr2, hr3⟩ := ra_cover_band (hedges di hbp) _ _ _ r0 ri hr0n hjp hq hpr p0 q0 p1 q1
    (by
      rcases hΔe with e | e
      · left; rw [← e]; exact hM
      · right; rw [← e]; exact hM) hseam
  have hmem := mem_cellsOfRange g.nRa B di ri _ _ r h1 h2 hkk hr1 hr2 (by
    rw [wrapIdx_eq _ (hedges di hbp).pos, hr3])
  unfold cellsOfPoint
  simp only [scalar_zero]
  rw [hB]
  exact hmem

/-- **equal declinations, separation exactly ll**, i at the smaller (offset) right ascension: k reaches
down to the home cell of i, or - across the seam - i runs down to index -1, which wraps onto the home
cell of k -/
theorem OwnGrid.cover_eq_ra (H : OwnGrid g ra dec ms ll) (i k : Nat) (hi : i < ra.size) (hk : k < ra.size)
    (heq : gcircDeg (ra.getD i 0) (dec.getD i 0) (ra.getD k 0) (dec.getD k 0) = ll)
    (hsame : dec.getD i 0 = dec.getD k 0)
    (hle : fmod360 (ra.getD i 0 + g.raOffset) ≤ fmod360 (ra.getD k 0 + g.raOffset)) (di ri dk rk : Nat)
    (hgi : Sphere.get g (fmod360 (ra.getD i 0 + g.raOffset)) (dec.getD i 0) = .ok (di, ri))
    (hgk : Sphere.get g (fmod360 (ra.getD k 0 + g.raOffset)) (dec.getD k 0) = .ok (dk, rk)) :
    (di, ri) ∈ cellsOfPoint g ra dec ll 0 k ∨ (dk, rk) ∈ cellsOfPoint g ra dec ll 0 i := by
  have hll180 : ll ≤ 180 := by linarith [H.ms_lt, H.hms]
  have hedges : ∀ d, d < g.nDec → EdgesOK (g.raBounds.getD d #[]) (g.nRa.getD d 0) :=
    fun d hd => (H.hF.band d hd).edges
  obtain ⟨ho0, ho⟩ := H.offset
  obtain ⟨hdi, hdin, hci, hrin⟩ := get_inv g _ _ di ri hgi
  obtain ⟨hdk, hdkn, hck, hrkn⟩ := get_inv g _ _ dk rk hgk
  have hdd : di = dk := by rw [hsame, hdk] at hdi; exact_mod_cast hdi.symm
  subst hdd
  have he := hedges di hdin
  have hbi := cellIndex_bracket he _ ri hrin hci
  have hbk := cellIndex_bracket he _ rk hrkn hck
  obtain ⟨p0, p1, _⟩ := fmod360_off_range (ra.getD i 0) g.raOffset (H.hra i hi).1 (H.hra i hi).2 ho0 ho
  obtain ⟨q0, q1, _⟩ := fmod360_off_range (ra.getD k 0) g.raOffset (H.hra k hk).1 (H.hra k hk).2 ho0 ho
  -- the two ranges
  obtain ⟨Bi, hBi⟩ := H.bounds i hi
  obtain ⟨Bk, hBk⟩ := H.bounds k hk
  obtain ⟨d0i, hd0i, _, hmini, hmaxi, _, hbandi⟩ := getbounds_inv g _ _ ll Bi hBi
  obtain ⟨d0k, hd0k, _, hmink, hmaxk, _, hbandk⟩ := getbounds_inv g _ _ ll Bk hBk
  have e1 : di = d0i := by rw [hdi] at hd0i; exact_mod_cast hd0i
  have e2 : di = d0k := by rw [hdk] at hd0k; exact_mod_cast hd0k
  subst e1
  subst e2
  have hi1 : Bi.decMin ≤ di := by rw [hmini]; exact decDown_le _ _ _ _
  have hi2 : di ≤ Bi.decMax := by rw [hmaxi]; exact decUp_ge _ _ _ _ _
  have hk1 : Bk.decMin ≤ di := by rw [hmink]; exact decDown_le _ _ _ _
  have hk2 : di ≤ Bk.decMax := by rw [hmaxk]; exact decUp_ge _ _ _ _ _
  obtain ⟨r0i, hr0i, _, hki⟩ := hbandi (di - Bi.decMin) (by omega)
  obtain ⟨r0k, hr0k, _, hkk⟩ := hbandk (di - Bk.decMin) (by omega)
  have hidxi : di - Bi.decMin + Bi.decMin = di := by omega
  have hidxk : di - Bk.decMin + Bk.decMin = di := by omega
  rw [hidxi] at hr0i hki
  rw [hidxk] at hr0k hkk
  have e3 : ri = r0i := by rw [hci] at hr0i; exact_mod_cast hr0i
  have e4 : rk = r0k := by rw [hck] at hr0k; exact_mod_cast hr0k
  subst e3
  subst e4
  -- the margin (the same for both) bounds the RA difference on the circle
  have hpi := Real.pi_pos
  have hq' := abs_lt.1 (H.hdec i hi)
  have hlo : -90 ≤ g.decBounds.getD 0 0 := by
    rcases H.hF.dec_lo with h | h
    · linarith
    · linarith [h.1]
  have hhi : g.decBounds.getD g.nDec 0 ≤ 90 := by
    rcases H.hF.dec_hi with h | h
    · linarith
    · linarith [h.1]
  obtain ⟨hb1, hb2, _⟩ := decIndex_bracket g H.hF.dec_edges _ di hdin hdi
  have hcp : cosDecMinOf g.decBounds di ≤ cos (dec.getD i 0 * (π / 180)) := by
    apply cosDecMin_le _ _ _ hb1 hb2
    · have := H.hF.dec_edges.mono 0 di (by omega) (by omega); linarith
    · have := H.hF.dec_edges.mono (di + 1) g.nDec (by omega) (by omega); linarith
  obtain ⟨Δ, hΔ0, hΔ1, hΔe, hΔs⟩ := circ_diff (ra.getD i 0) (ra.getD k 0) g.raOffset
    (H.hra i hi).1 (H.hra i hi).2 (H.hra k hk).1 (H.hra k hk).2 ho0 ho
  rw [← hsame] at heq hkk
  have hM : Δ ≤ raMarginOf (cosDecMinOf g.decBounds di) (dec.getD i 0) ll :=
    ra_margin_le_of_eq (cosDecMinOf g.decBounds di) (ra.getD i 0) (dec.getD i 0) (ra.getD k 0) ll Δ
      (H.hF.band di hdin).cpos hcp hΔ0 hΔ1 hll180 hΔs heq
  have habs : |fmod360 (ra.getD k 0 + g.raOffset) - fmod360 (ra.getD i 0 + g.raOffset)| =
      fmod360 (ra.getD k 0 + g.raOffset) - fmod360 (ra.getD i 0 + g.raOffset) := abs_of_nonneg (by linarith)
  rw [habs] at hΔe
  -- i lies in a cell not above the cell of k
  have hrik : ri ≤ rk := by
    by_contra hc
    have := he.mono (rk + 1) ri (by omega) (by omega)
    linarith [hbk.2, hbi.1]
  have hn : (0 : Int) < (g.nRa.getD di 0 : Int) := by exact_mod_cast he.pos
  rcases hΔe with e | e
  · -- linear: k reaches down to the cell of i
    left
    have hdown : raDown (g.raBounds.getD di #[]) (fmod360 (ra.getD k 0 + g.raOffset))
        (raMarginOf (cosDecMinOf g.decBounds di) (dec.getD i 0) ll) rk ≤ (ri : Int) := by
      apply raDown_cover' _ _ _ rk ri hrik
      intro i' h1 h2
      have := he.mono (ri + 1) i' (by omega) (by omega)
      linarith [hbi.2]
    have hup := raUp_ge (g.raBounds.getD di #[]) (fmod360 (ra.getD k 0 + g.raOffset))
      (raMarginOf (cosDecMinOf g.decBounds di) (dec.getD i 0) ll) rk (g.nRa.getD di 0 - rk)
    have hmem := mem_cellsOfRange g.nRa Bk di ri _ _ (ri : Int) hk1 hk2 hkk hdown (by omega) (by
      rw [wrapIdx_eq _ he.pos, Int.emod_eq_of_lt (by omega) (by omega)]; simp)
    unfold cellsOfPoint
    simp only [scalar_zero]
    rw [hBk]
    exact hmem
  · -- across the seam: i runs down to -1, which wraps onto the last cell, the cell of k
    right
    have hvis : visitedBand g (dec.getD i 0) ll di := by
      unfold visitedBand
      rw [hdi]
      simp only [Int.toNat_natCast]
      rw [← hmini, ← hmaxi]
      exact ⟨hi1, hi2⟩
    have hseam := (H.room i hi di hdin hvis).2
    unfold SeamOK at hseam
    have hlo_i : (g.raBounds.getD di #[]).getD 0 0 ≤ fmod360 (ra.getD i 0 + g.raOffset) :=
      le_trans (he.mono 0 ri (by omega) (by omega)) hbi.1
    have hhi_k : fmod360 (ra.getD k 0 + g.raOffset) < (g.raBounds.getD di #[]).getD (g.nRa.getD di 0) 0 :=
      lt_of_lt_of_le hbk.2 (he.mono (rk + 1) _ (by omega) (by omega))
    rcases hseam with ⟨hb0, hbn, hMw⟩ | hgap
    · have hdown : raDown (g.raBounds.getD di #[]) (fmod360 (ra.getD i 0 + g.raOffset))
          (raMarginOf (cosDecMinOf g.decBounds di) (dec.getD i 0) ll) ri = -1 := by
        apply raDown_neg
        intro i' _
        have := he.mono 0 i' (by omega) (by omega)
        linarith
      have hup := raUp_ge (g.raBounds.getD di #[]) (fmod360 (ra.getD i 0 + g.raOffset))
        (raMarginOf (cosDecMinOf g.decBounds di) (dec.getD i 0) ll) ri (g.nRa.getD di 0 - ri)
      -- k lies in the last cell
      have hlast : rk + 1 = g.nRa.getD di 0 := by
        by_contra hne
        obtain ⟨m, hm⟩ : ∃ m, m + 1 = g.nRa.getD di 0 := ⟨g.nRa.getD di 0 - 1, by have := he.pos; omega⟩
        have hstep := edges_step he m (by omega)
        have hstep0 := edges_step he 0 he.pos
        rw [hm] at hstep
        have := he.mono (rk + 1) m (by omega) (by omega)
        simp only [Nat.zero_add] at hstep0
        linarith [hbk.2]
      have hmem := mem_cellsOfRange g.nRa Bi di rk _ _ (-1 : Int) hi1 hi2 hki (by rw [hdown]) (by omega) (by
        rw [wrapIdx_eq _ he.pos]
        have : (-1 : Int) % (g.nRa.getD di 0 : Int) = (g.nRa.getD di 0 : Int) - 1 := by
          rw [Int.emod_eq_add_self_emod, Int.emod_eq_of_lt (by omega) (by omega)]; omega
        rw [this]
        congr 1
        omega)
      unfold cellsOfPoint
      simp only [scalar_zero]
      rw [hBi]
      exact hmem
    · exfalso
      linarith

/-- **a pair at exactly the linking length shares a cell**: some cell of the grid is visited for both -/
theorem OwnGrid.share_eq (H : OwnGrid g ra dec ms ll) (i k : Nat) (hi : i < ra.size) (hk : k < ra.size)
    (heq : gcircDeg (ra.getD i 0) (dec.getD i 0) (ra.getD k 0) (dec.getD k 0) = ll) :
    ∃ d r, d < g.nDec ∧ r < g.nRa.getD d 0 ∧
      (d, r) ∈ cellsOfPoint g ra dec ll 0 i ∧ (d, r) ∈ cellsOfPoint g ra dec ll 0 k := by
  have hedges : ∀ d, d < g.nDec → EdgesOK (g.raBounds.getD d #[]) (g.nRa.getD d 0) :=
    fun d hd => (H.hF.band d hd).edges
  obtain ⟨di, ri, hgi⟩ := H.home i hi
  obtain ⟨dk, rk, hgk⟩ := H.home k hk
  obtain ⟨hdi, hri, _, _⟩ := Sphere.get_bracket g _ _ di ri H.hF.dec_edges hedges hgi
  obtain ⟨hdk, hrk, _, _⟩ := Sphere.get_bracket g _ _ dk rk H.hF.dec_edges hedges hgk
  have heq' : gcircDeg (ra.getD k 0) (dec.getD k 0) (ra.getD i 0) (dec.getD i 0) = ll := by
    rw [gcircDeg_comm]; exact heq
  have owni := H.own i hi di ri hgi
  have ownk := H.own k hk dk rk hgk
  by_cases hsame : dec.getD i 0 = dec.getD k 0
  · rcases le_total (fmod360 (ra.getD i 0 + g.raOffset)) (fmod360 (ra.getD k 0 + g.raOffset)) with hle | hle
    · rcases H.cover_eq_ra i k hi hk heq hsame hle di ri dk rk hgi hgk with h | h
      · exact ⟨di, ri, hdi, hri, owni, h⟩
      · exact ⟨dk, rk, hdk, hrk, h, ownk⟩
    · rcases H.cover_eq_ra k i hk hi heq' hsame.symm hle dk rk di ri hgk hgi with h | h
      · exact ⟨dk, rk, hdk, hrk, h, ownk⟩
      · exact ⟨di, ri, hdi, hri, owni, h⟩
  · rcases le_total di dk with hle | hle
    · exact ⟨di, ri, hdi, hri, owni, H.cover_eq_dec i k hi hk heq hsame di ri dk rk hgi hgk hle⟩
    · exact ⟨dk, rk, hdk, hrk, H.cover_eq_dec k i hk hi heq' (Ne.symm hsame) dk rk di ri hgk hgi hle, ownk⟩

end own

/-- on the grid of spheregroup two points at EXACTLY the linking length are stored together in some cell -/
theorem grid_share_eq (ra dec : Array ℝ) (ms ll : ℝ) (g : Grid ℝ) (cl : Tab CellSt)
    (hg : chunksInit ra dec ms = .ok g) (hcl : assign g ra dec ll = .ok cl)
    (hdec : ∀ i, i < dec.size → |dec.getD i 0| < 90) (hll : 0 < ll) (hms : 4 * ll ≤ ms)
    (i k : Nat) (hi : i < ra.size) (hk : k < ra.size)
    (heq : gcircDeg (ra.getD i 0) (dec.getD i 0) (ra.getD k 0) (dec.getD k 0) = ll) :
    ∃ d r, d < g.nDec ∧ r < g.nRa.getD d 0 ∧ i ∈ (cl.get (d, r)).1 ∧ k ∈ (cl.get (d, r)).1 := by
  obtain ⟨_, hsz, hra⟩ := chunksInit_guards ra dec ms g hg
  have H : OwnGrid g ra dec ms ll :=
    ⟨chunksInit_facts ra dec ms g
      (fun i hi => by have := abs_lt.1 (hdec i hi); exact ⟨this.1.le, this.2.le⟩) hg,
     chunksInit_room ra dec ms g hg, chunksInit_width ra dec ms g hg, hsz, hll, hms, hra,
     fun i hi => hdec i (by omega)⟩
  obtain ⟨d, r, hd, hr, h1, h2⟩ := H.share_eq i k hi hk heq
  exact ⟨d, r, hd, hr,
    C04.assign_mem g ra dec ll cl hcl i hi (d, r) h1 (by rw [H.hF.nRa_size]; exact hd) hr,
    C04.assign_mem g ra dec ll cl hcl k hk (d, r) h2 (by rw [H.hF.nRa_size]; exact hd) hr⟩

end PydlVerif.FofGrid

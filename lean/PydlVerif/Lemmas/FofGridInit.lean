/-
C05 (extension round 2): what `chunks.__init__` guarantees about the SIZE of the cells it builds
(`GridWidth`), over an arbitrary linearly ordered field with floor and arbitrary transcendental
functions - a second unfolding of the constructor next to `Lemmas/SphereInit.lean` (C04), with the
invariant the occupancy bound of `chunks.assign` needs: a declination range that is not clipped to a
pole is exactly nDec·minSize wide, and a band that does not embrace the circle has cells at least
minSize/cosDecMin wide.
-/
import PydlVerif.Lemmas.SphereInit
namespace PydlVerif.Sphere
open PydlVerif

section
variable {K : Type} [Field K] [LinearOrder K] [IsStrictOrderedRing K] [FloorRing K] [TrigFns K]
attribute [local instance] fieldScalar fieldTrig
attribute [-instance] Scalar.instOfNat Scalar.instOfScientific
set_option linter.unusedSectionVars false

/-- sizes of the cells of the grid built by `chunks.__init__(ra, dec, ms)` -/
structure GridWidth (ms : K) (g : Grid K) : Prop where
  /-- unless an end is clipped to a pole, the declination extent is nDec bands of height ms -/
  dec_width : g.decBounds.getD 0 0 = -90 ∨ g.decBounds.getD g.nDec 0 = 90 ∨
    g.decBounds.getD g.nDec 0 - g.decBounds.getD 0 0 = ms * (g.nDec : K)
  /-- a band either embraces the circle or its nRa cells are each at least ms / cosDecMin wide -/
  ra_width : ∀ d, d < g.nDec →
    ((g.raBounds.getD d #[]).getD 0 0 = 0 ∧ (g.raBounds.getD d #[]).getD (g.nRa.getD d 0) 0 = 360) ∨
    ms / cosDecMinOf g.decBounds d * (g.nRa.getD d 0 : K) ≤
      (g.raBounds.getD d #[]).getD (g.nRa.getD d 0) 0 - (g.raBounds.getD d #[]).getD 0 0

theorem band_width (c ms raMin raMax raRangeTmp raMinTmp raMaxTmp lo hi : K) (n0 n : Nat) (p emb : Bool)
    (hc : 0 < c) (hms : 0 < ms) (hr : raMin ≤ raMax)
    (hn0 : n0 = (3 + ⌊c * (raMax - raMin) / ms⌋).toNat)
    (hT : raRangeTmp = ms * (n0 : K) / c)
    (hMax : raMaxTmp = raMinTmp + raRangeTmp)
    (hlo : lo = if emb = true then 0 else raMinTmp)
    (hhi : hi = if emb = true then 360 else raMaxTmp)
    (hn : n = if p = true then 1 else n0) :
    0 < n ∧ lo < hi ∧ ((lo = 0 ∧ hi = 360) ∨ ms / c * (n : K) ≤ hi - lo) := by
  have hx : 0 ≤ c * (raMax - raMin) / ms :=
    div_nonneg (mul_nonneg hc.le (sub_nonneg.2 hr)) hms.le
  obtain ⟨h3, _, _⟩ := toNat_floor _ hx n0 hn0
  have hn0K : (0 : K) < (n0 : K) := Nat.cast_pos.2 (by omega)
  have hTpos : 0 < raRangeTmp := by rw [hT]; exact div_pos (mul_pos hms hn0K) hc
  have hnn0 : n ≤ n0 := by rw [hn]; split <;> omega
  have hnn0K : (n : K) ≤ (n0 : K) := by exact_mod_cast hnn0
  refine ⟨by rw [hn]; split <;> omega, ?_, ?_⟩
  · cases emb
    · rw [hlo, hhi, if_neg (by decide), if_neg (by decide), hMax]; linarith
    · rw [hlo, hhi, if_pos rfl, if_pos rfl]; norm_num
  · cases emb
    · right
      rw [hlo, hhi, if_neg (by decide), if_neg (by decide), hMax, hT]
      have hw : 0 < ms / c := div_pos hms hc
      have : ms / c * (n : K) ≤ ms / c * (n0 : K) := mul_le_mul_of_nonneg_left hnn0K hw.le
      have e : ms * (n0 : K) / c = ms / c * (n0 : K) := by ring
      rw [e]; linarith
    · left
      rw [hlo, hhi, if_pos rfl, if_pos rfl]; exact ⟨rfl, rfl⟩

/-- the width facts of band `d` in terms of its cell count `n` and its edges `b` -/
def BandWidthOK (ms : K) (decBounds : Array K) (d n : Nat) (b : Array K) : Prop :=
  (b.getD 0 0 = 0 ∧ b.getD n 0 = 360) ∨ ms / cosDecMinOf decBounds d * (n : K) ≤ b.getD n 0 - b.getD 0 0

theorem chunksInit_width (ra dec : Array K) (ms : K) (g : Grid K)
    (h : chunksInit ra dec ms = .ok g) : GridWidth ms g := by
  obtain ⟨-, -, hra⟩ := chunksInit_guards ra dec ms g h
  unfold chunksInit at h
  simp -zeta only [scalar_lit, scalar_sci, scalar_ofNat, scalar_floor] at h
  simp -zeta only [Nat.cast_ofNat, Nat.cast_zero] at h
  extract_lets decMin0 decMax0 decRange0 nDec decRange decMin1 decMax1 decMin decMax decBounds0 decBounds
    c0 raRange nRa0 raB0 jp4 jp3 jp2 jp1 at h
  split at h
  · exact absurd h (throw_bind_ne _ _ _)
  rename_i hg1
  simp only [jp1] at h
  split at h
  · exact absurd h (throw_bind_ne _ _ _)
  rename_i hg2
  simp only [jp2] at h
  split at h
  · exact absurd h (throw_bind_ne _ _ _)
  rename_i hg3
  simp only [jp3] at h
  split at h
  · exact absurd h (throw_bind_ne _ _ _)
  rename_i hg4
  simp -zeta only [jp4] at h
  obtain ⟨s, hloop, hs⟩ := bind_ok _ _ _ h
  clear h jp1 jp2 jp3 jp4
  have hms : 0 < ms := not_not.1 hg2
  have hsz : ra.size ≠ 0 := fun h => hg1 (Or.inl h)
  have hsz2 : ra.size = dec.size := by
    by_contra h; exact hg1 (Or.inr h)
  have hdsz : dec.size ≠ 0 := by omega
  obtain ⟨hn3, -, -, -⟩ := dec_math ms decMin0 decMax0 decMin1 decMax1 nDec hms
    (amin_le_amax dec hdsz) rfl rfl rfl
  obtain ⟨hsz0, he0, heN⟩ := linEdges_ends decMin decMax nDec (by omega) decBounds0 rfl
  obtain ⟨hb0, hbN⟩ := set_ends decBounds0 nDec decMax (by omega) hsz0
  replace hb0 : decBounds.getD 0 0 = decMin := hb0.trans he0
  replace hbN : decBounds.getD nDec 0 = decMax := hbN
  -- the loop over the bands
  have hinv := forIn_range_inv nDec _
    (fun k st => st.1.size = k ∧ st.2.size = k ∧
      ∀ d, d < k → BandWidthOK ms decBounds d (st.1.getD d 0) (st.2.getD d #[]))
    (nRa0, raB0) s ⟨rfl, rfl, fun d hd => absurd hd (Nat.not_lt_zero d)⟩ ?step ?nodone hloop
  case nodone =>
    intro k st st' hf
    extract_lets nRa raB c n0 raRangeTmp raMinTmp raMaxTmp emb lo hi n nRa' raB' jp at hf
    split at hf
    · exact absurd hf (throw_bind_ne _ _ _)
    simp -zeta only [jp] at hf
    cases hf
  case step =>
    intro k st st' hk ⟨h1, h2, h3⟩ hf
    extract_lets nRa raB c n0 raRangeTmp raMinTmp raMaxTmp emb lo hi n nRa' raB' jp at hf
    split at hf
    · exact absurd hf (throw_bind_ne _ _ _)
    rename_i hc
    simp -zeta only [jp] at hf
    have hst : st' = (nRa', raB') := by cases hf; rfl
    clear hf jp
    obtain ⟨hnpos, hlohi, hwid⟩ :=
      band_width c ms _ _ raRangeTmp raMinTmp raMaxTmp lo hi n0 n _ emb
      (not_le.1 hc) hms (getRaMinMax_le ra _ hsz) rfl rfl rfl rfl rfl rfl
    obtain ⟨-, hl, hh⟩ := linEdges_ok lo hi n hnpos hlohi _ rfl
    subst hst
    refine ⟨?_, ?_, ?_⟩
    · show (nRa.push n).size = k + 1
      rw [Array.size_push]; exact congrArg (· + 1) h1
    · show (raB.push _).size = k + 1
      rw [Array.size_push]; exact congrArg (· + 1) h2
    · intro d hd
      show BandWidthOK ms decBounds d ((nRa.push n).getD d 0) ((raB.push _).getD d #[])
      rw [getD_push, getD_push]
      by_cases hdk : d = k
      · rw [if_pos (hdk.trans h1.symm), if_pos (hdk.trans h2.symm), hdk]
        unfold BandWidthOK
        rw [hl, hh]
        exact hwid
      · rw [if_neg (fun e => hdk (e.trans h1)), if_neg (fun e => hdk (e.trans h2))]
        exact h3 d (by omega)
  obtain ⟨-, -, hs3⟩ := hinv
  have hdecMin : decMin = if decMin1 < -90 + 3 * ms then (-90 : K) else decMin1 := rfl
  have hdecMax : decMax = if 90 - 3 * ms < decMax1 then (90 : K) else decMax1 := rfl
  have hdecMax1 : decMax1 = decMin1 + ms * (nDec : K) := rfl
  cases hs
  refine ⟨?_, fun d hd => hs3 d hd⟩
  show decBounds.getD 0 0 = -90 ∨ decBounds.getD nDec 0 = 90 ∨
    decBounds.getD nDec 0 - decBounds.getD 0 0 = ms * (nDec : K)
  rw [hb0, hbN, hdecMin, hdecMax]
  split
  · exact Or.inl rfl
  · split
    · exact Or.inr (Or.inl rfl)
    · right; right; rw [hdecMax1]; ring

end
end PydlVerif.Sphere

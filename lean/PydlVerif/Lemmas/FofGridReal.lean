/-
C05 (extension round 2): the grid that `spheregroup` builds - `chunks(ra, dec, cs)` then
`assign(ra, dec, ll)` of the SAME list, 4·ll ≤ cs - over ℝ (Mathlib's trigonometric functions), from
the grid theorems of C04 (`init_shape`, `seam_room`, `racover_pair`, `get_bracket`, `assign_mem`,
`assign_nodup`) and the cell sizes of `Lemmas/FofGridInit.lean`:
* every point is stored in its own cell, and so is every point closer to it than ll (`OwnGrid.cover`);
* `getbounds` returns at most 3 declination bands (a band is exactly cs ≥ 4·ll high) and in each band at
  most 3 RA indices (the RA margin is at most half a minimal cell, every cell is at least a minimal
  cell wide or - in a band that embraces the circle - at least the margin wide): at most 9 visited
  cells per point (`OwnGrid.visit_le9`), hence at most 9·n entries in the table (`grid_cover`).
-/
import PydlVerif.Props.C04
import PydlVerif.Lemmas.FofGridInit
import PydlVerif.Lemmas.FofGridCount
namespace PydlVerif.FofGrid
open Real PydlVerif PydlVerif.Sphere

attribute [local instance] realFns fieldScalar fieldTrig
attribute [-instance] Scalar.instOfNat Scalar.instOfScientific

/-! ### the loops of `getbounds` move at most one step when the margin is at most one cell -/

theorem raDown_ge_pred (b : Array ℝ) (q M : ℝ) (r : Nat) (h : ∀ r', r = r' + 1 → M ≤ q - b.getD r' 0) :
    (r : Int) - 1 ≤ raDown b q M r := by
  cases r with
  | zero => simp only [raDown]; split <;> simp
  | succ r' =>
    simp only [raDown, scalar_zero]
    split
    · cases r' with
      | zero =>
        simp only [raDown, scalar_zero]
        rw [if_neg (not_lt.2 (h 0 rfl))]; simp
      | succ r'' =>
        simp only [raDown, scalar_zero]
        rw [if_neg (not_lt.2 (h (r'' + 1) rfl))]; push_cast; omega
    · push_cast; omega

theorem raUp_le_succ (b : Array ℝ) (q M : ℝ) (r f : Nat) (h : 2 ≤ f → M ≤ b.getD (r + 1 + 1) 0 - q) :
    raUp b q M r f ≤ r + 1 := by
  cases f with
  | zero => simp [raUp]
  | succ f =>
    simp only [raUp, scalar_zero]
    split
    · cases f with
      | zero => simp [raUp]
      | succ f' =>
        simp only [raUp, scalar_zero]
        rw [if_neg (not_lt.2 (h (by omega)))]
    · omega

theorem decDown_ge_pred (b : Array ℝ) (dec m : ℝ) (c : Nat) (h : ∀ c', c = c' + 1 → m ≤ dec - b.getD c' 0) :
    c - 1 ≤ decDown b dec m c := by
  cases c with
  | zero => simp
  | succ c' =>
    simp only [decDown, scalar_zero]
    split
    · cases c' with
      | zero => simp [decDown]
      | succ c'' =>
        simp only [decDown, scalar_zero]
        rw [if_neg (not_lt.2 (h (c'' + 1) rfl))]; omega
    · omega

theorem decUp_le_succ (b : Array ℝ) (dec m : ℝ) (c f : Nat) (h : 2 ≤ f → m ≤ b.getD (c + 1 + 1) 0 - dec) :
    decUp b dec m c f ≤ c + 1 := by
  cases f with
  | zero => simp [decUp]
  | succ f =>
    simp only [decUp, scalar_zero]
    split
    · cases f with
      | zero => simp [decUp]
      | succ f' =>
        simp only [decUp, scalar_zero]
        rw [if_neg (not_lt.2 (h (by omega)))]
    · omega

/-- equally spaced edges: every cell has the width (b[n] - b[0]) / n -/
theorem edges_step {b : Array ℝ} {n : Nat} (he : EdgesOK b n) (k : Nat) (hk : k < n) :
    b.getD (k + 1) 0 - b.getD k 0 = (b.getD n 0 - b.getD 0 0) / (n : ℝ) := by
  have hn : (n : ℝ) ≠ 0 := Nat.cast_ne_zero.2 (by have := he.pos; omega)
  rw [he.lin (k + 1) (by omega), he.lin k (by omega)]
  push_cast
  field_simp
  ring

/-- the RA range of one band spans at most 3 indices when the margin is at most one cell -/
theorem ra_span_le3 {b : Array ℝ} {n : Nat} (he : EdgesOK b n) (q M : ℝ) (r0 : Nat) (hr0 : r0 < n)
    (hq : b.getD r0 0 ≤ q ∧ q < b.getD (r0 + 1) 0) (hM : M ≤ (b.getD n 0 - b.getD 0 0) / (n : ℝ)) :
    (((raUp b q M r0 (n - r0) : Nat) : Int) + 1 - raDown b q M r0).toNat ≤ 3 := by
  have h1 := raDown_ge_pred b q M r0 (by
    intro r' hr'
    subst hr'
    have := edges_step he r' (by omega)
    linarith [hq.1])
  have h2 := raUp_le_succ b q M r0 (n - r0) (by
    intro hf
    have := edges_step he (r0 + 1) (by omega)
    linarith [hq.2])
  omega

/-! ### model terms -/

theorem gcircDeg_self (a d : ℝ) : gcircDeg a d a d = 0 := by
  rw [gcircDeg_real', gcircDeg_real]
  have : havAngle (d * (π / 180)) (d * (π / 180)) (a * (π / 180) - a * (π / 180)) = 0 := by
    generalize d * (π / 180) = x
    generalize a * (π / 180) = t
    unfold havAngle havExpr
    rw [sub_self, sub_self, zero_div, Real.sin_zero]
    norm_num
  rw [this, zero_mul]

/-- `chunks.get` returns the cell named by the two floor formulas when both are in range -/
theorem get_ok (g : Grid ℝ) (a δ : ℝ) (d0 r0 : Nat) (h0 : decIndex g δ = (d0 : Int)) (h1 : d0 < g.nDec)
    (h2 : cellIndex (g.raBounds.getD d0 #[]) (g.nRa.getD d0 0) a = (r0 : Int)) (h3 : r0 < g.nRa.getD d0 0) :
    Sphere.get g a δ = .ok (d0, r0) := by
  unfold Sphere.get
  simp only [bind, Except.bind, pure, Except.pure, h0]
  rw [if_pos ⟨by omega, by omega⟩]
  simp only [Int.toNat_natCast, h2]
  rw [if_neg (by omega)]


/-! ### the closeness test of `groups` (radians) against the separation in degrees -/

theorem gcircRad_real (a1 d1 a2 d2 : ℝ) :
    gcircRad (deg2rad a1) (deg2rad d1) (deg2rad a2) (deg2rad d2) =
      havAngle (d1 * (π / 180)) (d2 * (π / 180)) (a2 * (π / 180) - a1 * (π / 180)) := by
  unfold gcircRad deg2rad havAngle havExpr
  simp only [scalar_lit]
  push_cast
  simp only [sq, mul_assoc]
  rfl

/-- `sphereradec(x_i, x_j) <= deg2rad(linkSep)` on the converted coordinates IS
`separation in degrees ≤ linklength` -/
theorem closeOf_iff (ra dec : Array ℝ) (ll : ℝ) (i j : Nat) :
    closeOf ra dec ll i j = true ↔
      gcircDeg (ra.getD i 0) (dec.getD i 0) (ra.getD j 0) (dec.getD j 0) ≤ ll := by
  unfold closeOf
  rw [decide_eq_true_iff]
  simp only [scalar_zero]
  rw [gcircRad_real, gcircDeg_real', gcircDeg_real]
  have hll : deg2rad ll = ll * (π / 180) := by
    unfold deg2rad
    simp only [scalar_lit]
    push_cast
    rfl
  rw [hll]
  have hpi := Real.pi_pos
  have hk : 0 < 180 / π := by positivity
  rw [← le_div_iff₀ hk]
  have : ll / (180 / π) = ll * (π / 180) := by field_simp
  rw [this]

theorem havExpr_comm (x y t : ℝ) : havExpr x y t = havExpr y x (-t) := by
  rw [havExpr_eq, havExpr_eq, Real.cos_neg]; ring

theorem gcircDeg_comm (a1 d1 a2 d2 : ℝ) : gcircDeg a1 d1 a2 d2 = gcircDeg a2 d2 a1 d1 := by
  rw [gcircDeg_real', gcircDeg_real, gcircDeg_real', gcircDeg_real]
  congr 1
  unfold havAngle
  rw [havExpr_comm, neg_sub]

theorem closeOf_refl (ra dec : Array ℝ) (ll : ℝ) (hll : 0 ≤ ll) (i : Nat) : closeOf ra dec ll i i = true := by
  rw [closeOf_iff, gcircDeg_self]; exact hll

theorem closeOf_symm (ra dec : Array ℝ) (ll : ℝ) (i j : Nat) : closeOf ra dec ll i j = closeOf ra dec ll j i := by
  rw [Bool.eq_iff_iff, closeOf_iff, closeOf_iff, gcircDeg_comm]

/-! ### the grid of `spheregroup`: the list that is assigned is the list the grid was built from -/

/-- the hypotheses: `g` is the grid of `chunks.__init__(ra, dec, ms)` (facts of `init_shape`,
`chunksInit_room`, `chunksInit_width`), 0 < ll, 4·ll ≤ ms, RA in [0,360), |Dec| < 90 -/
structure OwnGrid (g : Grid ℝ) (ra dec : Array ℝ) (ms ll : ℝ) : Prop where
  hF : GridFacts ra dec ms g
  hR : GridRoom ra dec ms g
  hW : GridWidth ms g
  hsz : ra.size = dec.size
  hll : 0 < ll
  hms : 4 * ll ≤ ms
  hra : ∀ i, i < ra.size → 0 ≤ ra.getD i 0 ∧ ra.getD i 0 < 360
  hdec : ∀ i, i < ra.size → |dec.getD i 0| < 90

section own
variable {g : Grid ℝ} {ra dec : Array ℝ} {ms ll : ℝ}

theorem OwnGrid.ms_pos (H : OwnGrid g ra dec ms ll) : 0 < ms := by linarith [H.hll, H.hms]

/-- over ℝ the constructor returns only for chunk sizes below 30° (no edge within 3 chunk sizes of a pole) -/
theorem OwnGrid.ms_lt (H : OwnGrid g ra dec ms ll) : ms < 30 := by
  obtain ⟨hlo3, hhi3⟩ := not_clipped g ra dec ms H.hF H.hR
  have := H.hF.dec_edges.lt
  linarith

theorem OwnGrid.in_extent (H : OwnGrid g ra dec ms ll) (i : Nat) (hi : i < ra.size) :
    g.decBounds.getD 0 0 ≤ dec.getD i 0 ∧ dec.getD i 0 < g.decBounds.getD g.nDec 0 := by
  have hq := abs_lt.1 (H.hdec i hi)
  have hms0 := H.ms_pos
  have hi' : i < dec.size := by rw [← H.hsz]; exact hi
  constructor
  · rcases H.hF.dec_lo with h | h
    · linarith
    · have := h.2 i hi'; linarith
  · rcases H.hF.dec_hi with h | h
    · linarith
    · have := h.2 i hi'; linarith

/-- a point of the list has `BandRoom` in every band it visits (C04 `seam_room`, the point being its own
partner at separation 0 < ll) -/
theorem OwnGrid.room (H : OwnGrid g ra dec ms ll) (i : Nat) (hi : i < ra.size) (d : Nat) (hd : d < g.nDec)
    (hv : visitedBand g (dec.getD i 0) ll d) :
    BandRoom g d (fmod360 (ra.getD i 0 + g.raOffset)) (dec.getD i 0) ll :=
  C04.seam_room g ra dec ms ll H.hF H.hR H.hsz H.hll H.hms i hi (H.hra i hi).1 (H.hra i hi).2 (H.hdec i hi)
    _ _ (H.hra i hi).1 (H.hra i hi).2 (H.hdec i hi) (by rw [gcircDeg_self]; exact H.hll) d hd hv

/-- the RA margin of a point of the list in a band it visits is at most half a minimal cell -/
theorem OwnGrid.margin (H : OwnGrid g ra dec ms ll) (i : Nat) (hi : i < ra.size) (d : Nat) (hd : d < g.nDec)
    (hv : visitedBand g (dec.getD i 0) ll d) :
    raMarginOf (cosDecMinOf g.decBounds d) (dec.getD i 0) ll ≤ 1 / 2 * (ms / cosDecMinOf g.decBounds d) := by
  have hms0 := H.ms_pos
  have hll := H.hll
  obtain ⟨hlo3, hhi3⟩ := not_clipped g ra dec ms H.hF H.hR
  have hin := H.in_extent i hi
  obtain ⟨hn1, hn2⟩ := visited_near g H.hF.dec_edges _ ll H.hll ⟨hin.1, hin.2.le⟩ d hd hv
  have hb1 := H.hF.dec_edges.mono 0 d (by omega) (by omega)
  have hb2 := H.hF.dec_edges.mono d (d + 1) (by omega) (by omega)
  have hb3 := H.hF.dec_edges.mono (d + 1) g.nDec (by omega) (by omega)
  obtain ⟨e, hce, he1, he2, he3⟩ := cosDecMin_edge g.decBounds d
  have he : |e| ≤ 90 - 3 * ms := by
    rcases he3 with h | h <;> rw [h, abs_le] <;> constructor <;> linarith
  have hq2 : |dec.getD i 0| ≤ |e| + 2 * ll :=
    abs_le_near _ _ e _ (2 * ll) he1 he2 (by linarith) (by linarith)
  obtain ⟨hcq, hc30⟩ := cos_ge_near e _ ll ms H.hll H.hms he hq2
  rw [← hce] at hcq hc30
  have h30 : 0 < ms / 30 := by positivity
  exact raMargin_le_half _ _ _ ll ms H.hll H.hms hc30 (by linarith) hcq

/-- `getbounds` returns for every point of the list (`assign` drops none) -/
theorem OwnGrid.bounds (H : OwnGrid g ra dec ms ll) (i : Nat) (hi : i < ra.size) :
    ∃ B, getbounds g (fmod360 (ra.getD i 0 + g.raOffset)) (dec.getD i 0) ll = .ok B := by
  have hin := H.in_extent i hi
  exact getbounds_returns g H.hF.dec_edges (fun d hd => (H.hF.band d hd).edges) _ _ ll ⟨hin.1, hin.2.le⟩
    (fun d hd hv => (H.room i hi d hd hv).1)

/-- every declination band is exactly one chunk size high -/
theorem OwnGrid.band_height (H : OwnGrid g ra dec ms ll) (d : Nat) (hd : d < g.nDec) :
    g.decBounds.getD (d + 1) 0 - g.decBounds.getD d 0 = ms := by
  obtain ⟨hlo3, hhi3⟩ := not_clipped g ra dec ms H.hF H.hR
  have hms0 := H.ms_pos
  have hwid : g.decBounds.getD g.nDec 0 - g.decBounds.getD 0 0 = ms * (g.nDec : ℝ) := by
    rcases H.hW.dec_width with h | h | h
    · linarith
    · linarith
    · exact h
  have hn : (g.nDec : ℝ) ≠ 0 := Nat.cast_ne_zero.2 (by omega)
  rw [edges_step H.hF.dec_edges d hd, hwid]
  field_simp

/-- the declination range of a point of the list: at most 3 bands, all of them visited bands of the grid -/
theorem OwnGrid.dec_span (H : OwnGrid g ra dec ms ll) (i : Nat) (hi : i < ra.size) (B : Bounds)
    (hB : getbounds g (fmod360 (ra.getD i 0 + g.raOffset)) (dec.getD i 0) ll = .ok B) :
    B.ra.length ≤ 3 ∧
    ∀ d, B.decMin ≤ d → d ≤ B.decMax → d < g.nDec ∧ visitedBand g (dec.getD i 0) ll d := by
  obtain ⟨d0, hd0, hd0n, hmin, hmax, hlen, _⟩ := getbounds_inv g _ _ ll B hB
  obtain ⟨hb1, hb2, _⟩ := decIndex_bracket g H.hF.dec_edges _ d0 hd0n hd0
  have hll := H.hll
  have hms := H.hms
  have h1 := decDown_ge_pred g.decBounds (dec.getD i 0) ll d0 (by
    intro c' hc'
    subst hc'
    have := H.band_height c' (by omega)
    linarith)
  have h2 := decUp_le_succ g.decBounds (dec.getD i 0) ll d0 (g.nDec - 1 - d0) (by
    intro hf
    have := H.band_height (d0 + 1) (by omega)
    linarith)
  have h3 := decUp_le g.decBounds (dec.getD i 0) ll d0 (g.nDec - 1 - d0)
  refine ⟨by omega, ?_⟩
  intro d hd1 hd2
  refine ⟨by omega, ?_⟩
  unfold visitedBand
  rw [hd0]
  simp only [Int.toNat_natCast]
  rw [← hmin, ← hmax]
  exact ⟨hd1, hd2⟩

/-- in a band it visits, the RA margin of a point of the list is at most one cell of that band -/
theorem OwnGrid.margin_le_cell (H : OwnGrid g ra dec ms ll) (i : Nat) (hi : i < ra.size) (d : Nat) (hd : d < g.nDec)
    (hv : visitedBand g (dec.getD i 0) ll d) :
    raMarginOf (cosDecMinOf g.decBounds d) (dec.getD i 0) ll ≤
      ((g.raBounds.getD d #[]).getD (g.nRa.getD d 0) 0 - (g.raBounds.getD d #[]).getD 0 0) / (g.nRa.getD d 0 : ℝ) := by
  have hB := H.hF.band d hd
  have hms0 := H.ms_pos
  have hc0 : 0 < cosDecMinOf g.decBounds d := hB.cpos
  have hw : 0 < ms / cosDecMinOf g.decBounds d := by positivity
  have hnpos : (0 : ℝ) < (g.nRa.getD d 0 : ℝ) := by exact_mod_cast hB.edges.pos
  have hstep := edges_step hB.edges 0 hB.edges.pos
  rcases hB.extent with ⟨e0, en⟩ | ⟨e0, en⟩
  · have hs := (H.room i hi d hd hv).2
    unfold SeamOK at hs
    rcases hs with ⟨_, _, h⟩ | h
    · rw [← hstep]; exact h
    · rw [e0, en] at h
      have hlt := hB.edges.lt
      have : 0 ≤ ((g.raBounds.getD d #[]).getD (g.nRa.getD d 0) 0 - (g.raBounds.getD d #[]).getD 0 0) /
          (g.nRa.getD d 0 : ℝ) := div_nonneg (by linarith) hnpos.le
      linarith
  · have hM := H.margin i hi d hd hv
    rcases H.hW.ra_width d hd with ⟨z, _⟩ | hwid
    · rw [z] at e0; linarith
    · have : ms / cosDecMinOf g.decBounds d ≤
          ((g.raBounds.getD d #[]).getD (g.nRa.getD d 0) 0 - (g.raBounds.getD d #[]).getD 0 0) /
            (g.nRa.getD d 0 : ℝ) := by
        rw [le_div_iff₀ hnpos]; exact hwid
      linarith

/-- **at most 9 cells per point**: the visit list of `assign` for a point of the list -/
theorem OwnGrid.visit_le9 (H : OwnGrid g ra dec ms ll) (i : Nat) (hi : i < ra.size) :
    (cellsOfPoint g ra dec ll 0 i).length ≤ 9 := by
  obtain ⟨B, hB⟩ := H.bounds i hi
  obtain ⟨hlen3, hvis⟩ := H.dec_span i hi B hB
  obtain ⟨d0, _, _, _, _, hlen, hband⟩ := getbounds_inv g _ _ ll B hB
  unfold cellsOfPoint
  simp only [scalar_zero]
  rw [hB]
  apply cellsOfRange_length g.nRa B hlen3
  intro x hx
  obtain ⟨k, hk⟩ := List.mem_iff_getElem?.1 hx
  have hklen : k < B.ra.length := by
    by_contra hc
    rw [List.getElem?_eq_none (by omega)] at hk
    cases hk
  obtain ⟨r0, hr0, hr0n, hxk⟩ := hband k (by omega)
  rw [hk] at hxk
  cases hxk
  obtain ⟨hdn, hv⟩ := hvis (k + B.decMin) (by omega) (by omega)
  have he := (H.hF.band (k + B.decMin) hdn).edges
  exact ra_span_le3 he _ _ r0 hr0n (cellIndex_bracket he _ r0 hr0n hr0) (H.margin_le_cell i hi _ hdn hv)

/-- a point of the list has a home cell (`chunks.get` returns) -/
theorem OwnGrid.home (H : OwnGrid g ra dec ms ll) (i : Nat) (hi : i < ra.size) :
    ∃ d r, Sphere.get g (fmod360 (ra.getD i 0 + g.raOffset)) (dec.getD i 0) = .ok (d, r) := by
  obtain ⟨B, hB⟩ := H.bounds i hi
  obtain ⟨d0, hd0, hd0n, hmin, hmax, _, hband⟩ := getbounds_inv g _ _ ll B hB
  have h1 := decDown_le g.decBounds (dec.getD i 0) ll d0
  have h2 := decUp_ge g.decBounds (dec.getD i 0) ll d0 (g.nDec - 1 - d0)
  obtain ⟨r0, hr0, hr0n, _⟩ := hband (d0 - B.decMin) (by omega)
  have hidx : d0 - B.decMin + B.decMin = d0 := by omega
  rw [hidx] at hr0 hr0n
  exact ⟨d0, r0, get_ok g _ _ d0 r0 hd0 hd0n hr0 hr0n⟩

/-- **cover**: a point k of the list closer than ll to the point i of the list is visited in (hence, by
`assign_mem`, stored in) the home cell of i.  C04 `racover_pair` with list 2 = list 1, margin = ll, the
room at the seam from `seam_room` -/
theorem OwnGrid.cover (H : OwnGrid g ra dec ms ll) (i k : Nat) (hi : i < ra.size) (hk : k < ra.size)
    (hclose : gcircDeg (ra.getD i 0) (dec.getD i 0) (ra.getD k 0) (dec.getD k 0) < ll)
    (d r : Nat) (hget : Sphere.get g (fmod360 (ra.getD i 0 + g.raOffset)) (dec.getD i 0) = .ok (d, r)) :
    (d, r) ∈ cellsOfPoint g ra dec ll 0 k := by
  have hll180 : ll ≤ 180 := by linarith [H.ms_lt, H.hms]
  obtain ⟨B, hB⟩ := H.bounds k hk
  have hedges : ∀ d, d < g.nDec → EdgesOK (g.raBounds.getD d #[]) (g.nRa.getD d 0) :=
    fun d hd => (H.hF.band d hd).edges
  obtain ⟨hbp, _, hpd, _⟩ := Sphere.get_bracket g _ _ d r H.hF.dec_edges hedges hget
  have hdd : |dec.getD k 0 - dec.getD i 0| < ll :=
    lt_of_le_of_lt (ddec_le_gcirc _ _ _ _ (H.hdec i hi) (H.hdec k hk)) hclose
  have hvis : visitedBand g (dec.getD k 0) ll d := by
    obtain ⟨d0, hd0, hd0n, _, _, _, _⟩ := getbounds_inv g _ _ ll B hB
    have := dec_cover_edges H.hF.dec_edges (dec.getD k 0) (dec.getD i 0) ll d0 d hd0n hbp ⟨hpd.1, hpd.2.1⟩ hdd
    unfold visitedBand; rw [hd0]; exact this
  have hmem := C04.racover_pair g ra dec ms H.hF (ra.getD i 0) (dec.getD i 0) (ra.getD k 0) (dec.getD k 0) ll
    (H.hra i hi).1 (H.hra i hi).2 (H.hra k hk).1 (H.hra k hk).2 (H.hdec i hi) (H.hdec k hk) hll180
    d r B hget hB hclose (H.room k hk d hbp hvis).2
  unfold cellsOfPoint
  simp only [scalar_zero]
  rw [hB]
  exact hmem

end own

/-- **the grid of spheregroup** (ℝ).  `g` = `chunks.__init__(ra, dec, ms)`, `cl` = the table of
`assign(ra, dec, ll)` for the SAME list, |Dec| < 90, 0 < ll, 4·ll ≤ ms.  Then
(a) no cell list holds an index twice, and all its entries are points;
(b) every point i has a home cell (d, r) of the grid in which it is stored itself and in which every point
    closer to it than ll is stored;
(c) the table holds at most 9·n entries (at most 3 bands × 3 RA cells per point) - the size of the label
    table `mapGroups` that `friendsoffriends` allocates. -/
theorem grid_cover (ra dec : Array ℝ) (ms ll : ℝ) (g : Grid ℝ) (cl : Tab CellSt)
    (hg : chunksInit ra dec ms = .ok g) (hcl : assign g ra dec ll = .ok cl)
    (hdec : ∀ i, i < dec.size → |dec.getD i 0| < 90) (hll : 0 < ll) (hms : 4 * ll ≤ ms) :
    (∀ c, (cl.get c).1.Nodup ∧ ∀ k ∈ (cl.get c).1, k < ra.size) ∧
    (∀ i, i < ra.size → ∃ d r, d < g.nDec ∧ r < g.nRa.getD d 0 ∧ i ∈ (cl.get (d, r)).1 ∧
      ∀ k, k < ra.size →
        gcircDeg (ra.getD i 0) (dec.getD i 0) (ra.getD k 0) (dec.getD k 0) < ll → k ∈ (cl.get (d, r)).1) ∧
    ((cellLists g.nDec g.nRa cl).map Array.size).sum ≤ 9 * ra.size := by
  obtain ⟨_, hsz, hra⟩ := chunksInit_guards ra dec ms g hg
  have H : OwnGrid g ra dec ms ll :=
    ⟨chunksInit_facts ra dec ms g
      (fun i hi => by have := abs_lt.1 (hdec i hi); exact ⟨this.1.le, this.2.le⟩) hg,
     chunksInit_room ra dec ms g hg, chunksInit_width ra dec ms g hg, hsz, hll, hms, hra,
     fun i hi => hdec i (by omega)⟩
  refine ⟨fun c => C04.assign_nodup g ra dec ll cl hcl c, ?_, ?_⟩
  · intro i hi
    obtain ⟨d, r, hget⟩ := H.home i hi
    have hedges : ∀ d, d < g.nDec → EdgesOK (g.raBounds.getD d #[]) (g.nRa.getD d 0) :=
      fun d hd => (H.hF.band d hd).edges
    obtain ⟨hd, hr, _, _⟩ := Sphere.get_bracket g _ _ d r H.hF.dec_edges hedges hget
    have hstore : ∀ k, k < ra.size →
        gcircDeg (ra.getD i 0) (dec.getD i 0) (ra.getD k 0) (dec.getD k 0) < ll → k ∈ (cl.get (d, r)).1 := by
      intro k hk hclose
      exact C04.assign_mem g ra dec ll cl hcl k hk (d, r) (H.cover i k hi hk hclose d r hget)
        (by rw [H.hF.nRa_size]; exact hd) hr
    exact ⟨d, r, hd, hr, hstore i hi (by rw [gcircDeg_self]; exact hll), hstore⟩
  · unfold assign at hcl
    split at hcl
    · cases hcl
    · simp only [pure, Except.pure, Except.ok.injEq] at hcl
      subst hcl
      rw [occ_eq]
      exact assignAll_occ g.nDec g.nRa 9 ra.size _ _ _ (C04.init_empty g.nRa) (fun i hi => H.visit_le9 i hi)

end PydlVerif.FofGrid

/-
C05 (extension round 2): the model of `chunks.__init__` RETURNS over ℝ when every declination stays
4.5 chunk sizes away from the poles (no edge is clipped, every band has a positive cosine) - so the
hypothesis "the model's spheregroup returned" of `spheregroup_fof_grid` is satisfiable
(`spheregroup_returns` and the example in Props/C05.lean).
-/
import PydlVerif.Lemmas.FofGridReal
namespace PydlVerif.FofGrid
open Real PydlVerif PydlVerif.Sphere
attribute [local instance] realFns fieldScalar fieldTrig
attribute [-instance] Scalar.instOfNat Scalar.instOfScientific

theorem forIn_yield_ok {ε σ : Type} (f : Nat → σ → Except ε (ForInStep σ)) :
    ∀ (l : List Nat) (init : σ), (∀ k ∈ l, ∀ s, ∃ s', f k s = .ok (.yield s')) →
      ∃ r, forIn l init f = .ok r := by
  intro l
  induction l with
  | nil => intro init _; exact ⟨init, rfl⟩
  | cons a l ih =>
    intro init h
    obtain ⟨s', hs'⟩ := h a List.mem_cons_self init
    rw [List.forIn_cons, hs']
    exact ih s' (fun k hk s => h k (List.mem_cons_of_mem _ hk) s)

theorem cosDecMinOf_pos (b : Array ℝ) (i : Nat) (h1 : |b.getD i 0| < 90) (h2 : |b.getD (i + 1) 0| < 90) :
    0 < cosDecMinOf b i := by
  have hpi := Real.pi_pos
  have key : ∀ x : ℝ, |x| < 90 → 0 < cos (x * (π / 180)) := by
    intro x hx
    rw [abs_lt] at hx
    exact Real.cos_pos_of_mem_Ioo ⟨by nlinarith, by nlinarith⟩
  rw [cosDecMinOf_real]
  split
  · exact key _ h1
  · exact key _ h2

theorem mul_three_add_div (ms : ℝ) (hms : 0 < ms) (R : ℝ) : ms * (3 + R / ms) = 3 * ms + R := by
  have h : ms * (R / ms) = R := by rw [mul_comm]; exact div_mul_cancel₀ R hms.ne'
  rw [mul_add, h]; ring

theorem bind_forIn_ok {ε σ β : Type} (f : Nat → σ → Except ε (ForInStep σ)) (l : List Nat) (init : σ)
    (k : σ → Except ε β) (hf : ∀ i ∈ l, ∀ s, ∃ s', f i s = .ok (.yield s')) (hk : ∀ s, ∃ b, k s = .ok b) :
    ∃ b, (forIn l init f >>= k) = .ok b := by
  obtain ⟨r, hr⟩ := forIn_yield_ok f l init hf
  rw [hr]
  exact hk r

theorem chunksInit_returns (ra dec : Array ℝ) (ms : ℝ) (hms : 0 < ms)
    (hsz0 : ra.size ≠ 0) (hsz : ra.size = dec.size)
    (hra : ∀ i, i < ra.size → 0 ≤ ra.getD i 0 ∧ ra.getD i 0 < 360)
    (hdec : ∀ i, i < dec.size → -90 + 9 / 2 * ms ≤ dec.getD i 0 ∧ dec.getD i 0 ≤ 90 - 9 / 2 * ms) :
    ∃ g, chunksInit ra dec ms = .ok g := by
  unfold chunksInit
  simp -zeta only [scalar_lit, scalar_sci, scalar_ofNat, scalar_floor]
  simp -zeta only [Nat.cast_ofNat, Nat.cast_zero]
  extract_lets decMin0 decMax0 decRange0 nDec decRange decMin1 decMax1 decMin decMax decBounds0 decBounds
    c0 raRange nRa0 raB0 jp4 jp3 jp2 jp1
  have hdsz : dec.size ≠ 0 := by omega
  -- the declination range
  obtain ⟨hlo0, hhi0⟩ := amin_amax_bounds dec _ _ hdsz hdec
  have hle0 : decMin0 ≤ decMax0 := amin_le_amax dec hdsz
  obtain ⟨hn3, hn4, hn5⟩ := toNat_floor ((decMax0 - decMin0) / ms) (div_nonneg (sub_nonneg.2 hle0) hms.le) nDec rfl
  have hD : ms * (nDec : ℝ) ≤ 3 * ms + (decMax0 - decMin0) := by
    have := mul_le_mul_of_nonneg_left hn5 hms.le
    have := mul_three_add_div ms hms (decMax0 - decMin0)
    linarith
  have hDpos : 0 < ms * (nDec : ℝ) := mul_pos hms (Nat.cast_pos.2 (by omega))
  have h05 : (0.5 : ℝ) = 1 / 2 := by norm_num
  have e1 : decMin1 = decMin0 - 1 / 2 * (ms * (nDec : ℝ) - decMax0 + decMin0) := by
    show decMin0 - 0.5 * (ms * (nDec : ℝ) - decMax0 + decMin0) = _
    rw [h05]
  have e2 : decMax1 = decMin1 + ms * (nDec : ℝ) := rfl
  have hmin : decMin = decMin1 := by
    show (if decMin1 < -90 + 3 * ms then (-90 : ℝ) else decMin1) = decMin1
    rw [if_neg (by rw [e1]; linarith)]
  have hmax : decMax = decMax1 := by
    show (if 90 - 3 * ms < decMax1 then (90 : ℝ) else decMax1) = decMax1
    rw [if_neg (by rw [e2, e1]; linarith)]
  have hlt : decMin < decMax := by rw [hmin, hmax, e2]; linarith
  have hlo : -90 < decMin := by rw [hmin, e1]; linarith
  have hhi : decMax < 90 := by rw [hmax, e2, e1]; linarith
  obtain ⟨hE0, he0, heN⟩ := linEdges_ok decMin decMax nDec (by omega) hlt decBounds0 rfl
  obtain ⟨hE, hb0, hbN⟩ := edgesOK_set decBounds0 nDec decMax hE0 heN
  have hb0' : decBounds.getD 0 0 = decMin := hb0.trans he0
  have hbN' : decBounds.getD nDec 0 = decMax := hbN
  have hE' : EdgesOK decBounds nDec := hE
  have hbk : ∀ k, k ≤ nDec → |decBounds.getD k 0| < 90 := by
    intro k hk
    have h1 := hE'.mono 0 k (by omega) hk
    have h2 := hE'.mono k nDec hk (le_refl _)
    rw [abs_lt]; constructor <;> linarith
  -- the guards
  rw [if_neg (by rintro (h | h); exact hsz0 h; exact h hsz)]
  simp only [jp1]
  rw [if_neg (not_not.2 hms)]
  simp only [jp2]
  rw [if_neg (by
    rw [Array.any_eq_true]
    rintro ⟨i, hi, h⟩
    rw [decide_eq_true_eq] at h
    have hgi : ra.getD i 0 = ra[i] := by simp [Array.getD_eq_getD_getElem?, hi]
    have := hra i hi
    rw [hgi] at this
    rcases h with h | h
    · linarith [this.1]
    · exact h this.2)]
  simp only [jp3]
  have hc0 : 0 < c0 := by
    apply cosDecMinOf_pos
    · have : (#[decBounds.getD 0 0, decBounds.getD nDec 0] : Array ℝ).getD 0 0 = decBounds.getD 0 0 := rfl
      rw [this]
      exact hbk 0 (by omega)
    · have : (#[decBounds.getD 0 0, decBounds.getD nDec 0] : Array ℝ).getD (0 + 1) 0 = decBounds.getD nDec 0 := rfl
      rw [this]
      exact hbk nDec (le_refl _)
  rw [if_neg (not_le.2 hc0)]
  simp -zeta only [jp4]
  apply bind_forIn_ok
  · intro k hk s
    have hk' := List.mem_range.1 hk
    have hc : 0 < cosDecMinOf decBounds k := cosDecMinOf_pos _ _ (hbk k (by omega)) (hbk (k + 1) (by omega))
    simp only [if_neg (not_le.2 hc)]
    exact ⟨_, rfl⟩
  · intro s
    exact ⟨_, rfl⟩
/-- on a meridian the model's separation is the declination difference -/
theorem gcircDeg_same_ra (a d1 d2 : ℝ) (h : |d2 - d1| ≤ 180) : gcircDeg a d1 a d2 = |d2 - d1| := by
  rw [gcircDeg_real', gcircDeg_real]
  have hpi := Real.pi_pos
  have hk : 0 < π / 180 := by positivity
  have habs : 0 ≤ |d2 - d1| := abs_nonneg _
  have hu0 : 0 ≤ |d2 - d1| * (π / 180) / 2 := by positivity
  have hu1 : |d2 - d1| * (π / 180) / 2 ≤ π / 2 := by nlinarith
  have hE : havExpr (d1 * (π / 180)) (d2 * (π / 180)) (a * (π / 180) - a * (π / 180)) =
      sin (|d2 - d1| * (π / 180) / 2) ^ 2 := by
    unfold havExpr
    rw [sub_self, zero_div, Real.sin_zero]
    have e : (d2 * (π / 180) - d1 * (π / 180)) / 2 = (d2 - d1) * (π / 180) / 2 := by ring
    rw [e]
    rcases abs_cases (d2 - d1) with ⟨h1, _⟩ | ⟨h1, _⟩
    · rw [h1]; ring
    · rw [h1]
      have e2 : -(d2 - d1) * (π / 180) / 2 = -((d2 - d1) * (π / 180) / 2) := by ring
      rw [e2, Real.sin_neg]; ring
  unfold havAngle
  rw [hE, Real.sqrt_sq (Real.sin_nonneg_of_nonneg_of_le_pi hu0 (by linarith)),
    Real.arcsin_sin (by linarith) hu1]
  field_simp


end PydlVerif.FofGrid

/-
Helper lemmas for C05: the main loop of `groups.__init__` (lines 413-441):
neighbour scan, relabelling, and the loop invariant that keeps the labels bounded,
the first/next lists exact and every list walk terminating.
-/
import PydlVerif.Lemmas.Fof
namespace PydlVerif.Fof

/-! ### neighbour scan (416-421) -/

structure ScanInv (close : Nat → Nat → Bool) (inG : Arr Nat) (i nG k : Nat) (a : Scan) : Prop where
  le : a.minG ≤ nG
  src : a.minG = nG ∨ ∃ j, j < k ∧ close i j = true ∧ inG.get j = a.minG
  lower : ∀ j, j < k → close i j = true → a.minG ≤ inG.get j
  nbr : ∀ jj, jj < a.nTmp → a.mult.get jj < k ∧ close i (a.mult.get jj) = true
  all : ∀ j, j < k → close i j = true → ∃ jj, jj < a.nTmp ∧ a.mult.get jj = j

theorem scanInv_step (close : Nat → Nat → Bool) (inG : Arr Nat) (i nG k : Nat) (a : Scan)
    (h : ScanInv close inG i nG k a) : ScanInv close inG i nG (k+1) (scanStep close inG i a k) := by
  unfold scanStep
  by_cases hc : close i k = true
  · simp only [hc, if_true]
    refine ⟨?_, ?_, ?_, ?_, ?_⟩
    · have := h.le; show min a.minG (inG.get k) ≤ nG; omega
    · show min a.minG (inG.get k) = nG ∨ ∃ j, j < k + 1 ∧ close i j = true ∧ inG.get j = min a.minG (inG.get k)
      by_cases hm : a.minG ≤ inG.get k
      · rw [Nat.min_eq_left hm]
        rcases h.src with e | ⟨j, a1, a2, a3⟩
        · exact Or.inl e
        · exact Or.inr ⟨j, by omega, a2, a3⟩
      · rw [Nat.min_eq_right (by omega)]
        exact Or.inr ⟨k, by omega, hc, rfl⟩
    · intro j hj hcj
      show min a.minG (inG.get k) ≤ inG.get j
      by_cases hjk : j = k
      · subst hjk; omega
      · have := h.lower j (by omega) hcj; omega
    · intro jj hjj
      have hjj' : jj < a.nTmp + 1 := hjj
      show (upd a.mult a.nTmp k).get jj < k + 1 ∧ close i ((upd a.mult a.nTmp k).get jj) = true
      simp only [upd_get]
      by_cases he : jj = a.nTmp
      · simp only [he, if_true]; exact ⟨by omega, hc⟩
      · simp only [he, if_false]
        have := h.nbr jj (by omega)
        exact ⟨by omega, this.2⟩
    · intro j hj hcj
      show ∃ jj, jj < a.nTmp + 1 ∧ (upd a.mult a.nTmp k).get jj = j
      by_cases hjk : j = k
      · exact ⟨a.nTmp, by omega, by simp [hjk]⟩
      · obtain ⟨jj, a1, a2⟩ := h.all j (by omega) hcj
        refine ⟨jj, by omega, ?_⟩
        have : jj ≠ a.nTmp := by omega
        simp [this, a2]
  · have hcf : close i k = false := by simpa using hc
    simp only [hcf, Bool.false_eq_true, if_false]
    refine ⟨h.le, ?_, ?_, ?_, ?_⟩
    · rcases h.src with e | ⟨j, a1, a2, a3⟩
      · exact Or.inl e
      · exact Or.inr ⟨j, by omega, a2, a3⟩
    · intro j hj hcj
      have : j ≠ k := fun e => by subst e; rw [hcf] at hcj; cases hcj
      exact h.lower j (by omega) hcj
    · intro jj hjj
      have := h.nbr jj hjj
      exact ⟨by omega, this.2⟩
    · intro j hj hcj
      have : j ≠ k := fun e => by subst e; rw [hcf] at hcj; cases hcj
      exact h.all j (by omega) hcj

theorem scanInv_all (close : Nat → Nat → Bool) (inG : Arr Nat) (i nG : Nat) (mult : Arr Nat) :
    ∀ k, ScanInv close inG i nG k ((List.range k).foldl (scanStep close inG i) ⟨0, nG, mult⟩) := by
  intro k
  induction k with
  | zero =>
    exact ⟨Nat.le_refl _, Or.inl rfl, fun j h => by omega, fun jj h => by simp at h, fun j h => by omega⟩
  | succ k ih =>
    rw [List.range_succ, List.foldl_append, List.foldl_cons, List.foldl_nil]
    exact scanInv_step close inG i nG k _ ih

/-! ### relabelling (425-431) -/

structure RelInv (g0 : Arr Nat) (minG : Nat) (mult : Arr Nat) (jj : Nat) (a : Arr Nat × Bool) : Prop where
  val : ∀ x, a.1.get x = g0.get x ∨ a.1.get x = minG
  set : ∀ j', j' < jj → a.1.get (mult.get j') = minG
  ok : a.2 = true

theorem relInv_step (g0 : Arr Nat) (n i minG : Nat) (hi : i ≤ n) (L : Lists) (hL : IsLists g0 0 i L)
    (mult : Arr Nat) (jj : Nat) (a : Arr Nat × Bool) (h : RelInv g0 minG mult jj a) :
    RelInv g0 minG mult (jj+1) (relabelOne n minG L mult a jj) := by
  unfold relabelOne
  by_cases hlt : a.1.get (mult.get jj) < n
  · simp only [hlt, if_true]
    refine ⟨?_, ?_, ?_⟩
    · intro x
      simp only [upd_get]
      by_cases hx : x = mult.get jj
      · simp [hx]
      · simp only [hx, if_false]
        rw [foldl_upd_const]
        by_cases hm : x ∈ walk L.next n (L.first.get (a.1.get (mult.get jj)))
        · simp [hm]
        · simp only [hm, if_false]; exact h.val x
    · intro j' hj'
      simp only [upd_get]
      by_cases hx : mult.get j' = mult.get jj
      · simp [hx]
      · simp only [hx, if_false]
        rw [foldl_upd_const]
        by_cases hm : mult.get j' ∈ walk L.next n (L.first.get (a.1.get (mult.get jj)))
        · simp [hm]
        · simp only [hm, if_false]
          have : j' ≠ jj := fun e => hx (by rw [e])
          exact h.set j' (by omega)
    · show (a.2 && walkEnds L.next n (L.first.get (a.1.get (mult.get jj)))) = true
      rw [h.ok, (walk_first g0 i n L hL hi _).1]; rfl
  · simp only [hlt, if_false]
    refine ⟨?_, ?_, h.ok⟩
    · intro x
      simp only [upd_get]
      by_cases hx : x = mult.get jj
      · simp [hx]
      · simp only [hx, if_false]; exact h.val x
    · intro j' hj'
      simp only [upd_get]
      by_cases hx : mult.get j' = mult.get jj
      · simp [hx]
      · simp only [hx, if_false]
        have : j' ≠ jj := fun e => hx (by rw [e])
        exact h.set j' (by omega)

theorem relInv_all (g0 : Arr Nat) (n i minG : Nat) (hi : i ≤ n) (L : Lists) (hL : IsLists g0 0 i L)
    (mult : Arr Nat) : ∀ k, RelInv g0 minG mult k
      ((List.range k).foldl (relabelOne n minG L mult) (g0, true)) := by
  intro k
  induction k with
  | zero => exact ⟨fun x => Or.inl rfl, fun j h => by omega, rfl⟩
  | succ k ih =>
    rw [List.range_succ, List.foldl_append, List.foldl_cons, List.foldl_nil]
    exact relInv_step g0 n i minG hi L hL mult k _ ih

/-! ### the loop invariant of `for i in range(nTargets)` -/

/-- state before pass `i`: the points `< i` are "visited" -/
structure GInv (i : Nat) (s : GS) : Prop where
  nG_le : s.nG ≤ i
  lab_lt : ∀ j, j < i → s.inG.get j < s.nG
  lists : IsLists s.inG 0 i s.L
  ok : s.ok = true

theorem isLists_empty' (g : Arr Nat) (top : Nat) (f : Arr (Option Nat)) (nx : Arr (Option Nat))
    (hf : ∀ c, f.get c = none) : IsLists g top top ⟨f, nx⟩ := by
  refine ⟨?_, ?_, ?_, ?_⟩
  · intro c _ x h1 h2; omega
  · intro c y h; rw [hf c] at h; cases h
  · intro x h1 h2; omega
  · intro x h1 h2; omega

theorem gInv_init : GInv 0 groupsInit := by
  refine ⟨Nat.le_refl _, fun j h => by omega, ?_, rfl⟩
  exact isLists_empty' _ 0 _ _ (fun c => rfl)

theorem gInv_step (n : Nat) (close : Nat → Nat → Bool) (i : Nat) (hi : i < n) (hrefl : close i i = true)
    (s : GS) (h : GInv i s) : GInv (i+1) (groupsStep n close s i) := by
  have hsc := scanInv_all close s.inG i s.nG s.mult n
  have hrel := relInv_all s.inG n i
    ((List.range n).foldl (scanStep close s.inG i) ⟨0, s.nG, s.mult⟩).minG (by omega) s.L h.lists
    ((List.range n).foldl (scanStep close s.inG i) ⟨0, s.nG, s.mult⟩).mult
    ((List.range n).foldl (scanStep close s.inG i) ⟨0, s.nG, s.mult⟩).nTmp
  rw [← h.ok] at hrel
  simp only [groupsStep, freeze_eq]
  generalize (List.range n).foldl (scanStep close s.inG i) ⟨0, s.nG, s.mult⟩ = sc at hsc hrel ⊢
  generalize (List.range sc.nTmp).foldl (relabelOne n sc.minG s.L sc.mult) (s.inG, s.ok) = r at hrel ⊢
  obtain ⟨ji, hji, hjie⟩ := hsc.all i hi hrefl
  have hri : r.1.get i = sc.minG := by rw [← hjie]; exact hrel.set ji hji
  have hle := hsc.le
  have hnG := h.nG_le
  have hlab : ∀ j, j < i + 1 → r.1.get j < (if sc.minG = s.nG then s.nG + 1 else s.nG) := by
    intro j hj
    by_cases hji' : j = i
    · rw [hji', hri]; split <;> omega
    · rcases hrel.val j with e | e
      · have := h.lab_lt j (by omega); rw [e]; split <;> omega
      · rw [e]; split <;> omega
  refine ⟨?_, hlab, ?_, hrel.ok⟩
  · show (if sc.minG = s.nG then s.nG + 1 else s.nG) ≤ i + 1
    split <;> omega
  · apply isLists_link r.1 (i+1) (i+1) (Nat.le_refl _)
    apply isLists_empty'
    intro c
    rw [foldl_upd_const]
    by_cases hc : c ∈ List.range (i+1)
    · simp [hc]
    · simp only [hc, if_false]
      cases hf : s.L.first.get c with
      | none => rfl
      | some y =>
        obtain ⟨_, b, c', _⟩ := h.lists.first_some c y hf
        have := h.lab_lt y b
        simp only [List.mem_range] at hc
        omega

theorem gInv_all (n : Nat) (close : Nat → Nat → Bool) (hrefl : ∀ i, i < n → close i i = true) :
    ∀ k, k ≤ n → GInv k ((List.range k).foldl (groupsStep n close) groupsInit) := by
  intro k
  induction k with
  | zero => intro _; exact gInv_init
  | succ k ih =>
    intro hk
    rw [List.range_succ, List.foldl_append, List.foldl_cons, List.foldl_nil]
    exact gInv_step n close k (by omega) (hrefl k (by omega)) _ (ih (by omega))

end PydlVerif.Fof

/-
Helper lemmas for C05: the FIRST pass of the cross-chunk merge (friendsoffriends 288-317) is a
union-find with path compression.  `rt m c` = the root reached from label `c`; `chain` = the labels
visited by the root search; `compress` redirects exactly that chain to `minEarly`; one chunk group
(`mergeGroup`) unions the classes of its members.  Core Lean only.
-/
import PydlVerif.Lemmas.FofRen
namespace PydlVerif.Fof

/-- the design invariant of the code comment: `mapGroups[l] ≤ l` (the model initialises with 0, so it holds
for every index, allocated or not) -/
def LE (m : Arr Nat) : Prop := ∀ l, m.get l ≤ l

/-- the root reached by `while mapGroups[c] != c: c = mapGroups[c]` -/
def rt (m : Arr Nat) (c : Nat) : Nat := findRoot m c c

theorem findRoot_eq (m : Arr Nat) (hle : LE m) : ∀ c f, c ≤ f → findRoot m f c = findRoot m c c := by
  intro c
  induction c using Nat.strongRecOn with
  | _ c ih =>
    intro f hf
    cases f with
    | zero =>
      have : c = 0 := by omega
      subst this; rfl
    | succ f =>
      by_cases h : m.get c = c
      · cases c with
        | zero => simp [findRoot, h]
        | succ c => simp [findRoot, h]
      · have hlt : m.get c < c := by have := hle c; omega
        cases c with
        | zero => omega
        | succ c' =>
          simp only [findRoot, h, if_false]
          rw [ih _ hlt f (by omega), ih _ hlt c' (by omega)]

theorem findRoot_rt (m : Arr Nat) (hle : LE m) (c f : Nat) (h : c ≤ f) : findRoot m f c = rt m c :=
  findRoot_eq m hle c f h

theorem rt_unfold (m : Arr Nat) (hle : LE m) (c : Nat) :
    rt m c = if m.get c = c then c else rt m (m.get c) := by
  cases c with
  | zero =>
    have : m.get 0 = 0 := by have := hle 0; omega
    simp [rt, findRoot, this]
  | succ c' =>
    by_cases h : m.get (c'+1) = c'+1
    · simp [rt, findRoot, h]
    · have hlt : m.get (c'+1) < c'+1 := by have := hle (c'+1); omega
      simp only [rt, findRoot, h, if_false]
      exact findRoot_eq m hle _ c' (by omega)

theorem rt_of_root (m : Arr Nat) (hle : LE m) (c : Nat) (h : m.get c = c) : rt m c = c := by
  rw [rt_unfold m hle, if_pos h]

theorem rt_of_child (m : Arr Nat) (hle : LE m) (c : Nat) (h : m.get c ≠ c) : rt m c = rt m (m.get c) := by
  rw [rt_unfold m hle, if_neg h]

theorem rt_spec (m : Arr Nat) (hle : LE m) : ∀ c, rt m c ≤ c ∧ m.get (rt m c) = rt m c := by
  intro c
  induction c using Nat.strongRecOn with
  | _ c ih =>
    by_cases h : m.get c = c
    · rw [rt_of_root m hle c h]; exact ⟨Nat.le_refl _, h⟩
    · have hlt : m.get c < c := by have := hle c; omega
      rw [rt_of_child m hle c h]
      have := ih _ hlt
      exact ⟨by omega, this.2⟩

theorem rt_le (m : Arr Nat) (hle : LE m) (c : Nat) : rt m c ≤ c := (rt_spec m hle c).1
theorem rt_root (m : Arr Nat) (hle : LE m) (c : Nat) : m.get (rt m c) = rt m c := (rt_spec m hle c).2

theorem findRootOk_true (m : Arr Nat) (hle : LE m) : ∀ c f, c ≤ f → findRootOk m f c = true := by
  intro c
  induction c using Nat.strongRecOn with
  | _ c ih =>
    intro f hf
    cases f with
    | zero =>
      have : c = 0 := by omega
      subst this
      have : m.get 0 = 0 := by have := hle 0; omega
      simp [findRootOk, this]
    | succ f =>
      by_cases h : m.get c = c
      · simp [findRootOk, h]
      · have hlt : m.get c < c := by have := hle c; omega
        simp only [findRootOk, h, if_false]
        exact ih _ hlt f (by omega)

/-- an update above `d` is not seen by the root search from `d` -/
theorem findRoot_upd_above (m : Arr Nat) (hle : LE m) (j v : Nat) :
    ∀ f d, d < j → findRoot (upd m j v) f d = findRoot m f d := by
  intro f
  induction f with
  | zero => intro d _; rfl
  | succ f ih =>
    intro d hd
    have hne : d ≠ j := by omega
    simp only [findRoot, upd_get, hne, if_false]
    by_cases h : m.get d = d
    · simp [h]
    · simp only [h, if_false]
      exact ih _ (by have := hle d; omega)

theorem rt_upd_above (m : Arr Nat) (hle : LE m) (j v d : Nat) (hd : d < j) : rt (upd m j v) d = rt m d :=
  findRoot_upd_above m hle j v d d hd

/-! ### the chain visited by the root search, and path compression -/

def chain (m : Arr Nat) : Nat → Nat → List Nat
  | 0, c => [c]
  | f+1, c => if m.get c = c then [c] else c :: chain m f (m.get c)

theorem chain_upd_above (m : Arr Nat) (hle : LE m) (j v : Nat) :
    ∀ f d, d < j → chain (upd m j v) f d = chain m f d := by
  intro f
  induction f with
  | zero => intro d _; rfl
  | succ f ih =>
    intro d hd
    have hne : d ≠ j := by omega
    simp only [chain, upd_get, hne, if_false]
    by_cases h : m.get d = d
    · simp [h]
    · simp only [h, if_false]
      rw [ih _ (by have := hle d; omega)]

theorem chain_mem (m : Arr Nat) (hle : LE m) : ∀ f c, c ≤ f → ∀ x, x ∈ chain m f c → x ≤ c ∧ rt m x = rt m c := by
  intro f
  induction f with
  | zero =>
    intro c _ x hx
    simp only [chain, List.mem_singleton] at hx
    subst hx; exact ⟨Nat.le_refl _, rfl⟩
  | succ f ih =>
    intro c hc x hx
    by_cases h : m.get c = c
    · simp only [chain, h, if_true, List.mem_singleton] at hx
      subst hx; exact ⟨Nat.le_refl _, rfl⟩
    · have hlt : m.get c < c := by have := hle c; omega
      simp only [chain, h, if_false, List.mem_cons] at hx
      rcases hx with hx | hx
      · subst hx; exact ⟨Nat.le_refl _, rfl⟩
      · have := ih _ (by omega) x hx
        exact ⟨by omega, by rw [this.2, ← rt_of_child m hle c h]⟩

theorem rt_mem_chain (m : Arr Nat) (hle : LE m) : ∀ f c, c ≤ f → rt m c ∈ chain m f c := by
  intro f
  induction f with
  | zero =>
    intro c hc
    have : c = 0 := by omega
    subst this
    simp [chain, rt, findRoot]
  | succ f ih =>
    intro c hc
    by_cases h : m.get c = c
    · simp [chain, h, rt_of_root m hle c h]
    · have hlt : m.get c < c := by have := hle c; omega
      simp only [chain, h, if_false, List.mem_cons]
      right
      rw [rt_of_child m hle c h]
      exact ih _ (by omega)

theorem self_mem_chain (m : Arr Nat) (f c : Nat) : c ∈ chain m f c := by
  cases f with
  | zero => simp [chain]
  | succ f => by_cases h : m.get c = c <;> simp [chain, h]

/-- lines 311-315: exactly the labels on the chain are redirected to `minE` -/
theorem compress_get (minE : Nat) : ∀ f (m : Arr Nat) c, LE m → c ≤ f → minE ≤ rt m c → ∀ x,
    (compress minE f m c).get x = if x ∈ chain m f c then minE else m.get x := by
  intro f
  induction f with
  | zero =>
    intro m c _ _ _ x
    simp [compress, chain]
  | succ f ih =>
    intro m c hle hc hmin x
    by_cases h : m.get c = c
    · simp [compress, chain, h]
    · have hlt : m.get c < c := by have := hle c; omega
      have hrc : rt m c ≤ c := rt_le m hle c
      have hle1 : LE (upd m c minE) := by
        intro l
        simp only [upd_get]
        split
        · omega
        · exact hle l
      have hr1 : rt (upd m c minE) (m.get c) = rt m c := by
        rw [rt_upd_above m hle c minE _ hlt, ← rt_of_child m hle c h]
      simp only [compress, chain, h, if_false, List.mem_cons]
      rw [ih (upd m c minE) (m.get c) hle1 (by omega) (by rw [hr1]; exact hmin) x,
        chain_upd_above m hle c minE f _ hlt]
      simp only [upd_get]
      by_cases hx : x = c
      · simp [hx]
      · simp [hx]

theorem compressOk_true (minE : Nat) : ∀ f (m : Arr Nat) c, LE m → c ≤ f → minE ≤ rt m c →
    compressOk minE f m c = true := by
  intro f
  induction f with
  | zero =>
    intro m c hle hc _
    have : c = 0 := by omega
    subst this
    have : m.get 0 = 0 := by have := hle 0; omega
    simp [compressOk, this]
  | succ f ih =>
    intro m c hle hc hmin
    by_cases h : m.get c = c
    · simp [compressOk, h]
    · have hlt : m.get c < c := by have := hle c; omega
      have hrc : rt m c ≤ c := rt_le m hle c
      have hle1 : LE (upd m c minE) := by
        intro l
        simp only [upd_get]
        split
        · omega
        · exact hle l
      have hr1 : rt (upd m c minE) (m.get c) = rt m c := by
        rw [rt_upd_above m hle c minE _ hlt, ← rt_of_child m hle c h]
      simp only [compressOk, h, if_false]
      exact ih (upd m c minE) (m.get c) hle1 (by omega) (by rw [hr1]; exact hmin)

/-- one path compression: the invariant `m[l] ≤ l` survives, `minE` stays a root, and the new root of every
label is a function of its old root: the class of `c` moves to `minE`, every other class keeps its root -/
theorem compress_rt (minE f : Nat) (m : Arr Nat) (c : Nat) (hle : LE m) (hc : c ≤ f)
    (hroot : m.get minE = minE) (hmin : minE ≤ rt m c) :
    LE (compress minE f m c) ∧ (compress minE f m c).get minE = minE ∧
    ∀ l, rt (compress minE f m c) l = if rt m l = rt m c then minE else rt m l := by
  have hget := compress_get minE f m c hle hc hmin
  have hle' : LE (compress minE f m c) := by
    intro l
    rw [hget l]
    split
    · rename_i hm
      have := chain_mem m hle f c hc l hm
      have := rt_le m hle l
      omega
    · exact hle l
  have hr' : (compress minE f m c).get minE = minE := by
    rw [hget minE]; split
    · rfl
    · exact hroot
  refine ⟨hle', hr', ?_⟩
  intro l
  induction l using Nat.strongRecOn with
  | _ l ih =>
    by_cases hm : l ∈ chain m f c
    · have h1 : (compress minE f m c).get l = minE := by rw [hget l, if_pos hm]
      have h2 := (chain_mem m hle f c hc l hm).2
      rw [if_pos h2, rt_unfold _ hle' l, h1]
      split
      · rename_i e; exact e.symm
      · exact rt_of_root _ hle' minE hr'
    · have h1 : (compress minE f m c).get l = m.get l := by rw [hget l, if_neg hm]
      by_cases hr : m.get l = l
      · have h3 : rt m l = l := rt_of_root m hle l hr
        have h4 : rt m l ≠ rt m c := by
          rw [h3]; intro e; exact hm (e ▸ rt_mem_chain m hle f c hc)
        rw [if_neg h4, h3]
        exact rt_of_root _ hle' l (by rw [h1, hr])
      · have hlt : m.get l < l := by have := hle l; omega
        rw [rt_of_child _ hle' l (by rw [h1]; exact hr), h1, ih _ hlt, ← rt_of_child m hle l hr]

/-! ### pass A (lines 296-302): labels for new members, minimum earlier root -/

theorem passA_fold (nMap : Nat) (mapG : Arr Nat) (hle : LE mapG) (inG0 : Arr (Option Nat))
    (hlab : ∀ p e, inG0.get p = some e → e < nMap) :
    ∀ (l : List Nat) (g : Arr (Option Nat)) (mn : Nat) (b : Bool), l.Nodup →
    (∀ x, x ∈ l → g.get x = inG0.get x) →
    (∀ x, (l.foldl (passA nMap mapG) (g, mn, b)).1.get x =
        if x ∈ l ∧ inG0.get x = none then some nMap else g.get x) ∧
    (l.foldl (passA nMap mapG) (g, mn, b)).2.1 ≤ mn ∧
    ((l.foldl (passA nMap mapG) (g, mn, b)).2.1 = mn ∨ ∃ p, p ∈ l ∧ ∃ e, inG0.get p = some e ∧
        (l.foldl (passA nMap mapG) (g, mn, b)).2.1 = rt mapG e) ∧
    (∀ p, p ∈ l → ∀ e, inG0.get p = some e → (l.foldl (passA nMap mapG) (g, mn, b)).2.1 ≤ rt mapG e) ∧
    (l.foldl (passA nMap mapG) (g, mn, b)).2.2 = b := by
  intro l
  induction l with
  | nil => intro g mn b _ _; simp
  | cons p l ih =>
    intro g mn b hnd hag
    obtain ⟨hpl, hnd'⟩ := List.nodup_cons.1 hnd
    have hgp : g.get p = inG0.get p := hag p (List.mem_cons_self)
    rw [List.foldl_cons]
    cases hp : inG0.get p with
    | some e =>
      have he : e < nMap := hlab p e hp
      have hstep : passA nMap mapG (g, mn, b) p = (g, min mn (rt mapG e), b) := by
        have h1 : g.get p = some e := by rw [hgp, hp]
        simp only [passA, h1, findRoot_rt mapG hle e (nMap+1) (by omega),
          findRootOk_true mapG hle e (nMap+1) (by omega), Bool.and_true]
      rw [hstep]
      obtain ⟨i1, i2, i3, i4, i5⟩ := ih g (min mn (rt mapG e)) b hnd'
        (fun x hx => hag x (List.mem_cons_of_mem _ hx))
      refine ⟨?_, by omega, ?_, ?_, i5⟩
      · intro x
        rw [i1 x]
        by_cases hxp : x = p
        · subst hxp; simp [hp, hpl]
        · simp [hxp]
      · rcases i3 with e3 | ⟨q, hq, e', he', e3⟩
        · by_cases hmn : mn ≤ rt mapG e
          · left; rw [e3]; omega
          · right; exact ⟨p, List.mem_cons_self, e, hp, by rw [e3]; omega⟩
        · right; exact ⟨q, List.mem_cons_of_mem _ hq, e', he', e3⟩
      · intro q hq e' he'
        rcases List.mem_cons.1 hq with e1 | hq
        · subst e1
          rw [hp] at he'; cases he'
          omega
        · exact i4 q hq e' he'
    | none =>
      have hstep : passA nMap mapG (g, mn, b) p = (upd g p (some nMap), mn, b) := by
        have h1 : g.get p = none := by rw [hgp, hp]
        simp only [passA, h1]
      rw [hstep]
      obtain ⟨i1, i2, i3, i4, i5⟩ := ih (upd g p (some nMap)) mn b hnd'
        (fun x hx => by
          have : x ≠ p := fun e => hpl (e ▸ hx)
          simp only [upd_get, this, if_false]
          exact hag x (List.mem_cons_of_mem _ hx))
      refine ⟨?_, i2, ?_, ?_, i5⟩
      · intro x
        rw [i1 x]
        by_cases hxp : x = p
        · subst hxp; simp [hp]
        · simp [hxp]
      · rcases i3 with e3 | ⟨q, hq, e', he', e3⟩
        · exact Or.inl e3
        · right; exact ⟨q, List.mem_cons_of_mem _ hq, e', he', e3⟩
      · intro q hq e' he'
        rcases List.mem_cons.1 hq with e1 | hq
        · subst e1
          rw [hp] at he'; cases he'
        · exact i4 q hq e' he'

/-! ### pass B (lines 310-315): every member's chain is compressed onto `minE` -/

/-- state of the array during pass B, relative to the array `m0` at its start -/
structure PB (minE : Nat) (inG : Arr (Option Nat)) (ps : List Nat) (m0 m : Arr Nat) : Prop where
  le : LE m
  root : m.get minE = minE
  val : ∀ x, rt m x = minE ∨ rt m x = rt m0 x
  src : ∀ x, rt m x = minE → rt m0 x = minE ∨ ∃ p, p ∈ ps ∧ ∃ e, inG.get p = some e ∧ rt m0 x = rt m0 e
  cong : ∀ x y, rt m0 x = rt m0 y → rt m x = rt m y
  get : ∀ x, m.get x = minE ∨ m.get x = m0.get x

theorem passB_fold (nMap minE : Nat) (inG : Arr (Option Nat)) (ps : List Nat) (m0 : Arr Nat)
    (hmin : ∀ p, p ∈ ps → ∀ e, inG.get p = some e → e ≤ nMap ∧ minE ≤ rt m0 e) :
    ∀ (l : List Nat) (m : Arr Nat) (b : Bool), (∀ p, p ∈ l → p ∈ ps ∧ ∃ e, inG.get p = some e) →
    PB minE inG ps m0 m →
    PB minE inG ps m0 (l.foldl (passB nMap minE inG) (m, b)).1 ∧
    (∀ x, rt m x = minE → rt (l.foldl (passB nMap minE inG) (m, b)).1 x = minE) ∧
    (∀ p, p ∈ l → ∀ e, inG.get p = some e → rt (l.foldl (passB nMap minE inG) (m, b)).1 e = minE) ∧
    (l.foldl (passB nMap minE inG) (m, b)).2 = b := by
  intro l
  induction l with
  | nil => intro m b _ h; exact ⟨h, fun x hx => hx, fun p hp => (nomatch hp), rfl⟩
  | cons p l ih =>
    intro m b hl h
    obtain ⟨hpps, e, he⟩ := hl p List.mem_cons_self
    obtain ⟨he1, he2⟩ := hmin p hpps e he
    have hme : minE ≤ rt m e := by
      rcases h.val e with e1 | e1 <;> omega
    obtain ⟨c1, c2, c3⟩ := compress_rt minE (nMap+2) m e h.le (by omega) h.root hme
    have hstep : passB nMap minE inG (m, b) p = (compress minE (nMap+2) m e, b) := by
      simp only [passB, he, compressOk_true minE (nMap+2) m e h.le (by omega) hme, Bool.and_true]
    rw [List.foldl_cons, hstep]
    have hPB : PB minE inG ps m0 (compress minE (nMap+2) m e) := by
      refine ⟨c1, c2, ?_, ?_, ?_, ?_⟩
      rotate_left 3
      · intro x
        rw [compress_get minE (nMap+2) m e h.le (by omega) hme x]
        split
        · exact Or.inl rfl
        · exact h.get x
      · intro x
        rw [c3 x]
        split
        · exact Or.inl rfl
        · exact h.val x
      · intro x hx
        rw [c3 x] at hx
        by_cases hxe : rt m x = rt m e
        · rcases h.val x with e1 | e1
          · exact h.src x e1
          · rcases h.val e with e2 | e2
            · exact h.src x (by rw [hxe, e2])
            · right; exact ⟨p, hpps, e, he, by rw [← e1, hxe, e2]⟩
        · rw [if_neg hxe] at hx
          exact h.src x hx
      · intro x y hxy
        rw [c3 x, c3 y, h.cong x y hxy]
    obtain ⟨i1, i2, i3, i4⟩ := ih (compress minE (nMap+2) m e) b
      (fun q hq => hl q (List.mem_cons_of_mem _ hq)) hPB
    have hmono : ∀ x, rt m x = minE → rt (compress minE (nMap+2) m e) x = minE := by
      intro x hx
      rw [c3 x]; split
      · rfl
      · exact hx
    refine ⟨i1, fun x hx => i2 x (hmono x hx), ?_, i4⟩
    intro q hq e' he'
    rcases List.mem_cons.1 hq with e1 | hq
    · subst e1
      rw [he] at he'; cases he'
      apply i2
      rw [c3 e, if_pos rfl]
    · exact i3 q hq e' he'

/-! ### the partition of the points: one chunk group joins the classes of its members -/

/-- `p` is joined to some member of the group `ps` -/
def Mem (J : Nat → Nat → Prop) (ps : List Nat) (p : Nat) : Prop := ∃ a, a ∈ ps ∧ J p a

/-- the equivalence generated by `J` and "all members of `ps` are together" (for an equivalence `J`) -/
def Jn (J : Nat → Nat → Prop) (ps : List Nat) (p q : Nat) : Prop := J p q ∨ (Mem J ps p ∧ Mem J ps q)

theorem mem_of_rel {J : Nat → Nat → Prop} (hJ : Equivalence J) {ps : List Nat} {p q : Nat} (h : J p q)
    (hq : Mem J ps q) : Mem J ps p := by
  obtain ⟨a, ha, hqa⟩ := hq
  exact ⟨a, ha, hJ.trans h hqa⟩

theorem jn_equiv {J : Nat → Nat → Prop} (hJ : Equivalence J) (ps : List Nat) : Equivalence (Jn J ps) := by
  refine ⟨fun p => Or.inl (hJ.refl p), ?_, ?_⟩
  · intro p q h
    rcases h with h | ⟨h1, h2⟩
    · exact Or.inl (hJ.symm h)
    · exact Or.inr ⟨h2, h1⟩
  · intro p q r h1 h2
    rcases h1 with h1 | ⟨a1, a2⟩ <;> rcases h2 with h2 | ⟨b1, b2⟩
    · exact Or.inl (hJ.trans h1 h2)
    · exact Or.inr ⟨mem_of_rel hJ h1 b1, b2⟩
    · exact Or.inr ⟨a1, mem_of_rel hJ (hJ.symm h2) a2⟩
    · exact Or.inr ⟨a1, b2⟩

theorem jn_members {J : Nat → Nat → Prop} (hJ : Equivalence J) (ps : List Nat) (a b : Nat) (ha : a ∈ ps)
    (hb : b ∈ ps) : Jn J ps a b :=
  Or.inr ⟨⟨a, ha, hJ.refl a⟩, ⟨b, hb, hJ.refl b⟩⟩

/-- `Jn J ps` is the LEAST equivalence above `J` that puts the members of `ps` together -/
theorem jn_least {J R : Nat → Nat → Prop} (hR : Equivalence R) (ps : List Nat) (h1 : ∀ p q, J p q → R p q)
    (h2 : ∀ a b, a ∈ ps → b ∈ ps → R a b) (p q : Nat) (h : Jn J ps p q) : R p q := by
  rcases h with h | ⟨⟨a, ha, hpa⟩, ⟨b, hb, hqb⟩⟩
  · exact h1 p q h
  · exact hR.trans (h1 p a hpa) (hR.trans (h2 a b ha hb) (hR.symm (h1 q b hqb)))

/-- the invariant of the first pass: `J` is the partition generated by the chunk groups processed so far -/
structure MInv (s : MS) (J : Nat → Nat → Prop) : Prop where
  le : LE s.mapG
  lab : ∀ p e, s.inG.get p = some e → e < s.nMap
  iff : ∀ p q e f, s.inG.get p = some e → s.inG.get q = some f → (rt s.mapG e = rt s.mapG f ↔ J p q)
  sep : ∀ p q, J p q → p = q ∨ (s.inG.get p ≠ none ∧ s.inG.get q ≠ none)
  ok : s.ok = true

/-- what one chunk group does to the roots (`rs` = root of the new label): members end at `rs`; an old label
either keeps its root or moves to `rs`, the latter only if its class contains an already labelled member;
labels with equal roots keep equal roots -/
theorem minv_of_step (s s' : MS) (J : Nat → Nat → Prop) (hJ : Equivalence J) (h : MInv s J) (ps : List Nat)
    (hin : ∀ x, s'.inG.get x = if x ∈ ps ∧ s.inG.get x = none then some s.nMap else s.inG.get x)
    (hnm : s'.nMap = s.nMap + 1) (hle' : LE s'.mapG) (hok : s'.ok = true) (rs : Nat)
    (hA : ∀ p, p ∈ ps → ∀ e, s'.inG.get p = some e → rt s'.mapG e = rs)
    (hB : ∀ e, e < s.nMap → rt s'.mapG e = rs ∨ rt s'.mapG e = rt s.mapG e)
    (hC : ∀ e, e < s.nMap → rt s'.mapG e = rs →
      ∃ p, p ∈ ps ∧ ∃ e1, s.inG.get p = some e1 ∧ rt s.mapG e = rt s.mapG e1)
    (hE : ∀ e f, e < s.nMap → f < s.nMap → rt s.mapG e = rt s.mapG f → rt s'.mapG e = rt s'.mapG f) :
    MInv s' (Jn J ps) := by
  have hkeep : ∀ x, s.inG.get x ≠ none → s'.inG.get x = s.inG.get x := by
    intro x hx; rw [hin x]; simp [hx]
  have hlab' : ∀ x, s.inG.get x ≠ none ∨ x ∈ ps → s'.inG.get x ≠ none := by
    intro x hx
    rw [hin x]
    by_cases h1 : x ∈ ps ∧ s.inG.get x = none
    · simp [h1]
    · rw [if_neg h1]
      rcases hx with hx | hx
      · exact hx
      · exact fun e => h1 ⟨hx, e⟩
  have hmemlab : ∀ p, Mem J ps p → s'.inG.get p ≠ none := by
    intro p ⟨a, ha, hpa⟩
    rcases h.sep p a hpa with e | ⟨e, _⟩
    · exact hlab' p (Or.inr (e ▸ ha))
    · exact hlab' p (Or.inl e)
  -- the key: a labelled point ends at `rs` iff it is joined to a member
  have key : ∀ p e, s'.inG.get p = some e →
      (rt s'.mapG e = rs ↔ Mem J ps p) ∧ (¬ Mem J ps p → s.inG.get p = some e ∧ rt s'.mapG e = rt s.mapG e) := by
    intro p e hpe
    by_cases hnew : p ∈ ps ∧ s.inG.get p = none
    · have hM : Mem J ps p := ⟨p, hnew.1, hJ.refl p⟩
      exact ⟨⟨fun _ => hM, fun _ => hA p hnew.1 e hpe⟩, fun hn => absurd hM hn⟩
    · have hold : s.inG.get p = some e := by rw [hin p, if_neg hnew] at hpe; exact hpe
      have he : e < s.nMap := h.lab p e hold
      have hfwd : rt s'.mapG e = rs → Mem J ps p := by
        intro hr
        obtain ⟨a, ha, e1, hae, hre⟩ := hC e he hr
        exact ⟨a, ha, (h.iff p a e e1 hold hae).1 hre⟩
      refine ⟨⟨hfwd, ?_⟩, ?_⟩
      · intro ⟨a, ha, hpa⟩
        cases hae : s.inG.get a with
        | none =>
          rcases h.sep p a hpa with e1 | ⟨_, e2⟩
          · subst e1; rw [hold] at hae; cases hae
          · exact absurd hae e2
        | some e1 =>
          have hre := (h.iff p a e e1 hold hae).2 hpa
          have he1 : e1 < s.nMap := h.lab a e1 hae
          rw [hE e e1 he he1 hre]
          exact hA a ha e1 (by rw [hkeep a (by rw [hae]; simp), hae])
      · intro hn
        refine ⟨hold, ?_⟩
        rcases hB e he with e1 | e1
        · exact absurd (hfwd e1) hn
        · exact e1
  refine ⟨hle', ?_, ?_, ?_, hok⟩
  · intro p e hpe
    rw [hin p] at hpe
    rw [hnm]
    split at hpe
    · cases hpe; omega
    · have := h.lab p e hpe; omega
  · intro p q e f hpe hqf
    obtain ⟨kp1, kp2⟩ := key p e hpe
    obtain ⟨kq1, kq2⟩ := key q f hqf
    by_cases hMp : Mem J ps p <;> by_cases hMq : Mem J ps q
    · exact ⟨fun _ => Or.inr ⟨hMp, hMq⟩, fun _ => by rw [kp1.2 hMp, kq1.2 hMq]⟩
    · constructor
      · intro e1
        exact absurd (kq1.1 (by rw [← e1]; exact kp1.2 hMp)) hMq
      · intro hj
        rcases hj with hj | ⟨_, hj⟩
        · exact absurd (mem_of_rel hJ (hJ.symm hj) hMp) hMq
        · exact absurd hj hMq
    · constructor
      · intro e1
        exact absurd (kp1.1 (by rw [e1]; exact kq1.2 hMq)) hMp
      · intro hj
        rcases hj with hj | ⟨hj, _⟩
        · exact absurd (mem_of_rel hJ hj hMq) hMp
        · exact absurd hj hMp
    · obtain ⟨a1, a2⟩ := kp2 hMp
      obtain ⟨b1, b2⟩ := kq2 hMq
      rw [a2, b2, h.iff p q e f a1 b1]
      constructor
      · exact Or.inl
      · intro hj
        rcases hj with hj | ⟨hj, _⟩
        · exact hj
        · exact absurd hj hMp
  · intro p q hj
    rcases hj with hj | ⟨h1, h2⟩
    · rcases h.sep p q hj with e | ⟨e1, e2⟩
      · exact Or.inl e
      · exact Or.inr ⟨hlab' p (Or.inl e1), hlab' q (Or.inl e2)⟩
    · exact Or.inr ⟨hmemlab p h1, hmemlab q h2⟩

/-- **invariant preservation for one chunk group** (lines 293-317): processing the group `ps` (no point
twice, table not full) turns the partition `J` into the least equivalence above `J` joining all of `ps` -/
theorem mergeGroup_step (n : Nat) (s : MS) (J : Nat → Nat → Prop) (hJ : Equivalence J) (h : MInv s J)
    (ps : List Nat) (hnd : ps.Nodup) (hcap : s.nMap < 9*n) :
    MInv (mergeGroup n s ps) (Jn J ps) ∧ (mergeGroup n s ps).nMap = s.nMap + 1 ∧
    (∀ x, (mergeGroup n s ps).inG.get x =
      if x ∈ ps ∧ s.inG.get x = none then some s.nMap else s.inG.get x) ∧
    (∀ r, r < s.nMap + 1 → (mergeGroup n s ps).mapG.get r = r → (r < s.nMap ∧ s.mapG.get r = r) ∨
      (r = s.nMap ∧ ∀ p, p ∈ ps → (mergeGroup n s ps).inG.get p = some s.nMap)) := by
  obtain ⟨a1, a2, a3, a4, a5⟩ := passA_fold s.nMap s.mapG h.le s.inG h.lab ps s.inG (9*n) true hnd
    (fun _ _ => rfl)
  simp only [mergeGroup, freeze_eq]
  generalize ps.foldl (passA s.nMap s.mapG) (s.inG, 9*n, true) = a at a1 a2 a3 a4 a5 ⊢
  have hrtlt : ∀ e, e < s.nMap → rt s.mapG e < s.nMap := fun e he => by
    have := rt_le s.mapG h.le e; omega
  by_cases hm : a.2.1 = 9*n
  · rw [if_pos hm]
    have hle' : LE (upd s.mapG s.nMap s.nMap) := by
      intro l; simp only [upd_get]; split
      · omega
      · exact h.le l
    have hrt : ∀ e, e < s.nMap → rt (upd s.mapG s.nMap s.nMap) e = rt s.mapG e :=
      fun e he => rt_upd_above s.mapG h.le _ _ e he
    have hrn : rt (upd s.mapG s.nMap s.nMap) s.nMap = s.nMap := rt_of_root _ hle' _ (by simp)
    have hnone : ∀ p, p ∈ ps → s.inG.get p = none := by
      intro p hp
      cases hpe : s.inG.get p with
      | none => rfl
      | some e =>
        have := a4 p hp e hpe
        have := hrtlt e (h.lab p e hpe)
        omega
    refine ⟨?_, rfl, a1, ?_⟩
    rotate_left
    · intro r hr hroot
      have hroot' : (upd s.mapG s.nMap s.nMap).get r = r := hroot
      by_cases e : r = s.nMap
      · right
        refine ⟨e, fun p hp => ?_⟩
        show a.1.get p = _
        rw [a1 p, if_pos ⟨hp, hnone p hp⟩]
      · left
        simp only [upd_get, e, if_false] at hroot'
        exact ⟨by omega, hroot'⟩
    refine minv_of_step s _ J hJ h ps a1 rfl hle' ?_ s.nMap ?_ ?_ ?_ ?_
    · show (s.ok && a.2.2 && decide (s.nMap < 9*n)) = true
      rw [h.ok, a5]; simp [hcap]
    · intro p hp e hpe
      have hpe' : a.1.get p = some e := hpe
      rw [a1 p, if_pos ⟨hp, hnone p hp⟩] at hpe'
      cases hpe'
      exact hrn
    · intro e he; right; exact hrt e he
    · intro e he hr
      have hr' : rt (upd s.mapG s.nMap s.nMap) e = s.nMap := hr
      rw [hrt e he] at hr'
      have := hrtlt e he
      omega
    · intro e f he hf hef
      show rt (upd s.mapG s.nMap s.nMap) e = rt (upd s.mapG s.nMap s.nMap) f
      rw [hrt e he, hrt f hf, hef]
  · rw [if_neg hm]
    obtain ⟨p0, hp0, e0, hpe0, hmin0⟩ : ∃ p, p ∈ ps ∧ ∃ e, s.inG.get p = some e ∧ a.2.1 = rt s.mapG e := by
      rcases a3 with e | e
      · exact absurd e hm
      · exact e
    have he0 : e0 < s.nMap := h.lab p0 e0 hpe0
    have hmlt : a.2.1 < s.nMap := by rw [hmin0]; exact hrtlt e0 he0
    have hmroot : s.mapG.get a.2.1 = a.2.1 := by rw [hmin0]; exact rt_root s.mapG h.le e0
    have hle0 : LE (upd s.mapG s.nMap a.2.1) := by
      intro l; simp only [upd_get]; split
      · omega
      · exact h.le l
    have hrt0 : ∀ e, e < s.nMap → rt (upd s.mapG s.nMap a.2.1) e = rt s.mapG e :=
      fun e he => rt_upd_above s.mapG h.le _ _ e he
    have hroot0 : (upd s.mapG s.nMap a.2.1).get a.2.1 = a.2.1 := by
      have : a.2.1 ≠ s.nMap := by omega
      simp only [upd_get, this, if_false]; exact hmroot
    have hrn0 : rt (upd s.mapG s.nMap a.2.1) s.nMap = a.2.1 := by
      have : (upd s.mapG s.nMap a.2.1).get s.nMap ≠ s.nMap := by simp only [upd_get, if_true]; omega
      rw [rt_of_child _ hle0 _ this]
      simp only [upd_get, if_true]
      exact rt_of_root _ hle0 _ hroot0
    have hmem : ∀ p, p ∈ ps → ∀ e, a.1.get p = some e →
        (e = s.nMap ∧ s.inG.get p = none) ∨ (e < s.nMap ∧ s.inG.get p = some e) := by
      intro p hp e hpe
      rw [a1 p] at hpe
      split at hpe
      · rename_i hc; cases hpe; exact Or.inl ⟨rfl, hc.2⟩
      · exact Or.inr ⟨h.lab p e hpe, hpe⟩
    have hPB0 : PB a.2.1 a.1 ps (upd s.mapG s.nMap a.2.1) (upd s.mapG s.nMap a.2.1) :=
      ⟨hle0, hroot0, fun x => Or.inr rfl, fun x hx => Or.inl hx, fun x y e => e, fun x => Or.inr rfl⟩
    obtain ⟨b1, _, b3, b4⟩ := passB_fold s.nMap a.2.1 a.1 ps (upd s.mapG s.nMap a.2.1)
      (fun p hp e hpe => by
        rcases hmem p hp e hpe with ⟨e1, _⟩ | ⟨e1, e2⟩
        · subst e1; exact ⟨Nat.le_refl _, by rw [hrn0]; exact Nat.le_refl _⟩
        · exact ⟨by omega, by rw [hrt0 e e1]; exact a4 p hp e e2⟩)
      ps (upd s.mapG s.nMap a.2.1) true
      (fun p hp => ⟨hp, by
        rw [a1 p]
        by_cases hc : p ∈ ps ∧ s.inG.get p = none
        · exact ⟨s.nMap, by rw [if_pos hc]⟩
        · rw [if_neg hc]
          cases hpe : s.inG.get p with
          | none => exact absurd ⟨hp, hpe⟩ hc
          | some e => exact ⟨e, rfl⟩⟩)
      hPB0
    generalize ps.foldl (passB s.nMap a.2.1 a.1) (upd s.mapG s.nMap a.2.1, true) = b at b1 b3 b4 ⊢
    refine ⟨?_, rfl, a1, ?_⟩
    rotate_left
    · intro r hr hroot
      have hroot' : b.1.get r = r := hroot
      left
      rcases b1.get r with e | e
      · rw [hroot'] at e
        rw [e]; exact ⟨hmlt, hmroot⟩
      · rw [hroot'] at e
        by_cases e1 : r = s.nMap
        · rw [e1] at e; simp only [upd_get, if_true] at e; omega
        · simp only [upd_get, e1, if_false] at e
          exact ⟨by omega, e.symm⟩
    refine minv_of_step s _ J hJ h ps a1 rfl b1.le ?_ a.2.1 ?_ ?_ ?_ ?_
    · show (s.ok && a.2.2 && decide (s.nMap < 9*n) && b.2) = true
      rw [h.ok, a5, b4]; simp [hcap]
    · intro p hp e hpe
      exact b3 p hp e hpe
    · intro e he
      rcases b1.val e with e1 | e1
      · exact Or.inl e1
      · right; rw [← hrt0 e he]; exact e1
    · intro e he hr
      rcases b1.src e hr with e1 | ⟨p, hp, e1, hpe1, hre⟩
      · exact ⟨p0, hp0, e0, hpe0, by rw [← hrt0 e he, e1, hmin0]⟩
      · rcases hmem p hp e1 hpe1 with ⟨c1, _⟩ | ⟨c1, c2⟩
        · subst c1
          exact ⟨p0, hp0, e0, hpe0, by rw [← hrt0 e he, hre, hrn0, hmin0]⟩
        · exact ⟨p, hp, e1, c2, by rw [← hrt0 e he, hre, hrt0 e1 c1]⟩
    · intro e f he hf hef
      exact b1.cong e f (by rw [hrt0 e he, hrt0 f hf, hef])

/-! ### a whole list of chunk groups -/

theorem jfold_props : ∀ (gl : List (List Nat)) (J : Nat → Nat → Prop), Equivalence J →
    Equivalence (gl.foldl Jn J) ∧ (∀ p q, J p q → gl.foldl Jn J p q) ∧
    (∀ g, g ∈ gl → ∀ a b, a ∈ g → b ∈ g → gl.foldl Jn J a b) ∧
    (∀ R : Nat → Nat → Prop, Equivalence R → (∀ p q, J p q → R p q) →
      (∀ g, g ∈ gl → ∀ a b, a ∈ g → b ∈ g → R a b) → ∀ p q, gl.foldl Jn J p q → R p q) := by
  intro gl
  induction gl with
  | nil =>
    intro J hJ
    exact ⟨hJ, fun p q h => h, fun g hg => (nomatch hg), fun R _ h1 _ p q h => h1 p q h⟩
  | cons g gl ih =>
    intro J hJ
    obtain ⟨i1, i2, i3, i4⟩ := ih (Jn J g) (jn_equiv hJ g)
    rw [List.foldl_cons]
    refine ⟨i1, fun p q h => i2 p q (Or.inl h), ?_, ?_⟩
    · intro g' hg' a b ha hb
      rcases List.mem_cons.1 hg' with e | hg'
      · subst e; exact i2 a b (jn_members hJ g' a b ha hb)
      · exact i3 g' hg' a b ha hb
    · intro R hR h1 h2 p q h
      exact i4 R hR (jn_least hR g h1 (fun a b ha hb => h2 g List.mem_cons_self a b ha hb))
        (fun g' hg' => h2 g' (List.mem_cons_of_mem _ hg')) p q h

/-- every root among the allocated labels is the label of some point (so `nGroups` counts non-empty groups) -/
def Surj (s : MS) : Prop := ∀ r, r < s.nMap → s.mapG.get r = r → ∃ p, s.inG.get p = some r

theorem mergeGroups_fold (n : Nat) : ∀ (gl : List (List Nat)) (s : MS) (J : Nat → Nat → Prop), Equivalence J →
    MInv s J → (∀ g, g ∈ gl → g.Nodup) → s.nMap + gl.length ≤ 9*n →
    MInv (gl.foldl (mergeGroup n) s) (gl.foldl Jn J) ∧ (gl.foldl (mergeGroup n) s).nMap = s.nMap + gl.length ∧
    (∀ x, ((gl.foldl (mergeGroup n) s).inG.get x).isSome = true ↔
      (s.inG.get x).isSome = true ∨ ∃ g, g ∈ gl ∧ x ∈ g) ∧
    ((∀ g, g ∈ gl → g ≠ []) → Surj s → Surj (gl.foldl (mergeGroup n) s)) := by
  intro gl
  induction gl with
  | nil => intro s J _ h _ _; exact ⟨h, rfl, fun x => by simp, fun _ h => h⟩
  | cons g gl ih =>
    intro s J hJ h hnd hcap
    simp only [List.length_cons] at hcap
    obtain ⟨m1, m2, m3, m4⟩ := mergeGroup_step n s J hJ h g (hnd g List.mem_cons_self) (by omega)
    obtain ⟨i1, i2, i3, i4⟩ := ih (mergeGroup n s g) (Jn J g) (jn_equiv hJ g) m1
      (fun g' hg' => hnd g' (List.mem_cons_of_mem _ hg')) (by rw [m2]; omega)
    rw [List.foldl_cons, List.foldl_cons]
    refine ⟨i1, by rw [i2, m2, List.length_cons]; omega, ?_, ?_⟩
    rotate_left
    · intro hne hsurj
      apply i4 (fun g' hg' => hne g' (List.mem_cons_of_mem _ hg'))
      intro r hr hroot
      rw [m2] at hr
      rcases m4 r hr hroot with ⟨h1, h2⟩ | ⟨hrn, h2⟩
      · obtain ⟨p, hp⟩ := hsurj r h1 h2
        refine ⟨p, ?_⟩
        rw [m3 p, if_neg (fun hc => by rw [hc.2] at hp; cases hp)]
        exact hp
      · have hgne := hne g List.mem_cons_self
        cases g with
        | nil => exact absurd rfl hgne
        | cons p t => exact ⟨p, by rw [hrn]; exact h2 p List.mem_cons_self⟩
    intro x
    rw [i3 x, m3 x]
    constructor
    · rintro (h1 | ⟨g', hg', hx⟩)
      · by_cases hc : x ∈ g ∧ s.inG.get x = none
        · exact Or.inr ⟨g, List.mem_cons_self, hc.1⟩
        · rw [if_neg hc] at h1; exact Or.inl h1
      · exact Or.inr ⟨g', List.mem_cons_of_mem _ hg', hx⟩
    · rintro (h1 | ⟨g', hg', hx⟩)
      · left
        by_cases hc : x ∈ g ∧ s.inG.get x = none
        · rw [if_pos hc]; rfl
        · rw [if_neg hc]; exact h1
      · rcases List.mem_cons.1 hg' with e | hg'
        · subst e
          left
          by_cases hc : x ∈ g' ∧ s.inG.get x = none
          · rw [if_pos hc]; rfl
          · rw [if_neg hc]
            cases hs : s.inG.get x with
            | none => exact absurd ⟨hx, hs⟩ hc
            | some e => rfl
        · exact Or.inr ⟨g', hg', hx⟩

/-! ### second pass: the resolved number of a label identifies its root -/

theorem nroots_mono (m : Arr Nat) : ∀ i j, i ≤ j → nroots m i ≤ nroots m j := by
  intro i j h
  induction j with
  | zero => have : i = 0 := by omega
            subst this; exact Nat.le_refl _
  | succ j ih =>
    by_cases e : i = j + 1
    · subst e; exact Nat.le_refl _
    · have := ih (by omega)
      rw [nroots_succ]; omega

theorem nroots_lt (m : Arr Nat) (r j : Nat) (hr : m.get r = r) (h : r < j) : nroots m r < nroots m j := by
  have h1 := nroots_succ m r
  rw [if_pos hr] at h1
  have := nroots_mono m (r+1) j (by omega)
  omega

theorem nroots_inj (m : Arr Nat) (r1 r2 : Nat) (h1 : m.get r1 = r1) (h2 : m.get r2 = r2)
    (e : nroots m r1 = nroots m r2) : r1 = r2 := by
  rcases Nat.lt_trichotomy r1 r2 with h | h | h
  · have := nroots_lt m r1 r2 h1 h; omega
  · exact h
  · have := nroots_lt m r2 r1 h2 h; omega

/-- after the second pass every label carries the rank of its root among the roots -/
theorem resolve_rt (m : Arr Nat) (nMap : Nat) (hle : LE m) :
    ∀ e, e < nMap → (resolve nMap m).1.get e = nroots m (rt m e) := by
  have h := resInv_all m nMap (fun i _ => hle i) nMap (Nat.le_refl _)
  intro e
  induction e using Nat.strongRecOn with
  | _ e ih =>
    intro he
    by_cases hr : m.get e = e
    · rw [rt_of_root m hle e hr]; exact h.root e he hr
    · have hlt : m.get e < e := by have := hle e; omega
      rw [rt_of_child m hle e hr, ← ih _ hlt (by omega)]
      exact h.child e he hr

theorem resolve_eq_iff (m : Arr Nat) (nMap : Nat) (hle : LE m) (e f : Nat) (he : e < nMap) (hf : f < nMap) :
    (resolve nMap m).1.get e = (resolve nMap m).1.get f ↔ rt m e = rt m f := by
  rw [resolve_rt m nMap hle e he, resolve_rt m nMap hle f hf]
  constructor
  · exact nroots_inj m _ _ (rt_root m hle e) (rt_root m hle f)
  · intro h; rw [h]

theorem resolve_lt (m : Arr Nat) (nMap : Nat) (hle : LE m) (e : Nat) (he : e < nMap) :
    (resolve nMap m).1.get e < (resolve nMap m).2 := by
  have h := resInv_all m nMap (fun i _ => hle i) nMap (Nat.le_refl _)
  have hc : (resolve nMap m).2 = nroots m nMap := h.cnt
  rw [resolve_rt m nMap hle e he, hc]
  exact nroots_lt m _ _ (rt_root m hle e) (by have := rt_le m hle e; omega)

/-- pigeonhole: an injective relation from `[0,cnt)` into `[0,k)` -/
theorem pigeon (k : Nat) (P : Nat → Nat → Prop) (hinj : ∀ c c' v, P c v → P c' v → c = c') :
    ∀ cnt, (∀ c, c < cnt → ∃ v, v < k ∧ P c v) → cnt ≤ k := by
  have key : ∀ cnt, (∀ c, c < cnt → ∃ v, v < k ∧ P c v) →
      ∃ l : List Nat, l.length = cnt ∧ l.Nodup ∧ ∀ v, v ∈ l → v < k ∧ ∃ c, c < cnt ∧ P c v := by
    intro cnt
    induction cnt with
    | zero => intro _; exact ⟨[], rfl, List.nodup_nil, fun v hv => nomatch hv⟩
    | succ cnt ih =>
      intro h
      obtain ⟨l, l1, l2, l3⟩ := ih (fun c hc => h c (by omega))
      obtain ⟨v, hv, hP⟩ := h cnt (by omega)
      refine ⟨v :: l, by simp [l1], List.nodup_cons.2 ⟨?_, l2⟩, ?_⟩
      · intro hm
        obtain ⟨_, c, hc, hPc⟩ := l3 v hm
        have := hinj c cnt v hPc hP
        omega
      · intro w hw
        rcases List.mem_cons.1 hw with e | hw
        · subst e; exact ⟨hv, cnt, by omega, hP⟩
        · obtain ⟨a, c, hc, hPc⟩ := l3 w hw
          exact ⟨a, c, by omega, hPc⟩
  intro cnt h
  obtain ⟨l, l1, l2, l3⟩ := key cnt h
  have := List.Nodup.length_le_of_subset l2 (l₂ := List.range k) (fun v hv => List.mem_range.2 (l3 v hv).1)
  rw [l1, List.length_range] at this
  exact this

/-- the renumbering opens at most one new group per point -/
theorem renumber_cnt_le (n : Nat) (L : Lists) : ∀ (l : List Nat) (s : Ren),
    (l.foldl (renStep n L) s).cnt ≤ s.cnt + l.length := by
  intro l
  induction l with
  | nil => intro s; exact Nat.le_refl _
  | cons a l ih =>
    intro s
    rw [List.foldl_cons]
    have h1 := ih (renStep n L s a)
    have h2 : (renStep n L s a).cnt ≤ s.cnt + 1 := by
      unfold renStep; split
      · omega
      · exact Nat.le_refl _
    simp only [List.length_cons]; omega

/-! ### one cell, all cells -/

/-- the closeness relation inside one cell (local indices) -/
def cellClose (close : Nat → Nat → Bool) (chunk : Array Nat) : Nat → Nat → Bool :=
  fun a b => close (cget chunk a) (cget chunk b)

/-- the groups of one cell as lists of global indices, in the order of the loop `for k in range(nGroups)` -/
def chunkGroups (close : Nat → Nat → Bool) (chunk : Array Nat) : List (List Nat) :=
  (List.range (groupsRun chunk.size (cellClose close chunk)).nG).map (fun k =>
    (walk (groupsRun chunk.size (cellClose close chunk)).L.next chunk.size
      ((groupsRun chunk.size (cellClose close chunk)).L.first.get k)).map (cget chunk))

theorem mergeChunk_eq (n : Nat) (close : Nat → Nat → Bool) (s : MS) (chunk : Array Nat) :
    mergeChunk n close s chunk = if chunk.size = 0 then s else
      { (chunkGroups close chunk).foldl (mergeGroup n) s with
        ok := ((chunkGroups close chunk).foldl (mergeGroup n) s).ok &&
          (groupsRun chunk.size (cellClose close chunk)).ok &&
          countOk chunk.size (groupsRun chunk.size (cellClose close chunk)).L
            (groupsRun chunk.size (cellClose close chunk)).nG } := by
  unfold mergeChunk chunkGroups
  rw [List.foldl_map]
  rfl

theorem nroots_surj (m : Arr Nat) : ∀ k c, c < nroots m k → ∃ r, r < k ∧ m.get r = r ∧ nroots m r = c := by
  intro k
  induction k with
  | zero => intro c hc; simp [nroots] at hc
  | succ k ih =>
    intro c hc
    rw [nroots_succ] at hc
    by_cases h1 : c < nroots m k
    · obtain ⟨r, hr, a, b⟩ := ih c h1
      exact ⟨r, by omega, a, b⟩
    · by_cases hk : m.get k = k
      · rw [if_pos hk] at hc
        exact ⟨k, by omega, hk, by omega⟩
      · rw [if_neg hk] at hc; omega

theorem minv_ok (s : MS) (J : Nat → Nat → Prop) (h : MInv s J) (b : Bool) (hb : b = true) :
    MInv { s with ok := s.ok && b } J :=
  ⟨h.le, h.lab, h.iff, h.sep, by show (s.ok && b) = true; rw [h.ok, hb]; rfl⟩

end PydlVerif.Fof

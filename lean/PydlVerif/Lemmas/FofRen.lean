/-
Helper lemmas for C05: the renumbering pass (groups 445-455, spheregroup 538-547)
and the second pass of the cross-chunk merge (friendsoffriends 322-331).
-/
import PydlVerif.Lemmas.Fof
namespace PydlVerif.Fof

/-- state of the renumbering loop after the points `< k` have been looked at -/
structure RenInv (g0 : Arr Nat) (n k : Nat) (s : Ren) : Prop where
  done_iff : ∀ x, x < n → (s.done.get x = true ↔ ∃ z, z < k ∧ g0.get z = g0.get x)
  keep : ∀ x, x < n → s.done.get x = false → s.inG.get x = g0.get x
  part : ∀ x y, x < n → y < n → s.done.get x = true → s.done.get y = true →
    (s.inG.get x = s.inG.get y ↔ g0.get x = g0.get y)
  lt_cnt : ∀ x, x < n → s.done.get x = true → s.inG.get x < s.cnt
  onto : ∀ c, c < s.cnt → ∃ z, z < k ∧ z < n ∧ s.done.get z = true ∧ s.inG.get z = c
  rgs : ∀ x, x < n → s.done.get x = true → ∀ c, c < s.inG.get x →
    ∃ z, z < x ∧ s.done.get z = true ∧ s.inG.get z = c
  ok : s.ok = true

theorem renInv_init (g0 : Arr Nat) (n : Nat) : RenInv g0 n 0 ⟨g0, Arr.const false, 0, true⟩ := by
  refine ⟨?_, ?_, ?_, ?_, ?_, ?_, rfl⟩
  · intro x _; simp
  · intro x _ _; rfl
  · intro x y _ _ h; simp at h
  · intro x _ h; simp at h
  · intro c h; simp at h
  · intro x _ h; simp at h

theorem renInv_step (g0 : Arr Nat) (n k : Nat) (hk : k < n) (L : Lists) (hL : IsLists g0 0 n L)
    (s : Ren) (h : RenInv g0 n k s) : RenInv g0 n (k+1) (renStep n L s k) := by
  unfold renStep
  by_cases hd : s.done.get k = true
  · -- already renumbered
    simp only [hd, if_true]
    obtain ⟨z0, hz0, hz0e⟩ := (h.done_iff k hk).1 hd
    refine ⟨?_, h.keep, h.part, h.lt_cnt, ?_, h.rgs, h.ok⟩
    · intro x hx
      rw [h.done_iff x hx]
      constructor
      · rintro ⟨z, hz, he⟩; exact ⟨z, by omega, he⟩
      · rintro ⟨z, hz, he⟩
        by_cases hzk : z = k
        · subst hzk; exact ⟨z0, hz0, by rw [hz0e, he]⟩
        · exact ⟨z, by omega, he⟩
    · intro c hc
      obtain ⟨z, a, b, c', d⟩ := h.onto c hc
      exact ⟨z, by omega, b, c', d⟩
  · -- a new group: its list is walked
    have hdf : s.done.get k = false := by simpa using hd
    simp only [hdf, Bool.false_eq_true, if_false]
    have hkeep : s.inG.get k = g0.get k := h.keep k hk hdf
    have hnew : ∀ z, z < k → g0.get z ≠ g0.get k := by
      intro z hz he
      exact hd ((h.done_iff k hk).2 ⟨z, hz, he⟩)
    have hw := walk_first g0 n n L hL (Nat.le_refl _) (g0.get k)
    have hmem : ∀ x, x ∈ walk L.next n (L.first.get (s.inG.get k)) ↔ x < n ∧ g0.get x = g0.get k := by
      intro x; rw [hkeep]; exact mem_walk_first g0 n n L hL (Nat.le_refl _) _ x
    -- members of the new class were not renumbered before and have index ≥ k
    have hCnd : ∀ x, x < n → g0.get x = g0.get k → s.done.get x = false := by
      intro x hx he
      cases hdx : s.done.get x with
      | false => rfl
      | true =>
        obtain ⟨z, hz, hze⟩ := (h.done_iff x hx).1 hdx
        exact absurd (hze.trans he) (hnew z hz)
    have hCge : ∀ x, g0.get x = g0.get k → k ≤ x := by
      intro x he
      apply Nat.le_of_not_lt
      intro hlt
      exact hnew x hlt he
    have hinG : ∀ x, x < n → (List.foldl (fun g j => upd g j s.cnt) s.inG
        (walk L.next n (L.first.get (s.inG.get k)))).get x = if g0.get x = g0.get k then s.cnt else s.inG.get x := by
      intro x hx
      rw [foldl_upd_const]
      simp only [hmem]
      simp [hx]
    have hdone : ∀ x, x < n → (List.foldl (fun d j => upd d j true) s.done
        (walk L.next n (L.first.get (s.inG.get k)))).get x = if g0.get x = g0.get k then true else s.done.get x := by
      intro x hx
      rw [foldl_upd_const]
      simp only [hmem]
      simp [hx]
    refine ⟨?_, ?_, ?_, ?_, ?_, ?_, ?_⟩
    · intro x hx
      rw [hdone x hx]
      by_cases hC : g0.get x = g0.get k
      · simp only [hC, if_true, true_iff]
        exact ⟨k, by omega, rfl⟩
      · simp only [hC, if_false]
        rw [h.done_iff x hx]
        constructor
        · rintro ⟨z, hz, he⟩; exact ⟨z, by omega, he⟩
        · rintro ⟨z, hz, he⟩
          by_cases hzk : z = k
          · subst hzk; exact absurd he.symm hC
          · exact ⟨z, by omega, he⟩
    · intro x hx hdx
      have hdx' : (List.foldl (fun d j => upd d j true) s.done _).get x = false := hdx
      rw [hdone x hx] at hdx'
      rw [hinG x hx]
      by_cases hC : g0.get x = g0.get k
      · simp [hC] at hdx'
      · simp only [hC, if_false] at hdx' ⊢
        exact h.keep x hx hdx'
    · intro x y hx hy hdx hdy
      have hdx' : (List.foldl (fun d j => upd d j true) s.done _).get x = true := hdx
      have hdy' : (List.foldl (fun d j => upd d j true) s.done _).get y = true := hdy
      rw [hdone x hx] at hdx'
      rw [hdone y hy] at hdy'
      rw [hinG x hx, hinG y hy]
      by_cases hCx : g0.get x = g0.get k <;> by_cases hCy : g0.get y = g0.get k
      · simp [hCx, hCy]
      · simp only [hCx, hCy, if_true, if_false] at hdy' ⊢
        have := h.lt_cnt y hy hdy'
        constructor
        · intro e; omega
        · intro e; exact absurd e.symm hCy
      · simp only [hCx, hCy, if_true, if_false] at hdx' ⊢
        have := h.lt_cnt x hx hdx'
        constructor
        · intro e; omega
        · intro e; exact e.elim
      · simp only [hCx, hCy, if_false] at hdx' hdy' ⊢
        exact h.part x y hx hy hdx' hdy'
    · intro x hx hdx
      have hdx' : (List.foldl (fun d j => upd d j true) s.done _).get x = true := hdx
      rw [hdone x hx] at hdx'
      rw [hinG x hx]
      by_cases hC : g0.get x = g0.get k
      · simp [hC]
      · simp only [hC, if_false] at hdx' ⊢
        have := h.lt_cnt x hx hdx'
        omega
    · intro c hc
      have hc' : c < s.cnt + 1 := hc
      by_cases hcc : c = s.cnt
      · refine ⟨k, by omega, hk, ?_, ?_⟩
        · rw [hdone k hk]; simp
        · rw [hinG k hk]; simp [hcc]
      · obtain ⟨z, a, b, c', d⟩ := h.onto c (by omega)
        have hzC : g0.get z ≠ g0.get k := fun e => by
          have := hCnd z b e; rw [this] at c'; cases c'
        refine ⟨z, by omega, b, ?_, ?_⟩
        · rw [hdone z b]; simp [hzC, c']
        · rw [hinG z b]; simp [hzC, d]
    · intro x hx hdx c hc
      have hdx' : (List.foldl (fun d j => upd d j true) s.done _).get x = true := hdx
      have hc' : c < (List.foldl (fun g j => upd g j s.cnt) s.inG _).get x := hc
      rw [hdone x hx] at hdx'
      rw [hinG x hx] at hc'
      by_cases hC : g0.get x = g0.get k
      · simp only [hC, if_true] at hc'
        obtain ⟨z, a, b, c', d⟩ := h.onto c hc'
        have hzC : g0.get z ≠ g0.get k := fun e => by
          have := hCnd z b e; rw [this] at c'; cases c'
        have := hCge x hC
        refine ⟨z, by omega, ?_, ?_⟩
        · rw [hdone z b]; simp [hzC, c']
        · rw [hinG z b]; simp [hzC, d]
      · simp only [hC, if_false] at hdx' hc'
        obtain ⟨z, a, b, d⟩ := h.rgs x hx hdx' c hc'
        have hzn : z < n := by omega
        have hzC : g0.get z ≠ g0.get k := fun e => by
          have := hCnd z hzn e; rw [this] at b; cases b
        refine ⟨z, a, ?_, ?_⟩
        · rw [hdone z hzn]; simp [hzC, b]
        · rw [hinG z hzn]; simp [hzC, d]
    · show (s.ok && walkEnds L.next n (L.first.get (s.inG.get k))) = true
      rw [hkeep, hw.1, h.ok]; rfl

theorem renInv_all (g0 : Arr Nat) (n : Nat) (L : Lists) (hL : IsLists g0 0 n L) :
    ∀ k, k ≤ n → RenInv g0 n k ((List.range k).foldl (renStep n L) ⟨g0, Arr.const false, 0, true⟩) := by
  intro k
  induction k with
  | zero => intro _; exact renInv_init g0 n
  | succ k ih =>
    intro hk
    rw [List.range_succ, List.foldl_append, List.foldl_cons, List.foldl_nil]
    exact renInv_step g0 n k (by omega) L hL _ (ih (by omega))

/-! ### second pass of the merge: every provisional label is replaced by the number of its root -/

/-- number of roots (fixed points of `m`) below `i` -/
def nroots (m : Arr Nat) (i : Nat) : Nat := ((List.range i).filter (fun j => m.get j = j)).length

theorem nroots_succ (m : Arr Nat) (i : Nat) :
    nroots m (i+1) = nroots m i + (if m.get i = i then 1 else 0) := by
  simp only [nroots, List.range_succ, List.filter_append, List.length_append]
  by_cases h : m.get i = i <;> simp [h]

structure ResInv (m : Arr Nat) (k : Nat) (a : Arr Nat × Nat) : Prop where
  root : ∀ i, i < k → m.get i = i → a.1.get i = nroots m i
  child : ∀ i, i < k → m.get i ≠ i → a.1.get i = a.1.get (m.get i)
  rest : ∀ i, k ≤ i → a.1.get i = m.get i
  cnt : a.2 = nroots m k

theorem resInv_step (m : Arr Nat) (k : Nat) (hle : ∀ i, i ≤ k → m.get i ≤ i) (a : Arr Nat × Nat)
    (h : ResInv m k a) : ResInv m (k+1) (resolveStep a k) := by
  unfold resolveStep
  have hk : a.1.get k = m.get k := h.rest k (Nat.le_refl _)
  by_cases hr : m.get k = k
  · have hak : a.1.get k = k := by rw [hk, hr]
    simp only [hak, if_true]
    refine ⟨?_, ?_, ?_, ?_⟩
    · intro i hi hri
      simp only [upd_get]
      by_cases hik : i = k
      · subst hik; simp [h.cnt]
      · simp only [hik, if_false]; exact h.root i (by omega) hri
    · intro i hi hri
      have hik : i ≠ k := fun e => hri (e ▸ hr)
      have hmk : m.get i ≠ k := by have := hle i (by omega); omega
      simp only [upd_get, hik, hmk, if_false]
      exact h.child i (by omega) hri
    · intro i hi
      have : i ≠ k := by omega
      simp only [upd_get, this, if_false]; exact h.rest i (by omega)
    · simp [nroots_succ, hr, h.cnt]
  · have hak : a.1.get k ≠ k := by rw [hk]; exact hr
    simp only [hak, if_false]
    have hmlt : m.get k < k := by have := hle k (Nat.le_refl _); omega
    refine ⟨?_, ?_, ?_, ?_⟩
    · intro i hi hri
      have hik : i ≠ k := fun e => hr (e ▸ hri)
      simp only [upd_get, hik, if_false]; exact h.root i (by omega) hri
    · intro i hi hri
      simp only [upd_get]
      by_cases hik : i = k
      · subst hik
        have : m.get i ≠ i := hr
        simp only [if_true, this, if_false, hk]
      · have hmk : m.get i ≠ k := by have := hle i (by omega); omega
        simp only [hik, hmk, if_false]
        exact h.child i (by omega) hri
    · intro i hi
      have : i ≠ k := by omega
      simp only [upd_get, this, if_false]; exact h.rest i (by omega)
    · simp [nroots_succ, hr, h.cnt]

theorem resInv_all (m : Arr Nat) (nMap : Nat) (hle : ∀ i, i < nMap → m.get i ≤ i) :
    ∀ k, k ≤ nMap → ResInv m k ((List.range k).foldl resolveStep (m, 0)) := by
  intro k
  induction k with
  | zero =>
    intro _
    exact ⟨fun i h => by omega, fun i h => by omega, fun i _ => rfl, by simp [nroots]⟩
  | succ k ih =>
    intro hk
    rw [List.range_succ, List.foldl_append, List.foldl_cons, List.foldl_nil]
    exact resInv_step m k (fun i hi => hle i (by omega)) _ (ih (by omega))

end PydlVerif.Fof

/-
Helper lemmas for the C14 property file: numpy's pairwise summation computes the sum,
slices as index maps, the insertion sort of the model, the `neqNext` index list of uniq,
the size bookkeeping of the N-D rebin loop.  Property theorems are in Props/C14.lean.
-/
import PydlVerif.Model.Idl
import PydlVerif.Lemmas.ScalarField
import Mathlib.Algebra.BigOperators.Group.List.Basic
import Mathlib.Tactic.Ring
import Mathlib.Tactic.Linarith
import Mathlib.Tactic.FieldSimp
import Mathlib.Data.List.Sort
namespace PydlVerif.C14
open PydlVerif PydlVerif.Idl

section field
set_option linter.unusedSectionVars false
variable {K : Type} [Field K] [LinearOrder K] [IsStrictOrderedRing K] [FloorRing K]
attribute [local instance] fieldScalar

theorem seqSum_eq (a : K) (l : List K) : seqSum a l = a + l.sum := by
  induction l generalizing a with
  | nil => simp [seqSum]
  | cons b t ih =>
    simp only [seqSum, List.foldl_cons, List.sum_cons] at *
    rw [ih]; ring

theorem addv_sum (r b : List K) (h : r.length = b.length) : (addv r b).sum = r.sum + b.sum := by
  induction r generalizing b with
  | nil => cases b <;> simp_all [addv]
  | cons a t ih =>
    cases b with
    | nil => simp at h
    | cons c u =>
      simp only [addv, List.zipWith_cons_cons, List.sum_cons] at *
      rw [ih u (by simpa using h)]; ring

theorem addv_length (r b : List K) : (addv r b).length = min r.length b.length := by
  simp [addv]

theorem accum_sum (k : Nat) (r rest : List K) (hr : r.length = 8) (h : 8 * k ≤ rest.length) :
    (accum r k rest).sum = r.sum + (rest.take (8 * k)).sum := by
  induction k generalizing r rest with
  | zero => simp [accum]
  | succ k ih =>
    have h8 : (rest.take 8).length = 8 := by simp; omega
    simp only [accum]
    rw [ih _ _ (by rw [addv_length]; omega) (by simp; omega), addv_sum _ _ (by omega)]
    have : 8 * (k + 1) = 8 + 8 * k := by ring
    rw [this, List.take_add, List.sum_append]; ring

theorem tree8_eq (r : List K) : tree8 r = r.sum := by
  unfold tree8; split
  · simp only [List.sum_cons, List.sum_nil]; ring
  · rw [seqSum_eq]; simp

theorem pwBlock_eq (l : List K) (h : 8 ≤ l.length) : pwBlock l = l.sum := by
  simp only [pwBlock]
  rw [seqSum_eq, tree8_eq, accum_sum _ _ _ (by simp; omega) (by simp; omega)]
  have h1 : ((l.take (l.length - l.length % 8)).drop 8).take (8 * ((l.length - l.length % 8) / 8 - 1))
      = (l.take (l.length - l.length % 8)).drop 8 := by
    apply List.take_of_length_le; simp; omega
  have h2 : l.take 8 = (l.take (l.length - l.length % 8)).take 8 := by
    rw [List.take_take]; congr 1; omega
  rw [h1, h2, ← List.sum_append, List.take_append_drop, ← List.sum_append, List.take_append_drop]

theorem pwSum_eq (fuel : Nat) (l : List K) : pwSum fuel l = l.sum := by
  induction fuel generalizing l with
  | zero => simp [pwSum, seqSum_eq]
  | succ f ih =>
    simp only [pwSum]
    split
    · simp [seqSum_eq]
    · split
      · exact pwBlock_eq l (by omega)
      · rw [ih, ih, ← List.sum_append, List.take_append_drop]

theorem npSum_eq_sum' (l : List K) : npSum l = l.sum := by
  simp [npSum, pwSum_eq]

theorem axisSum_eq (b : Bool) (l : List K) : axisSum b l = l.sum := by
  cases b <;> simp [axisSum, npSum_eq_sum', seqSum_eq]

theorem getD_map_range {β : Type} (n i : Nat) (F : Nat → β) (d : β) (h : i < n) :
    ((List.range n).map F).getD i d = F i := by
  simp [List.getD_eq_getElem?_getD, h]

/-- numpy slice `x[a:a+m]` inside the array, element by element -/
theorem drop_take_eq_map (x : List K) (a m : Nat) (h : a + m ≤ x.length) :
    (x.drop a).take m = (List.range m).map fun j => x.getD (a + j) 0 := by
  apply List.ext_getElem
  · simp; omega
  · intro j h1 h2
    simp only [List.length_map, List.length_range] at h2
    simp only [List.getElem_take, List.getElem_drop, List.getElem_map, List.getElem_range]
    simp [List.getD_eq_getElem?_getD, List.getElem?_eq_getElem (show a + j < x.length by omega)]

theorem drop_eq_map (x : List K) (a : Nat) (h : a ≤ x.length) :
    x.drop a = (List.range (x.length - a)).map fun j => x.getD (a + j) 0 := by
  rw [← drop_take_eq_map x a (x.length - a) (by omega)]
  rw [List.take_of_length_le (by simp)]

theorem take_eq_map (x : List K) (m : Nat) (h : m ≤ x.length) :
    x.take m = (List.range m).map fun j => x.getD j 0 := by
  have := drop_take_eq_map x 0 m (by omega)
  simpa using this

theorem sum_range_split (a b : Nat) (g : Nat → K) :
    ((List.range (a + b)).map g).sum
      = ((List.range a).map g).sum + ((List.range b).map fun j => g (a + j)).sum := by
  rw [List.range_add, List.map_append, List.sum_append, List.map_map]; rfl

theorem sum_range_const (a : Nat) (c : K) (g : Nat → K) (h : ∀ j, j < a → g j = c) :
    ((List.range a).map g).sum = (a : K) * c := by
  have : (List.range a).map g = List.replicate a c := by
    apply List.ext_getElem
    · simp
    · intro j h1 _; simp at h1; simp [h j h1]
  rw [this, List.sum_replicate, nsmul_eq_mul]

theorem sum_range_congr (a : Nat) (g g' : Nat → K) (h : ∀ j, j < a → g j = g' j) :
    ((List.range a).map g).sum = ((List.range a).map g').sum := by
  congr 1; apply List.map_congr_left; intro j hj; exact h j (List.mem_range.1 hj)

theorem oddWidth_odd (ow : Int) : oddWidth ow % 2 = 1 := by
  unfold oddWidth; split <;> rename_i h <;> simp at h <;> omega

theorem insertS_perm (a : K) (l : List K) : (insertS a l).Perm (a :: l) := by
  induction l with
  | nil => simp [insertS]
  | cons b t ih =>
    simp only [insertS]
    split
    · exact List.Perm.refl _
    · exact (List.Perm.cons b ih).trans (List.Perm.swap a b t)

theorem insertS_sorted (a : K) (l : List K) (h : l.Pairwise (· ≤ ·)) :
    (insertS a l).Pairwise (· ≤ ·) := by
  induction l with
  | nil => simp [insertS]
  | cons b t ih =>
    simp only [insertS]
    split
    · rename_i hab
      rw [List.pairwise_cons]
      refine ⟨?_, h⟩
      intro c hc
      rcases List.mem_cons.1 hc with rfl | hc
      · exact hab
      · exact le_trans hab ((List.pairwise_cons.1 h).1 c hc)
    · rename_i hab
      have hba : b ≤ a := le_of_lt (not_le.1 hab)
      rw [List.pairwise_cons]
      refine ⟨?_, ih (List.pairwise_cons.1 h).2⟩
      intro c hc
      rcases List.mem_cons.1 ((insertS_perm a t).subset hc) with rfl | hc
      · exact hba
      · exact (List.pairwise_cons.1 h).1 c hc

theorem isort_sorted_perm' (l : List K) : (isort l).Pairwise (· ≤ ·) ∧ (isort l).Perm l := by
  induction l with
  | nil => simp [isort]
  | cons a t ih =>
    have : isort (a :: t) = insertS a (isort t) := rfl
    rw [this]
    exact ⟨insertS_sorted _ _ ih.1, (insertS_perm _ _).trans (List.Perm.cons a ih.2)⟩

/-- a sorted rearrangement is unique, so the model's sort returns it -/
theorem isort_unique (l s : List K) (hp : s.Perm l) (hs : s.Pairwise (· ≤ ·)) : isort l = s :=
  List.Perm.eq_of_pairwise' (isort_sorted_perm' l).1 hs ((isort_sorted_perm' l).2.trans hp.symm)

theorem floor_natdiv (m n : Nat) : ⌊(m : K) / (n : K)⌋ = ((m / n : Nat) : Int) := by
  rw [Int.floor_div_natCast, Int.floor_natCast]; norm_cast

end field

section uniq
set_option linter.unusedSectionVars false
variable {β : Type} [BEq β] [LawfulBEq β] [PartialOrder β]

/-- the run ends of `x`: ascending list of the `i` with `i = n-1 ∨ x[i] ≠ x[i+1]` -/
def IsRunEnds (x : List β) (r : List Nat) : Prop :=
  r.Pairwise (· < ·) ∧ ∀ i, i ∈ r ↔ (i < x.length ∧ (i + 1 = x.length ∨ x[i]? ≠ x[i + 1]?))

def Constant (x : List β) : Prop := ∀ a ∈ x, ∀ b ∈ x, a = b

theorem neqNext_asc (x : List β) : (neqNext x).Pairwise (· < ·) := by
  unfold neqNext
  apply List.Pairwise.filter
  exact List.pairwise_lt_range

theorem mem_neqNext (x : List β) (i : Nat) :
    i ∈ neqNext x ↔ ∃ (h : i < x.length),
      x[i] ≠ x[(i + 1) % x.length]'(Nat.mod_lt _ (by omega)) := by
  unfold neqNext
  rw [List.mem_filter, List.mem_range]
  constructor
  · rintro ⟨h, hp⟩
    refine ⟨h, ?_⟩
    have h' : (i + 1) % x.length < x.length := Nat.mod_lt _ (by omega)
    rw [List.getElem?_eq_getElem h, List.getElem?_eq_getElem h'] at hp
    simpa using hp
  · rintro ⟨h, hp⟩
    refine ⟨h, ?_⟩
    have h' : (i + 1) % x.length < x.length := Nat.mod_lt _ (by omega)
    rw [List.getElem?_eq_getElem h, List.getElem?_eq_getElem h']
    simpa using hp

theorem sorted_ends_ne (x : List β) (hs : x.Pairwise (· ≤ ·)) (hnc : ¬ Constant x)
    (h0 : 0 < x.length) : x[x.length - 1] ≠ x[0] := by
  intro heq
  apply hnc
  have key : ∀ a ∈ x, a = x[0] := by
    intro a ha
    obtain ⟨k, hk, rfl⟩ := List.getElem_of_mem ha
    rw [List.pairwise_iff_getElem] at hs
    have l1 : x[0] ≤ x[k] := by
      by_cases h : 0 < k
      · exact hs 0 k h0 hk h
      · have : k = 0 := by omega
        subst this; exact le_refl _
    have l2 : x[k] ≤ x[x.length - 1] := by
      by_cases h : k < x.length - 1
      · exact hs k (x.length - 1) hk (by omega) h
      · have : k = x.length - 1 := by omega
        subst this; exact le_refl _
    rw [heq] at l2
    exact le_antisymm l2 l1
  intro a ha b hb
  rw [key a ha, key b hb]

theorem neqNext_runEnds (x : List β) (hs : x.Pairwise (· ≤ ·)) (hnc : ¬ Constant x) :
    IsRunEnds x (neqNext x) := by
  refine ⟨neqNext_asc x, ?_⟩
  intro i
  rw [mem_neqNext]
  constructor
  · rintro ⟨h, hp⟩
    refine ⟨h, ?_⟩
    by_cases hl : i + 1 = x.length
    · exact Or.inl hl
    · right
      have h1 : i + 1 < x.length := by omega
      have : (i + 1) % x.length = i + 1 := Nat.mod_eq_of_lt h1
      simp only [this] at hp
      rw [List.getElem?_eq_getElem h, List.getElem?_eq_getElem h1]
      simpa using hp
  · rintro ⟨h, hp⟩
    refine ⟨h, ?_⟩
    by_cases hl : i + 1 = x.length
    · have e0 : (i + 1) % x.length = 0 := by rw [hl]; exact Nat.mod_self _
      have ei : i = x.length - 1 := by omega
      simp only [e0]
      subst ei
      exact sorted_ends_ne x hs hnc (by omega)
    · have h1 : i + 1 < x.length := by omega
      have : (i + 1) % x.length = i + 1 := Nat.mod_eq_of_lt h1
      simp only [this]
      rcases hp with hp | hp
      · omega
      · rw [List.getElem?_eq_getElem h, List.getElem?_eq_getElem h1] at hp
        simpa using hp

theorem neqNext_constant (x : List β) (hc : Constant x) : neqNext x = [] := by
  rw [List.eq_nil_iff_forall_not_mem]
  intro i hi
  obtain ⟨h, hp⟩ := (mem_neqNext x i).1 hi
  exact hp (hc _ (List.getElem_mem _) _ (List.getElem_mem _))

theorem neqNext_ne_nil (x : List β) (hs : x.Pairwise (· ≤ ·)) (hnc : ¬ Constant x) :
    neqNext x ≠ [] := by
  have hpos : 0 < x.length := by
    rcases x with _ | ⟨a, t⟩
    · exact absurd (fun a ha => by simp at ha) hnc
    · simp
  have : x.length - 1 ∈ neqNext x :=
    ((neqNext_runEnds x hs hnc).2 (x.length - 1)).2 ⟨by omega, Or.inl (by omega)⟩
  intro h; rw [h] at this; simp at this

/-- numpy `x[index]` for subscripts in range: the elements in the order of the index -/
theorem take?_ok (x : List β) (index : List Int)
    (h : ∀ j ∈ index, 0 ≤ j ∧ j < (x.length : Int)) :
    ∃ q, take? x index = .ok q ∧ List.Forall₂ (fun j v => x[j.toNat]? = some v) index q := by
  induction index with
  | nil => exact ⟨[], rfl, List.Forall₂.nil⟩
  | cons j t ih =>
    obtain ⟨q, hq, hf⟩ := ih (fun k hk => h k (List.mem_cons_of_mem _ hk))
    obtain ⟨h0, h1⟩ := h j List.mem_cons_self
    have hj : j.toNat < x.length := by omega
    refine ⟨x[j.toNat] :: q, ?_, List.Forall₂.cons (List.getElem?_eq_getElem hj) hf⟩
    simp only [take?] at hq ⊢
    rw [List.mapM_cons, hq]
    have c1 : ¬ (j < -(x.length : Int) ∨ j ≥ (x.length : Int)) := by omega
    have c2 : ¬ j < 0 := by omega
    simp only [c1, c2, if_false, List.getElem?_eq_getElem hj]
    rfl

end uniq

section nd
variable {α : Type} [Scalar α]

theorem foldl_mul (a : Nat) (l : List Nat) : l.foldl (· * ·) a = a * l.foldl (· * ·) 1 := by
  induction l generalizing a with
  | nil => simp
  | cons b t ih => simp only [List.foldl_cons]; rw [ih, ih (1 * b)]; ring

theorem prod_cons (a : Nat) (l : List Nat) : prod (a :: l) = a * prod l := by
  simp only [prod, List.foldl_cons]; rw [foldl_mul]; ring

theorem prod_snoc (l : List Nat) (a : Nat) : prod (l ++ [a]) = prod l * a := by
  simp [prod, List.foldl_append]

theorem mapAxis_size (f : List α → List α) (outer d0 d inner : Nat) (data : Array α) :
    (mapAxis f outer d0 d inner data).size = outer * d * inner := by
  simp [mapAxis]

theorem rebinAxes_size (sample : Bool) (done s ds : List Nat) (data : Array α)
    (hl : s.length = ds.length) (hsz : data.size = prod done * prod s) :
    (rebinAxes sample done s ds data).size = prod done * prod ds := by
  induction s generalizing done ds data with
  | nil =>
    cases ds with
    | nil => simpa [rebinAxes] using hsz
    | cons _ _ => simp at hl
  | cons d0 s ih =>
    cases ds with
    | nil => simp at hl
    | cons d ds =>
      simp only [rebinAxes]
      rw [ih _ _ _ (by simpa using hl) (by rw [mapAxis_size, prod_snoc])]
      rw [prod_snoc, prod_cons]; ring

/-- the new shape is compatible: every axis an integer multiple or an integer factor -/
def Compatible : List Nat → List Nat → Prop
  | d0 :: s, d :: ds => 0 < d0 ∧ 0 < d ∧ (d0 ∣ d ∨ d ∣ d0) ∧ Compatible s ds
  | [], [] => True
  | _, _ => False

theorem rebinCheck_ok (s ds : List Nat) (h : Compatible s ds) : rebinCheck s ds = .ok () := by
  induction s generalizing ds with
  | nil => cases ds <;> simp_all [Compatible, rebinCheck, pure, Except.pure]
  | cons d0 s ih =>
    cases ds with
    | nil => simp [Compatible] at h
    | cons d ds =>
      obtain ⟨h0, h1, hdv, hc⟩ := h
      simp only [rebinCheck]
      by_cases hgt : d > d0
      · have hdvd : d0 ∣ d := by
          rcases hdv with h | h
          · exact h
          · exact absurd (Nat.le_of_dvd h0 h) (by omega)
        rw [if_pos hgt, if_neg (by omega), if_neg (by simp [Nat.mod_eq_zero_of_dvd hdvd])]
        exact ih ds hc
      · rw [if_neg hgt]
        by_cases heq : d = d0
        · rw [if_pos heq]; exact ih ds hc
        · have hdvd : d ∣ d0 := by
            rcases hdv with h | h
            · exact absurd (Nat.le_of_dvd h1 h) (by omega)
            · exact h
          rw [if_neg heq, if_neg (by omega), if_neg (by simp [Nat.mod_eq_zero_of_dvd hdvd])]
          exact ih ds hc

theorem ofFn_getElem! {β : Type} [Inhabited β] (n : Nat) (g : Fin n → β) (i : Nat) (h : i < n) :
    (Array.ofFn g)[i]! = g ⟨i, h⟩ := by
  rw [getElem!_pos _ i (by simpa using h)]; simp

end nd
end PydlVerif.C14

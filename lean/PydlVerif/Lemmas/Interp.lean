/-
Helper lemmas for C17 (np.interp walk, djs_maskinterp1 core) at an ordered field.
-/
import PydlVerif.Model.Interp
import PydlVerif.Lemmas.ScalarField
import Mathlib.Tactic.Linarith
import Mathlib.Tactic.Ring

namespace PydlVerif.Interp
open PydlVerif

section field
variable {K : Type} [Field K] [LinearOrder K] [IsStrictOrderedRing K] [FloorRing K]
attribute [local instance] fieldScalar
attribute [-instance] Scalar.instOfNat Scalar.instOfScientific

/-- interior of the np.interp walk: between consecutive samples `(xa,fa)`, `(xb,fb)` -/
theorem interpGo_mid (x xa fa xb fb : K) (post : List (K × K)) (hxa : xa < x) (hxb : x < xb) :
    ∀ (pre : List (K × K)) (x0 f0 : K) (rest : List (K × K)),
      (x0, f0) :: rest = pre ++ (xa, fa) :: (xb, fb) :: post → (∀ q ∈ pre, q.1 ≤ x) →
      interpGo x x0 f0 rest = (fb - fa) / (xb - xa) * (x - xa) + fa := by
  intro pre
  induction pre with
  | nil =>
    intro x0 f0 rest h _
    simp only [List.nil_append, List.cons.injEq, Prod.mk.injEq] at h
    obtain ⟨⟨rfl, rfl⟩, rfl⟩ := h
    have hne : Scalar.beq x0 x = false := by
      cases hb : Scalar.beq x0 x with
      | true => exact absurd ((scalar_beq x0 x).1 hb) (ne_of_lt hxa)
      | false => rfl
    simp [interpGo, hxb, hne]
  | cons p pre ih =>
    intro x0 f0 rest h hpre
    simp only [List.cons_append, List.cons.injEq] at h
    obtain ⟨_, rfl⟩ := h
    have hx1 : ∀ q ∈ pre ++ [(xa, fa)], q.1 ≤ x := by
      intro q hq
      rw [List.mem_append] at hq
      rcases hq with hq | hq
      · exact hpre q (List.mem_cons_of_mem _ hq)
      · simp only [List.mem_singleton] at hq; subst hq; exact le_of_lt hxa
    cases hpr : pre ++ (xa, fa) :: (xb, fb) :: post with
    | nil => simp at hpr
    | cons q rest' =>
      obtain ⟨x1, f1⟩ := q
      have hq : (x1, f1) ∈ pre ++ [(xa, fa)] := by
        cases pre with
        | nil => simp only [List.nil_append, List.cons.injEq] at hpr; rw [← hpr.1]; simp
        | cons r pre' => simp only [List.cons_append, List.cons.injEq] at hpr; rw [← hpr.1]; simp
      have : ¬ x < x1 := not_lt.2 (hx1 _ hq)
      simp only [interpGo, this, if_false]
      exact ih x1 f1 rest' hpr.symm (fun q hq => hpre q (List.mem_cons_of_mem _ hq))

/-- right of all samples the walk returns the last value -/
theorem interpGo_last (x : K) : ∀ (rest : List (K × K)) (x0 f0 : K), (∀ q ∈ rest, q.1 ≤ x) →
    interpGo x x0 f0 rest = (((x0, f0) :: rest).getLast (List.cons_ne_nil _ _)).2 := by
  intro rest
  induction rest with
  | nil => intro x0 f0 _; simp [interpGo]
  | cons q rest ih =>
    intro x0 f0 h
    obtain ⟨x1, f1⟩ := q
    have : ¬ x < x1 := not_lt.2 (h (x1, f1) List.mem_cons_self)
    simp only [interpGo, this, if_false]
    rw [ih x1 f1 (fun q hq => h q (List.mem_cons_of_mem _ hq))]
    simp [List.getLast_cons]

/-- samples in strictly increasing abscissa order -/
def Sorted (t : List (Pt K)) : Prop :=
  ∀ k l (hkl : k < l) (hl : l < t.length), (t[k]'(by omega)).x < t[l].x

theorem goodPts_append (l1 l2 : List (Pt K)) : goodPts (l1 ++ l2) = goodPts l1 ++ goodPts l2 := by
  simp [goodPts]

theorem goodPts_cons_good (p : Pt K) (l : List (Pt K)) (h : p.bad = false) :
    goodPts (p :: l) = (p.x, p.y) :: goodPts l := by
  simp [goodPts, h]

theorem goodPts_all_bad (l : List (Pt K)) (h : ∀ p ∈ l, p.bad = true) : goodPts l = [] := by
  simp only [goodPts, List.map_eq_nil_iff, List.filter_eq_nil_iff]
  intro p hp; simp [h p hp]

theorem goodPts_mem (t : List (Pt K)) (q : K × K) (hq : q ∈ goodPts t) :
    ∃ k, ∃ hk : k < t.length, t[k].bad = false ∧ q = (t[k].x, t[k].y) := by
  simp only [goodPts, List.mem_map, List.mem_filter] at hq
  obtain ⟨p, ⟨hp, hb⟩, rfl⟩ := hq
  obtain ⟨k, hk, rfl⟩ := List.getElem_of_mem hp
  exact ⟨k, hk, by simpa using hb, rfl⟩

theorem goodPts_split (t : List (Pt K)) (a b : Nat) (hab : a < b) (hb : b < t.length)
    (ga : (t[a]'(by omega)).bad = false) (gb : t[b].bad = false)
    (hmid : ∀ k (_ : a < k) (h2 : k < b), (t[k]'(by omega)).bad = true) :
    goodPts t = goodPts (t.take a) ++ ((t[a]'(by omega)).x, (t[a]'(by omega)).y) :: (t[b].x, t[b].y) ::
      goodPts (t.drop (b + 1)) := by
  have ha : a < t.length := by omega
  have hmidl : ∀ p ∈ (t.drop (a + 1)).take (b - a - 1), p.bad = true := by
    intro p hp
    obtain ⟨k, hk, rfl⟩ := List.getElem_of_mem hp
    simp only [List.length_take, List.length_drop] at hk
    rw [List.getElem_take, List.getElem_drop]
    exact hmid (a + 1 + k) (by omega) (by omega)
  have e2 : t.drop (a + 1) = (t.drop (a + 1)).take (b - a - 1) ++ t[b] :: t.drop (b + 1) := by
    conv_lhs => rw [← List.take_append_drop (b - a - 1) (t.drop (a + 1))]
    rw [List.drop_drop, show a + 1 + (b - a - 1) = b by omega, List.drop_eq_getElem_cons hb]
  calc goodPts t = goodPts (t.take a ++ t.drop a) := by rw [List.take_append_drop]
    _ = goodPts (t.take a) ++ goodPts (t[a] :: t.drop (a + 1)) := by
        rw [goodPts_append, List.drop_eq_getElem_cons ha]
    _ = _ := by
        rw [goodPts_cons_good _ _ ga, e2, goodPts_append, goodPts_all_bad _ hmidl,
          goodPts_cons_good _ _ gb, List.nil_append]

theorem first_le (t : List (Pt K)) (a : Nat) (ha : a < t.length) (ga : t[a].bad = false) :
    t.findIdx (fun p => !p.bad) ≤ a := by
  by_contra h
  have := List.not_of_lt_findIdx (not_le.1 h)
  simp [ga] at this

theorem last_ge (t : List (Pt K)) (b : Nat) (hb : b < t.length) (gb : t[b].bad = false) :
    b ≤ t.length - 1 - t.reverse.findIdx (fun p => !p.bad) := by
  by_contra h
  have hlt : t.length - 1 - b < t.reverse.findIdx (fun p => !p.bad) := by omega
  have := List.not_of_lt_findIdx hlt
  rw [List.getElem_reverse] at this
  have e : t.length - 1 - (t.length - 1 - b) = b := by omega
  simp only [e, gb] at this
  simp at this

theorem constEnds_mid (first last : Nat) (out : List K) (i : Nat) (h1 : first ≤ i) (h2 : i ≤ last) :
    (constEnds first last out)[i]? = out[i]? := by
  unfold constEnds
  rw [List.getElem?_map]
  by_cases hi : i < out.length
  · rw [List.getElem?_range hi]
    simp only [Option.map_some]
    rw [if_neg (by omega), if_neg (by omega), List.getD_eq_getElem?_getD, List.getElem?_eq_getElem hi]
    rfl
  · rw [List.getElem?_eq_none (by simpa using hi), List.getElem?_eq_none (by omega)]; rfl

/-- the general branch of `interpCore`: at least two good samples and a masked one -/
theorem interpCore_general (t : List (Pt K)) (const : Bool) (x0 f0 : K) (r1 : K × K) (rest : List (K × K))
    (hg : goodPts t = (x0, f0) :: r1 :: rest) (hbad : ∃ p ∈ t, p.bad = true) (i : Nat)
    (h1 : t.findIdx (fun p => !p.bad) ≤ i)
    (h2 : i ≤ t.length - 1 - t.reverse.findIdx (fun p => !p.bad)) :
    (interpCore t const)[i]? =
      (t.map (fun p => if p.bad then npInterp x0 f0 (r1 :: rest) p.x else p.y))[i]? := by
  have hall : t.all (fun p => !p.bad) = false := by
    rw [List.all_eq_false]
    obtain ⟨p, hp, hb⟩ := hbad
    exact ⟨p, hp, by simp [hb]⟩
  unfold interpCore
  simp only [hall, Bool.false_eq_true, if_false, hg, List.isEmpty_cons]
  cases const
  · simp
  · simp only [if_true]
    exact constEnds_mid _ _ _ _ h1 h2

/-- masked sample strictly between two good neighbours: linear interpolation -/
theorem core_linear (t : List (Pt K)) (hs : Sorted t) (const : Bool) (a i b : Nat) (hai : a < i)
    (hib : i < b) (hb : b < t.length) (ga : (t[a]'(by omega)).bad = false) (gb : t[b].bad = false)
    (hmid : ∀ k (_ : a < k) (h2 : k < b), (t[k]'(by omega)).bad = true) :
    (interpCore t const)[i]? = some ((t[b].y - (t[a]'(by omega)).y) / (t[b].x - (t[a]'(by omega)).x) *
      ((t[i]'(by omega)).x - (t[a]'(by omega)).x) + (t[a]'(by omega)).y) := by
  have ha : a < t.length := by omega
  have hi : i < t.length := by omega
  have hsplit := goodPts_split t a b (by omega) hb ga gb hmid
  have hibad := hmid i hai hib
  -- name the head of the good list
  obtain ⟨x0, f0, r1, rest, hg⟩ : ∃ x0 f0 r1 rest, goodPts t = (x0, f0) :: r1 :: rest := by
    rw [hsplit]
    cases goodPts (t.take a) with
    | nil => exact ⟨_, _, _, _, rfl⟩
    | cons q l =>
      cases l with
      | nil => exact ⟨q.1, q.2, _, _, rfl⟩
      | cons q' l' => exact ⟨q.1, q.2, q', _, rfl⟩
  rw [interpCore_general t const x0 f0 r1 rest hg ⟨t[i], List.getElem_mem hi, hibad⟩ i
    (le_trans (first_le t a ha ga) (le_of_lt hai)) (le_trans (le_of_lt hib) (last_ge t b hb gb))]
  rw [List.getElem?_map, List.getElem?_eq_getElem hi]
  simp only [Option.map_some, hibad, if_true, Option.some.injEq]
  -- x0 is the abscissa of a good sample at or before a
  have hpre : ∀ q ∈ goodPts (t.take a), q.1 ≤ t[i].x := by
    intro q hq
    obtain ⟨k, hk, _, rfl⟩ := goodPts_mem _ q hq
    simp only [List.length_take] at hk
    rw [List.getElem_take]
    exact le_of_lt (hs k i (by omega) hi)
  have hx0 : x0 ≤ t[a].x := by
    have hmem : (x0, f0) ∈ goodPts (t.take a) ++ [(t[a].x, t[a].y)] := by
      have : (x0, f0) ∈ goodPts t := by rw [hg]; exact List.mem_cons_self
      rw [hsplit] at hg
      cases hgp : goodPts (t.take a) with
      | nil =>
        rw [hgp] at hg; simp only [List.nil_append, List.cons.injEq] at hg; rw [← hg.1]; simp
      | cons q l =>
        rw [hgp] at hg; simp only [List.cons_append, List.cons.injEq] at hg; rw [← hg.1]; simp
    rw [List.mem_append] at hmem
    rcases hmem with h | h
    · obtain ⟨k, hk, _, hq⟩ := goodPts_mem _ _ h
      simp only [List.length_take] at hk
      rw [List.getElem_take] at hq
      have : x0 = t[k].x := congrArg Prod.fst hq
      rw [this]; exact le_of_lt (hs k a (by omega) ha)
    · simp only [List.mem_singleton, Prod.mk.injEq] at h; rw [h.1]
  have hxa : t[a].x < t[i].x := hs a i hai hi
  have hxb : t[i].x < t[b].x := hs i b hib hb
  unfold npInterp
  rw [if_neg (not_lt.2 (le_of_lt (lt_of_le_of_lt hx0 hxa)))]
  exact interpGo_mid t[i].x t[a].x t[a].y t[b].x t[b].y _ hxa hxb (goodPts (t.take a)) x0 f0
    (r1 :: rest) (by rw [← hg, hsplit]) hpre

theorem goodPts_mem_of_good (t : List (Pt K)) (i : Nat) (hi : i < t.length) (g : t[i].bad = false) :
    (t[i].x, t[i].y) ∈ goodPts t := by
  simp only [goodPts, List.mem_map, List.mem_filter]
  exact ⟨t[i], ⟨List.getElem_mem hi, by simp [g]⟩, rfl⟩

theorem all_false_of_bad (t : List (Pt K)) (h : ∃ p ∈ t, p.bad = true) :
    t.all (fun p => !p.bad) = false := by
  rw [List.all_eq_false]
  obtain ⟨p, hp, hb⟩ := h
  exact ⟨p, hp, by simp [hb]⟩

/-- the general branch as a whole list -/
theorem interpCore_general_eq (t : List (Pt K)) (const : Bool) (x0 f0 : K) (r1 : K × K)
    (rest : List (K × K)) (hg : goodPts t = (x0, f0) :: r1 :: rest) (hbad : ∃ p ∈ t, p.bad = true) :
    interpCore t const =
      if const then constEnds (t.findIdx (fun p => !p.bad))
        (t.length - 1 - t.reverse.findIdx (fun p => !p.bad))
        (t.map (fun p => if p.bad then npInterp x0 f0 (r1 :: rest) p.x else p.y))
      else t.map (fun p => if p.bad then npInterp x0 f0 (r1 :: rest) p.x else p.y) := by
  unfold interpCore
  simp only [all_false_of_bad t hbad, Bool.false_eq_true, if_false, hg, List.isEmpty_cons]

/-- an unmasked sample is never changed -/
theorem core_only_masked (t : List (Pt K)) (const : Bool) (i : Nat) (hi : i < t.length)
    (g : t[i].bad = false) : (interpCore t const)[i]? = some t[i].y := by
  by_cases hall : t.all (fun p => !p.bad) = true
  · unfold interpCore
    simp only [hall, if_true, List.getElem?_map, List.getElem?_eq_getElem hi, Option.map_some]
  · have hbad : ∃ p ∈ t, p.bad = true := by
      simp only [List.all_eq_true, not_forall] at hall
      obtain ⟨p, hp, hb⟩ := hall
      exact ⟨p, hp, by simpa using hb⟩
    have hmem := goodPts_mem_of_good t i hi g
    cases hg : goodPts t with
    | nil => rw [hg] at hmem; simp at hmem
    | cons q rest =>
      obtain ⟨x0, f0⟩ := q
      cases rest with
      | nil =>
        rw [hg] at hmem
        simp only [List.mem_singleton, Prod.mk.injEq] at hmem
        unfold interpCore
        simp only [all_false_of_bad t hbad, Bool.false_eq_true, if_false, hg, List.isEmpty_nil, if_true,
          List.getElem?_map, List.getElem?_eq_getElem hi, Option.map_some, scalar_lit, Nat.cast_zero,
          zero_add, hmem.2]
      | cons r1 rest =>
        rw [interpCore_general t const x0 f0 r1 rest hg hbad i (first_le t i hi g) (last_ge t i hi g)]
        simp [List.getElem?_eq_getElem hi, g]

/-- exactly one good sample: its value everywhere -/
theorem core_single_good (t : List (Pt K)) (const : Bool) (a : Nat) (ha : a < t.length)
    (ga : t[a].bad = false) (honly : ∀ k (hk : k < t.length), k ≠ a → t[k].bad = true)
    (i : Nat) (hi : i < t.length) : (interpCore t const)[i]? = some t[a].y := by
  by_cases hn : t.length = 1
  · have : i = a := by omega
    subst this
    exact core_only_masked t const i hi ga
  · have hbad : ∃ p ∈ t, p.bad = true := by
      have : ∃ k, k < t.length ∧ k ≠ a := by
        by_cases h0 : a = 0
        · exact ⟨1, by omega, by omega⟩
        · exact ⟨0, by omega, by omega⟩
      obtain ⟨k, hk, hka⟩ := this
      exact ⟨t[k], List.getElem_mem hk, honly k hk hka⟩
    have hg : goodPts t = [(t[a].x, t[a].y)] := by
      have e : t = t.take a ++ t[a] :: t.drop (a + 1) := by
        rw [← List.drop_eq_getElem_cons ha, List.take_append_drop]
      have h1 : ∀ p ∈ t.take a, p.bad = true := by
        intro p hp
        obtain ⟨k, hk, rfl⟩ := List.getElem_of_mem hp
        simp only [List.length_take] at hk
        rw [List.getElem_take]; exact honly k (by omega) (by omega)
      have h2 : ∀ p ∈ t.drop (a + 1), p.bad = true := by
        intro p hp
        obtain ⟨k, hk, rfl⟩ := List.getElem_of_mem hp
        simp only [List.length_drop] at hk
        rw [List.getElem_drop]; exact honly (a + 1 + k) (by omega) (by omega)
      calc goodPts t = goodPts (t.take a ++ t[a] :: t.drop (a + 1)) := by rw [← e]
        _ = _ := by rw [goodPts_append, goodPts_all_bad _ h1, goodPts_cons_good _ _ ga,
                      goodPts_all_bad _ h2, List.nil_append]
    unfold interpCore
    simp only [all_false_of_bad t hbad, Bool.false_eq_true, if_false, hg, List.isEmpty_nil, if_true,
      List.getElem?_map, List.getElem?_eq_getElem hi, Option.map_some, scalar_lit, Nat.cast_zero, zero_add]

theorem first_eq (t : List (Pt K)) (a : Nat) (ha : a < t.length) (ga : t[a].bad = false)
    (hpre : ∀ k (hk : k < a), (t[k]'(by omega)).bad = true) : t.findIdx (fun p => !p.bad) = a := by
  have hle := first_le t a ha ga
  by_contra hne
  have hlt : t.findIdx (fun p => !p.bad) < a := by omega
  have := @List.findIdx_getElem _ (fun p : Pt K => !p.bad) t (by omega)
  simp [hpre _ hlt] at this

theorem last_eq (t : List (Pt K)) (b : Nat) (hb : b < t.length) (gb : t[b].bad = false)
    (hpost : ∀ k (_ : b < k) (hk : k < t.length), t[k].bad = true) :
    t.length - 1 - t.reverse.findIdx (fun p => !p.bad) = b := by
  have hge := last_ge t b hb gb
  have hr : t.reverse.findIdx (fun p => !p.bad) < t.reverse.length := by
    apply List.findIdx_lt_length_of_exists
    exact ⟨t[b], by simp, by simp [gb]⟩
  by_contra hne
  have := @List.findIdx_getElem _ (fun p : Pt K => !p.bad) t.reverse hr
  rw [List.getElem_reverse] at this
  simp only [List.length_reverse] at hr
  simp [hpost (t.length - 1 - t.reverse.findIdx (fun p => !p.bad)) (by omega) (by omega)] at this

theorem constEnds_left (first last : Nat) (out : List K) (i : Nat) (hi : i < out.length)
    (h1 : i < first) : (constEnds first last out)[i]? = some (out.getD first 0) := by
  unfold constEnds
  rw [List.getElem?_map, List.getElem?_range hi]
  simp [h1]

theorem constEnds_right (first last : Nat) (out : List K) (i : Nat) (hi : i < out.length)
    (h1 : first ≤ i) (h2 : last < i) : (constEnds first last out)[i]? = some (out.getD last 0) := by
  unfold constEnds
  rw [List.getElem?_map, List.getElem?_range hi]
  simp only [Option.map_some]
  rw [if_neg (by omega), if_pos h2]
  simp only [scalar_lit, Nat.cast_zero]

/-- masked samples before the first good one take its value -/
theorem core_left_end (t : List (Pt K)) (hs : Sorted t) (const : Bool) (a : Nat) (ha : a < t.length)
    (ga : t[a].bad = false) (hpre : ∀ k (hk : k < a), (t[k]'(by omega)).bad = true)
    (i : Nat) (hi : i < a) : (interpCore t const)[i]? = some t[a].y := by
  have hil : i < t.length := by omega
  have hbad : ∃ p ∈ t, p.bad = true := ⟨t[i], List.getElem_mem hil, hpre i hi⟩
  have h1 : ∀ p ∈ t.take a, p.bad = true := by
    intro p hp
    obtain ⟨k, hk, rfl⟩ := List.getElem_of_mem hp
    simp only [List.length_take] at hk
    rw [List.getElem_take]; exact hpre k (by omega)
  have hg : goodPts t = (t[a].x, t[a].y) :: goodPts (t.drop (a + 1)) := by
    have e : t = t.take a ++ t[a] :: t.drop (a + 1) := by
      rw [← List.drop_eq_getElem_cons ha, List.take_append_drop]
    calc goodPts t = goodPts (t.take a ++ t[a] :: t.drop (a + 1)) := by rw [← e]
      _ = _ := by rw [goodPts_append, goodPts_all_bad _ h1, goodPts_cons_good _ _ ga, List.nil_append]
  cases hG : goodPts (t.drop (a + 1)) with
  | nil =>
    rw [hG] at hg
    unfold interpCore
    simp only [all_false_of_bad t hbad, Bool.false_eq_true, if_false, hg, List.isEmpty_nil, if_true,
      List.getElem?_map, List.getElem?_eq_getElem hil, Option.map_some, scalar_lit, Nat.cast_zero, zero_add]
  | cons r1 rest =>
    rw [hG] at hg
    rw [interpCore_general_eq t const _ _ r1 rest hg hbad]
    have hF : (t.map (fun p => if p.bad then npInterp t[a].x t[a].y (r1 :: rest) p.x else p.y))[i]? =
        some t[a].y := by
      rw [List.getElem?_map, List.getElem?_eq_getElem hil]
      simp only [Option.map_some, hpre i hi, if_true, npInterp, hs i a hi ha]
    cases const
    · simpa using hF
    · simp only [if_true]
      rw [constEnds_left _ _ _ i (by simpa using hil) (by rw [first_eq t a ha ga hpre]; exact hi),
        first_eq t a ha ga hpre, List.getD_eq_getElem?_getD, List.getElem?_map,
        List.getElem?_eq_getElem ha]
      simp [ga]

/-- masked samples after the last good one take its value -/
theorem core_right_end (t : List (Pt K)) (hs : Sorted t) (const : Bool) (b : Nat) (hb : b < t.length)
    (gb : t[b].bad = false) (hpost : ∀ k (_ : b < k) (hk : k < t.length), t[k].bad = true)
    (i : Nat) (hbi : b < i) (hi : i < t.length) : (interpCore t const)[i]? = some t[b].y := by
  have hbad : ∃ p ∈ t, p.bad = true := ⟨t[i], List.getElem_mem hi, hpost i hbi hi⟩
  have h2 : ∀ p ∈ t.drop (b + 1), p.bad = true := by
    intro p hp
    obtain ⟨k, hk, rfl⟩ := List.getElem_of_mem hp
    simp only [List.length_drop] at hk
    rw [List.getElem_drop]; exact hpost (b + 1 + k) (by omega) (by omega)
  have hg : goodPts t = goodPts (t.take b) ++ [(t[b].x, t[b].y)] := by
    have e : t = t.take b ++ t[b] :: t.drop (b + 1) := by
      rw [← List.drop_eq_getElem_cons hb, List.take_append_drop]
    calc goodPts t = goodPts (t.take b ++ t[b] :: t.drop (b + 1)) := by rw [← e]
      _ = _ := by rw [goodPts_append, goodPts_cons_good _ _ gb, goodPts_all_bad _ h2]
  have hall : ∀ q ∈ goodPts t, q.1 < t[i].x := by
    intro q hq
    obtain ⟨k, hk, hgk, rfl⟩ := goodPts_mem _ q hq
    have : k ≤ b := by
      by_contra hn
      have := hpost k (by omega) hk
      rw [hgk] at this; simp at this
    exact hs k i (by omega) hi
  cases hG : goodPts (t.take b) with
  | nil =>
    rw [hG, List.nil_append] at hg
    unfold interpCore
    simp only [all_false_of_bad t hbad, Bool.false_eq_true, if_false, hg, List.isEmpty_nil, if_true,
      List.getElem?_map, List.getElem?_eq_getElem hi, Option.map_some, scalar_lit, Nat.cast_zero, zero_add]
  | cons q l =>
    obtain ⟨x0, f0⟩ := q
    rw [hG] at hg
    obtain ⟨r1, rest, hR⟩ : ∃ r1 rest, l ++ [(t[b].x, t[b].y)] = r1 :: rest := by
      cases l with
      | nil => exact ⟨_, _, rfl⟩
      | cons r l' => exact ⟨r, _, rfl⟩
    have hg' : goodPts t = (x0, f0) :: r1 :: rest := by rw [hg, List.cons_append, hR]
    rw [interpCore_general_eq t const x0 f0 r1 rest hg' hbad]
    have hF : (t.map (fun p => if p.bad then npInterp x0 f0 (r1 :: rest) p.x else p.y))[i]? =
        some t[b].y := by
      rw [List.getElem?_map, List.getElem?_eq_getElem hi]
      simp only [Option.map_some, hpost i hbi hi, if_true, npInterp, Option.some.injEq]
      have hx0 : x0 < t[i].x := hall (x0, f0) (by rw [hg']; exact List.mem_cons_self)
      rw [if_neg (not_lt.2 (le_of_lt hx0)), interpGo_last]
      · have : (x0, f0) :: r1 :: rest = (goodPts (t.take b) ++ [(t[b].x, t[b].y)]) := by
          rw [hG, List.cons_append, hR]
        simp only [this, List.getLast_append_singleton]
      · intro q hq
        exact le_of_lt (hall q (by rw [hg']; exact List.mem_cons_of_mem _ hq))
    cases const
    · simpa using hF
    · simp only [if_true]
      have hfl := first_le t b hb gb
      rw [constEnds_right _ _ _ i (by simpa using hi) (by omega)
          (by rw [last_eq t b hb gb hpost]; exact hbi),
        last_eq t b hb gb hpost, List.getD_eq_getElem?_getD, List.getElem?_map,
        List.getElem?_eq_getElem hb]
      simp [gb]

/-! ## independence of the values under the mask -/

/-- forget the values of the masked samples -/
def eraseY (t : List (Pt K)) : List (Pt K) := t.map (fun p => if p.bad then ⟨p.x, 0, true⟩ else p)

theorem eraseY_goodPts (t : List (Pt K)) : goodPts (eraseY t) = goodPts t := by
  induction t with
  | nil => rfl
  | cons p t ih =>
    have : eraseY (p :: t) = (if p.bad then ⟨p.x, 0, true⟩ else p) :: eraseY t := rfl
    rw [this]
    cases hb : p.bad
    · simp only [Bool.false_eq_true, if_false]
      rw [goodPts_cons_good _ _ hb, goodPts_cons_good _ _ hb, ih]
    · simp only [if_true]
      simp only [goodPts, List.filter_cons, hb, Bool.not_true, Bool.false_eq_true, if_false] at ih ⊢
      exact ih

theorem eraseY_all (t : List (Pt K)) :
    (eraseY t).all (fun p => !p.bad) = t.all (fun p => !p.bad) := by
  simp only [eraseY, List.all_map]
  congr 1; funext p
  cases hb : p.bad <;> simp [hb]

theorem eraseY_findIdx (t : List (Pt K)) :
    (eraseY t).findIdx (fun p => !p.bad) = t.findIdx (fun p => !p.bad) := by
  induction t with
  | nil => rfl
  | cons p t ih =>
    have : eraseY (p :: t) = (if p.bad then ⟨p.x, 0, true⟩ else p) :: eraseY t := rfl
    rw [this, List.findIdx_cons, List.findIdx_cons, ih]
    cases hb : p.bad <;> simp [hb]

theorem eraseY_reverse (t : List (Pt K)) : (eraseY t).reverse = eraseY t.reverse := by
  simp [eraseY, List.map_reverse]

theorem eraseY_map (t : List (Pt K)) (G : K → K) :
    (eraseY t).map (fun p => if p.bad then G p.x else p.y) =
      t.map (fun p => if p.bad then G p.x else p.y) := by
  simp only [eraseY, List.map_map]
  congr 1; funext p
  cases hb : p.bad <;> simp [hb]

theorem eraseY_of_all (t : List (Pt K)) (h : t.all (fun p => !p.bad) = true) : eraseY t = t := by
  induction t with
  | nil => rfl
  | cons p t ih =>
    simp only [List.all_cons, Bool.and_eq_true, Bool.not_eq_true'] at h
    have : eraseY (p :: t) = (if p.bad then ⟨p.x, 0, true⟩ else p) :: eraseY t := rfl
    rw [this, ih h.2, h.1]; simp

/-- with at least one good sample the result does not depend on the masked values -/
theorem core_erase (t : List (Pt K)) (const : Bool) (hgood : ∃ p ∈ t, p.bad = false) :
    interpCore (eraseY t) const = interpCore t const := by
  by_cases hall : t.all (fun p => !p.bad) = true
  · rw [eraseY_of_all t hall]
  · have hall' : t.all (fun p => !p.bad) = false := by simpa using hall
    unfold interpCore
    rw [eraseY_all, eraseY_goodPts, eraseY_findIdx, eraseY_reverse, eraseY_findIdx]
    simp only [hall', Bool.false_eq_true, if_false]
    cases hg : goodPts t with
    | nil =>
      obtain ⟨p, hp, hb⟩ := hgood
      obtain ⟨k, hk, rfl⟩ := List.getElem_of_mem hp
      have := goodPts_mem_of_good t k hk hb
      rw [hg] at this; simp at this
    | cons q rest =>
      obtain ⟨x0, f0⟩ := q
      have hc : ∀ c : K, (eraseY t).map (fun _ => c) = t.map (fun _ => c) := by
        intro c; simp [eraseY, List.map_map, Function.comp_def]
      have hl : (eraseY t).length = t.length := by simp [eraseY]
      simp only [eraseY_map, hc, hl]

end field
end PydlVerif.Interp

/-
Helper lemmas for C10 `iterfit_perm_ties`: equivariance of the sorted core of `iterfit` (`iterCore`) under a
permutation `τ` of the sorted positions that fixes the sorted abscissae (ties).  `reidx τ l d` is `l ∘ τ`.
-/
import PydlVerif.Model.IterFit
import PydlVerif.Props.C09
import PydlVerif.Props.C17
import Mathlib.Data.List.Sort
namespace PydlVerif.C10
open PydlVerif PydlVerif.BSpline PydlVerif.BSplineFit PydlVerif.IterFit

set_option linter.unusedSectionVars false
set_option linter.unusedVariables false
set_option linter.unusedSimpArgs false

/-! ## re-indexing a list by a list of positions -/

/-- `l ∘ τ`: the list `[l[τ[0]], l[τ[1]], …]` (default `d` outside) -/
def reidx {β : Type} (τ : List ℕ) (l : List β) (d : β) : List β := τ.map (fun i => l.getD i d)

theorem reidx_length {β : Type} (τ : List ℕ) (l : List β) (d : β) : (reidx τ l d).length = τ.length := by
  simp [reidx]

theorem getD_lt {β : Type} (l : List β) (d : β) (i : ℕ) (hi : i < l.length) : l.getD i d = l[i] := by
  rw [List.getD_eq_getElem?_getD, List.getElem?_eq_getElem hi]; rfl

theorem reidx_default {β : Type} (τ : List ℕ) (l : List β) (d d' : β) (hτ : ∀ i ∈ τ, i < l.length) :
    reidx τ l d = reidx τ l d' := by
  unfold reidx
  apply List.map_congr_left
  intro i hi
  rw [getD_lt l d i (hτ i hi), getD_lt l d' i (hτ i hi)]

theorem reidx_getD {β : Type} (τ : List ℕ) (l : List β) (d e : β) (i : ℕ) (hi : i < τ.length) :
    (reidx τ l d).getD i e = l.getD (τ.getD i 0) d := by
  unfold reidx
  rw [getD_lt _ e i (by simpa using hi), List.getElem_map, getD_lt τ 0 i hi]

theorem range_map_comp {γ : Type} (τ : List ℕ) (n : ℕ) (hn : τ.length = n) (F : ℕ → γ) :
    (List.range n).map (fun i => F (τ.getD i 0)) = τ.map F := by
  subst hn
  apply List.ext_getElem (by simp)
  intro i h1 h2
  have : i < τ.length := by simpa using h2
  simp only [List.getElem_map, List.getElem_range]
  rw [getD_lt τ 0 i this]

theorem perm_mem_lt (τ : List ℕ) (n : ℕ) (hτ : τ.Perm (List.range n)) : ∀ i ∈ τ, i < n :=
  fun i hi => List.mem_range.1 ((hτ.mem_iff).1 hi)

theorem range_map_getD' {β : Type} (l : List β) (d : β) : (List.range l.length).map (fun i => l.getD i d) = l := by
  apply List.ext_getElem (by simp)
  intro i h1 h2
  simp only [List.getElem_map, List.getElem_range]
  exact getD_lt l d i h2

theorem reidx_perm {β : Type} (τ : List ℕ) (l : List β) (d : β) (hτ : τ.Perm (List.range l.length)) :
    (reidx τ l d).Perm l := by
  have := hτ.map (fun i => l.getD i d)
  rw [range_map_getD'] at this
  exact this

/-- `(l.map f) ∘ τ = (l ∘ τ).map f` -/
theorem reidx_map {β γ : Type} (τ : List ℕ) (l : List β) (f : β → γ) (d : β) (e : γ) (hτ : ∀ i ∈ τ, i < l.length) :
    reidx τ (l.map f) e = (reidx τ l d).map f := by
  unfold reidx
  rw [List.map_map]
  apply List.map_congr_left
  intro i hi
  have h := hτ i hi
  simp only [Function.comp]
  rw [getD_lt _ e i (by simpa using h), List.getElem_map, getD_lt l d i h]

/-- `zipWith f (a ∘ τ) (b ∘ τ) = (zipWith f a b) ∘ τ` -/
theorem reidx_zipWith {β γ δ : Type} (τ : List ℕ) (a : List β) (b : List γ) (f : β → γ → δ) (da : β) (db : γ) (dc : δ)
    (ha : ∀ i ∈ τ, i < a.length) (hb : ∀ i ∈ τ, i < b.length) :
    List.zipWith f (reidx τ a da) (reidx τ b db) = reidx τ (List.zipWith f a b) dc := by
  unfold reidx
  rw [List.zipWith_map]
  rw [List.zipWith_self]
  apply List.map_congr_left
  intro i hi
  have h1 := ha i hi
  have h2 := hb i hi
  rw [getD_lt a da i h1, getD_lt b db i h2, getD_lt _ dc i (by rw [List.length_zipWith]; omega), List.getElem_zipWith]

/-! ## the pieces of the loop body (any scalar type) -/
section generic
variable {α : Type} [Scalar α]

theorem countTrue_perm (m m' : List Bool) (h : m'.Perm m) : countTrue m' = countTrue m := by
  unfold countTrue
  exact (h.filter _).length_eq

/-- with `grow = 0`, `inmask` given and `sticky = False`, `djs_reject` is a pointwise map over the pixels -/
theorem djsRejectPix_pointwise (sqrt : α → α) (o : Reject.Opts α) (px : List (Reject.Pix α)) (hg : o.grow = 0)
    (hi : o.hasIn = true) (hs : o.sticky = false) :
    Reject.djsRejectPix sqrt o px =
      (px.map (fun p => Reject.isZero (Reject.badness sqrt o p) && p.inm),
       px.all (fun p => (Reject.isZero (Reject.badness sqrt o p) && p.inm) == p.prev)) := by
  unfold Reject.djsRejectPix Reject.growMask
  simp only [hg, hi, hs, if_true, gt_iff_lt, Nat.lt_irrefl, false_and, if_false, Bool.false_eq_true]
  rw [List.zipWith_map_left, List.zipWith_self]
  congr 1
  rw [List.zipWith_map_left, List.zipWith_self, List.all_map]
  rfl

/-- **(c) `djs_reject` is pointwise** for the way `iterfit` calls it (`grow = 0`, `sticky = False`, `inmask = outmask =`
the current mask): re-indexing data, inverse variance and mask by a permutation `τ` of the positions (the model curve
being invariant under `τ`) re-indexes the new mask by `τ` and leaves `qdone` unchanged -/
theorem djsReject_equiv (sqrt : α → α) (o : Reject.Opts α) (hg : o.grow = 0) (hs : o.sticky = false) (τ : List ℕ)
    (d mdl sv : List α) (m : List Bool) (hτ : τ.Perm (List.range d.length))
    (hmdl : reidx τ mdl 0 = mdl) (hm : m.length = d.length) (hsv : sv.length = d.length) :
    Reject.djsReject sqrt o (reidx τ d 0) (some mdl) (some (reidx τ m true)) (some (reidx τ m true)) (reidx τ sv 0)
      = (Reject.djsReject sqrt o d (some mdl) (some m) (some m) sv).map (fun r => (reidx τ r.1 true, r.2)) := by
  have hτl : τ.length = d.length := by rw [hτ.length_eq, List.length_range]
  have hmdll : mdl.length = d.length := by rw [← hmdl, reidx_length, hτl]
  have hmem := perm_mem_lt τ _ hτ
  unfold Reject.djsReject
  simp only [reidx_length, hτl, hm, hsv, hmdll, ne_eq, not_true_eq_false, if_false, bind, Except.bind, pure, Except.pure,
    Except.map, Option.isSome_some]
  rw [djsRejectPix_pointwise sqrt { o with hasIn := true } _ hg rfl hs, djsRejectPix_pointwise sqrt { o with hasIn := true } _ hg rfl hs]
  have hpx : (List.range d.length).map (fun i => (⟨(reidx τ d 0).getD i 0, mdl.getD i 0, (reidx τ sv 0).getD i 0,
        (reidx τ m true).getD i true, (reidx τ m true).getD i true⟩ : Reject.Pix α))
      = τ.map (fun i => (⟨d.getD i 0, mdl.getD i 0, sv.getD i 0, m.getD i true, m.getD i true⟩ : Reject.Pix α)) := by
    rw [← range_map_comp τ d.length hτl]
    apply List.map_congr_left
    intro i hi
    have hi' : i < τ.length := by rw [hτl]; exact List.mem_range.1 hi
    rw [reidx_getD τ d 0 0 i hi', reidx_getD τ sv 0 0 i hi', reidx_getD τ m true true i hi']
    congr 1
    rw [← reidx_getD τ mdl 0 0 i hi', hmdl]
  rw [hpx]
  congr 2
  · rw [List.map_map, List.map_map]
    unfold reidx
    apply List.map_congr_left
    intro i hi
    have h := hmem i hi
    rw [getD_lt _ true i (by simpa using h)]
    simp only [List.getElem_map, List.getElem_range, Function.comp]
  · rw [List.all_map, List.all_map]
    exact hτ.all_eq

/-- `invwork * maskwork` commutes with re-indexing -/
theorem maskedWeights_equiv (τ : List ℕ) (iw : List α) (m : List Bool) (hi : ∀ i ∈ τ, i < iw.length)
    (hm : ∀ i ∈ τ, i < m.length) :
    maskedWeights (reidx τ iw 0) (reidx τ m true) = reidx τ (maskedWeights iw m) 0 := by
  unfold maskedWeights
  exact reidx_zipWith τ iw m _ 0 true 0 hi hm

/-- the loop state with its mask re-indexed -/
def stMap (τ : List ℕ) (s : St α) : St α := { s with maskwork := reidx τ s.maskwork true }

def outMap (τ : List ℕ) : Outcome α → Outcome α
  | .done s => .done (stMap τ s)
  | .failed b => .failed b

/-- what the loop needs from `fit` on the sorted points `xw`: it does not see the re-indexing of `(y, w)` by `τ`, and
the curve it returns is invariant under `τ` -/
structure FitEquiv (Kn : Kernels α) (τ : List ℕ) (xw yw : List α) : Prop where
  same : ∀ (b : BS α) (ws : List α), ws.length = xw.length →
    fit Kn b xw (reidx τ yw 0) (reidx τ ws 0) (List.range xw.length) = fit Kn b xw yw ws (List.range xw.length)
  inv : ∀ (b : BS α) (ws : List α) (out : FitOut α), fit Kn b xw yw ws (List.range xw.length) = .ok out →
    reidx τ out.yfit 0 = out.yfit

theorem maskedWeights_length (iw : List α) (m : List Bool) (h : m.length = iw.length) :
    (maskedWeights iw m).length = iw.length := by
  unfold maskedWeights
  rw [List.length_zipWith, h, Nat.min_self]

/-- **(d) one pass of the loop is equivariant** -/
theorem iterBody_equiv (Kn : Kernels α) (p : Params α) (τ : List ℕ) (xw yw iw : List α) (s : St α)
    (hτ : τ.Perm (List.range xw.length)) (hy : yw.length = xw.length) (hi : iw.length = xw.length)
    (hm : s.maskwork.length = xw.length) (hfit : FitEquiv Kn τ xw yw) :
    iterBody Kn p xw (reidx τ yw 0) (reidx τ iw 0) (stMap τ s) = (iterBody Kn p xw yw iw s).map (outMap τ) := by
  have hmem := perm_mem_lt τ _ hτ
  have hmperm : (reidx τ s.maskwork true).Perm s.maskwork := reidx_perm τ _ true (by rw [hm]; exact hτ)
  unfold iterBody
  simp only [stMap, countTrue_perm _ _ hmperm]
  by_cases hdeg : countTrue s.maskwork ≤ 1 ∨ (!(s.sset.mask.any id)) = true
  · rw [if_pos hdeg, if_pos hdeg]; rfl
  rw [if_neg hdeg, if_neg hdeg]
  rw [maskedWeights_equiv τ iw s.maskwork (by rw [hi]; exact hmem) (by rw [hm]; exact hmem),
    hfit.same s.sset _ (by rw [maskedWeights_length iw s.maskwork (by rw [hm, hi]), hi])]
  cases hf : fit Kn s.sset xw yw (maskedWeights iw s.maskwork) (List.range xw.length) with
  | error e => rfl
  | ok out =>
    simp only [bind, Except.bind, pure, Except.pure, Except.map]
    by_cases h2 : out.status = -2
    · simp only [h2, if_true]; rfl
    simp only [h2, if_false]
    by_cases h0 : out.status = 0
    · simp only [h0, if_true]
      have hd : τ.Perm (List.range yw.length) := by rw [hy]; exact hτ
      rw [djsReject_equiv Kn.sqrt (rejectOpts p) rfl rfl τ yw out.yfit iw s.maskwork hd (hfit.inv _ _ _ hf)
        (by rw [hm, hy]) (by rw [hi, hy])]
      cases Reject.djsReject Kn.sqrt (rejectOpts p) yw (some out.yfit) (some s.maskwork) (some s.maskwork) iw with
      | error e => rfl
      | ok r => rfl
    · simp only [h0, if_false]; rfl


theorem toArray_get! {β : Type} [Inhabited β] (l : List β) (p : ℕ) : l.toArray[p]! = l.getD p default := by
  simp

theorem getD_ge {β : Type} (l : List β) (d : β) (i : ℕ) (hi : l.length ≤ i) : l.getD i d = d := by
  rw [List.getD_eq_getElem?_getD, List.getElem?_eq_none hi]; rfl

/-- the accessors `normalSystem` hands to `assemble` -/
def arrAt (l : List α) (p : ℕ) : α := l.toArray[p]!
def rowsAt (rows : List (List α)) (p a : ℕ) : α := ((rows.map List.toArray).toArray[p]!)[a]!

theorem arrAt_eq (l : List α) (p : ℕ) : arrAt l p = l.getD p 0 := by
  unfold arrAt
  rw [toArray_get!]
  rfl

theorem rowsAt_eq (rows : List (List α)) (q a : ℕ) : rowsAt rows q a = (rows.getD q []).toArray[a]! := by
  have h : (rows.map List.toArray).toArray[q]! = (rows.getD q []).toArray := by
    rw [toArray_get!]
    by_cases hq : q < rows.length
    · rw [getD_lt _ _ q (by simpa using hq), getD_lt _ _ q hq, List.getElem_map]
    · rw [getD_ge _ _ q (by simpa using hq), getD_ge _ _ q (by omega)]
      rfl
  unfold rowsAt
  rw [h]

theorem normalSystem_eq (rows : List (List α)) (ys ws : List α) (lower upper : Array ℤ) (nx nord nn : ℕ) :
    normalSystem rows ys ws lower upper nx nord nn =
      (((List.range nord).map fun r => ((List.range (nn + nord)).map fun c =>
          (assemble (rowsAt rows) (arrAt ys) (arrAt ws) lower upper nx nord (nn - nord + 1)).1 (c * nord + r)).toArray).toArray,
       ((List.range (nn + nord)).map (assemble (rowsAt rows) (arrAt ys) (arrAt ws) lower upper nx nord (nn - nord + 1)).2).toArray) := rfl

/-- when `action` delivers rows (not the `(-2, 0, 0)` return, no exception) there are at least `2·nord` good breakpoints
and at least one point, and the result is the one of C08 `action_eq` -/
theorem action_some (b : BS α) (xw : List α) (rows : List (List α)) (lower upper : Array ℤ) (hk : 1 ≤ b.nord)
    (h : b.action xw = .ok (some (rows, lower, upper))) :
    2 * b.nord ≤ b.gb.size ∧ xw ≠ [] ∧
      rows = List.zipWith (fun x i => bsplvn1 (knotAt b.gb) b.nord x i) xw
          (intrvScan (knotAt b.gb) (b.gb.size - b.nord) xw (b.nord - 1)) ∧
      (lower, upper) = lowerUpper b.nord (b.gb.size - b.nord)
          (intrvScan (knotAt b.gb) (b.gb.size - b.nord) xw (b.nord - 1)).toArray := by
  by_cases hsize : 2 * b.nord ≤ b.gb.size
  · by_cases hne : xw = []
    · exfalso
      subst hne
      simp [BS.action, BS.intrv, BS.bsplvn, bind, Except.bind, pure, Except.pure, indexError,
        show ¬ b.gb.size < 2 * b.nord by omega] at h
    · rw [C08.action_eq b xw hk hsize hne] at h
      injection h with h
      injection h with h
      injection h with h1 h2
      exact ⟨hsize, hne, h1.symm, h2.symm⟩
  · exfalso
    simp [BS.action, bind, Except.bind, pure, Except.pure, show b.gb.size < 2 * b.nord by omega] at h

end generic
/-! ## (b) `fit` on sorted points does not see a re-indexing within ties (ordered field) -/
section field
variable {K : Type} [Field K] [LinearOrder K] [IsStrictOrderedRing K] [FloorRing K]

local notation "sumLK" => @sumL _ (fieldScalar _)
local notation "workAtK" => @workAt _ (fieldScalar _)
local notation "wbAtK" => @wbAt _ (fieldScalar _)
local notation "assembleK" => @assemble _ (fieldScalar _)
local notation "normalSystemK" => @normalSystem _ (fieldScalar _)
local notation "fitK" => @fit _ (fieldScalar _)
local notation "actionK" => @BS.action _ (fieldScalar _)
local notation "ZK" => (@OfNat.ofNat _ 0 (@Scalar.instOfNat _ (fieldScalar _) 0))

theorem sumL_reindex (τ : List ℕ) (n : ℕ) (hτ : τ.Perm (List.range n)) (f : ℕ → K) :
    sumLK ((List.range n).map (fun p => f (τ.getD p 0))) = sumLK ((List.range n).map f) := by
  rw [range_map_comp τ n (by rw [hτ.length_eq, List.length_range]) f, BSplineFitLemmas.sumL_eq, BSplineFitLemmas.sumL_eq]
  exact (hτ.map f).sum_eq

theorem sumL_reidx (τ : List ℕ) (ws : List K) (d : K) (hτ : τ.Perm (List.range ws.length)) :
    sumLK (reidx τ ws d) = sumLK ws := by
  rw [BSplineFitLemmas.sumL_eq, BSplineFitLemmas.sumL_eq]
  exact (reidx_perm τ ws d hτ).sum_eq

theorem workAt_equiv (τ : List ℕ) (n : ℕ) (hτ : τ.Perm (List.range n)) (a1 : ℕ → ℕ → K) (w w' : ℕ → K) (inK : ℕ → Bool)
    (hw : ∀ p, p < n → w' p = w (τ.getD p 0)) (ha : ∀ p, p < n → a1 (τ.getD p 0) = a1 p)
    (hin : ∀ p, p < n → inK (τ.getD p 0) = inK p) (bw i : ℕ) :
    workAtK a1 w' inK n bw i = workAtK a1 w inK n bw i := by
  unfold workAt
  conv_rhs => rw [← sumL_reindex τ n hτ]
  congr 1
  apply List.map_congr_left
  intro p hp
  have hp' := List.mem_range.1 hp
  simp only [hw p hp', ha p hp', hin p hp']

theorem wbAt_equiv (τ : List ℕ) (n : ℕ) (hτ : τ.Perm (List.range n)) (a1 : ℕ → ℕ → K) (y y' w w' : ℕ → K) (inK : ℕ → Bool)
    (hy : ∀ p, p < n → y' p = y (τ.getD p 0))
    (hw : ∀ p, p < n → w' p = w (τ.getD p 0)) (ha : ∀ p, p < n → a1 (τ.getD p 0) = a1 p)
    (hin : ∀ p, p < n → inK (τ.getD p 0) = inK p) (a : ℕ) :
    wbAtK a1 y' w' inK n a = wbAtK a1 y w inK n a := by
  unfold wbAt
  conv_rhs => rw [← sumL_reindex τ n hτ]
  congr 1
  apply List.map_congr_left
  intro p hp
  have hp' := List.mem_range.1 hp
  simp only [hw p hp', hy p hp', ha p hp', hin p hp']

/-- the banded normal equations do not change when `(y, w)` are re-indexed by a permutation of the points that leaves
the action row and the segment membership of every point unchanged -/
theorem assemble_equiv (τ : List ℕ) (n : ℕ) (hτ : τ.Perm (List.range n)) (a1 : ℕ → ℕ → K) (y y' w w' : ℕ → K)
    (lower upper : Array ℤ) (bw nseg : ℕ)
    (hy : ∀ p, p < n → y' p = y (τ.getD p 0))
    (hw : ∀ p, p < n → w' p = w (τ.getD p 0)) (ha : ∀ p, p < n → a1 (τ.getD p 0) = a1 p)
    (hin : ∀ k, k < nseg → ∀ p, p < n → rowIn lower upper k (τ.getD p 0) = rowIn lower upper k p) :
    assembleK a1 y' w' lower upper n bw nseg = assembleK a1 y w lower upper n bw nseg := by
  unfold assemble
  apply List.foldl_ext
  intro ab k hk
  have hk' := List.mem_range.1 hk
  have e1 : workAtK a1 w' (rowIn lower upper k) n bw = workAtK a1 w (rowIn lower upper k) n bw :=
    funext (workAt_equiv τ n hτ a1 w w' _ hw ha (hin k hk') bw)
  have e2 : wbAtK a1 y' w' (rowIn lower upper k) n = wbAtK a1 y w (rowIn lower upper k) n :=
    funext (wbAt_equiv τ n hτ a1 y y' w w' _ hy hw ha (hin k hk'))
  rw [e1, e2]

/-- the action rows and the segment slices `lower/upper` do not distinguish `p` from `τ p` -/
def RowInv (τ : List ℕ) (rows : List (List K)) (lower upper : Array ℤ) (nx m : ℕ) : Prop :=
  (∀ p, p < nx → rows.getD (τ.getD p 0) [] = rows.getD p []) ∧
  (∀ k, k < m → ∀ p, p < nx → rowIn lower upper k (τ.getD p 0) = rowIn lower upper k p)


local notation "arrAtK" => @arrAt _ (fieldScalar _)
local notation "rowsAtK" => @rowsAt _ (fieldScalar _)

theorem normalSystem_equiv (τ : List ℕ) (rows : List (List K)) (ys ws : List K) (lower upper : Array ℤ) (nx nord nn m : ℕ)
    (hτ : τ.Perm (List.range nx)) (hri : RowInv τ rows lower upper nx m) (hm : nn - nord + 1 ≤ m) :
    normalSystemK rows (reidx τ ys ZK) (reidx τ ws ZK) lower upper nx nord nn = normalSystemK rows ys ws lower upper nx nord nn := by
  have hτl : τ.length = nx := by rw [hτ.length_eq, List.length_range]
  have hA := @arrAt_eq K (fieldScalar K)
  have hR := @rowsAt_eq K (fieldScalar K)
  rw [@normalSystem_eq K (fieldScalar K), @normalSystem_eq K (fieldScalar K)]
  rw [assemble_equiv τ nx hτ (rowsAtK rows) (arrAtK ys) (arrAtK (reidx τ ys ZK)) (arrAtK ws) (arrAtK (reidx τ ws ZK))
    lower upper nord (nn - nord + 1)]
  · intro p hp
    rw [hA, hA, reidx_getD τ ys _ _ p (by omega)]
  · intro p hp
    rw [hA, hA, reidx_getD τ ws _ _ p (by omega)]
  · intro p hp
    funext a
    rw [hR, hR, hri.1 p hp]
  · intro k hk p hp
    exact hri.2 k (by omega) p hp

local notation "gbK" => @BS.gb _ (fieldScalar _)
local notation "knotAtK" => @knotAt _ (fieldScalar _)
local notation "bsplvnK" => @bsplvn1 _ (fieldScalar _)
local notation "intrvOfK" => @intrvOf _ (fieldScalar _)
local notation "scanK" => @intrvScan _ (fieldScalar _)

theorem lowerUpper_size (k n : ℕ) (indx : Array ℕ) :
    (lowerUpper k n indx).1.size = n - k + 1 ∧ (lowerUpper k n indx).2.size = n - k + 1 := by
  unfold lowerUpper
  simp only []
  rw [C08.scatter_size, C08.scatter_size]
  simp

/-- a re-indexing that fixes the sorted abscissae moves points only within ties -/
theorem tie_getD (τ : List ℕ) (xw : List K) (hτ : τ.Perm (List.range xw.length)) (hx : reidx τ xw ZK = xw)
    (p : ℕ) (hp : p < xw.length) (d : K) : τ.getD p 0 < xw.length ∧ xw.getD (τ.getD p 0) d = xw.getD p d := by
  have hτl : τ.length = xw.length := by rw [hτ.length_eq, List.length_range]
  have h1 : τ.getD p 0 < xw.length := by
    rw [getD_lt τ 0 p (by omega)]
    exact perm_mem_lt τ _ hτ _ (List.getElem_mem _)
  refine ⟨h1, ?_⟩
  have h2 := reidx_getD τ xw ZK ZK p (by omega)
  rw [hx] at h2
  rw [getD_lt xw _ _ h1] at h2 ⊢
  rw [getD_lt xw _ _ hp] at h2 ⊢
  exact h2.symm

/-- on sorted points, what `action` returns does not distinguish tied points -/
theorem action_rowinv (b : BS K) (τ : List ℕ) (xw : List K) (rows : List (List K)) (lower upper : Array ℤ)
    (hk : 1 ≤ b.nord) (hτ : τ.Perm (List.range xw.length)) (hs : xw.Pairwise (· ≤ ·)) (hx : reidx τ xw ZK = xw)
    (h : actionK b xw = .ok (some (rows, lower, upper))) :
    RowInv τ rows lower upper xw.length ((gbK b).size - b.nord - b.nord + 1) ∧
      lower.size = (gbK b).size - b.nord - b.nord + 1 := by
  obtain ⟨hsize, hne, hrows, hlu⟩ := @action_some K (fieldScalar K) b xw rows lower upper hk h
  have hkn : b.nord ≤ (gbK b).size - b.nord := by omega
  rw [C08.intrv_pointwise (knotAtK (gbK b)) b.nord ((gbK b).size - b.nord) xw hs] at hrows
  rw [List.zipWith_map_right, List.zipWith_self] at hrows
  have hl : lower = C09.actLower (knotAtK (gbK b)) b.nord ((gbK b).size - b.nord) xw := by
    unfold C09.actLower; rw [← hlu]
  have hu : upper = C09.actUpper (knotAtK (gbK b)) b.nord ((gbK b).size - b.nord) xw := by
    unfold C09.actUpper; rw [← hlu]
  have hR := C09.rows_action (knotAtK (gbK b)) b.nord ((gbK b).size - b.nord) hk hkn xw hne hs
  rw [← hl, ← hu] at hR
  refine ⟨⟨fun p hp => ?_, fun k hk' p hp => ?_⟩, ?_⟩
  · obtain ⟨h1, h2⟩ := tie_getD τ xw hτ hx p hp 0
    rw [hrows, C09.getD_map_eq xw _ 0 [] _ h1, C09.getD_map_eq xw _ 0 [] _ hp, h2]
  · obtain ⟨h1, h2⟩ := tie_getD τ xw hτ hx p hp 0
    rw [Bool.eq_iff_iff, (hR _ h1).2 k hk', (hR p hp).2 k hk']
    unfold C09.segOf C09.ptAt
    rw [h2]
  · have := (lowerUpper_size b.nord ((gbK b).size - b.nord)
      (scanK (knotAtK (gbK b)) ((gbK b).size - b.nord) xw (b.nord - 1)).toArray).1
    rw [← hlu] at this
    exact this

/-- **(b) `fit` does not see a re-indexing of `(y, w)` within ties** of the sorted abscissae: same status, object,
`alpha`, `beta` and curve -/
theorem fit_same (Kn : Kernels K) (b : BS K) (τ : List ℕ) (xw yw ws : List K)
    (hτ : τ.Perm (List.range xw.length)) (hs : xw.Pairwise (· ≤ ·)) (hx : reidx τ xw ZK = xw)
    (hw : ws.length = xw.length) (perm : List ℕ) :
    fitK Kn b xw (reidx τ yw ZK) (reidx τ ws ZK) perm = fitK Kn b xw yw ws perm := by
  unfold fit
  simp only [bind, Except.bind, pure, Except.pure]
  split
  · rfl
  split
  · rfl
  rename_i hnn hnord
  cases hact : actionK b xw with
  | error e => rfl
  | ok act =>
    cases act with
    | none => rfl
    | some t =>
      obtain ⟨rows, lower, upper⟩ := t
      simp only []
      split
      · rfl
      rename_i hsz
      obtain ⟨hri, hlsz⟩ := action_rowinv b τ xw rows lower upper (by omega) hτ hs hx hact
      rw [normalSystem_equiv τ rows yw ws lower upper xw.length b.nord _ _ hτ hri (by omega),
        sumL_reidx τ ws _ (by rw [hw]; exact hτ)]

local notation "fillRowsK" => @fillRows _ (fieldScalar _)
local notation "yfitOfK" => @yfitOf _ (fieldScalar _)

theorem foldl_inv {β σ : Type} (P : σ → Prop) (Q : β → Prop) (f : σ → β → σ) (ks : List β)
    (hstep : ∀ y k, Q k → P y → P (f y k)) (hks : ∀ k ∈ ks, Q k) (y : σ) (hy : P y) : P (ks.foldl f y) := by
  induction ks generalizing y with
  | nil => exact hy
  | cons a l ih => exact ih (fun k hk => hks k (List.mem_cons_of_mem _ hk)) _ (hstep y a (hks a List.mem_cons_self) hy)

/-- a list over the points that takes equal values at `p` and `τ p` -/
def TieInv (τ : List ℕ) (nx : ℕ) (y : List K) : Prop :=
  y.length = nx ∧ ∀ p, p < nx → y.getD (τ.getD p 0) ZK = y.getD p ZK

theorem perm_getD_lt (τ : List ℕ) (n : ℕ) (hτ : τ.Perm (List.range n)) (p : ℕ) (hp : p < n) : τ.getD p 0 < n := by
  have hτl : τ.length = n := by rw [hτ.length_eq, List.length_range]
  rw [getD_lt τ 0 p (by omega)]
  exact perm_mem_lt τ _ hτ _ (List.getElem_mem _)

theorem tieInv_reidx (τ : List ℕ) (nx : ℕ) (y : List K) (hτ : τ.Perm (List.range nx)) (h : TieInv τ nx y) :
    reidx τ y ZK = y := by
  have hτl : τ.length = nx := by rw [hτ.length_eq, List.length_range]
  apply List.ext_getElem (by rw [reidx_length, hτl, h.1])
  intro i h1 h2
  have hi : i < nx := by rw [← h.1]; exact h2
  have := h.2 i hi
  rw [← getD_lt (reidx τ y ZK) ZK i h1, reidx_getD τ y ZK ZK i (by omega), this, getD_lt y _ i h2]

theorem fillRows_inv (τ : List ℕ) (rows : List (List K)) (c : ℕ → K) (lower upper : Array ℤ) (m nx : ℕ)
    (hτ : τ.Perm (List.range nx)) (hri : RowInv τ rows lower upper nx m) :
    TieInv τ nx (fillRowsK rows c lower upper m nx) := by
  unfold fillRows
  apply foldl_inv (TieInv τ nx) (fun k => k < m)
  · intro y k hk hy
    split
    · refine ⟨by rw [List.length_mapIdx]; exact hy.1, fun p hp => ?_⟩
      have hq := perm_getD_lt τ nx hτ p hp
      have hl := hy.1
      have hr := hri.1 p hp
      have hy2 := hy.2 p hp
      have hcb := hri.2 k hk p hp
      generalize τ.getD p 0 = q at hq hr hy2 hcb ⊢
      rw [getD_lt _ _ q (by rw [List.length_mapIdx]; omega), getD_lt _ _ p (by rw [List.length_mapIdx]; omega),
        List.getElem_mapIdx, List.getElem_mapIdx, hr]
      rw [getD_lt y _ q (by omega), getD_lt y _ p (by omega)] at hy2
      have hc : (lower[k]! ≤ (q : ℤ) ∧ (q : ℤ) ≤ upper[k]!) ↔ (lower[k]! ≤ (p : ℤ) ∧ (p : ℤ) ≤ upper[k]!) := by
        unfold rowIn at hcb
        rw [Bool.eq_iff_iff] at hcb
        simpa using hcb
      simp only [hc, hy2]
    · exact hy
  · intro k hk; exact List.mem_range.1 hk
  · refine ⟨by simp, fun p hp => ?_⟩
    have hq := perm_getD_lt τ nx hτ p hp
    generalize τ.getD p 0 = q at hq ⊢
    rw [getD_lt _ _ q (by rw [List.length_replicate]; exact hq),
      getD_lt _ _ p (by rw [List.length_replicate]; exact hp)]
    simp

theorem unsort_range {β : Type} (l : List β) : unsort (List.range l.length) l = l := by
  have hnd : ((List.range l.length).zip l).map Prod.fst = List.range l.length := List.map_fst_zip (by simp)
  obtain ⟨h1, h2, _⟩ := C08.foldl_set_spec ((List.range l.length).zip l) l (by rw [hnd]; exact List.nodup_range)
  unfold unsort
  apply List.ext_getElem h1
  intro i hi1 hi2
  have hmem : (i, l[i]) ∈ (List.range l.length).zip l := by
    rw [List.mem_iff_getElem]
    exact ⟨i, by simpa using hi2, by simp⟩
  have := h2 _ hmem hi2
  rw [List.getElem?_eq_getElem hi1] at this
  exact Option.some.inj this

theorem yfitOf_inv (τ : List ℕ) (b : BS K) (rows : List (List K)) (lower upper : Array ℤ) (nx : ℕ) (yf : List K)
    (hτ : τ.Perm (List.range nx)) (hri : RowInv τ rows lower upper nx ((gbK b).size - b.nord - b.nord + 1))
    (h : yfitOfK b rows lower upper nx (List.range nx) = .ok yf) : reidx τ yf ZK = yf := by
  unfold yfitOf at h
  simp only [] at h
  split at h
  · cases h
  · injection h with h
    have hinv := fillRows_inv τ rows (@C08.coeffAt K (fieldScalar K) b) lower upper _ nx hτ hri
    have hlen := hinv.1
    have hu := unsort_range (fillRowsK rows (@C08.coeffAt K (fieldScalar K) b) lower upper
      ((gbK b).size - b.nord - b.nord + 1) nx)
    rw [hlen] at hu
    have h' : fillRowsK rows (@C08.coeffAt K (fieldScalar K) b) lower upper ((gbK b).size - b.nord - b.nord + 1) nx = yf :=
      hu.symm.trans h
    rw [← h']
    exact tieInv_reidx τ nx _ hτ hinv

theorem replicate_inv (τ : List ℕ) (n : ℕ) (hτ : τ.Perm (List.range n)) (v : K) : reidx τ (List.replicate n v) ZK = List.replicate n v := by
  have hτl : τ.length = n := by rw [hτ.length_eq, List.length_range]
  apply List.ext_getElem (by rw [reidx_length, hτl, List.length_replicate])
  intro i h1 h2
  have hi : i < n := by simpa using h2
  have hq := perm_getD_lt τ n hτ i hi
  rw [← getD_lt (reidx τ _ ZK) ZK i h1, reidx_getD τ _ ZK ZK i (by omega)]
  generalize τ.getD i 0 = q at hq
  rw [getD_lt _ _ q (by simpa using hq)]
  simp

/-- **(b) the curve `fit` returns on sorted points takes equal values at tied points** -/
theorem fit_inv (Kn : Kernels K) (b : BS K) (τ : List ℕ) (xw ys ws : List K)
    (hτ : τ.Perm (List.range xw.length)) (hs : xw.Pairwise (· ≤ ·)) (hx : reidx τ xw ZK = xw) (out : FitOut K)
    (h : fitK Kn b xw ys ws (List.range xw.length) = .ok out) : reidx τ out.yfit ZK = out.yfit := by
  unfold fit at h
  simp only [bind, Except.bind, pure, Except.pure] at h
  split at h
  · injection h with h
    rw [← h]
    exact replicate_inv τ _ hτ _
  split at h
  · cases h
  rename_i hnn hnord
  cases hact : actionK b xw with
  | error e => rw [hact] at h; cases h
  | ok act =>
    rw [hact] at h
    cases act with
    | none => cases h
    | some t =>
      obtain ⟨rows, lower, upper⟩ := t
      simp only [] at h
      split at h
      · cases h
      obtain ⟨hri, _⟩ := action_rowinv b τ xw rows lower upper (by omega) hτ hs hx hact
      repeat' split at h
      all_goals first
        | (cases h; done)
        | skip
      · rename_i v hy
        injection h with h
        rw [← h]
        exact yfitOf_inv τ b rows lower upper _ v hτ hri hy
      · rename_i v hy
        injection h with h
        rw [← h]
        exact yfitOf_inv τ _ rows lower upper _ v hτ (by exact hri) hy

/-- (b) packaged for the loop -/
theorem fitEquiv_sorted (Kn : Kernels K) (τ : List ℕ) (xw yw : List K)
    (hτ : τ.Perm (List.range xw.length)) (hs : xw.Pairwise (· ≤ ·)) (hx : reidx τ xw ZK = xw) :
    @FitEquiv K (fieldScalar K) Kn τ xw yw :=
  @FitEquiv.mk K (fieldScalar K) Kn τ xw yw (fun b ws hw => fit_same Kn b τ xw yw ws hτ hs hx hw _)
    (fun b ws out h => fit_inv Kn b τ xw yw ws hτ hs hx out h)

/-- **(a) the abscissae of the good points are the same list**: both are sorted sublists of `xw` and permutations of each
other (hence `mkKnots` gives the same knots) -/
theorem goodx_eq (τ : List ℕ) (xw : List K) (m : List Bool) (hτ : τ.Perm (List.range xw.length))
    (hs : xw.Pairwise (· ≤ ·)) (hx : reidx τ xw ZK = xw) (hm : m.length = xw.length) :
    ((xw.zip (reidx τ m true)).filter (fun xm => xm.2)).map (fun xm => xm.1)
      = ((xw.zip m).filter (fun xm => xm.2)).map (fun xm => xm.1) := by
  have hmem := perm_mem_lt τ _ hτ
  have hτl : τ.length = xw.length := by rw [hτ.length_eq, List.length_range]
  have hz : xw.zip (reidx τ m true) = reidx τ (xw.zip m) (ZK, true) := by
    conv_lhs => rw [← hx]
    exact reidx_zipWith τ xw m Prod.mk ZK true (ZK, true) hmem (by rw [hm]; exact hmem)
  have hp : (xw.zip (reidx τ m true)).Perm (xw.zip m) := by
    rw [hz]
    exact reidx_perm τ _ _ (by rw [List.length_zip, hm, Nat.min_self]; exact hτ)
  have hsub : ∀ m' : List Bool, m'.length = xw.length →
      (((xw.zip m').filter (fun xm => xm.2)).map (fun xm => xm.1)).Pairwise (· ≤ ·) := by
    intro m' hm'
    have h1 : (((xw.zip m').filter (fun xm => xm.2)).map (fun xm => xm.1)).Sublist ((xw.zip m').map (fun xm => xm.1)) :=
      List.filter_sublist.map _
    have h2 : (xw.zip m').map (fun xm => xm.1) = xw := List.map_fst_zip (by omega)
    rw [h2] at h1
    exact hs.sublist h1
  exact List.Perm.eq_of_pairwise (le := (· ≤ ·)) (fun a b _ _ hab hba => le_antisymm hab hba)
    (hsub _ (by rw [reidx_length, hτl])) (hsub m hm) ((hp.filter _).map _)

end field

end PydlVerif.C10

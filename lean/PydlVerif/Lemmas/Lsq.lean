/-
Weighted least squares over an ordered field: a solution of the normal
equations minimises the weighted sum of squared residuals.  Shared by the
C09, C10, C11, C13 and C15 property files.
-/
import Mathlib.Algebra.Order.Field.Basic
import Mathlib.Algebra.BigOperators.Group.Finset.Basic
import Mathlib.Algebra.Order.BigOperators.Ring.Finset
import Mathlib.Tactic.Ring
import Mathlib.Tactic.Linarith
open Finset
namespace PydlVerif.Lsq
variable {K : Type} [Field K] [LinearOrder K] [IsStrictOrderedRing K]
variable {m n : ℕ}

/-- weighted sum of squared residuals -/
def Q (A : Fin m → Fin n → K) (w y : Fin m → K) (c : Fin n → K) : K :=
  ∑ i, w i * (y i - ∑ j, A i j * c j) ^ 2

/-- normal equations: Aᵀ W (y - A c) = 0 -/
def Normal (A : Fin m → Fin n → K) (w y : Fin m → K) (c : Fin n → K) : Prop :=
  ∀ k, ∑ i, w i * A i k * (y i - ∑ j, A i j * c j) = 0

theorem Q_expand (A : Fin m → Fin n → K) (w y : Fin m → K) (c z : Fin n → K) :
    Q A w y z = Q A w y c + ∑ i, w i * (∑ j, A i j * (c j - z j)) ^ 2
      + 2 * ∑ k, (c k - z k) * ∑ i, w i * A i k * (y i - ∑ j, A i j * c j) := by
  unfold Q
  have hsplit : ∀ i, (y i - ∑ j, A i j * z j) =
      (y i - ∑ j, A i j * c j) + ∑ j, A i j * (c j - z j) := by
    intro i
    have : ∑ j, A i j * (c j - z j) = ∑ j, A i j * c j - ∑ j, A i j * z j := by
      rw [← Finset.sum_sub_distrib]; apply Finset.sum_congr rfl; intros; ring
    rw [this]; ring
  have hswap : ∑ k, (c k - z k) * ∑ i, w i * A i k * (y i - ∑ j, A i j * c j)
      = ∑ i, w i * (y i - ∑ j, A i j * c j) * ∑ k, A i k * (c k - z k) := by
    simp_rw [Finset.mul_sum]
    rw [Finset.sum_comm]
    apply Finset.sum_congr rfl; intro i _
    apply Finset.sum_congr rfl; intro k _; ring
  rw [hswap, Finset.mul_sum, ← Finset.sum_add_distrib, ← Finset.sum_add_distrib]
  apply Finset.sum_congr rfl; intro i _
  rw [hsplit i]; ring

/-- a solution of the normal equations is a global minimiser of Q (weights ≥ 0) -/
theorem lsq_optimum (A : Fin m → Fin n → K) (w y : Fin m → K) (c z : Fin n → K)
    (hw : ∀ i, 0 ≤ w i) (hN : Normal A w y c) : Q A w y c ≤ Q A w y z := by
  rw [Q_expand A w y c z]
  have h2 : ∑ k, (c k - z k) * ∑ i, w i * A i k * (y i - ∑ j, A i j * c j) = 0 := by
    apply Finset.sum_eq_zero; intro k _; rw [hN k]; ring
  have h1 : 0 ≤ ∑ i, w i * (∑ j, A i j * (c j - z j)) ^ 2 :=
    Finset.sum_nonneg (fun i _ => mul_nonneg (hw i) (sq_nonneg _))
  rw [h2]; linarith

/-- the normal equations do not see `y` at zero-weight points -/
theorem normal_zero_weight (A : Fin m → Fin n → K) (w y y' : Fin m → K) (c : Fin n → K)
    (h : ∀ i, w i ≠ 0 → y i = y' i) (hN : Normal A w y c) : Normal A w y' c := by
  intro k
  rw [← hN k]
  apply Finset.sum_congr rfl
  intro i _
  by_cases hw : w i = 0
  · simp [hw]
  · rw [h i hw]

/-- the normal equations are linear in the data -/
theorem normal_linear (A : Fin m → Fin n → K) (w y y' : Fin m → K) (c c' : Fin n → K) (a b : K)
    (hN : Normal A w y c) (hN' : Normal A w y' c') :
    Normal A w (fun i => a * y i + b * y' i) (fun j => a * c j + b * c' j) := by
  intro k
  have e : ∀ i, w i * A i k * ((a * y i + b * y' i) - ∑ j, A i j * (a * c j + b * c' j))
      = a * (w i * A i k * (y i - ∑ j, A i j * c j)) + b * (w i * A i k * (y' i - ∑ j, A i j * c' j)) := by
    intro i
    have : ∑ j, A i j * (a * c j + b * c' j) = a * ∑ j, A i j * c j + b * ∑ j, A i j * c' j := by
      rw [Finset.mul_sum, Finset.mul_sum, ← Finset.sum_add_distrib]
      apply Finset.sum_congr rfl; intros; ring
    rw [this]; ring
  simp_rw [e]
  rw [Finset.sum_add_distrib, ← Finset.mul_sum, ← Finset.mul_sum, hN k, hN' k]; ring

/-- exact data `y = A c₀` satisfy the normal equations at `c₀` -/
theorem normal_exact (A : Fin m → Fin n → K) (w : Fin m → K) (c0 : Fin n → K) :
    Normal A w (fun i => ∑ j, A i j * c0 j) c0 := by
  intro k; simp

/-- if AᵀWA is positive definite (Q of a non-zero direction is positive) the minimiser is unique -/
theorem lsq_unique (A : Fin m → Fin n → K) (w y : Fin m → K) (c c' : Fin n → K)
    (hpd : ∀ d : Fin n → K, (∑ i, w i * (∑ j, A i j * d j) ^ 2 = 0) → d = 0)
    (hN : Normal A w y c) (hN' : Normal A w y c') : c = c' := by
  have e := Q_expand A w y c c'
  have e' := Q_expand A w y c' c
  have h2 : ∑ k, (c k - c' k) * ∑ i, w i * A i k * (y i - ∑ j, A i j * c j) = 0 := by
    apply Finset.sum_eq_zero; intro k _; rw [hN k]; ring
  have h2' : ∑ k, (c' k - c k) * ∑ i, w i * A i k * (y i - ∑ j, A i j * c' j) = 0 := by
    apply Finset.sum_eq_zero; intro k _; rw [hN' k]; ring
  rw [h2] at e; rw [h2'] at e'
  have hs : ∑ i, w i * (∑ j, A i j * (c j - c' j)) ^ 2 = ∑ i, w i * (∑ j, A i j * (c' j - c j)) ^ 2 := by
    apply Finset.sum_congr rfl; intro i _
    have : ∑ j, A i j * (c' j - c j) = - ∑ j, A i j * (c j - c' j) := by
      rw [← Finset.sum_neg_distrib]; apply Finset.sum_congr rfl; intros; ring
    rw [this]; ring
  have hz : ∑ i, w i * (∑ j, A i j * (c j - c' j)) ^ 2 = 0 := by
    have : (2 : K) * ∑ i, w i * (∑ j, A i j * (c j - c' j)) ^ 2 = 0 := by
      rw [hs] at e; linarith
    have h2ne : (2 : K) ≠ 0 := two_ne_zero
    exact (mul_eq_zero.mp this).resolve_left h2ne
  have := hpd (fun j => c j - c' j) hz
  funext j
  have hj := congrFun this j
  simp only [Pi.zero_apply] at hj
  exact sub_eq_zero.mp hj

end PydlVerif.Lsq

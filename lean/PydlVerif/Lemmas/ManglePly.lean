/-
Helper lemmas and core theorems about the `.ply` reader model (`PydlVerif.Model.ManglePly`).  Core Lean only.
The property theorems of C12 that use them are restated in `Props/C12.lean`.
-/
import PydlVerif.Model.ManglePly
namespace PydlVerif.ManglePly

variable {α : Type}

/-! ### conversions on canonical tokens -/

theorem floats_fmt (parseF : List Char → Option α) (fmtF : α → List Char) (hF : ∀ x, parseF (fmtF x) = some x)
    (l : List α) : floats parseF (l.map fmtF) = .ok l := by
  induction l with
  | nil => rfl
  | cons a t ih => simp only [List.map_cons, floats, hF, ih]

theorem capRow_lexCap (parseF : List Char → Option α) (fmtF : α → List Char) (hF : ∀ x, parseF (fmtF x) = some x)
    (c : Cap4 α) : capRow parseF (lexCap fmtF c) = .ok ([c.x, c.y, c.z], c.cm) := by
  have h := floats_fmt parseF fmtF hF [c.x, c.y, c.z, c.cm]
  simp only [List.map_cons, List.map_nil] at h
  simp [capRow, lexCap, h]

def rowOf (c : Cap4 α) : List α × α := ([c.x, c.y, c.z], c.cm)

theorem capRows_lexCap (parseF : List Char → Option α) (fmtF : α → List Char) (hF : ∀ x, parseF (fmtF x) = some x)
    (rows : List (Cap4 α)) : capRows parseF (rows.map (lexCap fmtF)) = .ok (rows.map rowOf) := by
  induction rows with
  | nil => rfl
  | cons c t ih => simp only [List.map_cons, capRows, capRow_lexCap parseF fmtF hF, ih, rowOf]

theorem xShape_rows (c : Cap4 α) (rows : List (Cap4 α)) :
    xShape (((c :: rows).map rowOf).map (·.1)) = some [(c :: rows).length, 3] := by
  simp [xShape, rowOf]

theorem toCaps_rows (rows : List (Cap4 α)) : toCaps (rows.map rowOf) = some rows := by
  induction rows with
  | nil => rfl
  | cons c t ih => simp [toCaps, toCap, rowOf, ih]

theorem toCaps_length {rows : List (List α × α)} {cs : List (Cap4 α)} (h : toCaps rows = some cs) :
    cs.length = rows.length := by
  induction rows generalizing cs with
  | nil => simp [toCaps] at h; subst h; rfl
  | cons r t ih =>
    simp only [toCaps] at h
    split at h
    · rename_i c cs' _ h2
      simp at h; subst h
      simp [ih h2]
    · simp at h

theorem capRows_length (parseF : List Char → Option α) {ls : List LexLine} {rows : List (List α × α)}
    (h : capRows parseF ls = .ok rows) : rows.length = ls.length := by
  induction ls generalizing rows with
  | nil => simp [capRows] at h; subst h; rfl
  | cons l t ih =>
    simp only [capRows] at h
    split at h
    · simp at h
    · split at h
      · rename_i h2
        simp at h; subst h
        simp [ih h2]
      · simp at h

theorem xShape_length {β : Type} {xs : List (List β)} {n m : Nat} (h : xShape xs = some [n, m]) : xs.length = n := by
  cases xs with
  | nil => simp [xShape] at h
  | cons r rs =>
    simp only [xShape] at h
    split at h
    · simp at h ⊢; omega
    · simp at h

theorem pySlice_length_le {β : Type} (l : List β) (a : Nat) (b : Int) : (pySlice l a b).length ≤ l.length - a := by
  simp only [pySlice, List.length_drop, List.length_take]
  omega

theorem pySlice_block {β : Type} (pre : List β) (h : β) (mid post : List β) :
    pySlice (pre ++ h :: (mid ++ post)) (pre.length + 1) (Int.ofNat (pre.length + 1) + Int.ofNat mid.length) = mid := by
  have e : pre ++ h :: (mid ++ post) = ((pre ++ [h]) ++ mid) ++ post := by simp
  have hs : (if Int.ofNat (pre.length + 1) + Int.ofNat mid.length < 0
      then (Int.ofNat (pre ++ h :: (mid ++ post)).length + (Int.ofNat (pre.length + 1) + Int.ofNat mid.length)).toNat
      else (Int.ofNat (pre.length + 1) + Int.ofNat mid.length).toNat) = ((pre ++ [h]) ++ mid).length := by
    have : ¬ (Int.ofNat (pre.length + 1) + Int.ofNat mid.length < 0) := by
      simp only [Int.ofNat_eq_natCast]; omega
    rw [if_neg this]
    simp only [Int.ofNat_eq_natCast, List.length_append, List.length_cons, List.length_nil]
    omega
  unfold pySlice
  simp only [hs]
  rw [e, List.take_left' rfl, List.drop_left' (by simp)]

/-! ### one block -/

section block
variable (parseF : List Char → Option α) (one : α) (fmtF : α → List Char) (fmtI : Int → List Char)

/-- the canonical numbers of one polygon are read back by Python's `int` -/
def IntsOk (P : PlyPoly α) : Prop :=
  pyNat (fmtI (Int.ofNat P.id)) = some P.id ∧ pyInt (fmtI (Int.ofNat P.rows.length)) = some (Int.ofNat P.rows.length) ∧
  pyInt (fmtI P.pixel) = some P.pixel

theorem parseBlock_canon (hF : ∀ x, parseF (fmtF x) = some x) (P : PlyPoly α) (hI : IntsOk fmtI P) (hne : P.rows ≠ [])
    (pre post : List LexLine) :
    parseBlock parseF one (pre ++ (lexBlock fmtF fmtI P ++ post)) pre.length = .ok P := by
  obtain ⟨h1, h2, h3⟩ := hI
  have hd : (pre ++ (lexBlock fmtF fmtI P ++ post)).drop pre.length = lexBlock fmtF fmtI P ++ post := List.drop_left
  have hsl := pySlice_block pre (lexHeader fmtF fmtI P) (P.rows.map (lexCap fmtF)) post
  rw [List.length_map] at hsl
  obtain ⟨pid, w, px, s, rows⟩ := P
  cases rows with
  | nil => exact absurd rfl hne
  | cons c rows =>
    unfold parseBlock
    rw [hd]
    simp only [lexBlock, List.cons_append]
    cases s with
    | none =>
      simp only [lexHeader, List.append_nil, metaPieces, metaPiece, setMetas, setMeta, kCaps, kWeight, kPixel, kStr]
      simp (decide := true) only [if_true, if_false, reduceIte, reduceCtorEq, List.cons.injEq, Char.reduceEq, false_and,
        and_false, and_true, true_and]
      simp only [] at h1 h2 h3
      simp only [h2, hF, h3]
      simp only [lexHeader, List.append_nil, List.cons_append, List.nil_append, kCaps, kWeight, kPixel, kStr] at hsl
      rw [hsl, capRows_lexCap parseF fmtF hF]
      simp only [xShape_rows, toCaps_rows]
      have hn : ¬ ((rows.length : Int) + 1 < 0) := by omega
      simp only [Int.ofNat_eq_natCast] at h1
      simp [h1, hn]
    | some s =>
      simp only [lexHeader, metaPieces, metaPiece, setMetas, setMeta, kCaps, kWeight, kPixel, kStr, List.cons_append,
        List.nil_append]
      simp (decide := true) only [if_true, if_false, reduceIte, reduceCtorEq, List.cons.injEq, Char.reduceEq, false_and,
        and_false, and_true, true_and]
      simp only [] at h1 h2 h3
      simp only [h2, hF, h3]
      simp only [lexHeader, List.append_nil, List.cons_append, List.nil_append, kCaps, kWeight, kPixel, kStr] at hsl
      rw [hsl, capRows_lexCap parseF fmtF hF]
      simp only [xShape_rows, toCaps_rows]
      have hn : ¬ ((rows.length : Int) + 1 < 0) := by omega
      simp only [Int.ofNat_eq_natCast] at h1
      simp [h1, hn]

end block

/-! ### the whole file -/

section file
variable (parseF : List Char → Option α) (one : α) (fmtF : α → List Char) (fmtI : Int → List Char)

/-- line numbers of the polygon headers of a canonical file whose first block starts at line `k` -/
def offsets : Nat → List (PlyPoly α) → List Nat
  | _, [] => []
  | k, P :: r => k :: offsets (k + 1 + P.rows.length) r

theorem pLinesFrom_caps (k : Nat) (rows : List (Cap4 α)) (rest : List LexLine) :
    pLinesFrom k (rows.map (lexCap fmtF) ++ rest) = pLinesFrom (k + rows.length) rest := by
  induction rows generalizing k with
  | nil => rfl
  | cons c t ih =>
    simp only [List.map_cons, List.cons_append, pLinesFrom, lexCap, List.length_cons]
    rw [if_neg (by simp), ih]
    congr 1; omega

theorem pLinesFrom_blocks (k : Nat) (polys : List (PlyPoly α)) :
    pLinesFrom k (polys.flatMap (lexBlock fmtF fmtI)) = offsets k polys := by
  induction polys generalizing k with
  | nil => rfl
  | cons P r ih =>
    simp only [List.flatMap_cons, lexBlock, List.cons_append, pLinesFrom, lexHeader, offsets]
    rw [if_pos trivial, pLinesFrom_caps, ih]

theorem pLinesFrom_pre (k : Nat) (pre rest : List LexLine) (h : ∀ l ∈ pre, l.starts = false) :
    pLinesFrom k (pre ++ rest) = pLinesFrom (k + pre.length) rest := by
  induction pre generalizing k with
  | nil => rfl
  | cons l t ih =>
    simp only [List.cons_append, pLinesFrom, List.length_cons]
    rw [if_neg (by simp [h l (List.mem_cons_self ..)]), ih (k + 1) (fun l hl => h l (List.mem_cons_of_mem _ hl))]
    congr 1; omega

theorem blocks_canon (hF : ∀ x, parseF (fmtF x) = some x) (polys : List (PlyPoly α))
    (hI : ∀ P ∈ polys, IntsOk fmtI P) (hne : ∀ P ∈ polys, P.rows ≠ []) (pre : List LexLine) :
    blocks parseF one (pre ++ polys.flatMap (lexBlock fmtF fmtI)) (offsets pre.length polys) = .ok polys := by
  induction polys generalizing pre with
  | nil => rfl
  | cons P r ih =>
    simp only [List.flatMap_cons, offsets, blocks]
    rw [parseBlock_canon parseF one fmtF fmtI hF P (hI P (List.mem_cons_self ..)) (hne P (List.mem_cons_self ..))]
    have hlen : pre.length + 1 + P.rows.length = (pre ++ lexBlock fmtF fmtI P).length := by
      simp [lexBlock]; omega
    have happ : pre ++ (lexBlock fmtF fmtI P ++ r.flatMap (lexBlock fmtF fmtI)) =
        (pre ++ lexBlock fmtF fmtI P) ++ r.flatMap (lexBlock fmtF fmtI) := by simp
    simp only []
    rw [hlen, happ, ih (fun Q hQ => hI Q (List.mem_cons_of_mem _ hQ)) (fun Q hQ => hne Q (List.mem_cons_of_mem _ hQ))]

theorem parseLex_ok (l0 : LexLine) (rest : List LexLine) (t : List Char) (ts : List (List Char)) (n : Int)
    (p0 : Nat) (ps : List Nat) (polys : List (PlyPoly α))
    (hraw : l0.raw.isEmpty = false) (ht : l0.toks = t :: ts) (hint : pyInt t = some n)
    (hpl : pLinesFrom 0 (l0 :: rest) = p0 :: ps) (hb : blocks parseF one (l0 :: rest) (p0 :: ps) = .ok polys) :
    parseLex parseF one (l0 :: rest) = .ok ((((l0 :: rest).take p0).drop 1).map (·.raw), polys) := by
  simp [parseLex, hraw, ht, hint, hpl, hb]

theorem map_raw_lexKw (kw : List (List Char)) : (kw.map lexKw).map (·.raw) = kw := by
  induction kw with
  | nil => rfl
  | cons a t ih => simp [lexKw] at ih ⊢; exact ih

/-- ROUND TRIP on the lexed form: the reader gives back exactly the keyword lines and the polygon list -/
theorem parseLex_canon (hF : ∀ x, parseF (fmtF x) = some x) (kw : List (List Char)) (polys : List (PlyPoly α))
    (hI : ∀ P ∈ polys, IntsOk fmtI P) (hne : ∀ P ∈ polys, P.rows ≠ []) (hp : polys ≠ [])
    (h0 : (pyInt (fmtI (Int.ofNat polys.length))).isSome) :
    parseLex parseF one (canonLex fmtF fmtI kw polys) = .ok (kw, polys) := by
  have hpl : pLinesFrom 0 (canonLex fmtF fmtI kw polys) = offsets (1 + kw.length) polys := by
    have := pLinesFrom_pre 0 (lexFirst fmtI polys.length :: kw.map lexKw) (polys.flatMap (lexBlock fmtF fmtI))
      (by intro l hl
          rcases List.mem_cons.1 hl with rfl | hl
          · rfl
          · obtain ⟨x, _, rfl⟩ := List.mem_map.1 hl; rfl)
    simp only [canonLex, List.cons_append] at this ⊢
    rw [this, pLinesFrom_blocks]
    congr 1; simp; omega
  obtain ⟨n0, hn0⟩ := Option.isSome_iff_exists.1 h0
  have hb := blocks_canon parseF one fmtF fmtI hF polys hI hne (lexFirst fmtI polys.length :: kw.map lexKw)
  have hlen : (lexFirst fmtI polys.length :: kw.map lexKw).length = 1 + kw.length := by simp; omega
  rw [hlen] at hb
  cases hpo : polys with
  | nil => exact absurd hpo hp
  | cons P r =>
    rw [hpo] at hpl hb hn0
    simp only [offsets] at hpl hb
    simp only [canonLex, List.cons_append] at hpl hb ⊢
    rw [parseLex_ok parseF one _ _ (fmtI (Int.ofNat (P :: r).length)) [kPolygons] n0 _ _ (P :: r)
      (by simp [lexFirst, sp]) rfl hn0 hpl hb]
    congr 1
    rw [Nat.add_comm, List.take_succ_cons, List.take_left' (by simp)]
    simp only [List.drop_succ_cons, List.drop_zero]
    exact congrArg (fun x => (x, P :: r)) (map_raw_lexKw kw) |> fun h => by simpa using congrArg Prod.fst h

/-! ### refusals -/

/-- a first line whose first word is not a Python integer literal: `PydlutilsException` -/
theorem parseLex_bad_first (l0 : LexLine) (rest : List LexLine) (t : List Char) (ts : List (List Char))
    (hraw : l0.raw.isEmpty = false) (ht : l0.toks = t :: ts) (hint : pyInt t = none) :
    parseLex parseF one (l0 :: rest) = .error "PydlutilsException" := by
  simp [parseLex, hraw, ht, hint]

/-- no line at all, or an empty first line: `IndexError` -/
theorem parseLex_no_first (l0 : LexLine) (rest : List LexLine) (hraw : l0.raw.isEmpty = true) :
    parseLex parseF one ([] : List LexLine) = .error "IndexError" ∧
    parseLex parseF one (l0 :: rest) = .error "IndexError" := by
  simp [parseLex, hraw]

/-- the number `caps` announced by the header at line `p` (the header scan and the `mtypes` conversions succeed) -/
def announced (lines : List LexLine) (p : Nat) : Option Int :=
  match lines.drop p with
  | [] => none
  | h :: _ => match h.hdr with
    | none => none
    | some (_, pieces) => match metaPieces pieces with
      | .error _ => none
      | .ok kvs => match setMetas parseF {} kvs with
        | .error _ => none
        | .ok md => md.caps

/-- whatever `parseBlock` accepts has exactly as many caps as the header announces, each cap a line that is present in
the file after the header (count mismatch = refusal) -/
theorem parseBlock_count (lines : List LexLine) (p : Nat) (P : PlyPoly α)
    (h : parseBlock parseF one lines p = .ok P) :
    announced parseF lines p = some (Int.ofNat P.rows.length) ∧ p + 1 + P.rows.length ≤ lines.length ∧ 1 ≤ P.rows.length := by
  unfold parseBlock at h
  unfold announced
  split at h
  · simp at h
  · rename_i hh tl hdrop
    rw [hdrop]
    split at h
    · simp at h
    · rename_i ds pieces hhdr
      simp only [hhdr]
      split at h
      · simp at h
      · rename_i kvs hkv
        simp only [hkv]
        split at h
        · simp at h
        · rename_i md hmd
          simp only [hmd]
          split at h
          · simp at h
          · rename_i caps hcaps
            split at h
            · simp at h
            · rename_i rows hrows
              split at h
              · simp at h
              · rename_i sh hsh
                split at h
                · simp at h
                · rename_i hcond
                  split at h
                  · simp at h
                  · rename_i cs hcs
                    simp at h
                    subst h
                    simp only []
                    have hc0 : ¬ caps < 0 := fun hc => hcond (Or.inl hc)
                    have hshape : sh = [caps.toNat, 3] := by
                      by_cases hs : sh = [caps.toNat, 3]
                      · exact hs
                      · exact absurd (Or.inr hs) hcond
                    subst hshape
                    have l1 := toCaps_length hcs
                    have l2 := capRows_length parseF hrows
                    have l3 := xShape_length hsh
                    have l4 := pySlice_length_le lines (p + 1) (Int.ofNat (p + 1) + caps)
                    rw [List.length_map] at l3
                    have hrl : rows.length = caps.toNat := l3
                    have hpos : 1 ≤ rows.length := by
                      cases rows with
                      | nil => simp [xShape] at hsh
                      | cons a b => simp
                    refine ⟨?_, ?_, ?_⟩
                    · rw [hcaps, l1, hrl]; simp only [Int.ofNat_eq_natCast]; congr 1; omega
                    · rw [l1]; omega
                    · rw [l1]; exact hpos

end file

end PydlVerif.ManglePly

/-
C17 helper lemmas for the `maxrej` block of djs_reject (Model/Reject.lean, third extension round):
the loop `for ivec in range(max(dimnum))` never runs its body.
-/
import PydlVerif.Model.Reject
namespace PydlVerif.Reject
open PydlVerif

variable {α : Type} [Scalar α]
set_option linter.unusedSectionVars false

theorem foldl_max_replicate_zero (m : Nat) : (List.replicate m 0).foldl max 0 = 0 := by
  induction m with
  | zero => rfl
  | succ m ih => simpa [List.replicate_succ] using ih

/-- whenever `range(max(djs_laxisnum(shape, iaxis)))` is a range at all, it is empty -/
theorem laxisnum_rangeMax_zero (shape : List Nat) (i : Int) (dn : List Nat) (k : Nat)
    (h1 : laxisnum shape i = .ok dn) (h2 : rangeMax shape dn = .ok k) : k = 0 := by
  match shape, h1, h2 with
  | [], _, h2 => simp [rangeMax, throw, throwThe, MonadExceptOf.throw] at h2
  | [n], h1, h2 =>
    simp only [laxisnum, List.length_cons, List.length_nil, pure, Except.pure, Except.ok.injEq] at h1
    subst h1
    simp only [rangeMax] at h2
    split at h2
    · simp [throw, throwThe, MonadExceptOf.throw] at h2
    · simp only [pure, Except.pure, Except.ok.injEq] at h2
      rw [foldl_max_replicate_zero] at h2
      exact h2.symm
  | a :: b :: rest, _, h2 =>
    simp only [rangeMax] at h2
    split at h2
    · simp [throw, throwThe, MonadExceptOf.throw] at h2
    · split at h2
      · simp [throw, throwThe, MonadExceptOf.throw] at h2
      · split at h2 <;> simp [throw, throwThe, MonadExceptOf.throw] at h2

/-- the same for the `dimnum` of any turn of the `iloop` loop -/
theorem maxrejDimnum_range_zero (gd : List Int) (shape : List Nat) (iloop : Nat) (dd : List Nat × List Nat) (k : Nat)
    (h1 : maxrejDimnum gd shape iloop = .ok dd) (h2 : rangeMax dd.1 dd.2 = .ok k) : k = 0 := by
  unfold maxrejDimnum at h1
  split at h1
  · split at h1
    · simp [throw, throwThe, MonadExceptOf.throw] at h1
    · split at h1
      · rename_i dn hdn
        simp only [pure, Except.pure, Except.ok.injEq] at h1
        subst h1
        exact laxisnum_rangeMax_zero shape _ dn k hdn h2
      · simp [throw, throwThe, MonadExceptOf.throw] at h1
  · simp only [pure, Except.pure, Except.ok.injEq] at h1
    subst h1
    simp [rangeMax, pure, Except.pure] at h2
    exact h2.symm

/-- one turn of the loop either raises or returns the working array as it got it - whatever the loop body is -/
theorem maxrejStep_ok (body : Nat → List Nat → Nat → List α → Except String (List α)) (gd : List Int)
    (shape : List Nat) (b b' : List α) (iloop : Nat) (h : maxrejStep body gd shape b iloop = .ok b') : b' = b := by
  unfold maxrejStep at h
  split at h
  · cases h
  · rename_i dd hdd
    split at h
    · cases h
    · rename_i k hk
      have := maxrejDimnum_range_zero gd shape iloop dd k hdd hk
      subst this
      simp only [List.range_zero, List.foldlM_nil, pure, Except.pure, Except.ok.injEq] at h
      exact h.symm

theorem foldlM_maxrejStep_ok (body : Nat → List Nat → Nat → List α → Except String (List α)) (gd : List Int)
    (shape : List Nat) (l : List Nat) (b b' : List α)
    (h : l.foldlM (maxrejStep body gd shape) b = .ok b') : b' = b := by
  induction l generalizing b with
  | nil => simp only [List.foldlM_nil, pure, Except.pure, Except.ok.injEq] at h; exact h.symm
  | cons x xs ih =>
    simp only [List.foldlM_cons, bind, Except.bind] at h
    split at h
    · cases h
    · rename_i b1 hb1
      rw [ih b1 h]
      exact maxrejStep_ok body gd shape b b1 x hb1

/-- **the `maxrej` block never changes the working array**: for every loop body, every `groupdim`, every shape
it raises or returns `badness` unchanged -/
theorem maxrejBlock_ok (body : Nat → List Nat → Nat → List α → Except String (List α)) (gd : List Int)
    (shape : List Nat) (bad b' : List α) (h : maxrejBlock body gd shape bad = .ok b') : b' = bad :=
  foldlM_maxrejStep_ok body gd shape _ bad b' h

/-- a turn whose `dimnum` has an empty range returns the working array -/
theorem maxrejStep_of (body : Nat → List Nat → Nat → List α → Except String (List α)) (gd : List Int)
    (shape : List Nat) (b : List α) (iloop : Nat) (dd : List Nat × List Nat)
    (h1 : maxrejDimnum gd shape iloop = .ok dd) (h2 : rangeMax dd.1 dd.2 = .ok 0) :
    maxrejStep body gd shape b iloop = .ok b := by
  unfold maxrejStep
  rw [h1]
  simp only [h2, List.range_zero, List.foldlM_nil, pure, Except.pure]

theorem foldlM_maxrejStep_of (body : Nat → List Nat → Nat → List α → Except String (List α)) (gd : List Int)
    (shape : List Nat) (l : List Nat) (b : List α)
    (h : ∀ i ∈ l, ∀ b, maxrejStep body gd shape b i = .ok b) :
    l.foldlM (maxrejStep body gd shape) b = .ok b := by
  induction l with
  | nil => rfl
  | cons x xs ih =>
    simp only [List.foldlM_cons, bind, Except.bind, h x (List.mem_cons_self ..) b]
    exact ih (fun i hi => h i (List.mem_cons_of_mem _ hi))

/-- without `groupdim` the block is skipped (`dimnum = [0]`, `range(0)`) -/
theorem maxrejBlock_nogroupdim (body : Nat → List Nat → Nat → List α → Except String (List α))
    (shape : List Nat) (bad : List α) : maxrejBlock body [] shape bad = .ok bad := by
  unfold maxrejBlock
  apply foldlM_maxrejStep_of
  intro i _ b
  apply maxrejStep_of body [] shape b i ([1], [0])
  · simp [maxrejDimnum, pure, Except.pure]
  · simp [rangeMax, pure, Except.pure]

/-- 1-D data (not empty), every `groupdim` entry ≤ 1 (the only axis, or 0 / negative - `djs_laxisnum` does not look):
the block is skipped -/
theorem maxrejBlock_1d (body : Nat → List Nat → Nat → List α → Except String (List α)) (gd : List Int)
    (n : Nat) (hn : n ≠ 0) (hgd : ∀ g ∈ gd, g ≤ 1) (bad : List α) : maxrejBlock body gd [n] bad = .ok bad := by
  by_cases hg : gd = []
  · subst hg; exact maxrejBlock_nogroupdim body [n] bad
  unfold maxrejBlock
  apply foldlM_maxrejStep_of
  intro i hi b
  have hpos : 0 < gd.length := List.length_pos_iff.2 hg
  have hi' : i < gd.length := by
    have := List.mem_range.1 hi
    omega
  have hle : gd.getD i 0 ≤ 1 := by
    have : gd.getD i 0 = gd[i] := by simp [List.getD_eq_getElem?_getD, List.getElem?_eq_getElem hi']
    rw [this]
    exact hgd _ (List.getElem_mem hi')
  apply maxrejStep_of body gd [n] b i ([n], List.replicate (1 * n) 0)
  · unfold maxrejDimnum
    have h1 : ¬ gd.getD i 0 > (([n] : List Nat).length : Int) := by
      simp only [List.length_cons, List.length_nil]; omega
    simp only [hpos, gt_iff_lt, if_true]
    rw [if_neg (by simpa using h1)]
    simp [laxisnum, pure, Except.pure]
  · simp only [rangeMax, hn, if_false, pure, Except.pure, foldl_max_replicate_zero]

/-- data with two or more dimensions and a `groupdim`: the first turn of the loop already raises -/
theorem maxrejBlock_nd_raises (body : Nat → List Nat → Nat → List α → Except String (List α)) (gd : List Int)
    (shape : List Nat) (hs : 2 ≤ shape.length) (hg : gd ≠ []) (bad : List α) :
    ∃ e, maxrejBlock body gd shape bad = .error e := by
  cases h : maxrejBlock body gd shape bad with
  | error e => exact ⟨e, rfl⟩
  | ok b' =>
    exfalso
    -- the first turn succeeded, so its range exists - impossible for N-D data
    unfold maxrejBlock at h
    have hpos : 0 < gd.length := List.length_pos_iff.2 hg
    obtain ⟨m, hm⟩ : ∃ m, max gd.length 1 = m + 1 := ⟨max gd.length 1 - 1, by omega⟩
    rw [hm, List.range_succ_eq_map] at h
    simp only [List.foldlM_cons, bind, Except.bind] at h
    split at h
    · cases h
    · rename_i b1 hb1
      unfold maxrejStep at hb1
      split at hb1
      · cases hb1
      · rename_i dd hdd
        split at hb1
        · cases hb1
        · rename_i k hk
          unfold maxrejDimnum at hdd
          simp only [hpos, gt_iff_lt, if_true] at hdd
          split at hdd
          · simp [throw, throwThe, MonadExceptOf.throw] at hdd
          · split at hdd
            · simp only [pure, Except.pure, Except.ok.injEq] at hdd
              subst hdd
              match shape, hs with
              | a :: b :: rest, _ =>
                simp only [rangeMax] at hk
                split at hk
                · simp [throw, throwThe, MonadExceptOf.throw] at hk
                · split at hk
                  · simp [throw, throwThe, MonadExceptOf.throw] at hk
                  · split at hk <;> simp [throw, throwThe, MonadExceptOf.throw] at hk
            · simp [throw, throwThe, MonadExceptOf.throw] at hdd

/-- the bad-pixel groups the code computes: `-1*np.diff(bool array)` is `-1` or `0`, never `1` - no group ever starts -/
theorem groupsLower_nil (bad : List α) : groupsLower bad = [] := by
  unfold groupsLower
  simp only
  apply List.filter_eq_nil_iff.2
  intro i _
  split <;> decide

end PydlVerif.Reject

/-
Helper lemmas for C17, second extension round: the 2-D median filter of pydl/median.py
(`medianFilt2`) and the 2-D reflecting `djs_median` (`djsMedianReflect2`).
-/
import PydlVerif.Model.Interp
import PydlVerif.Lemmas.ScalarField
import Mathlib.Tactic.Linarith
import Mathlib.Tactic.Ring

namespace PydlVerif.Interp
open PydlVerif

/-- source index of position `j` (counted from the first array element, may be negative or
`≥ n`) of the symmetric reflection `d c b a | a b c d | d c b a` of an axis of length `n` -/
def reflIdx (n : Nat) (j : Int) : Nat :=
  if j < 0 then (-1 - j).toNat else if j ≥ n then (2 * (n : Int) - 1 - j).toNat else j.toNat

theorem reflIdx_lt (n : Nat) (j : Int) (h1 : -(n : Int) ≤ j) (h2 : j < 2 * (n : Int)) (hn : 0 < n) :
    reflIdx n j < n := by
  unfold reflIdx
  split
  · omega
  · split <;> omega

theorem flat_div (i j b1 : Nat) (hj : j < b1) : (i * b1 + j) / b1 = i := by
  rw [Nat.add_comm, Nat.add_mul_div_right _ _ (by omega), Nat.div_eq_of_lt hj, Nat.zero_add]

theorem flat_mod (i j b1 : Nat) (hj : j < b1) : (i * b1 + j) % b1 = j := by
  rw [Nat.add_comm, Nat.add_mul_mod_self_right, Nat.mod_eq_of_lt hj]

theorem flat_lt (i j b0 b1 : Nat) (hi : i < b0) (hj : j < b1) : i * b1 + j < b0 * b1 := by
  have : (i + 1) * b1 ≤ b0 * b1 := Nat.mul_le_mul_right _ hi
  rw [Nat.add_mul, Nat.one_mul] at this
  omega

/-- element `(R, C)` of an outer product laid out row by row -/
theorem flatMap_map_get {β γ δ : Type} (l2 : List γ) (f : β → γ → δ) :
    ∀ (l1 : List β) (R C : Nat) (hR : R < l1.length) (hC : C < l2.length),
      (l1.flatMap fun r => l2.map (f r))[R * l2.length + C]? = some (f l1[R] l2[C]) := by
  intro l1
  induction l1 with
  | nil => intro R C hR; simp at hR
  | cons x l1 ih =>
    intro R C hR hC
    rw [List.flatMap_cons]
    cases R with
    | zero =>
      rw [List.getElem?_append_left (by simp; omega)]
      simp [hC]
    | succ R =>
      rw [List.getElem?_append_right (by simp [Nat.add_mul]; omega)]
      have e : (R + 1) * l2.length + C - (l2.map (f x)).length = R * l2.length + C := by
        simp [Nat.add_mul]; omega
      rw [e, ih R C (by simpa using hR) hC]
      simp

theorem flatMap_map_length {β γ δ : Type} (l2 : List γ) (f : β → γ → δ) (l1 : List β) :
    (l1.flatMap fun r => l2.map (f r)).length = l1.length * l2.length := by
  induction l1 with
  | nil => simp
  | cons x l1 ih => rw [List.flatMap_cons, List.length_append, ih]; simp [Nat.add_mul]; omega


theorem padIdx_length (n pad : Nat) (h : pad ≤ n) : (padIdx n pad).length = n + 2 * pad := by
  unfold padIdx
  rw [if_neg (by omega)]
  simp
  omega

theorem padIdx_get (n pad m : Nat) (h : pad ≤ n) (hm : m < n + 2 * pad) :
    (padIdx n pad)[m]? = some (reflIdx n ((m : Int) - (pad : Int))) := by
  unfold padIdx reflIdx
  rw [if_neg (by omega)]
  by_cases c1 : m < pad
  · rw [List.append_assoc, List.getElem?_append_left (by simp; omega), List.getElem?_reverse (by simp; omega),
      List.getElem?_take, if_pos (by simp; omega), List.getElem?_range (by simp; omega), if_pos (by omega)]
    congr 1
    simp only [List.length_take, List.length_range]
    omega
  · by_cases c2 : m < pad + n
    · rw [List.append_assoc, List.getElem?_append_right (by simp; omega),
        List.getElem?_append_left (by simp; omega), List.getElem?_range (by simp; omega),
        if_neg (by omega), if_neg (by omega)]
      congr 1
      simp only [List.length_reverse, List.length_take, List.length_range]
      omega
    · rw [List.getElem?_append_right (by simp; omega), List.getElem?_reverse (by simp; omega),
        List.getElem?_drop, List.getElem?_range (by simp; omega), if_neg (by omega), if_pos (by omega)]
      congr 1
      simp only [List.length_append, List.length_reverse, List.length_take, List.length_drop, List.length_range]
      omega

section field
variable {K : Type} [Field K] [LinearOrder K] [IsStrictOrderedRing K] [FloorRing K]
attribute [local instance] fieldScalar
attribute [-instance] Scalar.instOfNat Scalar.instOfScientific

/-- the `(2h+1) × (2h+1)` window around `(i, j)` of a 2-D signal given as a function of (integer) row and
column, listed row by row -/
def win2 (f : Int → Int → K) (h i j : Nat) : List K :=
  (List.range (2 * h + 1)).flatMap fun (di : Nat) => (List.range (2 * h + 1)).map fun (dj : Nat) =>
    f ((i : Int) + (di : Int) - (h : Int)) ((j : Int) + (dj : Int) - (h : Int))

omit [Field K] [LinearOrder K] [IsStrictOrderedRing K] [FloorRing K] in
theorem win2_congr (f g : Int → Int → K) (h i j : Nat)
    (hfg : ∀ di dj : Nat, di < 2 * h + 1 → dj < 2 * h + 1 →
      f ((i : Int) + (di : Int) - (h : Int)) ((j : Int) + (dj : Int) - (h : Int)) =
      g ((i : Int) + (di : Int) - (h : Int)) ((j : Int) + (dj : Int) - (h : Int))) :
    win2 f h i j = win2 g h i j := by
  unfold win2
  apply List.flatMap_congr
  intro di hdi
  apply List.map_congr_left
  intro dj hdj
  exact hfg di dj (List.mem_range.1 hdi) (List.mem_range.1 hdj)

/-- **2-D branch of `pydl.median(array, width)`** (`medfilt2d` + restored borders) on a `b0 × b1` array, width
`2h+1`: whenever the kernel `min(width, size)` is odd the call succeeds; a pixel `(i, j)` whose window lies inside the
array (`h ≤ i`, `i + h < b0`, same for `j`) becomes the window median, every other pixel keeps its input value
(the zero padding of `medfilt2d` is never read) -/
theorem medianFilt2_spec (med : List K → K) (b0 b1 : Nat) (a : List K) (h : Nat)
    (hodd : (min (2 * h + 1) (b0 * b1)) % 2 = 1) :
    ∃ out, medianFilt2 med b0 b1 a (2 * h + 1) = .ok out ∧ out.length = b0 * b1 ∧
      ∀ i j, i < b0 → j < b1 →
        out[i * b1 + j]? = some (
          if h ≤ i ∧ i + h < b0 ∧ h ≤ j ∧ j + h < b1 then
            med (win2 (fun r c => a.getD (r.toNat * b1 + c.toNat) 0) h i j)
          else a.getD (i * b1 + j) 0) := by
  have p1 : (2 * h + 1 + 1) / 2 = h + 1 := by omega
  have p2 : (2 * h + 1 - 1) / 2 = h := by omega
  have hev : ((min (2 * h + 1) (b0 * b1)) % 2 == 0) = false := by rw [hodd]; rfl
  unfold medianFilt2
  simp only [hev, Bool.false_eq_true, if_false, p1, p2]
  refine ⟨_, rfl, by simp, ?_⟩
  intro i j hi hj
  rw [List.getElem?_map, List.getElem?_range (flat_lt i j b0 b1 hi hj)]
  simp only [Option.map_some, flat_div i j b1 hj, flat_mod i j b1 hj, Option.some.injEq]
  by_cases hin : h ≤ i ∧ i + h < b0 ∧ h ≤ j ∧ j + h < b1
  · rw [if_pos hin, if_neg (by push_cast; omega)]
    have hw : 2 * h + 1 ≤ b0 * b1 := by
      have : (2 * h + 1) * (2 * h + 1) ≤ b0 * b1 := Nat.mul_le_mul (by omega) (by omega)
      nlinarith
    have hkw : min (2 * h + 1) (b0 * b1) = 2 * h + 1 := by omega
    have p3 : (2 * h + 1) / 2 = h := by omega
    simp only [hkw, p3]
    congr 1
    unfold win2
    apply List.flatMap_congr
    intro di hdi
    apply List.map_congr_left
    intro dj hdj
    have hdi' := List.mem_range.1 hdi
    have hdj' := List.mem_range.1 hdj
    rw [if_neg (by omega)]
    simp
  · rw [if_neg hin, if_pos (by push_cast; omega)]
    simp

/-- the 2-D array reflected about its four edges: value at integer row `r`, column `c` -/
def ext2 (a : List K) (n0 n1 : Nat) (r c : Int) : K := a.getD (reflIdx n0 r * n1 + reflIdx n1 c) 0

/-- `bigarr` of the 2-D branch of `djs_median` -/
def bigarr2 (a : List K) (n0 n1 pad : Nat) : List K :=
  (padIdx n0 pad).flatMap fun r => (padIdx n1 pad).map fun c => a.toArray.getD (r * n1 + c) 0

theorem djsMedianReflect2_eq (med : List K → K) (n0 n1 : Nat) (a : List K) (w : Nat) :
    djsMedianReflect2 med n0 n1 a w =
      if w == 1 then .ok a else
      if (n0 < (w + 1) / 2 ∧ n0 ≠ 1) ∨ (n1 < (w + 1) / 2 ∧ n1 ≠ 1) then .error "ValueError" else
      match medianFilt2 med (n0 + 2 * ((w + 1) / 2)) (n1 + 2 * ((w + 1) / 2)) (bigarr2 a n0 n1 ((w + 1) / 2))
          (min w (n0 * n1)) with
      | .error e => .error e
      | .ok f => .ok ((List.range (n0 * n1)).map fun p =>
          f.toArray.getD ((p / n1 + (w + 1) / 2) * (n1 + 2 * ((w + 1) / 2)) + (p % n1 + (w + 1) / 2)) 0) := by
  unfold djsMedianReflect2 bigarr2
  simp only [scalar_lit, Nat.cast_zero]
  split
  · rfl
  · split
    · rfl
    · rfl

omit [LinearOrder K] [IsStrictOrderedRing K] [FloorRing K] in
theorem bigarr2_length (a : List K) (n0 n1 pad : Nat) (h0 : pad ≤ n0) (h1 : pad ≤ n1) :
    (bigarr2 a n0 n1 pad).length = (n0 + 2 * pad) * (n1 + 2 * pad) := by
  unfold bigarr2
  rw [flatMap_map_length, padIdx_length n0 pad h0, padIdx_length n1 pad h1]

omit [LinearOrder K] [IsStrictOrderedRing K] [FloorRing K] in
theorem bigarr2_get (a : List K) (n0 n1 pad : Nat) (h0 : pad ≤ n0) (h1 : pad ≤ n1) (R C : Nat)
    (hR : R < n0 + 2 * pad) (hC : C < n1 + 2 * pad) :
    (bigarr2 a n0 n1 pad).getD (R * (n1 + 2 * pad) + C) 0 =
      ext2 a n0 n1 ((R : Int) - (pad : Int)) ((C : Int) - (pad : Int)) := by
  have lR := padIdx_length n0 pad h0
  have lC := padIdx_length n1 pad h1
  obtain ⟨hR', eR⟩ := List.getElem?_eq_some_iff.1 (padIdx_get n0 pad R h0 hR)
  obtain ⟨hC', eC⟩ := List.getElem?_eq_some_iff.1 (padIdx_get n1 pad C h1 hC)
  unfold bigarr2 ext2
  rw [List.getD_eq_getElem?_getD, ← lC,
    flatMap_map_get (padIdx n1 pad) (fun r c => a.toArray.getD (r * n1 + c) 0) (padIdx n0 pad) R C hR' hC']
  simp only [Option.getD_some, eR, eC]
  simp

/-- **`djs_median(array, width = 2h+1, boundary = 'reflect')` on a 2-D `n0 × n1` array** (C-order flattened, `h ≥ 1`,
both axes at least `h+1` long): succeeds, and output pixel `(i, j)` is the window median `med` of the
`(2h+1) × (2h+1)` window centred at `(i, j)` of the array reflected about its four edges (`ext2`) -/
theorem djsMedianReflect2_spec (med : List K → K) (n0 n1 : Nat) (a : List K) (h : Nat) (hh : 1 ≤ h)
    (h0 : h + 1 ≤ n0) (h1 : h + 1 ≤ n1) :
    ∃ out, djsMedianReflect2 med n0 n1 a (2 * h + 1) = .ok out ∧ out.length = n0 * n1 ∧
      ∀ i j, i < n0 → j < n1 → out[i * n1 + j]? = some (med (win2 (ext2 a n0 n1) h i j)) := by
  have p1 : (2 * h + 1 + 1) / 2 = h + 1 := by omega
  have w1 : ((2 * h + 1 == 1) = false) := by
    cases hb : (2 * h + 1 == 1) with
    | true => simp at hb; omega
    | false => rfl
  have hsq : 2 * h + 1 ≤ n0 * n1 := by
    have : (h + 1) * (h + 1) ≤ n0 * n1 := Nat.mul_le_mul h0 h1
    nlinarith
  have hsq2 : 2 * h + 1 ≤ (n0 + 2 * (h + 1)) * (n1 + 2 * (h + 1)) := by
    have : n0 * n1 ≤ (n0 + 2 * (h + 1)) * (n1 + 2 * (h + 1)) := Nat.mul_le_mul (by omega) (by omega)
    omega
  have hmin : min (2 * h + 1) (n0 * n1) = 2 * h + 1 := by omega
  have hodd : (min (2 * h + 1) ((n0 + 2 * (h + 1)) * (n1 + 2 * (h + 1)))) % 2 = 1 := by
    rw [Nat.min_eq_left hsq2]; omega
  obtain ⟨f, hf, hfl, hfs⟩ := medianFilt2_spec med (n0 + 2 * (h + 1)) (n1 + 2 * (h + 1))
    (bigarr2 a n0 n1 (h + 1)) h hodd
  rw [djsMedianReflect2_eq]
  simp only [w1, Bool.false_eq_true, if_false, p1, hmin]
  rw [if_neg (by omega), hf]
  refine ⟨_, rfl, by simp, ?_⟩
  intro i j hi hj
  rw [List.getElem?_map, List.getElem?_range (flat_lt i j n0 n1 hi hj)]
  simp only [Option.map_some, flat_div i j n1 hj, flat_mod i j n1 hj, Option.some.injEq]
  have := hfs (i + (h + 1)) (j + (h + 1)) (by omega) (by omega)
  rw [if_pos (by omega)] at this
  have e : f.toArray.getD ((i + (h + 1)) * (n1 + 2 * (h + 1)) + (j + (h + 1))) 0 =
      f[(i + (h + 1)) * (n1 + 2 * (h + 1)) + (j + (h + 1))]?.getD 0 := by simp
  rw [e, this, Option.getD_some]
  congr 1
  unfold win2
  apply List.flatMap_congr
  intro di hdi
  apply List.map_congr_left
  intro dj hdj
  have hdi' := List.mem_range.1 hdi
  have hdj' := List.mem_range.1 hdj
  have eR : ((((i + (h + 1) : Nat) : Int) + (di : Int) - (h : Int))).toNat = i + 1 + di := by omega
  have eC : ((((j + (h + 1) : Nat) : Int) + (dj : Int) - (h : Int))).toNat = j + 1 + dj := by omega
  beta_reduce
  rw [eR, eC, bigarr2_get a n0 n1 (h + 1) h0 h1 (i + 1 + di) (j + 1 + dj) (by omega) (by omega)]
  congr 1 <;> (push_cast; omega)

end field
end PydlVerif.Interp

/-
Interpretation of the `Trig` operation class at ℝ with Mathlib's functions.
`atan2 y x` is `Complex.arg (x + y i)`.
-/
import PydlVerif.Lemmas.ScalarField
import Mathlib.Analysis.SpecialFunctions.Trigonometric.Inverse
import Mathlib.Analysis.SpecialFunctions.Complex.Arg
import Mathlib.Analysis.SpecialFunctions.Sqrt

namespace PydlVerif

@[reducible] noncomputable def realTrig : Trig ℝ where
  toScalar := fieldScalar ℝ
  sqrt := Real.sqrt
  sin := Real.sin
  cos := Real.cos
  arcsin := Real.arcsin
  arccos := Real.arccos
  atan2 y x := Complex.arg ⟨x, y⟩
  pi := Real.pi

end PydlVerif

/-
Helper lemmas for C17 (djs_reject, skymask): the badness of one pixel at an
ordered field, `setFalse`/`growMask` as a dilation, window sums of smooth().
-/
import PydlVerif.Model.Reject
import PydlVerif.Lemmas.ScalarField
import Mathlib.Tactic.Linarith
import Mathlib.Tactic.Ring
import Mathlib.Tactic.Positivity
import Mathlib.Tactic.FieldSimp
import Mathlib.Algebra.Order.AbsoluteValue.Basic

namespace PydlVerif.Reject
open PydlVerif

section field
variable {K : Type} [Field K] [LinearOrder K] [IsStrictOrderedRing K] [FloorRing K]
attribute [local instance] fieldScalar
-- numerals in the statements below are the field's, not the Scalar class's
attribute [-instance] Scalar.instOfNat Scalar.instOfScientific

/-- residual exceeds the lower limit, in units of sigma or of 1/sqrt(invvar) (`diff*sqrt(invvar) < -lower`) -/
def LowEx (sqrt : K → K) (o : Opts K) (p : Pix K) : Prop :=
  ∃ lo, o.lower = some lo ∧
    (if o.useSigma then p.d - p.m < -(lo * p.s) else (p.d - p.m) * sqrt p.s < -lo)

def UpEx (sqrt : K → K) (o : Opts K) (p : Pix K) : Prop :=
  ∃ up, o.upper = some up ∧
    (if o.useSigma then p.d - p.m > up * p.s else (p.d - p.m) * sqrt p.s > up)

def DevEx (o : Opts K) (p : Pix K) : Prop := ∃ md, o.maxdev = some md ∧ |p.d - p.m| > md

theorem castB_true : (castB true : K) = 1 := by simp [castB]
theorem castB_false : (castB false : K) = 0 := by simp [castB]

theorem isZero_iff (a : K) : (isZero a = true) ↔ a = 0 := by
  simp [isZero, BEq.beq, Scalar.beq]

theorem sig_pos (s : K) (h : 0 ≤ s) : 0 < s + castB (isZero s) := by
  by_cases h0 : s = 0
  · rw [(isZero_iff s).2 h0, castB_true, h0]; simp
  · have : isZero s = false := by
      cases hb : isZero s with
      | true => exact absurd ((isZero_iff s).1 hb) h0
      | false => rfl
    rw [this, castB_false, add_zero]
    exact lt_of_le_of_ne h (Ne.symm h0)

theorem castB_and (A B : Prop) [Decidable A] [Decidable B] :
    (castB (decide A && decide B) : K) = if A ∧ B then 1 else 0 := by
  by_cases hA : A <;> by_cases hB : B <;> simp [hA, hB, castB_true, castB_false]

theorem castB_dec (A : Prop) [Decidable A] : (castB (decide A) : K) = if A then 1 else 0 := by
  by_cases hA : A <;> simp [hA, castB_true, castB_false]

/-- shape shared by the three accumulation steps -/
theorem step_one {P : Prop} (b : K) (h : P) : ∃ t : K, 0 ≤ t ∧ (t = 0 ↔ ¬ P) ∧ b + 1 = b + t :=
  ⟨1, zero_le_one, ⟨fun e => absurd e one_ne_zero, fun n => absurd h n⟩, rfl⟩

theorem step_zero {P : Prop} (b : K) (h : ¬ P) : ∃ t : K, 0 ≤ t ∧ (t = 0 ↔ ¬ P) ∧ b + 0 = b + t :=
  ⟨0, le_refl _, ⟨fun _ => h, fun _ => rfl⟩, rfl⟩

theorem addLow_eq (sqrt : K → K) (o : Opts K) (p : Pix K) (b : K)
    (hlo : ∀ lo, o.lower = some lo → 0 ≤ lo) (hs : o.useSigma = true → 0 ≤ p.s) :
    ∃ t : K, 0 ≤ t ∧ (t = 0 ↔ ¬ LowEx sqrt o p) ∧ addLow sqrt o p b = b + t := by
  unfold addLow LowEx
  cases hl : o.lower with
  | none => exact ⟨0, le_refl _, by simp, by simp⟩
  | some lo =>
    have hlo' := hlo lo hl
    simp only [scalar_lit, Nat.cast_zero, castB_and, Option.some.injEq, exists_eq_left']
    by_cases hu : o.useSigma = true
    · have hsp := sig_pos p.s (hs hu)
      simp only [hu, if_true]
      by_cases hq : p.d - p.m < -(lo * p.s)
      · have hneg : p.d - p.m < 0 := lt_of_lt_of_le hq (by have := mul_nonneg hlo' (hs hu); linarith)
        have h1 : (-(p.d - p.m)) / (p.s + castB (isZero p.s)) > 0 := div_pos (by linarith) hsp
        have hq' : p.d - p.m < -lo * p.s := by rw [neg_mul]; exact hq
        rw [if_pos ⟨h1, hq'⟩]; exact step_one b hq
      · have hq' : ¬ p.d - p.m < -lo * p.s := by rw [neg_mul]; exact hq
        rw [if_neg (fun h => hq' h.2)]; exact step_zero b hq
    · have hu' : o.useSigma = false := by simpa using hu
      simp only [hu', Bool.false_eq_true, if_false]
      by_cases hq : (p.d - p.m) * sqrt p.s < -lo
      · have h1 : -(p.d - p.m) * sqrt p.s > 0 := by rw [neg_mul]; linarith
        rw [if_pos ⟨h1, hq⟩]; exact step_one b hq
      · rw [if_neg (fun h => hq h.2)]; exact step_zero b hq

theorem addUp_eq (sqrt : K → K) (o : Opts K) (p : Pix K) (b : K)
    (hup : ∀ up, o.upper = some up → 0 ≤ up) (hs : o.useSigma = true → 0 ≤ p.s) :
    ∃ t : K, 0 ≤ t ∧ (t = 0 ↔ ¬ UpEx sqrt o p) ∧ addUp sqrt o p b = b + t := by
  unfold addUp UpEx
  cases hl : o.upper with
  | none => exact ⟨0, le_refl _, by simp, by simp⟩
  | some up =>
    have hup' := hup up hl
    simp only [scalar_lit, Nat.cast_zero, castB_and, Option.some.injEq, exists_eq_left']
    by_cases hu : o.useSigma = true
    · have hsp := sig_pos p.s (hs hu)
      simp only [hu, if_true]
      by_cases hq : p.d - p.m > up * p.s
      · have hpos : p.d - p.m > 0 := lt_of_le_of_lt (mul_nonneg hup' (hs hu)) hq
        have h1 : (p.d - p.m) / (p.s + castB (isZero p.s)) > 0 := div_pos hpos hsp
        rw [if_pos ⟨h1, hq⟩]; exact step_one b hq
      · rw [if_neg (fun h => hq h.2)]; exact step_zero b hq
    · have hu' : o.useSigma = false := by simpa using hu
      simp only [hu', Bool.false_eq_true, if_false]
      by_cases hq : (p.d - p.m) * sqrt p.s > up
      · have h1 : (p.d - p.m) * sqrt p.s > 0 := lt_of_le_of_lt hup' hq
        rw [if_pos ⟨h1, hq⟩]; exact step_one b hq
      · rw [if_neg (fun h => hq h.2)]; exact step_zero b hq

theorem addDev_eq (o : Opts K) (p : Pix K) (b : K) (hmd : ∀ md, o.maxdev = some md → 0 < md) :
    ∃ t : K, 0 ≤ t ∧ (t = 0 ↔ ¬ DevEx o p) ∧ addDev o p b = b + t := by
  unfold addDev DevEx
  cases hl : o.maxdev with
  | none => exact ⟨0, le_refl _, by simp, by simp⟩
  | some md =>
    have hmd' := hmd md hl
    simp only [scalar_lit, Nat.cast_zero, castB_dec, Option.some.injEq, exists_eq_left']
    have habs : (if p.d - p.m < 0 then -(p.d - p.m) else p.d - p.m) = |p.d - p.m| := by
      split
      · rw [abs_of_neg]; assumption
      · rw [abs_of_nonneg]; exact not_lt.1 ‹_›
    rw [habs]
    by_cases hq : |p.d - p.m| > md
    · rw [if_pos hq]
      refine ⟨|p.d - p.m| / md * 1, ?_, ?_, rfl⟩
      · positivity
      · have : |p.d - p.m| / md * 1 > 0 := by
          rw [mul_one]; exact div_pos (lt_trans hmd' hq) hmd'
        exact ⟨fun e => absurd e (ne_of_gt this), fun n => absurd hq n⟩
    · rw [if_neg hq]
      exact ⟨0, le_refl _, ⟨fun _ => hq, fun _ => rfl⟩, by rw [mul_zero]⟩

/-- the pixel is considered for rejection: not excluded by inmask, nor (sticky) by the previous outmask -/
def Eligible (o : Opts K) (p : Pix K) : Prop :=
  (o.hasIn = true → p.inm = true) ∧ (o.sticky = true → p.prev = true)

/-- the pixel is newly rejected by one of the three tests -/
def IsBad (sqrt : K → K) (o : Opts K) (p : Pix K) : Prop :=
  Eligible o p ∧ (LowEx sqrt o p ∨ UpEx sqrt o p ∨ DevEx o p)

theorem gate (B : K) (hasIn sticky inm prev : Bool) (X : Prop) (hb : B = 0 ↔ ¬ X) :
    (if sticky = true then (if hasIn = true then B * castB inm else B) * castB prev
      else (if hasIn = true then B * castB inm else B)) = 0 ↔
    ¬ (((hasIn = true → inm = true) ∧ (sticky = true → prev = true)) ∧ X) := by
  cases hasIn <;> cases sticky <;> cases inm <;> cases prev <;>
    simp [castB_true, castB_false, hb]

theorem badness_zero_iff (sqrt : K → K) (o : Opts K) (p : Pix K)
    (hlo : ∀ lo, o.lower = some lo → 0 ≤ lo) (hup : ∀ up, o.upper = some up → 0 ≤ up)
    (hmd : ∀ md, o.maxdev = some md → 0 < md) (hs : o.useSigma = true → 0 ≤ p.s) :
    isZero (badness sqrt o p) = true ↔ ¬ IsBad sqrt o p := by
  rw [isZero_iff]
  unfold badness IsBad Eligible
  obtain ⟨t1, h1, z1, e1⟩ := addLow_eq sqrt o p (Scalar.ofNat 0) hlo hs
  obtain ⟨t2, h2, z2, e2⟩ := addUp_eq sqrt o p (addLow sqrt o p (Scalar.ofNat 0)) hup hs
  obtain ⟨t3, h3, z3, e3⟩ := addDev_eq o p (addUp sqrt o p (addLow sqrt o p (Scalar.ofNat 0))) hmd
  have hb : addDev o p (addUp sqrt o p (addLow sqrt o p (Scalar.ofNat 0))) = 0 ↔
      ¬ (LowEx sqrt o p ∨ UpEx sqrt o p ∨ DevEx o p) := by
    rw [e3, e2, e1]
    simp only [scalar_ofNat, Nat.cast_zero, zero_add]
    constructor
    · intro h
      have a1 : t1 = 0 := by linarith
      have a2 : t2 = 0 := by linarith
      have a3 : t3 = 0 := by linarith
      rintro (h' | h' | h')
      · exact z1.1 a1 h'
      · exact z2.1 a2 h'
      · exact z3.1 a3 h'
    · intro h
      rw [z1.2 (fun h' => h (Or.inl h')), z2.2 (fun h' => h (Or.inr (Or.inl h'))),
        z3.2 (fun h' => h (Or.inr (Or.inr h')))]
      simp
  exact gate _ o.hasIn o.sticky p.inm p.prev _ hb

end field
/-! ## setFalse / growMask: the grow block is a dilation of the rejected set -/

theorem setFalse_length (idxs : List Nat) (m : List Bool) : (setFalse m idxs).length = m.length := by
  unfold setFalse
  induction idxs generalizing m with
  | nil => rfl
  | cons k ks ih => simp only [List.foldl_cons]; rw [ih]; simp

theorem setFalse_true (idxs : List Nat) (m : List Bool) (i : Nat) :
    (setFalse m idxs)[i]? = some true ↔ m[i]? = some true ∧ i ∉ idxs := by
  unfold setFalse
  induction idxs generalizing m with
  | nil => simp
  | cons k ks ih =>
    simp only [List.foldl_cons, List.mem_cons, not_or]
    rw [ih, List.getElem?_set]
    by_cases hk : k = i
    · subst hk; simp
    · simp [hk]; intro _ _; exact fun h => hk h.symm

theorem growLoop_length (irej : List Nat) (n : Nat) (ks : List Nat) (m : List Bool) :
    (ks.foldl (fun acc k => setFalse (setFalse acc (irej.map (· - k)))
        (irej.map (fun r => min (r + k) n))) m).length = m.length := by
  induction ks generalizing m with
  | nil => rfl
  | cons k ks ih => simp only [List.foldl_cons]; rw [ih, setFalse_length, setFalse_length]

theorem growLoop_true (irej : List Nat) (n : Nat) (ks : List Nat) (m : List Bool) (i : Nat) :
    (ks.foldl (fun acc k => setFalse (setFalse acc (irej.map (· - k)))
        (irej.map (fun r => min (r + k) n))) m)[i]? = some true ↔
    m[i]? = some true ∧ ∀ k ∈ ks, ∀ r ∈ irej, r - k ≠ i ∧ min (r + k) n ≠ i := by
  induction ks generalizing m with
  | nil => simp
  | cons k ks ih =>
    simp only [List.foldl_cons]
    rw [ih, setFalse_true, setFalse_true]
    simp only [List.mem_map, not_exists, not_and, List.mem_cons, forall_eq_or_imp]
    constructor
    · rintro ⟨⟨⟨h1, h2⟩, h3⟩, h4⟩
      exact ⟨h1, fun r hr => ⟨h2 r hr, h3 r hr⟩, h4⟩
    · rintro ⟨h1, h2, h4⟩
      exact ⟨⟨⟨h1, fun r hr => (h2 r hr).1⟩, fun r hr => (h2 r hr).2⟩, h4⟩

theorem growMask_length (g : Nat) (m : List Bool) : (growMask g m).length = m.length := by
  unfold growMask
  simp only
  split
  · rw [growLoop_length]
  · rfl

/-- after the grow block a pixel is still good iff every pixel within `g` of it was good -/
theorem growMask_true (g : Nat) (m : List Bool) (i : Nat) (hi : i < m.length) :
    (growMask g m)[i]? = some true ↔
      ∀ j, j < m.length → i ≤ j + g → j ≤ i + g → m[j]? = some true := by
  have mem_irej : ∀ r, r ∈ (List.range m.length).filter (fun i => !(m.getD i true)) ↔
      r < m.length ∧ m[r]? = some false := by
    intro r
    simp only [List.mem_filter, List.mem_range, List.getD_eq_getElem?_getD, Bool.not_eq_true']
    constructor
    · rintro ⟨h1, h2⟩
      refine ⟨h1, ?_⟩
      rw [List.getElem?_eq_getElem h1] at h2 ⊢
      simpa using h2
    · rintro ⟨h1, h2⟩
      exact ⟨h1, by rw [h2]; rfl⟩
  have getb : ∀ j, j < m.length → (m[j]? = some true ∨ m[j]? = some false) := by
    intro j hj
    rw [List.getElem?_eq_getElem hj]
    cases m[j] <;> simp
  unfold growMask
  simp only
  split
  · rename_i hc
    rw [growLoop_true]
    constructor
    · rintro ⟨h0, hall⟩ j hj h1 h2
      rcases getb j hj with h | h
      · exact h
      · exfalso
        have hr := (mem_irej j).2 ⟨hj, h⟩
        by_cases hji : j = i
        · subst hji; rw [h0] at h; simp at h
        · by_cases hlt : i < j
          · have := (hall (j - i) (by simp only [List.mem_range'_1]; omega) j hr).1
            omega
          · have := (hall (i - j) (by simp only [List.mem_range'_1]; omega) j hr).2
            omega
    · intro h
      refine ⟨h i hi (by omega) (by omega), ?_⟩
      intro k hk r hr
      simp only [List.mem_range'_1] at hk
      obtain ⟨hrl, hrf⟩ := (mem_irej r).1 hr
      constructor
      · intro e
        have := h r hrl (by omega) (by omega)
        rw [this] at hrf; simp at hrf
      · intro e
        have := h r hrl (by omega) (by omega)
        rw [this] at hrf; simp at hrf
  · rename_i hc
    constructor
    · intro h0 j hj h1 h2
      rcases getb j hj with h | h
      · exact h
      · exfalso
        have hr := (mem_irej j).2 ⟨hj, h⟩
        rw [not_and_or] at hc
        rcases hc with hc | hc
        · have : j = i := by omega
          subst this; rw [h0] at h; simp at h
        · simp only [ne_eq, not_not] at hc
          rw [hc] at hr; simp at hr
    · intro h
      exact h i hi (by omega) (by omega)

/-! ## smooth() over 0/width signals: a window count -/

theorem sum_zero_or (w : Int) (hw : 0 < w) (l : List Int) (hl : ∀ x ∈ l, x = 0 ∨ x = w) :
    0 ≤ l.sum ∧ w ∣ l.sum ∧ (0 < l.sum ↔ w ∈ l) := by
  induction l with
  | nil => simp
  | cons a l ih =>
    obtain ⟨h1, h2, h3⟩ := ih (fun x hx => hl x (List.mem_cons_of_mem _ hx))
    rw [List.sum_cons, List.mem_cons]
    rcases hl a (List.mem_cons_self) with ha | ha
    · subst ha
      refine ⟨by omega, by simpa using h2, ?_⟩
      rw [zero_add, h3]
      constructor
      · exact Or.inr
      · rintro (h | h)
        · omega
        · exact h
    · subst ha
      exact ⟨by omega, Dvd.dvd.add (dvd_refl _) h2, ⟨fun _ => Or.inl rfl, fun _ => by omega⟩⟩

theorem mem_slice (s : List Int) (w : Int) (lo len : Nat) :
    w ∈ (s.drop lo).take len ↔ ∃ j, lo ≤ j ∧ j < lo + len ∧ s[j]? = some w := by
  rw [List.mem_iff_getElem?]
  constructor
  · rintro ⟨k, hk⟩
    rw [List.getElem?_take] at hk
    split at hk
    · rw [List.getElem?_drop] at hk
      exact ⟨lo + k, by omega, by omega, hk⟩
    · simp at hk
  · rintro ⟨j, h1, h2, h3⟩
    refine ⟨j - lo, ?_⟩
    rw [List.getElem?_take, if_pos (by omega), List.getElem?_drop]
    rw [show lo + (j - lo) = j by omega]; exact h3

/-- one value of smooth(): slice sum plus a non-negative multiple of a value inside the slice,
divided by the width, is positive iff the slice contains a flagged (`= w`) entry -/
theorem slice_pos (s : List Int) (w : Int) (hw : 0 < w) (hs : ∀ x ∈ s, x = 0 ∨ x = w)
    (lo len : Nat) (c : Int) (hc : 0 ≤ c) (e : Nat) (he : lo ≤ e ∧ e < lo + len) :
    0 < Int.tdiv (sumL ((s.drop lo).take len) + c * s.getD e 0) w ↔
      ∃ j, lo ≤ j ∧ j < lo + len ∧ s[j]? = some w := by
  rw [← mem_slice]
  have hL : ∀ x ∈ (s.drop lo).take len, x = 0 ∨ x = w :=
    fun x hx => hs x (List.mem_of_mem_drop (List.mem_of_mem_take hx))
  obtain ⟨h1, ⟨q, hq⟩, h3⟩ := sum_zero_or w hw _ hL
  have hE : s.getD e 0 = 0 ∨ (s.getD e 0 = w ∧ w ∈ (s.drop lo).take len) := by
    rw [List.getD_eq_getElem?_getD]
    cases hse : s[e]? with
    | none => left; rfl
    | some v =>
      rcases hs v (List.mem_of_getElem? hse) with hv | hv
      · left; simp [hv]
      · right; subst hv
        exact ⟨rfl, (mem_slice s v lo len).2 ⟨e, he.1, he.2, hse⟩⟩
  unfold sumL
  rcases hE with hE | ⟨hE, hmem⟩
  · rw [hE, mul_zero, add_zero, ← h3, hq, Int.mul_tdiv_cancel_left _ (ne_of_gt hw)]
    constructor
    · intro h; exact Int.mul_pos hw h
    · intro h
      by_contra hn
      have : q ≤ 0 := by omega
      have := Int.mul_nonpos_of_nonneg_of_nonpos (le_of_lt hw) this
      omega
  · rw [hE, hq, show w * q + c * w = w * (q + c) by ring, Int.mul_tdiv_cancel_left _ (ne_of_gt hw)]
    have hqpos : 0 < q := by
      have := h3.2 hmem
      rw [hq] at this
      by_contra hn
      have h' : q ≤ 0 := by omega
      have := Int.mul_nonpos_of_nonneg_of_nonpos (le_of_lt hw) h'
      omega
    exact ⟨fun _ => hmem, fun _ => by omega⟩

theorem smoothInt_dilate (b : List Int) (hb : ∀ x ∈ b, x = 0 ∨ x = 1) (g : Nat) (hg : 0 < g)
    (i : Nat) (hi : i < b.length) :
    ∃ v, (smoothInt (b.map (· * ((2 * g + 1 : Nat) : Int))) (2 * g + 1) true)[i]? = some v ∧
      (0 < v ↔ ∃ j, i ≤ j + g ∧ j ≤ i + g ∧ b[j]? = some 1) := by
  have hw : (0 : Int) < ((2 * g + 1 : Nat) : Int) := by omega
  have hs : ∀ x ∈ b.map (· * ((2 * g + 1 : Nat) : Int)), x = 0 ∨ x = ((2 * g + 1 : Nat) : Int) := by
    intro x hx
    rw [List.mem_map] at hx
    obtain ⟨y, hy, rfl⟩ := hx
    rcases hb y hy with h | h <;> simp [h]
  have hget : ∀ j : Nat, (b.map (· * ((2 * g + 1 : Nat) : Int)))[j]? = some ((2 * g + 1 : Nat) : Int) ↔
      b[j]? = some 1 := by
    intro j
    rw [List.getElem?_map]
    cases hbj : b[j]? with
    | none => simp
    | some y =>
      rcases hb y (List.mem_of_getElem? hbj) with h | h
      · subst h; simp; omega
      · subst h; simp
  unfold smoothInt
  have e1 : ((2 * g + 1) % 2 == 0) = false := by
    have : (2 * g + 1) % 2 = 1 := by omega
    rw [this]; rfl
  simp only [e1, Bool.false_eq_true, if_false, List.length_map]
  rw [if_neg (by omega)]
  rw [List.getElem?_map, List.getElem?_range hi]
  simp only [Option.map_some, if_true]
  have i1 : (2 * g + 1 - 1) / 2 = g := by omega
  have i2 : (2 * g + 1) / 2 = g := by omega
  have i3 : (2 * g + 1 + 1) / 2 = g + 1 := by omega
  rw [i1, i2, i3]
  refine ⟨_, rfl, ?_⟩
  split
  · -- i < g
    rename_i h
    have := slice_pos _ _ hw hs 0 (g + i + 1) (((g - i : Nat) : Int)) (by omega) 0 (by omega)
    rw [List.drop_zero] at this
    rw [this]
    simp only [hget]
    constructor
    · rintro ⟨j, _, h2, h3⟩; exact ⟨j, by omega, by omega, h3⟩
    · rintro ⟨j, h1, h2, h3⟩; exact ⟨j, by omega, by omega, h3⟩
  · rename_i h
    split
    · rename_i h'
      have hlen : ((b.map (· * ((2 * g + 1 : Nat) : Int))).drop (i - g)).length ≤ b.length := by
        simp
      have := slice_pos _ _ hw hs (i - g) b.length ((i : Int) - ((b.length : Int) - ((g + 1 : Nat) : Int)))
        (by omega) (b.length - 1) (by omega)
      rw [List.take_of_length_le hlen] at this
      rw [this]
      simp only [hget]
      constructor
      · rintro ⟨j, h1, h2, h3⟩
        have : j < b.length := by
          by_contra hn
          rw [List.getElem?_eq_none (by omega)] at h3; simp at h3
        exact ⟨j, by omega, by omega, h3⟩
      · rintro ⟨j, h1, h2, h3⟩
        have : j < b.length := by
          by_contra hn
          rw [List.getElem?_eq_none (by omega)] at h3; simp at h3
        exact ⟨j, by omega, by omega, h3⟩
    · rename_i h'
      have := slice_pos _ _ hw hs (i - g) (2 * g + 1) 0 (le_refl _) i (by omega)
      rw [zero_mul, add_zero] at this
      rw [this]
      simp only [hget]
      constructor
      · rintro ⟨j, h1, h2, h3⟩; exact ⟨j, by omega, by omega, h3⟩
      · rintro ⟨j, h1, h2, h3⟩; exact ⟨j, by omega, by omega, h3⟩

end PydlVerif.Reject

/-
Interpretation of the `Scalar` operation class at an arbitrary linearly ordered
field with a floor (ℚ, ℝ, ...).  Proof files open this instance locally and use
the `scalar_simps` lemmas to turn model terms into ordinary field terms.
-/
import PydlVerif.Model.Scalar
import Mathlib.Algebra.Order.Floor.Ring
import Mathlib.Algebra.Order.Field.Basic

namespace PydlVerif

/-- the field interpretation of the scalar operations -/
@[reducible] noncomputable def fieldScalar (K : Type) [Field K] [LinearOrder K] [IsStrictOrderedRing K]
    [FloorRing K] : Scalar K where
  ofNat n := (n : K)
  ofSci m s e := (OfScientific.ofScientific m s e : K)
  floor x := ⌊x⌋
  decLt a b := inferInstance
  decLe a b := inferInstance
  beq a b := decide (a = b)

section
variable {K : Type} [Field K] [LinearOrder K] [IsStrictOrderedRing K] [FloorRing K]
attribute [local instance] fieldScalar

@[simp] theorem scalar_ofNat (n : Nat) : (Scalar.ofNat n : K) = (n : K) := rfl
@[simp] theorem scalar_lit (n : Nat) : (@OfNat.ofNat K n Scalar.instOfNat : K) = (n : K) := rfl
@[simp] theorem scalar_sci (m : Nat) (s : Bool) (e : Nat) :
    (@OfScientific.ofScientific K Scalar.instOfScientific m s e : K) = (OfScientific.ofScientific m s e : K) := rfl
@[simp] theorem scalar_floor (x : K) : Scalar.floor x = ⌊x⌋ := rfl
@[simp] theorem scalar_beq (a b : K) : (Scalar.beq a b = true) ↔ a = b := by simp [Scalar.beq]
end

end PydlVerif

/-
Bridging lemmas between the executable model `PydlVerif.Model.Solvers`
(arrays, `sumN`) and Mathlib's `Finset.sum`, at the field interpretation of
`Scalar`.
-/
import PydlVerif.Model.Solvers
import PydlVerif.Lemmas.ScalarField
import PydlVerif.Lemmas.Lsq
import Mathlib.Algebra.BigOperators.Fin
import Mathlib.Tactic.Ring
import Mathlib.Tactic.Linarith
import Mathlib.Tactic.FieldSimp
import Mathlib.Tactic.LinearCombination
open Finset
namespace PydlVerif.Solvers
section
variable {K : Type} [Field K] [LinearOrder K] [IsStrictOrderedRing K] [FloorRing K]
attribute [local instance] fieldScalar

theorem sumN_range (n : ℕ) (f : ℕ → K) : sumN n f = ∑ i ∈ range n, f i := by
  unfold sumN
  induction n with
  | zero => simp
  | succ n ih =>
    rw [List.range_succ, List.foldl_append, ih, Finset.sum_range_succ]
    simp

theorem sumN_fin (n : ℕ) (f : ℕ → K) : sumN n f = ∑ i : Fin n, f i.val := by
  rw [sumN_range, Finset.sum_range]

theorem vget_vtab {α : Type} [Scalar α] (n : ℕ) (f : ℕ → α) (i : ℕ) (h : i < n) : vget (vtab n f) i = f i := by
  simp [vget, vtab, h]

theorem vget_vtab_fin {α : Type} [Scalar α] (n : ℕ) (f : ℕ → α) (i : Fin n) : vget (vtab n f) i.val = f i.val :=
  vget_vtab n f i.val i.isLt

theorem mget_mtab {α : Type} [Scalar α] (r c : ℕ) (f : ℕ → ℕ → α) (i j : ℕ) (hi : i < r) (hj : j < c) :
    mget (mtab r c f) i j = f i j := by
  simp [mget, mtab, vtab, hi, hj]

theorem mget_mtab_fin {α : Type} [Scalar α] (r c : ℕ) (f : ℕ → ℕ → α) (i : Fin r) (j : Fin c) :
    mget (mtab r c f) i.val j.val = f i.val j.val := mget_mtab r c f _ _ i.isLt j.isLt

theorem bget_btab (r c : ℕ) (f : ℕ → ℕ → Bool) (i j : ℕ) (hi : i < r) (hj : j < c) :
    bget (btab r c f) i j = f i j := by
  simp [bget, btab, hi, hj]

end
end PydlVerif.Solvers

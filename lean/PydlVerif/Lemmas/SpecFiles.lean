/-
Lemmas and property theorems about the file-system lookup model (Model/SpecFiles.lean), core Lean only.
The PROPERTY theorems (listed in harness/props/c16.py) are marked PROPERTY.
-/
import PydlVerif.Model.SpecFiles
namespace PydlVerif.C16
open PydlVerif PydlVerif.SpecOrder

/-! ## digits -/

theorem digitChar_isDigit : ∀ d, d < 10 → (digitChar d).isDigit = true := by decide
theorem digitChar_val : ∀ d, d < 10 → (digitChar d).toNat - 48 = d := by decide
theorem digitChar_ne_dash : ∀ d, d < 10 → digitChar d ≠ '-' := by decide

theorem decVal_append (a : List Char) (c : Char) : decVal (a ++ [c]) = 10 * decVal a + (c.toNat - 48) := by
  simp [decVal, List.foldl_append]

theorem decVal_decDigits (n : Nat) : decVal (decDigits n) = n := by
  induction n using Nat.strongRecOn with
  | _ n ih =>
    rw [decDigits]
    split
    · rename_i h
      simp only [decVal, List.foldl_cons, List.foldl_nil]
      have := digitChar_val n h
      omega
    · rename_i h
      rw [decVal_append, ih (n / 10) (by omega), digitChar_val (n % 10) (by omega)]
      omega

theorem decDigits_all_digit (n : Nat) : ∀ c ∈ decDigits n, c.isDigit = true := by
  induction n using Nat.strongRecOn with
  | _ n ih =>
    rw [decDigits]
    split
    · rename_i h
      intro c hc
      simp only [List.mem_singleton] at hc
      subst hc
      exact digitChar_isDigit n h
    · rename_i h
      intro c hc
      simp only [List.mem_append, List.mem_singleton] at hc
      rcases hc with hc | hc
      · exact ih (n / 10) (by omega) c hc
      · subst hc
        exact digitChar_isDigit _ (by omega)

theorem decDigits_length_pos (n : Nat) : 0 < (decDigits n).length := by
  rw [decDigits]
  split <;> simp

theorem decDigits_length_le (k : Nat) : ∀ n, n < 10 ^ (k + 1) → (decDigits n).length ≤ k + 1 := by
  induction k with
  | zero =>
    intro n h
    rw [decDigits]
    simp at h
    simp [h]
  | succ k ih =>
    intro n h
    rw [decDigits]
    split
    · simp
    · have h2 : n / 10 < 10 ^ (k + 1) := by
        rw [Nat.div_lt_iff_lt_mul (by omega)]
        rw [Nat.pow_succ] at h
        exact h
      have := ih (n / 10) h2
      simp only [List.length_append, List.length_singleton]
      omega

theorem decVal_zeros (k : Nat) (l : List Char) : decVal (List.replicate k '0' ++ l) = decVal l := by
  induction k with
  | zero => simp
  | succ k ih =>
    rw [List.replicate_succ, List.cons_append]
    unfold decVal at *
    simpa using ih

theorem decVal_fmtD (w n : Nat) : decVal (fmtD w n) = n := by
  rw [fmtD, padL, decVal_zeros, decVal_decDigits]

/-- PROPERTY (helper): zero-padded decimal formatting is injective, whatever the width and however many digits -/
theorem fmtD_injective (w a b : Nat) (h : fmtD w a = fmtD w b) : a = b := by
  have := congrArg decVal h
  rwa [decVal_fmtD, decVal_fmtD] at this

theorem fmtD_all_digit (w n : Nat) : ∀ c ∈ fmtD w n, c.isDigit = true := by
  intro c hc
  simp only [fmtD, padL, List.mem_append, List.mem_replicate] at hc
  rcases hc with ⟨_, hc⟩ | hc
  · subst hc; decide
  · exact decDigits_all_digit n c hc

theorem fmtD_length_ge (w n : Nat) : w ≤ (fmtD w n).length := by
  simp only [fmtD, padL, List.length_append, List.length_replicate]
  omega

theorem fmtD_length_eq (k n : Nat) (h : n < 10 ^ (k + 1)) : (fmtD (k + 1) n).length = k + 1 := by
  have := decDigits_length_le k n h
  simp only [fmtD, padL, List.length_append, List.length_replicate]
  omega

theorem fmtD_no_dash (w n : Nat) : '-' ∉ fmtD w n := by
  intro h
  have := fmtD_all_digit w n '-' h
  revert this
  decide

/-! ## splitting at the first '-' -/

theorem split_at_sep (c : Char) : ∀ (a a' r r' : List Char), c ∉ a → c ∉ a' → a ++ c :: r = a' ++ c :: r' → a = a' ∧ r = r' := by
  intro a
  induction a with
  | nil =>
    intro a' r r' _ h' h
    cases a' with
    | nil => simpa using h
    | cons x t =>
      simp only [List.nil_append, List.cons_append, List.cons.injEq] at h
      exact absurd (by simp [h.1]) h'
  | cons x t ih =>
    intro a' r r' h0 h' h
    cases a' with
    | nil =>
      simp only [List.nil_append, List.cons_append, List.cons.injEq] at h
      exact absurd (by simp [h.1]) h0
    | cons y t' =>
      simp only [List.cons_append, List.cons.injEq] at h
      have := ih t' r r' (by intro hh; exact h0 (List.mem_cons_of_mem _ hh)) (by intro hh; exact h' (List.mem_cons_of_mem _ hh)) h.2
      exact ⟨by rw [h.1, this.1], this.2⟩

/-! ## file names -/

/-- PROPERTY: two requests share a file name only when they are the same (plate, MJD) - for ALL plates and MJDs, also
plates ≥ 10000 (5 and more digits) and MJDs ≥ 100000 -/
theorem specFileName_injective (p m q n : Nat) (h : specFileName p m = specFileName q n) : p = q ∧ m = n := by
  unfold specFileName pmjdStr at h
  have h1 := List.append_cancel_left h
  rw [List.append_assoc, List.append_assoc, List.cons_append, List.cons_append] at h1
  have h2 := split_at_sep '-' _ _ _ _ (fmtD_no_dash 4 p) (fmtD_no_dash 4 q) h1
  exact ⟨fmtD_injective 4 p q h2.1, fmtD_injective 5 m n (List.append_cancel_right h2.2)⟩

theorem pathJoin_name (dir : List Char) (p m : Nat) :
    specFile dir p m = if dir = [] ∨ dir.getLast? = some '/' then dir ++ specFileName p m else dir ++ '/' :: specFileName p m := by
  rfl

/-- PROPERTY: the full path `os.path.join(dir, "spPlate-pppp-mmmmm.fits")` is injective in (plate, MJD) for every directory -/
theorem specFile_injective (dir : List Char) (p m q n : Nat) (h : specFile dir p m = specFile dir q n) : p = q ∧ m = n := by
  rw [pathJoin_name, pathJoin_name] at h
  split at h
  · exact specFileName_injective p m q n (List.append_cancel_left h)
  · have := List.append_cancel_left h
    simp only [List.cons.injEq, true_and] at this
    exact specFileName_injective p m q n this

/-- PROPERTY: the directory of a plate (`spec_path` without `path=`) is injective in the plate, so plates never share a directory -/
theorem specPath_injective (topdir run2d : List Char) (p q : Nat)
    (h : specPath none topdir run2d [p] = specPath none topdir run2d [q]) : p = q := by
  simp only [specPath, List.map_cons, List.map_nil, List.cons.injEq, and_true] at h
  -- the last component starts with a digit, never with '/'
  have hp : ∀ (a : List Char) (n : Nat), pathJoin a (fmtD 4 n) =
      if a = [] ∨ a.getLast? = some '/' then a ++ fmtD 4 n else a ++ '/' :: fmtD 4 n := by
    intro a n
    unfold pathJoin
    split
    · rename_i heq
      have : '/' ∈ fmtD 4 n := by rw [heq]; simp
      exact absurd (fmtD_all_digit 4 n '/' this) (by decide)
    · rfl
  rw [hp, hp] at h
  split at h
  · exact fmtD_injective 4 p q (List.append_cancel_left h)
  · have := List.append_cancel_left h
    simp only [List.cons.injEq, true_and] at this
    exact fmtD_injective 4 p q this

/-! ## glob -/

/-- PROPERTY: the glob of plate p picks the spPlate file of plate q iff p = q: decoy plates whose number contains the digits of
p (266 / 2660 / 1266 / 10266 ...) never match, whatever their MJD -/
theorem globMatch_specFileName (p q m : Nat) : globMatch p (specFileName q m) = true ↔ p = q := by
  constructor
  · intro h
    simp only [globMatch, Bool.and_eq_true, List.isPrefixOf_iff_prefix] at h
    have h1 := h.1
    unfold specFileName pmjdStr at h1
    rw [List.prefix_append_right_inj] at h1
    obtain ⟨t, ht⟩ := h1
    rw [List.append_assoc, List.append_assoc, List.cons_append, List.cons_append] at ht
    simp only [List.nil_append] at ht
    exact fmtD_injective 4 p q (split_at_sep '-' _ _ _ _ (fmtD_no_dash 4 p) (fmtD_no_dash 4 q) ht).1
  · intro h
    subst h
    have e : specFileName p m = (sPfx ++ (fmtD 4 p ++ ['-'])) ++ (fmtD 5 m ++ sSfx) := by
      simp [specFileName, pmjdStr, List.append_assoc]
    simp only [globMatch, Bool.and_eq_true, List.isPrefixOf_iff_prefix, List.isSuffixOf_iff_suffix]
    rw [e]
    refine ⟨List.prefix_append _ _, ?_⟩
    rw [List.drop_left]
    exact List.suffix_append _ _

/-! ## the regular expression of latest_mjd -/

theorem takeWhile_digits (a r : List Char) (ha : ∀ c ∈ a, c.isDigit = true) :
    (a ++ '-' :: r).takeWhile Char.isDigit = a ∧ (a ++ '-' :: r).dropWhile Char.isDigit = '-' :: r := by
  induction a with
  | nil => exact ⟨by rw [List.nil_append, List.takeWhile_cons]; rfl, by rw [List.nil_append, List.dropWhile_cons]; rfl⟩
  | cons x t ih =>
    have hx := ha x (by simp)
    have := ih (fun c hc => ha c (List.mem_cons_of_mem _ hc))
    rw [List.cons_append, List.takeWhile_cons, List.dropWhile_cons]
    simp only [hx, if_true]
    exact ⟨by rw [this.1], this.2⟩

theorem reMatchAt_of_shape (a b r4 : List Char) (c : Char) (ha : ∀ x ∈ a, x.isDigit = true) (ha4 : 4 ≤ a.length)
    (hb : b.length = 5) (hbd : ∀ x ∈ b, x.isDigit = true) (hc : c ≠ '\n') :
    reMatchAt (sPfx ++ (a ++ '-' :: (b ++ c :: 'f' :: 'i' :: 't' :: 's' :: r4))) = some (decVal b) := by
  unfold reMatchAt
  have hp : sPfx.isPrefixOf (sPfx ++ (a ++ '-' :: (b ++ c :: 'f' :: 'i' :: 't' :: 's' :: r4))) = true := by
    rw [List.isPrefixOf_iff_prefix]; exact List.prefix_append _ _
  rw [if_pos hp]
  have hd : (sPfx ++ (a ++ '-' :: (b ++ c :: 'f' :: 'i' :: 't' :: 's' :: r4))).drop 8
      = a ++ '-' :: (b ++ c :: 'f' :: 'i' :: 't' :: 's' :: r4) := by
    simp [sPfx]
  have tw := takeWhile_digits a (b ++ c :: 'f' :: 'i' :: 't' :: 's' :: r4) ha
  simp only [hd, tw.1, tw.2]
  have ht : (b ++ c :: 'f' :: 'i' :: 't' :: 's' :: r4).take 5 = b := List.take_left' hb
  have hdr : (b ++ c :: 'f' :: 'i' :: 't' :: 's' :: r4).drop 5 = c :: 'f' :: 'i' :: 't' :: 's' :: r4 := List.drop_left' hb
  have hall : b.all Char.isDigit = true := by rw [List.all_eq_true]; exact hbd
  simp only [ht, hdr, hb, ha4, hall, hc, and_self, if_true, ne_eq, not_false_eq_true, true_and]
  simp [List.isPrefixOf]

theorem reMatchAt_P (l : List Char) (v : Nat) (h : reMatchAt l = some v) : l[2]? = some 'P' := by
  unfold reMatchAt at h
  split at h
  · rename_i hp
    rw [List.isPrefixOf_iff_prefix] at hp
    obtain ⟨t, rfl⟩ := hp
    simp [sPfx]
  · cases h

theorem reSearch_skip (pre s : List Char) (h : ∀ k, k < pre.length → (pre ++ s)[k + 2]? ≠ some 'P') :
    reSearch (pre ++ s) = reSearch s := by
  induction pre with
  | nil => rfl
  | cons x t ih =>
    rw [List.cons_append, reSearch]
    cases hm : reMatchAt (x :: (t ++ s)) with
    | some v =>
      exact absurd (reMatchAt_P _ v hm) (by simpa using h 0 (by simp))
    | none =>
      simp only
      apply ih
      intro k hk
      have := h (k + 1) (by simp; omega)
      simpa using this

theorem reSearch_of_match (l : List Char) (v : Nat) (h : reMatchAt l = some v) : reSearch l = some v := by
  cases l with
  | nil => simp [reMatchAt, sPfx] at h
  | cons c cs => rw [reSearch, h]

theorem specFileName_shape (p m : Nat) :
    specFileName p m = sPfx ++ (fmtD 4 p ++ '-' :: (fmtD 5 m ++ '.' :: 'f' :: 'i' :: 't' :: 's' :: [])) := by
  simp [specFileName, pmjdStr, sSfx, List.append_assoc]

/-- the expression finds the MJD of a well-formed name (5-digit MJD; ANY plate, also ≥ 10000) -/
theorem reMatchAt_specFileName (p m : Nat) (hm : m < 100000) : reMatchAt (specFileName p m) = some m := by
  rw [specFileName_shape]
  have := reMatchAt_of_shape (fmtD 4 p) (fmtD 5 m) [] '.' (fmtD_all_digit 4 p) (fmtD_length_ge 4 p)
    (fmtD_length_eq 4 m (by simpa using hm)) (fmtD_all_digit 5 m) (by decide)
  rw [this, decVal_fmtD]

/-- PROPERTY: `mjdre.search(dir + "/" + name)` returns the MJD written in the name when the directory contains no 'P'
(no spurious earlier match inside the directory part) -/
theorem reSearch_specFile (dir : List Char) (p m : Nat) (hP : 'P' ∉ dir) (hm : m < 100000) :
    reSearch (dir ++ '/' :: specFileName p m) = some m := by
  have e : dir ++ '/' :: specFileName p m = (dir ++ ['/']) ++ specFileName p m := by simp
  rw [e, reSearch_skip, reSearch_of_match _ _ (reMatchAt_specFileName p m hm)]
  intro k hk
  simp only [List.length_append, List.length_singleton] at hk
  rw [← e]
  by_cases h1 : k + 2 < dir.length
  · rw [List.getElem?_append_left h1, List.getElem?_eq_getElem h1]
    intro hh
    simp only [Option.some.injEq] at hh
    exact hP (hh ▸ List.getElem_mem h1)
  · rw [List.getElem?_append_right (by omega), specFileName_shape]
    have : k + 2 - dir.length = 0 ∨ k + 2 - dir.length = 1 ∨ k + 2 - dir.length = 2 := by omega
    rcases this with h | h | h <;> rw [h] <;> simp [sPfx]

/-! ## latest_mjd over a directory listing -/

theorem latestMjd_fold_spec (plate : Nat) (files : List (Nat × Nat)) : ∀ big : Nat,
    let M := files.foldl (fun big f => if f.1 == plate && f.2 > big then f.2 else big) big
    big ≤ M ∧ (∀ m, (plate, m) ∈ files → m ≤ M) ∧ (M = big ∨ (plate, M) ∈ files) := by
  induction files with
  | nil => intro big; simp
  | cons f t ih =>
    intro big
    simp only [List.foldl_cons]
    by_cases hc : (f.1 == plate && decide (f.2 > big)) = true
    · rw [if_pos hc]
      have := ih f.2
      simp only at this
      obtain ⟨h1, h2, h3⟩ := this
      simp only [Bool.and_eq_true, beq_iff_eq, gt_iff_lt, decide_eq_true_eq] at hc
      refine ⟨by omega, ?_, ?_⟩
      · intro m hm
        rcases List.mem_cons.mp hm with hm | hm
        · have e : f.2 = m := by rw [← hm]
          rw [e] at h1 ⊢
          exact h1
        · exact h2 m hm
      · rcases h3 with h3 | h3
        · right; rw [h3, ← hc.1]; exact List.mem_cons_self
        · right; exact List.mem_cons_of_mem _ h3
    · rw [if_neg hc]
      have := ih big
      simp only at this
      obtain ⟨h1, h2, h3⟩ := this
      refine ⟨h1, ?_, ?_⟩
      · intro m hm
        rcases List.mem_cons.mp hm with hm | hm
        · subst hm
          simp only [beq_self_eq_true, Bool.true_and, gt_iff_lt, decide_eq_true_eq] at hc
          omega
        · exact h2 m hm
      · rcases h3 with h3 | h3
        · left; exact h3
        · right; exact List.mem_cons_of_mem _ h3

/-- PROPERTY: the abstract `latestMjd` is the largest MJD among the plate's files, it is the MJD of one of them, and 0
exactly when the plate has no file with a positive MJD -/
theorem latestMjd_spec (files : List (Nat × Nat)) (plate : Nat) :
    (∀ m, (plate, m) ∈ files → m ≤ latestMjd files plate) ∧
    (latestMjd files plate = 0 ∨ (plate, latestMjd files plate) ∈ files) := by
  have := latestMjd_fold_spec plate files 0
  exact ⟨this.2.1, this.2.2⟩

/-- the listing of a directory that holds the spPlate files `files` (any plates, decoys included) -/
def listingOf (files : List (Nat × Nat)) : List (List Char) := files.map (fun f => specFileName f.1 f.2)

theorem latestMjdFS_fold (dir : List Char) (plate : Nat) (hP : 'P' ∉ dir) (files : List (Nat × Nat))
    (hm : ∀ f ∈ files, f.2 < 100000) : ∀ big : Nat,
    (listingOf files).foldlM (fun big name =>
      if globMatch plate name then
        match reSearch (dir ++ '/' :: name) with
        | none => (throw "AttributeError" : Except String Nat)
        | some m => pure (if m > big then m else big)
      else pure big) big
    = .ok (files.foldl (fun big f => if f.1 == plate && f.2 > big then f.2 else big) big) := by
  induction files with
  | nil => intro big; rfl
  | cons f t ih =>
    intro big
    simp only [listingOf, List.map_cons, List.foldlM_cons, List.foldl_cons]
    have ih' := ih (fun g hg => hm g (List.mem_cons_of_mem _ hg))
    simp only [listingOf] at ih'
    by_cases hq : plate = f.1
    · have hg : globMatch plate (specFileName f.1 f.2) = true := (globMatch_specFileName plate f.1 f.2).mpr hq
      rw [if_pos hg, reSearch_specFile dir f.1 f.2 hP (hm f List.mem_cons_self)]
      simp only [pure_bind]
      rw [ih']
      simp [hq]
    · have hg : ¬ globMatch plate (specFileName f.1 f.2) = true := fun h => hq ((globMatch_specFileName plate f.1 f.2).mp h)
      rw [if_neg hg]
      simp only [pure_bind]
      rw [ih']
      have : (f.1 == plate) = false := by simp; exact fun h => hq h.symm
      simp [this]

/-- PROPERTY: on a directory that holds spPlate files of any plates (decoys, plates ≥ 10000, repeated entries, any order),
latest_mjd over the LISTING (glob + regular expression + int) returns what the abstract `latestMjd` returns over the
(plate, MJD) pairs - so every theorem stated with `latestMjd` speaks about file names -/
theorem latestMjdFS_eq_latestMjd (dir : List Char) (plate : Nat) (hP : 'P' ∉ dir) (files : List (Nat × Nat))
    (hm : ∀ f ∈ files, f.2 < 100000) :
    latestMjdFS dir (listingOf files) plate = .ok (latestMjd files plate) :=
  latestMjdFS_fold dir plate hP files hm 0

/-- PROPERTY: latest_mjd over a listing returns the maximum MJD among the names of that plate, a file with that MJD is in
the listing (unless the result is 0 = "no file"), and files of other plates - decoys - play no role -/
theorem latestMjdFS_spec (dir : List Char) (plate : Nat) (hP : 'P' ∉ dir) (files : List (Nat × Nat))
    (hm : ∀ f ∈ files, f.2 < 100000) :
    ∃ M, latestMjdFS dir (listingOf files) plate = .ok M ∧
      (∀ m, specFileName plate m ∈ listingOf files → m ≤ M) ∧
      (M = 0 ∨ specFileName plate M ∈ listingOf files) ∧
      ((∀ m, specFileName plate m ∉ listingOf files) → M = 0) := by
  refine ⟨latestMjd files plate, latestMjdFS_eq_latestMjd dir plate hP files hm, ?_, ?_, ?_⟩
  · intro m hmem
    simp only [listingOf, List.mem_map] at hmem
    obtain ⟨f, hf, he⟩ := hmem
    have := specFileName_injective _ _ _ _ he
    exact (latestMjd_spec files plate).1 m (by rw [← this.1, ← this.2]; exact hf)
  · rcases (latestMjd_spec files plate).2 with h | h
    · left; exact h
    · right
      simp only [listingOf, List.mem_map]
      exact ⟨_, h, rfl⟩
  · intro hno
    rcases (latestMjd_spec files plate).2 with h | h
    · exact h
    · exact absurd (by simp only [listingOf, List.mem_map]; exact ⟨_, h, rfl⟩) (hno (latestMjd files plate))

theorem latestMjdFS_filter_fold (dir : List Char) (plate : Nat) (listing : List (List Char)) : ∀ big : Nat,
    listing.foldlM (fun big name =>
      if globMatch plate name then
        match reSearch (dir ++ '/' :: name) with
        | none => (throw "AttributeError" : Except String Nat)
        | some m => pure (if m > big then m else big)
      else pure big) big
    = (listing.filter (globMatch plate)).foldlM (fun big name =>
      if globMatch plate name then
        match reSearch (dir ++ '/' :: name) with
        | none => (throw "AttributeError" : Except String Nat)
        | some m => pure (if m > big then m else big)
      else pure big) big := by
  induction listing with
  | nil => intro big; rfl
  | cons x t ih =>
    intro big
    by_cases hx : globMatch plate x = true
    · rw [List.filter_cons_of_pos hx, List.foldlM_cons, List.foldlM_cons]
      congr 1
      funext b
      exact ih b
    · rw [List.filter_cons_of_neg hx, List.foldlM_cons, if_neg hx, pure_bind]
      exact ih big

/-- PROPERTY: every directory entry the glob does not pick (other plates, spZbest/photoPlate/platelist files, sub-directories,
anything) is irrelevant to latest_mjd: the result is that of the listing restricted to the globbed names -/
theorem latestMjdFS_ignores_unmatched (dir : List Char) (plate : Nat) (listing : List (List Char)) :
    latestMjdFS dir listing plate = latestMjdFS dir (listing.filter (globMatch plate)) plate :=
  latestMjdFS_filter_fold dir plate listing 0

end PydlVerif.C16

/-
C04: the two chunkDone passes of `chunks.assign` (core Lean only).
-/
import PydlVerif.Lemmas.SphereCore
namespace PydlVerif.Sphere

theorem resetPass_fst (cells : List (Nat × Nat)) (t : Tab CellSt) (c : Nat × Nat) :
    ((resetPass t cells).get c).1 = (t.get c).1 := by
  induction cells generalizing t with
  | nil => rfl
  | cons c0 rest ih =>
    simp only [resetPass, List.foldl_cons] at ih ⊢
    rw [ih]
    by_cases h : c0 = c
    · subst h
      rcases Tab.get_modify_same t c0 (fun x => (x.1, false)) with ⟨_, h2⟩ | ⟨_, h2, _⟩ <;> rw [h2]
    · rw [Tab.get_modify_ne _ _ _ _ h]

theorem resetPass_inb (cells : List (Nat × Nat)) (t : Tab CellSt) (c : Nat × Nat) :
    (resetPass t cells).inb c ↔ t.inb c := by
  induction cells generalizing t with
  | nil => exact Iff.rfl
  | cons c0 rest ih =>
    simp only [resetPass, List.foldl_cons] at ih ⊢
    rw [ih, Tab.inb_modify]

theorem resetPass_false (cells : List (Nat × Nat)) (t : Tab CellSt) (c : Nat × Nat)
    (h : c ∈ cells ∨ (t.get c).2 = false) : ((resetPass t cells).get c).2 = false := by
  induction cells generalizing t with
  | nil => simpa [resetPass] using h
  | cons c0 rest ih =>
    simp only [resetPass, List.foldl_cons] at ih ⊢
    apply ih
    by_cases hc : c0 = c
    · subst hc
      right
      rcases Tab.get_modify_same t c0 (fun x => (x.1, false)) with ⟨_, h2⟩ | ⟨_, h2, h3⟩
      · rw [h2]
      · rw [h2, h3]; rfl
    · rcases h with h | h
      · simp only [List.mem_cons] at h
        rcases h with h | h
        · exact absurd h.symm hc
        · exact Or.inl h
      · right; rw [Tab.get_modify_ne _ _ _ _ hc]; exact h

def appStep (i : Nat) (t : Tab CellSt) (c0 : Nat × Nat) : Tab CellSt :=
  if (t.get c0).2 then t else t.modify c0 fun x => (x.1 ++ [i], true)

theorem appendPass_cons (i : Nat) (t : Tab CellSt) (c0 : Nat × Nat) (rest : List (Nat × Nat)) :
    appendPass i t (c0 :: rest) = appendPass i (appStep i t c0) rest := rfl

theorem appStep_done (i : Nat) (t : Tab CellSt) (c0 : Nat × Nat) (hd : (t.get c0).2 = true) :
    appStep i t c0 = t := by simp [appStep, hd]

theorem appStep_not (i : Nat) (t : Tab CellSt) (c0 : Nat × Nat) (hd : ¬ (t.get c0).2 = true) :
    appStep i t c0 = t.modify c0 fun x => (x.1 ++ [i], true) := by simp [appStep, hd]

/-- invariant of the append pass for point `i` -/
def J (i : Nat) (t : Tab CellSt) : Prop :=
  ∀ c, (t.get c).1.Nodup ∧ (∀ x ∈ (t.get c).1, x ≤ i) ∧ (i ∈ (t.get c).1 → (t.get c).2 = true)

theorem appendPass_J (i : Nat) (cells : List (Nat × Nat)) (t : Tab CellSt) (h : J i t) :
    J i (appendPass i t cells) := by
  induction cells generalizing t with
  | nil => exact h
  | cons c0 rest ih =>
    rw [appendPass_cons]
    apply ih
    by_cases hd : (t.get c0).2 = true
    · rw [appStep_done _ _ _ hd]; exact h
    · rw [appStep_not _ _ _ hd]
      intro c
      by_cases hc : c0 = c
      · subst hc
        rcases Tab.get_modify_same t c0 (fun x => (x.1 ++ [i], true)) with ⟨_, h2⟩ | ⟨_, h2, _⟩
        · rw [h2]
          obtain ⟨h1, h3, h4⟩ := h c0
          have hni : i ∉ (t.get c0).1 := fun hi => hd (h4 hi)
          refine ⟨?_, ?_, fun _ => rfl⟩
          · rw [List.nodup_append]
            refine ⟨h1, by simp, ?_⟩
            intro a ha b hb hab
            simp only [List.mem_singleton] at hb
            subst hb; subst hab; exact hni ha
          · intro x hx
            simp only [List.mem_append, List.mem_singleton] at hx
            rcases hx with hx | hx
            · exact h3 x hx
            · omega
        · rw [h2]; exact h c0
      · rw [Tab.get_modify_ne _ _ _ _ hc]; exact h c

/-- done ⇒ already stored, on the reset range `R` -/
def H (i : Nat) (R : List (Nat × Nat)) (t : Tab CellSt) : Prop :=
  ∀ c ∈ R, (t.get c).2 = true → i ∈ (t.get c).1

theorem appendPass_spec (i : Nat) (R : List (Nat × Nat)) (cells : List (Nat × Nat)) (t : Tab CellSt)
    (hsub : ∀ c ∈ cells, c ∈ R) (hH : H i R t) :
    H i R (appendPass i t cells) ∧
    (∀ c x, x ∈ (t.get c).1 → x ∈ ((appendPass i t cells).get c).1) ∧
    (∀ c ∈ cells, t.inb c → i ∈ ((appendPass i t cells).get c).1) ∧
    (∀ c, (appendPass i t cells).inb c ↔ t.inb c) := by
  induction cells generalizing t with
  | nil => exact ⟨hH, fun _ _ h => h, by simp, fun _ => Iff.rfl⟩
  | cons c0 rest ih =>
    have hsub' : ∀ c ∈ rest, c ∈ R := fun c hc => hsub c (by simp [hc])
    have hc0R : c0 ∈ R := hsub c0 (by simp)
    rw [appendPass_cons]
    by_cases hd : (t.get c0).2 = true
    · rw [appStep_done _ _ _ hd]
      obtain ⟨a1, a2, a3, a4⟩ := ih t hsub' hH
      refine ⟨a1, a2, ?_, a4⟩
      intro c hc hin
      simp only [List.mem_cons] at hc
      rcases hc with hc | hc
      · subst hc; exact a2 _ _ (hH _ hc0R hd)
      · exact a3 c hc hin
    · rw [appStep_not _ _ _ hd]
      let t' := Tab.modify t c0 (fun x => (x.1 ++ [i], true))
      have hH' : H i R t' := by
        intro c hc hdone
        by_cases hcc : c0 = c
        · subst hcc
          rcases Tab.get_modify_same t c0 (fun x => (x.1 ++ [i], true)) with ⟨_, h2⟩ | ⟨_, h2, _⟩
          · show i ∈ (t'.get c0).1
            rw [show t'.get c0 = _ from h2]; simp
          · have : (t'.get c0) = t.get c0 := h2
            rw [this] at hdone; exact absurd hdone hd
        · have : t'.get c = t.get c := Tab.get_modify_ne _ _ _ _ hcc
          rw [this] at hdone ⊢; exact hH c hc hdone
      have hmono : ∀ c x, x ∈ (t.get c).1 → x ∈ (t'.get c).1 := by
        intro c x hx
        by_cases hcc : c0 = c
        · subst hcc
          rcases Tab.get_modify_same t c0 (fun x => (x.1 ++ [i], true)) with ⟨_, h2⟩ | ⟨_, h2, _⟩
          · rw [show t'.get c0 = _ from h2]; simp [hx]
          · rw [show t'.get c0 = _ from h2]; exact hx
        · rw [show t'.get c = t.get c from Tab.get_modify_ne _ _ _ _ hcc]; exact hx
      obtain ⟨a1, a2, a3, a4⟩ := ih t' hsub' hH'
      refine ⟨a1, fun c x hx => a2 c x (hmono c x hx), ?_, fun c => (a4 c).trans (Tab.inb_modify _ _ _ _)⟩
      intro c hc hin
      simp only [List.mem_cons] at hc
      rcases hc with hc | hc
      · subst hc
        apply a2
        rcases Tab.get_modify_same t c (fun x => (x.1 ++ [i], true)) with ⟨_, h2⟩ | ⟨h1, _, _⟩
        · rw [show t'.get c = _ from h2]; simp
        · exact absurd hin h1
      · exact a3 c hc ((Tab.inb_modify _ _ _ _).2 hin)

theorem assignAll_succ (n : Nat) (R V : Nat → List (Nat × Nat)) (init : Tab CellSt) :
    assignAll (n+1) R V init = assignCells n (assignAll n R V init) (R n) (V n) := by
  simp [assignAll, List.range_succ, List.foldl_append]

theorem assignAll_inb (n : Nat) (R V : Nat → List (Nat × Nat)) (init : Tab CellSt) (c : Nat × Nat) :
    (assignAll n R V init).inb c ↔ init.inb c := by
  induction n with
  | zero => simp [assignAll]
  | succ n ih =>
    rw [assignAll_succ, assignCells]
    have key : ∀ (cells : List (Nat × Nat)) (t : Tab CellSt), (appendPass n t cells).inb c ↔ t.inb c := by
      intro cells
      induction cells with
      | nil => intro t; exact Iff.rfl
      | cons c0 rest ih2 =>
        intro t
        rw [appendPass_cons]
        by_cases hd : (t.get c0).2 = true
        · rw [appStep_done _ _ _ hd]; exact ih2 t
        · rw [appStep_not _ _ _ hd, ih2, Tab.inb_modify]
    rw [key, resetPass_inb, ih]

/-- lists never lose an entry -/
theorem assignCells_mono (i : Nat) (t : Tab CellSt) (R V : List (Nat × Nat)) (c : Nat × Nat) (x : Nat)
    (hx : x ∈ (t.get c).1) : x ∈ ((assignCells i t R V).get c).1 := by
  have key : ∀ (cells : List (Nat × Nat)) (t : Tab CellSt), x ∈ (t.get c).1 →
      x ∈ ((appendPass i t cells).get c).1 := by
    intro cells
    induction cells with
    | nil => intro t h; exact h
    | cons c0 rest ih2 =>
      intro t h
      rw [appendPass_cons]
      by_cases hd : (t.get c0).2 = true
      · rw [appStep_done _ _ _ hd]; exact ih2 t h
      · rw [appStep_not _ _ _ hd]
        apply ih2
        by_cases hcc : c0 = c
        · subst hcc
          rcases Tab.get_modify_same t c0 (fun x => (x.1 ++ [i], true)) with ⟨_, h2⟩ | ⟨_, h2, _⟩
          · rw [h2]; simp [h]
          · rw [h2]; exact h
        · rw [Tab.get_modify_ne _ _ _ _ hcc]; exact h
  unfold assignCells
  apply key
  rw [resetPass_fst]; exact hx

/-- every point is stored in every (existing) cell it visits, provided the
visited cells were reset (`V i ⊆ R i`, lines 166-175 cover lines 176-177) -/
theorem assignAll_mem (n : Nat) (R V : Nat → List (Nat × Nat)) (init : Tab CellSt)
    (hsub : ∀ i < n, ∀ c ∈ V i, c ∈ R i) :
    ∀ i < n, ∀ c ∈ V i, init.inb c → i ∈ ((assignAll n R V init).get c).1 := by
  induction n with
  | zero => intro i hi; omega
  | succ n ih =>
    intro i hi c hc hin
    rw [assignAll_succ]
    by_cases hlt : i < n
    · exact assignCells_mono _ _ _ _ _ _ (ih (fun j hj => hsub j (by omega)) i hlt c hc hin)
    · have hin' : i = n := by omega
      subst hin'
      unfold assignCells
      have hH : H i (R i) (resetPass (assignAll i R V init) (R i)) := by
        intro c hc hd
        rw [resetPass_false _ _ _ (Or.inl hc)] at hd; exact absurd hd (by simp)
      obtain ⟨_, _, a3, _⟩ := appendPass_spec i (R i) (V i) _ (hsub i hi) hH
      exact a3 c hc ((resetPass_inb _ _ _).2 ((assignAll_inb _ _ _ _ _).2 hin))

/-- whatever cells are visited (also the same cell several times), no index is
stored twice in a cell list -/
theorem assignAll_nodup (n : Nat) (R V : Nat → List (Nat × Nat)) (init : Tab CellSt)
    (h0 : ∀ c, (init.get c).1 = []) :
    ∀ c, ((assignAll n R V init).get c).1.Nodup ∧ ∀ x ∈ ((assignAll n R V init).get c).1, x < n := by
  induction n with
  | zero => intro c; simp [assignAll, h0]
  | succ n ih =>
    intro c
    rw [assignAll_succ]
    unfold assignCells
    have hJ : J n (resetPass (assignAll n R V init) (R n)) := by
      intro c
      rw [resetPass_fst]
      refine ⟨(ih c).1, fun x hx => Nat.le_of_lt ((ih c).2 x hx), fun hn => ?_⟩
      exact absurd ((ih c).2 n hn) (Nat.lt_irrefl n)
    have := appendPass_J n (V n) _ hJ c
    exact ⟨this.1, fun x hx => Nat.lt_succ_of_le (this.2.1 x hx)⟩

end PydlVerif.Sphere

/-
C04: what `chunks.getbounds` returns when it returns, when it returns, and which cells
`cellsOfRange` then lists (core Lean only; any scalar type).
-/
import PydlVerif.Lemmas.SphereIndex
namespace PydlVerif.Sphere

/-! ### `mapM` in `Except` -/

theorem mapM_ok {ε α β : Type} (f : α → Except ε β) : ∀ (l : List α) (rs : List β), l.mapM f = .ok rs →
    rs.length = l.length ∧ ∀ k, (hk : k < l.length) → ∃ r, f l[k] = .ok r ∧ rs[k]? = some r := by
  intro l
  induction l with
  | nil =>
    intro rs h
    simp only [List.mapM_nil, pure, Except.pure, Except.ok.injEq] at h
    subst h
    exact ⟨rfl, fun k hk => absurd hk (Nat.not_lt_zero k)⟩
  | cons a l ih =>
    intro rs h
    simp only [List.mapM_cons, bind, Except.bind] at h
    cases hfa : f a with
    | error e => rw [hfa] at h; cases h
    | ok r0 =>
      rw [hfa] at h
      cases hl : l.mapM f with
      | error e => rw [hl] at h; cases h
      | ok rs0 =>
        rw [hl] at h
        simp only [pure, Except.pure, Except.ok.injEq] at h
        subst h
        obtain ⟨h1, h2⟩ := ih rs0 hl
        refine ⟨by simp [h1], ?_⟩
        intro k hk
        cases k with
        | zero => exact ⟨r0, hfa, rfl⟩
        | succ k =>
          obtain ⟨r, hr1, hr2⟩ := h2 k (by simpa using hk)
          exact ⟨r, by simpa using hr1, by simpa using hr2⟩

theorem mapM_ok_of {ε α β : Type} (f : α → Except ε β) : ∀ (l : List α), (∀ a ∈ l, ∃ r, f a = .ok r) →
    ∃ rs, l.mapM f = .ok rs := by
  intro l
  induction l with
  | nil => intro _; exact ⟨[], rfl⟩
  | cons a l ih =>
    intro h
    obtain ⟨r0, hr0⟩ := h a (by simp)
    obtain ⟨rs, hrs⟩ := ih (fun x hx => h x (by simp [hx]))
    refine ⟨r0 :: rs, ?_⟩
    simp only [List.mapM_cons, bind, Except.bind, hr0, hrs, pure, Except.pure]

section
variable {α : Type} [Trig α]

/-- the body of the loop over declination bands in `getbounds` -/
def bandBounds (g : Grid α) (ra dec m : α) (i : Nat) : Except String (Int × Int) := do
  let c := cosDecMinOf g.decBounds i
  let raMargin := raMarginOf c dec m
  let n := g.nRa.getD i 0
  let b := g.raBounds.getD i #[]
  let r0 := cellIndex b n ra
  if r0 < 0 ∨ r0 > (n : Int) - 1 then throw "PydlutilsException: raChunkMin out of range"
  let r0 := r0.toNat
  pure (raDown b ra raMargin r0, ((raUp b ra raMargin r0 (n - r0) : Nat) : Int))

theorem getbounds_eq (g : Grid α) (ra dec m : α) :
    getbounds g ra dec m = (do
      let d0 := decIndex g dec
      if d0 < 0 ∨ d0 > (g.nDec : Int) - 1 then throw "PydlutilsException: decChunkMin out of range"
      let d0 := d0.toNat
      let dMin := decDown g.decBounds dec m d0
      let dMax := decUp g.decBounds dec m d0 (g.nDec - 1 - d0)
      let ras ← ((List.range (dMax + 1 - dMin)).map (· + dMin)).mapM (bandBounds g ra dec m)
      pure ⟨dMin, dMax, ras⟩) := rfl

/-- one band of `getbounds` returns iff the RA index of the point is a cell of the band -/
theorem bandBounds_ok (g : Grid α) (ra dec m : α) (i : Nat) (r0 : Nat)
    (h0 : cellIndex (g.raBounds.getD i #[]) (g.nRa.getD i 0) ra = (r0 : Int)) (h1 : r0 < g.nRa.getD i 0) :
    bandBounds g ra dec m i = .ok
      (raDown (g.raBounds.getD i #[]) ra (raMarginOf (cosDecMinOf g.decBounds i) dec m) r0,
       ((raUp (g.raBounds.getD i #[]) ra (raMarginOf (cosDecMinOf g.decBounds i) dec m) r0
          (g.nRa.getD i 0 - r0) : Nat) : Int)) := by
  unfold bandBounds
  simp only [bind, Except.bind, pure, Except.pure, h0]
  rw [if_neg (by omega)]
  simp

theorem bandBounds_inv (g : Grid α) (ra dec m : α) (i : Nat) (x : Int × Int)
    (h : bandBounds g ra dec m i = .ok x) :
    ∃ r0 : Nat, cellIndex (g.raBounds.getD i #[]) (g.nRa.getD i 0) ra = (r0 : Int) ∧ r0 < g.nRa.getD i 0 ∧
      x = (raDown (g.raBounds.getD i #[]) ra (raMarginOf (cosDecMinOf g.decBounds i) dec m) r0,
       ((raUp (g.raBounds.getD i #[]) ra (raMarginOf (cosDecMinOf g.decBounds i) dec m) r0
          (g.nRa.getD i 0 - r0) : Nat) : Int)) := by
  unfold bandBounds at h
  simp only [bind, Except.bind, pure, Except.pure] at h
  split at h
  · cases h
  · rename_i hr
    refine ⟨(cellIndex (g.raBounds.getD i #[]) (g.nRa.getD i 0) ra).toNat, by omega, by omega, ?_⟩
    simp only [Except.ok.injEq] at h
    exact h.symm

/-- `getbounds` returned `B`: the declination range comes from the two dec loops started at the
point's own band, and for every band of that range the RA range comes from the two RA loops
started at the point's own cell of that band -/
theorem getbounds_inv (g : Grid α) (ra dec m : α) (B : Bounds) (h : getbounds g ra dec m = .ok B) :
    ∃ d0 : Nat, decIndex g dec = (d0 : Int) ∧ d0 < g.nDec ∧
      B.decMin = decDown g.decBounds dec m d0 ∧
      B.decMax = decUp g.decBounds dec m d0 (g.nDec - 1 - d0) ∧
      B.ra.length = B.decMax + 1 - B.decMin ∧
      ∀ k, k < B.decMax + 1 - B.decMin → ∃ r0 : Nat,
        cellIndex (g.raBounds.getD (k + B.decMin) #[]) (g.nRa.getD (k + B.decMin) 0) ra = (r0 : Int) ∧
        r0 < g.nRa.getD (k + B.decMin) 0 ∧
        B.ra[k]? = some
          (raDown (g.raBounds.getD (k + B.decMin) #[]) ra
              (raMarginOf (cosDecMinOf g.decBounds (k + B.decMin)) dec m) r0,
           ((raUp (g.raBounds.getD (k + B.decMin) #[]) ra
              (raMarginOf (cosDecMinOf g.decBounds (k + B.decMin)) dec m) r0
              (g.nRa.getD (k + B.decMin) 0 - r0) : Nat) : Int)) := by
  rw [getbounds_eq] at h
  simp only [bind, Except.bind, pure, Except.pure] at h
  split at h
  · cases h
  · rename_i hd
    split at h
    · cases h
    · rename_i ras hras
      simp only [Except.ok.injEq] at h
      subst h
      obtain ⟨hlen, hall⟩ := mapM_ok _ _ _ hras
      refine ⟨(decIndex g dec).toNat, by omega, by omega, rfl, rfl, ?_, ?_⟩
      · simpa using hlen
      · intro k hk
        obtain ⟨x, hx1, hx2⟩ := hall k (by simpa using hk)
        simp only [List.getElem_map, List.getElem_range] at hx1
        obtain ⟨r0, h1, h2, h3⟩ := bandBounds_inv g ra dec m _ x hx1
        exact ⟨r0, h1, h2, by rw [hx2, h3]⟩

/-- `getbounds` returns when the point's band exists and its RA index is a cell in every band
of the declination range -/
theorem getbounds_ok (g : Grid α) (ra dec m : α) (d0 : Nat)
    (h0 : decIndex g dec = (d0 : Int)) (h1 : d0 < g.nDec)
    (hra : ∀ d, decDown g.decBounds dec m d0 ≤ d → d ≤ decUp g.decBounds dec m d0 (g.nDec - 1 - d0) →
      0 ≤ cellIndex (g.raBounds.getD d #[]) (g.nRa.getD d 0) ra ∧
      cellIndex (g.raBounds.getD d #[]) (g.nRa.getD d 0) ra < (g.nRa.getD d 0 : Int)) :
    ∃ B, getbounds g ra dec m = .ok B := by
  rw [getbounds_eq]
  simp only [bind, Except.bind, pure, Except.pure, h0]
  rw [if_neg (by omega)]
  simp only [Int.toNat_natCast]
  obtain ⟨rs, hrs⟩ := mapM_ok_of (bandBounds g ra dec m)
    ((List.range (decUp g.decBounds dec m d0 (g.nDec - 1 - d0) + 1 - decDown g.decBounds dec m d0)).map
      (· + decDown g.decBounds dec m d0)) (by
      intro a ha
      simp only [List.mem_map, List.mem_range] at ha
      obtain ⟨k, hk, rfl⟩ := ha
      obtain ⟨h2, h3⟩ := hra (k + decDown g.decBounds dec m d0) (by omega) (by omega)
      obtain ⟨r0, hr0⟩ := Int.eq_ofNat_of_zero_le h2
      exact ⟨_, bandBounds_ok g ra dec m _ r0 hr0 (by omega)⟩)
  rw [hrs]
  exact ⟨_, rfl⟩

end

/-- a cell is listed by `cellsOfRange` (visit pass: no widening) when its band is in the
declination range and some index of the band's RA range wraps onto it -/
theorem mem_cellsOfRange (nRa : Array Nat) (B : Bounds) (d c : Nat) (lo hi r : Int)
    (hd1 : B.decMin ≤ d) (hd2 : d ≤ B.decMax) (hra : B.ra[d - B.decMin]? = some (lo, hi))
    (hr1 : lo ≤ r) (hr2 : r ≤ hi) (hw : wrapIdx (nRa.getD d 0) r = some c) :
    (d, c) ∈ cellsOfRange nRa B 0 := by
  simp only [cellsOfRange, List.mem_flatMap, List.mem_filterMap, mem_irange, Option.map_eq_some_iff]
  refine ⟨(d - B.decMin, (lo, hi)), ?_, r, ⟨by simp only; omega, by simp only; omega⟩, c, ?_, ?_⟩
  · rw [List.mem_iff_getElem?]
    refine ⟨d - B.decMin, ?_⟩
    rw [List.getElem?_zip_eq_some]
    refine ⟨?_, hra⟩
    rw [List.getElem?_range (by omega)]
  · have : d - B.decMin + B.decMin = d := by omega
    simpa only [this] using hw
  · have : d - B.decMin + B.decMin = d := by omega
    simp only [this]

end PydlVerif.Sphere

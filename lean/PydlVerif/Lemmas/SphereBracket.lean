/-
C04: the floor-formula index of `chunks.get` / `chunks.getbounds` against the tabulated edges,
over any linearly ordered field with floor: for equally spaced edges the computed index is the
cell whose edges bracket the point.
-/
import PydlVerif.Lemmas.SphereGridDef
namespace PydlVerif.Sphere

section
variable {K : Type} [Field K] [LinearOrder K] [IsStrictOrderedRing K] [FloorRing K]
attribute [local instance] fieldScalar
attribute [-instance] Scalar.instOfNat Scalar.instOfScientific

/-- `Scalar`'s zero literal (the default of `getD` in the model) is the field's zero -/
theorem scalar_zero : (@OfNat.ofNat K 0 Scalar.instOfNat) = (0 : K) := Nat.cast_zero

theorem cellIndex_field (b : Array K) (n : Nat) (x : K) :
    cellIndex b n x = ⌊(x - b.getD 0 0) * (n : K) / (b.getD n 0 - b.getD 0 0)⌋ := by
  unfold cellIndex
  simp only [scalar_zero, scalar_floor, scalar_ofNat]

/-- equally spaced edges are non-decreasing -/
theorem EdgesOK.mono {b : Array K} {n : Nat} (h : EdgesOK b n) (i j : Nat) (hij : i ≤ j) (hj : j ≤ n) :
    b.getD i 0 ≤ b.getD j 0 := by
  rw [h.lin i (by omega), h.lin j hj]
  have hn : (0 : K) < n := by exact_mod_cast h.pos
  have hw : 0 < b.getD n 0 - b.getD 0 0 := sub_pos.2 h.lt
  have hij' : (i : K) ≤ j := by exact_mod_cast hij
  have : (b.getD n 0 - b.getD 0 0) * (i : K) / n ≤ (b.getD n 0 - b.getD 0 0) * (j : K) / n := by
    apply div_le_div_of_nonneg_right _ hn.le
    exact mul_le_mul_of_nonneg_left hij' hw.le
  linarith

/-- strictly increasing, in fact -/
theorem EdgesOK.strictMono {b : Array K} {n : Nat} (h : EdgesOK b n) (i j : Nat) (hij : i < j) (hj : j ≤ n) :
    b.getD i 0 < b.getD j 0 := by
  rw [h.lin i (by omega), h.lin j hj]
  have hn : (0 : K) < n := by exact_mod_cast h.pos
  have hw : 0 < b.getD n 0 - b.getD 0 0 := sub_pos.2 h.lt
  have hij' : (i : K) < j := by exact_mod_cast hij
  have : (b.getD n 0 - b.getD 0 0) * (i : K) / n < (b.getD n 0 - b.getD 0 0) * (j : K) / n := by
    apply div_lt_div_of_pos_right _ hn
    exact mul_lt_mul_of_pos_left hij' hw
  linarith

/-- `get_bracket`: the index computed by the floor formula names the cell whose tabulated edges
bracket the point: `b[i] ≤ x < b[i+1]` -/
theorem cellIndex_bracket {b : Array K} {n : Nat} (h : EdgesOK b n) (x : K) (i : Nat) (hi : i < n)
    (hc : cellIndex b n x = (i : Int)) : b.getD i 0 ≤ x ∧ x < b.getD (i + 1) 0 := by
  rw [cellIndex_field] at hc
  have hn : (0 : K) < n := by exact_mod_cast h.pos
  have hw : 0 < b.getD n 0 - b.getD 0 0 := sub_pos.2 h.lt
  have h1 : ((i : Int) : K) ≤ (x - b.getD 0 0) * (n : K) / (b.getD n 0 - b.getD 0 0) := by
    rw [← hc]; exact Int.floor_le _
  have h2 : (x - b.getD 0 0) * (n : K) / (b.getD n 0 - b.getD 0 0) < ((i : Int) : K) + 1 := by
    rw [← hc]; exact Int.lt_floor_add_one _
  rw [le_div_iff₀ hw] at h1
  rw [div_lt_iff₀ hw] at h2
  push_cast at h1 h2
  rw [h.lin i (by omega), h.lin (i + 1) (by omega)]
  constructor
  · have : (b.getD n 0 - b.getD 0 0) * (i : K) / n ≤ x - b.getD 0 0 := by
      rw [div_le_iff₀ hn]; linarith
    linarith
  · have : x - b.getD 0 0 < (b.getD n 0 - b.getD 0 0) * ((i + 1 : Nat) : K) / n := by
      rw [lt_div_iff₀ hn]; push_cast; linarith
    linarith

/-- a point at or above the first edge has a non-negative index -/
theorem cellIndex_nonneg {b : Array K} {n : Nat} (h : EdgesOK b n) (x : K) (hx : b.getD 0 0 ≤ x) :
    0 ≤ cellIndex b n x := by
  rw [cellIndex_field]
  have hn : (0 : K) < n := by exact_mod_cast h.pos
  have hw : 0 < b.getD n 0 - b.getD 0 0 := sub_pos.2 h.lt
  apply Int.floor_nonneg.2
  apply div_nonneg _ hw.le
  exact mul_nonneg (sub_nonneg.2 hx) hn.le

/-- a point below the last edge has an index below `n` -/
theorem cellIndex_lt {b : Array K} {n : Nat} (h : EdgesOK b n) (x : K) (hx : x < b.getD n 0) :
    cellIndex b n x < (n : Int) := by
  rw [cellIndex_field]
  have hn : (0 : K) < n := by exact_mod_cast h.pos
  have hw : 0 < b.getD n 0 - b.getD 0 0 := sub_pos.2 h.lt
  rw [Int.floor_lt]
  push_cast
  rw [div_lt_iff₀ hw]
  have : x - b.getD 0 0 < b.getD n 0 - b.getD 0 0 := by linarith
  nlinarith

/-- an index of `n` or more means the point is at or above the last edge -/
theorem le_of_cellIndex_ge {b : Array K} {n : Nat} (h : EdgesOK b n) (x : K)
    (hc : (n : Int) ≤ cellIndex b n x) : b.getD n 0 ≤ x := by
  by_contra hlt
  have := cellIndex_lt h x (not_le.1 hlt)
  omega

/-- a point ON the last edge gets index `n` -/
theorem cellIndex_last {b : Array K} {n : Nat} (h : EdgesOK b n) : cellIndex b n (b.getD n 0) = (n : Int) := by
  rw [cellIndex_field]
  have hw : b.getD n 0 - b.getD 0 0 ≠ 0 := (sub_pos.2 h.lt).ne'
  rw [mul_comm, mul_div_assoc, div_self hw, mul_one]
  exact Int.floor_natCast n

/-- conversely the bracketing cell is the computed one -/
theorem cellIndex_unique {b : Array K} {n : Nat} (h : EdgesOK b n) (x : K) (j : Nat) (hj : j < n)
    (hx : b.getD j 0 ≤ x ∧ x < b.getD (j + 1) 0) : cellIndex b n x = (j : Int) := by
  have h0 : 0 ≤ cellIndex b n x :=
    cellIndex_nonneg h x (le_trans (h.mono 0 j (by omega) (by omega)) hx.1)
  have h1 : cellIndex b n x < (n : Int) :=
    cellIndex_lt h x (lt_of_lt_of_le hx.2 (h.mono (j + 1) n (by omega) (by omega)))
  obtain ⟨i, hi⟩ := Int.eq_ofNat_of_zero_le h0
  have hin : i < n := by omega
  have hb := cellIndex_bracket h x i hin hi
  rw [hi]
  by_contra hne
  rcases Nat.lt_or_gt_of_ne (show i ≠ j from fun e => hne (by rw [e])) with hlt | hgt
  · have := h.mono (i + 1) j (by omega) (by omega); linarith [hb.2, hx.1]
  · have := h.mono (j + 1) i (by omega) (by omega); linarith [hb.1, hx.2]

end

section
variable {K : Type} [Field K] [LinearOrder K] [IsStrictOrderedRing K] [FloorRing K] [TrigFns K]
attribute [local instance] fieldScalar fieldTrig
attribute [-instance] Scalar.instOfNat Scalar.instOfScientific

theorem decIndex_field (g : Grid K) (dec : K) :
    decIndex g dec = if cellIndex g.decBounds g.nDec dec = (g.nDec : Int) ∧ dec ≤ g.decBounds.getD g.nDec 0
      then (g.nDec : Int) - 1 else cellIndex g.decBounds g.nDec dec := by
  unfold decIndex
  simp only [scalar_zero]

/-- the declination band of `get`/`getbounds` (floor formula + upper-boundary rule): its edges
bracket the point, `b[i] ≤ dec ≤ b[i+1]`, strictly on the right except ON the last edge -/
theorem decIndex_bracket (g : Grid K) (h : EdgesOK g.decBounds g.nDec) (dec : K) (i : Nat) (hi : i < g.nDec)
    (hc : decIndex g dec = (i : Int)) :
    g.decBounds.getD i 0 ≤ dec ∧ dec ≤ g.decBounds.getD (i + 1) 0 ∧
    (dec < g.decBounds.getD (i + 1) 0 ∨ (i + 1 = g.nDec ∧ dec = g.decBounds.getD g.nDec 0)) := by
  rw [decIndex_field] at hc
  split at hc
  · rename_i hcl
    have hin : i + 1 = g.nDec := by omega
    have hge := le_of_cellIndex_ge h dec (by omega)
    have heq : dec = g.decBounds.getD g.nDec 0 := le_antisymm hcl.2 hge
    refine ⟨?_, ?_, Or.inr ⟨hin, heq⟩⟩
    · rw [heq]; exact h.mono i g.nDec (by omega) (by omega)
    · rw [hin]; exact hcl.2
  · obtain ⟨h1, h2⟩ := cellIndex_bracket h dec i hi hc
    exact ⟨h1, h2.le, Or.inl h2⟩

/-- every declination inside the closed extent of the grid has a band -/
theorem decIndex_range (g : Grid K) (h : EdgesOK g.decBounds g.nDec) (dec : K)
    (h0 : g.decBounds.getD 0 0 ≤ dec) (h1 : dec ≤ g.decBounds.getD g.nDec 0) :
    0 ≤ decIndex g dec ∧ decIndex g dec < (g.nDec : Int) := by
  have hpos : (0 : Int) < g.nDec := by exact_mod_cast h.pos
  rw [decIndex_field]
  split
  · omega
  · rename_i hcl
    have hnn := cellIndex_nonneg h dec h0
    refine ⟨hnn, ?_⟩
    rcases lt_or_eq_of_le h1 with hlt | heq
    · exact cellIndex_lt h dec hlt
    · exfalso; apply hcl; rw [heq]; exact ⟨cellIndex_last h, le_refl _⟩

/-- `chunks.get` on a grid with equally spaced edges: the returned (band, cell) exists and its
tabulated edges bracket the point in declination (≤ on the right: the upper-boundary rule) and in
right ascension -/
theorem get_bracket (g : Grid K) (ra dec : K) (d r : Nat)
    (hdec : EdgesOK g.decBounds g.nDec)
    (hra : ∀ d, d < g.nDec → EdgesOK (g.raBounds.getD d #[]) (g.nRa.getD d 0))
    (h : get g ra dec = .ok (d, r)) :
    d < g.nDec ∧ r < g.nRa.getD d 0 ∧
    (g.decBounds.getD d 0 ≤ dec ∧ dec ≤ g.decBounds.getD (d + 1) 0 ∧
      (dec < g.decBounds.getD (d + 1) 0 ∨ (d + 1 = g.nDec ∧ dec = g.decBounds.getD g.nDec 0))) ∧
    ((g.raBounds.getD d #[]).getD r 0 ≤ ra ∧ ra < (g.raBounds.getD d #[]).getD (r + 1) 0) := by
  unfold get at h
  simp only [bind, Except.bind, pure, Except.pure] at h
  split at h
  · rename_i hd
    split at h
    · cases h
    · rename_i hr
      simp only [Except.ok.injEq, Prod.mk.injEq] at h
      obtain ⟨h1, h2⟩ := h
      subst h1
      subst h2
      have hdn : (decIndex g dec).toNat < g.nDec := by omega
      have hd' : (decIndex g dec) = ((decIndex g dec).toNat : Int) := by omega
      refine ⟨hdn, by omega, decIndex_bracket g hdec dec _ hdn hd', cellIndex_bracket (hra _ hdn) ra _ (by omega) (by omega)⟩
  · cases h

end
end PydlVerif.Sphere

/-
C04 combinatorial lemmas (core Lean only): pair loop, sorting permutation,
greedy bookkeeping, the two passes of assign.
-/
import PydlVerif.Lemmas.SphereCore
namespace PydlVerif.Sphere

/-! ### pair loop -/

/-- the specification list: all pairs closer than the match length, in index order -/
def closePairs {α : Type} [LT α] [DecidableLT α] (n1 n2 : Nat) (sep : Nat → Nat → α) (ml : α) :
    List (Pair α) :=
  (List.range n1).flatMap fun i =>
    ((List.range n2).filter fun k => decide (sep i k < ml)).map fun k => (i, k, sep i k)

theorem perm_flatMap_of_forall {β γ : Type} (l : List β) (f g : β → List γ)
    (h : ∀ a ∈ l, (f a).Perm (g a)) : (l.flatMap f).Perm (l.flatMap g) := by
  induction l with
  | nil => simp
  | cons a l ih =>
    simp only [List.flatMap_cons]
    exact List.Perm.append (h a (by simp)) (ih fun b hb => h b (by simp [hb]))

theorem matchRaw_perm {α Cell : Type} [LT α] [DecidableLT α] (n1 n2 : Nat) (cellOf : Nat → Cell)
    (chunkList : Cell → List Nat) (sep : Nat → Nat → α) (ml : α)
    (hnd : ∀ i < n1, (chunkList (cellOf i)).Nodup)
    (hrange : ∀ i < n1, ∀ k ∈ chunkList (cellOf i), k < n2)
    (hcover : ∀ i < n1, ∀ k < n2, sep i k < ml → k ∈ chunkList (cellOf i)) :
    (matchRaw n1 cellOf chunkList sep ml).Perm (closePairs n1 n2 sep ml) := by
  unfold matchRaw closePairs
  apply perm_flatMap_of_forall
  intro i hi
  have hi' : i < n1 := by simpa using hi
  apply List.Perm.map
  apply (List.perm_ext_iff_of_nodup ((hnd i hi').filter _) (List.nodup_range.filter _)).2
  intro k
  simp only [List.mem_filter, List.mem_range, decide_eq_true_eq]
  constructor
  · rintro ⟨h1, h2⟩; exact ⟨hrange i hi' k h1, h2⟩
  · rintro ⟨h1, h2⟩; exact ⟨hcover i hi' k h1 h2, h2⟩

theorem closePairs_mem {α : Type} [LT α] [DecidableLT α] (n1 n2 : Nat) (sep : Nat → Nat → α) (ml : α)
    (p : Pair α) : p ∈ closePairs n1 n2 sep ml ↔
      p.1 < n1 ∧ p.2.1 < n2 ∧ sep p.1 p.2.1 < ml ∧ p.2.2 = sep p.1 p.2.1 := by
  obtain ⟨i, k, d⟩ := p
  simp only [closePairs, List.mem_flatMap, List.mem_range, List.mem_map, List.mem_filter,
    decide_eq_true_eq, Prod.mk.injEq]
  constructor
  · rintro ⟨a, ha, b, ⟨hb, hs⟩, rfl, rfl, rfl⟩; exact ⟨ha, hb, hs, rfl⟩
  · rintro ⟨h1, h2, h3, h4⟩; exact ⟨i, h1, k, ⟨h2, h3⟩, rfl, rfl, h4.symm⟩

theorem nodup_flatMap_of {β γ : Type} (l : List β) (f : β → List γ) (h1 : ∀ a ∈ l, (f a).Nodup)
    (h2 : l.Pairwise fun a b => ∀ x ∈ f a, x ∉ f b) : (l.flatMap f).Nodup := by
  induction l with
  | nil => simp
  | cons a l ih =>
    rw [List.pairwise_cons] at h2
    simp only [List.flatMap_cons]
    rw [List.nodup_append]
    refine ⟨h1 a (by simp), ih (fun b hb => h1 b (by simp [hb])) h2.2, ?_⟩
    intro x hx y hy hxy
    subst hxy
    rw [List.mem_flatMap] at hy
    obtain ⟨b, hb, hxb⟩ := hy
    exact h2.1 b hb x hx hxb

theorem closePairs_nodup {α : Type} [LT α] [DecidableLT α] (n1 n2 : Nat) (sep : Nat → Nat → α) (ml : α) :
    ((closePairs n1 n2 sep ml).map fun p => (p.1, p.2.1)).Nodup := by
  unfold closePairs
  simp only [List.map_flatMap, List.map_map]
  apply nodup_flatMap_of
  · intro i _
    have hf : ((List.range n2).filter fun k => decide (sep i k < ml)).Nodup := List.nodup_range.filter _
    refine List.Pairwise.map _ ?_ hf
    intro a b hab h
    simp only [Function.comp, Prod.mk.injEq, true_and] at h
    exact hab h
  · apply List.Pairwise.imp _ (List.nodup_range (n := n1))
    intro a b hab x hx hx'
    simp only [List.mem_map, Function.comp] at hx hx'
    obtain ⟨k, _, hk⟩ := hx
    obtain ⟨k', _, hk'⟩ := hx'
    rw [← hk'] at hk
    simp only [Prod.mk.injEq] at hk
    exact hab hk.1

/-! ### sorting permutation -/

theorem applyPerm_range {β : Type} [Inhabited β] (l : List β) : applyPerm l (List.range l.length) = l := by
  apply List.ext_getElem
  · simp [applyPerm]
  · intro i h1 h2
    simp only [applyPerm, List.getElem_map, List.getElem_range]
    simp only [applyPerm, List.length_map, List.length_range] at h1
    simp [List.getD_eq_getElem?_getD, h1]

theorem applyPerm_perm {β : Type} [Inhabited β] (l : List β) (s : List Nat)
    (hs : s.Perm (List.range l.length)) : (applyPerm l s).Perm l := by
  have h := List.Perm.map (fun i => l.getD i default) hs
  have h2 := applyPerm_range l
  unfold applyPerm at h2 ⊢
  rw [h2] at h
  exact h

/-! ### greedy bookkeeping -/

/-- counters after the selected pairs `xs` were booked -/
def addCounts (g : Nat → Nat) (xs : List Nat) : Nat → Nat := fun j => g j + xs.count j

theorem addCounts_nil (g : Nat → Nat) : addCounts g [] = g := by
  funext j; simp [addCounts]

theorem addCounts_bump (g : Nat → Nat) (i : Nat) (xs : List Nat) :
    addCounts (bump g i) xs = addCounts g (i :: xs) := by
  funext j
  simp only [addCounts, bump, List.count_cons]
  by_cases h : j = i
  · subst h; simp; omega
  · have : ¬ i = j := fun e => h e.symm
    simp [h, this]

theorem greedyFill_append {α : Type} (k : Nat) (pre rest : List (Pair α)) (g1 g2 : Nat → Nat) :
    greedyFill k (pre ++ rest) g1 g2 =
      greedyFill k pre g1 g2 ++
        greedyFill k rest (addCounts g1 ((greedyFill k pre g1 g2).map (·.1)))
          (addCounts g2 ((greedyFill k pre g1 g2).map (·.2.1))) := by
  induction pre generalizing g1 g2 with
  | nil => simp [greedyFill, addCounts_nil]
  | cons p pre ih =>
    obtain ⟨i, j, d⟩ := p
    simp only [List.cons_append, greedyFill]
    by_cases h : g1 i < k ∧ g2 j < k
    · simp only [h, and_self, if_true, List.map_cons, List.cons_append, List.cons.injEq, true_and]
      rw [ih, addCounts_bump, addCounts_bump]
    · simp only [h, if_false]
      rw [ih]

theorem greedyCount_eq_length {α : Type} (k : Nat) (l : List (Pair α)) (g1 g2 : Nat → Nat) :
    greedyCount k l g1 g2 = (greedyFill k l g1 g2).length := by
  induction l generalizing g1 g2 with
  | nil => simp [greedyCount, greedyFill]
  | cons p l ih =>
    obtain ⟨i, j, d⟩ := p
    simp only [greedyCount, greedyFill]
    by_cases h : g1 i < k ∧ g2 j < k
    · simp [h, ih]
    · simp [h, ih]

theorem greedyFill_sublist {α : Type} (k : Nat) (l : List (Pair α)) (g1 g2 : Nat → Nat) :
    (greedyFill k l g1 g2).Sublist l := by
  induction l generalizing g1 g2 with
  | nil => simp [greedyFill]
  | cons p l ih =>
    obtain ⟨i, j, d⟩ := p
    simp only [greedyFill]
    by_cases h : g1 i < k ∧ g2 j < k
    · simp only [h, and_self, if_true]; exact (ih _ _).cons_cons _
    · simp only [h, if_false]; exact (ih _ _).cons _

theorem greedyFill_count1 {α : Type} (k : Nat) (l : List (Pair α)) (g1 g2 : Nat → Nat) (x : Nat) :
    g1 x + ((greedyFill k l g1 g2).map (·.1)).count x ≤ max (g1 x) k := by
  induction l generalizing g1 g2 with
  | nil => simp [greedyFill]; omega
  | cons p l ih =>
    obtain ⟨i, j, d⟩ := p
    simp only [greedyFill]
    by_cases h : g1 i < k ∧ g2 j < k
    · simp only [h, and_self, if_true, List.map_cons, List.count_cons]
      have := ih (bump g1 i) (bump g2 j)
      simp only [bump] at this
      by_cases hx : x = i
      · subst hx; simp at this ⊢; omega
      · have hx' : ¬ i = x := fun e => hx e.symm
        simp [hx, hx'] at this ⊢; omega
    · simp only [h, if_false]; exact ih _ _

theorem greedyFill_count2 {α : Type} (k : Nat) (l : List (Pair α)) (g1 g2 : Nat → Nat) (x : Nat) :
    g2 x + ((greedyFill k l g1 g2).map (·.2.1)).count x ≤ max (g2 x) k := by
  induction l generalizing g1 g2 with
  | nil => simp [greedyFill]; omega
  | cons p l ih =>
    obtain ⟨i, j, d⟩ := p
    simp only [greedyFill]
    by_cases h : g1 i < k ∧ g2 j < k
    · simp only [h, and_self, if_true, List.map_cons, List.count_cons]
      have := ih (bump g1 i) (bump g2 j)
      simp only [bump] at this
      by_cases hx : x = j
      · subst hx; simp at this ⊢; omega
      · have hx' : ¬ j = x := fun e => hx e.symm
        simp [hx, hx'] at this ⊢; omega
    · simp only [h, if_false]; exact ih _ _

end PydlVerif.Sphere

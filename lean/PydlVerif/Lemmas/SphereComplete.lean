/-
C04: assembling the cover over ℝ (Mathlib's trigonometric functions): from "the model's own
`gcircDeg` is below the margin" to "the cell of p is visited for q" (`pair_visited`), and the
conditions under which `getbounds` returns for q (`getbounds_returns`).
-/
import PydlVerif.Lemmas.SphereCover
import PydlVerif.Lemmas.SphereHav
namespace PydlVerif.Sphere
open Real

attribute [local instance] realFns fieldScalar fieldTrig
attribute [-instance] Scalar.instOfNat Scalar.instOfScientific

/-! ### model terms at ℝ -/

theorem absS_real (x : ℝ) : absS x = |x| := by
  unfold absS
  simp only [scalar_zero]
  split
  · rename_i h; rw [abs_of_neg h]
  · rename_i h; rw [abs_of_nonneg (not_lt.1 h)]

theorem cosd_real (x : ℝ) : cosd x = cos (x * (π / 180)) := by
  unfold cosd deg2rad
  simp only [scalar_lit]
  push_cast
  rfl

theorem fmod360_real (x : ℝ) : fmod360 x = if x < 360 then x else x - 360 := by
  unfold fmod360
  simp only [scalar_lit]

theorem cosDecMinOf_real (b : Array ℝ) (i : Nat) :
    cosDecMinOf b i = if |b.getD (i+1) 0| < |b.getD i 0| then cos (b.getD i 0 * (π / 180))
      else cos (b.getD (i+1) 0 * (π / 180)) := by
  unfold cosDecMinOf
  simp only [absS_real, cosd_real, scalar_zero]

theorem raMarginOf_real' (c δq m : ℝ) : raMarginOf c δq m = @raMarginOf ℝ realTrig c δq m := rfl

theorem gcircDeg_real' (a1 d1 a2 d2 : ℝ) : gcircDeg a1 d1 a2 d2 = @gcircDeg ℝ realTrig a1 d1 a2 d2 := rfl

/-! ### cosines of a band -/

theorem cos_deg_le (δ e : ℝ) (h : |δ| ≤ |e|) (he : |e| ≤ 180) :
    cos (e * (π / 180)) ≤ cos (δ * (π / 180)) := by
  have hpi := Real.pi_pos
  have hk : 0 < π / 180 := by positivity
  rw [← Real.cos_abs (e * (π / 180)), ← Real.cos_abs (δ * (π / 180)), abs_mul, abs_mul, abs_of_pos hk]
  apply Real.cos_le_cos_of_nonneg_of_le_pi
  · positivity
  · have : |e| * (π / 180) ≤ 180 * (π / 180) := mul_le_mul_of_nonneg_right he hk.le
    linarith [show 180 * (π / 180) = π by ring]
  · exact mul_le_mul_of_nonneg_right h hk.le

/-- `cosDecMin(i)` is a lower bound of cos δ over the band (edges within [-180, 180]) -/
theorem cosDecMin_le (b : Array ℝ) (i : Nat) (δ : ℝ) (h1 : b.getD i 0 ≤ δ) (h2 : δ ≤ b.getD (i+1) 0)
    (hlo : -180 ≤ b.getD i 0) (hhi : b.getD (i+1) 0 ≤ 180) :
    cosDecMinOf b i ≤ cos (δ * (π / 180)) := by
  rw [cosDecMinOf_real]
  split
  · rename_i h
    apply cos_deg_le
    · rw [abs_le]; constructor
      · have := neg_abs_le (b.getD i 0); linarith
      · have := le_abs_self (b.getD (i+1) 0); linarith
    · rw [abs_le]; constructor <;> linarith
  · rename_i h
    rw [not_lt] at h
    apply cos_deg_le
    · rw [abs_le]; constructor
      · have := neg_abs_le (b.getD i 0); linarith
      · have := le_abs_self (b.getD (i+1) 0); linarith
    · rw [abs_le]; constructor <;> linarith

/-! ### right ascension differences on the circle -/

theorem fmod360_off_range (a off : ℝ) (ha0 : 0 ≤ a) (ha : a < 360) (ho0 : 0 ≤ off) (ho : off < 360) :
    0 ≤ fmod360 (a + off) ∧ fmod360 (a + off) < 360 ∧
    (fmod360 (a + off) = a + off ∨ fmod360 (a + off) = a + off - 360) := by
  rw [fmod360_real]
  split
  · exact ⟨by linarith, by linarith, Or.inl rfl⟩
  · rename_i h; rw [not_lt] at h
    exact ⟨by linarith, by linarith, Or.inr rfl⟩

theorem sin_sq_sub_pi (x : ℝ) : sin (x - π) ^ 2 = sin x ^ 2 := by rw [Real.sin_sub_pi]; ring
theorem sin_sq_add_pi (x : ℝ) : sin (x + π) ^ 2 = sin x ^ 2 := by rw [Real.sin_add_pi]; ring
theorem sin_sq_neg (x : ℝ) : sin (-x) ^ 2 = sin x ^ 2 := by rw [Real.sin_neg]; ring
theorem sin_sq_pi_sub (x : ℝ) : sin (π - x) ^ 2 = sin x ^ 2 := by rw [Real.sin_pi_sub]

/-- the difference on the circle of two offset right ascensions: a value Δ in [0, 180] that is
|D| or 360 - |D| and has the same haversine as the difference of the original right ascensions -/
theorem circ_diff (a1 a2 off : ℝ) (h10 : 0 ≤ a1) (h1 : a1 < 360) (h20 : 0 ≤ a2) (h2 : a2 < 360)
    (ho0 : 0 ≤ off) (ho : off < 360) :
    ∃ Δ : ℝ, 0 ≤ Δ ∧ Δ ≤ 180 ∧
      (Δ = |fmod360 (a2 + off) - fmod360 (a1 + off)| ∨ Δ = 360 - |fmod360 (a2 + off) - fmod360 (a1 + off)|) ∧
      sin (Δ / 2 * (π / 180)) ^ 2 = sin ((a2 * (π / 180) - a1 * (π / 180)) / 2) ^ 2 := by
  obtain ⟨p0, p1, pe⟩ := fmod360_off_range a1 off h10 h1 ho0 ho
  obtain ⟨q0, q1, qe⟩ := fmod360_off_range a2 off h20 h2 ho0 ho
  have hpi := Real.pi_pos
  -- the haversine of D = q' - p' equals that of a2 - a1
  have hD : sin ((fmod360 (a2 + off) - fmod360 (a1 + off)) / 2 * (π / 180)) ^ 2 =
      sin ((a2 * (π / 180) - a1 * (π / 180)) / 2) ^ 2 := by
    rcases pe with pe | pe <;> rcases qe with qe | qe <;> rw [pe, qe]
    · congr 2; ring
    · rw [← sin_sq_sub_pi ((a2 * (π / 180) - a1 * (π / 180)) / 2)]; congr 2; field_simp; ring
    · rw [← sin_sq_add_pi ((a2 * (π / 180) - a1 * (π / 180)) / 2)]; congr 2; field_simp; ring
    · congr 2; ring
  have hDabs : |fmod360 (a2 + off) - fmod360 (a1 + off)| < 360 := by rw [abs_lt]; constructor <;> linarith
  generalize fmod360 (a2 + off) - fmod360 (a1 + off) = D at hD hDabs
  have habs : sin (|D| / 2 * (π / 180)) ^ 2 = sin (D / 2 * (π / 180)) ^ 2 := by
    rcases abs_cases D with ⟨h, _⟩ | ⟨h, _⟩
    · rw [h]
    · rw [h, ← sin_sq_neg (D / 2 * (π / 180))]; congr 2; ring
  by_cases h : |D| ≤ 180
  · exact ⟨|D|, abs_nonneg D, h, Or.inl rfl, by rw [habs, hD]⟩
  · rw [not_le] at h
    refine ⟨360 - |D|, by linarith, by linarith, Or.inr rfl, ?_⟩
    rw [← hD, ← habs, ← sin_sq_pi_sub (|D| / 2 * (π / 180))]
    congr 2; field_simp; ring

/-! ### the RA margin from the model's own separation -/

/-- (the former `ra_cover_fixed`) from the haversine inequality as a hypothesis -/
theorem ra_cover_of_hav (c δq δp m Δ d : ℝ) (hc : 0 < c) (hcp : c ≤ cos (δp * (π / 180)))
    (hcq : 0 < cos (δq * (π / 180))) (hΔ0 : 0 ≤ Δ) (hΔ : Δ ≤ 180) (hd0 : 0 ≤ d) (hdm : d < m)
    (hm : m ≤ 180)
    (hav : cos (δp * (π / 180)) * cos (δq * (π / 180)) * sin (Δ / 2 * (π / 180)) ^ 2
            ≤ sin (d / 2 * (π / 180)) ^ 2) :
    Δ < @raMarginOf ℝ realTrig c δq m := by
  have hpi := Real.pi_pos
  rw [raMarginOf_real]
  split
  · rename_i hs
    have h := half_dra_lt_arcsin c (cos (δq * (π / 180))) (cos (δp * (π / 180))) (Δ / 2 * (π / 180))
      (d / 2 * (π / 180)) (0.5 * m * (π / 180)) hc hcp hcq
      (by positivity) (by nlinarith) (by positivity) (by nlinarith) (by nlinarith) hav hs
    have h180 : 0 < 180 / π := by positivity
    have h2 := mul_lt_mul_of_pos_right h h180
    have h3 : Δ / 2 * (π / 180) * (180 / π) = Δ / 2 := by field_simp
    linarith
  · linarith

/-- the model's separation in degrees, halved, in radians, is half the haversine angle -/
theorem gcirc_half (a1 d1 a2 d2 : ℝ) :
    @gcircDeg ℝ realTrig a1 d1 a2 d2 / 2 * (π / 180) =
      havAngle (d1 * (π / 180)) (d2 * (π / 180)) (a2 * (π / 180) - a1 * (π / 180)) / 2 := by
  rw [gcircDeg_real]
  have hpi : π ≠ 0 := Real.pi_pos.ne'
  generalize havAngle (d1 * (π / 180)) (d2 * (π / 180)) (a2 * (π / 180) - a1 * (π / 180)) = H
  field_simp

theorem gcirc_range (a1 d1 a2 d2 : ℝ) :
    0 ≤ @gcircDeg ℝ realTrig a1 d1 a2 d2 ∧ @gcircDeg ℝ realTrig a1 d1 a2 d2 ≤ 180 := by
  rw [gcircDeg_real]
  have hpi := Real.pi_pos
  obtain ⟨h0, h1⟩ := havAngle_range (d1 * (π / 180)) (d2 * (π / 180)) (a2 * (π / 180) - a1 * (π / 180))
  have hk : 0 < 180 / π := by positivity
  constructor
  · exact mul_nonneg h0 hk.le
  · calc _ ≤ π * (180 / π) := mul_le_mul_of_nonneg_right h1 hk.le
      _ = 180 := by field_simp

/-- corrected RA margin, hypothesis-free: for two points with declinations in (-90°, 90°) whose
separation AS COMPUTED BY THE MODEL'S `gcircDeg` is below m ≤ 180°, any Δ in [0°,180°] with the
haversine of the RA difference (the difference on the circle) is below `raMarginOf c δq m` for
every c with 0 < c ≤ cos δp -/
theorem ra_margin_covers (c a1 δp a2 δq m Δ : ℝ) (hc : 0 < c) (hcp : c ≤ cos (δp * (π / 180)))
    (hcq : 0 < cos (δq * (π / 180))) (hΔ0 : 0 ≤ Δ) (hΔ : Δ ≤ 180) (hm : m ≤ 180)
    (hΔs : sin (Δ / 2 * (π / 180)) ^ 2 = sin ((a2 * (π / 180) - a1 * (π / 180)) / 2) ^ 2)
    (hclose : @gcircDeg ℝ realTrig a1 δp a2 δq < m) :
    Δ < @raMarginOf ℝ realTrig c δq m := by
  apply ra_cover_of_hav c δq δp m Δ _ hc hcp hcq hΔ0 hΔ (gcirc_range a1 δp a2 δq).1 hclose hm
  rw [hΔs, gcirc_half]
  exact cos_cos_hav_le _ _ _

/-- the declinations of two points differ by at most their separation -/
theorem ddec_le_gcirc (a1 δp a2 δq : ℝ) (hp : |δp| < 90) (hq : |δq| < 90) :
    |δq - δp| ≤ @gcircDeg ℝ realTrig a1 δp a2 δq := by
  have hpi := Real.pi_pos
  have hk : 0 < π / 180 := by positivity
  rw [abs_lt] at hp hq
  have hcp : 0 < cos (δp * (π / 180)) := Real.cos_pos_of_mem_Ioo ⟨by nlinarith, by nlinarith⟩
  have hcq : 0 < cos (δq * (π / 180)) := Real.cos_pos_of_mem_Ioo ⟨by nlinarith, by nlinarith⟩
  have h := abs_ddec_le_havAngle (δp * (π / 180)) (δq * (π / 180)) (a2 * (π / 180) - a1 * (π / 180))
    (mul_pos hcp hcq).le (by
      rw [← sub_mul, abs_mul, abs_of_pos hk]
      have : |δq - δp| ≤ 180 := by rw [abs_le]; constructor <;> linarith
      calc _ ≤ 180 * (π / 180) := mul_le_mul_of_nonneg_right this hk.le
        _ = π := by ring)
  rw [← sub_mul, abs_mul, abs_of_pos hk] at h
  rw [gcircDeg_real]
  have hk2 : 0 < 180 / π := by positivity
  calc |δq - δp| = |δq - δp| * (π / 180) * (180 / π) := by field_simp
    _ ≤ _ := mul_le_mul_of_nonneg_right h hk2.le

/-! ### the pair (p, q) -/

/-- p = (a1, δp) of the first list, q = (a2, δq) of the second, separation (model's `gcircDeg`)
below m; the grid has equally spaced edges, declination edges within ±90 and positive band
cosines; p is looked up in cell (bp, jp); `getbounds` returned `B` for q; room at the seam in
band bp.  Then (bp, jp) is visited for q. -/
theorem pair_visited (g : Grid ℝ) (hdec : EdgesOK g.decBounds g.nDec)
    (hra : ∀ d, d < g.nDec → EdgesOK (g.raBounds.getD d #[]) (g.nRa.getD d 0))
    (hcpos : ∀ d, d < g.nDec → 0 < cosDecMinOf g.decBounds d)
    (hlo : -90 ≤ g.decBounds.getD 0 0) (hhi : g.decBounds.getD g.nDec 0 ≤ 90)
    (ho0 : 0 ≤ g.raOffset) (ho : g.raOffset < 360)
    (a1 δp a2 δq m : ℝ) (h10 : 0 ≤ a1) (h1 : a1 < 360) (h20 : 0 ≤ a2) (h2 : a2 < 360)
    (hp : |δp| < 90) (hq : |δq| < 90) (hm : m ≤ 180)
    (bp jp : Nat) (B : Bounds)
    (hget : get g (fmod360 (a1 + g.raOffset)) δp = .ok (bp, jp))
    (hB : getbounds g (fmod360 (a2 + g.raOffset)) δq m = .ok B)
    (hclose : gcircDeg a1 δp a2 δq < m)
    (hseam : SeamOK g bp δq m) :
    (bp, jp) ∈ cellsOfRange g.nRa B 0 := by
  have hpi := Real.pi_pos
  have hk : 0 < π / 180 := by positivity
  obtain ⟨hbp, _, hpd, _⟩ := get_bracket g _ δp bp jp hdec hra hget
  obtain ⟨p0, p1, _⟩ := fmod360_off_range a1 g.raOffset h10 h1 ho0 ho
  obtain ⟨q0, q1, _⟩ := fmod360_off_range a2 g.raOffset h20 h2 ho0 ho
  obtain ⟨Δ, hΔ0, hΔ1, hΔe, hΔs⟩ := circ_diff a1 a2 g.raOffset h10 h1 h20 h2 ho0 ho
  have hq' := abs_lt.1 hq
  have hcq : 0 < cos (δq * (π / 180)) := Real.cos_pos_of_mem_Ioo ⟨by nlinarith, by nlinarith⟩
  have hcp : cosDecMinOf g.decBounds bp ≤ cos (δp * (π / 180)) := by
    apply cosDecMin_le _ _ _ hpd.1 hpd.2.1
    · have := hdec.mono 0 bp (by omega) (by omega); linarith
    · have := hdec.mono (bp + 1) g.nDec (by omega) (by omega); linarith
  have hM := ra_margin_covers (cosDecMinOf g.decBounds bp) a1 δp a2 δq m Δ (hcpos bp hbp) hcp hcq hΔ0 hΔ1 hm
    hΔs hclose
  apply cell_visited g hdec hra _ δp _ δq m bp jp B hget hB p0 p1 q0 q1
  · exact lt_of_le_of_lt (ddec_le_gcirc a1 δp a2 δq hp hq) hclose
  · rcases hΔe with e | e
    · left; rw [← e]; exact hM
    · right; rw [← e]; exact hM
  · exact hseam

/-! ### when `getbounds` returns -/

theorem decUp_le {α : Type} [Scalar α] (b : Array α) (dec m : α) (c f : Nat) : decUp b dec m c f ≤ c + f := by
  induction f generalizing c with
  | zero => simp [decUp]
  | succ f ih => simp only [decUp]; split
                 · have := ih (c+1); omega
                 · omega

/-- band `d` is one of the bands that `getbounds` visits for a point at declination `δq` -/
def visitedBand (g : Grid ℝ) (δq m : ℝ) (d : Nat) : Prop :=
  decDown g.decBounds δq m (decIndex g δq).toNat ≤ d ∧
  d ≤ decUp g.decBounds δq m (decIndex g δq).toNat (g.nDec - 1 - (decIndex g δq).toNat)

/-- room for the point (αq, δq) in band `d`: it lies inside the RA extent of the band (else
`getbounds` raises and `assign` drops the point) and there is room at the seam -/
def BandRoom (g : Grid ℝ) (d : Nat) (αq δq m : ℝ) : Prop :=
  ((g.raBounds.getD d #[]).getD 0 0 ≤ αq ∧ αq < (g.raBounds.getD d #[]).getD (g.nRa.getD d 0) 0) ∧
  SeamOK g d δq m

/-- `getbounds` returns for a point whose declination lies inside the (closed) declination extent
of the grid and whose right ascension lies inside the RA extent of every band it visits -/
theorem getbounds_returns (g : Grid ℝ) (hdec : EdgesOK g.decBounds g.nDec)
    (hra : ∀ d, d < g.nDec → EdgesOK (g.raBounds.getD d #[]) (g.nRa.getD d 0))
    (αq δq m : ℝ) (hd : g.decBounds.getD 0 0 ≤ δq ∧ δq ≤ g.decBounds.getD g.nDec 0)
    (hext : ∀ d, d < g.nDec → visitedBand g δq m d →
      (g.raBounds.getD d #[]).getD 0 0 ≤ αq ∧ αq < (g.raBounds.getD d #[]).getD (g.nRa.getD d 0) 0) :
    ∃ B, getbounds g αq δq m = .ok B := by
  obtain ⟨h0, h1⟩ := decIndex_range g hdec δq hd.1 hd.2
  obtain ⟨d0, hd0⟩ := Int.eq_ofNat_of_zero_le h0
  have hd0n : d0 < g.nDec := by omega
  apply getbounds_ok g αq δq m d0 hd0 hd0n
  intro d h2 h3
  have hdn : d < g.nDec := by have := decUp_le g.decBounds δq m d0 (g.nDec - 1 - d0); omega
  have hv : visitedBand g δq m d := by
    unfold visitedBand; rw [hd0]; exact ⟨h2, h3⟩
  obtain ⟨e1, e2⟩ := hext d hdn hv
  exact ⟨cellIndex_nonneg (hra d hdn) αq e1, cellIndex_lt (hra d hdn) αq e2⟩

end PydlVerif.Sphere

/-
Helper lemmas for C04 (combinatorial core of spherematch): tables, the two
passes of `chunks.assign`, the greedy bookkeeping.
-/
import PydlVerif.Model.Sphere
namespace PydlVerif.Sphere

/-! ### tables -/

def Tab.get? {β : Type} (t : Tab β) (c : Nat × Nat) : Option β :=
  (show Array (Array β) from t)[c.1]?.bind fun row => row[c.2]?

theorem Tab.get_eq {β : Type} [Inhabited β] (t : Tab β) (c : Nat × Nat) :
    t.get c = (t.get? c).getD default := by
  simp only [Tab.get, Tab.get?, Array.getD_eq_getD_getElem?]
  cases h : (show Array (Array β) from t)[c.1]? <;> simp [h]

theorem Tab.get?_modify {β : Type} (t : Tab β) (c c' : Nat × Nat) (f : β → β) :
    (t.modify c f).get? c' = if c = c' then (t.get? c').map f else t.get? c' := by
  obtain ⟨d, r⟩ := c
  obtain ⟨d', r'⟩ := c'
  simp only [Tab.get?, Tab.modify, Array.getElem?_modify, Prod.mk.injEq]
  by_cases hdd : d = d'
  · subst hdd
    cases h : (show Array (Array β) from t)[d]? with
    | none => simp [h]
    | some row =>
      simp only [if_true, Option.map_some, Option.bind_some, Array.getElem?_modify, true_and]
  · simp [hdd]

/-- the cell exists in the table -/
def Tab.inb {β : Type} (t : Tab β) (c : Nat × Nat) : Prop := (t.get? c).isSome

theorem Tab.inb_modify {β : Type} (t : Tab β) (c c' : Nat × Nat) (f : β → β) :
    (t.modify c f).inb c' ↔ t.inb c' := by
  simp only [Tab.inb, Tab.get?_modify]
  split <;> simp

theorem Tab.get_modify_ne {β : Type} [Inhabited β] (t : Tab β) (c c' : Nat × Nat) (f : β → β)
    (h : c ≠ c') : (t.modify c f).get c' = t.get c' := by
  simp [Tab.get_eq, Tab.get?_modify, h]

theorem Tab.get_modify_self {β : Type} [Inhabited β] (t : Tab β) (c : Nat × Nat) (f : β → β)
    (h : t.inb c) : (t.modify c f).get c = f (t.get c) := by
  simp only [Tab.get_eq, Tab.get?_modify, if_true]
  simp only [Tab.inb] at h
  cases hg : t.get? c with
  | none => simp [hg] at h
  | some x => simp

theorem Tab.modify_of_not_inb {β : Type} [Inhabited β] (t : Tab β) (c c' : Nat × Nat) (f : β → β)
    (h : ¬ t.inb c) : (t.modify c f).get c' = t.get c' := by
  by_cases hc : c = c'
  · subst hc
    simp only [Tab.get_eq, Tab.get?_modify, if_true]
    simp only [Tab.inb] at h
    cases hg : t.get? c with
    | none => simp
    | some x => simp [hg] at h
  · exact Tab.get_modify_ne t c c' f hc

theorem Tab.get_modify_same {β : Type} [Inhabited β] (t : Tab β) (c : Nat × Nat) (f : β → β) :
    (t.inb c ∧ (t.modify c f).get c = f (t.get c)) ∨
    (¬ t.inb c ∧ (t.modify c f).get c = t.get c ∧ t.get c = default) := by
  by_cases h : t.inb c
  · exact Or.inl ⟨h, Tab.get_modify_self t c f h⟩
  · refine Or.inr ⟨h, Tab.modify_of_not_inb t c c f h, ?_⟩
    simp only [Tab.inb] at h
    simp only [Tab.get_eq]
    cases hg : t.get? c with
    | none => simp
    | some x => simp [hg] at h

end PydlVerif.Sphere

/-
C04: the RA cover of one band including the 0/360 seam (any linearly ordered field), and the
composition dec cover + RA cover + wrap index into "the cell of p is among the cells visited
for q" (`cell_visited`).
-/
import PydlVerif.Lemmas.SphereBracket
import PydlVerif.Lemmas.SphereBounds
import PydlVerif.Lemmas.SphereReal
namespace PydlVerif.Sphere

section field
variable {K : Type} [Field K] [LinearOrder K] [IsStrictOrderedRing K] [FloorRing K]
attribute [local instance] fieldScalar
attribute [-instance] Scalar.instOfNat Scalar.instOfScientific

/-! ### the loop lemmas of SphereReal with the field's own zero as `getD` default -/

theorem decDown_cover' (b : Array K) (dec m : K) (c bp : Nat) (hbp : bp ≤ c)
    (h : ∀ i, bp < i → i ≤ c → dec - b.getD i 0 < m) : decDown b dec m c ≤ bp :=
  decDown_cover b dec m c bp hbp (by simpa only [scalar_zero] using h)

theorem decUp_cover' (b : Array K) (dec m : K) (c f bp : Nat) (h1 : c ≤ bp) (h2 : bp ≤ c + f)
    (h : ∀ i, c ≤ i → i < bp → b.getD (i+1) 0 - dec < m) : bp ≤ decUp b dec m c f :=
  decUp_cover b dec m c f bp h1 h2 (by simpa only [scalar_zero] using h)

theorem raDown_cover' (b : Array K) (ra M : K) (r j : Nat) (hj : j ≤ r)
    (h : ∀ i, j < i → i ≤ r → ra - b.getD i 0 < M) : raDown b ra M r ≤ (j : Int) :=
  raDown_cover b ra M r j hj (by simpa only [scalar_zero] using h)

theorem raUp_cover' (b : Array K) (ra M : K) (r f j : Nat) (h1 : r ≤ j) (h2 : j ≤ r + f)
    (h : ∀ i, r ≤ i → i < j → b.getD (i+1) 0 - ra < M) : j ≤ raUp b ra M r f :=
  raUp_cover b ra M r f j h1 h2 (by simpa only [scalar_zero] using h)

/-- the downward RA loop runs off the lower end (raChunkMin = -1) when every lower edge down to
the first is within the margin -/
theorem raDown_neg (b : Array K) (ra M : K) (r : Nat) (h : ∀ i, i ≤ r → ra - b.getD i 0 < M) :
    raDown b ra M r = -1 := by
  induction r with
  | zero =>
    simp only [raDown, scalar_zero]
    rw [if_pos (h 0 (le_refl _))]
  | succ r ih =>
    simp only [raDown, scalar_zero]
    rw [if_pos (h (r + 1) (le_refl _))]
    exact ih (fun i hi => h i (by omega))

/-- declination cover (restated from Props.C04 `dec_cover` for equally spaced edges) -/
theorem dec_cover_edges {b : Array K} {nDec : Nat} (he : EdgesOK b nDec) (decq decp m : K) (d0 bp : Nat)
    (hd0 : d0 < nDec) (hbp : bp < nDec)
    (hp : b.getD bp 0 ≤ decp ∧ decp ≤ b.getD (bp+1) 0)
    (hclose : |decq - decp| < m) :
    decDown b decq m d0 ≤ bp ∧ bp ≤ decUp b decq m d0 (nDec - 1 - d0) := by
  have habs := abs_lt.1 hclose
  constructor
  · by_cases h : bp ≤ d0
    · apply decDown_cover' b decq m d0 bp h
      intro i h1 h2
      have := he.mono (bp+1) i (by omega) (by omega)
      linarith [hp.2, habs.2]
    · have := decDown_le b decq m d0; omega
  · by_cases h : d0 ≤ bp
    · apply decUp_cover' b decq m d0 _ bp h (by omega)
      intro i h1 h2
      have := he.mono (i+1) bp (by omega) (by omega)
      linarith [hp.1, habs.1]
    · have := decUp_ge b decq m d0 (nDec - 1 - d0); omega

/-- RA cover of one band INCLUDING the seam.  `q` (second list, its own cell `r0`) and `p` (first
list, cell `jp`) are offset right ascensions in [0, 360); their difference on the circle is below
the margin `M` used by the two RA loops.  If the band embraces the circle ([0,360]) and `M` is at
most one cell, or if the band leaves a gap of at least `M` around the seam, then some index `r`
of the range `raChunkMin .. raChunkMax` returned by the loops wraps onto `jp`: at most ONE wrap
cell (index -1 or nRa) is ever needed. -/
theorem ra_cover_band {b : Array K} {n : Nat} (he : EdgesOK b n) (q p M : K) (r0 jp : Nat)
    (hr0 : r0 < n) (hjp : jp < n)
    (hq : b.getD r0 0 ≤ q ∧ q < b.getD (r0+1) 0) (hp : b.getD jp 0 ≤ p ∧ p < b.getD (jp+1) 0)
    (hp0 : 0 ≤ p) (hq0 : 0 ≤ q) (hp360 : p < 360) (hq360 : q < 360)
    (hclose : |q - p| < M ∨ 360 - |q - p| < M)
    (hseam : (b.getD 0 0 = 0 ∧ b.getD n 0 = 360 ∧ M ≤ b.getD 1 0 - b.getD 0 0) ∨
      M ≤ b.getD 0 0 + 360 - b.getD n 0) :
    ∃ r : Int, raDown b q M r0 ≤ r ∧ r ≤ ((raUp b q M r0 (n - r0) : Nat) : Int) ∧
      (r % (n : Int)).toNat = jp := by
  have hn : (0 : Int) < n := by exact_mod_cast he.pos
  -- the linear case
  have hlin : |q - p| < M → ∃ r : Int, raDown b q M r0 ≤ r ∧ r ≤ ((raUp b q M r0 (n - r0) : Nat) : Int) ∧
      (r % (n : Int)).toNat = jp := by
    intro hc
    have habs := abs_lt.1 hc
    refine ⟨(jp : Int), ?_, ?_, ?_⟩
    · by_cases h : jp ≤ r0
      · apply raDown_cover' b q M r0 jp h
        intro i h1 h2
        have := he.mono (jp+1) i (by omega) (by omega)
        linarith [hp.2, habs.2]
      · have := raDown_le b q M r0; omega
    · by_cases h : r0 ≤ jp
      · have : jp ≤ raUp b q M r0 (n - r0) := by
          apply raUp_cover' b q M r0 _ jp h (by omega)
          intro i h1 h2
          have := he.mono (i+1) jp (by omega) (by omega)
          linarith [hp.1, habs.1]
        exact_mod_cast this
      · have := raUp_ge b q M r0 (n - r0); omega
    · rw [Int.emod_eq_of_lt (by omega) (by omega)]; simp
  rcases hclose with hc | hc
  · exact hlin hc
  · -- both points lie inside the extent of the band
    have hqlo : b.getD 0 0 ≤ q := le_trans (he.mono 0 r0 (by omega) (by omega)) hq.1
    have hqhi : q < b.getD n 0 := lt_of_lt_of_le hq.2 (he.mono (r0+1) n (by omega) (by omega))
    have hplo : b.getD 0 0 ≤ p := le_trans (he.mono 0 jp (by omega) (by omega)) hp.1
    have hphi : p < b.getD n 0 := lt_of_lt_of_le hp.2 (he.mono (jp+1) n (by omega) (by omega))
    rcases hseam with ⟨hb0, hbn, hM⟩ | hgap
    · rcases le_total p q with hpq | hqp
      · -- q above p: the upward loop runs to nRa, which wraps onto cell 0, where p lies
        rw [abs_of_nonneg (by linarith)] at hc
        have hup : n ≤ raUp b q M r0 (n - r0) := by
          apply raUp_cover' b q M r0 _ n (by omega) (by omega)
          intro i h1 h2
          have := he.mono (i+1) n (by omega) (by omega)
          linarith
        have hj0 : jp = 0 := by
          by_contra hne
          have := he.mono 1 jp (by omega) (by omega)
          linarith [hp.1]
        refine ⟨(n : Int), ?_, by exact_mod_cast hup, ?_⟩
        · have := raDown_le b q M r0; omega
        · rw [Int.emod_self, hj0]; rfl
      · -- q below p: the downward loop runs to -1, which wraps onto the last cell, where p lies
        rw [abs_of_nonpos (by linarith)] at hc
        have hdown : raDown b q M r0 = -1 := by
          apply raDown_neg
          intro i hi
          have := he.mono 0 i (by omega) (by omega)
          linarith
        have hjn : jp + 1 = n := by
          by_contra hne
          obtain ⟨k, hk⟩ : ∃ k, k + 1 = n := ⟨n - 1, by omega⟩
          have hkK : (k : K) + 1 = (n : K) := by exact_mod_cast hk
          have hnK : (0 : K) < n := by exact_mod_cast he.pos
          have h1 := he.lin 1 (by omega)
          have hk' := he.lin k (by omega)
          have hbk : b.getD k 0 = b.getD n 0 - (b.getD 1 0 - b.getD 0 0) := by
            rw [hk', h1]
            have : (k : K) = (n : K) - 1 := by linarith
            rw [this]
            field_simp
            ring
          have := he.mono (jp+1) k (by omega) (by omega)
          linarith [hp.2]
        refine ⟨-1, by rw [hdown], ?_, ?_⟩
        · have := raUp_ge b q M r0 (n - r0); omega
        · have : (-1 : Int) % (n : Int) = (n : Int) - 1 := by
            rw [Int.emod_eq_add_self_emod, Int.emod_eq_of_lt (by omega) (by omega)]; omega
          rw [this]; omega
    · -- a band that stays away from the seam: the difference across the seam exceeds the gap
      exfalso
      rcases abs_cases (q - p) with ⟨h1, _⟩ | ⟨h1, _⟩ <;> rw [h1] at hc <;> linarith

end field

section grid
variable {K : Type} [Field K] [LinearOrder K] [IsStrictOrderedRing K] [FloorRing K] [TrigFns K]
attribute [local instance] fieldScalar fieldTrig
attribute [-instance] Scalar.instOfNat Scalar.instOfScientific

/-- room at the seam for a point at declination `δq` in band `d`: with `M` the RA margin that
`getbounds` uses in that band, either the band embraces the circle and `M` is at most one cell,
or the band leaves a gap of at least `M` between its last edge and its first edge + 360 -/
def SeamOK (g : Grid K) (d : Nat) (δq m : K) : Prop :=
  ((g.raBounds.getD d #[]).getD 0 0 = 0 ∧ (g.raBounds.getD d #[]).getD (g.nRa.getD d 0) 0 = 360 ∧
    raMarginOf (cosDecMinOf g.decBounds d) δq m ≤ (g.raBounds.getD d #[]).getD 1 0 - (g.raBounds.getD d #[]).getD 0 0) ∨
  raMarginOf (cosDecMinOf g.decBounds d) δq m ≤
    (g.raBounds.getD d #[]).getD 0 0 + 360 - (g.raBounds.getD d #[]).getD (g.nRa.getD d 0) 0

/-- composition: p = (αp, δp) is looked up by `get` in cell (bp, jp); `getbounds` returned `B`
for q = (αq, δq); the declinations differ by less than the margin, the right ascensions differ on
the circle by less than the RA margin of band bp, and there is room at the seam.  Then (bp, jp)
is one of the cells that `assign` visits for q. -/
theorem cell_visited (g : Grid K) (hdec : EdgesOK g.decBounds g.nDec)
    (hra : ∀ d, d < g.nDec → EdgesOK (g.raBounds.getD d #[]) (g.nRa.getD d 0))
    (αp δp αq δq m : K) (bp jp : Nat) (B : Bounds)
    (hget : get g αp δp = .ok (bp, jp)) (hB : getbounds g αq δq m = .ok B)
    (hp0 : 0 ≤ αp) (hp360 : αp < 360) (hq0 : 0 ≤ αq) (hq360 : αq < 360)
    (hdclose : |δq - δp| < m)
    (hrclose : |αq - αp| < raMarginOf (cosDecMinOf g.decBounds bp) δq m ∨
      360 - |αq - αp| < raMarginOf (cosDecMinOf g.decBounds bp) δq m)
    (hseam : SeamOK g bp δq m) :
    (bp, jp) ∈ cellsOfRange g.nRa B 0 := by
  obtain ⟨hbp, hjp, hpd, hpr⟩ := get_bracket g αp δp bp jp hdec hra hget
  obtain ⟨d0, _, hd0n, hmin, hmax, _, hband⟩ := getbounds_inv g αq δq m B hB
  obtain ⟨h1, h2⟩ := dec_cover_edges hdec δq δp m d0 bp hd0n hbp ⟨hpd.1, hpd.2.1⟩ hdclose
  rw [← hmin] at h1
  rw [← hmax] at h2
  obtain ⟨r0, hr0, hr0n, hk⟩ := hband (bp - B.decMin) (by omega)
  have hidx : bp - B.decMin + B.decMin = bp := by omega
  rw [hidx] at hr0 hr0n hk
  have hq := cellIndex_bracket (hra bp hbp) αq r0 hr0n hr0
  obtain ⟨r, hr1, hr2, hr3⟩ := ra_cover_band (hra bp hbp) αq αp _ r0 jp hr0n hjp hq hpr hp0 hq0 hp360 hq360
    hrclose hseam
  refine mem_cellsOfRange g.nRa B bp jp _ _ r h1 h2 hk hr1 hr2 ?_
  rw [wrapIdx_eq _ (hra bp hbp).pos, hr3]

end grid
end PydlVerif.Sphere

/-
C04: what `chunks.__init__` guarantees about the grid it builds (`GridFacts`), stated over an
arbitrary linearly ordered field with floor and ARBITRARY transcendental functions (`TrigFns`):
the shape of the grid does not depend on what cos/sin/sqrt return, only on the `c ≤ 0 → raise`
checks.  `Lemmas/SphereInit.lean` proves `chunksInit … = .ok g → GridFacts …`.
-/
import PydlVerif.Model.Sphere
import PydlVerif.Lemmas.RealTrig
namespace PydlVerif.Sphere

/-- any functions in place of libm -/
class TrigFns (K : Type) where
  sqrt : K → K
  sin : K → K
  cos : K → K
  arcsin : K → K
  arccos : K → K
  atan2 : K → K → K
  pi : K

/-- the `Trig` instance of an ordered field with given transcendental functions -/
@[reducible] noncomputable def fieldTrig (K : Type) [Field K] [LinearOrder K] [IsStrictOrderedRing K]
    [FloorRing K] [F : TrigFns K] : Trig K where
  toScalar := fieldScalar K
  sqrt := F.sqrt
  sin := F.sin
  cos := F.cos
  arcsin := F.arcsin
  arccos := F.arccos
  atan2 := F.atan2
  pi := F.pi

/-- Mathlib's functions -/
@[reducible] noncomputable def realFns : TrigFns ℝ where
  sqrt := Real.sqrt
  sin := Real.sin
  cos := Real.cos
  arcsin := Real.arcsin
  arccos := Real.arccos
  atan2 y x := Complex.arg ⟨x, y⟩
  pi := Real.pi

theorem realTrig_eq : realTrig = @fieldTrig ℝ _ _ _ _ realFns := rfl

section
variable {K : Type} [Field K] [LinearOrder K] [IsStrictOrderedRing K] [FloorRing K] [TrigFns K]
attribute [local instance] fieldScalar fieldTrig
-- numerals in the statements below are the field's own, not `Scalar.ofNat`
attribute [-instance] Scalar.instOfNat Scalar.instOfScientific

/-- an array of `n+1` equally spaced edges from `b[0]` to `b[n]`, `b[0] < b[n]` -/
structure EdgesOK (b : Array K) (n : Nat) : Prop where
  pos : 0 < n
  size : b.size = n + 1
  lt : b.getD 0 0 < b.getD n 0
  lin : ∀ k, k ≤ n → b.getD k 0 = b.getD 0 0 + (b.getD n 0 - b.getD 0 0) * (k : K) / (n : K)

/-- band `d` of the grid: positive cosine (else `__init__` raises), at least one cell, equally
spaced edges, which either embrace the whole circle [0, 360] or stay more than one minimal cell
`minSize / cosDecMin` away from 0 and from 360 -/
structure BandFacts (ms : K) (g : Grid K) (d : Nat) : Prop where
  cpos : 0 < cosDecMinOf g.decBounds d
  edges : EdgesOK (g.raBounds.getD d #[]) (g.nRa.getD d 0)
  extent : ((g.raBounds.getD d #[]).getD 0 0 = 0 ∧ (g.raBounds.getD d #[]).getD (g.nRa.getD d 0) 0 = 360) ∨
    (ms / cosDecMinOf g.decBounds d < (g.raBounds.getD d #[]).getD 0 0 ∧
     (g.raBounds.getD d #[]).getD (g.nRa.getD d 0) 0 < 360 - ms / cosDecMinOf g.decBounds d)

/-- the grid built by `chunks.__init__(ra, dec, ms)` -/
structure GridFacts (ra dec : Array K) (ms : K) (g : Grid K) : Prop where
  ms_pos : 0 < ms
  minSize_eq : g.minSize = ms
  nDec_ge : 3 ≤ g.nDec
  dec_edges : EdgesOK g.decBounds g.nDec
  /-- first edge: -90 (polar rule) or at least one `ms` below every point -/
  dec_lo : g.decBounds.getD 0 0 = -90 ∨ (-90 < g.decBounds.getD 0 0 ∧ ∀ i, i < dec.size → g.decBounds.getD 0 0 + ms ≤ dec.getD i 0)
  /-- last edge: +90 (polar rule) or at least one `ms` above every point -/
  dec_hi : g.decBounds.getD g.nDec 0 = 90 ∨ (g.decBounds.getD g.nDec 0 < 90 ∧ ∀ i, i < dec.size → dec.getD i 0 + ms ≤ g.decBounds.getD g.nDec 0)
  /-- the offset is one of 0, 60, …, 300 -/
  off : ∃ j : Nat, j < 6 ∧ g.raOffset = 360 * (j : K) / 6
  nRa_size : g.nRa.size = g.nDec
  raB_size : g.raBounds.size = g.nDec
  band : ∀ d, d < g.nDec → BandFacts ms g d

/-- more about band `d` (used for the room at the seam): the number of cells is at most
3 + cosDecMin·360/minSize, and a band that does not embrace the circle leaves at least one minimal
cell `minSize / cosDecMin` between its first / last edge and every (offset) right ascension of
the first list -/
structure BandRoomFacts (ra : Array K) (ms : K) (g : Grid K) (d : Nat) : Prop where
  ncells : (g.nRa.getD d 0 : K) ≤ 3 + cosDecMinOf g.decBounds d * 360 / ms
  room : ((g.raBounds.getD d #[]).getD 0 0 = 0 ∧ (g.raBounds.getD d #[]).getD (g.nRa.getD d 0) 0 = 360) ∨
    ∀ i, i < ra.size →
      (g.raBounds.getD d #[]).getD 0 0 + ms / cosDecMinOf g.decBounds d ≤ fmod360 (ra.getD i 0 + g.raOffset) ∧
      fmod360 (ra.getD i 0 + g.raOffset) + ms / cosDecMinOf g.decBounds d ≤
        (g.raBounds.getD d #[]).getD (g.nRa.getD d 0) 0

/-- more about the grid built by `chunks.__init__(ra, dec, ms)`: an edge that is not clipped to
the pole stays 3·minSize away from it -/
structure GridRoom (ra dec : Array K) (ms : K) (g : Grid K) : Prop where
  dec_lo3 : g.decBounds.getD 0 0 = -90 ∨ -90 + 3 * ms ≤ g.decBounds.getD 0 0
  dec_hi3 : g.decBounds.getD g.nDec 0 = 90 ∨ g.decBounds.getD g.nDec 0 ≤ 90 - 3 * ms
  band : ∀ d, d < g.nDec → BandRoomFacts ra ms g d

end
end PydlVerif.Sphere

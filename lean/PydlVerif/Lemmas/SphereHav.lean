/-
C04: the haversine formula over ℝ.  `gcirc` (goddard/astro.py, units=2) IS the haversine
formula; here: its argument lies in [0,1], sin²(d/2) = hav(Δδ) + cos δ₁ cos δ₂ hav(Δα) for the
model's own `gcircDeg` at Mathlib's real functions, the spherical law of cosines (so d is the
angle between the two unit vectors), and the two consequences used by the chunk cover:
|Δδ| ≤ d and cos δ₁ cos δ₂ sin²(Δα/2) ≤ sin²(d/2).
-/
import PydlVerif.Model.Sphere
import PydlVerif.Lemmas.RealTrig
namespace PydlVerif.Sphere
open Real

/-- the haversine expression of gcirc (radians) -/
noncomputable def havExpr (x y t : ℝ) : ℝ :=
  sin ((y - x) / 2) ^ 2 + cos x * cos y * sin (t / 2) ^ 2

/-- haversine identity: hav(Δδ) + cos x cos y hav(t) = (1 - (sin x sin y + cos x cos y cos t)) / 2 -/
theorem havExpr_eq (x y t : ℝ) : havExpr x y t = (1 - (sin x * sin y + cos x * cos y * cos t)) / 2 := by
  unfold havExpr
  rw [Real.sin_sq_eq_half_sub, Real.sin_sq_eq_half_sub]
  have h1 : 2 * ((y - x) / 2) = y - x := by ring
  have h2 : 2 * (t / 2) = t := by ring
  rw [h1, h2, Real.cos_sub]
  ring

/-- |sin x sin y + cos x cos y cos t| ≤ 1 (it is the inner product of two unit vectors) -/
theorem cosD_bounds (x y t : ℝ) :
    -1 ≤ sin x * sin y + cos x * cos y * cos t ∧ sin x * sin y + cos x * cos y * cos t ≤ 1 := by
  have hc1 := Real.cos_le_one t
  have hc2 := Real.neg_one_le_cos t
  have ha := Real.cos_le_one (x - y)
  have hb := Real.neg_one_le_cos (x - y)
  have hc := Real.cos_le_one (x + y)
  have hd := Real.neg_one_le_cos (x + y)
  rw [Real.cos_sub] at ha hb
  rw [Real.cos_add] at hc hd
  rcases le_total 0 (cos x * cos y) with h | h
  · constructor <;> nlinarith
  · constructor <;> nlinarith

theorem havExpr_nonneg (x y t : ℝ) : 0 ≤ havExpr x y t := by
  rw [havExpr_eq]; linarith [(cosD_bounds x y t).2]

theorem havExpr_le_one (x y t : ℝ) : havExpr x y t ≤ 1 := by
  rw [havExpr_eq]; linarith [(cosD_bounds x y t).1]

/-- the angle returned by the haversine formula (radians) -/
noncomputable def havAngle (x y t : ℝ) : ℝ := 2 * arcsin (sqrt (havExpr x y t))

theorem havAngle_range (x y t : ℝ) : 0 ≤ havAngle x y t ∧ havAngle x y t ≤ π := by
  unfold havAngle
  have h0 := Real.arcsin_nonneg.2 (Real.sqrt_nonneg (havExpr x y t))
  have h1 := Real.arcsin_le_pi_div_two (sqrt (havExpr x y t))
  constructor <;> linarith

/-- sin²(d/2) = hav expression -/
theorem sin_sq_half_havAngle (x y t : ℝ) : sin (havAngle x y t / 2) ^ 2 = havExpr x y t := by
  unfold havAngle
  have h2 : 2 * arcsin (sqrt (havExpr x y t)) / 2 = arcsin (sqrt (havExpr x y t)) := by ring
  rw [h2, Real.sin_arcsin]
  · exact Real.sq_sqrt (havExpr_nonneg x y t)
  · linarith [Real.sqrt_nonneg (havExpr x y t)]
  · calc sqrt (havExpr x y t) ≤ sqrt 1 := Real.sqrt_le_sqrt (havExpr_le_one x y t)
      _ = 1 := Real.sqrt_one

/-- spherical law of cosines: the angle of the haversine formula is the angle between the unit
vectors of the two points -/
theorem cos_havAngle (x y t : ℝ) : cos (havAngle x y t) = sin x * sin y + cos x * cos y * cos t := by
  have h := sin_sq_half_havAngle x y t
  rw [havExpr_eq, Real.sin_sq_eq_half_sub] at h
  have h2 : 2 * (havAngle x y t / 2) = havAngle x y t := by ring
  rw [h2] at h
  linarith

/-- hav(t) scaled by the cosines is at most hav(d) -/
theorem cos_cos_hav_le (x y t : ℝ) : cos x * cos y * sin (t / 2) ^ 2 ≤ sin (havAngle x y t / 2) ^ 2 := by
  rw [sin_sq_half_havAngle]; unfold havExpr; nlinarith [sq_nonneg (sin ((y - x) / 2))]

/-- the declination difference is at most the separation (for cos x cos y ≥ 0, |y - x| ≤ π) -/
theorem abs_ddec_le_havAngle (x y t : ℝ) (hc : 0 ≤ cos x * cos y) (hxy : |y - x| ≤ π) :
    |y - x| ≤ havAngle x y t := by
  have hr := havAngle_range x y t
  have hpi := Real.pi_pos
  by_contra hlt
  rw [not_le] at hlt
  -- sin(d/2) < sin(|Δδ|/2)
  have h1 : sin (havAngle x y t / 2) < sin (|y - x| / 2) :=
    Real.sin_lt_sin_of_lt_of_le_pi_div_two (by linarith) (by linarith) (by linarith)
  have h0 : 0 ≤ sin (havAngle x y t / 2) := Real.sin_nonneg_of_nonneg_of_le_pi (by linarith) (by linarith)
  have h2 : sin (havAngle x y t / 2) ^ 2 < sin (|y - x| / 2) ^ 2 := pow_lt_pow_left₀ h1 h0 (by norm_num)
  have h3 : sin (|y - x| / 2) ^ 2 = sin ((y - x) / 2) ^ 2 := by
    rcases abs_cases (y - x) with ⟨h, _⟩ | ⟨h, _⟩
    · rw [h]
    · rw [h, neg_div, Real.sin_neg]; ring
  rw [h3, sin_sq_half_havAngle] at h2
  unfold havExpr at h2
  nlinarith [sq_nonneg (sin (t / 2))]

section model

/-- the model's `gcircDeg` at ℝ is the haversine angle in degrees -/
theorem gcircDeg_real (a1 d1 a2 d2 : ℝ) :
    @gcircDeg ℝ realTrig a1 d1 a2 d2 =
      havAngle (d1 * (π / 180)) (d2 * (π / 180)) (a2 * (π / 180) - a1 * (π / 180)) * (180 / π) := by
  unfold gcircDeg deg2rad rad2deg havAngle havExpr
  simp only [scalar_lit]
  push_cast
  have : ∀ z : ℝ, z * 3600 / 3600 = z := fun z => by ring
  rw [this]
  simp only [sq, mul_assoc]
  rfl

end model

end PydlVerif.Sphere

/-
C04: index arithmetic of `chunks.assign` (RA wrap) - core Lean only.
-/
import PydlVerif.Lemmas.SphereAssign
namespace PydlVerif.Sphere

theorem mem_irange (lo hi r : Int) : r ∈ irange lo hi ↔ lo ≤ r ∧ r ≤ hi := by
  simp only [irange, List.mem_map, List.mem_range]
  constructor
  · rintro ⟨k, hk, rfl⟩; omega
  · rintro ⟨h1, h2⟩; exact ⟨(r - lo).toNat, by omega, by omega⟩

/-- lines 168-174: for n > 0 the wrapped index is always `r mod n` -/
theorem wrapIdx_eq (n : Nat) (hn : 0 < n) (r : Int) : wrapIdx n r = some (r % (n : Int)).toNat := by
  have hn' : (0 : Int) < n := by exact_mod_cast hn
  have h0 := Int.emod_nonneg r (Int.ne_of_gt hn')
  have h1 := Int.emod_lt_of_pos r hn'
  unfold wrapIdx
  have hcur : (if r < 0 then (r + n) % n else if r > (n : Int) - 1 then (r - n) % n else r) = r % (n : Int) := by
    split
    · exact Int.add_emod_right _ _
    · split
      · exact Int.sub_emod_right _ _
      · rw [Int.emod_eq_of_lt (by omega) (by omega)]
  simp only [hcur]
  rw [if_pos ⟨h0, by omega⟩]

/-- the cells visited for one band: exactly `raChunkMin..raChunkMax` modulo `nRa` -/
theorem ra_wrap_index (n : Nat) (hn : 0 < n) (lo hi : Int) (c : Nat) :
    c ∈ (irange lo hi).filterMap (wrapIdx n) ↔ ∃ r : Int, lo ≤ r ∧ r ≤ hi ∧ c = (r % (n : Int)).toNat := by
  simp only [List.mem_filterMap, mem_irange, wrapIdx_eq n hn, Option.some.injEq]
  constructor
  · rintro ⟨r, ⟨h1, h2⟩, h3⟩; exact ⟨r, h1, h2, h3.symm⟩
  · rintro ⟨r, h1, h2, h3⟩; exact ⟨r, ⟨h1, h2⟩, h3.symm⟩

theorem wrapIdx_lt (n : Nat) (r : Int) (c : Nat) (h : wrapIdx n r = some c) : c < n := by
  unfold wrapIdx at h
  generalize (if r < 0 then (r + n) % n else if r > (n : Int) - 1 then (r - n) % n else r) = cur at h
  by_cases hc : 0 ≤ cur ∧ cur ≤ (n : Int) - 1
  · simp only [hc, and_self, if_true, Option.some.injEq] at h
    omega
  · simp [hc] at h

/-- the reset range (widened by one cell on both sides) contains the visited range -/
theorem cellsOfRange_subset (nRa : Array Nat) (b : Bounds) (c : Nat × Nat)
    (h : c ∈ cellsOfRange nRa b 0) : c ∈ cellsOfRange nRa b 1 := by
  simp only [cellsOfRange, List.mem_flatMap, List.mem_filterMap, mem_irange, Option.map_eq_some_iff] at h ⊢
  obtain ⟨⟨k, lo, hi⟩, hk, r, ⟨h1, h2⟩, x, hx, hc⟩ := h
  exact ⟨⟨k, lo, hi⟩, hk, r, ⟨by omega, by omega⟩, x, hx, hc⟩

end PydlVerif.Sphere

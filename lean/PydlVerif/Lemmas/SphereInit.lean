/-
C04: `chunks.__init__` builds a grid with the properties `GridFacts` (SphereGridDef.lean), over an
arbitrary linearly ordered field with floor and arbitrary transcendental functions.
The declinations are assumed to lie in [-90, 90] (`hdec`): without it the polar clipping of one
end only can produce `decMax < decMin`.
-/
import PydlVerif.Lemmas.SphereGridDef
import Mathlib.Tactic.Linarith
import Mathlib.Tactic.FieldSimp
import Mathlib.Tactic.Ring
namespace PydlVerif.Sphere
open PydlVerif

/-! ### generic: `for` over `List.range` in `Except`, `foldl` invariants -/

theorem forIn_range'_inv {ε σ : Type} (f : Nat → σ → Except ε (ForInStep σ)) (P : Nat → σ → Prop)
    (hnodone : ∀ k s s', f k s ≠ .ok (.done s')) :
    ∀ (n s : Nat) (init r : σ), P s init →
      (∀ k st st', s ≤ k → k < s + n → P k st → f k st = .ok (.yield st') → P (k+1) st') →
      forIn (List.range' s n) init f = .ok r → P (s + n) r := by
  intro n
  induction n with
  | zero =>
    intro s init r h0 _ h
    simp only [List.range'_zero, List.forIn_nil] at h
    cases h; exact h0
  | succ n ih =>
    intro s init r h0 hstep h
    rw [List.range'_succ, List.forIn_cons] at h
    cases hf : f s init with
    | error e => rw [hf] at h; cases h
    | ok st =>
      cases st with
      | done b => exact absurd hf (hnodone _ _ _)
      | yield b =>
        rw [hf] at h
        have := ih (s+1) b r (hstep s init b (le_refl _) (by omega) h0 hf)
          (fun k st st' h1 h2 => hstep k st st' (by omega) (by omega)) h
        rwa [show s + (n+1) = s + 1 + n by omega]

theorem forIn_range_inv {ε σ : Type} (n : Nat) (f : Nat → σ → Except ε (ForInStep σ)) (P : Nat → σ → Prop)
    (init r : σ) (h0 : P 0 init)
    (hstep : ∀ k s s', k < n → P k s → f k s = .ok (.yield s') → P (k+1) s')
    (hnodone : ∀ k s s', f k s ≠ .ok (.done s'))
    (h : forIn (List.range n) init f = .ok r) : P n r := by
  rw [List.range_eq_range'] at h
  have := forIn_range'_inv f P hnodone n 0 init r h0
    (fun k st st' _ h2 => hstep k st st' (by omega)) h
  rwa [Nat.zero_add] at this

theorem bind_ok {ε α β : Type} (x : Except ε α) (f : α → Except ε β) (b : β) (h : x >>= f = .ok b) :
    ∃ a, x = .ok a ∧ f a = .ok b := by
  cases x with
  | error e => cases h
  | ok a => exact ⟨a, rfl, h⟩

theorem throw_bind_ne {α β : Type} (s : String) (f : α → Except String β) (g : β) :
    ((throw s : Except String α) >>= f) ≠ .ok g := by
  intro h; cases h

theorem foldl_inv {σ β : Type} (Q : σ → Prop) (R : β → Prop) (F : σ → β → σ)
    (hF : ∀ st j, R j → Q st → Q (F st j)) :
    ∀ (l : List β) (st : σ), (∀ j ∈ l, R j) → Q st → Q (l.foldl F st) := by
  intro l
  induction l with
  | nil => intro st _ h; exact h
  | cons x l ih =>
    intro st hl h
    rw [List.foldl_cons]
    exact ih _ (fun j hj => hl j (List.mem_cons_of_mem _ hj)) (hF st x (hl x List.mem_cons_self) h)

theorem getD_push {β : Type} (a : Array β) (x d : β) (k : Nat) :
    (a.push x).getD k d = if k = a.size then x else a.getD k d := by
  rw [Array.getD_eq_getD_getElem?, Array.getD_eq_getD_getElem?, Array.getElem?_push]
  split <;> rfl

section
variable {K : Type} [Field K] [LinearOrder K] [IsStrictOrderedRing K] [FloorRing K] [TrigFns K]
attribute [local instance] fieldScalar fieldTrig
attribute [-instance] Scalar.instOfNat Scalar.instOfScientific
set_option linter.unusedSectionVars false

/-! ### amin / amax -/

theorem foldl_min_le (l : List K) (m : K) :
    l.foldl (fun m x => if x < m then x else m) m ≤ m ∧
    ∀ x ∈ l, l.foldl (fun m x => if x < m then x else m) m ≤ x := by
  induction l generalizing m with
  | nil => simp
  | cons x l ih =>
    simp only [List.foldl_cons, List.mem_cons]
    obtain ⟨h1, h2⟩ := ih (if x < m then x else m)
    have h3 : (if x < m then x else m) ≤ m := by split <;> [exact le_of_lt ‹_›; exact le_refl _]
    have h4 : (if x < m then x else m) ≤ x := by split <;> [exact le_refl _; exact not_lt.1 ‹_›]
    refine ⟨le_trans h1 h3, ?_⟩
    rintro y (rfl | hy)
    · exact le_trans h1 h4
    · exact h2 y hy

theorem foldl_max_ge (l : List K) (m : K) :
    m ≤ l.foldl (fun m x => if m < x then x else m) m ∧
    ∀ x ∈ l, x ≤ l.foldl (fun m x => if m < x then x else m) m := by
  induction l generalizing m with
  | nil => simp
  | cons x l ih =>
    simp only [List.foldl_cons, List.mem_cons]
    obtain ⟨h1, h2⟩ := ih (if m < x then x else m)
    have h3 : m ≤ (if m < x then x else m) := by split <;> [exact le_of_lt ‹_›; exact le_refl _]
    have h4 : x ≤ (if m < x then x else m) := by split <;> [exact le_refl _; exact not_lt.1 ‹_›]
    refine ⟨le_trans h3 h1, ?_⟩
    rintro y (rfl | hy)
    · exact le_trans h4 h1
    · exact h2 y hy

theorem amin_le (a : Array K) (i : Nat) (hi : i < a.size) : amin a ≤ a.getD i 0 := by
  unfold amin
  rw [← Array.foldl_toList]
  apply (foldl_min_le a.toList _).2
  rw [Array.getD_eq_getD_getElem?, Array.getElem?_eq_getElem hi, Option.getD_some]
  exact Array.getElem_mem_toList hi

theorem le_amax (a : Array K) (i : Nat) (hi : i < a.size) : a.getD i 0 ≤ amax a := by
  unfold amax
  rw [← Array.foldl_toList]
  apply (foldl_max_ge a.toList _).2
  rw [Array.getD_eq_getD_getElem?, Array.getElem?_eq_getElem hi, Option.getD_some]
  exact Array.getElem_mem_toList hi

theorem amin_le_amax (a : Array K) (h : a.size ≠ 0) : amin a ≤ amax a :=
  le_trans (amin_le a 0 (by omega)) (le_amax a 0 (by omega))

theorem getRaMinMax_le (ra : Array K) (off : K) (h : ra.size ≠ 0) :
    (getRaMinMax ra off).1 ≤ (getRaMinMax ra off).2 := by
  unfold getRaMinMax
  exact amin_le_amax _ (by rw [Array.size_map]; exact h)

theorem getD_eq_getElem (a : Array K) (i : Nat) (d : K) (hi : i < a.size) : a.getD i d = a[i] := by
  rw [Array.getD_eq_getD_getElem?, Array.getElem?_eq_getElem hi, Option.getD_some]

theorem amin_amax_bounds (a : Array K) (lo hi : K) (h : a.size ≠ 0)
    (hb : ∀ i, i < a.size → lo ≤ a.getD i 0 ∧ a.getD i 0 ≤ hi) : lo ≤ amin a ∧ amax a ≤ hi := by
  have hmem : ∀ x ∈ a.toList, lo ≤ x ∧ x ≤ hi := by
    intro x hx
    obtain ⟨i, hi', rfl⟩ := Array.mem_iff_getElem.1 (Array.mem_toList_iff.1 hx)
    rw [← getD_eq_getElem a i 0 hi']; exact hb i hi'
  constructor
  · unfold amin
    rw [← Array.foldl_toList]
    refine foldl_inv (fun st : K => lo ≤ st) (fun x => lo ≤ x) _ ?_ _ _ (fun x hx => (hmem x hx).1)
      (by rw [getD_eq_getElem a 0 _ (by omega), ← getD_eq_getElem a 0 0 (by omega)]; exact (hb 0 (by omega)).1)
    intro st x hx hst
    split <;> assumption
  · unfold amax
    rw [← Array.foldl_toList]
    refine foldl_inv (fun st : K => st ≤ hi) (fun x => x ≤ hi) _ ?_ _ _ (fun x hx => (hmem x hx).2)
      (by rw [getD_eq_getElem a 0 _ (by omega), ← getD_eq_getElem a 0 0 (by omega)]; exact (hb 0 (by omega)).2)
    intro st x hx hst
    split <;> assumption

theorem getD_map (a : Array K) (f : K → K) (i : Nat) (hi : i < a.size) :
    (a.map f).getD i 0 = f (a.getD i 0) := by
  rw [Array.getD_eq_getD_getElem?, Array.getElem?_map, Array.getElem?_eq_getElem hi,
    getD_eq_getElem a i 0 hi]
  rfl

theorem getRaMinMax_mem (ra : Array K) (off : K) (i : Nat) (hi : i < ra.size) :
    (getRaMinMax ra off).1 ≤ fmod360 (ra.getD i 0 + off) ∧
    fmod360 (ra.getD i 0 + off) ≤ (getRaMinMax ra off).2 := by
  unfold getRaMinMax
  have := getD_map ra (fun r => fmod360 (r + off)) i hi
  dsimp only at this ⊢
  rw [← this]
  exact ⟨amin_le _ i (by rw [Array.size_map]; exact hi), le_amax _ i (by rw [Array.size_map]; exact hi)⟩

theorem fmod360_range (x : K) (h0 : 0 ≤ x) (h1 : x < 720) : 0 ≤ fmod360 x ∧ fmod360 x < 360 := by
  unfold fmod360
  simp only [scalar_lit]
  push_cast
  split
  · exact ⟨h0, ‹_›⟩
  · rename_i h; rw [not_lt] at h; constructor <;> linarith

theorem getRaMinMax_range (ra : Array K) (off : K) (h : ra.size ≠ 0) (ho0 : 0 ≤ off) (ho1 : off ≤ 360)
    (hra : ∀ i, i < ra.size → 0 ≤ ra.getD i 0 ∧ ra.getD i 0 < 360) :
    0 ≤ (getRaMinMax ra off).1 ∧ (getRaMinMax ra off).2 ≤ 360 := by
  unfold getRaMinMax
  dsimp only
  apply amin_amax_bounds _ _ _ (by rw [Array.size_map]; exact h)
  intro i hi
  rw [Array.size_map] at hi
  rw [getD_map ra _ i hi]
  obtain ⟨a, b⟩ := fmod360_range (ra.getD i 0 + off) (by linarith [(hra i hi).1]) (by linarith [(hra i hi).2])
  exact ⟨a, b.le⟩
/-! ### equally spaced edges -/

theorem linEdges_getD (lo hi : K) (n k : Nat) (hk : k ≤ n) :
    ((Array.range (n + 1)).map fun (k : Nat) => lo + (hi - lo) * (k : K) / (n : K)).getD k 0 =
      lo + (hi - lo) * (k : K) / (n : K) := by
  rw [Array.getD_eq_getD_getElem?, Array.getElem?_map, Array.getElem?_range, if_pos (by omega)]
  rfl

theorem linEdges_ok (lo hi : K) (n : Nat) (hn : 0 < n) (hlt : lo < hi) (b : Array K)
    (hb : b = (Array.range (n + 1)).map fun (k : Nat) => lo + (hi - lo) * (k : K) / (n : K)) :
    EdgesOK b n ∧ b.getD 0 0 = lo ∧ b.getD n 0 = hi := by
  have hn' : (n : K) ≠ 0 := Nat.cast_ne_zero.2 (by omega)
  have e0 : b.getD 0 0 = lo := by
    rw [hb, linEdges_getD lo hi n 0 (by omega)]; simp
  have en : b.getD n 0 = hi := by
    rw [hb, linEdges_getD lo hi n n (le_refl _)]; field_simp; ring
  refine ⟨⟨hn, ?_, ?_, ?_⟩, e0, en⟩
  · rw [hb]; simp
  · rw [e0, en]; exact hlt
  · intro k hk
    rw [e0, en, hb, linEdges_getD lo hi n k hk]

theorem edgesOK_set (b : Array K) (n : Nat) (v : K) (h : EdgesOK b n) (hv : b.getD n 0 = v) :
    EdgesOK (b.set! n v) n ∧ (b.set! n v).getD 0 0 = b.getD 0 0 ∧ (b.set! n v).getD n 0 = v := by
  have key : ∀ k, (b.set! n v).getD k 0 = b.getD k 0 := by
    intro k
    rw [Array.set!_eq_setIfInBounds, Array.getD_eq_getD_getElem?, Array.getD_eq_getD_getElem?,
      Array.getElem?_setIfInBounds]
    by_cases hk : n = k
    · subst hk
      rw [if_pos rfl, if_pos (by rw [h.size]; omega), ← hv, Array.getD_eq_getD_getElem?,
        Array.getElem?_eq_getElem (by rw [h.size]; omega)]
      rfl
    · rw [if_neg hk]
  refine ⟨⟨h.pos, ?_, ?_, ?_⟩, key 0, by rw [key n, hv]⟩
  · rw [Array.set!_eq_setIfInBounds, Array.size_setIfInBounds, h.size]
  · rw [key, key]; exact h.lt
  · intro k hk; rw [key, key, key]; exact h.lin k hk

theorem linEdges_ends (lo hi : K) (n : Nat) (hn : 0 < n) (b : Array K)
    (hb : b = (Array.range (n + 1)).map fun (k : Nat) => lo + (hi - lo) * (k : K) / (n : K)) :
    b.size = n + 1 ∧ b.getD 0 0 = lo ∧ b.getD n 0 = hi := by
  have hn' : (n : K) ≠ 0 := Nat.cast_ne_zero.2 (by omega)
  refine ⟨by rw [hb]; simp, ?_, ?_⟩
  · rw [hb, linEdges_getD lo hi n 0 (by omega)]; simp
  · rw [hb, linEdges_getD lo hi n n (le_refl _)]; field_simp; ring

theorem set_ends (b : Array K) (n : Nat) (v : K) (hn : 0 < n) (hsz : b.size = n + 1) :
    (b.set! n v).getD 0 0 = b.getD 0 0 ∧ (b.set! n v).getD n 0 = v := by
  constructor
  · rw [Array.set!_eq_setIfInBounds, Array.getD_eq_getD_getElem?, Array.getD_eq_getD_getElem?,
      Array.getElem?_setIfInBounds, if_neg (by omega)]
  · rw [Array.set!_eq_setIfInBounds, Array.getD_eq_getD_getElem?,
      Array.getElem?_setIfInBounds, if_pos rfl, if_pos (by omega)]
    rfl

/-! ### the RA offset -/

theorem raRangeSearch_off (ra : Array K) (m : K) :
    ∃ j : Nat, j < 6 ∧ (raRangeSearch ra m).2 = 360 * (j : K) / 6 := by
  unfold raRangeSearch
  apply foldl_inv (fun st : K × K => ∃ j : Nat, j < 6 ∧ st.2 = 360 * (j : K) / 6) (fun j => j < 6)
  · intro st j hj hQ
    dsimp only
    split
    · refine ⟨j, hj, ?_⟩
      simp only [scalar_lit, scalar_ofNat]
    · exact hQ
  · intro j hj; exact List.mem_range.1 hj
  · refine ⟨0, by omega, ?_⟩
    simp only [scalar_lit]
    push_cast
    ring

/-! ### the arithmetic of the dec range and of one band -/

theorem toNat_floor (x : K) (hx : 0 ≤ x) (n : Nat) (hn : n = (3 + ⌊x⌋).toNat) :
    3 ≤ n ∧ x + 2 < (n : K) ∧ (n : K) ≤ 3 + x := by
  have hfl : 0 ≤ ⌊x⌋ := Int.floor_nonneg.2 hx
  have hnI : (n : Int) = 3 + ⌊x⌋ := by rw [hn]; exact Int.toNat_of_nonneg (by omega)
  have hnK : (n : K) = 3 + (⌊x⌋ : K) := by
    have := congrArg (Int.cast : Int → K) hnI
    push_cast at this; exact this
  have := Int.lt_floor_add_one x
  have := Int.floor_le x
  rw [hnK]
  exact ⟨by omega, by linarith, by linarith⟩

theorem dec_math (ms decMin0 decMax0 decMin1 decMax1 : K) (nDec : Nat) (hms : 0 < ms)
    (h : decMin0 ≤ decMax0) (hn : nDec = (3 + ⌊(decMax0 - decMin0) / ms⌋).toNat)
    (h1 : decMin1 = decMin0 - 0.5 * (ms * (nDec : K) - decMax0 + decMin0))
    (h2 : decMax1 = decMin1 + ms * (nDec : K)) :
    3 ≤ nDec ∧ decMin1 + ms < decMin0 ∧ decMax0 + ms < decMax1 ∧ decMin1 < decMax1 := by
  obtain ⟨h3, h4, -⟩ := toNat_floor ((decMax0 - decMin0) / ms) (div_nonneg (sub_nonneg.2 h) hms.le) nDec hn
  have h5 : (decMax0 - decMin0) + 2 * ms < ms * (nDec : K) := by
    have : ms * ((decMax0 - decMin0) / ms + 2) < ms * (nDec : K) := mul_lt_mul_of_pos_left h4 hms
    have e : ms * ((decMax0 - decMin0) / ms + 2) = (decMax0 - decMin0) + 2 * ms := by
      field_simp
    rwa [e] at this
  have h05 : (0.5 : K) = 1 / 2 := by norm_num
  rw [h05] at h1
  refine ⟨h3, ?_, ?_, ?_⟩ <;> linarith

theorem band_math (c ms raMin raMax raRangeTmp raMinTmp raMaxTmp lo hi : K) (n0 n : Nat) (p q emb : Bool)
    (hc : 0 < c) (hms : 0 < ms) (hr : raMin ≤ raMax) (hr0 : 0 ≤ raMin) (hr1 : raMax ≤ 360)
    (hn0 : n0 = (3 + ⌊c * (raMax - raMin) / ms⌋).toNat)
    (hT : raRangeTmp = ms * (n0 : K) / c)
    (hMin : raMinTmp = raMin - 0.5 * (raRangeTmp - raMax + raMin))
    (hMax : raMaxTmp = raMinTmp + raRangeTmp)
    (hemb : emb = (decide (360 ≤ raRangeTmp) || decide (raMinTmp ≤ ms / c) ||
      decide (360 - ms / c ≤ raMaxTmp) || q))
    (hlo : lo = if emb = true then 0 else raMinTmp)
    (hhi : hi = if emb = true then 360 else raMaxTmp)
    (hn : n = if p = true then 1 else n0) :
    0 < n ∧ lo < hi ∧ ((lo = 0 ∧ hi = 360) ∨ (ms / c < lo ∧ hi < 360 - ms / c)) ∧
    (n : K) ≤ 3 + c * 360 / ms ∧
    ((lo = 0 ∧ hi = 360) ∨ (lo + ms / c < raMin ∧ raMax + ms / c < hi)) := by
  have hx : 0 ≤ c * (raMax - raMin) / ms :=
    div_nonneg (mul_nonneg hc.le (sub_nonneg.2 hr)) hms.le
  obtain ⟨h3, h4, h5⟩ := toNat_floor _ hx n0 hn0
  have hn0K : (0 : K) < (n0 : K) := Nat.cast_pos.2 (by omega)
  have hTpos : 0 < raRangeTmp := by rw [hT]; exact div_pos (mul_pos hms hn0K) hc
  have hx360 : c * (raMax - raMin) / ms ≤ c * 360 / ms :=
    div_le_div_of_nonneg_right (mul_le_mul_of_nonneg_left (by linarith) hc.le) hms.le
  have h360 : 0 ≤ c * 360 / ms := le_trans hx hx360
  have hTbig : (raMax - raMin) + 2 * (ms / c) < raRangeTmp := by
    have h6 : ms / c * (c * (raMax - raMin) / ms + 2) < ms / c * (n0 : K) :=
      mul_lt_mul_of_pos_left h4 (div_pos hms hc)
    have e1 : ms / c * (c * (raMax - raMin) / ms + 2) = (raMax - raMin) + 2 * (ms / c) := by
      field_simp
    have e2 : ms / c * (n0 : K) = ms * (n0 : K) / c := by ring
    rw [e1, e2, ← hT] at h6; exact h6
  have h05 : (0.5 : K) = 1 / 2 := by norm_num
  rw [h05] at hMin
  refine ⟨?_, ?_, ?_, ?_, ?_⟩
  · rw [hn]; split <;> omega
  · cases emb
    · rw [hlo, hhi, if_neg (by decide), if_neg (by decide), hMax]; linarith
    · rw [hlo, hhi, if_pos rfl, if_pos rfl]; norm_num
  · cases emb
    · right
      have h1 := hemb.symm
      simp only [Bool.or_eq_false_iff, decide_eq_false_iff_not, not_le] at h1
      rw [hlo, hhi, if_neg (by decide), if_neg (by decide)]
      exact ⟨h1.1.1.2, h1.1.2⟩
    · left
      rw [hlo, hhi, if_pos rfl, if_pos rfl]; exact ⟨rfl, rfl⟩
  · rw [hn]; split
    · rw [Nat.cast_one]; linarith
    · linarith
  · cases emb
    · right
      rw [hlo, hhi, if_neg (by decide), if_neg (by decide)]
      constructor <;> linarith
    · left
      rw [hlo, hhi, if_pos rfl, if_pos rfl]; exact ⟨rfl, rfl⟩

/-- the facts of band `d` in terms of its cell count `n` and its edges `b` -/
def BandOK (ms : K) (decBounds : Array K) (d n : Nat) (b : Array K) : Prop :=
  0 < cosDecMinOf decBounds d ∧ EdgesOK b n ∧
    ((b.getD 0 0 = 0 ∧ b.getD n 0 = 360) ∨
     (ms / cosDecMinOf decBounds d < b.getD 0 0 ∧ b.getD n 0 < 360 - ms / cosDecMinOf decBounds d))

/-- the room facts of band `d` in terms of its cell count `n` and its edges `b` -/
def BandRoomOK (ra : Array K) (ms off : K) (decBounds : Array K) (d n : Nat) (b : Array K) : Prop :=
  (n : K) ≤ 3 + cosDecMinOf decBounds d * 360 / ms ∧
    ((b.getD 0 0 = 0 ∧ b.getD n 0 = 360) ∨
     ∀ i, i < ra.size →
      b.getD 0 0 + ms / cosDecMinOf decBounds d ≤ fmod360 (ra.getD i 0 + off) ∧
      fmod360 (ra.getD i 0 + off) + ms / cosDecMinOf decBounds d ≤ b.getD n 0)

/-! ### the constructor -/

/-- the domain guards of the model's constructor: it returns only for a non-empty first list with
as many declinations as right ascensions, all right ascensions in [0, 360) -/
theorem chunksInit_guards (ra dec : Array K) (ms : K) (g : Grid K)
    (h : chunksInit ra dec ms = .ok g) :
    ra.size ≠ 0 ∧ ra.size = dec.size ∧ ∀ i, i < ra.size → 0 ≤ ra.getD i 0 ∧ ra.getD i 0 < 360 := by
  unfold chunksInit at h
  simp -zeta only [scalar_lit, scalar_sci, scalar_ofNat, scalar_floor] at h
  simp -zeta only [Nat.cast_ofNat, Nat.cast_zero] at h
  extract_lets decMin0 decMax0 decRange0 nDec decRange decMin1 decMax1 decMin decMax decBounds0 decBounds
    c0 raRange nRa0 raB0 jp4 jp3 jp2 jp1 at h
  split at h
  · exact absurd h (throw_bind_ne _ _ _)
  rename_i hg1
  simp only [jp1] at h
  split at h
  · exact absurd h (throw_bind_ne _ _ _)
  simp only [jp2] at h
  split at h
  · exact absurd h (throw_bind_ne _ _ _)
  rename_i hg3
  refine ⟨fun h => hg1 (Or.inl h), by by_contra h; exact hg1 (Or.inr h), ?_⟩
  intro i hi
  by_contra hcon
  apply hg3
  rw [Array.any_eq_true]
  refine ⟨i, hi, ?_⟩
  have hgi : ra.getD i 0 = ra[i] := by simp [Array.getD_eq_getD_getElem?, hi]
  rw [hgi] at hcon
  rw [decide_eq_true_eq]
  by_contra hno
  rw [not_or, not_not, not_lt] at hno
  exact hcon hno
/-- both sets of facts from one unfolding of the constructor; only the order of the first and the
last dec edge needs the declinations to lie in [-90, 90] -/
theorem chunksInit_both (ra dec : Array K) (ms : K) (g : Grid K)
    (h : chunksInit ra dec ms = .ok g) :
    ((∀ i, i < dec.size → -90 ≤ dec.getD i 0 ∧ dec.getD i 0 ≤ 90) → GridFacts ra dec ms g) ∧
    GridRoom ra dec ms g := by
  obtain ⟨-, -, hra⟩ := chunksInit_guards ra dec ms g h
  unfold chunksInit at h
  simp -zeta only [scalar_lit, scalar_sci, scalar_ofNat, scalar_floor] at h
  simp -zeta only [Nat.cast_ofNat, Nat.cast_zero] at h
  extract_lets decMin0 decMax0 decRange0 nDec decRange decMin1 decMax1 decMin decMax decBounds0 decBounds
    c0 raRange nRa0 raB0 jp4 jp3 jp2 jp1 at h
  split at h
  · exact absurd h (throw_bind_ne _ _ _)
  rename_i hg1
  simp only [jp1] at h
  split at h
  · exact absurd h (throw_bind_ne _ _ _)
  rename_i hg2
  simp only [jp2] at h
  split at h
  · exact absurd h (throw_bind_ne _ _ _)
  rename_i hg3
  simp only [jp3] at h
  split at h
  · exact absurd h (throw_bind_ne _ _ _)
  rename_i hg4
  simp -zeta only [jp4] at h
  obtain ⟨s, hloop, hs⟩ := bind_ok _ _ _ h
  clear h jp1 jp2 jp3 jp4
  -- guards
  have hms : 0 < ms := not_not.1 hg2
  have hsz : ra.size ≠ 0 := fun h => hg1 (Or.inl h)
  have hsz2 : ra.size = dec.size := by
    by_contra h; exact hg1 (Or.inr h)
  have hdsz : dec.size ≠ 0 := by omega
  -- the dec range
  obtain ⟨hn3, hlo1, hhi1, hlt1⟩ := dec_math ms decMin0 decMax0 decMin1 decMax1 nDec hms
    (amin_le_amax dec hdsz) rfl rfl rfl
  have hd0 : ∀ i, i < dec.size → decMin0 ≤ dec.getD i 0 ∧ dec.getD i 0 ≤ decMax0 :=
    fun i hi => ⟨amin_le dec i hi, le_amax dec i hi⟩
  obtain ⟨hsz0, he0, heN⟩ := linEdges_ends decMin decMax nDec (by omega) decBounds0 rfl
  obtain ⟨hb0, hbN⟩ := set_ends decBounds0 nDec decMax (by omega) hsz0
  replace hb0 : decBounds.getD 0 0 = decMin := hb0.trans he0
  replace hbN : decBounds.getD nDec 0 = decMax := hbN
  -- the offset and the RA range
  obtain ⟨j, hj, hoff⟩ := raRangeSearch_off ra (ms / c0)
  have hj5 : (j : K) ≤ 5 := by exact_mod_cast Nat.le_of_lt_succ hj
  have hj0 : (0 : K) ≤ (j : K) := Nat.cast_nonneg j
  obtain ⟨hr0, hr1⟩ := getRaMinMax_range ra (raRangeSearch ra (ms / c0)).2 hsz (by rw [hoff]; linarith) (by rw [hoff]; linarith) hra
  -- the loop over the bands
  have hinv := forIn_range_inv nDec _
    (fun k st => st.1.size = k ∧ st.2.size = k ∧
      ∀ d, d < k → BandOK ms decBounds d (st.1.getD d 0) (st.2.getD d #[]) ∧
        BandRoomOK ra ms (raRangeSearch ra (ms / c0)).2 decBounds d (st.1.getD d 0) (st.2.getD d #[]))
    (nRa0, raB0) s ⟨rfl, rfl, fun d hd => absurd hd (Nat.not_lt_zero d)⟩ ?step ?nodone hloop
  case nodone =>
    intro k st st' hf
    extract_lets nRa raB c n0 raRangeTmp raMinTmp raMaxTmp emb lo hi n nRa' raB' jp at hf
    split at hf
    · exact absurd hf (throw_bind_ne _ _ _)
    simp -zeta only [jp] at hf
    cases hf
  case step =>
    intro k st st' hk ⟨h1, h2, h3⟩ hf
    extract_lets nRa raB c n0 raRangeTmp raMinTmp raMaxTmp emb lo hi n nRa' raB' jp at hf
    split at hf
    · exact absurd hf (throw_bind_ne _ _ _)
    rename_i hc
    simp -zeta only [jp] at hf
    have hst : st' = (nRa', raB') := by cases hf; rfl
    clear hf jp
    obtain ⟨hnpos, hlohi, hext, hnc, hroom⟩ :=
      band_math c ms _ _ raRangeTmp raMinTmp raMaxTmp lo hi n0 n _ _ emb
      (not_le.1 hc) hms (getRaMinMax_le ra _ hsz) hr0 hr1 rfl rfl rfl rfl rfl rfl rfl rfl
    obtain ⟨hE', hl, hh⟩ := linEdges_ok lo hi n hnpos hlohi _ rfl
    subst hst
    refine ⟨?_, ?_, ?_⟩
    · show (nRa.push n).size = k + 1
      rw [Array.size_push]; exact congrArg (· + 1) h1
    · show (raB.push _).size = k + 1
      rw [Array.size_push]; exact congrArg (· + 1) h2
    · intro d hd
      show BandOK ms decBounds d ((nRa.push n).getD d 0) ((raB.push _).getD d #[]) ∧
        BandRoomOK ra ms _ decBounds d ((nRa.push n).getD d 0) ((raB.push _).getD d #[])
      rw [getD_push, getD_push]
      by_cases hdk : d = k
      · rw [if_pos (hdk.trans h1.symm), if_pos (hdk.trans h2.symm), hdk]
        refine ⟨⟨not_le.1 hc, hE', by rw [hl, hh]; exact hext⟩, hnc, ?_⟩
        rw [hl, hh]
        rcases hroom with hroom | hroom
        · exact Or.inl hroom
        · refine Or.inr fun i hir => ?_
          obtain ⟨m1, m2⟩ := getRaMinMax_mem ra (raRangeSearch ra (ms / c0)).2 i hir
          obtain ⟨r1, r2⟩ := hroom
          constructor
          · show lo + ms / c ≤ _
            linarith
          · show _ + ms / c ≤ hi
            linarith
      · rw [if_neg (fun e => hdk (e.trans h1)), if_neg (fun e => hdk (e.trans h2))]
        exact h3 d (by omega)
  obtain ⟨hs1, hs2, hs3⟩ := hinv
  have hdecMin : decMin = if decMin1 < -90 + 3 * ms then (-90 : K) else decMin1 := rfl
  have hdecMax : decMax = if 90 - 3 * ms < decMax1 then (90 : K) else decMax1 := rfl
  cases hs
  constructor
  · intro hdec
    have hm90 : -90 ≤ decMax0 := le_trans (hdec 0 (by omega)).1 (hd0 0 (by omega)).2
    have hp90 : decMin0 ≤ 90 := le_trans (hd0 0 (by omega)).1 (hdec 0 (by omega)).2
    have hMinMax : decMin < decMax := by
      rw [hdecMin, hdecMax]
      split <;> split <;> [norm_num; linarith; linarith; linarith]
    obtain ⟨hE0, -, heN'⟩ := linEdges_ok decMin decMax nDec (by omega) hMinMax decBounds0 rfl
    obtain ⟨hE, -, -⟩ := edgesOK_set decBounds0 nDec decMax hE0 heN'
    refine ⟨hms, rfl, hn3, hE, ?_, ?_, ⟨j, hj, hoff⟩, hs1, hs2, ?_⟩
    · show decBounds.getD 0 0 = -90 ∨ (-90 < decBounds.getD 0 0 ∧
        ∀ i, i < dec.size → decBounds.getD 0 0 + ms ≤ dec.getD i 0)
      rw [hb0, hdecMin]
      split
      · exact Or.inl rfl
      · rename_i hcl
        exact Or.inr ⟨by linarith [not_lt.1 hcl], fun i hi => by linarith [(hd0 i hi).1]⟩
    · show decBounds.getD nDec 0 = 90 ∨ (decBounds.getD nDec 0 < 90 ∧
        ∀ i, i < dec.size → dec.getD i 0 + ms ≤ decBounds.getD nDec 0)
      rw [hbN, hdecMax]
      split
      · exact Or.inl rfl
      · rename_i hcl
        exact Or.inr ⟨by linarith [not_lt.1 hcl], fun i hi => by linarith [(hd0 i hi).2]⟩
    · intro d hd
      obtain ⟨a, b, c⟩ := (hs3 d hd).1
      exact ⟨a, b, c⟩
  · refine ⟨?_, ?_, ?_⟩
    · show decBounds.getD 0 0 = -90 ∨ -90 + 3 * ms ≤ decBounds.getD 0 0
      rw [hb0, hdecMin]
      split
      · exact Or.inl rfl
      · rename_i hcl; exact Or.inr (not_lt.1 hcl)
    · show decBounds.getD nDec 0 = 90 ∨ decBounds.getD nDec 0 ≤ 90 - 3 * ms
      rw [hbN, hdecMax]
      split
      · exact Or.inl rfl
      · rename_i hcl; exact Or.inr (not_lt.1 hcl)
    · intro d hd
      obtain ⟨a, b⟩ := (hs3 d hd).2
      exact ⟨a, b⟩

theorem chunksInit_facts (ra dec : Array K) (ms : K) (g : Grid K)
    (hdec : ∀ i, i < dec.size → -90 ≤ dec.getD i 0 ∧ dec.getD i 0 ≤ 90)
    (h : chunksInit ra dec ms = .ok g) : GridFacts ra dec ms g :=
  (chunksInit_both ra dec ms g h).1 hdec

theorem chunksInit_room (ra dec : Array K) (ms : K) (g : Grid K)
    (h : chunksInit ra dec ms = .ok g) : GridRoom ra dec ms g :=
  (chunksInit_both ra dec ms g h).2

end
end PydlVerif.Sphere

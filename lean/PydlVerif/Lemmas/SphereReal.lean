/-
C04: margin lemmas over an ordered field (loops of getbounds) and over ℝ
(the corrected RA margin).
-/
import PydlVerif.Model.Sphere
import PydlVerif.Lemmas.RealTrig
namespace PydlVerif.Sphere
open Real

/-! ### the while loops of getbounds over a linearly ordered field -/
section field
variable {K : Type} [Field K] [LinearOrder K] [IsStrictOrderedRing K] [FloorRing K]
attribute [local instance] fieldScalar

theorem decDown_le (b : Array K) (dec m : K) (c : Nat) : decDown b dec m c ≤ c := by
  induction c with
  | zero => simp [decDown]
  | succ c ih => simp only [decDown]; split <;> omega

theorem decDown_cover (b : Array K) (dec m : K) (c bp : Nat) (hbp : bp ≤ c)
    (h : ∀ i, bp < i → i ≤ c → dec - b.getD i 0 < m) : decDown b dec m c ≤ bp := by
  induction c with
  | zero => simp [decDown]
  | succ c ih =>
    simp only [decDown]
    by_cases hc : bp = c + 1
    · subst hc; split
      · have := decDown_le b dec m c; omega
      · omega
    · rw [if_pos (h (c+1) (by omega) (by omega))]
      exact ih (by omega) (fun i h1 h2 => h i h1 (by omega))

theorem decUp_ge (b : Array K) (dec m : K) (c f : Nat) : c ≤ decUp b dec m c f := by
  induction f generalizing c with
  | zero => simp [decUp]
  | succ f ih => simp only [decUp]; split
                 · have := ih (c+1); omega
                 · omega

theorem decUp_cover (b : Array K) (dec m : K) (c f bp : Nat) (h1 : c ≤ bp) (h2 : bp ≤ c + f)
    (h : ∀ i, c ≤ i → i < bp → b.getD (i+1) 0 - dec < m) : bp ≤ decUp b dec m c f := by
  induction f generalizing c with
  | zero => simp only [decUp]; omega
  | succ f ih =>
    simp only [decUp]
    by_cases hc : c = bp
    · subst hc; split
      · have := decUp_ge b dec m (c+1) f; omega
      · omega
    · rw [if_pos (h c (by omega) (by omega))]
      exact ih (c+1) (by omega) (by omega) (fun i h3 h4 => h i (by omega) h4)

theorem raDown_le (b : Array K) (ra M : K) (r : Nat) : raDown b ra M r ≤ (r : Int) := by
  induction r with
  | zero => simp only [raDown]; split <;> simp
  | succ r ih => simp only [raDown]; split
                 · have := ih; push_cast; omega
                 · exact le_refl _

theorem raDown_cover (b : Array K) (ra M : K) (r j : Nat) (hj : j ≤ r)
    (h : ∀ i, j < i → i ≤ r → ra - b.getD i 0 < M) : raDown b ra M r ≤ (j : Int) := by
  induction r with
  | zero =>
    have : j = 0 := by omega
    subst this
    simp only [raDown]; split <;> simp
  | succ r ih =>
    simp only [raDown]
    by_cases hc : j = r + 1
    · subst hc; split
      · have := raDown_le b ra M r; push_cast; omega
      · exact le_refl _
    · rw [if_pos (h (r+1) (by omega) (by omega))]
      exact ih (by omega) (fun i h1 h2 => h i h1 (by omega))

theorem raUp_ge (b : Array K) (ra M : K) (r f : Nat) : r ≤ raUp b ra M r f := by
  induction f generalizing r with
  | zero => simp [raUp]
  | succ f ih => simp only [raUp]; split
                 · have := ih (r+1); omega
                 · omega

theorem raUp_cover (b : Array K) (ra M : K) (r f j : Nat) (h1 : r ≤ j) (h2 : j ≤ r + f)
    (h : ∀ i, r ≤ i → i < j → b.getD (i+1) 0 - ra < M) : j ≤ raUp b ra M r f := by
  induction f generalizing r with
  | zero => simp only [raUp]; omega
  | succ f ih =>
    simp only [raUp]
    by_cases hc : r = j
    · subst hc; split
      · have := raUp_ge b ra M (r+1) f; omega
      · omega
    · rw [if_pos (h r (by omega) (by omega))]
      exact ih (r+1) (by omega) (by omega) (fun i h3 h4 => h i (by omega) h4)

end field

/-! ### the corrected RA margin over ℝ (radians) -/

/-- haversine bound: if cos δp cos δq sin²(Δ/2) ≤ sin²(d/2), d < m and c ≤ cos δp, then
Δ/2 < arcsin (sin(m/2)/√(c cos δq)) whenever that argument is < 1 -/
theorem half_dra_lt_arcsin (c cq cp x y z : ℝ) (hc : 0 < c) (hcp : c ≤ cp) (hcq : 0 < cq)
    (hx : 0 ≤ x) (hx2 : x ≤ π / 2) (hy : 0 ≤ y) (hyz : y < z) (hz : z ≤ π / 2)
    (hav : cp * cq * sin x ^ 2 ≤ sin y ^ 2)
    (hs : sin z / sqrt (c * cq) < 1) : x < arcsin (sin z / sqrt (c * cq)) := by
  have hpos : 0 < c * cq := mul_pos hc hcq
  have hsq : 0 < sqrt (c * cq) := Real.sqrt_pos.2 hpos
  have hsz : 0 ≤ sin z := Real.sin_nonneg_of_nonneg_of_le_pi (by linarith) (by linarith [Real.pi_pos])
  have hsx : 0 ≤ sin x := Real.sin_nonneg_of_nonneg_of_le_pi hx (by linarith [Real.pi_pos])
  have hsy : 0 ≤ sin y := Real.sin_nonneg_of_nonneg_of_le_pi hy (by linarith [Real.pi_pos])
  have hyz' : sin y < sin z := Real.sin_lt_sin_of_lt_of_le_pi_div_two (by linarith [Real.pi_pos]) hz hyz
  have hs0 : 0 ≤ sin z / sqrt (c * cq) := div_nonneg hsz hsq.le
  rw [Real.lt_arcsin_iff_sin_lt ⟨by linarith [Real.pi_pos], hx2⟩ ⟨by linarith, hs.le⟩]
  rw [lt_div_iff₀ hsq]
  -- compare squares
  have h1 : (sin x * sqrt (c * cq)) ^ 2 < sin z ^ 2 := by
    rw [mul_pow, Real.sq_sqrt hpos.le]
    have h2 : sin x ^ 2 * (c * cq) ≤ cp * cq * sin x ^ 2 := by
      have : 0 ≤ sin x ^ 2 * cq := mul_nonneg (sq_nonneg _) hcq.le
      nlinarith
    have h3 : sin y ^ 2 < sin z ^ 2 := by
      apply pow_lt_pow_left₀ hyz' hsy (by norm_num)
    linarith
  exact lt_of_pow_lt_pow_left₀ 2 hsz h1

section real

/-- the model's `raMarginOf` at ℝ -/
theorem raMarginOf_real (c δq m : ℝ) :
    @raMarginOf ℝ realTrig c δq m =
      if sin (0.5 * m * (π / 180)) / sqrt (c * cos (δq * (π / 180))) < 1
      then 2 * (arcsin (sin (0.5 * m * (π / 180)) / sqrt (c * cos (δq * (π / 180)))) * (180 / π)) else 360 := by
  unfold raMarginOf deg2rad rad2deg cosd
  simp only [scalar_lit, scalar_sci]
  push_cast
  rfl

end real

end PydlVerif.Sphere

/-
C04: the room at the seam (`BandRoom`) from the grid facts, over ℝ: with chunksize ≥ 4·matchlength
and declination edges at least 3·chunksize away from the poles, the RA margin of `getbounds` in
any band near the point is at most HALF a minimal cell `minSize / cosDecMin` - so one wrap cell
suffices and a point close to a first-list point lies inside the RA extent of the bands it visits.
-/
import PydlVerif.Lemmas.SphereComplete
import Mathlib.Analysis.SpecialFunctions.Trigonometric.Bounds
import Mathlib.Analysis.Convex.SpecificFunctions.Deriv
import Mathlib.Analysis.Real.Pi.Bounds
namespace PydlVerif.Sphere
open Real

attribute [local instance] realFns fieldScalar fieldTrig
attribute [-instance] Scalar.instOfNat Scalar.instOfScientific

/-! ### elementary trigonometric estimates -/

/-- concavity of sin on [0, π] through the origin -/
theorem sin_scale (lam x : ℝ) (h0 : 0 ≤ lam) (h1 : lam ≤ 1) (hx0 : 0 ≤ x) (hx : x ≤ π) :
    lam * sin x ≤ sin (lam * x) := by
  have h := strictConcaveOn_sin_Icc.concaveOn.2 (show (0 : ℝ) ∈ Set.Icc 0 π from ⟨le_refl _, Real.pi_pos.le⟩)
    (show x ∈ Set.Icc 0 π from ⟨hx0, hx⟩) (by linarith : 0 ≤ 1 - lam) h0 (by ring : 1 - lam + lam = 1)
  simpa [smul_eq_mul] using h

/-- Jordan: arcsin u ≤ (π/2) u on [0, 1] -/
theorem arcsin_le_mul (u : ℝ) (h0 : 0 ≤ u) (h1 : u ≤ 1) : arcsin u ≤ π / 2 * u := by
  have hpi := Real.pi_pos
  have ha0 : 0 ≤ arcsin u := Real.arcsin_nonneg.2 h0
  have ha1 : arcsin u ≤ π / 2 := Real.arcsin_le_pi_div_two u
  have h := Real.mul_le_sin ha0 ha1
  rw [Real.sin_arcsin (by linarith) h1] at h
  have : arcsin u = π / 2 * (2 / π * arcsin u) := by field_simp
  rw [this]
  exact mul_le_mul_of_nonneg_left h (by positivity)

/-- a declination within 2·ml of a band whose extreme edge `e` is at least 3·ms ≥ 12·ml away from
the pole: its cosine is at least 5/6 of the band's `cosDecMin`, which is at least ms/30 -/
theorem cos_ge_near (e δ ml ms : ℝ) (hml : 0 < ml) (hms : 4 * ml ≤ ms) (he : |e| ≤ 90 - 3 * ms)
    (hδ : |δ| ≤ |e| + 2 * ml) :
    5 / 6 * cos (e * (π / 180)) ≤ cos (δ * (π / 180)) ∧ ms / 30 ≤ cos (e * (π / 180)) := by
  have hpi := Real.pi_pos
  have hk : 0 < π / 180 := by positivity
  have ha0 : 0 ≤ |e| := abs_nonneg e
  -- E = 90 - |e| ≥ 3 ms ≥ 12 ml
  have hE1 : 3 * ms ≤ 90 - |e| := by linarith
  have hE2 : 90 - |e| ≤ 90 := by linarith
  have hce : cos (e * (π / 180)) = sin ((90 - |e|) * (π / 180)) := by
    rw [← Real.cos_abs (e * (π / 180)), abs_mul, abs_of_pos hk, ← Real.sin_pi_div_two_sub]
    congr 1; ring
  have hEk0 : 0 ≤ (90 - |e|) * (π / 180) := mul_nonneg (by linarith) hk.le
  have hEk1 : (90 - |e|) * (π / 180) ≤ π / 2 := by
    have : (90 - |e|) * (π / 180) ≤ 90 * (π / 180) := mul_le_mul_of_nonneg_right hE2 hk.le
    linarith [show 90 * (π / 180) = π / 2 by ring]
  constructor
  · -- cos δ ≥ cos(|e| + 2 ml) = sin(E - 2 ml) ≥ sin(5/6 E) ≥ 5/6 sin E
    have h1 : cos ((|e| + 2 * ml) * (π / 180)) ≤ cos (δ * (π / 180)) := by
      apply cos_deg_le
      · rw [abs_of_nonneg (by linarith : 0 ≤ |e| + 2 * ml)]; exact hδ
      · rw [abs_of_nonneg (by linarith : 0 ≤ |e| + 2 * ml)]; linarith
    have h2 : cos ((|e| + 2 * ml) * (π / 180)) = sin ((90 - |e| - 2 * ml) * (π / 180)) := by
      rw [← Real.sin_pi_div_two_sub]; congr 1; ring
    have h3 : sin (5 / 6 * ((90 - |e|) * (π / 180))) ≤ sin ((90 - |e| - 2 * ml) * (π / 180)) := by
      apply Real.sin_le_sin_of_le_of_le_pi_div_two
      · have : 0 ≤ 5 / 6 * ((90 - |e|) * (π / 180)) := mul_nonneg (by norm_num) hEk0
        linarith
      · have : (90 - |e| - 2 * ml) * (π / 180) ≤ (90 - |e|) * (π / 180) :=
          mul_le_mul_of_nonneg_right (by linarith) hk.le
        linarith
      · have : 5 / 6 * ((90 - |e|) * (π / 180)) = (5 / 6 * (90 - |e|)) * (π / 180) := by ring
        rw [this]
        exact mul_le_mul_of_nonneg_right (by linarith) hk.le
    have h4 := sin_scale (5 / 6) ((90 - |e|) * (π / 180)) (by norm_num) (by norm_num) hEk0 (by linarith)
    rw [hce]
    linarith [h2 ▸ h1]
  · -- Jordan: sin(E k) ≥ (2/π) E k = E / 90 ≥ ms / 30
    have h := Real.mul_le_sin hEk0 hEk1
    rw [hce]
    have : 2 / π * ((90 - |e|) * (π / 180)) = (90 - |e|) / 90 := by
      have e1 : 2 / π * ((90 - |e|) * (π / 180)) = (90 - |e|) / 90 * (π / π) := by ring
      rw [e1, div_self hpi.ne', mul_one]
    rw [this] at h
    linarith

/-- the RA margin is at most half a minimal cell: for a band with `cosDecMin = c0 ≥ ms/30`,
4·ml ≤ ms, and cosines `c'`, cos δq that are at least 5/6·c0,
`raMarginOf c' δq ml ≤ (ms / c0) / 2` -/
theorem raMargin_le_half (c0 c' δq ml ms : ℝ) (hml : 0 < ml) (hms : 4 * ml ≤ ms)
    (hc0 : ms / 30 ≤ c0) (hc' : 5 / 6 * c0 ≤ c') (hcq : 5 / 6 * c0 ≤ cos (δq * (π / 180))) :
    raMarginOf c' δq ml ≤ 1 / 2 * (ms / c0) := by
  have hpi := Real.pi_pos
  have hpi4 := Real.pi_lt_four
  have hpi3 := Real.pi_lt_d2
  have hk : 0 < π / 180 := by positivity
  have hms0 : 0 < ms := by linarith
  have hc0p : 0 < c0 := by have : 0 < ms / 30 := by positivity
                           linarith
  have h56 : 0 < 5 / 6 * c0 := by positivity
  -- the square root is at least 5/6 c0
  have hS : 5 / 6 * c0 ≤ sqrt (c' * cos (δq * (π / 180))) := by
    rw [Real.le_sqrt' h56]
    nlinarith
  have hSp : 0 < sqrt (c' * cos (δq * (π / 180))) := lt_of_lt_of_le h56 hS
  -- the sine is at most its argument
  have hs0 : 0 ≤ sin (0.5 * ml * (π / 180)) :=
    Real.sin_nonneg_of_nonneg_of_le_pi (by positivity) (by
      have : 0.5 * ml * (π / 180) ≤ 0.5 * (ms / 4) * (π / 180) := by
        apply mul_le_mul_of_nonneg_right _ hk.le; linarith
      have hms90 : ms ≤ 30 * c0 := by rw [div_le_iff₀ (by norm_num)] at hc0; linarith
      have hc01 : c0 ≤ 6 / 5 := by have := Real.cos_le_one (δq * (π / 180)); linarith
      nlinarith)
  have hs1 : sin (0.5 * ml * (π / 180)) ≤ 0.5 * ml * (π / 180) := Real.sin_le (by positivity)
  -- u ≤ (3/5) ml k / c0
  have hu : sin (0.5 * ml * (π / 180)) / sqrt (c' * cos (δq * (π / 180))) ≤ 3 / 5 * (ml / c0) * (π / 180) := by
    rw [div_le_iff₀ hSp]
    have : 3 / 5 * (ml / c0) * (π / 180) * (5 / 6 * c0) = 0.5 * ml * (π / 180) := by field_simp; ring
    have h2 : 3 / 5 * (ml / c0) * (π / 180) * (5 / 6 * c0) ≤
        3 / 5 * (ml / c0) * (π / 180) * sqrt (c' * cos (δq * (π / 180))) :=
      mul_le_mul_of_nonneg_left hS (by positivity)
    linarith
  -- ml / c0 ≤ (ms/4) / c0 ≤ 7.5
  have hA : ml / c0 ≤ ms / 4 / c0 := div_le_div_of_nonneg_right (by linarith) hc0p.le
  have hA2 : ms / 4 / c0 ≤ 15 / 2 := by
    rw [div_le_iff₀ hc0p]
    rw [div_le_iff₀ (by norm_num)] at hc0
    linarith
  have hu0 : 0 ≤ sin (0.5 * ml * (π / 180)) / sqrt (c' * cos (δq * (π / 180))) := div_nonneg hs0 hSp.le
  have hu1 : sin (0.5 * ml * (π / 180)) / sqrt (c' * cos (δq * (π / 180))) < 1 := by
    have : 3 / 5 * (ml / c0) * (π / 180) ≤ 3 / 5 * (15 / 2) * (π / 180) := by
      apply mul_le_mul_of_nonneg_right _ hk.le
      linarith
    nlinarith
  rw [raMarginOf_real', raMarginOf_real, if_pos hu1]
  have ha := arcsin_le_mul _ hu0 hu1.le
  have h180 : 0 < 180 / π := by positivity
  have h1 : arcsin (sin (0.5 * ml * (π / 180)) / sqrt (c' * cos (δq * (π / 180)))) * (180 / π) ≤
      π / 2 * (3 / 5 * (ml / c0) * (π / 180)) * (180 / π) := by
    apply mul_le_mul_of_nonneg_right _ h180.le
    exact le_trans ha (mul_le_mul_of_nonneg_left hu (by positivity))
  have h2 : π / 2 * (3 / 5 * (ml / c0) * (π / 180)) * (180 / π) = 3 * π / 10 * (ml / c0) := by
    have e1 : π / 2 * (3 / 5 * (ml / c0) * (π / 180)) * (180 / π) = 3 * π / 10 * (ml / c0) * (π / π) := by ring
    rw [e1, div_self hpi.ne', mul_one]
  have h3 : ms / 4 / c0 = 1 / 4 * (ms / c0) := by ring
  have hw : 0 < ms / c0 := by positivity
  have hmlc : 0 ≤ ml / c0 := by positivity
  nlinarith

/-! ### the bands that `getbounds` visits are within the margin of the point -/

theorem decDown_passed (b : Array ℝ) (dec m : ℝ) (c d : Nat) (h1 : decDown b dec m c ≤ d) (h2 : d < c) :
    dec - b.getD (d + 1) 0 < m := by
  induction c with
  | zero => omega
  | succ c ih =>
    simp only [decDown, scalar_zero] at h1
    split at h1
    · rename_i hc
      by_cases hd : d = c
      · rw [hd]; exact hc
      · exact ih h1 (by omega)
    · omega

theorem decUp_passed (b : Array ℝ) (dec m : ℝ) (c f d : Nat) (h1 : d ≤ decUp b dec m c f) (h2 : c < d) :
    b.getD d 0 - dec < m := by
  induction f generalizing c with
  | zero => simp only [decUp] at h1; omega
  | succ f ih =>
    simp only [decUp, scalar_zero] at h1
    split at h1
    · rename_i hc
      by_cases hd : d = c + 1
      · rw [hd]; exact hc
      · exact ih (c + 1) h1 (by omega)
    · omega

/-- a visited band is within the margin of the point's declination -/
theorem visited_near (g : Grid ℝ) (hdec : EdgesOK g.decBounds g.nDec) (δq m : ℝ) (hm : 0 < m)
    (hin : g.decBounds.getD 0 0 ≤ δq ∧ δq ≤ g.decBounds.getD g.nDec 0)
    (d : Nat) (hd : d < g.nDec) (hv : visitedBand g δq m d) :
    g.decBounds.getD d 0 - m < δq ∧ δq < g.decBounds.getD (d + 1) 0 + m := by
  obtain ⟨h0, h1⟩ := decIndex_range g hdec δq hin.1 hin.2
  obtain ⟨d0, hd0⟩ := Int.eq_ofNat_of_zero_le h0
  have hd0n : d0 < g.nDec := by omega
  obtain ⟨hb1, hb2, _⟩ := decIndex_bracket g hdec δq d0 hd0n hd0
  unfold visitedBand at hv
  rw [hd0] at hv
  simp only [Int.toNat_natCast] at hv
  rcases Nat.lt_trichotomy d d0 with hlt | heq | hgt
  · have := decDown_passed g.decBounds δq m d0 d hv.1 hlt
    have hmono := hdec.mono d d0 (by omega) (by omega)
    constructor <;> linarith
  · subst heq; constructor <;> linarith
  · have := decUp_passed g.decBounds δq m d0 _ d hv.2 hgt
    have hmono := hdec.mono (d0 + 1) (d + 1) (by omega) (by omega)
    constructor <;> linarith

/-! ### the cosine of a band and of the points near it -/

/-- `cosDecMin(d)` is the cosine of the edge of larger modulus -/
theorem cosDecMin_edge (b : Array ℝ) (d : Nat) :
    ∃ e, cosDecMinOf b d = cos (e * (π / 180)) ∧ |b.getD d 0| ≤ |e| ∧ |b.getD (d + 1) 0| ≤ |e| ∧
      (e = b.getD d 0 ∨ e = b.getD (d + 1) 0) := by
  rw [cosDecMinOf_real]
  split
  · rename_i h; exact ⟨b.getD d 0, rfl, le_refl _, h.le, Or.inl rfl⟩
  · rename_i h; exact ⟨b.getD (d + 1) 0, rfl, not_lt.1 h, le_refl _, Or.inr rfl⟩

theorem abs_le_near (lo hi e δ t : ℝ) (h1 : |lo| ≤ |e|) (h2 : |hi| ≤ |e|) (h3 : lo - t ≤ δ) (h4 : δ ≤ hi + t) :
    |δ| ≤ |e| + t := by
  rw [abs_le]
  constructor
  · have := neg_abs_le lo; linarith
  · have := le_abs_self hi; linarith

theorem cos_edge_zero (e : ℝ) (h : |e| = 90) : cos (e * (π / 180)) = 0 := by
  have hk : 0 < π / 180 := by have := Real.pi_pos; positivity
  rw [← Real.cos_abs, abs_mul, abs_of_pos hk, h, show (90 : ℝ) * (π / 180) = π / 2 by ring, Real.cos_pi_div_two]

/-- over ℝ the constructor returns only grids whose declination edges are NOT clipped to the
poles (cos 90° = 0 makes it raise), so they stay 3·minSize away from them -/
theorem not_clipped (g : Grid ℝ) (ra dec : Array ℝ) (ms : ℝ) (hF : GridFacts ra dec ms g)
    (hR : GridRoom ra dec ms g) :
    -90 + 3 * ms ≤ g.decBounds.getD 0 0 ∧ g.decBounds.getD g.nDec 0 ≤ 90 - 3 * ms := by
  have hn := hF.nDec_ge
  have hlo : -90 ≤ g.decBounds.getD 0 0 := by
    rcases hF.dec_lo with h | h
    · linarith
    · linarith [h.1]
  have hhi : g.decBounds.getD g.nDec 0 ≤ 90 := by
    rcases hF.dec_hi with h | h
    · linarith
    · linarith [h.1]
  constructor
  · rcases hR.dec_lo3 with h | h
    · exfalso
      have hc := (hF.band 0 (by omega)).cpos
      obtain ⟨e, he, h1, _, h3⟩ := cosDecMin_edge g.decBounds 0
      have hb1 := hF.dec_edges.mono 0 1 (by omega) (by omega)
      have hb2 := hF.dec_edges.mono 1 g.nDec (by omega) (by omega)
      have he90 : |e| = 90 := by
        apply le_antisymm
        · rcases h3 with h3 | h3 <;> rw [h3, abs_le] <;> constructor <;> linarith
        · rw [h, abs_neg, abs_of_pos (by norm_num : (0 : ℝ) < 90)] at h1; exact h1
      rw [he, cos_edge_zero e he90] at hc
      exact lt_irrefl _ hc
    · exact h
  · rcases hR.dec_hi3 with h | h
    · exfalso
      have hc := (hF.band (g.nDec - 1) (by omega)).cpos
      obtain ⟨e, he, _, h2, h3⟩ := cosDecMin_edge g.decBounds (g.nDec - 1)
      have hidx : g.nDec - 1 + 1 = g.nDec := by omega
      rw [hidx] at h2 h3
      have hb1 := hF.dec_edges.mono 0 (g.nDec - 1) (by omega) (by omega)
      have hb2 := hF.dec_edges.mono (g.nDec - 1) g.nDec (by omega) (by omega)
      have he90 : |e| = 90 := by
        apply le_antisymm
        · rcases h3 with h3 | h3 <;> rw [h3, abs_le] <;> constructor <;> linarith
        · rw [h, abs_of_pos (by norm_num : (0 : ℝ) < 90)] at h2; exact h2
      rw [he, cos_edge_zero e he90] at hc
      exact lt_irrefl _ hc
    · exact h

/-! ### `BandRoom` holds -/

theorem cell_aux (w n : ℝ) (hn : 0 < n) (h : n * w ≤ 450) : 1 / 2 * w ≤ (360 - 0) * ((1 : ℕ) : ℝ) / n := by
  rw [le_div_iff₀ hn]; push_cast; nlinarith

/-- THE ROOM AT THE SEAM, from the grid facts: on a grid built by `chunks.__init__(ra1, dec1, ms)`
with 4·ml ≤ ms (enforced by `spherematch`), a second-list point q = (a2, δq) whose separation
from some first-list point i is below ml has `BandRoom` in every band it visits: it lies inside
the RA extent of the band, and its RA margin there (at most half a minimal cell) is at most one
cell of a band that embraces the circle and at most the gap that any other band leaves around
the seam - so ONE wrap cell suffices. -/
theorem bandRoom_holds (g : Grid ℝ) (ra1 dec1 : Array ℝ) (ms ml : ℝ)
    (hF : GridFacts ra1 dec1 ms g) (hR : GridRoom ra1 dec1 ms g) (hsz : ra1.size = dec1.size)
    (hml : 0 < ml) (hms : 4 * ml ≤ ms)
    (i : Nat) (hi : i < ra1.size) (h10 : 0 ≤ ra1.getD i 0) (h1 : ra1.getD i 0 < 360)
    (hp : |dec1.getD i 0| < 90)
    (a2 δq : ℝ) (h20 : 0 ≤ a2) (h2 : a2 < 360) (hq : |δq| < 90)
    (hclose : gcircDeg (ra1.getD i 0) (dec1.getD i 0) a2 δq < ml)
    (d : Nat) (hd : d < g.nDec) (hv : visitedBand g δq ml d) :
    BandRoom g d (fmod360 (a2 + g.raOffset)) δq ml := by
  have hpi := Real.pi_pos
  have hms0 : 0 < ms := by linarith
  obtain ⟨hlo3, hhi3⟩ := not_clipped g ra1 dec1 ms hF hR
  -- the offset
  obtain ⟨j, hj, hoff⟩ := hF.off
  have hj' : (j : ℝ) ≤ 5 := by exact_mod_cast (by omega : j ≤ 5)
  have hj0 : (0 : ℝ) ≤ j := Nat.cast_nonneg j
  have ho0 : 0 ≤ g.raOffset := by rw [hoff]; positivity
  have ho : g.raOffset < 360 := by rw [hoff]; linarith
  obtain ⟨p0, p1, _⟩ := fmod360_off_range (ra1.getD i 0) g.raOffset h10 h1 ho0 ho
  obtain ⟨q0, q1, _⟩ := fmod360_off_range a2 g.raOffset h20 h2 ho0 ho
  -- declinations
  have hdd : |δq - dec1.getD i 0| < ml := lt_of_le_of_lt (ddec_le_gcirc _ _ _ _ hp hq) hclose
  have hdd' := abs_lt.1 hdd
  have hin : g.decBounds.getD 0 0 ≤ δq ∧ δq ≤ g.decBounds.getD g.nDec 0 := by
    constructor
    · rcases hF.dec_lo with h | h
      · linarith
      · have := h.2 i (by omega); linarith
    · rcases hF.dec_hi with h | h
      · linarith
      · have := h.2 i (by omega); linarith
  obtain ⟨hn1, hn2⟩ := visited_near g hF.dec_edges δq ml hml hin d hd hv
  -- the band and its cosine
  have hb1 := hF.dec_edges.mono 0 d (by omega) (by omega)
  have hb2 := hF.dec_edges.mono d (d + 1) (by omega) (by omega)
  have hb3 := hF.dec_edges.mono (d + 1) g.nDec (by omega) (by omega)
  obtain ⟨e, hce, he1, he2, he3⟩ := cosDecMin_edge g.decBounds d
  have he : |e| ≤ 90 - 3 * ms := by
    rcases he3 with h | h <;> rw [h, abs_le] <;> constructor <;> linarith
  have hq2 : |δq| ≤ |e| + 2 * ml :=
    abs_le_near _ _ e δq (2 * ml) he1 he2 (by linarith) (by linarith)
  have hp2 : |dec1.getD i 0| ≤ |e| + 2 * ml :=
    abs_le_near _ _ e _ (2 * ml) he1 he2 (by linarith) (by linarith)
  obtain ⟨hcq, hc30⟩ := cos_ge_near e δq ml ms hml hms he hq2
  obtain ⟨hcp, _⟩ := cos_ge_near e (dec1.getD i 0) ml ms hml hms he hp2
  rw [← hce] at hcq hcp hc30
  have hB := hF.band d hd
  have hc0 : 0 < cosDecMinOf g.decBounds d := hB.cpos
  have hw : 0 < ms / cosDecMinOf g.decBounds d := by positivity
  have hw30 : ms / cosDecMinOf g.decBounds d ≤ 30 := by
    rw [div_le_iff₀ hc0]
    rw [div_le_iff₀ (by norm_num)] at hc30
    linarith
  -- the margin in this band is at most half a minimal cell
  have hM := raMargin_le_half (cosDecMinOf g.decBounds d) (cosDecMinOf g.decBounds d) δq ml ms hml hms hc30
    (by linarith) hcq
  refine ⟨?_, ?_⟩
  · -- inside the RA extent
    rcases hB.extent with ⟨e0, en⟩ | ⟨e0, en⟩
    · rw [e0, en]; exact ⟨q0, q1⟩
    · rcases (hR.band d hd).room with ⟨r0, _⟩ | hroom
      · rw [r0] at e0; linarith
      · obtain ⟨hr1, hr2⟩ := hroom i hi
        obtain ⟨Δ, hΔ0, hΔ1, hΔe, hΔs⟩ := circ_diff (ra1.getD i 0) a2 g.raOffset h10 h1 h20 h2 ho0 ho
        have hcq' : 0 < cos (δq * (π / 180)) := by linarith
        have hΔM := ra_margin_covers (5 / 6 * cosDecMinOf g.decBounds d) (ra1.getD i 0) (dec1.getD i 0) a2 δq ml Δ
          (by positivity) hcp hcq' hΔ0 hΔ1 (by
            have : ms ≤ 30 * cosDecMinOf g.decBounds d := by
              rw [div_le_iff₀ (by norm_num)] at hc30; linarith
            have hc1 : cosDecMinOf g.decBounds d ≤ 6 / 5 := by
              have := Real.cos_le_one (δq * (π / 180)); linarith
            nlinarith) hΔs hclose
        have hM' := raMargin_le_half (cosDecMinOf g.decBounds d) (5 / 6 * cosDecMinOf g.decBounds d) δq ml ms
          hml hms hc30 (le_refl _) hcq
        rw [raMarginOf_real'] at hM'
        have hΔw : Δ < 1 / 2 * (ms / cosDecMinOf g.decBounds d) := lt_of_lt_of_le hΔM hM'
        rcases hΔe with hΔe | hΔe
        · rw [hΔe] at hΔw
          have := abs_lt.1 hΔw
          constructor <;> linarith
        · exfalso
          have hD : |fmod360 (a2 + g.raOffset) - fmod360 (ra1.getD i 0 + g.raOffset)| <
              360 - 2 * (ms / cosDecMinOf g.decBounds d) := by
            rw [abs_lt]; constructor <;> linarith
          linarith
  · -- room at the seam
    rcases hB.extent with ⟨e0, en⟩ | ⟨e0, en⟩
    · left
      refine ⟨e0, en, ?_⟩
      have hlin := hB.edges.lin 1 (by have := hB.edges.pos; omega)
      have hnpos : (0 : ℝ) < (g.nRa.getD d 0 : ℝ) := by exact_mod_cast hB.edges.pos
      rw [hlin, e0, en]
      have hnc := (hR.band d hd).ncells
      have hcw : cosDecMinOf g.decBounds d * 360 / ms * (ms / cosDecMinOf g.decBounds d) = 360 := by
        field_simp
      have hnw : (g.nRa.getD d 0 : ℝ) * (ms / cosDecMinOf g.decBounds d) ≤ 450 := by
        calc (g.nRa.getD d 0 : ℝ) * (ms / cosDecMinOf g.decBounds d)
            ≤ (3 + cosDecMinOf g.decBounds d * 360 / ms) * (ms / cosDecMinOf g.decBounds d) :=
              mul_le_mul_of_nonneg_right hnc hw.le
          _ = 3 * (ms / cosDecMinOf g.decBounds d) + 360 := by rw [add_mul, hcw]
          _ ≤ 450 := by linarith only [hw30]
      have hcell := cell_aux _ _ hnpos hnw
      linarith only [hcell, hM]
    · right
      linarith only [hM, e0, en, hw]

end PydlVerif.Sphere

/-
Helper lemmas for the C13 proofs: arrays built by `tab`, element access, `sumN` as a
`Finset.range` sum over a field, sums over filtered index lists.
-/
import PydlVerif.Model.Trace
import PydlVerif.Lemmas.ScalarField
import Mathlib.Algebra.BigOperators.Group.Finset.Basic
import Mathlib.Algebra.BigOperators.Fin
import Mathlib.Tactic.Ring
import PydlVerif.Lemmas.Lsq
open Finset
namespace PydlVerif.Trace

section arrays
variable {α : Type} [Scalar α] {β : Type}

@[simp] theorem tab_size (n : Nat) (f : Nat → β) : (tab n f).size = n := by simp [tab]

theorem tab_getD (n : Nat) (f : Nat → β) (i : Nat) (d : β) :
    (tab n f).getD i d = if i < n then f i else d := by
  unfold tab
  by_cases h : i < n
  · simp [Array.getD, h]
  · simp [Array.getD, h]

theorem at1_tab (n : Nat) (f : Nat → α) (i : Nat) (h : i < n) : at1 (tab n f) i = f i := by
  unfold at1; rw [tab_getD]; simp [h]

theorem at2_tab (m : Nat) (f : Nat → Array α) (k i : Nat) (h : k < m) :
    at2 (tab m f) k i = at1 (f k) i := by
  unfold at2 at1; rw [tab_getD]; simp [h]

theorem at2_tab_tab (m n : Nat) (f : Nat → Nat → α) (k i : Nat) (hk : k < m) (hi : i < n) :
    at2 (tab m fun k => tab n (f k)) k i = f k i := by
  rw [at2_tab _ _ _ _ hk, at1_tab _ _ _ hi]

theorem at1_map (xs : Array α) (g : α → α) (i : Nat) (h : i < xs.size) :
    at1 (xs.map g) i = g (at1 xs i) := by
  simp [at1, Array.getD, h]

theorem at2_rows (φ : α → Nat → α) (xs : Array α) (m k i : Nat) (hk : k < m) (hi : i < xs.size) :
    at2 (rows φ xs m) k i = φ (at1 xs i) k := by
  unfold rows
  rw [at2_tab _ _ _ _ hk, at1_map _ _ _ hi]

theorem rows_size (φ : α → Nat → α) (xs : Array α) (m : Nat) : (rows φ xs m).size = m := by
  simp [rows]

theorem at1_replicate (n : Nat) (v : α) (i : Nat) (h : i < n) : at1 (Array.replicate n v) i = v := by
  simp [at1, Array.getD, h]
end arrays

section field
variable {K : Type} [Field K] [LinearOrder K] [IsStrictOrderedRing K] [FloorRing K]

theorem sumN_eq (n : Nat) (f : Nat → K) : @sumN K (fieldScalar K) n f = ∑ i ∈ range n, f i := by
  unfold sumN
  induction n with
  | zero => simp [scalar_lit]
  | succ n ih =>
    rw [List.range_succ, List.foldl_append, ih, Finset.sum_range_succ]
    rfl

/-- a sum over the positions of a filtered index list is the sum of the selected terms -/
theorem sum_filter_idx (p : Nat → Bool) (n : Nat) (G : Nat → K) :
    ∑ b ∈ range ((List.range n).filter p).length, G (((List.range n).filter p).getD b 0)
      = ∑ k ∈ range n, if p k then G k else 0 := by
  induction n with
  | zero => simp
  | succ n ih =>
    rw [List.range_succ, List.filter_append, Finset.sum_range_succ, ← ih]
    by_cases h : p n
    · simp only [List.filter_cons, h, if_true, List.filter_nil, List.length_append, List.length_cons,
        List.length_nil, Nat.zero_add]
      rw [Finset.sum_range_succ]
      congr 1
      · apply Finset.sum_congr rfl
        intro b hb
        have hb' : b < ((List.range n).filter p).length := by simpa using hb
        simp [List.getD_eq_getElem?_getD, List.getElem?_append_left hb']
      · simp [List.getD_eq_getElem?_getD]
    · simp only [List.filter_cons, h, List.filter_nil, List.append_nil, add_zero]
      simp

theorem list_getD_lt (l : List ℕ) (i : ℕ) (h : i < l.length) : l.getD i 0 = l[i] := by
  simp [List.getD_eq_getElem?_getD, h]

/-- algebra of func_fit: if the solved block satisfies `alpha · sol = beta`, the residual of the
full coefficient vector is W-orthogonal to every free basis row -/
theorem normal_core (n m : ℕ) (L : ℕ → ℕ → K) (w y ans sol : ℕ → K) (iaf : ℕ → Bool)
    (hsol : ∀ a, a < ((List.range m).filter iaf).length →
      ∑ b ∈ range ((List.range m).filter iaf).length,
        (∑ i ∈ range n, L (((List.range m).filter iaf).getD a 0) i *
          (L (((List.range m).filter iaf).getD b 0) i * w i)) * sol b
      = ∑ i ∈ range n, (y i - ∑ j ∈ range m, L j i * (ans j * (if iaf j then 0 else 1))) * w i *
          L (((List.range m).filter iaf).getD a 0) i)
    (k : ℕ) (hk : k < m) (hf : iaf k = true) :
    ∑ i ∈ range n, w i * L k i *
      (y i - ∑ j ∈ range m, L j i *
        (if iaf j then sol (((List.range m).filter iaf).idxOf j) else ans j)) = 0 := by
  set free := (List.range m).filter iaf with hfree
  have hmem : k ∈ free := by simp [hfree, List.mem_filter, hk, hf]
  have ha : free.idxOf k < free.length := List.idxOf_lt_length_iff.mpr hmem
  have hget : free.getD (free.idxOf k) 0 = k := by
    rw [list_getD_lt _ _ ha]; exact List.getElem_idxOf ha
  have hnodup : free.Nodup := (List.nodup_range (n := m)).filter _
  have hidx : ∀ b, b < free.length → free.idxOf (free.getD b 0) = b := by
    intro b hb; rw [list_getD_lt _ _ hb]; exact hnodup.idxOf_getElem b hb
  have hs := hsol _ ha
  rw [hget] at hs
  have hpoint : ∀ i, ∑ j ∈ range m, L j i * (if iaf j then sol (free.idxOf j) else ans j)
      = ∑ b ∈ range free.length, L (free.getD b 0) i * sol b
        + ∑ j ∈ range m, L j i * (ans j * (if iaf j then 0 else 1)) := by
    intro i
    have h1 := sum_filter_idx iaf m (fun j => L j i * sol (free.idxOf j))
    have h2 : ∑ b ∈ range free.length, L (free.getD b 0) i * sol b
        = ∑ b ∈ range free.length, (fun j => L j i * sol (free.idxOf j)) (free.getD b 0) :=
      Finset.sum_congr rfl (fun b hb => by simp only; rw [hidx b (Finset.mem_range.mp hb)])
    rw [h2, h1, ← Finset.sum_add_distrib]
    apply Finset.sum_congr rfl
    intro j _
    cases iaf j <;> simp
  have hterm : ∀ i, w i * L k i * (y i - ∑ j ∈ range m, L j i * (if iaf j then sol (free.idxOf j) else ans j))
      = (y i - ∑ j ∈ range m, L j i * (ans j * (if iaf j then 0 else 1))) * w i * L k i
        - ∑ b ∈ range free.length, (L k i * (L (free.getD b 0) i * w i)) * sol b := by
    intro i
    rw [hpoint i]
    have : w i * L k i * ∑ b ∈ range free.length, L (free.getD b 0) i * sol b
        = ∑ b ∈ range free.length, (L k i * (L (free.getD b 0) i * w i)) * sol b := by
      rw [Finset.mul_sum]; apply Finset.sum_congr rfl; intros; ring
    rw [← this]; ring
  simp_rw [hterm]
  rw [Finset.sum_sub_distrib, ← hs, Finset.sum_comm]
  simp_rw [Finset.sum_mul]
  exact sub_self _

/-! ### weighted least squares with some coefficients held fixed (range-indexed form of `Lsq`) -/

/-- weighted sum of squared residuals of the coefficient vector `c` -/
def wssr (n m : ℕ) (L : ℕ → ℕ → K) (w y c : ℕ → K) : K :=
  ∑ i ∈ range n, w i * (y i - ∑ j ∈ range m, L j i * c j) ^ 2

theorem wssr_eq_Q (n m : ℕ) (L : ℕ → ℕ → K) (w y c : ℕ → K) :
    wssr n m L w y c = Lsq.Q (fun (i : Fin n) (j : Fin m) => L j i) (fun i => w i) (fun i => y i) (fun j => c j) := by
  unfold wssr Lsq.Q
  rw [Finset.sum_range]
  apply Finset.sum_congr rfl
  intro i _
  rw [Finset.sum_range]

/-- normal equations on the free coefficients ⇒ optimum among all vectors with the same fixed coefficients -/
theorem wls_optimum_fixed (n m : ℕ) (L : ℕ → ℕ → K) (w y c z : ℕ → K) (free : ℕ → Bool)
    (hw : ∀ i, i < n → 0 ≤ w i)
    (hN : ∀ k, k < m → free k = true →
      ∑ i ∈ range n, w i * L k i * (y i - ∑ j ∈ range m, L j i * c j) = 0)
    (hz : ∀ k, k < m → free k = false → z k = c k) :
    wssr n m L w y c ≤ wssr n m L w y z := by
  rw [wssr_eq_Q, wssr_eq_Q, Lsq.Q_expand _ _ _ (fun j : Fin m => c j) (fun j : Fin m => z j)]
  have h2 : ∑ k : Fin m, (c k - z k) * ∑ i : Fin n, w i * L k i * (y i - ∑ j : Fin m, L j i * c j) = 0 := by
    apply Finset.sum_eq_zero
    intro k _
    cases hf : free k with
    | false => rw [hz k k.2 hf]; ring
    | true =>
      have := hN k k.2 hf
      rw [Finset.sum_range] at this
      have e : ∀ i : Fin n, ∑ j ∈ range m, L j i * c j = ∑ j : Fin m, L j i * c j := fun i => Finset.sum_range _
      simp_rw [e] at this
      rw [this]; ring
  have h1 : 0 ≤ ∑ i : Fin n, w i * (∑ j : Fin m, L j i * (c j - z j)) ^ 2 :=
    Finset.sum_nonneg (fun i _ => mul_nonneg (hw i i.2) (sq_nonneg _))
  rw [h2]; linarith

theorem quad_form (n m : ℕ) (L : ℕ → ℕ → K) (w d : ℕ → K) :
    ∑ i ∈ range n, w i * (∑ j ∈ range m, L j i * d j) ^ 2
      = ∑ k ∈ range m, d k * ∑ i ∈ range n, w i * L k i * (∑ j ∈ range m, L j i * d j) := by
  have h1 : ∀ i, w i * (∑ j ∈ range m, L j i * d j) ^ 2
      = ∑ k ∈ range m, d k * (w i * L k i * (∑ j ∈ range m, L j i * d j)) := by
    intro i
    generalize hS : ∑ j ∈ range m, L j i * d j = S
    have : w i * S ^ 2 = (w i * S) * ∑ k ∈ range m, L k i * d k := by rw [hS]; ring
    rw [this, Finset.mul_sum]
    apply Finset.sum_congr rfl
    intros; ring
  simp_rw [h1]
  rw [Finset.sum_comm]
  simp_rw [Finset.mul_sum]

/-- with a positive definite normal matrix on the free directions the solution is unique -/
theorem wls_unique_fixed (n m : ℕ) (L : ℕ → ℕ → K) (w y c c' : ℕ → K) (free : ℕ → Bool)
    (hpd : ∀ d : ℕ → K, (∀ k, k < m → free k = false → d k = 0) →
      ∑ i ∈ range n, w i * (∑ j ∈ range m, L j i * d j) ^ 2 = 0 → ∀ k, k < m → d k = 0)
    (hN : ∀ k, k < m → free k = true →
      ∑ i ∈ range n, w i * L k i * (y i - ∑ j ∈ range m, L j i * c j) = 0)
    (hN' : ∀ k, k < m → free k = true →
      ∑ i ∈ range n, w i * L k i * (y i - ∑ j ∈ range m, L j i * c' j) = 0)
    (hfix : ∀ k, k < m → free k = false → c k = c' k) :
    ∀ k, k < m → c k = c' k := by
  have hd := hpd (fun k => c k - c' k) (fun k hk hf => by simp [hfix k hk hf]) ?_
  · intro k hk; exact sub_eq_zero.mp (hd k hk)
  · have hk0 : ∀ k, k < m → (c k - c' k) * ∑ i ∈ range n, w i * L k i * (∑ j ∈ range m, L j i * (c j - c' j)) = 0 := by
      intro k hk
      cases hf : free k with
      | false => rw [hfix k hk hf]; ring
      | true =>
        have e : ∑ i ∈ range n, w i * L k i * (∑ j ∈ range m, L j i * (c j - c' j))
            = ∑ i ∈ range n, w i * L k i * (y i - ∑ j ∈ range m, L j i * c' j)
              - ∑ i ∈ range n, w i * L k i * (y i - ∑ j ∈ range m, L j i * c j) := by
          rw [← Finset.sum_sub_distrib]
          apply Finset.sum_congr rfl
          intro i _
          have : ∑ j ∈ range m, L j i * (c j - c' j) = ∑ j ∈ range m, L j i * c j - ∑ j ∈ range m, L j i * c' j := by
            rw [← Finset.sum_sub_distrib]; apply Finset.sum_congr rfl; intros; ring
          rw [this]; ring
        rw [e, hN k hk hf, hN' k hk hf]; ring
    rw [quad_form n m L w (fun k => c k - c' k)]
    exact Finset.sum_eq_zero (fun k hk => hk0 k (Finset.mem_range.mp hk))
end field
end PydlVerif.Trace

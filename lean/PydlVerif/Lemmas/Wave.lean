/-
Helper lemmas for C19 (no property theorem here): the model of Model/Wave.lean in ordinary
field terms, bounds and Lipschitz estimates of the Ciddor factor, the two-step contraction
estimate, sums and dot products of lists, structure lemmas of the mask interpolation.
-/
import PydlVerif.Model.Wave
import PydlVerif.Lemmas.ScalarField
import Mathlib.Tactic.Linarith
import Mathlib.Tactic.Positivity
import Mathlib.Tactic.FieldSimp
import Mathlib.Tactic.Ring
import Mathlib.Tactic.NormNum.OfScientific
import Mathlib.Tactic.GCongr
import Mathlib.Algebra.Order.Ring.Abs
import Mathlib.Algebra.Order.Field.Basic
import Mathlib.Algebra.BigOperators.Group.List.Basic
import Mathlib.Algebra.Order.BigOperators.Group.List

set_option linter.unusedSectionVars false

namespace PydlVerif.C19
open PydlVerif PydlVerif.Wave

section
variable {K : Type} [Field K] [LinearOrder K] [IsStrictOrderedRing K] [FloorRing K]
attribute [local instance] fieldScalar
-- numerals of K are the field's own; the Scalar literal instances are only met inside unfolded model terms
attribute [local instance 5] Scalar.instOfNat Scalar.instOfScientific

theorem val_guard : (dGuard.val : K) = 2000 := by
  show (OfScientific.ofScientific 2 false 3 : K) = 2000
  norm_num

theorem val_scale : (dScale.val : K) = 10000 := by
  show (OfScientific.ofScientific 1 false 4 : K) = _
  norm_num

theorem val_one : (dOne.val : K) = 1 := by
  show (OfScientific.ofScientific 1 false 0 : K) = _
  norm_num

theorem val_A1 : (dA1.val : K) = 5792105 / 100000000 := by
  show (OfScientific.ofScientific 5792105 true 8 : K) = _
  norm_num

theorem val_B1 : (dB1.val : K) = 2380185 / 10000 := by
  show (OfScientific.ofScientific 2380185 true 4 : K) = _
  norm_num

theorem val_A2 : (dA2.val : K) = 167917 / 100000000 := by
  show (OfScientific.ofScientific 167917 true 8 : K) = _
  norm_num

theorem val_B2 : (dB2.val : K) = 57362 / 1000 := by
  show (OfScientific.ofScientific 57362 true 3 : K) = _
  norm_num

/-- the Ciddor factor in ordinary field terms -/
theorem ciddor_eq (s : K) :
    ciddor s = 1 + (5792105 / 100000000) / (2380185 / 10000 - s) + (167917 / 100000000) / (57362 / 1000 - s) := by
  simp only [ciddor, val_one, val_A1, val_B1, val_A2, val_B2]

theorem sigma2_eq (v : K) : sigma2 v = (10000 / v) * (10000 / v) := by
  simp only [sigma2, val_scale]

theorem airtovac1_eq (a : K) :
    airtovac1 a = if a < 2000 then a else a * fact (a * fact a) := by
  simp only [airtovac1, val_guard, nIter, iter]

theorem vactoair1_eq (v : K) : vactoair1 v = if v < 2000 then v else v / fact v := by
  simp only [vactoair1, val_guard]

theorem sigma2_bounds {v : K} (hv : 2000 ≤ v) : 0 < sigma2 v ∧ sigma2 v ≤ 25 := by
  have hv0 : (0 : K) < v := by linarith
  have hq0 : (0 : K) < 10000 / v := by positivity
  have hq5 : (10000 : K) / v ≤ 5 := by
    rw [div_le_iff₀ hv0]; linarith
  rw [sigma2_eq]
  constructor
  · positivity
  · nlinarith

/-- `1 < ciddor s ≤ 1 + 325e-6` for `0 ≤ s ≤ 25` -/
theorem ciddor_bounds {s : K} (_h0 : 0 ≤ s) (h25 : s ≤ 25) :
    1 < ciddor s ∧ ciddor s ≤ 1 + 325 / 1000000 := by
  rw [ciddor_eq]
  have h1 : (0 : K) < 2380185 / 10000 - s := by linarith
  have h2 : (0 : K) < 57362 / 1000 - s := by linarith
  have t1 : (0 : K) < (5792105 / 100000000) / (2380185 / 10000 - s) := by positivity
  have t2 : (0 : K) < (167917 / 100000000) / (57362 / 1000 - s) := by positivity
  have u1 : (5792105 / 100000000 : K) / (2380185 / 10000 - s) ≤ 272 / 1000000 := by
    rw [div_le_iff₀ h1]; linarith
  have u2 : (167917 / 100000000 : K) / (57362 / 1000 - s) ≤ 52 / 1000000 := by
    rw [div_le_iff₀ h2]; linarith
  constructor <;> linarith

theorem fact_bounds {v : K} (hv : 2000 ≤ v) : 1 < fact v ∧ fact v ≤ 1 + 325 / 1000000 := by
  obtain ⟨h0, h25⟩ := sigma2_bounds hv
  exact ciddor_bounds h0.le h25

/-- `s ↦ A/(B-s)` is Lipschitz with constant `A/m²` where `B - s ≥ m > 0` -/
theorem recip_lip {A B m s t : K} (hA : 0 ≤ A) (hm : 0 < m) (hs : m ≤ B - s) (ht : m ≤ B - t) :
    |A / (B - s) - A / (B - t)| ≤ A / (m * m) * |s - t| := by
  have hs0 : 0 < B - s := lt_of_lt_of_le hm hs
  have ht0 : 0 < B - t := lt_of_lt_of_le hm ht
  have e : A / (B - s) - A / (B - t) = A * (s - t) / ((B - s) * (B - t)) := by
    field_simp; ring
  have hP : m * m ≤ (B - s) * (B - t) := mul_le_mul hs ht hm.le hs0.le
  have hP0 : 0 < (B - s) * (B - t) := by positivity
  rw [e, abs_div, abs_mul, abs_of_nonneg hA, abs_of_pos hP0]
  have hmm : 0 < m * m := by positivity
  rw [div_le_iff₀ hP0]
  have h1 : A / (m * m) * |s - t| * ((B - s) * (B - t)) = (A * |s - t|) * (((B - s) * (B - t)) / (m * m)) := by
    field_simp
  rw [h1]
  have h2 : 1 ≤ ((B - s) * (B - t)) / (m * m) := by
    rw [le_div_iff₀ hmm]; linarith
  have h3 : 0 ≤ A * |s - t| := mul_nonneg hA (abs_nonneg _)
  nlinarith

/-- the Ciddor factor is Lipschitz in σ² on [0, 25] with constant 2.89e-6 -/
theorem ciddor_lip {s t : K} (hs : s ≤ 25) (ht : t ≤ 25) :
    |ciddor s - ciddor t| ≤ 289 / 100000000 * |s - t| := by
  rw [ciddor_eq, ciddor_eq]
  have e : ∀ a b c d : K, (1 + a + b) - (1 + c + d) = (a - c) + (b - d) := by intros; ring
  rw [e]
  have l1 := recip_lip (A := (5792105 / 100000000 : K)) (B := 2380185 / 10000) (m := 2130185 / 10000)
    (s := s) (t := t) (by norm_num) (by norm_num) (by linarith) (by linarith)
  have l2 := recip_lip (A := (167917 / 100000000 : K)) (B := 57362 / 1000) (m := 32362 / 1000)
    (s := s) (t := t) (by norm_num) (by norm_num) (by linarith) (by linarith)
  have c1 : (5792105 / 100000000 : K) / (2130185 / 10000 * (2130185 / 10000)) ≤ 128 / 100000000 := by
    rw [div_le_iff₀ (by norm_num)]; norm_num
  have c2 : (167917 / 100000000 : K) / (32362 / 1000 * (32362 / 1000)) ≤ 161 / 100000000 := by
    rw [div_le_iff₀ (by norm_num)]; norm_num
  have hd : 0 ≤ |s - t| := abs_nonneg _
  calc |(5792105 / 100000000 / (2380185 / 10000 - s) - 5792105 / 100000000 / (2380185 / 10000 - t)) +
          (167917 / 100000000 / (57362 / 1000 - s) - 167917 / 100000000 / (57362 / 1000 - t))|
      ≤ |5792105 / 100000000 / (2380185 / 10000 - s) - 5792105 / 100000000 / (2380185 / 10000 - t)| +
          |167917 / 100000000 / (57362 / 1000 - s) - 167917 / 100000000 / (57362 / 1000 - t)| := abs_add_le _ _
    _ ≤ 128 / 100000000 * |s - t| + 161 / 100000000 * |s - t| := by
        have := mul_le_mul_of_nonneg_right c1 hd
        have := mul_le_mul_of_nonneg_right c2 hd
        linarith
    _ = 289 / 100000000 * |s - t| := by ring

/-- `v ↦ (10⁴/v)²` is Lipschitz on `[a, ∞)` with constant `2·10⁸/a³` -/
theorem sigma2_lip {a x y : K} (ha : 0 < a) (hx : a ≤ x) (hy : a ≤ y) :
    |sigma2 x - sigma2 y| ≤ 200000000 / (a * a * a) * |x - y| := by
  have hx0 : 0 < x := lt_of_lt_of_le ha hx
  have hy0 : 0 < y := lt_of_lt_of_le ha hy
  rw [sigma2_eq, sigma2_eq]
  have e : 10000 / x * (10000 / x) - 10000 / y * (10000 / y)
      = 100000000 * ((y - x) * ((x + y) / (x * x * y * y))) := by
    field_simp; ring
  have hg0 : 0 ≤ (x + y) / (x * x * y * y) := by positivity
  have hg : (x + y) / (x * x * y * y) ≤ 2 / (a * a * a) := by
    have h1 : x / (x * x * y * y) ≤ 1 / (a * a * a) := by
      have : x / (x * x * y * y) = 1 / (x * y * y) := by field_simp
      rw [this]
      apply one_div_le_one_div_of_le (by positivity)
      gcongr
    have h2 : y / (x * x * y * y) ≤ 1 / (a * a * a) := by
      have : y / (x * x * y * y) = 1 / (x * x * y) := by field_simp
      rw [this]
      apply one_div_le_one_div_of_le (by positivity)
      gcongr
    have : (x + y) / (x * x * y * y) = x / (x * x * y * y) + y / (x * x * y * y) := by ring
    rw [this]
    have : (2 : K) / (a * a * a) = 1 / (a * a * a) + 1 / (a * a * a) := by ring
    linarith
  rw [e, abs_mul, abs_mul, abs_of_pos (by norm_num : (0 : K) < 100000000), abs_of_nonneg hg0, abs_sub_comm y x]
  have hd : 0 ≤ |x - y| := abs_nonneg _
  have := mul_le_mul_of_nonneg_left hg hd
  have e2 : 200000000 / (a * a * a) * |x - y| = 100000000 * (|x - y| * (2 / (a * a * a))) := by ring
  rw [e2]
  linarith

/-- the refraction factor as a function of the wavelength is Lipschitz on `[a, ∞)`, `a ≥ 2000`,
with constant `578/a³` (the hand estimate `|f'(v)| ≤ 575/v³` of the design) -/
theorem fact_lip {a x y : K} (ha : 2000 ≤ a) (hx : a ≤ x) (hy : a ≤ y) :
    |fact x - fact y| ≤ 578 / (a * a * a) * |x - y| := by
  have ha0 : 0 < a := by linarith
  have hsx := (sigma2_bounds (le_trans ha hx)).2
  have hsy := (sigma2_bounds (le_trans ha hy)).2
  have h1 := ciddor_lip hsx hsy
  have h2 := sigma2_lip ha0 hx hy
  have e : 578 / (a * a * a) * |x - y| = 289 / 100000000 * (200000000 / (a * a * a) * |x - y|) := by ring
  rw [e]
  show |ciddor (sigma2 x) - ciddor (sigma2 y)| ≤ _
  have := mul_le_mul_of_nonneg_left h2 (by norm_num : (0 : K) ≤ 289 / 100000000)
  linarith

/-- `a·L·a·L·a·D ≤ 109/a³` with `L = 578/a³`, `D = 325e-6`, for `a ≥ 2000` -/
theorem final_const {a : K} (ha : 2000 ≤ a) :
    a * (578 / (a * a * a) * (a * (578 / (a * a * a) * (a * (325 / 1000000))))) ≤ 109 / (a * a * a) := by
  have ha0 : 0 < a := by linarith
  have e : a * (578 / (a * a * a) * (a * (578 / (a * a * a) * (a * (325 / 1000000)))))
      = (578 * 578 * 325 / 1000000) / (a * a * a) := by
    field_simp
  rw [e]
  apply div_le_div_of_nonneg_right _ (by positivity)
  norm_num

theorem small_const {a : K} (ha : 2000 ≤ a) : 109 / (a * a * a) ≤ (2 / 100000000 : K) := by
  have ha0 : 0 < a := by linarith
  have h3 : (2000 : K) * 2000 * 2000 ≤ a * a * a := by gcongr
  rw [div_le_iff₀ (by positivity)]
  nlinarith

/-- if `p, q ≥ a ≥ 2000` and `|p - q| ≤ a·D` then after multiplying by `a` and applying `fact`
twice the difference has shrunk to `≤ 109/a⁴` -/
theorem two_steps {a p q : K} (ha : 2000 ≤ a) (hp : a ≤ p) (hq : a ≤ q)
    (hpq : |p - q| ≤ a * (325 / 1000000))
    (hp' : a ≤ a * fact p) (hq' : a ≤ a * fact q) :
    a * |fact (a * fact p) - fact (a * fact q)| ≤ 109 / (a * a * a) := by
  have ha0 : 0 < a := by linarith
  have hL : 0 ≤ 578 / (a * a * a) := by positivity
  have s1 := fact_lip ha hp hq
  have s2 := fact_lip ha hp' hq'
  have e1 : |a * fact p - a * fact q| = a * |fact p - fact q| := by
    rw [← mul_sub, abs_mul, abs_of_pos ha0]
  rw [e1] at s2
  have b1 : |fact p - fact q| ≤ 578 / (a * a * a) * (a * (325 / 1000000)) :=
    le_trans s1 (mul_le_mul_of_nonneg_left hpq hL)
  have b2 : a * |fact p - fact q| ≤ a * (578 / (a * a * a) * (a * (325 / 1000000))) :=
    mul_le_mul_of_nonneg_left b1 ha0.le
  have b3 : |fact (a * fact p) - fact (a * fact q)|
      ≤ 578 / (a * a * a) * (a * (578 / (a * a * a) * (a * (325 / 1000000)))) :=
    le_trans s2 (mul_le_mul_of_nonneg_left b2 hL)
  exact le_trans (mul_le_mul_of_nonneg_left b3 ha0.le) (final_const ha)

theorem val_magscale : (dMagScale.val : K) = 5 / 2 := by
  show (OfScientific.ofScientific 25 true 1 : K) = _
  norm_num

theorem abCorr_eq : (abCorr : List K) = [-(42 / 1000), 36 / 1000, 15 / 1000, 13 / 1000, -(2 / 1000)] := by
  show [-(OfScientific.ofScientific 42 true 3 : K), OfScientific.ofScientific 36 true 3,
        OfScientific.ofScientific 15 true 3, OfScientific.ofScientific 13 true 3,
        -(OfScientific.ofScientific 2 true 3 : K)] = _
  norm_num

theorem sumFrom_eq (acc : K) (l : List K) : sumFrom acc l = acc + l.sum := by
  induction l generalizing acc with
  | nil => simp [sumFrom]
  | cons x xs ih => simp only [sumFrom, ih, List.sum_cons]; ring

/-- the band mean in ordinary terms -/
theorem filterMean_eq (r f : List K) :
    filterMean r f = (List.zipWith (· * ·) f r).sum / (r.sum + (if r.sum ≤ 0 then 1 else 0)) := by
  simp only [filterMean, sumFrom_eq, scalar_ofNat, Nat.cast_zero, Nat.cast_one, zero_add]

theorem filterMean_pos (r f : List K) (h : 0 < r.sum) :
    filterMean r f = (List.zipWith (· * ·) f r).sum / r.sum := by
  rw [filterMean_eq, if_neg (not_le.mpr h), add_zero]

theorem dot_lin (a b : K) (f g r : List K) (h : f.length = g.length) :
    (List.zipWith (· * ·) (List.zipWith (fun x y => a * x + b * y) f g) r).sum
      = a * (List.zipWith (· * ·) f r).sum + b * (List.zipWith (· * ·) g r).sum := by
  induction f generalizing g r with
  | nil => cases g <;> simp_all
  | cons x xs ih =>
    cases g with
    | nil => simp at h
    | cons y ys =>
      cases r with
      | nil => simp
      | cons w ws =>
        simp only [List.zipWith_cons_cons, List.sum_cons]
        rw [ih ys ws (by simpa using h)]
        ring

theorem dot_const (c : K) (r : List K) :
    (List.zipWith (· * ·) (List.replicate r.length c) r).sum = c * r.sum := by
  induction r with
  | nil => simp
  | cons w ws ih =>
    simp only [List.length_cons, List.replicate_succ, List.zipWith_cons_cons, List.sum_cons, ih]
    ring

theorem dot_bounds (lo hi : K) (f r : List K) (hlen : f.length = r.length)
    (hr : ∀ w ∈ r, 0 ≤ w) (hf : ∀ x ∈ f, lo ≤ x ∧ x ≤ hi) :
    lo * r.sum ≤ (List.zipWith (· * ·) f r).sum ∧ (List.zipWith (· * ·) f r).sum ≤ hi * r.sum := by
  induction f generalizing r with
  | nil => cases r <;> simp_all
  | cons x xs ih =>
    cases r with
    | nil => simp at hlen
    | cons w ws =>
      have hw : 0 ≤ w := hr w (by simp)
      obtain ⟨hx1, hx2⟩ := hf x (by simp)
      obtain ⟨i1, i2⟩ := ih ws (by simpa using hlen) (fun w' hw' => hr w' (by simp [hw']))
        (fun x' hx' => hf x' (by simp [hx']))
      simp only [List.zipWith_cons_cons, List.sum_cons]
      constructor <;> nlinarith

theorem all_zero_of_sum_le (r : List K) (hr : ∀ w ∈ r, 0 ≤ w) (h : r.sum ≤ 0) : ∀ w ∈ r, w = 0 := by
  induction r with
  | nil => simp
  | cons w ws ih =>
    have hw : 0 ≤ w := hr w (by simp)
    have hs : 0 ≤ ws.sum := List.sum_nonneg (fun x hx => hr x (by simp [hx]))
    rw [List.sum_cons] at h
    intro w' hw'
    rcases List.mem_cons.mp hw' with rfl | hmem
    · linarith
    · exact ih (fun x hx => hr x (by simp [hx])) (by linarith) w' hmem

theorem dot_zero (f r : List K) (hr : ∀ w ∈ r, w = 0) : (List.zipWith (· * ·) f r).sum = 0 := by
  induction f generalizing r with
  | nil => simp
  | cons x xs ih =>
    cases r with
    | nil => simp
    | cons w ws =>
      simp only [List.zipWith_cons_cons, List.sum_cons]
      rw [hr w (by simp), ih ws (fun w' hw' => hr w' (by simp [hw']))]
      ring

/-- `f` and `f'` have the length of the mask and agree on every unmasked pixel
(mask `true` = bad pixel, its value is arbitrary on both sides) -/
inductive AgreeUnmasked : List Bool → List K → List K → Prop
  | nil : AgreeUnmasked [] [] []
  | bad {m f f'} (x y : K) : AgreeUnmasked m f f' → AgreeUnmasked (true :: m) (x :: f) (y :: f')
  | good {m f f'} (x : K) : AgreeUnmasked m f f' → AgreeUnmasked (false :: m) (x :: f) (x :: f')

theorem AgreeUnmasked.length_eq {m : List Bool} {f f' : List K} (h : AgreeUnmasked m f f') :
    f.length = f'.length := by
  induction h <;> simp_all

theorem goodsFrom_agree {m : List Bool} {f f' : List K} (h : AgreeUnmasked m f f') (i : Nat) :
    goodsFrom i m f = goodsFrom i m f' := by
  induction h generalizing i with
  | nil => rfl
  | bad x y _ ih => simp only [goodsFrom, if_true]; exact ih (i + 1)
  | good x _ ih => simp only [goodsFrom, Bool.false_eq_true, if_false]; rw [ih (i + 1)]

theorem fillFrom_agree {m : List Bool} {f f' : List K} (h : AgreeUnmasked m f f') (g : List (Nat × K)) (i : Nat) :
    fillFrom g i m f = fillFrom g i m f' := by
  induction h generalizing i with
  | nil => rfl
  | bad x y _ ih => simp only [fillFrom, if_true]; rw [ih (i + 1)]
  | good x _ ih => simp only [fillFrom, Bool.false_eq_true, if_false]; rw [ih (i + 1)]

theorem agree_all_good {m : List Bool} {f f' : List K} (h : AgreeUnmasked m f f')
    (hall : m.all (fun b => !b) = true) : f = f' := by
  induction h with
  | nil => rfl
  | bad x y _ _ => simp at hall
  | good x _ ih => rw [ih (by simpa using hall)]

theorem goodsFrom_ne_nil {m : List Bool} {f f' : List K} (h : AgreeUnmasked m f f') (hg : false ∈ m) (i : Nat) :
    goodsFrom i m f ≠ [] := by
  induction h generalizing i with
  | nil => simp at hg
  | bad x y _ ih =>
    simp only [goodsFrom, if_true]
    exact ih (by simpa using hg) (i + 1)
  | good x _ _ => simp [goodsFrom]

theorem interpAt_bounds (lo hi : K) (g : List (Nat × K)) (hne : g ≠ [])
    (h : ∀ p ∈ g, lo ≤ p.2 ∧ p.2 ≤ hi) (i : Nat) : lo ≤ interpAt g i ∧ interpAt g i ≤ hi := by
  induction g with
  | nil => exact absurd rfl hne
  | cons p0 rest ih =>
    obtain ⟨j0, v0⟩ := p0
    cases rest with
    | nil => simpa [interpAt] using h (j0, v0) (by simp)
    | cons p1 rest' =>
      obtain ⟨j1, v1⟩ := p1
      have b0 := h (j0, v0) (by simp)
      have b1 := h (j1, v1) (by simp)
      simp only [interpAt]
      split
      · rename_i hi1
        split
        · exact b0
        · rename_i hi0
          have hi0' : j0 < i := Nat.lt_of_not_le hi0
          simp only [scalar_ofNat]
          have hd : (0 : K) < (j1 : K) - (j0 : K) := by
            have : (j0 : K) < (j1 : K) := by exact_mod_cast (Nat.lt_trans hi0' hi1)
            linarith
          have ht0 : (0 : K) ≤ (i : K) - (j0 : K) := by
            have : (j0 : K) ≤ (i : K) := by exact_mod_cast hi0'.le
            linarith
          have ht1 : (i : K) - (j0 : K) ≤ (j1 : K) - (j0 : K) := by
            have : (i : K) ≤ (j1 : K) := by exact_mod_cast hi1.le
            linarith
          set d := (j1 : K) - (j0 : K)
          set t := (i : K) - (j0 : K)
          have e : (v1 - v0) / d * t + v0 = v0 + (v1 - v0) * (t / d) := by field_simp; ring
          rw [e]
          have hθ0 : 0 ≤ t / d := div_nonneg ht0 hd.le
          have hθ1 : t / d ≤ 1 := by rw [div_le_one hd]; exact ht1
          constructor <;> nlinarith [b0.1, b0.2, b1.1, b1.2]
      · exact ih (by simp) (fun p hp => h p (by simp [hp]))

theorem fillFrom_bounds (lo hi : K) (g : List (Nat × K)) (hne : g ≠ [])
    (hg : ∀ p ∈ g, lo ≤ p.2 ∧ p.2 ≤ hi) (i : Nat) (m : List Bool) (y : List K)
    (hy : ∀ p ∈ goodsFrom i m y, lo ≤ p.2 ∧ p.2 ≤ hi) :
    ∀ x ∈ fillFrom g i m y, lo ≤ x ∧ x ≤ hi := by
  induction m generalizing i y with
  | nil => intro x hx; simp [fillFrom] at hx
  | cons b m ih =>
    cases y with
    | nil => intro x hx; simp [fillFrom] at hx
    | cons y0 ys =>
      intro x hx
      simp only [fillFrom, List.mem_cons] at hx
      cases b with
      | true =>
        simp only [goodsFrom, if_true] at hy
        rcases hx with hx | hx
        · rw [hx]; simpa using interpAt_bounds lo hi g hne hg i
        · exact ih (i + 1) ys hy x hx
      | false =>
        simp only [goodsFrom, Bool.false_eq_true, if_false] at hy
        rcases hx with hx | hx
        · rw [hx]; simpa using hy (i, y0) (by simp)
        · exact ih (i + 1) ys (fun p hp => hy p (by simp [hp])) x hx

theorem goods_of_all_good (i : Nat) (m : List Bool) (y : List K) (hall : m.all (fun b => !b) = true)
    (hlen : m.length = y.length) : ∀ x ∈ y, ∃ p ∈ goodsFrom i m y, p.2 = x := by
  induction m generalizing i y with
  | nil => cases y with
    | nil => intro x hx; simp at hx
    | cons _ _ => simp at hlen
  | cons b m ih =>
    cases y with
    | nil => simp at hlen
    | cons y0 ys =>
      have hb : b = false := by
        cases b with
        | true => simp at hall
        | false => rfl
      subst hb
      intro x hx
      simp only [goodsFrom, Bool.false_eq_true, if_false]
      rcases List.mem_cons.mp hx with rfl | hx
      · exact ⟨(i, x), by simp, rfl⟩
      · obtain ⟨p, hp, e⟩ := ih (i + 1) ys (by simpa using hall) (by simpa using hlen) x hx
        exact ⟨p, by simp [hp], e⟩

theorem fillFrom_length (g : List (Nat × K)) (i : Nat) (m : List Bool) (y : List K) (hlen : m.length = y.length) :
    (fillFrom g i m y).length = y.length := by
  induction m generalizing i y with
  | nil => cases y with
    | nil => rfl
    | cons _ _ => simp at hlen
  | cons b m ih =>
    cases y with
    | nil => simp at hlen
    | cons y0 ys => simp only [fillFrom, List.length_cons]; rw [ih (i + 1) ys (by simpa using hlen)]

theorem maskInterp_length (m : List Bool) (y : List K) (hlen : m.length = y.length) :
    (maskInterp m y).length = y.length := by
  unfold maskInterp
  split
  · rfl
  · split
    · rfl
    · simp
    · exact fillFrom_length _ 0 m y hlen

theorem goodsFrom_values (i : Nat) (m : List Bool) (y : List K) : ∀ p ∈ goodsFrom i m y, p.2 ∈ y := by
  induction m generalizing i y with
  | nil => intro p hp; simp [goodsFrom] at hp
  | cons b m ih =>
    cases y with
    | nil => intro p hp; simp [goodsFrom] at hp
    | cons y0 ys =>
      intro p hp
      cases b with
      | true =>
        simp only [goodsFrom, if_true] at hp
        exact List.mem_cons_of_mem _ (ih (i + 1) ys p hp)
      | false =>
        simp only [goodsFrom, Bool.false_eq_true, if_false, List.mem_cons] at hp
        rcases hp with rfl | hp
        · simp
        · exact List.mem_cons_of_mem _ (ih (i + 1) ys p hp)

theorem goodsFrom_ne_nil_of_mem (i : Nat) (m : List Bool) (y : List K) (hg : false ∈ m) (hlen : m.length = y.length) :
    goodsFrom i m y ≠ [] := by
  induction m generalizing i y with
  | nil => simp at hg
  | cons b m ih =>
    cases y with
    | nil => simp at hlen
    | cons y0 ys =>
      cases b with
      | true =>
        simp only [goodsFrom, if_true]
        exact ih (i + 1) ys (by simpa using hg) (by simpa using hlen)
      | false => simp [goodsFrom]

/-- `a·f + b·g` pixel by pixel -/
def lin (a b : K) (f g : List K) : List K := List.zipWith (fun x y => a * x + b * y) f g

/-- the same on (index, value) pairs with equal indices -/
def linG (a b : K) (gf gg : List (Nat × K)) : List (Nat × K) :=
  List.zipWith (fun p q => (p.1, a * p.2 + b * q.2)) gf gg

theorem interpAt_lin (a b : K) (gf gg : List (Nat × K)) (hidx : gf.map Prod.fst = gg.map Prod.fst) (i : Nat) :
    interpAt (linG a b gf gg) i = a * interpAt gf i + b * interpAt gg i := by
  induction gf generalizing gg with
  | nil =>
    cases gg with
    | nil => simp [linG, interpAt]
    | cons _ _ => simp at hidx
  | cons p0 rf ih =>
    cases gg with
    | nil => simp at hidx
    | cons q0 rg =>
      obtain ⟨j0, v0⟩ := p0
      obtain ⟨k0, w0⟩ := q0
      simp only [List.map_cons, List.cons.injEq] at hidx
      obtain ⟨hj, hrest⟩ := hidx
      subst hj
      cases rf with
      | nil =>
        cases rg with
        | nil => simp [linG, interpAt]
        | cons _ _ => simp at hrest
      | cons p1 rf' =>
        cases rg with
        | nil => simp at hrest
        | cons q1 rg' =>
          obtain ⟨j1, v1⟩ := p1
          obtain ⟨k1, w1⟩ := q1
          have hrest' := hrest
          simp only [List.map_cons, List.cons.injEq] at hrest'
          obtain ⟨hj1, _⟩ := hrest'
          subst hj1
          have ih' := ih ((j1, w1) :: rg') hrest
          simp only [linG, List.zipWith_cons_cons] at ih' ⊢
          simp only [interpAt]
          split
          · split
            · rfl
            · simp only [scalar_ofNat]; ring
          · exact ih'

theorem goods_lin (a b : K) (i : Nat) (m : List Bool) (f g : List K) (hlen : f.length = g.length) :
    goodsFrom i m (lin a b f g) = linG a b (goodsFrom i m f) (goodsFrom i m g) ∧
    (goodsFrom i m f).map Prod.fst = (goodsFrom i m g).map Prod.fst := by
  induction m generalizing i f g with
  | nil => simp [goodsFrom, linG]
  | cons c m ih =>
    cases f with
    | nil =>
      cases g with
      | nil => simp [goodsFrom, linG, lin]
      | cons _ _ => simp at hlen
    | cons x xs =>
      cases g with
      | nil => simp at hlen
      | cons y ys =>
        obtain ⟨e1, e2⟩ := ih (i + 1) xs ys (by simpa using hlen)
        cases c with
        | true =>
          simp only [lin, List.zipWith_cons_cons, goodsFrom, if_true] at e1 ⊢
          exact ⟨e1, e2⟩
        | false =>
          simp only [lin, List.zipWith_cons_cons, goodsFrom, Bool.false_eq_true, if_false, linG,
            List.map_cons, e2, and_true] at e1 ⊢
          rw [e1]

theorem fill_lin (a b : K) (gf gg : List (Nat × K)) (hidx : gf.map Prod.fst = gg.map Prod.fst)
    (i : Nat) (m : List Bool) (f g : List K) :
    fillFrom (linG a b gf gg) i m (lin a b f g) = lin a b (fillFrom gf i m f) (fillFrom gg i m g) := by
  induction m generalizing i f g with
  | nil => simp [fillFrom, lin]
  | cons c m ih =>
    cases f with
    | nil => simp [fillFrom, lin]
    | cons x xs =>
      cases g with
      | nil => simp [fillFrom, lin]
      | cons y ys =>
        have := ih (i + 1) xs ys
        simp only [lin, List.zipWith_cons_cons, fillFrom] at this ⊢
        rw [this]
        cases c with
        | true => simp only [if_true]; rw [interpAt_lin a b gf gg hidx i]
        | false => simp

theorem map_const_lin (a b cf cg c : K) (hc : c = a * cf + b * cg) (f g : List K) (hlen : f.length = g.length) :
    (lin a b f g).map (fun _ => c) = lin a b (f.map (fun _ => cf)) (g.map (fun _ => cg)) := by
  induction f generalizing g with
  | nil => simp [lin]
  | cons x xs ih =>
    cases g with
    | nil => simp at hlen
    | cons y ys =>
      have := ih ys (by simpa using hlen)
      simp only [lin, List.zipWith_cons_cons, List.map_cons] at this ⊢
      rw [this, hc]

/-! ## extension round: np.interp walk, weight image, pixel reversal, monotonicity of the conversions -/

theorem absS_eq (x : K) : absS x = |x| := by
  unfold absS
  simp only [scalar_ofNat, Nat.cast_zero]
  split
  · rename_i h; rw [abs_of_neg h]
  · rename_i h; rw [abs_of_nonneg (not_lt.mp h)]

/-- the np.interp walk never goes below a lower bound of the sample values -/
theorem interpGo_ge (lo x : K) : ∀ (rest : List (K × K)) (x0 f0 : K), x0 ≤ x → lo ≤ f0 →
    (∀ q ∈ rest, lo ≤ q.2) → lo ≤ interpGo x x0 f0 rest := by
  intro rest
  induction rest with
  | nil => intro x0 f0 _ h1 _; exact h1
  | cons q rest ih =>
    intro x0 f0 hx h1 hr
    obtain ⟨x1, f1⟩ := q
    have g1 : lo ≤ f1 := hr (x1, f1) List.mem_cons_self
    simp only [interpGo]
    split
    · rename_i hlt
      split
      · exact h1
      · have hd : 0 < x1 - x0 := by linarith
        have ht0 : 0 ≤ x - x0 := by linarith
        have ht1 : x - x0 ≤ x1 - x0 := by linarith
        set d := x1 - x0
        set t := x - x0
        have e : (f1 - f0) / d * t + f0 = f0 + (f1 - f0) * (t / d) := by field_simp; ring
        rw [e]
        have hθ0 : 0 ≤ t / d := div_nonneg ht0 hd.le
        have hθ1 : t / d ≤ 1 := by rw [div_le_one hd]; exact ht1
        nlinarith
    · rename_i hge
      exact ih x1 f1 (not_lt.mp hge) g1 (fun q hq => hr q (List.mem_cons_of_mem _ hq))

/-- ... nor above an upper bound -/
theorem interpGo_le (hi x : K) : ∀ (rest : List (K × K)) (x0 f0 : K), x0 ≤ x → f0 ≤ hi →
    (∀ q ∈ rest, q.2 ≤ hi) → interpGo x x0 f0 rest ≤ hi := by
  intro rest
  induction rest with
  | nil => intro x0 f0 _ h1 _; exact h1
  | cons q rest ih =>
    intro x0 f0 hx h1 hr
    obtain ⟨x1, f1⟩ := q
    have g1 : f1 ≤ hi := hr (x1, f1) List.mem_cons_self
    simp only [interpGo]
    split
    · rename_i hlt
      split
      · exact h1
      · have hd : 0 < x1 - x0 := by linarith
        have ht0 : 0 ≤ x - x0 := by linarith
        have ht1 : x - x0 ≤ x1 - x0 := by linarith
        set d := x1 - x0
        set t := x - x0
        have e : (f1 - f0) / d * t + f0 = f0 + (f1 - f0) * (t / d) := by field_simp; ring
        rw [e]
        have hθ0 : 0 ≤ t / d := div_nonneg ht0 hd.le
        have hθ1 : t / d ≤ 1 := by rw [div_le_one hd]; exact ht1
        nlinarith
    · rename_i hge
      exact ih x1 f1 (not_lt.mp hge) g1 (fun q hq => hr q (List.mem_cons_of_mem _ hq))

/-- `np.interp` stays within the range of the sample values (whatever the abscissae are) -/
theorem npInterp_bounds (lo hi x0 f0 : K) (rest : List (K × K))
    (h : ∀ q ∈ (x0, f0) :: rest, lo ≤ q.2 ∧ q.2 ≤ hi) (x : K) :
    lo ≤ npInterp x0 f0 rest x ∧ npInterp x0 f0 rest x ≤ hi := by
  have h0 := h (x0, f0) List.mem_cons_self
  unfold npInterp
  split
  · exact h0
  · rename_i hx
    exact ⟨interpGo_ge lo x rest x0 f0 (not_lt.mp hx) h0.1 (fun q hq => (h q (List.mem_cons_of_mem _ hq)).1),
           interpGo_le hi x rest x0 f0 (not_lt.mp hx) h0.2 (fun q hq => (h q (List.mem_cons_of_mem _ hq)).2)⟩

theorem npInterp_nonneg (x0 f0 : K) (rest : List (K × K)) (h : ∀ q ∈ (x0, f0) :: rest, 0 ≤ q.2) (x : K) :
    0 ≤ npInterp x0 f0 rest x := by
  unfold npInterp
  split
  · exact h (x0, f0) List.mem_cons_self
  · rename_i hx
    exact interpGo_ge 0 x rest x0 f0 (not_lt.mp hx) (h (x0, f0) List.mem_cons_self)
      (fun q hq => h q (List.mem_cons_of_mem _ hq))

/-- left of the first sample: `fp[0]` -/
theorem npInterp_left (x0 f0 : K) (rest : List (K × K)) (x : K) (h : x < x0) : npInterp x0 f0 rest x = f0 := by
  unfold npInterp; rw [if_pos h]

/-- right of all samples the walk returns the last value -/
theorem interpGo_last (x : K) : ∀ (rest : List (K × K)) (x0 f0 : K), (∀ q ∈ rest, q.1 ≤ x) →
    interpGo x x0 f0 rest = (((x0, f0) :: rest).getLast (List.cons_ne_nil _ _)).2 := by
  intro rest
  induction rest with
  | nil => intro x0 f0 _; simp [interpGo]
  | cons q rest ih =>
    intro x0 f0 h
    obtain ⟨x1, f1⟩ := q
    have : ¬ x < x1 := not_lt.2 (h (x1, f1) List.mem_cons_self)
    simp only [interpGo, this, if_false]
    rw [ih x1 f1 (fun q hq => h q (List.mem_cons_of_mem _ hq))]
    simp [List.getLast_cons]

/-- from the last sample on: `fp[-1]` -/
theorem npInterp_right (x0 f0 : K) (rest : List (K × K)) (x : K) (h : ∀ q ∈ (x0, f0) :: rest, q.1 ≤ x) :
    npInterp x0 f0 rest x = (((x0, f0) :: rest).getLast (List.cons_ne_nil _ _)).2 := by
  unfold npInterp
  rw [if_neg (not_lt.mpr (h (x0, f0) List.mem_cons_self))]
  exact interpGo_last x rest x0 f0 (fun q hq => h q (List.mem_cons_of_mem _ hq))

theorem zipWith_mem_imp {β γ δ : Type} (g : β → γ → δ) (P : δ → Prop) :
    ∀ (l1 : List β) (l2 : List γ), (∀ a, ∀ b ∈ l2, P (g a b)) → ∀ v ∈ List.zipWith g l1 l2, P v := by
  intro l1
  induction l1 with
  | nil => intro l2 _ v hv; simp at hv
  | cons a l1 ih =>
    intro l2 h v hv
    cases l2 with
    | nil => simp at hv
    | cons b l2 =>
      simp only [List.zipWith_cons_cons, List.mem_cons] at hv
      rcases hv with rfl | hv
      · exact h a b (by simp)
      · exact ih l2 (fun a b hb => h a b (List.mem_cons_of_mem _ hb)) v hv

theorem weightsOf_length (ld : List K) (x0 f0 : K) (rest : List (K × K)) (w : List K) (h : ld.length = w.length) :
    (weightsOf ld x0 f0 rest w).length = w.length := by
  simp [weightsOf, h]

/-- the weights are a pixel-by-pixel product: reversing the pixel order reverses them -/
theorem weightsOf_reverse (ld : List K) (x0 f0 : K) (rest : List (K × K)) (w : List K) (h : ld.length = w.length) :
    weightsOf ld.reverse x0 f0 rest w.reverse = (weightsOf ld x0 f0 rest w).reverse := by
  unfold weightsOf
  rw [List.reverse_zipWith h]

/-- the band mean does not depend on the order in which the pixels are stored -/
theorem filterMean_reverse (r f : List K) (h : f.length = r.length) :
    filterMean r.reverse f.reverse = filterMean r f := by
  rw [filterMean_eq, filterMean_eq, ← List.reverse_zipWith h, List.sum_reverse, List.sum_reverse]

theorem reshapeLike_map (g : K → K) : ∀ img : List (List K),
    reshapeLike img (img.flatten.map g) = img.map (List.map g)
  | [] => rfl
  | row :: rows => by
    simp only [reshapeLike, List.flatten_cons, List.map_append, List.map_cons]
    rw [List.take_left' (by simp), List.drop_left' (by simp), reshapeLike_map g rows]

/-- `v ↦ v / fact v` is strictly increasing on `[2000, ∞)` -/
theorem vactoair_mono_aux {x y : K} (hx : 2000 ≤ x) (hxy : x < y) : x / fact x < y / fact y := by
  have hx0 : 0 < x := by linarith
  obtain ⟨fx, _⟩ := fact_bounds hx
  obtain ⟨fy, _⟩ := fact_bounds (le_trans hx hxy.le)
  have hd : 0 < y - x := by linarith
  have exy : |x - y| = y - x := by rw [abs_sub_comm]; exact abs_of_pos hd
  have hl := fact_lip hx le_rfl hxy.le
  rw [exy] at hl
  have h1 : fact y - fact x ≤ 578 / (x * x * x) * (y - x) := by
    have := neg_abs_le (fact x - fact y); linarith
  have hc : x * (578 / (x * x * x)) ≤ 1 / 2 := by
    have e : x * (578 / (x * x * x)) = 578 / (x * x) := by field_simp
    rw [e, div_le_iff₀ (by positivity)]; nlinarith
  have h2 : x * (fact y - fact x) ≤ x * (578 / (x * x * x)) * (y - x) := by
    have := mul_le_mul_of_nonneg_left h1 hx0.le
    linarith
  have h3 : x * (578 / (x * x * x)) * (y - x) ≤ 1 / 2 * (y - x) := mul_le_mul_of_nonneg_right hc hd.le
  have h4 : 0 < (y - x) * (fact x - 1) := mul_pos hd (by linarith)
  rw [div_lt_div_iff₀ (by linarith) (by linarith)]
  nlinarith

/-- `a ↦ a · fact (a · fact a)` (the two fixed-point iterations) is strictly increasing on `[2000, ∞)` -/
theorem airtovac_mono_aux {x y : K} (hx : 2000 ≤ x) (hxy : x < y) :
    x * fact (x * fact x) < y * fact (y * fact y) := by
  have hx0 : 0 < x := by linarith
  have hy : 2000 ≤ y := by linarith
  obtain ⟨fx, fx'⟩ := fact_bounds hx
  obtain ⟨fy, fy'⟩ := fact_bounds hy
  have hp : x ≤ x * fact x := by nlinarith
  have hq : x ≤ y * fact y := by nlinarith
  obtain ⟨gx, _⟩ := fact_bounds (le_trans hx hp)
  obtain ⟨gy, _⟩ := fact_bounds (le_trans hx hq)
  have hd : 0 < y - x := by linarith
  have exy : |x - y| = y - x := by rw [abs_sub_comm]; exact abs_of_pos hd
  have l1 := fact_lip hx le_rfl hxy.le
  rw [exy] at l1
  have l2 := fact_lip hx hp hq
  have hc : x * (578 / (x * x * x)) ≤ 1 / 4 := by
    have e : x * (578 / (x * x * x)) = 578 / (x * x) := by field_simp
    rw [e, div_le_iff₀ (by positivity)]; nlinarith
  have hpq : |x * fact x - y * fact y| ≤ 2 * (y - x) := by
    have e : x * fact x - y * fact y = x * (fact x - fact y) + (x - y) * fact y := by ring
    have a1 : x * |fact x - fact y| ≤ x * (578 / (x * x * x)) * (y - x) := by
      have := mul_le_mul_of_nonneg_left l1 hx0.le
      linarith
    have a2 : x * (578 / (x * x * x)) * (y - x) ≤ 1 / 4 * (y - x) := mul_le_mul_of_nonneg_right hc hd.le
    have a3 : (y - x) * fact y ≤ (y - x) * (1 + 325 / 1000000) := mul_le_mul_of_nonneg_left fy' hd.le
    calc |x * fact x - y * fact y| = |x * (fact x - fact y) + (x - y) * fact y| := by rw [e]
      _ ≤ |x * (fact x - fact y)| + |(x - y) * fact y| := abs_add_le _ _
      _ = x * |fact x - fact y| + (y - x) * fact y := by
          rw [abs_mul, abs_mul, abs_of_pos hx0, exy, abs_of_pos (by linarith : 0 < fact y)]
      _ ≤ 2 * (y - x) := by nlinarith
  have b1 : x * |fact (x * fact x) - fact (y * fact y)| ≤ 1 / 2 * (y - x) := by
    have hL : 0 ≤ 578 / (x * x * x) := by positivity
    have := mul_le_mul_of_nonneg_left (le_trans l2 (mul_le_mul_of_nonneg_left hpq hL)) hx0.le
    have a2 : x * (578 / (x * x * x)) * (2 * (y - x)) ≤ 1 / 4 * (2 * (y - x)) :=
      mul_le_mul_of_nonneg_right hc (by linarith)
    linarith
  have b2 : -(x * |fact (x * fact x) - fact (y * fact y)|) ≤ x * (fact (y * fact y) - fact (x * fact x)) := by
    have := neg_abs_le (fact (y * fact y) - fact (x * fact x))
    rw [abs_sub_comm] at this
    have := mul_le_mul_of_nonneg_left this hx0.le
    linarith
  have b3 : 0 < (y - x) * (fact (y * fact y) - 1) := mul_pos hd (by linarith)
  nlinarith

end
end PydlVerif.C19

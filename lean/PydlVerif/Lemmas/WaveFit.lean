/-
Helper lemmas and structure theorems for the end-to-end model of filter_thru (Model/WaveFit.lean):
the end-to-end function is `filterThru` / `bandFlux` on the fitted image the model computes; constant
fitted pixel size cancels; pixel differences of a log-linear solution; the Legendre fit of constant data.
-/
import PydlVerif.Model.WaveFit
import PydlVerif.Lemmas.Wave
import PydlVerif.Props.C13
import PydlVerif.Lemmas.Idl

set_option linter.unusedSectionVars false

namespace PydlVerif.C19
open PydlVerif PydlVerif.Wave PydlVerif.WaveFit PydlVerif.Trace

section
variable {K : Type} [Field K] [LinearOrder K] [IsStrictOrderedRing K] [FloorRing K]
attribute [local instance] fieldScalar
attribute [local instance 5] Scalar.instOfNat Scalar.instOfScientific

/-! ### structure of the end-to-end function -/

theorem e2e_ok_aux (log10 : K → K) (solve : Array (Array K) → Array K → R (Array K)) (toair : Bool)
    (curves : List (List (K × K))) (wave : List (List K)) (masks : Option (List (List Bool)))
    (flux res : List (List K)) (h : filterThruE2E log10 solve toair curves wave masks flux = .ok res) :
    ∃ lds, fittedImg log10 solve (flux.headD []).length (toairImg toair wave) = .ok lds ∧
      filterThru toair lds curves wave masks flux = .ok res := by
  unfold filterThruE2E at h
  obtain ⟨lds, h1, h2⟩ := C13.bind_ok h
  exact ⟨lds, h1, h2⟩

theorem filterRows_entry (curves : List (List (K × K))) (lds ws : List (List K)) (ms : List (Option (List Bool)))
    (fs rs : List (List K)) (h : filterRows curves lds ws ms fs = .ok rs) (t : ℕ) (row : List K)
    (ht : rs[t]? = some row) :
    ∃ ld w m f, lds[t]? = some ld ∧ ws[t]? = some w ∧ ms[t]? = some m ∧ fs[t]? = some f ∧
      filterThruRow ld curves w m f = .ok row := by
  fun_induction filterRows curves lds ws ms fs generalizing rs t with
  | case1 ld lds w ws m ms f fs ih =>
    obtain ⟨r, hr, h⟩ := C13.bind_ok h
    obtain ⟨rs', hrs, h⟩ := C13.bind_ok h
    cases h
    cases t with
    | zero =>
      simp only [List.getElem?_cons_zero, Option.some.injEq] at ht
      subst ht
      exact ⟨ld, w, m, f, rfl, rfl, rfl, rfl, hr⟩
    | succ t =>
      simp only [List.getElem?_cons_succ] at ht ⊢
      exact ih rs' hrs t ht
  | case2 =>
    cases h
    simp at ht
  | case3 => cases h

theorem filterThruRow_entry (ld : List K) (curves : List (List (K × K))) (w : List K) (m : Option (List Bool))
    (f row : List K) (h : filterThruRow ld curves w m f = .ok row) (b : ℕ) (v : K) (hb : row[b]? = some v) :
    ∃ c, curves[b]? = some c ∧ bandFlux ld c w m f = .ok v := by
  unfold filterThruRow at h
  obtain ⟨hlen, hent⟩ := C13.mapM_ok' _ _ _ h
  have hb' : b < row.length := by
    by_contra hc
    rw [List.getElem?_eq_none (by omega)] at hb
    cases hb
  have hbc : b < curves.length := by omega
  refine ⟨curves[b], List.getElem?_eq_getElem hbc, ?_⟩
  have := hent b hbc hb'
  rw [this]
  rw [List.getElem?_eq_getElem hb'] at hb
  cases hb
  rfl

/-! ### a constant fitted pixel size cancels -/

theorem zipWith_map_right_mul (a : K) (f r : List K) :
    (List.zipWith (· * ·) f (r.map (a * ·))).sum = a * (List.zipWith (· * ·) f r).sum := by
  induction f generalizing r with
  | nil => simp
  | cons x xs ih =>
    cases r with
    | nil => simp
    | cons y ys =>
      simp only [List.map_cons, List.zipWith_cons_cons, List.sum_cons, ih]
      ring

theorem sum_map_mul (a : K) (r : List K) : (r.map (a * ·)).sum = a * r.sum := by
  induction r with
  | nil => simp
  | cons y ys ih => simp only [List.map_cons, List.sum_cons, ih]; ring

/-- scaling all weights by one positive number does not change the band mean (overlapping band) -/
theorem filterMean_scale (a : K) (ha : 0 < a) (r f : List K) (hs : 0 < r.sum) :
    filterMean (r.map (a * ·)) f = (List.zipWith (· * ·) f r).sum / r.sum := by
  have hs' : 0 < (r.map (a * ·)).sum := by rw [sum_map_mul]; exact mul_pos ha hs
  rw [filterMean_pos _ _ hs', zipWith_map_right_mul, sum_map_mul]
  field_simp

theorem weightsOf_const (c x0 f0 : K) (rest : List (K × K)) (w : List K) :
    weightsOf (List.replicate w.length c) x0 f0 rest w = (w.map (npInterp x0 f0 rest)).map (|c| * ·) := by
  unfold weightsOf
  induction w with
  | nil => simp
  | cons x xs ih =>
    simp only [List.length_cons, List.replicate_succ, List.zipWith_cons_cons, List.map_cons, absS_eq] at ih ⊢
    rw [ih]

/-! ### pixel differences of a log-linear solution -/

theorem zipWith_tail_affine (c0 c1 : K) : ∀ (lw : List K) (s : ℕ),
    (∀ i (hi : i < lw.length), lw[i] = c0 + c1 * ((s + i : ℕ) : K)) →
    List.zipWith (fun a b => b - a) lw lw.tail = List.replicate (lw.length - 1) c1
  | [], _, _ => by simp
  | [_], _, _ => by simp
  | a :: b :: rest, s, h => by
    have ih := zipWith_tail_affine c0 c1 (b :: rest) (s + 1) (fun i hi => by
      have := h (i + 1) (by simp at hi ⊢; omega)
      simp only [List.getElem_cons_succ] at this
      rw [this]; congr 2; push_cast; ring)
    have h0 := h 0 (by simp)
    have h1 := h 1 (by simp)
    simp only [List.getElem_cons_zero, List.getElem_cons_succ] at h0 h1
    simp only [List.tail_cons, List.zipWith_cons_cons, List.length_cons] at ih ⊢
    rw [ih, h0, h1]
    have : rest.length + 1 + 1 - 1 = (rest.length + 1 - 1) + 1 := by omega
    rw [this, List.replicate_succ]
    congr 1
    push_cast; ring


/-! ### numpy's pairwise sums give the same number -/

theorem filterMeanPw_eq (r f : List K) : filterMeanPw r f = filterMean r f := by
  simp only [filterMeanPw, C14.npSum_eq_sum', filterMean, sumFrom_eq, scalar_ofNat, Nat.cast_zero, zero_add]

theorem filterRowsG_filterMean (curves : List (List (K × K))) (lds ws : List (List K))
    (ms : List (Option (List Bool))) (fs : List (List K)) :
    filterRowsG filterMean curves lds ws ms fs = filterRows curves lds ws ms fs := by
  fun_induction filterRows curves lds ws ms fs with
  | case1 ld lds w ws m ms f fs ih =>
    simp only [filterRowsG, ih]
    rfl
  | case2 => rfl
  | case3 lds ws ms fs h1 h2 =>
    unfold filterRowsG
    split
    · exact (h1 _ _ _ _ _ _ _ _ rfl rfl rfl rfl).elim
    · exact (h2 rfl rfl rfl rfl).elim
    · rfl

theorem filterThruG_filterMeanPw (toair : Bool) (lds : List (List K)) (curves : List (List (K × K)))
    (wave : List (List K)) (masks : Option (List (List Bool))) (flux : List (List K)) :
    filterThruG filterMeanPw toair lds curves wave masks flux = filterThru toair lds curves wave masks flux := by
  have : (filterMeanPw : List K → List K → K) = filterMean :=
    funext fun r => funext fun f => filterMeanPw_eq r f
  rw [this]
  unfold filterThruG filterThru
  simp only [filterRowsG_filterMean]

end
/-! ### the Legendre fit of constant data (func_fit as called by filter_thru through xy2traceset) -/
section fit
variable {K : Type} [Field K] [LinearOrder K] [IsStrictOrderedRing K] [FloorRing K]
attribute [-instance] Scalar.toAdd Scalar.toSub Scalar.toMul Scalar.toDiv Scalar.toNeg Scalar.toLT Scalar.toLE
  Scalar.instOfNat Scalar.instOfScientific Scalar.decLt Scalar.decLe
attribute [local instance] fieldScalar
open Finset

theorem legK_zero (x : K) : @legK K (fieldScalar K) x 0 = 1 := by
  unfold legK
  exact C13.lit1

/-- evaluating coefficients `[c, 0, 0, 0]` in the Legendre basis gives the constant `c` at every abscissa -/
theorem evalRow_const (xs res : Array K) (c : K) (h0 : at1 res 0 = c) (hk : ∀ k, 1 ≤ k → at1 res k = 0)
    (n : ℕ) (hn : n ≤ xs.size) :
    evalRow (rows legK xs 4) res 4 n = tab n (fun _ => c) := by
  unfold evalRow
  apply C13.tab_congr
  intro i hi
  rw [sumN_eq, Finset.sum_range_succ, Finset.sum_range_succ, Finset.sum_range_succ, Finset.sum_range_one,
    hk 1 (by omega), hk 2 (by omega), hk 3 (by omega), h0, at2_rows _ _ _ _ _ (by omega) (by omega), legK_zero]
  ring

/-- **func_fit of constant data** (`y_i = c`, unit weights, Legendre, ncoeff = 4, at least two points): if
`solve` honours its contract and the normal matrix is positive definite (hypothesis `hpd`: a combination of
the fitted basis rows that vanishes at every abscissa has zero coefficients), the coefficients returned are
`[c, 0, 0, 0]` -/
theorem funcFit_const (solve : Array (Array K) → Array K → R (Array K)) (hsolve : C13.SolveContract solve)
    (xvec y w : Array K) (c : K) (n : ℕ) (hn : 2 ≤ n) (hx : xvec.size = n)
    (hy : ∀ i, i < n → at1 y i = c) (hws : w.size = n) (hw : ∀ i, i < n → at1 w i = 1)
    (out : FitOut K)
    (h : funcFit solve { x := xvec, y := y, ncoeff := 4, invvar := some w, func := "legendre" } = .ok out)
    (hpd : ∀ d : ℕ → K, ∑ i ∈ range n, (∑ j ∈ range (min n 4), legK (at1 xvec i) j * d j) ^ 2 = 0 →
      ∀ k, k < min n 4 → d k = 0) :
    at1 out.res 0 = c ∧ ∀ k, 1 ≤ k → at1 out.res k = 0 := by
  set inp : FitIn K := { x := xvec, y := y, ncoeff := 4, invvar := some w, func := "legendre" } with hinp
  have hfw : fitWeights inp = .ok w := by
    unfold fitWeights
    simp only [hinp, hws, hx, ne_eq, not_true_eq_false, if_false]
    rfl
  have hia : fitIa inp = .ok (Array.replicate 4 true) := rfl
  have hgood : goodIdx w = List.range n := by
    unfold goodIdx
    rw [hws]
    apply List.filter_eq_self.mpr
    intro i hi
    rw [hw i (List.mem_range.mp hi)]
    simp
  have hm : C13.ncfit inp w = min n 4 := by
    unfold C13.ncfit
    rw [hgood, List.length_range]
  have hm1 : 1 ≤ min n 4 := by omega
  have hb : fitBasis inp (C13.ncfit inp w) = .ok (rows legK xvec (min n 4)) := by
    rw [hm]
    unfold fitBasis
    have : fitFunc (α := K) inp.func = some flegendre := by
      unfold fitFunc; simp [hinp]
    rw [this]
    have hfl : (flegendre (XIn.arr xvec) (min n 4) : R (Array (Array K))) = .ok (rows legK xvec (min n 4)) := by
      unfold flegendre; rw [if_neg (by omega)]; rfl
    show (flegendre (XIn.arr xvec) (min n 4) >>= fun legarr0 => withInputfunc legarr0 (min n 4) xvec.size none) = _
    rw [hfl]; rfl
  have hg : 2 ≤ (goodIdx w).length := by rw [hgood, List.length_range]; exact hn
  have hia_all : ∀ k, (Array.replicate 4 true).getD k true = true := by
    intro k
    simp [Array.getD]
  have hsz : inp.x.size = n := hx
  have hent : ∀ j i, j < min n 4 → i < n → at2 (rows legK xvec (min n 4)) j i = legK (at1 xvec i) j :=
    fun j i hj hi => at2_rows _ _ _ _ _ hj (by omega)
  have key := C13.funcFit_exact solve hsolve inp out h w (Array.replicate 4 true) (rows legK xvec (min n 4))
    hfw hia hg hb
    (by
      intro d _ hsum k hk
      rw [hm] at hk hsum
      rw [hsz] at hsum
      apply hpd d _ k hk
      rw [← hsum]
      apply Finset.sum_congr rfl
      intro i hi
      rw [hw i (Finset.mem_range.mp hi), one_mul]
      congr 1
      apply Finset.sum_congr rfl
      intro j hj
      rw [hent j i (Finset.mem_range.mp hj) (Finset.mem_range.mp hi)])
    (fun k => if k = 0 then c else 0)
    (by intro k _ hf; rw [hia_all k] at hf; cases hf)
    (by
      intro i hi
      rw [hsz] at hi
      rw [hm, Finset.sum_eq_single 0]
      · rw [hent 0 i (by omega) hi, legK_zero, if_pos rfl, one_mul]
        exact hy i hi
      · intro j _ hj0; rw [if_neg hj0, mul_zero]
      · intro h0; exact absurd (Finset.mem_range.mpr (by omega)) h0)
  obtain ⟨-, hpad, -, -⟩ := C13.funcFit_facts solve inp out h w (Array.replicate 4 true) _ hfw hia hg hb
  rw [hm] at key hpad
  refine ⟨by rw [key 0 (by omega)]; simp, ?_⟩
  intro k hk
  by_cases hkm : k < min n 4
  · rw [key k hkm, if_neg (by omega)]
  · exact hpad k (by omega)

/-- the normalised abscissae the differences are fitted on: pixels `0 .. nx-2` mapped by
`xnorm` with `xmin = 0`, `xmax = nx-1` -/
noncomputable def fitAbscissae (nx : ℕ) : Array K :=
  (tab (nx - 1) fun j => (Scalar.ofNat j : K)).map
    (xnorm1 (Scalar.ofNat 0 : K) (Scalar.ofNat (nx - 1) : K) none)

/-- positive definiteness of the normal matrix of the fit in filter_thru (Legendre rows `0 .. min(nx-1,4)-1`
at the `nx-1` fitted pixels) -/
def FitPD (nx : ℕ) : Prop :=
  ∀ d : ℕ → K, ∑ i ∈ range (nx - 1),
      (∑ j ∈ range (min (nx - 1) 4), legK (at1 (fitAbscissae (K := K) nx) i) j * d j) ^ 2 = 0 →
    ∀ k, k < min (nx - 1) 4 → d k = 0

theorem xnorm_nojump (t : TSet K) (xs xv : Array K) (h : t.xnorm xs false = .ok xv) :
    xv = xs.map (xnorm1 t.xmin t.xmax none) := by
  unfold TSet.xnorm at h
  obtain ⟨j, hj, h⟩ := C13.bind_ok h
  unfold jumpOf at hj
  simp only [Bool.false_eq_true, if_false] at hj
  cases hj
  cases h
  rfl

/-- one trace of `xy2traceset(diffx, diffy, ncoeff=4, xmin=0, xmax=nx-1)` whose `diffy` is the constant `c` -/
theorem tsFitRow_const (solve : Array (Array K) → Array K → R (Array K)) (hsolve : C13.SolveContract solve)
    (nx : ℕ) (hnx : 3 ≤ nx) (dy : List (List K)) (i : ℕ) (hi : i < dy.length) (c : K)
    (hdy : dy[i] = List.replicate (nx - 1) c) (hpd : FitPD (K := K) nx)
    (t0 : TSet K) (hmin : t0.xmin = Scalar.ofNat 0) (hmax : t0.xmax = Scalar.ofNat (nx - 1))
    (r : FitOut K × Array Bool) (h : tsFitRow solve (diffSetIn nx dy) t0 i = .ok r) :
    at1 r.1.res 0 = c ∧ ∀ k, 1 ≤ k → at1 r.1.res k = 0 := by
  unfold tsFitRow at h
  obtain ⟨xvec, hxv, h⟩ := C13.bind_ok h
  obtain ⟨r', hr, h⟩ := C13.bind_ok h
  cases r' with
  | none => cases h
  | some r' =>
    have hrr : r' = r := by
      have : (Except.ok r' : R _) = Except.ok r := h
      exact Except.ok.inj this
    subst hrr
    have hfit := C13.fitIter_ok _ _ _ _ hr
    have hrow : (diffSetIn nx dy).xpos.getD i #[] = tab (nx - 1) fun j => (Scalar.ofNat j : K) := by
      show (diffX dy.length nx).getD i #[] = _
      unfold diffX
      rw [tab_getD, if_pos hi]
    have hxv' : xvec = fitAbscissae nx := by
      have := xnorm_nojump t0 _ _ hxv
      rw [this, hrow, hmin, hmax]
      rfl
    have h0 : 0 < dy.length := by omega
    have hrow0 : ((diffSetIn nx dy).xpos.getD 0 #[]).size = nx - 1 := by
      show ((diffX dy.length nx).getD 0 #[]).size = _
      unfold diffX
      rw [tab_getD, if_pos h0, tab_size]
    have hypos : (diffSetIn nx dy).ypos.getD i #[] = (List.replicate (nx - 1) c).toArray := by
      show ((dy.map List.toArray).toArray).getD i #[] = _
      simp [Array.getD, hi, hdy]
    refine funcFit_const solve hsolve xvec _ (tsTempivar (diffSetIn nx dy) i) c (nx - 1) (by omega)
      (by rw [hxv']; simp [fitAbscissae]) ?_ ?_ ?_ r'.1 hfit ?_
    · intro j hj
      rw [hypos]
      simp [at1, Array.getD, hj]
    · unfold tsTempivar
      show (tab _ _).size = _
      rw [tab_size, hrow0]
    · intro j hj
      unfold tsTempivar
      show at1 (tab _ _) j = 1
      rw [at1_tab _ _ _ (by rw [hrow0]; exact hj)]
      show at1 (Array.replicate _ _) j * _ = _
      rw [at1_replicate _ _ _ (by rw [hrow0]; exact hj)]
      simp only [C13.lit1, one_mul]
    · intro d hd
      rw [hxv'] at hd
      exact hpd d hd

/-- one trace of `traceset2xy(diffset)` when its coefficients are `[c, 0, 0, 0]`: the constant `c` at every pixel -/
theorem xyRow_legendre_const (T : TSet K) (hf : T.func = "legendre") (hn : T.ncoeff = 4) (dj : Bool)
    (xp : Array (Array K)) (i : ℕ) (out : Array K) (c : K) (h : T.xyRow xp dj i = .ok out)
    (h0 : at1 (T.coeff.getD i #[]) 0 = c) (hk : ∀ k, 1 ≤ k → at1 (T.coeff.getD i #[]) k = 0) :
    out = tab (xp.getD i #[]).size (fun _ => c) := by
  unfold TSet.xyRow at h
  split at h
  · cases h
  obtain ⟨xvec, hxv, h⟩ := C13.bind_ok h
  have hsz := C13.xnorm_size _ _ _ _ hxv
  have hfun : tsetFunc (α := K) T.func = some flegendre := by rw [hf]; unfold tsetFunc; simp
  simp only [hfun] at h
  obtain ⟨legarr, hleg, h⟩ := C13.bind_ok h
  rw [hn] at hleg
  have hl : legarr = rows legK xvec 4 := by
    have : (flegendre (XIn.arr xvec) 4 : R (Array (Array K))) = .ok legarr := hleg
    unfold flegendre at this
    rw [if_neg (by omega)] at this
    exact (Except.ok.inj this).symm
  split at h
  · cases h
  have : out = evalRow legarr (T.coeff.getD i #[]) T.ncoeff (xp.getD i #[]).size := (Except.ok.inj h).symm
  rw [this, hl, hn]
  exact evalRow_const xvec _ c h0 hk _ (by omega)

theorem tab_const_toList (n : ℕ) (c : K) : (tab n (fun _ => c)).toList = List.replicate n c := by
  apply List.ext_getElem
  · simp [tab]
  · intro i h1 h2
    simp [tab]

/-- **the fitted image of constant pixel differences is that constant**: if every trace has
`diffy = c1 t` (a log-linear solution, `loglinear_diffy`), the image
`traceset2xy(xy2traceset(diffx, diffy, ncoeff=4, xmin=0, xmax=nx-1))[1]` computed by the model is `c1 t` at
every one of the `nx` pixels of trace `t` (contract of `solve`; positive definite normal matrix) -/
theorem fittedImg_const (log10 : K → K) (solve : Array (Array K) → Array K → R (Array K))
    (hsolve : C13.SolveContract solve) (nx : ℕ) (hnx : 3 ≤ nx) (nw : List (List K)) (c1 : ℕ → K)
    (hdy : ∀ t (ht : t < nw.length), logDiffY log10 nw[t] = List.replicate (nx - 1) (c1 t))
    (hpd : FitPD (K := K) nx) (lds : List (List K)) (h : fittedImg log10 solve nx nw = .ok lds) :
    lds.length = nw.length ∧ ∀ t (ht : t < lds.length), lds[t] = List.replicate nx (c1 t) := by
  unfold fittedImg at h
  rw [if_neg (by omega)] at h
  obtain ⟨o, ho, h⟩ := C13.bind_ok h
  obtain ⟨p, hp, h⟩ := C13.bind_ok h
  have hl : lds = p.2.toList.map Array.toList := (Except.ok.inj h).symm
  obtain ⟨dy, hdyd⟩ : ∃ dy, dy = nw.map (logDiffY log10) := ⟨_, rfl⟩
  rw [← hdyd] at ho
  have hdl : dy.length = nw.length := by rw [hdyd]; simp
  unfold tsetFit at ho
  split at ho
  · cases ho
  obtain ⟨xmin, hxmin, ho⟩ := C13.bind_ok ho
  obtain ⟨xmax, hxmax, ho⟩ := C13.bind_ok ho
  obtain ⟨fits, hfits, ho⟩ := C13.bind_ok ho
  have hxmin' : xmin = Scalar.ofNat 0 := by
    have : (Except.ok (Scalar.ofNat 0) : R K) = .ok xmin := hxmin
    exact (Except.ok.inj this).symm
  have hxmax' : xmax = Scalar.ofNat (nx - 1) := by
    have : (Except.ok (Scalar.ofNat (nx - 1)) : R K) = .ok xmax := hxmax
    exact (Except.ok.inj this).symm
  obtain ⟨hlen, hfi⟩ := C13.mapM_ok' _ _ _ hfits
  rw [List.length_range] at hlen
  have hsize : (diffSetIn nx dy).xpos.size = nw.length := by
    show (diffX dy.length nx).size = _
    unfold diffX
    rw [tab_size, hdl]
  rw [hsize] at hlen
  have hcoef : ∀ i (hi : i < nw.length), at1 (fits.getD i (⟨#[], #[]⟩, #[])).1.res 0 = c1 i ∧
      ∀ k, 1 ≤ k → at1 (fits.getD i (⟨#[], #[]⟩, #[])).1.res k = 0 := by
    intro i hi
    have hF := hfi i (by rw [List.length_range, hsize]; exact hi) (by omega)
    rw [List.getElem_range] at hF
    have hget : fits.getD i (⟨#[], #[]⟩, #[]) = fits[i]'(by omega) := by
      simp [List.getD_eq_getElem?_getD, hlen, hi]
    rw [hget]
    exact tsFitRow_const solve hsolve nx hnx dy i (by omega) (c1 i)
      (by simp only [hdyd, List.getElem_map]; exact hdy i hi) hpd _ hxmin' hxmax' _ hF
  obtain ⟨T, hT⟩ : ∃ T : TSet K, T =
      { func := (diffSetIn nx dy).func, xmin := xmin, xmax := xmax,
        coeff := (fits.map fun r => r.1.res).toArray, ncoeff := (diffSetIn nx dy).ncoeff,
        xjumplo := (diffSetIn nx dy).xjumplo, xjumphi := (diffSetIn nx dy).xjumphi,
        xjumpval := (diffSetIn nx dy).xjumpval } := ⟨_, rfl⟩
  have hoT : o.tset = T := by
    rw [hT, ← Except.ok.inj ho]
  rw [hoT] at hp
  have hTc : T.coeff.size = nw.length := by rw [hT]; simp [hlen]
  have hTf : T.func = "legendre" := by rw [hT]; rfl
  have hTn : T.ncoeff = 4 := by rw [hT]; rfl
  have hN : T.xmax - T.xmin = ((nx - 1 : ℕ) : K) := by
    rw [hT]
    show xmax - xmin = _
    rw [hxmax', hxmin']
    simp [Scalar.ofNat]
  obtain ⟨g, hg, hgs, hgrows, -⟩ := C13.default_grid T (nx - 1) hN
  unfold TSet.xy at hp
  obtain ⟨xp, hxp, hp⟩ := C13.bind_ok hp
  obtain ⟨ys, hys, hp⟩ := C13.bind_ok hp
  have hxpg : xp = g := by
    unfold TSet.xyPos at hxp
    rw [hg] at hxp
    exact (Except.ok.inj hxp).symm
  obtain ⟨hylen, hyi⟩ := C13.mapM_ok' _ _ _ hys
  rw [List.length_range, hTc] at hylen
  have hrowsz : ∀ i, i < nw.length → (xp.getD i #[]).size = nx := by
    intro i hi
    rw [hxpg, (hgrows i (by omega)).1]
    omega
  have hyrow : ∀ i (hi : i < nw.length), ys.getD i #[] = tab nx (fun _ => c1 i) := by
    intro i hi
    have hY := hyi i (by rw [List.length_range, hTc]; exact hi) (by omega)
    rw [List.getElem_range] at hY
    have hget : ys.getD i #[] = ys[i]'(by omega) := by
      simp [List.getD_eq_getElem?_getD, hylen, hi]
    have hc : T.coeff.getD i #[] = (fits.getD i (⟨#[], #[]⟩, #[])).1.res := by
      rw [hT]
      simp [Array.getD, List.getD_eq_getElem?_getD, hlen, hi]
    rw [hget, xyRow_legendre_const T hTf hTn _ xp i _ (c1 i) hY (by rw [hc]; exact (hcoef i hi).1)
      (by rw [hc]; exact (hcoef i hi).2), hrowsz i hi]
  have hxps : xp.size = nw.length := by rw [hxpg, hgs, hTc]
  have hp2 : p.2.size = xp.size ∧ ∀ t (ht : t < p.2.size), t < nw.length → p.2[t] = ys.getD t #[] := by
    rw [← Except.ok.inj hp]
    refine ⟨by simp, ?_⟩
    intro t ht ht'
    simp [tab, hTc, ht']
  rw [hl]
  refine ⟨by simp [hp2.1, hxps], ?_⟩
  intro t ht
  have ht1 : t < p.2.size := by simpa using ht
  have ht' : t < nw.length := by rw [hp2.1, hxps] at ht1; exact ht1
  simp only [List.getElem_map, Array.getElem_toList]
  rw [hp2.2 t ht1 ht', hyrow t ht', tab_const_toList]

/-- the fitted abscissae in ordinary terms: pixel `i` ↦ `2 i/(nx-1) - 1` -/
theorem fitAbscissae_at (nx i : ℕ) (hi : i < nx - 1) :
    at1 (fitAbscissae (K := K) nx) i = 2 / ((nx - 1 : ℕ) : K) * (i : K) - 1 := by
  have hN : ((nx - 1 : ℕ) : K) ≠ 0 := by exact_mod_cast (by omega : nx - 1 ≠ 0)
  unfold fitAbscissae
  rw [at1_map _ _ _ (by rw [tab_size]; exact hi), at1_tab _ _ _ hi]
  unfold xnorm1
  simp only [scalar_lit, scalar_sci, scalar_ofNat]
  have h5 : (OfScientific.ofScientific 5 true 1 : K) = 1 / 2 := by norm_num
  rw [h5]
  simp only [Nat.cast_zero, zero_add, sub_zero]
  generalize ((nx - 1 : ℕ) : K) = N at hN ⊢
  generalize (i : K) = t
  field_simp
  push_cast
  ring

/-- **the normal matrix of the fit in filter_thru is positive definite** for `nx ≥ 5` pixels: a cubic in the
Legendre basis that vanishes at the first four fitted pixels (distinct, equally spaced) is zero - by third,
second and first finite differences -/
theorem fitPD (nx : ℕ) (hnx : 5 ≤ nx) : FitPD (K := K) nx := by
  intro d hsum k hk
  have hm : min (nx - 1) 4 = 4 := by omega
  rw [hm] at hsum hk
  have hz := (Finset.sum_eq_zero_iff_of_nonneg (fun i _ => sq_nonneg _)).mp hsum
  have hq : ∀ i, i < 4 → ∑ j ∈ range 4, legK (at1 (fitAbscissae (K := K) nx) i) j * d j = 0 := fun i hi =>
    pow_eq_zero_iff (two_ne_zero) |>.mp (hz i (Finset.mem_range.mpr (by omega)))
  have hN : ((nx - 1 : ℕ) : K) ≠ 0 := by exact_mod_cast (by omega : nx - 1 ≠ 0)
  obtain ⟨a, ha⟩ : ∃ a : K, a = 2 / ((nx - 1 : ℕ) : K) := ⟨_, rfl⟩
  have ha0 : a ≠ 0 := by rw [ha]; exact div_ne_zero two_ne_zero hN
  have h0 := hq 0 (by omega)
  have h1 := hq 1 (by omega)
  have h2 := hq 2 (by omega)
  have h3 := hq 3 (by omega)
  rw [fitAbscissae_at nx _ (by omega), ← ha] at h0 h1 h2 h3
  simp only [Finset.sum_range_succ, Finset.sum_range_zero, legK, scalar_ofNat, C13.lit1, zero_add] at h0 h1 h2 h3
  push_cast at h0 h1 h2 h3
  have e3 : d 3 = 0 := by
    have : 15 * a ^ 3 * d 3 = 0 := by linear_combination h3 - 3 * h2 + 3 * h1 - h0
    rcases mul_eq_zero.mp this with h | h
    · exact absurd h (mul_ne_zero (by norm_num) (pow_ne_zero 3 ha0))
    · exact h
  rw [e3] at h0 h1 h2
  have e2 : d 2 = 0 := by
    have : 3 * a ^ 2 * d 2 = 0 := by linear_combination h2 - 2 * h1 + h0
    rcases mul_eq_zero.mp this with h | h
    · exact absurd h (mul_ne_zero (by norm_num) (pow_ne_zero 2 ha0))
    · exact h
  rw [e2] at h0 h1
  have e1 : d 1 = 0 := by
    have : a * d 1 = 0 := by linear_combination h1 - h0
    rcases mul_eq_zero.mp this with h | h
    · exact absurd h ha0
    · exact h
  rw [e1] at h0
  have e0 : d 0 = 0 := by linear_combination h0
  have : k = 0 ∨ k = 1 ∨ k = 2 ∨ k = 3 := by omega
  rcases this with rfl | rfl | rfl | rfl
  · exact e0
  · exact e1
  · exact e2
  · exact e3

end fit

end PydlVerif.C19

/-
Helper lemmas for C19, extension round: the mask interpolation (djs_maskinterp1, index mode, as modelled in
Model/Wave.lean) commutes with reversing the pixel order of a row.
-/
import PydlVerif.Lemmas.Wave

set_option linter.unusedSectionVars false

namespace PydlVerif.C19
open PydlVerif PydlVerif.Wave

section
variable {K : Type} [Field K] [LinearOrder K] [IsStrictOrderedRing K] [FloorRing K]
attribute [local instance] fieldScalar
attribute [local instance 5] Scalar.instOfNat Scalar.instOfScientific

/-! ## pixel reversal of the mask interpolation -/

theorem goodsFrom_append (i : Nat) : ∀ (m1 : List Bool) (y1 : List K) (m2 : List Bool) (y2 : List K),
    m1.length = y1.length →
    goodsFrom i (m1 ++ m2) (y1 ++ y2) = goodsFrom i m1 y1 ++ goodsFrom (i + m1.length) m2 y2 := by
  intro m1
  induction m1 generalizing i with
  | nil =>
    intro y1 m2 y2 h
    cases y1 with
    | nil => simp [goodsFrom]
    | cons _ _ => simp at h
  | cons b m1 ih =>
    intro y1 m2 y2 h
    cases y1 with
    | nil => simp at h
    | cons y0 ys =>
      have h' : m1.length = ys.length := by simpa using h
      have e : i + 1 + m1.length = i + (m1.length + 1) := by omega
      cases b with
      | true => simp only [List.cons_append, goodsFrom, if_true, List.length_cons]; rw [ih (i + 1) ys m2 y2 h', e]
      | false =>
        simp only [List.cons_append, goodsFrom, Bool.false_eq_true, if_false, List.length_cons]
        rw [ih (i + 1) ys m2 y2 h', e]

theorem fillFrom_append (g : List (Nat × K)) (i : Nat) : ∀ (m1 : List Bool) (y1 : List K) (m2 : List Bool) (y2 : List K),
    m1.length = y1.length →
    fillFrom g i (m1 ++ m2) (y1 ++ y2) = fillFrom g i m1 y1 ++ fillFrom g (i + m1.length) m2 y2 := by
  intro m1
  induction m1 generalizing i with
  | nil =>
    intro y1 m2 y2 h
    cases y1 with
    | nil => simp [fillFrom]
    | cons _ _ => simp at h
  | cons b m1 ih =>
    intro y1 m2 y2 h
    cases y1 with
    | nil => simp at h
    | cons y0 ys =>
      have h' : m1.length = ys.length := by simpa using h
      have e : i + 1 + m1.length = i + (m1.length + 1) := by omega
      simp only [List.cons_append, fillFrom, List.length_cons]
      rw [ih (i + 1) ys m2 y2 h', e]

/-- mirror image of a list of (index, value) pairs in a row whose last pixel is `N` -/
def mirror (N : Nat) (g : List (Nat × K)) : List (Nat × K) := g.reverse.map (fun p => (N - p.1, p.2))

theorem goodsFrom_reverse (i' : Nat) : ∀ (m : List Bool) (y : List K) (i : Nat), m.length = y.length →
    goodsFrom i' m.reverse y.reverse
      = (goodsFrom i m y).reverse.map (fun p => (i' + (i + m.length - 1 - p.1), p.2)) := by
  intro m
  induction m with
  | nil => intro y i h; cases y with
    | nil => simp [goodsFrom]
    | cons _ _ => simp at h
  | cons b m ih =>
    intro y i h
    cases y with
    | nil => simp at h
    | cons y0 ys =>
      have h' : m.length = ys.length := by simpa using h
      rw [List.reverse_cons, List.reverse_cons, goodsFrom_append i' _ _ _ _ (by simp [h']), ih ys (i + 1) h']
      have e : ∀ p : Nat × K, (i' + (i + 1 + m.length - 1 - p.1), p.2) = (i' + (i + (m.length + 1) - 1 - p.1), p.2) := by
        intro p; congr 2; omega
      cases b with
      | true =>
        simp only [goodsFrom, if_true, List.append_nil, List.length_cons, List.length_reverse]
        congr 1; funext p; exact e p
      | false =>
        simp only [goodsFrom, Bool.false_eq_true, if_false, List.length_cons, List.length_reverse, List.reverse_cons,
          List.map_append, List.map_cons, List.map_nil]
        congr 1
        · congr 1; funext p; exact e p
        · have : i + (m.length + 1) - 1 - i = m.length := by omega
          rw [this]

/-- indices strictly increasing -/
def IdxSorted (g : List (Nat × K)) : Prop := g.Pairwise (fun p q => p.1 < q.1)

theorem goodsFrom_idx (i : Nat) : ∀ (m : List Bool) (y : List K), ∀ p ∈ goodsFrom i m y, i ≤ p.1 ∧ p.1 < i + m.length := by
  intro m
  induction m generalizing i with
  | nil => intro y p hp; simp [goodsFrom] at hp
  | cons b m ih =>
    intro y p hp
    cases y with
    | nil => simp [goodsFrom] at hp
    | cons y0 ys =>
      cases b with
      | true =>
        simp only [goodsFrom, if_true] at hp
        have := ih (i + 1) ys p hp
        simp only [List.length_cons]; omega
      | false =>
        simp only [goodsFrom, Bool.false_eq_true, if_false, List.mem_cons] at hp
        rcases hp with rfl | hp
        · simp
        · have := ih (i + 1) ys p hp
          simp only [List.length_cons]; omega

theorem goodsFrom_sorted (i : Nat) : ∀ (m : List Bool) (y : List K), IdxSorted (goodsFrom i m y) := by
  intro m
  induction m generalizing i with
  | nil => intro y; simp [goodsFrom, IdxSorted]
  | cons b m ih =>
    intro y
    cases y with
    | nil => simp [goodsFrom, IdxSorted]
    | cons y0 ys =>
      cases b with
      | true => simp only [goodsFrom, if_true]; exact ih (i + 1) ys
      | false =>
        simp only [goodsFrom, Bool.false_eq_true, if_false, IdxSorted, List.pairwise_cons]
        exact ⟨fun q hq => by have := (goodsFrom_idx (i + 1) m ys q hq).1; omega, ih (i + 1) ys⟩

/-- at or left of the first good pixel: its value -/
theorem interpAt_le_first (j : Nat) (v : K) (rest : List (Nat × K)) (hs : IdxSorted ((j, v) :: rest)) (i : Nat)
    (hi : i ≤ j) : interpAt ((j, v) :: rest) i = v := by
  cases rest with
  | nil => rfl
  | cons q rest =>
    obtain ⟨j1, v1⟩ := q
    have : j < j1 := (List.pairwise_cons.mp hs).1 (j1, v1) (by simp)
    simp only [interpAt, if_pos (show i < j1 by omega), if_pos hi]

/-- appending a good pixel to the right of all others -/
theorem interpAt_snoc (jl : Nat) (vl : K) (j : Nat) (v : K) (hj : jl < j) (i : Nat) :
    ∀ (L : List (Nat × K)), L.getLast? = some (jl, vl) → (∀ p ∈ L, p.1 ≤ jl) →
    interpAt (L ++ [(j, v)]) i
      = if i ≤ jl then interpAt L i
        else if i < j then (v - vl) / (Scalar.ofNat j - Scalar.ofNat jl) * (Scalar.ofNat i - Scalar.ofNat jl) + vl
        else v := by
  intro L
  induction L with
  | nil => intro h; simp at h
  | cons p L ih =>
    intro hl hmax
    cases L with
    | nil =>
      simp only [List.getLast?_singleton, Option.some.injEq] at hl
      subst hl
      simp only [List.cons_append, List.nil_append, interpAt]
      by_cases h1 : i ≤ jl
      · have h2 : i < j := by omega
        simp only [if_pos h1, if_pos h2]
      · by_cases h2 : i < j
        · simp only [if_neg h1, if_pos h2]
        · simp only [if_neg h1, if_neg h2]
    | cons q L =>
      obtain ⟨j0, v0⟩ := p
      obtain ⟨j1, v1⟩ := q
      have hl' : ((j1, v1) :: L).getLast? = some (jl, vl) := by simpa [List.getLast?_cons_cons] using hl
      have ih' := ih hl' (fun p hp => hmax p (List.mem_cons_of_mem _ hp))
      have hq : j1 ≤ jl := hmax (j1, v1) (by simp)
      simp only [List.cons_append, interpAt] at ih' ⊢
      by_cases h1 : i < j1
      · rw [if_pos h1, if_pos (show i ≤ jl by omega), if_pos h1]
      · rw [if_neg h1, ih']
        by_cases h2 : i ≤ jl
        · rw [if_pos h2, if_pos h2, if_neg h1]
        · rw [if_neg h2, if_neg h2]

theorem mirror_cons (N : Nat) (p : Nat × K) (g : List (Nat × K)) :
    mirror N (p :: g) = mirror N g ++ [(N - p.1, p.2)] := by
  simp [mirror]

/-- the interpolation between the good pixels does not depend on the direction in which the row is stored -/
theorem interpAt_mirror (N : Nat) (i : Nat) (hi : i ≤ N) : ∀ (g : List (Nat × K)), IdxSorted g → g ≠ [] →
    (∀ p ∈ g, p.1 ≤ N) → interpAt (mirror N g) (N - i) = interpAt g i := by
  intro g
  induction g with
  | nil => intro _ h; exact absurd rfl h
  | cons p g ih =>
    intro hs _ hN
    cases g with
    | nil => simp [mirror, interpAt]
    | cons q rest =>
      obtain ⟨p1, p2⟩ := p
      obtain ⟨q1, q2⟩ := q
      have hs' : IdxSorted ((q1, q2) :: rest) := (List.pairwise_cons.mp hs).2
      have hpq : p1 < q1 := (List.pairwise_cons.mp hs).1 (q1, q2) (by simp)
      have hqN : q1 ≤ N := hN (q1, q2) (by simp)
      have ih' := ih hs' (by simp) (fun r hr => hN r (List.mem_cons_of_mem _ hr))
      rw [mirror_cons]
      have hlast : (mirror N ((q1, q2) :: rest)).getLast? = some (N - q1, q2) := by
        rw [mirror_cons]; simp
      have hmax : ∀ r ∈ mirror N ((q1, q2) :: rest), r.1 ≤ N - q1 := by
        intro r hr
        simp only [mirror, List.mem_map, List.mem_reverse] at hr
        obtain ⟨t, ht, rfl⟩ := hr
        have : q1 ≤ t.1 := by
          rcases List.mem_cons.mp ht with rfl | ht'
          · exact le_rfl
          · exact le_of_lt ((List.pairwise_cons.mp hs').1 t ht')
        simp only; omega
      rw [interpAt_snoc (N - q1) q2 (N - p1) p2 (by omega) (N - i) _ hlast hmax, ih']
      simp only [interpAt]
      by_cases h1 : i < q1
      · rw [if_neg (show ¬ N - i ≤ N - q1 by omega), if_pos h1]
        by_cases h2 : i ≤ p1
        · rw [if_neg (show ¬ N - i < N - p1 by omega), if_pos h2]
        · rw [if_pos (show N - i < N - p1 by omega), if_neg h2]
          simp only [scalar_ofNat]
          rw [Nat.cast_sub (show p1 ≤ N by omega), Nat.cast_sub hqN, Nat.cast_sub hi]
          have hd : (q1 : K) - (p1 : K) ≠ 0 := by
            have : (p1 : K) < (q1 : K) := by exact_mod_cast hpq
            exact ne_of_gt (by linarith)
          have e1 : ((N : K) - p1 - (N - q1)) = (q1 : K) - p1 := by ring
          have e2 : ((N : K) - i - (N - q1)) = (q1 : K) - i := by ring
          rw [e1, e2]
          field_simp
          ring
      · rw [if_pos (show N - i ≤ N - q1 by omega), if_neg h1]

theorem fillFrom_reverse (g g' : List (Nat × K)) (i' : Nat) : ∀ (m : List Bool) (y : List K) (i : Nat),
    m.length = y.length →
    (∀ t, t < m.length → interpAt g' (i' + t) = interpAt g (i + m.length - 1 - t)) →
    fillFrom g' i' m.reverse y.reverse = (fillFrom g i m y).reverse := by
  intro m
  induction m with
  | nil =>
    intro y i h _
    cases y with
    | nil => simp [fillFrom]
    | cons _ _ => simp at h
  | cons b m ih =>
    intro y i h hI
    cases y with
    | nil => simp at h
    | cons y0 ys =>
      have h' : m.length = ys.length := by simpa using h
      have hI' : ∀ t, t < m.length → interpAt g' (i' + t) = interpAt g (i + 1 + m.length - 1 - t) := by
        intro t ht
        rw [hI t (by simp only [List.length_cons]; omega)]
        congr 1
        simp only [List.length_cons]; omega
      have hlast : interpAt g' (i' + m.length) = interpAt g i := by
        rw [hI m.length (by simp)]
        congr 1
        simp only [List.length_cons]; omega
      rw [List.reverse_cons, List.reverse_cons, fillFrom_append g' i' _ _ _ _ (by simp [h']), ih ys (i + 1) h' hI']
      simp only [fillFrom, List.reverse_cons, List.length_reverse, hlast]

theorem maskInterp_two (m : List Bool) (y : List K) (hall : ¬ (m.all (fun b => !b)) = true)
    (h2 : 2 ≤ (goodsFrom 0 m y).length) : maskInterp m y = fillFrom (goodsFrom 0 m y) 0 m y := by
  unfold maskInterp
  rw [if_neg hall]
  match hg : goodsFrom 0 m y with
  | [] => rw [hg] at h2; simp at h2
  | [_] => rw [hg] at h2; simp at h2
  | _ :: _ :: _ => rfl

/-- **the mask interpolation commutes with reversing the pixel order** -/
theorem maskInterp_reverse (m : List Bool) (y : List K) (h : m.length = y.length) :
    maskInterp m.reverse y.reverse = (maskInterp m y).reverse := by
  have hg : goodsFrom 0 m.reverse y.reverse = mirror (m.length - 1) (goodsFrom 0 m y) := by
    rw [goodsFrom_reverse 0 m y 0 h]
    unfold mirror
    apply List.map_congr_left
    intro p _
    simp
  by_cases hall : (m.all (fun b => !b)) = true
  · have hall' : (m.reverse.all (fun b => !b)) = true := by simpa using hall
    unfold maskInterp
    rw [if_pos hall, if_pos hall']
  · have hall' : ¬ (m.reverse.all (fun b => !b)) = true := by simpa using hall
    match hG : goodsFrom 0 m y with
    | [] =>
      unfold maskInterp
      rw [if_neg hall, if_neg hall', hg, hG]
      simp [mirror]
    | [(j, v)] =>
      unfold maskInterp
      rw [if_neg hall, if_neg hall', hg, hG]
      simp [mirror]
    | p :: q :: rest =>
      have hs : IdxSorted (goodsFrom 0 m y) := goodsFrom_sorted 0 m y
      have hb := goodsFrom_idx 0 m y
      have hlen : 2 ≤ (goodsFrom 0 m y).length := by rw [hG]; simp
      have hlen' : 2 ≤ (goodsFrom 0 m.reverse y.reverse).length := by
        rw [hg]; unfold mirror; simpa using hlen
      rw [maskInterp_two m y hall hlen, maskInterp_two m.reverse y.reverse hall' hlen', hg]
      apply fillFrom_reverse _ _ 0 m y 0 h
      intro t ht
      have e : 0 + t = (m.length - 1) - (m.length - 1 - t) := by omega
      rw [e, interpAt_mirror (m.length - 1) (m.length - 1 - t) (by omega) _ hs (by rw [hG]; simp)
        (fun r hr => by have := (hb r hr).2; omega)]
      congr 1
      omega

end
end PydlVerif.C19

/-
C01, file level: the front half of `_parse` on written text.
  PART 1  continuation joining (`joinCont`) is the identity
  PART 2  the typedef expression (`tdFind` / `tdRemove`) on lines and on written blocks
  PART 3  blocks in sequence, as `defsBlock` lays them out
-/
import PydlVerif.Lemmas.YannyShape
namespace PydlVerif.YannyRT
open PydlVerif.Yanny

/-! ## PART 1: continuation joining -/

def contFree : Str → Bool
  | [] => true
  | c :: t => (c != '\\' || !(t.takeWhile isSpace).contains '\n') && contFree t

theorem lastNlLen_zero (run : Str) (h : '\n' ∉ run) : lastNlLen run = 0 := by
  unfold lastNlLen
  rw [dropWhile_all]
  · rfl
  · intro a ha
    have ha' : a ∈ run := by simpa using ha
    simp only [bne_iff_ne, ne_eq]
    intro e; subst e; exact h ha'

theorem contGo_id (s : Str) (h : contFree s = true) : contGo 0 s = s := by
  induction s with
  | nil => rfl
  | cons c t ih =>
    simp only [contFree, Bool.and_eq_true, Bool.or_eq_true] at h
    obtain ⟨h1, h2⟩ := h
    simp only [contGo]
    by_cases hc : c = '\\'
    · subst hc
      have hn : '\n' ∉ t.takeWhile isSpace := by simpa using h1
      simp [lastNlLen_zero _ hn, ih h2]
    · simp [hc, ih h2]

theorem joinCont_id (s : Str) (h : contFree s = true) : joinCont s = s := contGo_id s h

/-- inside one line: every backslash is followed by a non-blank character somewhere -/
def noCont : Str → Bool
  | [] => true
  | c :: t => (c != '\\' || !t.all isSpace) && noCont t

theorem takeWhile_append_of_not_all {α} (p : α → Bool) (l r : List α) (h : l.all p = false) :
    (l ++ r).takeWhile p = l.takeWhile p := by
  induction l with
  | nil => simp at h
  | cons a t ih =>
    by_cases ha : p a = true
    · simp only [List.cons_append, List.takeWhile_cons_of_pos ha]
      rw [ih]
      simpa [ha] using h
    · simp [List.takeWhile_cons_of_neg ha]

theorem contFree_line (l rest : Str) (hn : '\n' ∉ l) (hl : noCont l = true) (hr : contFree rest = true) :
    contFree (l ++ '\n' :: rest) = true := by
  induction l with
  | nil => simp [contFree, hr]
  | cons c t ih =>
    simp only [noCont, Bool.and_eq_true, Bool.or_eq_true] at hl
    obtain ⟨h1, h2⟩ := hl
    have hnt : '\n' ∉ t := fun h => hn (List.mem_cons_of_mem _ h)
    simp only [List.cons_append, contFree, Bool.and_eq_true, Bool.or_eq_true]
    refine ⟨?_, ih hnt h2⟩
    rcases h1 with h1 | h1
    · exact Or.inl h1
    · right
      have ha : t.all isSpace = false := by simpa using h1
      rw [takeWhile_append_of_not_all _ _ _ ha]
      simp only [Bool.not_eq_true', List.contains_eq_mem, decide_eq_false_iff_not]
      intro hm
      exact hnt ((List.takeWhile_sublist _).subset hm)

theorem contFree_nobs (x rest : Str) (hx : '\\' ∉ x) (hr : contFree rest = true) : contFree (x ++ rest) = true := by
  induction x with
  | nil => simpa using hr
  | cons c t ih =>
    have hc : c ≠ '\\' := fun e => hx (by simp [e])
    have ht : '\\' ∉ t := fun h => hx (List.mem_cons_of_mem _ h)
    simp [contFree, hc, ih ht]

theorem rstrip_nil_of_all_space (t : Str) (h : t.all isSpace = true) : rstrip t = [] := by
  unfold rstrip
  rw [dropWhile_all]
  · rfl
  · intro a ha
    have ha' : a ∈ t := by simpa using ha
    exact (List.all_eq_true.mp h) a ha'

theorem noCont_of_rstrip (l : Str) (h : (rstrip l).getLast? ≠ some '\\') : noCont l = true := by
  induction l with
  | nil => rfl
  | cons c t ih =>
    rw [rstrip_cons] at h
    simp only [noCont, Bool.and_eq_true, Bool.or_eq_true]
    by_cases hr : rstrip t = []
    · refine ⟨?_, ih (by simp [hr])⟩
      by_cases hc : c = '\\'
      · subst hc
        exfalso
        apply h
        simp [hr]
        decide
      · left; simpa using hc
    · simp only [hr, false_and, if_false] at h
      have hl : (c :: rstrip t).getLast? = (rstrip t).getLast? := by
        cases hq : rstrip t with
        | nil => exact absurd hq hr
        | cons a u => simp [List.getLast?_cons_cons]
      rw [hl] at h
      refine ⟨?_, ih h⟩
      by_cases hc : c = '\\'
      · right
        simp only [Bool.not_eq_true']
        cases ha : t.all isSpace with
        | false => rfl
        | true => exact absurd (rstrip_nil_of_all_space t ha) hr
      · left; simpa using hc

theorem noCont_of_last (l : Str) (h : ∀ c, l.getLast? = some c → isSpace c = false ∧ c ≠ '\\') : noCont l = true := by
  apply noCont_of_rstrip
  have e : rstrip l = l := by
    unfold rstrip
    rw [lstrip_id, List.reverse_reverse]
    intro c hc
    rw [List.head?_reverse] at hc
    exact (h c hc).1
  rw [e]
  intro hc
  exact (h _ hc).2 rfl

theorem contFree_lines (ls : List Str) (rest : Str) (h : ∀ l ∈ ls, '\n' ∉ l ∧ noCont l = true) (hr : contFree rest = true) :
    contFree ((ls.map (fun l => l ++ ['\n'])).flatten ++ rest) = true := by
  induction ls with
  | nil => simpa using hr
  | cons l t ih =>
    have h1 := h l (by simp)
    have h2 := ih (fun l hl => h l (List.mem_cons_of_mem _ hl))
    simp only [List.map_cons, List.flatten_cons, List.append_assoc, List.cons_append, List.nil_append]
    exact contFree_line l _ h1.1 h1.2 h2

/-! ## PART 2: the typedef expression -/

theorem stripPrefix_some_eq (p s r : Str) (h : stripPrefix p s = some r) : s = p ++ r := by
  induction p generalizing s with
  | nil =>
    have e : stripPrefix [] s = some s := by cases s <;> rfl
    rw [e] at h
    simpa using h
  | cons a ps ih =>
    cases s with
    | nil => simp [stripPrefix] at h
    | cons c cs =>
      simp only [stripPrefix] at h
      split at h
      · rename_i hac
        have e : a = c := by simpa using hac
        subst e
        rw [ih cs h]; rfl
      · cases h

theorem stripPrefix_append (p r : Str) : stripPrefix p (p ++ r) = some r := by
  induction p with
  | nil => cases r <;> rfl
  | cons a ps ih => simp [stripPrefix, ih]

theorem stripPrefix_cut (p x y : Str) (c : Char) (r : Str)
    (h : stripPrefix p (x ++ c :: y) = some r) (hc : c ∉ p) : ∃ r', stripPrefix p x = some r' := by
  induction p generalizing x with
  | nil => exact ⟨x, by cases x <;> rfl⟩
  | cons a ps ih =>
    cases x with
    | nil =>
      simp only [List.nil_append, stripPrefix] at h
      split at h
      · rename_i hac
        have e : a = c := by simpa using hac
        exact absurd (by simp [e]) hc
      · cases h
    | cons b xs =>
      simp only [List.cons_append, stripPrefix] at h ⊢
      split at h
      · rename_i hab
        simp only [hab, if_true]
        exact ih xs h (fun hm => hc (List.mem_cons_of_mem _ hm))
      · cases h

theorem noTypedef_cons (c : Char) (t : Str) (h : noTypedef (c :: t) = true) :
    stripPrefix "typedef".toList (c :: t) = none ∧ noTypedef t = true := by
  simp only [noTypedef, hasSub, findSub] at h ⊢
  split at h
  · simp at h
  · rename_i hs
    constructor
    · simpa using hs
    · simpa using h

/-- no nonempty suffix `v` of `X` starts a match in `X ++ B` -/
def noMatchIn (kw X B : Str) : Prop := ∀ u v, X = u ++ v → v ≠ [] → matchTypedef kw (v ++ B) = none

theorem noMatchIn_nil (kw B : Str) : noMatchIn kw [] B := by
  intro u v e hv
  have : v = [] := by
    have := congrArg List.length e
    simp at this
    exact List.eq_nil_of_length_eq_zero (by omega)
  exact absurd this hv

theorem noMatchIn_cons (kw : Str) (c : Char) (X B : Str)
    (h0 : matchTypedef kw (c :: X ++ B) = none) (h : noMatchIn kw X B) : noMatchIn kw (c :: X) B := by
  intro u v e hv
  cases u with
  | nil => simp only [List.nil_append] at e; subst e; exact h0
  | cons a u' =>
    simp only [List.cons_append, List.cons.injEq] at e
    exact h u' v e.2 hv

theorem noMatchIn_append (kw X Y B : Str) (h1 : noMatchIn kw X (Y ++ B)) (h2 : noMatchIn kw Y B) :
    noMatchIn kw (X ++ Y) B := by
  induction X with
  | nil => simpa using h2
  | cons c t ih =>
    apply noMatchIn_cons
    · have := h1 [] (c :: t) rfl (by simp)
      simpa using this
    · apply ih
      intro u v e hv
      exact h1 (c :: u) v (by simp [e]) hv

theorem tdFind_noMatch (kw X B : Str) (h : noMatchIn kw X B) : tdFind kw 0 (X ++ B) = tdFind kw 0 B := by
  induction X with
  | nil => rfl
  | cons c t ih =>
    have h0 : matchTypedef kw (c :: (t ++ B)) = none := h [] (c :: t) rfl (by simp)
    have ht : noMatchIn kw t B := fun u v e hv => h (c :: u) v (by simp [e]) hv
    simp only [List.cons_append, tdFind, h0]
    exact ih ht

theorem tdRemove_noMatch (kw X B : Str) (h : noMatchIn kw X B) : tdRemove kw 0 (X ++ B) = X ++ tdRemove kw 0 B := by
  induction X with
  | nil => rfl
  | cons c t ih =>
    have h0 : matchTypedef kw (c :: (t ++ B)) = none := h [] (c :: t) rfl (by simp)
    have ht : noMatchIn kw t B := fun u v e hv => h (c :: u) v (by simp [e]) hv
    simp only [List.cons_append, tdRemove, h0]
    rw [ih ht]

theorem matchTypedef_of_strip_none (kw s : Str) (h : stripPrefix "typedef".toList s = none) :
    matchTypedef kw s = none := by
  unfold matchTypedef
  rw [h]

theorem noMatchIn_noTypedef (kw l : Str) (c : Char) (B : Str) (hc : c ∉ "typedef".toList)
    (hl : noTypedef l = true) : noMatchIn kw l (c :: B) := by
  induction l with
  | nil => exact noMatchIn_nil _ _
  | cons a t ih =>
    obtain ⟨h1, h2⟩ := noTypedef_cons a t hl
    apply noMatchIn_cons _ _ _ _ _ (ih h2)
    apply matchTypedef_of_strip_none
    cases hs : stripPrefix "typedef".toList (a :: t ++ c :: B) with
    | none => rfl
    | some r =>
      obtain ⟨r', hr'⟩ := stripPrefix_cut _ (a :: t) B c r hs hc
      rw [h1] at hr'
      cases hr'

theorem noMatchIn_nl (kw B : Str) : noMatchIn kw ['\n'] B := by
  apply noMatchIn_cons _ _ _ _ _ (noMatchIn_nil _ _)
  apply matchTypedef_of_strip_none
  rfl

theorem noMatchIn_line (kw l B : Str) (hl : noTypedef l = true) : noMatchIn kw (l ++ ['\n']) B :=
  noMatchIn_append _ _ _ _ (noMatchIn_noTypedef kw l '\n' B (by decide) hl) (noMatchIn_nl kw B)

theorem tdFind_line (kw l B : Str) (hl : noTypedef l = true) :
    tdFind kw 0 (l ++ '\n' :: B) = tdFind kw 0 B := by
  have := tdFind_noMatch kw (l ++ ['\n']) B (noMatchIn_line kw l B hl)
  simpa using this

theorem tdRemove_line (kw l B : Str) (hl : noTypedef l = true) :
    tdRemove kw 0 (l ++ '\n' :: B) = l ++ '\n' :: tdRemove kw 0 B := by
  have := tdRemove_noMatch kw (l ++ ['\n']) B (noMatchIn_line kw l B hl)
  simpa using this

theorem noMatchIn_nls (kw x B : Str) (hx : ∀ c ∈ x, c = '\n') : noMatchIn kw x B := by
  induction x with
  | nil => exact noMatchIn_nil _ _
  | cons a t ih =>
    have ha : a = '\n' := hx a (by simp)
    subst ha
    apply noMatchIn_cons _ _ _ _ _ (ih (fun c hc => hx c (List.mem_cons_of_mem _ hc)))
    apply matchTypedef_of_strip_none
    rfl

theorem tdFind_nls (kw x B : Str) (hx : ∀ c ∈ x, c = '\n') : tdFind kw 0 (x ++ B) = tdFind kw 0 B :=
  tdFind_noMatch kw x B (noMatchIn_nls kw x B hx)

theorem tdRemove_nls (kw x B : Str) (hx : ∀ c ∈ x, c = '\n') : tdRemove kw 0 (x ++ B) = x ++ tdRemove kw 0 B :=
  tdRemove_noMatch kw x B (noMatchIn_nls kw x B hx)

theorem noMatchIn_lines (kw : Str) (ls : List Str) (B : Str) (h : ∀ l ∈ ls, noTypedef l = true) :
    noMatchIn kw (ls.map (fun l => l ++ ['\n'])).flatten B := by
  induction ls with
  | nil => exact noMatchIn_nil _ _
  | cons l t ih =>
    simp only [List.map_cons, List.flatten_cons]
    exact noMatchIn_append _ _ _ _ (noMatchIn_line kw l _ (h l (by simp)))
      (ih (fun l hl => h l (List.mem_cons_of_mem _ hl)))

theorem tdFind_lines (kw : Str) (ls : List Str) (B : Str) (h : ∀ l ∈ ls, noTypedef l = true) :
    tdFind kw 0 ((ls.map (fun l => l ++ ['\n'])).flatten ++ B) = tdFind kw 0 B :=
  tdFind_noMatch kw _ B (noMatchIn_lines kw ls B h)

theorem tdRemove_lines (kw : Str) (ls : List Str) (B : Str) (h : ∀ l ∈ ls, noTypedef l = true) :
    tdRemove kw 0 ((ls.map (fun l => l ++ ['\n'])).flatten ++ B) =
      (ls.map (fun l => l ++ ['\n'])).flatten ++ tdRemove kw 0 B :=
  tdRemove_noMatch kw _ B (noMatchIn_lines kw ls B h)

/-! ### a whole block -/

theorem tdFind_skip (kw x y : Str) : tdFind kw x.length (x ++ y) = tdFind kw 0 y := by
  induction x with
  | nil => rfl
  | cons a t ih => simpa [tdFind] using ih

theorem tdRemove_skip (kw x y : Str) : tdRemove kw x.length (x ++ y) = tdRemove kw 0 y := by
  induction x with
  | nil => rfl
  | cons a t ih => simpa [tdRemove] using ih

theorem tdFind_at_match (kw X B body name : Str) (hX : X ≠ [])
    (hm : matchTypedef kw (X ++ B) = some (X.length - 1, body, name)) :
    tdFind kw 0 (X ++ B) = ⟨X, body, name⟩ :: tdFind kw 0 B := by
  cases X with
  | nil => exact absurd rfl hX
  | cons c t =>
    simp only [List.cons_append, List.length_cons, Nat.add_sub_cancel] at hm
    simp only [List.cons_append, tdFind, hm, tdFind_skip, List.take_succ_cons, List.take_left']

theorem tdRemove_at_match (kw X B body name : Str) (hX : X ≠ [])
    (hm : matchTypedef kw (X ++ B) = some (X.length - 1, body, name)) :
    tdRemove kw 0 (X ++ B) = tdRemove kw 0 B := by
  cases X with
  | nil => exact absurd rfl hX
  | cons c t =>
    simp only [List.cons_append, List.length_cons, Nat.add_sub_cancel] at hm
    simp only [List.cons_append, tdRemove, hm, tdRemove_skip]

theorem isSpace_not_word (c : Char) (h : isWordCh c = true) : isSpace c = false := by
  cases hs : isSpace c with
  | false => rfl
  | true =>
    exfalso
    simp only [isSpace, Bool.or_eq_true, beq_iff_eq] at hs
    rcases hs with ((((((((((rfl | rfl) | rfl) | rfl) | rfl) | rfl) | rfl) | rfl) | rfl) | rfl) | rfl) | rfl <;>
      exact absurd h (by decide)

theorem blockText_shape (K body name B : Str) : blockText K body name ++ B =
    "typedef".toList ++ (' ' :: (K ++ (' ' :: '{' :: (body ++ '}' :: ' ' :: (name ++ ';' :: B))))) := by
  unfold blockText
  have h1 : ∀ X : Str, "typedef ".toList ++ X = "typedef".toList ++ ' ' :: X := fun _ => rfl
  have h2 : ∀ X : Str, " {".toList ++ X = ' ' :: '{' :: X := fun _ => rfl
  have h3 : ∀ X : Str, "} ".toList ++ X = '}' :: ' ' :: X := fun _ => rfl
  simp only [List.append_assoc]
  rw [h1, h2, h3]
  rfl

theorem matchTypedef_block (K body name B : Str) (hK : isKw K) (hb : blockOK body name) :
    matchTypedef K (blockText K body name ++ B) = some ((blockText K body name).length - 1, body, name) := by
  obtain ⟨hb1, hb2, hb3, hn1, hn2⟩ := hb
  have hbody : ∀ a ∈ body, (a != '}') = true := by
    intro a ha; simp only [bne_iff_ne, ne_eq]; intro e; subst e; exact hb2 ha
  have hlen : (blockText K body name ++ B).length - B.length - 1 = (blockText K body name).length - 1 := by
    simp only [List.length_append]; omega
  rw [← hlen]
  have hbe : body.isEmpty = false := by cases body with
    | nil => exact absurd rfl hb1
    | cons a t => rfl
  have hne : name.isEmpty = false := by cases name with
    | nil => exact absurd rfl hn1
    | cons a t => rfl
  have e5 : ∀ R : Str, (body ++ '}' :: R).takeWhile (· != '}') = body :=
    fun R => takeWhile_app_stop _ body '}' R hbody (by decide)
  have e6 : ∀ R : Str, (body ++ '}' :: R).dropWhile (· != '}') = '}' :: R :=
    fun R => dropWhile_app_stop _ body '}' R hbody (by decide)
  have e7 : (name ++ ';' :: B).takeWhile isWordCh = name := takeWhile_app_stop _ name ';' B hn2 (by decide)
  have e8 : (name ++ ';' :: B).dropWhile isWordCh = ';' :: B := dropWhile_app_stop _ name ';' B hn2 (by decide)
  have eK : ∀ R : Str, (K ++ R).dropWhile isSpace = K ++ R := by
    intro R
    rcases hK with rfl | rfl
    · exact dropWhile_head_false _ _ _ (by decide)
    · exact dropWhile_head_false _ _ _ (by decide)
  have eN : (name ++ ';' :: B).dropWhile isSpace = name ++ ';' :: B := by
    cases name with
    | nil => exact absurd rfl hn1
    | cons a t => exact dropWhile_head_false _ _ _ (isSpace_not_word a (hn2 a (by simp)))
  have eB : ∀ R : Str, List.dropWhile isSpace (' ' :: '{' :: R) = '{' :: R := fun R => by
    rw [List.dropWhile_cons_of_pos (by decide), dropWhile_head_false _ _ _ (by decide)]
  have eS : (';' :: B).dropWhile isSpace = ';' :: B := dropWhile_head_false _ _ _ (by decide)
  rw [blockText_shape]
  unfold matchTypedef
  generalize ("typedef".toList ++ (' ' :: (K ++ (' ' :: '{' :: (body ++ '}' :: ' ' :: (name ++ ';' :: B)))))).length = L
  rw [stripPrefix_append]
  simp only []
  rw [if_neg (by decide), List.dropWhile_cons_of_pos (by decide), eK, stripPrefix_append]
  simp only []
  rw [eB]
  simp only []
  rw [e5, e6]
  simp only [hbe]
  rw [if_neg (by simp), List.dropWhile_cons_of_pos (by decide), eN, e7, e8, eS]
  simp [hne]

theorem blockText_ne_nil (K body name : Str) : blockText K body name ≠ [] := by
  have e := blockText_shape K body name []
  rw [List.append_nil] at e
  rw [e]
  simp

theorem tdFind_block_same (K body name B : Str) (hK : isKw K) (hb : blockOK body name) :
    tdFind K 0 (blockText K body name ++ B) = ⟨blockText K body name, body, name⟩ :: tdFind K 0 B :=
  tdFind_at_match K _ B body name (blockText_ne_nil K body name) (matchTypedef_block K body name B hK hb)

theorem tdRemove_block_same (K body name B : Str) (hK : isKw K) (hb : blockOK body name) :
    tdRemove K 0 (blockText K body name ++ B) = tdRemove K 0 B :=
  tdRemove_at_match K _ B body name (blockText_ne_nil K body name) (matchTypedef_block K body name B hK hb)

/-! ### no match inside a block -/

theorem mem_takeWhile_p {α} (p : α → Bool) (l : List α) (a : α) (h : a ∈ l.takeWhile p) : p a = true := by
  induction l with
  | nil => simp at h
  | cons b t ih =>
    by_cases hb : p b = true
    · rw [List.takeWhile_cons_of_pos hb] at h
      rcases List.mem_cons.mp h with rfl | h
      · exact hb
      · exact ih h
    · rw [List.takeWhile_cons_of_neg hb] at h
      simp at h

/-- a match starts with `typedef`, blanks, the keyword, blanks, and then an opening brace -/
theorem matchTypedef_pre (kw s : Str) (res : Nat × Str × Str) (h : matchTypedef kw s = some res) :
    ∃ pre post, s = pre ++ '{' :: post ∧
      ∀ c ∈ pre, c ∈ "typedef".toList ∨ isSpace c = true ∨ c ∈ kw := by
  unfold matchTypedef at h
  split at h
  · cases h
  · rename_i r1 h1
    split at h
    · cases h
    · rename_i c r1'
      split at h
      · cases h
      · split at h
        · cases h
        · rename_i r3 h3
          split at h
          · rename_i r5 h5
            refine ⟨"typedef".toList ++ (List.takeWhile isSpace (c :: r1') ++ (kw ++ List.takeWhile isSpace r3)),
              r5, ?_, ?_⟩
            · have a1 := stripPrefix_some_eq _ _ _ h1
              have a3 := stripPrefix_some_eq _ _ _ h3
              have a2 : List.takeWhile isSpace (c :: r1') ++ List.dropWhile isSpace (c :: r1') = c :: r1' :=
                List.takeWhile_append_dropWhile
              have a4 : List.takeWhile isSpace r3 ++ List.dropWhile isSpace r3 = r3 :=
                List.takeWhile_append_dropWhile
              rw [h5] at a4
              rw [a3] at a2
              generalize List.takeWhile isSpace (c :: r1') = w1 at a2 ⊢
              rw [a1, ← a2]
              conv => lhs; rw [← a4]
              simp only [List.append_assoc]
            · intro x hx
              simp only [List.mem_append] at hx
              rcases hx with hx | hx | hx | hx
              · exact Or.inl hx
              · exact Or.inr (Or.inl (mem_takeWhile_p _ _ _ hx))
              · exact Or.inr (Or.inr hx)
              · exact Or.inr (Or.inl (mem_takeWhile_p _ _ _ hx))
          · cases h

theorem prefix_of_not_mem (x y pre post : Str) (c : Char) (h : x ++ y = pre ++ c :: post) (hc : c ∉ x) :
    ∃ z, pre = x ++ z := by
  induction x generalizing pre with
  | nil => exact ⟨pre, rfl⟩
  | cons a t ih =>
    cases pre with
    | nil =>
      simp only [List.cons_append, List.nil_append, List.cons.injEq] at h
      exact absurd (by simp [h.1]) hc
    | cons b pre' =>
      simp only [List.cons_append, List.cons.injEq] at h
      obtain ⟨z, hz⟩ := ih pre' h.2 (fun hm => hc (List.mem_cons_of_mem _ hm))
      exact ⟨z, by rw [h.1, hz]; rfl⟩

theorem noMatchIn_noBrace (kw T B : Str) (hkw : isKw kw) (hT : '{' ∉ T) (hlast : T.getLast? = some ';') :
    noMatchIn kw T B := by
  intro u v e hv
  have hv1 : '{' ∉ v := fun hm => hT (by rw [e]; exact List.mem_append_right _ hm)
  have hv2 : ';' ∈ v := by
    rw [e, List.getLast?_append] at hlast
    cases v with
    | nil => exact absurd rfl hv
    | cons a w =>
      cases hq : (a :: w).getLast? with
      | none => simp at hq
      | some q =>
        rw [hq] at hlast
        simp only [Option.some_or, Option.some.injEq] at hlast
        subst hlast
        exact List.mem_of_getLast? hq
  cases hm : matchTypedef kw (v ++ B) with
  | none => rfl
  | some res =>
    exfalso
    obtain ⟨pre, post, e1, e2⟩ := matchTypedef_pre kw _ res hm
    obtain ⟨z, hz⟩ := prefix_of_not_mem v B pre post '{' e1 hv1
    have hp : ';' ∈ pre := by rw [hz]; exact List.mem_append_left _ hv2
    rcases e2 ';' hp with h | h | h
    · exact absurd h (by decide)
    · exact absurd h (by decide)
    · rcases hkw with rfl | rfl
      · exact absurd h (by decide)
      · exact absurd h (by decide)

theorem noMatchIn_cons_nt (kw : Str) (c : Char) (X B : Str) (hc : c ≠ 't') (h : noMatchIn kw X B) :
    noMatchIn kw (c :: X) B := by
  apply noMatchIn_cons _ _ _ _ _ h
  apply matchTypedef_of_strip_none
  show stripPrefix ('t' :: "ypedef".toList) (c :: (X ++ B)) = none
  simp [stripPrefix, Ne.symm hc]

theorem noMatchIn_cons_t2 (kw : Str) (c : Char) (X B : Str) (hc : c ≠ 'y') (h : noMatchIn kw (c :: X) B) :
    noMatchIn kw ('t' :: c :: X) B := by
  apply noMatchIn_cons _ _ _ _ _ h
  apply matchTypedef_of_strip_none
  show stripPrefix ('t' :: 'y' :: "pedef".toList) ('t' :: c :: (X ++ B)) = none
  simp [stripPrefix, Ne.symm hc]

theorem noMatchIn_head_struct (R : Str) :
    noMatchIn "enum".toList ("typedef ".toList ++ "struct".toList ++ " {".toList) R := by
  have e : "typedef ".toList ++ "struct".toList ++ " {".toList =
      ['t','y','p','e','d','e','f',' ','s','t','r','u','c','t',' ','{'] := by decide
  rw [e]
  apply noMatchIn_cons
  · rfl
  iterate 8 apply noMatchIn_cons_nt _ _ _ _ (by decide)
  apply noMatchIn_cons_t2 _ _ _ _ (by decide)
  iterate 3 apply noMatchIn_cons_nt _ _ _ _ (by decide)
  apply noMatchIn_cons_t2 _ _ _ _ (by decide)
  iterate 2 apply noMatchIn_cons_nt _ _ _ _ (by decide)
  exact noMatchIn_nil _ _

theorem noMatchIn_head_enum (R : Str) :
    noMatchIn "struct".toList ("typedef ".toList ++ "enum".toList ++ " {".toList) R := by
  have e : "typedef ".toList ++ "enum".toList ++ " {".toList =
      ['t','y','p','e','d','e','f',' ','e','n','u','m',' ','{'] := by decide
  rw [e]
  apply noMatchIn_cons
  · rfl
  iterate 13 apply noMatchIn_cons_nt _ _ _ _ (by decide)
  exact noMatchIn_nil _ _

theorem noMatchIn_block (K kw body name B : Str) (hK : isKw K) (hkw : isKw kw) (hne : K ≠ kw)
    (hb : blockOK body name) : noMatchIn kw (blockText K body name) B := by
  obtain ⟨hb1, hb2, hb3, hn1, hn2⟩ := hb
  have es : blockText K body name =
      ("typedef ".toList ++ K ++ " {".toList) ++ (body ++ ("} ".toList ++ name ++ [';'])) := by
    unfold blockText
    simp only [List.append_assoc]
  rw [es]
  apply noMatchIn_append
  · rcases hK with rfl | rfl <;> rcases hkw with rfl | rfl
    · exact absurd rfl hne
    · exact noMatchIn_head_struct _
    · exact noMatchIn_head_enum _
    · exact absurd rfl hne
  · apply noMatchIn_noBrace _ _ _ hkw
    · intro hm
      simp only [List.mem_append, List.mem_cons, List.mem_nil_iff, or_false] at hm
      rcases hm with hm | (hm | hm) | hm
      · exact hb3 hm
      · exact absurd hm (by decide)
      · exact absurd (hn2 _ hm) (by decide)
      · exact absurd hm (by decide)
    · rw [← List.append_assoc, List.getLast?_append]
      rfl

theorem tdFind_block_other (K kw body name B : Str) (hK : isKw K) (hkw : isKw kw) (hne : K ≠ kw)
    (hb : blockOK body name) : tdFind kw 0 (blockText K body name ++ B) = tdFind kw 0 B :=
  tdFind_noMatch kw _ B (noMatchIn_block K kw body name B hK hkw hne hb)

theorem tdRemove_block_other (K kw body name B : Str) (hK : isKw K) (hkw : isKw kw) (hne : K ≠ kw)
    (hb : blockOK body name) :
    tdRemove kw 0 (blockText K body name ++ B) = blockText K body name ++ tdRemove kw 0 B :=
  tdRemove_noMatch kw _ B (noMatchIn_block K kw body name B hK hkw hne hb)

/-! ## PART 3: blocks in sequence -/

def blocksOf (K : Str) (bs : List (Str × Str)) : List Str := bs.map (fun b => blockText K b.1 b.2)

theorem blocksOf_cons (K : Str) (b : Str × Str) (bs : List (Str × Str)) :
    blocksOf K (b :: bs) = blockText K b.1 b.2 :: blocksOf K bs := rfl

theorem sep_nls : ∀ c ∈ (['\n', '\n'] : Str), c = '\n' := by
  intro c hc
  simp only [List.mem_cons, List.mem_nil_iff, or_false, or_self] at hc
  exact hc

theorem tdFind_join_same (K : Str) (b : Str × Str) (bs : List (Str × Str)) (B : Str) (hK : isKw K)
    (hbs : ∀ b' ∈ b :: bs, blockOK b'.1 b'.2) :
    tdFind K 0 (joinWith ['\n', '\n'] (blocksOf K (b :: bs)) ++ B) =
      (b :: bs).map (fun b => (⟨blockText K b.1 b.2, b.1, b.2⟩ : TDef)) ++ tdFind K 0 B := by
  induction bs generalizing b with
  | nil =>
    simp only [blocksOf, List.map_nil, joinWith, List.map_cons, List.cons_append, List.nil_append]
    exact tdFind_block_same K b.1 b.2 B hK (hbs b (by simp))
  | cons b2 t ih =>
    have ih' := ih b2 (fun x hx => hbs x (List.mem_cons_of_mem _ hx))
    rw [blocksOf_cons, blocksOf_cons] at *
    simp only [joinWith, List.append_assoc]
    rw [tdFind_block_same K b.1 b.2 _ hK (hbs b (by simp)), tdFind_nls K _ _ sep_nls, ih']
    simp

theorem tdRemove_join_same (K : Str) (b : Str × Str) (bs : List (Str × Str)) (B : Str) (hK : isKw K)
    (hbs : ∀ b' ∈ b :: bs, blockOK b'.1 b'.2) :
    tdRemove K 0 (joinWith ['\n', '\n'] (blocksOf K (b :: bs)) ++ B) =
      joinWith ['\n', '\n'] ((b :: bs).map (fun _ => ([] : Str))) ++ tdRemove K 0 B := by
  induction bs generalizing b with
  | nil =>
    simp only [blocksOf, List.map_nil, joinWith, List.map_cons, List.nil_append]
    exact tdRemove_block_same K b.1 b.2 B hK (hbs b (by simp))
  | cons b2 t ih =>
    have ih' := ih b2 (fun x hx => hbs x (List.mem_cons_of_mem _ hx))
    rw [blocksOf_cons, blocksOf_cons] at *
    simp only [List.map_cons] at ih' ⊢
    simp only [joinWith, List.append_assoc]
    rw [tdRemove_block_same K b.1 b.2 _ hK (hbs b (by simp)), tdRemove_nls K _ _ sep_nls, ih']
    simp

theorem noMatchIn_join (K kw : Str) (b : Str × Str) (bs : List (Str × Str)) (B : Str) (hK : isKw K)
    (hkw : isKw kw) (hne : K ≠ kw) (hbs : ∀ b' ∈ b :: bs, blockOK b'.1 b'.2) :
    noMatchIn kw (joinWith ['\n', '\n'] (blocksOf K (b :: bs))) B := by
  induction bs generalizing b with
  | nil =>
    show noMatchIn kw (blockText K b.1 b.2) B
    exact noMatchIn_block K kw b.1 b.2 B hK hkw hne (hbs b (by simp))
  | cons b2 t ih =>
    have ih' := ih b2 (fun x hx => hbs x (List.mem_cons_of_mem _ hx))
    rw [blocksOf_cons, blocksOf_cons] at *
    simp only [joinWith, List.append_assoc]
    apply noMatchIn_append
    · exact noMatchIn_block K kw b.1 b.2 _ hK hkw hne (hbs b (by simp))
    · apply noMatchIn_append
      · exact noMatchIn_nls kw _ _ sep_nls
      · exact ih'

theorem one_nl : ∀ c ∈ (['\n'] : Str), c = '\n' := by
  intro c hc
  simpa using hc

theorem tdFind_defs_same (K : Str) (bs : List (Str × Str)) (B : Str) (hK : isKw K)
    (hbs : ∀ b ∈ bs, blockOK b.1 b.2) :
    tdFind K 0 (defsBlock (blocksOf K bs) ++ B) =
      bs.map (fun b => (⟨blockText K b.1 b.2, b.1, b.2⟩ : TDef)) ++ tdFind K 0 B := by
  cases bs with
  | nil => rfl
  | cons b t =>
    have e : defsBlock (blocksOf K (b :: t)) ++ B =
        ['\n'] ++ (joinWith ['\n', '\n'] (blocksOf K (b :: t)) ++ ('\n' :: B)) := by
      simp [defsBlock, blocksOf_cons]
    rw [e, tdFind_nls K _ _ one_nl, tdFind_join_same K b t _ hK hbs]
    have e2 : tdFind K 0 ('\n' :: B) = tdFind K 0 B := tdFind_nls K ['\n'] B one_nl
    rw [e2]

theorem tdRemove_defs_same (K : Str) (bs : List (Str × Str)) (B : Str) (hK : isKw K)
    (hbs : ∀ b ∈ bs, blockOK b.1 b.2) :
    tdRemove K 0 (defsBlock (blocksOf K bs) ++ B) =
      defsBlock (bs.map (fun _ => ([] : Str))) ++ tdRemove K 0 B := by
  cases bs with
  | nil => rfl
  | cons b t =>
    have e : defsBlock (blocksOf K (b :: t)) ++ B =
        ['\n'] ++ (joinWith ['\n', '\n'] (blocksOf K (b :: t)) ++ ('\n' :: B)) := by
      simp [defsBlock, blocksOf_cons]
    rw [e, tdRemove_nls K _ _ one_nl, tdRemove_join_same K b t _ hK hbs]
    have e2 : tdRemove K 0 ('\n' :: B) = '\n' :: tdRemove K 0 B := tdRemove_nls K ['\n'] B one_nl
    rw [e2]
    simp [defsBlock]

theorem noMatchIn_defs (K kw : Str) (bs : List (Str × Str)) (B : Str) (hK : isKw K) (hkw : isKw kw)
    (hne : K ≠ kw) (hbs : ∀ b ∈ bs, blockOK b.1 b.2) : noMatchIn kw (defsBlock (blocksOf K bs)) B := by
  cases bs with
  | nil => exact noMatchIn_nil _ _
  | cons b t =>
    have e : defsBlock (blocksOf K (b :: t)) =
        ['\n'] ++ (joinWith ['\n', '\n'] (blocksOf K (b :: t)) ++ ['\n']) := by
      simp [defsBlock, blocksOf_cons]
    rw [e]
    apply noMatchIn_append
    · exact noMatchIn_nls kw _ _ one_nl
    · apply noMatchIn_append
      · exact noMatchIn_join K kw b t _ hK hkw hne hbs
      · exact noMatchIn_nls kw _ _ one_nl

theorem tdFind_defs_other (K kw : Str) (bs : List (Str × Str)) (B : Str) (hK : isKw K) (hkw : isKw kw)
    (hne : K ≠ kw) (hbs : ∀ b ∈ bs, blockOK b.1 b.2) :
    tdFind kw 0 (defsBlock (blocksOf K bs) ++ B) = tdFind kw 0 B :=
  tdFind_noMatch kw _ B (noMatchIn_defs K kw bs B hK hkw hne hbs)

theorem tdRemove_defs_other (K kw : Str) (bs : List (Str × Str)) (B : Str) (hK : isKw K) (hkw : isKw kw)
    (hne : K ≠ kw) (hbs : ∀ b ∈ bs, blockOK b.1 b.2) :
    tdRemove kw 0 (defsBlock (blocksOf K bs) ++ B) = defsBlock (blocksOf K bs) ++ tdRemove kw 0 B :=
  tdRemove_noMatch kw _ B (noMatchIn_defs K kw bs B hK hkw hne hbs)

theorem joinWith_blank_nls {α} (a : α) (n : List α) :
    ∀ c ∈ joinWith ['\n', '\n'] ((a :: n).map (fun _ => ([] : Str))), c = '\n' := by
  induction n generalizing a with
  | nil => intro c hc; simp [joinWith] at hc
  | cons b t ih =>
    intro c hc
    simp only [List.map_cons, joinWith, List.nil_append, List.cons_append, List.mem_cons] at hc
    rcases hc with rfl | rfl | hc
    · rfl
    · rfl
    · exact ih b c (by simpa using hc)

theorem defsBlock_blank_nls {α} (n : List α) : ∀ c ∈ defsBlock (n.map (fun _ => ([] : Str))), c = '\n' := by
  cases n with
  | nil => intro c hc; simp [defsBlock] at hc
  | cons a t =>
    intro c hc
    have e : defsBlock ((a :: t).map (fun _ => ([] : Str))) =
        '\n' :: (joinWith ['\n', '\n'] ((a :: t).map (fun _ => ([] : Str))) ++ ['\n']) := by
      simp [defsBlock]
    rw [e] at hc
    simp only [List.mem_cons, List.mem_append, List.mem_nil_iff, or_false] at hc
    rcases hc with rfl | hc | rfl
    · rfl
    · exact joinWith_blank_nls a t c hc
    · rfl

end PydlVerif.YannyRT

/-
C01, file level: everything of the whole-file round trip `parse_render` that does not need the line
lemmas of Props/C01.lean (which this file must not import).

  ASCII character facts, `nodup`, `str.split('\n')` and the line loop on concatenations (`Seg`),
  header-pair and table state updates, `finishTable` on in-domain rows (piece 4: `finishTables_written`),
  from the document domain to the hypotheses of the line lemmas (`pairLineOK_of_pairOK`,
  `rowFits_of_cellsOK`, `dbFree_strip`), symbol table / enum cache / selection,
  the front half of `_parse` on a written file (piece 1: `extract_written`, `front_written`),
  typing of written columns (piece 2: `typeSearch_written`, `typing_written`), `render_shape`.
-/
import PydlVerif.Lemmas.YannyScan
import PydlVerif.Lemmas.YannyFront
import PydlVerif.Lemmas.YannyTyping
namespace PydlVerif.YannyRT
open PydlVerif.Yanny

variable {F : Type}

/-! ### ASCII character facts by enumeration -/

theorem ascii_all (P : Char → Bool) (h : ∀ n : Fin 128, P (Char.ofNat n.val) = true) (c : Char)
    (hc : c.toNat < 128) : P c = true := by
  have := h ⟨c.toNat, hc⟩
  simpa [Char.ofNat_toNat] using this

theorem upper_char_props (c : Char) (hc : c.toNat < 128) (hw : isWordCh c = true) :
    isWordCh c.toUpper = true ∧ c.toUpper.toNat < 128 ∧ c.toUpper.toUpper = c.toUpper := by
  have := ascii_all (fun c => !isWordCh c || (isWordCh c.toUpper && decide (c.toUpper.toNat < 128) &&
    c.toUpper.toUpper == c.toUpper)) (by decide) c hc
  simp [hw] at this
  exact ⟨this.1.1, this.1.2, this.2⟩

theorem word_char_props (c : Char) (hc : c.toNat < 128) (hw : isWordCh c = true) :
    isSpace c = false ∧ c ≠ '"' ∧ c ≠ '#' ∧ c ≠ '\n' ∧ c ≠ '{' ∧ c ≠ '\\' := by
  have := ascii_all (fun c => !isWordCh c || (!isSpace c && c != '"' && c != '#' && c != '\n' &&
    c != '{' && c != '\\')) (by decide) c hc
  simp [hw] at this
  simp [this]

theorem wordOK_props (s : Str) (h : wordOK s = true) :
    s ≠ [] ∧ ∀ c ∈ s, isWordCh c = true ∧ c.toNat < 128 := by
  simp only [wordOK, Bool.and_eq_true, Bool.not_eq_true', List.all_eq_true, decide_eq_true_eq] at h
  refine ⟨?_, fun c hc => ⟨h.1.2 c hc, h.2 c hc⟩⟩
  intro e; subst e; simp at h

theorem upper_wordOK (s : Str) (h : wordOK s = true) :
    wordOK (upper s) = true ∧ upper (upper s) = upper s := by
  obtain ⟨hne, hch⟩ := wordOK_props s h
  refine ⟨?_, ?_⟩
  · simp only [wordOK, Bool.and_eq_true, Bool.not_eq_true', List.all_eq_true, decide_eq_true_eq]
    refine ⟨⟨?_, ?_⟩, ?_⟩
    · cases s with
      | nil => exact absurd rfl hne
      | cons a t => rfl
    · intro c hc
      obtain ⟨a, ha, rfl⟩ := List.mem_map.mp hc
      exact (upper_char_props a (hch a ha).2 (hch a ha).1).1
    · intro c hc
      obtain ⟨a, ha, rfl⟩ := List.mem_map.mp hc
      exact (upper_char_props a (hch a ha).2 (hch a ha).1).2.1
  · unfold upper
    rw [List.map_map]
    apply List.map_congr_left
    intro a ha
    exact (upper_char_props a (hch a ha).2 (hch a ha).1).2.2

/-! ### `nodup` -/

theorem nodup_cons (a : Str) (t : List Str) (h : nodup (a :: t) = true) : a ∉ t ∧ nodup t = true := by
  simp only [nodup, Bool.and_eq_true, Bool.not_eq_true'] at h
  refine ⟨?_, h.2⟩
  intro hm
  have := h.1
  simp [hm] at this

theorem nodup_Nodup (l : List Str) (h : nodup l = true) : l.Nodup := by
  induction l with
  | nil => exact List.nodup_nil
  | cons a t ih =>
    obtain ⟨h1, h2⟩ := nodup_cons a t h
    exact List.nodup_cons.mpr ⟨h1, ih h2⟩

/-! ### `str.split('\n')` and the line loop on concatenations -/

theorem splitNlAux_cut (a c cur : Str) :
    splitNlAux (a ++ '\n' :: c) cur = splitNlAux a cur ++ splitNlAux c [] := by
  induction a generalizing cur with
  | nil => simp [splitNlAux]
  | cons x a ih =>
    by_cases hx : x = '\n'
    · subst hx
      simp [splitNlAux, ih]
    · simp [splitNlAux, hx, ih]

theorem splitNl_cut (a c : Str) : splitNl (a ++ '\n' :: c) = splitNl a ++ splitNl c :=
  splitNlAux_cut a c []

theorem splitNlAux_one (l cur : Str) (h : '\n' ∉ l) : splitNlAux l cur = [cur.reverse ++ l] := by
  induction l generalizing cur with
  | nil => simp [splitNlAux]
  | cons x l ih =>
    have hx : x ≠ '\n' := fun e => h (by simp [e])
    have hl : '\n' ∉ l := fun m => h (by simp [m])
    simp [splitNlAux, hx, ih _ hl]

theorem splitNl_one (l : Str) (h : '\n' ∉ l) : splitNl l = [l] := by
  simpa [splitNl] using splitNlAux_one l [] h

theorem splitNl_nls (x : Str) (hx : ∀ c ∈ x, c = '\n') : ∀ l ∈ splitNl x, l = [] := by
  induction x with
  | nil => simp [splitNl, splitNlAux]
  | cons a t ih =>
    have ha : a = '\n' := hx a (by simp)
    subst ha
    have e : splitNl ('\n' :: t) = splitNl [] ++ splitNl t := splitNl_cut [] t
    rw [e]
    intro l hl
    rcases List.mem_append.mp hl with h | h
    · simpa [splitNl, splitNlAux] using h
    · exact ih (fun c hc => hx c (by simp [hc])) l h

theorem lineLoop_cat (io : FloatIO F) (specs : List (Str × Except String (List ColSpec)))
    (st : LoopSt F) (l1 l2 : List Str) :
    lineLoop io specs st (l1 ++ l2) =
      match lineLoop io specs st l1 with
      | .error e => .error e
      | .ok st' => lineLoop io specs st' l2 := by
  induction l1 generalizing st with
  | nil => rfl
  | cons l ls ih =>
    simp only [List.cons_append, lineLoop]
    cases lineStep io specs st l with
    | error e => rfl
    | ok st' => exact ih st'

theorem lineLoop_skip (io : FloatIO F) (specs : List (Str × Except String (List ColSpec)))
    (st : LoopSt F) (ls : List Str) (h : ∀ l ∈ ls, skipLine l = true) :
    lineLoop io specs st ls = .ok st := by
  induction ls with
  | nil => rfl
  | cons l ls ih =>
    have hl : lineStep io specs st l = .ok st := by simp [lineStep, h l (by simp)]
    simp only [lineLoop, hl]
    exact ih (fun x hx => h x (by simp [hx]))

/-- `Seg st text st'`: the loop run over a text that starts with `text` (whole lines, each with its
newline) continues after it from `st'` -/
def Seg (io : FloatIO F) (specs : List (Str × Except String (List ColSpec)))
    (st : LoopSt F) (text : Str) (st' : LoopSt F) : Prop :=
  ∀ rest, lineLoop io specs st (splitNl (text ++ rest)) = lineLoop io specs st' (splitNl rest)

theorem Seg.refl (io : FloatIO F) (specs) (st : LoopSt F) : Seg io specs st [] st := fun _ => rfl

theorem Seg.trans {io : FloatIO F} {specs} {a b c : LoopSt F} {x y : Str}
    (h1 : Seg io specs a x b) (h2 : Seg io specs b y c) : Seg io specs a (x ++ y) c := by
  intro rest
  rw [List.append_assoc, h1, h2]

theorem Seg.line (io : FloatIO F) (specs) (st st' : LoopSt F) (l : Str) (hn : '\n' ∉ l)
    (hs : lineStep io specs st l = .ok st') : Seg io specs st (l ++ ['\n']) st' := by
  intro rest
  rw [show l ++ ['\n'] ++ rest = l ++ '\n' :: rest by simp, splitNl_cut, splitNl_one l hn]
  simp only [List.cons_append, List.nil_append, lineLoop, hs]

/-- a block of skipped lines followed by a newline -/
theorem Seg.skip (io : FloatIO F) (specs) (st : LoopSt F) (x : Str)
    (h : ∀ l ∈ splitNl x, skipLine l = true) : Seg io specs st (x ++ ['\n']) st := by
  intro rest
  rw [show x ++ ['\n'] ++ rest = x ++ '\n' :: rest by simp, splitNl_cut, lineLoop_cat,
    lineLoop_skip io specs st _ h]

/-! ### header pairs -/

theorem setPair_new (ps : List (Str × Str)) (k v : Str) (h : ∀ p ∈ ps, p.1 ≠ k) :
    setPair ps k v = ps ++ [(k, v)] := by
  unfold setPair
  have : ps.any (fun p => p.1 == k) = false := by
    apply List.any_eq_false.mpr
    intro p hp
    simpa using h p hp
  simp [this]

/-- what `lineStep_pair` and the line splitting need of a header pair -/
def PairLineOK (specs : List (Str × Except String (List ColSpec))) (kv : Str × Str) : Prop :=
  kv.1 ≠ [] ∧ (∀ c ∈ kv.1, isSpace c = false ∧ c ≠ '#' ∧ c ≠ '\n') ∧ kv.1.head? ≠ some '"' ∧
  kv.1.head? ≠ some '{' ∧ '#' ∉ kv.2 ∧ '\n' ∉ kv.2 ∧ dbFree (strip (kv.1 ++ ' ' :: kv.2)) = true ∧
  lookupSpec specs (upper kv.1) = none

/-! ### data lines -/

theorem addRow_mid (A B : List (Str × List (List (Cell F)))) (T : Str) (x : List (List (Cell F)))
    (r : List (Cell F)) (hA : ∀ e ∈ A, e.1 ≠ T) (hB : ∀ e ∈ B, e.1 ≠ T) :
    addRow (A ++ (T, x) :: B) T r = A ++ (T, x ++ [r]) :: B := by
  have key : ∀ L : List (Str × List (List (Cell F))), (∀ e ∈ L, e.1 ≠ T) → addRow L T r = L := by
    intro L hL
    unfold addRow
    conv => rhs; rw [← List.map_id L]
    apply List.map_congr_left
    intro e he
    have : (e.1 == T) = false := by simpa using hL e he
    simp [this]
  have e1 : addRow (A ++ (T, x) :: B) T r = addRow A T r ++ addRow ((T, x) :: B) T r := by
    simp [addRow]
  rw [e1, key A hA]
  have e2 : addRow ((T, x) :: B) T r = (T, x ++ [r]) :: addRow B T r := by
    simp [addRow]
  rw [e2, key B hB]

/-! ### the whole text left for the line loop -/

theorem skipLine_nil : skipLine [] = true := rfl

theorem skipLine_hash (l : Str) : skipLine ('#' :: l) = true := by
  simp [skipLine, List.dropWhile, isSpace]

/-! ### record arrays: `finishTable` on in-domain rows -/

/-- the record-array column a document column reads back as -/
def rcolCanon (enums : List EnumDecl) (c : Col) : RCol :=
  ⟨c.name, (rtOfCol enums c).getD .i2, if c.alen > 0 then some c.alen else none⟩

theorem foldl_max_ge (l : List Nat) (a : Nat) : a ≤ l.foldl max a ∧ ∀ x ∈ l, x ≤ l.foldl max a := by
  induction l generalizing a with
  | nil => simp
  | cons b t ih =>
    have i := ih (max a b)
    refine ⟨by simp only [List.foldl]; omega, ?_⟩
    intro x hx
    simp only [List.foldl]
    rcases List.mem_cons.mp hx with rfl | hx
    · have := i.1; omega
    · exact i.2 x hx

theorem le_maxLen (ls : List Str) (s : Str) (h : s ∈ ls) : s.length ≤ maxLen ls :=
  (foldl_max_ge (ls.map List.length) 0).2 _ (List.mem_map.mpr ⟨s, h, rfl⟩)

theorem castSc_id (enums : List EnumDecl) (c : Col) (arr : Bool) (v : Sc F)
    (h : scOK c.ty ((enums.find? (fun e => e.col == c.name)).map (·.labels)) arr v = true) :
    castSc ((rtOfCol enums c).getD .i2) v = .ok v := by
  cases v with
  | int n =>
    simp only [scOK, Bool.or_eq_true, Bool.and_eq_true, beq_iff_eq] at h
    rcases h with (⟨ht, hr⟩ | ⟨ht, hr⟩) | ⟨ht, hr⟩ <;> simp [castSc, rtOfCol, ht, hr]
  | flt w x => rfl
  | str s =>
    simp only [scOK, Bool.and_eq_true] at h
    obtain ⟨⟨hlen, _⟩, hlab⟩ := h
    cases hty : c.ty <;> rw [hty] at hlen <;> simp at hlen
    all_goals
      cases hf : enums.find? (fun e => e.col == c.name) with
      | none =>
        simp only [castSc, rtOfCol, hty, hf, Option.getD_some]
        congr 2
        apply List.take_of_length_le
        omega
      | some e =>
        rw [hf] at hlab
        simp only [Option.map_some] at hlab
        have hm : s ∈ e.labels := by simpa using hlab
        simp only [castSc, rtOfCol, hty, hf, Option.getD_some]
        congr 2
        exact List.take_of_length_le (le_maxLen _ _ hm)

theorem castScs_id (enums : List EnumDecl) (c : Col) (vs : List (Sc F))
    (h : ∀ v ∈ vs, scOK c.ty ((enums.find? (fun e => e.col == c.name)).map (·.labels)) true v = true) :
    castScs ((rtOfCol enums c).getD .i2) vs = .ok vs := by
  induction vs with
  | nil => rfl
  | cons v t ih =>
    simp only [castScs, castSc_id enums c true v (h v (by simp)), ih (fun x hx => h x (by simp [hx]))]

theorem castCell_id (enums : List EnumDecl) (c : Col) (x : Cell F) (h : cellOK enums c x = true) :
    castCell (rcolCanon enums c) x = .ok x := by
  cases x with
  | one v =>
    simp only [cellOK, Bool.and_eq_true, beq_iff_eq] at h
    have h0 : ¬ c.alen > 0 := by omega
    simp only [castCell, rcolCanon, h0, if_false, castSc_id enums c false v h.2]
  | many vs =>
    simp only [cellOK, Bool.and_eq_true, decide_eq_true_eq, beq_iff_eq, List.all_eq_true] at h
    obtain ⟨⟨h0, hl⟩, hv⟩ := h
    simp only [castCell, rcolCanon, h0, if_true, hl, bne_self_eq_false, Bool.false_eq_true, if_false,
      castScs_id enums c vs hv]

theorem castRow_id (enums : List EnumDecl) (cols : List Col) (r : List (Cell F))
    (h : cellsOK enums cols r = true) : castRow (cols.map (rcolCanon enums)) r = .ok r := by
  induction cols generalizing r with
  | nil =>
    cases r with
    | nil => rfl
    | cons a t => simp [cellsOK] at h
  | cons c cs ih =>
    cases r with
    | nil => simp [cellsOK] at h
    | cons x xs =>
      simp only [cellsOK, Bool.and_eq_true] at h
      simp only [List.map, castRow, castCell_id enums c x h.1, ih xs h.2]

theorem castRows_id (enums : List EnumDecl) (cols : List Col) (rows : List (List (Cell F)))
    (h : ∀ r ∈ rows, cellsOK enums cols r = true) : castRows (cols.map (rcolCanon enums)) rows = .ok rows := by
  induction rows with
  | nil => rfl
  | cons r rs ih =>
    simp only [castRows, castRow_id enums cols r (h r (by simp)), ih (fun x hx => h x (by simp [hx]))]

theorem rcolsOf_canon (st : List Str) (cache : List (Str × List Str)) (T : Str) (enums : List EnumDecl)
    (rows : List (List (Cell F))) (cols : List Col) (j : Nat)
    (h : ∀ c ∈ cols, ∀ data : List (Cell F), rcolOf st cache T c.name data = .ok (rcolCanon enums c)) :
    rcolsOf st cache T rows j (cols.map (·.name)) = .ok (cols.map (rcolCanon enums)) := by
  induction cols generalizing j with
  | nil => rfl
  | cons c cs ih =>
    simp only [List.map, rcolsOf, h c (by simp), ih (j + 1) (fun x hx => h x (by simp [hx]))]

theorem cellsOK_ne_nil (enums : List EnumDecl) (cols : List Col) (r : List (Cell F))
    (hc : cols ≠ []) (h : cellsOK enums cols r = true) : r ≠ [] := by
  cases cols with
  | nil => exact absurd rfl hc
  | cons c cs =>
    cases r with
    | nil => simp [cellsOK] at h
    | cons x xs => simp

/-- piece (4): `finishTable` (`dtype()` + the column assignments) on the rows of a document table
returns them unchanged under the canonical column types -/
theorem finishTable_written (st : List Str) (cache : List (Str × List Str)) (T : Str)
    (enums : List EnumDecl) (cols : List Col) (rows : List (List (Cell F))) (hc : cols ≠ [])
    (hcol : ∀ c ∈ cols, ∀ data : List (Cell F), rcolOf st cache T c.name data = .ok (rcolCanon enums c))
    (hrows : ∀ r ∈ rows, cellsOK enums cols r = true) :
    finishTable st cache T (cols.map (·.name)) rows = .ok ⟨T, cols.map (rcolCanon enums), rows⟩ := by
  have hf : rows.filter (fun r => !r.isEmpty) = rows := by
    apply List.filter_eq_self.mpr
    intro r hr
    have := cellsOK_ne_nil enums cols r hc (hrows r hr)
    cases r with
    | nil => exact absurd rfl this
    | cons a t => rfl
  simp only [finishTable, hf, rcolsOf_canon st cache T enums rows cols 0 hcol, castRows_id enums cols rows hrows]

theorem find_by_key {α β : Type} (l : List α) (key : α → Str) (val : α → β)
    (hnd : nodup (l.map key) = true) (a : α) (ha : a ∈ l) :
    (l.map (fun x => (key x, val x))).find? (fun e => e.1 == key a) = some (key a, val a) := by
  induction l with
  | nil => cases ha
  | cons x t ih =>
    obtain ⟨n1, n2⟩ := nodup_cons _ _ hnd
    simp only [List.map, List.find?]
    rcases List.mem_cons.mp ha with rfl | ha'
    · simp
    · have hne : key x ≠ key a := by
        intro e
        exact n1 (e ▸ List.mem_map.mpr ⟨a, ha', rfl⟩)
      have : (key x == key a) = false := by simpa using hne
      simp only [this]
      exact ih n2 ha'

theorem finishTables_written (st : List Str) (cache : List (Str × List Str)) (enums : List EnumDecl)
    (all : List (TableD F)) (hnd : nodup (all.map (fun t => upper t.name)) = true)
    (ts : List (TableD F)) (hsub : ∀ t ∈ ts, t ∈ all)
    (hok : ∀ t ∈ ts, t.cols ≠ [] ∧
      (∀ c ∈ t.cols, ∀ data : List (Cell F), rcolOf st cache (upper t.name) c.name data = .ok (rcolCanon enums c)) ∧
      ∀ r ∈ t.rows, cellsOK enums t.cols r = true) :
    finishTables st cache (all.map (fun t => (upper t.name, t.rows)))
      (ts.map (fun t => (upper t.name, t.cols.map (·.name)))) =
      .ok (ts.map (fun t => ⟨upper t.name, t.cols.map (rcolCanon enums), t.rows⟩)) := by
  induction ts with
  | nil => rfl
  | cons t rest ih =>
    obtain ⟨c1, c2, c3⟩ := hok t (by simp)
    have hfind := find_by_key all (fun t => upper t.name) (fun t => t.rows) hnd t (hsub t (by simp))
    simp only [List.map, finishTables, hfind,
      finishTable_written st cache (upper t.name) enums t.cols t.rows c1 c2 c3,
      ih (fun u hu => hsub u (by simp [hu])) (fun u hu => hok u (by simp [hu]))]

/-! ### from the document domain to the hypotheses of the line lemmas -/

theorem dropWhile_cons_app {α} (p : α → Bool) (a b : List α) (x : α) (t : List α)
    (h : a.dropWhile p = x :: t) : (a ++ b).dropWhile p = x :: (t ++ b) := by
  rw [dropWhile_append_cases, h]; simp

theorem matchDB_app (s y : Str) (n : Nat) (h : matchDB s = some n) : (matchDB (s ++ y)).isSome = true := by
  unfold matchDB at h
  split at h
  · rename_i t
    split at h
    · rename_i t2 h2
      split at h
      · rename_i t4 h4
        split at h
        · rename_i t6 h6
          simp only [List.cons_append, matchDB, dropWhile_cons_app _ _ _ _ _ h2,
            dropWhile_cons_app _ _ _ _ _ h4, dropWhile_cons_app _ _ _ _ _ h6]
          rfl
        · cases h
      · cases h
    · cases h
  · cases h

theorem dbFree_prefix (x y : Str) (h : dbFree (x ++ y) = true) : dbFree x = true := by
  induction x with
  | nil => rfl
  | cons c t ih =>
    simp only [List.cons_append, dbFree, Bool.and_eq_true] at h ⊢
    refine ⟨?_, ih h.2⟩
    cases hm : matchDB (c :: t) with
    | none => rfl
    | some n =>
      have := matchDB_app (c :: t) y n hm
      rw [List.cons_append] at this
      have h1 := h.1
      cases hq : matchDB (c :: (t ++ y)) with
      | none => rw [hq] at this; cases this
      | some m => rw [hq] at h1; cases h1

theorem dbFree_suffix (p : Char → Bool) (l : Str) (h : dbFree l = true) : dbFree (l.dropWhile p) = true := by
  induction l with
  | nil => rfl
  | cons c t ih =>
    simp only [dbFree, Bool.and_eq_true] at h
    by_cases hc : p c = true
    · rw [List.dropWhile_cons_of_pos hc]; exact ih h.2
    · rw [List.dropWhile_cons_of_neg hc]
      simp only [dbFree, Bool.and_eq_true]; exact h

theorem rstrip_split (l : Str) : ∃ ws, l = rstrip l ++ ws := by
  refine ⟨(l.reverse.takeWhile isSpace).reverse, ?_⟩
  have := congrArg List.reverse (List.takeWhile_append_dropWhile (p := isSpace) (l := l.reverse))
  simp only [List.reverse_append, List.reverse_reverse] at this
  exact this.symm

theorem dbFree_strip (l : Str) (h : dbFree l = true) : dbFree (strip l) = true := by
  unfold strip
  obtain ⟨ws, hws⟩ := rstrip_split (lstrip l)
  apply dbFree_prefix _ ws
  rw [← hws]
  exact dbFree_suffix _ _ h

theorem key_char_props (c : Char) (h1 : 33 ≤ c.toNat) (h2 : c.toNat ≤ 126) : isSpace c = false ∧ c ≠ '\n' := by
  have := ascii_all (fun c => !(decide (33 ≤ c.toNat) && decide (c.toNat ≤ 126)) || (!isSpace c && c != '\n'))
    (by decide) c (by omega)
  simp [h1, h2] at this
  simp [this]

theorem not_contains_mem {s : Str} {c : Char} (h : (!s.contains c) = true) : c ∉ s := by
  intro hm
  simp [hm] at h

theorem lookupSpec_none (l : List (Str × Except String (List ColSpec))) (k : Str)
    (h : k ∉ l.map (·.1)) : lookupSpec l k = none := by
  unfold lookupSpec
  have : l.find? (fun e => e.1 == k) = none := by
    apply List.find?_eq_none.mpr
    intro e he hk
    exact h (List.mem_map.mpr ⟨e, he, by simpa using hk⟩)
  simp [this]

/-- a header pair of the document domain meets the hypotheses of `lineStep_pair` -/
theorem pairLineOK_of_pairOK (specs : List (Str × Except String (List ColSpec))) (tnames : List Str)
    (hs : ∀ k, k ∉ tnames → lookupSpec specs k = none) (kv : Str × Str) (h : pairOK tnames kv = true) :
    PairLineOK specs kv := by
  simp only [pairOK, Bool.and_eq_true, Bool.not_eq_true', List.all_eq_true, decide_eq_true_eq,
    bne_iff_ne, ne_eq] at h
  obtain ⟨⟨⟨⟨⟨⟨⟨hne, hk⟩, hq⟩, hb⟩, hv⟩, hh⟩, ⟨⟨hdb, _⟩, _⟩⟩, ht⟩ := h
  refine ⟨?_, ?_, hq, hb, ?_, ?_, dbFree_strip _ hdb, ?_⟩
  · intro e; rw [e] at hne; simp at hne
  · intro c hc
    have := hk c hc
    have kp := key_char_props c this.1.1 this.1.2
    exact ⟨kp.1, this.2, kp.2⟩
  · intro hm
    simp [hm] at hh
  · intro hm
    have := hv _ hm
    simp [cellChar] at this
  · apply hs
    intro hm
    simp [hm] at ht

/-- how the reader will treat the cells of a column -/
def specOfCol (c : Col) : ColSpec := ⟨convOfCol c, decide (c.alen > 0)⟩

theorem tokOK_of_strOK (s : Str) (h : strOK s = true) : tokOK s = true := by
  simp only [strOK, Bool.and_eq_true, List.all_eq_true] at h
  simp only [tokOK, Bool.and_eq_true]
  refine ⟨⟨h.1.2, h.2⟩, ?_⟩
  simp only [Bool.not_eq_true']
  apply Bool.eq_false_iff.mpr
  intro hc
  have hm : '\n' ∈ s := by simpa using hc
  have := h.1.1 _ hm
  simp [cellChar] at this

theorem scFits_of_scOK (c : Col) (labs : Option (List Str)) (arr : Bool) (v : Sc F)
    (h : scOK c.ty labs arr v = true) : scFits (convOfCol c) arr v = true := by
  cases v with
  | int n =>
    simp only [scOK, Bool.or_eq_true, Bool.and_eq_true, beq_iff_eq] at h
    rcases h with (⟨ht, _⟩ | ⟨ht, _⟩) | ⟨ht, _⟩ <;> simp [scFits, convOfCol, ht]
  | flt w x =>
    simp only [scOK, Bool.or_eq_true, Bool.and_eq_true, beq_iff_eq] at h
    rcases h with ⟨ht, hw⟩ | ⟨ht, hw⟩ <;> simp [scFits, convOfCol, ht, hw]
  | str s =>
    simp only [scOK, Bool.and_eq_true] at h
    obtain ⟨⟨hlen, hs⟩, _⟩ := h
    have hconv : convOfCol c = .str := by
      cases hty : c.ty <;> rw [hty] at hlen <;> simp at hlen <;> simp [convOfCol, hty]
    cases arr with
    | false =>
      simp only [Bool.false_eq_true, if_false] at hs
      simp [scFits, hconv, tokOK_of_strOK s hs]
    | true =>
      simp only [if_true, arrElemOK, Bool.and_eq_true] at hs
      have := not_contains_mem hs.2
      simp [scFits, hconv, tokOK_of_strOK s hs.1, this]

theorem rowFits_of_cellsOK (enums : List EnumDecl) (cols : List Col) (r : List (Cell F))
    (h : cellsOK enums cols r = true) : rowFits (cols.map specOfCol) r = true := by
  induction cols generalizing r with
  | nil =>
    cases r with
    | nil => rfl
    | cons a t => simp [cellsOK] at h
  | cons c cs ih =>
    cases r with
    | nil => simp [cellsOK] at h
    | cons x xs =>
      simp only [cellsOK, Bool.and_eq_true] at h
      simp only [List.map, rowFits, Bool.and_eq_true]
      refine ⟨?_, ih xs h.2⟩
      cases x with
      | one v =>
        have h1 := h.1
        simp only [cellOK, Bool.and_eq_true, beq_iff_eq] at h1
        have h0 : ¬ c.alen > 0 := by omega
        simp [cellFits, specOfCol, h0, scFits_of_scOK c _ false v h1.2]
      | many vs =>
        have h1 := h.1
        simp only [cellOK, Bool.and_eq_true, decide_eq_true_eq, beq_iff_eq, List.all_eq_true] at h1
        obtain ⟨⟨h0, hl⟩, hv⟩ := h1
        have hne : vs ≠ [] := by
          intro e; subst e; simp at hl; omega
        simp only [cellFits, specOfCol, h0, decide_true, Bool.true_and, Bool.and_eq_true,
          Bool.not_eq_true', List.all_eq_true]
        refine ⟨?_, fun v hvm => scFits_of_scOK c _ true v (hv v hvm)⟩
        cases vs with
        | nil => exact absurd rfl hne
        | cons a t => rfl

/-! ### symbol table, enum cache, selection -/

theorem symInsert_new (tabs : List (Str × List Str)) (name : Str) (cols : List Str)
    (h : ∀ e ∈ tabs, e.1 ≠ name) : symInsert tabs name cols = tabs ++ [(name, cols)] := by
  unfold symInsert
  have : tabs.any (fun t => t.1 == name) = false := by
    apply List.any_eq_false.mpr
    intro e he
    simpa using h e he
  simp [this]

theorem foldl_symInsert {α : Type} (l : List α) (key : α → Str) (val : α → List Str)
    (acc : List (Str × List Str)) (hnd : nodup (l.map key) = true)
    (hdis : ∀ e ∈ acc, ∀ a ∈ l, e.1 ≠ key a) :
    l.foldl (fun acc a => symInsert acc (key a) (val a)) acc = acc ++ l.map (fun a => (key a, val a)) := by
  induction l generalizing acc with
  | nil => simp
  | cons a t ih =>
    obtain ⟨n1, n2⟩ := nodup_cons _ _ hnd
    simp only [List.foldl, List.map]
    rw [symInsert_new acc (key a) (val a) (fun e he => hdis e he a (by simp))]
    rw [ih (acc ++ [(key a, val a)]) n2 (by
      intro e he b hb
      rcases List.mem_append.mp he with h | h
      · exact hdis e h b (by simp [hb])
      · simp only [List.mem_singleton] at h
        subst h
        intro e'
        exact n1 (List.mem_map.mpr ⟨b, hb, e'.symm⟩))]
    simp

theorem lookupLast_none (k : Str) (l : List (Str × List Str)) (h : ∀ e ∈ l, e.1 ≠ k) : lookupLast k l = none := by
  induction l with
  | nil => rfl
  | cons e t ih =>
    obtain ⟨a, v⟩ := e
    have hne : (a == k) = false := by simpa using h (a, v) (by simp)
    simp only [lookupLast, ih (fun x hx => h x (by simp [hx])), hne]
    rfl

theorem lookupLast_by_key {α : Type} (l : List α) (key : α → Str) (val : α → List Str)
    (hnd : nodup (l.map key) = true) (a : α) (ha : a ∈ l) :
    lookupLast (key a) (l.map (fun x => (key x, val x))) = some (val a) := by
  induction l with
  | nil => cases ha
  | cons x t ih =>
    obtain ⟨n1, n2⟩ := nodup_cons _ _ hnd
    simp only [List.map, lookupLast]
    rcases List.mem_cons.mp ha with rfl | ha'
    · have : lookupLast (key a) (t.map (fun x => (key x, val x))) = none := by
        apply lookupLast_none
        intro e he
        obtain ⟨y, hy, rfl⟩ := List.mem_map.mp he
        intro e'
        exact n1 (List.mem_map.mpr ⟨y, hy, e'⟩)
      simp [this]
    · simp [ih n2 ha']

theorem all_zip_map {α β : Type} (l : List α) (f : α → β) (P : α × β → Bool)
    (h : (l.zip (l.map f)).all P = true) : ∀ a ∈ l, P (a, f a) = true := by
  induction l with
  | nil => intro a ha; cases ha
  | cons x t ih =>
    simp only [List.map, List.zip_cons_cons, List.all_cons, Bool.and_eq_true] at h
    intro a ha
    rcases List.mem_cons.mp ha with rfl | ha'
    · exact h.1
    · exact ih h.2 a ha'

theorem stripPrefix_mono (p x y : Str) (r : Str) (h : stripPrefix p x = some r) :
    stripPrefix p (x ++ y) = some (r ++ y) := by
  induction p generalizing x with
  | nil => simp only [stripPrefix] at h ⊢; injection h with h; rw [h]
  | cons a ps ih =>
    cases x with
    | nil => simp [stripPrefix] at h
    | cons c cs =>
      simp only [stripPrefix, List.cons_append] at h ⊢
      split at h
      · rename_i hc; simp only [hc, if_true]; exact ih cs h
      · cases h

theorem hasSub_prefix (sub x y : Str) (h : hasSub sub (x ++ y) = false) : hasSub sub x = false := by
  induction x with
  | nil =>
    cases hs : sub with
    | nil =>
      subst hs
      cases y <;> simp [hasSub, findSub, stripPrefix] at h
    | cons a t => simp [hasSub, findSub]
  | cons c t ih =>
    simp only [hasSub, List.cons_append, findSub] at h ⊢
    cases hp : stripPrefix sub (c :: t) with
    | some r =>
      have := stripPrefix_mono sub (c :: t) y r hp
      rw [List.cons_append] at this
      simp [this] at h
    | none =>
      simp only [Option.isSome_none, Bool.false_eq_true, if_false, Option.isSome_map]
      cases hq : stripPrefix sub (c :: (t ++ y)) with
      | some r => simp [hq] at h
      | none =>
        simp only [hq, Option.isSome_none, Bool.false_eq_true, if_false, Option.isSome_map] at h
        exact ih h

theorem noTypedef_prefix (x y : Str) (h : noTypedef (x ++ y) = true) : noTypedef x = true := by
  simp only [noTypedef, Bool.not_eq_true'] at h ⊢
  exact hasSub_prefix _ x y h

theorem upper_ne_lower (x w : Str) (hx : wordOK x = true) (hw : upper w ≠ w) : upper x ≠ w := by
  intro e
  have := (upper_wordOK x hx).2
  rw [e] at this
  exact hw this

/-! ### front half of `_parse` on a text laid out like a written file -/

theorem tdFind_tail (kw Z : Str) (hZ : noMatchIn kw Z []) : tdFind kw 0 Z = [] := by
  have := tdFind_noMatch kw Z [] hZ
  simpa [tdFind] using this

theorem tdRemove_tail (kw Z : Str) (hZ : noMatchIn kw Z []) : tdRemove kw 0 Z = Z := by
  have := tdRemove_noMatch kw Z [] hZ
  simpa [tdRemove] using this

/-- piece (1b): typedef extraction on `A ++ enum blocks ++ struct blocks ++ Z`, where no typedef
match starts inside `A` or `Z`: exactly the blocks are found, in order, and exactly they are cut out -/
theorem extract_written (ebs sbs : List (Str × Str)) (he : ∀ b ∈ ebs, blockOK b.1 b.2)
    (hs : ∀ b ∈ sbs, blockOK b.1 b.2) (A Z : Str) (hA : ∀ kw B, noMatchIn kw A B)
    (hZ : ∀ kw, noMatchIn kw Z []) :
    let text := A ++ (defsBlock (blocksOf "enum".toList ebs) ++ (defsBlock (blocksOf "struct".toList sbs) ++ Z))
    tdFind "struct".toList 0 text = sbs.map (fun b => (⟨blockText "struct".toList b.1 b.2, b.1, b.2⟩ : TDef)) ∧
    tdFind "enum".toList 0 text = ebs.map (fun b => (⟨blockText "enum".toList b.1 b.2, b.1, b.2⟩ : TDef)) ∧
    tdRemove "enum".toList 0 (tdRemove "struct".toList 0 text) =
      A ++ ((defsBlock (ebs.map (fun _ => ([] : Str))) ++ defsBlock (sbs.map (fun _ => ([] : Str)))) ++ Z) := by
  intro text
  have ks : isKw "struct".toList := Or.inl rfl
  have ke : isKw "enum".toList := Or.inr rfl
  have hne : "enum".toList ≠ "struct".toList := by decide
  have hne' : "struct".toList ≠ "enum".toList := by decide
  refine ⟨?_, ?_, ?_⟩
  · show tdFind _ 0 (A ++ _) = _
    rw [tdFind_noMatch _ A _ (hA _ _), tdFind_defs_other _ _ ebs _ ke ks hne he,
      tdFind_defs_same _ sbs _ ks hs, tdFind_tail _ Z (hZ _)]
    simp
  · show tdFind _ 0 (A ++ _) = _
    rw [tdFind_noMatch _ A _ (hA _ _), tdFind_defs_same _ ebs _ ke he,
      tdFind_defs_other _ _ sbs _ ks ke hne' hs, tdFind_tail _ Z (hZ _)]
    simp
  · show tdRemove _ 0 (tdRemove _ 0 (A ++ _)) = _
    rw [tdRemove_noMatch _ A _ (hA _ _), tdRemove_defs_other _ _ ebs _ ke ks hne he,
      tdRemove_defs_same _ sbs _ ks hs, tdRemove_tail _ Z (hZ _)]
    rw [tdRemove_noMatch _ A _ (hA _ _), tdRemove_defs_same _ ebs _ ke he,
      tdRemove_nls _ _ _ (defsBlock_blank_nls sbs), tdRemove_tail _ Z (hZ _)]
    simp

/-! the pieces of a written file -/

/-- the `#%yanny` line, the comment block and the header pairs -/
def headText (d : Doc F) : Str :=
  "#%yanny\n".toList ++ d.comments ++ (d.hdr.map (fun kv => kv.1 ++ ' ' :: kv.2 ++ ['\n'])).flatten

/-- the empty line after the definitions and the data lines -/
def dataText (io : FloatIO F) (d : Doc F) : Str := '\n' :: (d.tables.map (rowLines io)).flatten

theorem rowLines_lines (io : FloatIO F) (t : TableD F) :
    rowLines io t = ((t.rows.map (fmtRow io (upper t.name))).map (fun l => l ++ ['\n'])).flatten := by
  simp [rowLines, List.map_map, Function.comp_def]

theorem hdr_lines (hdr : List (Str × Str)) :
    (hdr.map (fun kv => kv.1 ++ ' ' :: kv.2 ++ ['\n'])).flatten =
      ((hdr.map (fun kv => kv.1 ++ ' ' :: kv.2)).map (fun l => l ++ ['\n'])).flatten := by
  simp [List.map_map, Function.comp_def]

/-- what the front half needs of a line: no `typedef`, no newline, no continuation mark -/
def LineOK (l : Str) : Prop := noTypedef l = true ∧ '\n' ∉ l ∧ noCont l = true

theorem pair_lineOK (specs : List (Str × Except String (List ColSpec))) (tnames : List Str) (kv : Str × Str)
    (h : pairOK tnames kv = true) (h' : PairLineOK specs kv) : LineOK (kv.1 ++ ' ' :: kv.2) := by
  simp only [pairOK, Bool.and_eq_true, Bool.not_eq_true'] at h
  obtain ⟨⟨_, ⟨⟨_, hnt⟩, hbs⟩⟩, _⟩ := h
  obtain ⟨_, a2, _, _, _, a6, _, _⟩ := h'
  refine ⟨hnt, ?_, ?_⟩
  · intro hm
    simp only [List.mem_append, List.mem_cons] at hm
    rcases hm with h | h | h
    · exact (a2 _ h).2.2 rfl
    · exact absurd h (by decide)
    · exact a6 h
  · apply noCont_of_rstrip
    intro e
    simp [endsBackslash, e] at hbs

theorem lines_noMatch (kw : Str) (ls : List Str) (B : Str) (h : ∀ l ∈ ls, LineOK l) :
    noMatchIn kw (ls.map (fun l => l ++ ['\n'])).flatten B :=
  noMatchIn_lines kw ls B (fun l hl => (h l hl).1)

theorem lines_contFree (ls : List Str) (rest : Str) (h : ∀ l ∈ ls, LineOK l) (hr : contFree rest = true) :
    contFree ((ls.map (fun l => l ++ ['\n'])).flatten ++ rest) = true :=
  contFree_lines ls rest (fun l hl => ⟨(h l hl).2.1, (h l hl).2.2⟩) hr

theorem tables_noMatch (io : FloatIO F) (kw : Str) (ts : List (TableD F)) (B : Str)
    (h : ∀ t ∈ ts, ∀ r ∈ t.rows, LineOK (fmtRow io (upper t.name) r)) :
    noMatchIn kw (ts.map (rowLines io)).flatten B := by
  induction ts with
  | nil => exact noMatchIn_nil _ _
  | cons t rest ih =>
    simp only [List.map, List.flatten_cons]
    apply noMatchIn_append
    · rw [rowLines_lines]
      apply lines_noMatch
      intro l hl
      obtain ⟨r, hr, rfl⟩ := List.mem_map.mp hl
      exact h t (by simp) r hr
    · exact ih (fun u hu => h u (by simp [hu]))

theorem tables_contFree (io : FloatIO F) (ts : List (TableD F))
    (h : ∀ t ∈ ts, ∀ r ∈ t.rows, LineOK (fmtRow io (upper t.name) r)) :
    contFree (ts.map (rowLines io)).flatten = true := by
  induction ts with
  | nil => rfl
  | cons t rest ih =>
    simp only [List.map, List.flatten_cons]
    rw [rowLines_lines]
    apply lines_contFree
    · intro l hl
      obtain ⟨r, hr, rfl⟩ := List.mem_map.mp hl
      exact h t (by simp) r hr
    · exact ih (fun u hu => h u (by simp [hu]))

theorem comments_split (c : Str) (hc : commentsOK c = true) :
    c = [] ∨ ∃ c', c = c' ++ ['\n'] ∧ noTypedef c' = true ∧ '\\' ∉ c := by
  simp only [commentsOK, Bool.and_eq_true, Bool.or_eq_true, Bool.not_eq_true'] at hc
  obtain ⟨⟨⟨⟨hend, _⟩, hbs⟩, _⟩, hnt⟩ := hc
  rcases hend with he | he
  · exact Or.inl (List.isEmpty_iff.mp he)
  · obtain ⟨c', hc'⟩ : ∃ c', c = c' ++ ['\n'] := List.getLast?_eq_some_iff.mp (by simpa using he)
    refine Or.inr ⟨c', hc', ?_, ?_⟩
    · apply noTypedef_prefix c' ['\n']
      rw [← hc']
      simpa [noTypedef] using hnt
    · intro hm
      simp [hm] at hbs

theorem head_noMatch (d : Doc F) (hc : commentsOK d.comments = true)
    (hp : ∀ kv ∈ d.hdr, LineOK (kv.1 ++ ' ' :: kv.2)) (kw B : Str) : noMatchIn kw (headText d) B := by
  unfold headText
  rw [hdr_lines, List.append_assoc]
  apply noMatchIn_append
  · exact noMatchIn_line kw "#%yanny".toList _ (by decide)
  · apply noMatchIn_append
    · rcases comments_split _ hc with h | ⟨c', h, hnt, _⟩
      · rw [h]; exact noMatchIn_nil _ _
      · rw [h]; exact noMatchIn_line kw c' _ hnt
    · apply lines_noMatch
      intro l hl
      obtain ⟨kv, hkv, rfl⟩ := List.mem_map.mp hl
      exact hp kv hkv

theorem head_contFree (d : Doc F) (hc : commentsOK d.comments = true)
    (hp : ∀ kv ∈ d.hdr, LineOK (kv.1 ++ ' ' :: kv.2)) (rest : Str) (hr : contFree rest = true) :
    contFree (headText d ++ rest) = true := by
  unfold headText
  rw [hdr_lines, List.append_assoc, List.append_assoc]
  apply contFree_nobs _ _ (by decide)
  apply contFree_nobs
  · rcases comments_split _ hc with h | ⟨c', _, _, hbs⟩
    · rw [h]; simp
    · exact hbs
  · apply lines_contFree _ _ _ hr
    intro l hl
    obtain ⟨kv, hkv, rfl⟩ := List.mem_map.mp hl
    exact hp kv hkv

theorem mem_defsBlock (texts : List Str) (c : Char) (h : c ∈ defsBlock texts) :
    c = '\n' ∨ ∃ t ∈ texts, c ∈ t := by
  unfold defsBlock at h
  split at h
  · cases h
  · simp only [List.mem_cons, List.mem_append, List.mem_nil_iff, or_false] at h
    rcases h with h | h | h
    · exact Or.inl h
    · rcases mem_joinWith _ _ _ h with h | h
      · simp only [List.mem_cons, List.mem_nil_iff, or_false, or_self] at h
        exact Or.inl h
      · exact Or.inr h
    · exact Or.inl h

theorem defs_nobs (texts : List Str) (h : ∀ t ∈ texts, '\\' ∉ t) : '\\' ∉ defsBlock texts := by
  intro hm
  rcases mem_defsBlock _ _ hm with h' | ⟨t, ht, hc⟩
  · exact absurd h' (by decide)
  · exact h t ht hc

/-- piece (1): the front half of `_parse` on a text laid out like a written file - continuation
joining changes nothing, the typedef blocks are found in order and cut out, the symbol table lists
each struct with the columns of its body -/
theorem front_written (io : FloatIO F) (d : Doc F) (ebs sbs : List (Str × Str))
    (he : ∀ b ∈ ebs, blockOK b.1 b.2) (hs : ∀ b ∈ sbs, blockOK b.1 b.2)
    (hbe : ∀ b ∈ ebs, '\\' ∉ blockText "enum".toList b.1 b.2)
    (hbs : ∀ b ∈ sbs, '\\' ∉ blockText "struct".toList b.1 b.2)
    (hnd : nodup (sbs.map (fun b => upper b.2)) = true)
    (hc : commentsOK d.comments = true) (hp : ∀ kv ∈ d.hdr, LineOK (kv.1 ++ ' ' :: kv.2))
    (hr : ∀ t ∈ d.tables, ∀ r ∈ t.rows, LineOK (fmtRow io (upper t.name) r)) :
    front (headText d ++ (defsBlock (blocksOf "enum".toList ebs) ++
        (defsBlock (blocksOf "struct".toList sbs) ++ dataText io d))) =
      ⟨sbs.map (fun b => ⟨blockText "struct".toList b.1 b.2, b.1, b.2⟩),
       ebs.map (fun b => ⟨blockText "enum".toList b.1 b.2, b.1, b.2⟩),
       sbs.map (fun b => (upper b.2, columnsOf b.1)),
       headText d ++ ((defsBlock (ebs.map (fun _ => ([] : Str))) ++ defsBlock (sbs.map (fun _ => ([] : Str)))) ++
         dataText io d)⟩ := by
  have hZc : contFree (dataText io d) = true :=
    contFree_line [] _ (by simp) rfl (tables_contFree io d.tables hr)
  have hcf : contFree (headText d ++ (defsBlock (blocksOf "enum".toList ebs) ++
      (defsBlock (blocksOf "struct".toList sbs) ++ dataText io d))) = true := by
    apply head_contFree d hc hp
    apply contFree_nobs
    · apply defs_nobs
      intro t ht
      obtain ⟨b, hb, rfl⟩ := List.mem_map.mp ht
      exact hbe b hb
    · apply contFree_nobs
      · apply defs_nobs
        intro t ht
        obtain ⟨b, hb, rfl⟩ := List.mem_map.mp ht
        exact hbs b hb
      · exact hZc
  have hZ : ∀ kw, noMatchIn kw (dataText io d) [] := by
    intro kw
    exact noMatchIn_append kw ['\n'] _ [] (noMatchIn_nl kw _) (tables_noMatch io kw d.tables [] hr)
  obtain ⟨e1, e2, e3⟩ := extract_written ebs sbs he hs (headText d) (dataText io d)
    (fun kw B => head_noMatch d hc hp kw B) hZ
  unfold front
  simp only [joinCont_id _ hcf, e1, e2, e3, List.foldl_map]
  have := foldl_symInsert sbs (fun b => upper b.2) (fun b => columnsOf b.1) [] hnd
    (by intro e he'; cases he')
  simp only [List.nil_append] at this
  rw [this]

/-! no backslash in a written definition -/

theorem wordCh_ne_bs (c : Char) (h : isWordCh c = true) : c ≠ '\\' := by
  intro e; subst e; exact absurd h (by decide)

theorem block_nobs (K body name : Str) (hK : isKw K) (hb : '\\' ∉ body) (hn : '\\' ∉ name) :
    '\\' ∉ blockText K body name := by
  intro h
  unfold blockText at h
  simp only [List.mem_append, List.mem_cons, List.mem_nil_iff, or_false] at h
  rcases h with (((((h | h) | h) | h) | h) | h) | h
  · exact absurd h (by decide)
  · rcases hK with rfl | rfl <;> exact absurd h (by decide)
  · exact absurd h (by decide)
  · exact hb h
  · exact absurd h (by decide)
  · exact hn h
  · exact absurd h (by decide)

theorem structBody_nobs (ms : List (Str × Str × Str)) (hms : ∀ m ∈ ms, memOK m) : '\\' ∉ structBody ms := by
  intro h
  unfold structBody at h
  simp only [List.mem_append, List.mem_flatten, List.mem_map, List.mem_cons, List.mem_nil_iff, or_false] at h
  rcases h with ⟨l, ⟨m, hm, rfl⟩, hc⟩ | h
  · obtain ⟨⟨_, h1⟩, ⟨_, h2⟩, ⟨_, h3⟩⟩ := hms m hm
    unfold memberLine at hc
    simp only [List.mem_append, List.mem_cons, List.mem_nil_iff, or_false] at hc
    rcases hc with (((hc | hc) | hc | hc) | hc) | hc
    · exact absurd hc (by decide)
    · exact wordCh_ne_bs _ (h1 _ hc) rfl
    · exact absurd hc (by decide)
    · exact wordCh_ne_bs _ (h2 _ hc) rfl
    · rcases h3 _ hc with e | e | e <;> exact absurd e (by decide)
    · exact absurd hc (by decide)
  · exact absurd h (by decide)

theorem enumBody_nobs (labels : List Str) (hl : ∀ l ∈ labels, wordOK l = true) : '\\' ∉ enumBody labels := by
  intro h
  unfold enumBody at h
  simp only [List.mem_cons, List.mem_append, List.mem_nil_iff, or_false] at h
  rcases h with h | h | h
  · exact absurd h (by decide)
  · rcases mem_joinWith _ _ _ h with h | ⟨a, ha, hc⟩
    · exact absurd h (by decide)
    · obtain ⟨l, hl', rfl⟩ := List.mem_map.mp ha
      simp only [List.mem_append] at hc
      rcases hc with hc | hc
      · exact absurd hc (by decide)
      · exact wordCh_ne_bs _ ((wordOK_props l (hl l hl')).2 _ hc).1 rfl
  · exact absurd h (by decide)

/-! ### typing of the written columns (piece 2, assembled) -/

theorem colSpecs_of_each (st : List Str) (T : Str) (cols : List Col)
    (h : ∀ c ∈ cols, colSpec st T c.name = .ok (specOfCol c)) :
    colSpecs st T (cols.map (·.name)) = .ok (cols.map specOfCol) := by
  induction cols with
  | nil => rfl
  | cons c cs ih =>
    simp only [List.map, colSpecs, h c (by simp), ih (fun x hx => h x (by simp [hx]))]

/-- the facts about one table of an in-domain document -/
theorem tableOK_props (io : FloatIO F) (enums : List EnumDecl) (t : TableD F) (h : tableOK io enums t = true) :
    wordOK t.name = true ∧ t.cols ≠ [] ∧ (∀ c ∈ t.cols, colOK c = true) ∧
    nodup (t.cols.map (·.name)) = true ∧ ∀ r ∈ t.rows, rowOK io enums t.name t.cols r = true := by
  simp only [tableOK, Bool.and_eq_true, List.all_eq_true, Bool.not_eq_true'] at h
  obtain ⟨⟨⟨⟨hw, hne⟩, hc⟩, hn⟩, hr⟩ := h
  refine ⟨hw, ?_, hc, hn, hr⟩
  intro e; rw [e] at hne; simp at hne

theorem colOK_supported (c : Col) (h : colOK c = true) : supported c.ty = true := by
  simp only [colOK, Bool.and_eq_true] at h
  exact h.2

/-- piece (2): in a written struct text the reader finds, for every column of the table, the type
word and array suffix that were written -/
theorem typeSearch_written (enums : List EnumDecl) (he : ∀ e ∈ enums, enumOK e = true) (name : Str)
    (cols : List Col) (hc : ∀ c ∈ cols, colOK c = true) (hn : nodup (cols.map (·.name)) = true)
    (c : Col) (hm : c ∈ cols) :
    typeSearch c.name (structText enums name cols) = some (tyWord enums c, arrSuffix enums c) := by
  have := typeSearch_struct (cols.map (member enums)) (upper name)
    (by
      intro m hm'
      obtain ⟨x, hx, rfl⟩ := List.mem_map.mp hm'
      exact member_ok enums x (hc x hx) he)
    (by
      rw [List.map_map]
      exact nodup_Nodup _ hn)
    (member enums c) (List.mem_map.mpr ⟨c, hm, rfl⟩)
  exact this

/-! ### the whole-file theorem -/

theorem enumOK_props (e : EnumDecl) (h : enumOK e = true) :
    wordOK e.tyName = true ∧ e.labels ≠ [] ∧ ∀ l ∈ e.labels, wordOK l = true := by
  simp only [enumOK, Bool.and_eq_true, List.all_eq_true, Bool.not_eq_true'] at h
  obtain ⟨⟨⟨_, hw⟩, hne⟩, hl⟩ := h
  refine ⟨hw, ?_, hl⟩
  intro e'; rw [e'] at hne; simp at hne

/-- the enum blocks `renderFile` writes: none when there is no table -/
def enumBlocks (d : Doc F) : List (Str × Str) :=
  if d.tables.isEmpty then [] else d.enums.map (fun e => (enumBody e.labels, upper e.tyName))

/-- the struct blocks `renderFile` writes -/
def structBlocks (d : Doc F) : List (Str × Str) :=
  d.tables.map (fun t => (structBody (t.cols.map (member d.enums)), upper t.name))

/-- the struct texts of a document (`_symbols['struct']` after reading) -/
def structsOf (d : Doc F) : List Str := d.tables.map (fun t => structText d.enums t.name t.cols)

theorem blocksOf_struct (d : Doc F) : blocksOf "struct".toList (structBlocks d) = structsOf d := by
  unfold blocksOf structBlocks structsOf
  rw [List.map_map]
  apply List.map_congr_left
  intro t _
  simp only [structText, Function.comp]

/-- the text `renderFile` writes, in the pieces the front half works on -/
theorem render_shape (io : FloatIO F) (d : Doc F) (he : ∀ e ∈ d.enums, enumOK e = true)
    (hsup : ∀ t ∈ d.tables, ∀ c ∈ t.cols, supported c.ty = true) :
    renderFile io d = .ok (headText d ++ (defsBlock (blocksOf "enum".toList (enumBlocks d)) ++
      (defsBlock (blocksOf "struct".toList (structBlocks d)) ++ dataText io d))) := by
  have hst := structTexts_shape d.enums d.tables hsup
  have hen : (if d.tables.isEmpty then [] else d.enums.map enumText) = blocksOf "enum".toList (enumBlocks d) := by
    unfold enumBlocks blocksOf
    by_cases h : d.tables.isEmpty = true
    · simp only [h, if_true, List.map_nil]
    · simp only [h, Bool.false_eq_true, if_false]
      rw [List.map_map]
      apply List.map_congr_left
      intro e hm
      rw [enumText_shape e (he e hm)]
      simp only [enumText', Function.comp]
  unfold renderFile headText dataText
  rw [blocksOf_struct]
  simp only [hst]
  rw [hen]
  generalize "#%yanny\n".toList = h0
  generalize blocksOf "enum".toList (enumBlocks d) = E
  simp only [structsOf, List.append_assoc, List.cons_append, List.nil_append]

theorem select_written (d : Doc F) (hsup : ∀ t ∈ d.tables, ∀ c ∈ t.cols, supported c.ty = true)
    (hsel : selectOK d = true) :
    ∀ t ∈ d.tables, selectDef (structsOf d) (upper t.name) = some (structText d.enums t.name t.cols) := by
  have hst := structTexts_shape d.enums d.tables hsup
  simp only [selectOK, hst] at hsel
  intro t hm
  have := all_zip_map d.tables (fun t => structText d.enums t.name t.cols) _ hsel t hm
  simpa [structsOf] using this

/-- piece (2), per table: column specs and record-array columns computed from the written struct text -/
theorem typing_written (io : FloatIO F) (d : Doc F) (he : ∀ e ∈ d.enums, enumOK e = true)
    (cache : List (Str × List Str))
    (hcache : ∀ e ∈ d.enums, lookupLast (upper e.tyName) cache = some e.labels)
    (hnum : ∀ w ∈ ["short".toList, "int".toList, "long".toList, "float".toList, "double".toList],
      lookupLast w cache = none)
    (t : TableD F) (ht : tableOK io d.enums t = true)
    (hsel : selectDef (structsOf d) (upper t.name) = some (structText d.enums t.name t.cols)) :
    colSpecs (structsOf d) (upper t.name) (t.cols.map (·.name)) = .ok (t.cols.map specOfCol) ∧
    ∀ c ∈ t.cols, ∀ data : List (Cell F),
      rcolOf (structsOf d) cache (upper t.name) c.name data = .ok (rcolCanon d.enums c) := by
  obtain ⟨_, _, hcol, hnd, _⟩ := tableOK_props io d.enums t ht
  refine ⟨?_, ?_⟩
  · apply colSpecs_of_each
    intro c hc
    exact colSpec_of_search _ _ _ d.enums c hsel (typeSearch_written d.enums he t.name t.cols hcol hnd c hc)
      (hcol c hc) he
  · intro c hc data
    exact rcolOf_of_search _ cache _ _ d.enums c data hsel
      (typeSearch_written d.enums he t.name t.cols hcol hnd c hc) (hcol c hc) he
      (fun e hf => hcache e (List.mem_of_find?_eq_some hf)) hnum

/-- the `TDef`s the reader extracts for a list of blocks -/
def tdefsOf (K : Str) (bs : List (Str × Str)) : List TDef :=
  bs.map (fun b => ⟨blockText K b.1 b.2, b.1, b.2⟩)

theorem texts_written (d : Doc F) : (tdefsOf "struct".toList (structBlocks d)).map (·.text) = structsOf d := by
  unfold tdefsOf
  rw [List.map_map]
  exact blocksOf_struct d

theorem symtab_written (io : FloatIO F) (d : Doc F) (he : ∀ e ∈ d.enums, enumOK e = true)
    (ht : ∀ t ∈ d.tables, tableOK io d.enums t = true) :
    (structBlocks d).map (fun b => (upper b.2, columnsOf b.1)) =
      d.tables.map (fun t => (upper t.name, t.cols.map (·.name))) := by
  unfold structBlocks
  rw [List.map_map]
  apply List.map_congr_left
  intro t hm
  obtain ⟨hw, _, hcol, _, _⟩ := tableOK_props io d.enums t (ht t hm)
  have hms : ∀ m ∈ t.cols.map (member d.enums), memOK m := by
    intro m hm'
    obtain ⟨x, hx, rfl⟩ := List.mem_map.mp hm'
    exact member_ok d.enums x (hcol x hx) he
  simp only [Function.comp, (upper_wordOK t.name hw).2, columnsOf_structBody _ hms, List.map_map]
  rfl

/-- the enum cache the reader builds from the written enum blocks -/
theorem cache_written (d : Doc F) (he : ∀ e ∈ d.enums, enumOK e = true)
    (het : nodup (d.enums.map (fun e => upper e.tyName)) = true) (hne : d.tables ≠ []) :
    (∀ e ∈ d.enums, lookupLast (upper e.tyName) (enumCache (tdefsOf "enum".toList (enumBlocks d))) = some e.labels) ∧
    ∀ w ∈ ["short".toList, "int".toList, "long".toList, "float".toList, "double".toList],
      lookupLast w (enumCache (tdefsOf "enum".toList (enumBlocks d))) = none := by
  have hemp : d.tables.isEmpty = false := by
    cases hd : d.tables with
    | nil => exact absurd hd hne
    | cons a t => rfl
  have hc : enumCache (tdefsOf "enum".toList (enumBlocks d)) = d.enums.map (fun e => (upper e.tyName, e.labels)) := by
    unfold enumCache tdefsOf enumBlocks
    simp only [hemp, Bool.false_eq_true, if_false]
    rw [List.map_map, List.map_map]
    apply List.map_congr_left
    intro e hm
    obtain ⟨_, hne', hl⟩ := enumOK_props e (he e hm)
    simp only [Function.comp, splitComma_enumBody e.labels hne' hl]
  rw [hc]
  refine ⟨fun e hm => lookupLast_by_key d.enums (fun e => upper e.tyName) (fun e => e.labels) het e hm, ?_⟩
  intro w hw
  apply lookupLast_none
  intro entry hentry
  obtain ⟨e, hm, rfl⟩ := List.mem_map.mp hentry
  have hwo := (enumOK_props e (he e hm)).1
  simp only [List.mem_cons, List.mem_nil_iff, or_false] at hw
  rcases hw with rfl | rfl | rfl | rfl | rfl <;> exact upper_ne_lower e.tyName _ hwo (by decide)

/-! ### selection by the trailing `} NAME;` needs no assumption beyond distinct names -/

theorem tdName_shape (P name : Str) (hn : wordy name) :
    tdName (P ++ '}' :: ' ' :: (name ++ [';'])) = some name := by
  have hrev : (P ++ '}' :: ' ' :: (name ++ [';'])).reverse = ';' :: (name.reverse ++ ' ' :: '}' :: P.reverse) := by
    simp [List.reverse_append, List.reverse_cons]
  have hw : ∀ a ∈ name.reverse, isWordCh a = true := fun a ha => hn.2 a (by simpa using ha)
  have hne : name.reverse ≠ [] := by simpa using hn.1
  have h1 : (name.reverse ++ ' ' :: '}' :: P.reverse).dropWhile isSpace = name.reverse ++ ' ' :: '}' :: P.reverse := by
    apply lstrip_id
    intro c hc
    cases hr : name.reverse with
    | nil => exact absurd hr hne
    | cons a t =>
      rw [hr] at hc
      simp at hc
      subst hc
      exact scan_word_not_space _ (hw a (by rw [hr]; simp))
  unfold tdName
  rw [hrev]
  simp only [List.dropWhile_cons_of_neg (show ¬ isSpace ';' = true by decide), h1]
  rw [takeWhile_app_stop _ _ ' ' _ hw (by decide), dropWhile_app_stop _ _ ' ' _ hw (by decide)]
  have hemp : name.reverse.isEmpty = false := by
    cases hr : name.reverse with
    | nil => exact absurd hr hne
    | cons a t => rfl
  simp only [hemp, Bool.false_eq_true, if_false,
    List.dropWhile_cons_of_pos (show isSpace ' ' = true by decide),
    List.dropWhile_cons_of_neg (show ¬ isSpace '}' = true by decide), List.reverse_reverse]

theorem tdName_structText (enums : List EnumDecl) (name : Str) (cols : List Col) (hn : wordOK name = true) :
    tdName (structText enums name cols) = some (upper name) := by
  have := blockText_shape "struct".toList (structBody (cols.map (member enums))) (upper name) []
  simp only [List.append_nil] at this
  unfold structText
  rw [this]
  generalize "typedef".toList = t0
  have e : t0 ++ ' ' :: ("struct".toList ++ ' ' :: '{' :: (structBody (cols.map (member enums)) ++
      '}' :: ' ' :: (upper name ++ [';']))) =
      (t0 ++ ' ' :: ("struct".toList ++ ' ' :: '{' :: structBody (cols.map (member enums)))) ++
      '}' :: ' ' :: (upper name ++ [';']) := by
    generalize "struct".toList = s0
    simp only [List.append_assoc, List.cons_append]
  rw [e]
  exact tdName_shape _ _ (wordy_upper _ (wordOK_wordy _ hn))

theorem filter_key_unique {α : Type} (l : List α) (key : α → Str) (hnd : nodup (l.map key) = true)
    (a : α) (ha : a ∈ l) : l.filter (fun b => key b == key a) = [a] := by
  induction l with
  | nil => cases ha
  | cons x t ih =>
    obtain ⟨n1, n2⟩ := nodup_cons _ _ hnd
    rcases List.mem_cons.mp ha with rfl | ha'
    · have : t.filter (fun b => key b == key a) = [] := by
        apply List.filter_eq_nil_iff.mpr
        intro b hb hk
        exact n1 (List.mem_map.mpr ⟨b, hb, by simpa using hk⟩)
      simp [this]
    · have hne : (key x == key a) = false := by
        have : key x ≠ key a := fun e => n1 (e ▸ List.mem_map.mpr ⟨a, ha', rfl⟩)
        simpa using this
      simp only [List.filter_cons, hne, Bool.false_eq_true, if_false]
      exact ih n2 ha'

theorem selectDef_by_name {α : Type} (l : List α) (key : α → Str) (txt : α → Str)
    (hname : ∀ a ∈ l, tdName (txt a) = some (key a)) (hup : ∀ a ∈ l, upper (key a) = key a)
    (hnd : nodup (l.map key) = true) (a : α) (ha : a ∈ l) :
    selectDef (l.map txt) (key a) = some (txt a) := by
  unfold selectDef
  have hf : (l.map txt).filter (fun x => (tdName x).map upper == some (upper (key a))) = [txt a] := by
    rw [List.filter_map]
    have : l.filter ((fun x => (tdName x).map upper == some (upper (key a))) ∘ txt) =
        l.filter (fun b => key b == key a) := by
      apply List.filter_congr
      intro b hb
      simp only [Function.comp, hname b hb, Option.map_some, hup b hb, hup a ha]
      by_cases h : key b = key a <;> simp [h]
    rw [this, filter_key_unique l key hnd a ha]
    rfl
  simp only [hf]
  rfl

theorem all_zip_map_intro {α β : Type} (l : List α) (f : α → β) (P : α × β → Bool)
    (h : ∀ a ∈ l, P (a, f a) = true) : (l.zip (l.map f)).all P = true := by
  induction l with
  | nil => rfl
  | cons x t ih =>
    simp only [List.map, List.zip_cons_cons, List.all_cons, Bool.and_eq_true]
    exact ⟨h x (by simp), ih (fun a ha => h a (by simp [ha]))⟩

/-- the `selectOK` conjunct of `docOK` follows from the others: with table names distinct ignoring
case, `type()` finds each table's own definition by its trailing `} NAME;` -/
theorem selectOK_of_names (d : Doc F) (hsup : ∀ t ∈ d.tables, ∀ c ∈ t.cols, supported c.ty = true)
    (hw : ∀ t ∈ d.tables, wordOK t.name = true)
    (hnd : nodup (d.tables.map (fun t => upper t.name)) = true) : selectOK d = true := by
  have hst := structTexts_shape d.enums d.tables hsup
  simp only [selectOK, hst]
  apply all_zip_map_intro
  intro t hm
  have := selectDef_by_name d.tables (fun t => upper t.name) (fun t => structText d.enums t.name t.cols)
    (fun a ha => tdName_structText d.enums a.name a.cols (hw a ha))
    (fun a ha => (upper_wordOK a.name (hw a ha)).2) hnd t hm
  simp [this]

end PydlVerif.YannyRT

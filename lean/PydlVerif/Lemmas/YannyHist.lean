/-
Helper lemmas for C03 (Model/YannyHist.lean): the empty dictionary, `str.split('\n')` on
concatenations, the line loop on concatenated line lists.
-/
import PydlVerif.Model.YannyHist
import PydlVerif.Props.C01
namespace PydlVerif.Yanny

variable {F : Type}

/-! ### nothing to append -/

theorem appendTables_nil (io : FloatIO F) (v : View F) (syms : List (Str × List Str)) :
    appendTables io v [] syms = .ok (syms.map (fun t => (t.1, []))) := by
  induction syms with
  | nil => rfl
  | cons t ts ih =>
    obtain ⟨sym, cols⟩ := t
    simp [appendTables, appendTableRows, lookupKey, ih]

theorem rowLinesOf_empty (io : FloatIO F) (syms : List (Str × List Str)) :
    rowLinesOf io (syms.map (fun t => ((t.1, []) : Str × List (List (Cell F))))) = [] := by
  induction syms with
  | nil => rfl
  | cons t ts ih =>
    simp only [rowLinesOf, List.map, List.flatten] at ih ⊢
    simpa using ih

theorem appendChunk_nil (io : FloatIO F) (v : View F) : appendChunk io v [] = .ok [] := by
  simp [appendChunk, appendPairs, appendTables_nil, rowLinesOf_empty]

/-! ### the shapes a step can take -/

theorem isEmpty_false_of_ne {α : Type} (l : List α) (h : l ≠ []) : l.isEmpty = false := by
  cases l with
  | nil => exact absurd rfl h
  | cons a t => rfl

theorem ne_of_isEmpty_false {α : Type} (l : List α) (h : l.isEmpty = false) : l ≠ [] := by
  intro e; subst e; cases h

/-- `write`: a refusal (state untouched, an error), or the accepted write to a path without file -/
theorem stepWrite_cases (io : FloatIO F) (s : State F) (nf : Option Str) (cm : Comments) :
    (∃ e, stepWrite io s nf cm = (s, .error e)) ∨
    (∃ p v, writeTarget s nf = some p ∧ s.fs p = none ∧ p ≠ [] ∧ s.obj.view = .ok v ∧
      stepWrite io s nf cm = writeTo io s p v cm) := by
  unfold stepWrite
  cases ht : writeTarget s nf with
  | none => exact Or.inl ⟨"ValueError", rfl⟩
  | some p =>
    cases hf : s.fs p with
    | some t => exact Or.inl ⟨"PydlutilsException", by simp [hf]⟩
    | none =>
      cases hp : p.isEmpty with
      | true =>
        have hpe : p = [] := List.isEmpty_iff.mp hp
        subst hpe
        exact Or.inl ⟨"FileNotFoundError", by simp [hf]⟩
      | false =>
        have hne := ne_of_isEmpty_false p hp
        cases hv : s.obj.view with
        | error e => exact Or.inl ⟨"model-domain", by simp [hf, hne]⟩
        | ok v => exact Or.inr ⟨p, v, rfl, hf, hne, rfl, by simp [hf, hne]⟩

/-- `append`: a refusal, the warning for an empty chunk, or the accepted append -/
theorem stepAppend_cases (io : FloatIO F) (s : State F) (d : List (Str × AVal F)) (st : Str) :
    (∃ e, stepAppend io s d st = (s, .error e)) ∨
    (∃ v, s.obj.filename ≠ [] ∧ s.obj.view = .ok v ∧ appendChunk io v d = .ok [] ∧
      stepAppend io s d st = (s, .warn)) ∨
    (∃ v body old, s.obj.filename ≠ [] ∧ s.obj.view = .ok v ∧ appendChunk io v d = .ok body ∧ body ≠ [] ∧
      s.fs s.obj.filename = some old ∧ stepAppend io s d st = appendTo io s old (appendHeader st ++ body)) := by
  unfold stepAppend
  cases hn : s.obj.filename.isEmpty with
  | true => exact Or.inl ⟨"ValueError", by simp⟩
  | false =>
    have hne := ne_of_isEmpty_false _ hn
    cases hv : s.obj.view with
    | error e => exact Or.inl ⟨"model-domain", by simp⟩
    | ok v =>
      cases hc : appendChunk io v d with
      | error e => exact Or.inl ⟨e, by simp [hc]⟩
      | ok body =>
        cases hb : body.isEmpty with
        | true =>
          have : body = [] := List.isEmpty_iff.mp hb
          subst this
          exact Or.inr (Or.inl ⟨v, hne, rfl, hc, by simp [hc]⟩)
        | false =>
          have hbn := ne_of_isEmpty_false _ hb
          cases hf : s.fs s.obj.filename with
          | none => exact Or.inl ⟨"PydlutilsException", by simp [hc, hbn]⟩
          | some old => exact Or.inr (Or.inr ⟨v, body, old, hne, rfl, hc, hbn, rfl, by simp [hc, hbn]⟩)

/-- `append` seen through `acceptedAppend`: not accepted - the state is untouched; accepted - the
chunk built from exactly these pairs and rows is appended -/
theorem stepAppend_accepted (io : FloatIO F) (s : State F) (d : List (Str × AVal F)) (st : Str) :
    (acceptedAppend io s d = none ∧ (stepAppend io s d st).1 = s) ∨
    (∃ v ps gs old, acceptedAppend io s d = some (ps, gs) ∧ s.obj.filename ≠ [] ∧ s.obj.view = .ok v ∧
      appendPairs v d = .ok ps ∧ appendTables io v d v.symbols = .ok gs ∧
      s.fs s.obj.filename = some old ∧
      stepAppend io s d st =
        appendTo io s old (appendHeader st ++ ((ps.map pairLine).flatten ++ rowLinesOf io gs))) := by
  unfold stepAppend acceptedAppend
  cases hn : s.obj.filename.isEmpty with
  | true => exact Or.inl ⟨by simp, by simp⟩
  | false =>
    have hne := ne_of_isEmpty_false _ hn
    cases hv : s.obj.view with
    | error e => exact Or.inl ⟨by simp, by simp⟩
    | ok v =>
      cases hp : appendPairs v d with
      | error e => exact Or.inl ⟨by simp [hp], by simp [appendChunk, hp]⟩
      | ok ps =>
        cases hg : appendTables io v d v.symbols with
        | error e => exact Or.inl ⟨by simp [hp, hg], by simp [appendChunk, hp, hg]⟩
        | ok gs =>
          cases hb : ((ps.map pairLine).flatten ++ rowLinesOf io gs).isEmpty with
          | true => exact Or.inl ⟨by simp [hp, hg, hb], by simp [appendChunk, hp, hg, hb]⟩
          | false =>
            cases hf : s.fs s.obj.filename with
            | none => exact Or.inl ⟨by simp [hp, hg, hb], by simp [appendChunk, hp, hg, hb]⟩
            | some old =>
              exact Or.inr ⟨v, ps, gs, old, by simp [hp, hg, hb], hne, rfl, hp, hg, rfl,
                by simp [appendChunk, hp, hg, hb]⟩

theorem outOf_ne_warn (v : Except String (View F)) : outOf v ≠ .warn := by
  cases v <;> simp [outOf]

theorem outOf_error (v : Except String (View F)) (e : String) (h : outOf v = .error e) : v = .error e := by
  cases v with
  | ok w => simp [outOf] at h
  | error e' => simp [outOf] at h; simp [h]

/-! ### `str.split('\n')` on concatenations -/

theorem splitNlAux_append (a c cur : Str) :
    splitNlAux (a ++ '\n' :: c) cur = splitNlAux a cur ++ splitNlAux c [] := by
  induction a generalizing cur with
  | nil => simp [splitNlAux]
  | cons x a ih =>
    by_cases hx : x = '\n'
    · subst hx
      simp [splitNlAux, ih]
    · simp [splitNlAux, hx, ih]

/-- a text cut at a newline: the lines of the two parts -/
theorem splitNl_append (a c : Str) : splitNl (a ++ '\n' :: c) = splitNl a ++ splitNl c :=
  splitNlAux_append a c []

theorem splitNlAux_noNl (l cur : Str) (h : '\n' ∉ l) : splitNlAux l cur = [cur.reverse ++ l] := by
  induction l generalizing cur with
  | nil => simp [splitNlAux]
  | cons x l ih =>
    have hx : x ≠ '\n' := fun e => h (by simp [e])
    have hl : '\n' ∉ l := fun m => h (by simp [m])
    simp [splitNlAux, hx, ih _ hl]

theorem splitNl_noNl (l : Str) (h : '\n' ∉ l) : splitNl l = [l] := by
  simpa [splitNl] using splitNlAux_noNl l [] h

/-- lines each followed by a newline: `split` returns the lines and a final empty piece -/
theorem splitNl_lines (ls : List Str) (h : ∀ l ∈ ls, '\n' ∉ l) :
    splitNl ((ls.map (fun l => l ++ ['\n'])).flatten) = ls ++ [[]] := by
  induction ls with
  | nil => rfl
  | cons l ls ih =>
    have e : ((l :: ls).map (fun l => l ++ ['\n'])).flatten = l ++ '\n' :: (ls.map (fun l => l ++ ['\n'])).flatten := by
      simp
    rw [e, splitNl_append, splitNl_noNl l (h l (by simp)), ih (fun x hx => h x (by simp [hx]))]
    rfl

/-! ### the line loop on concatenated line lists -/

theorem lineLoop_append (io : FloatIO F) (specs : List (Str × Except String (List ColSpec)))
    (st : LoopSt F) (l1 l2 : List Str) :
    lineLoop io specs st (l1 ++ l2) =
      match lineLoop io specs st l1 with
      | .error e => .error e
      | .ok st' => lineLoop io specs st' l2 := by
  induction l1 generalizing st with
  | nil => rfl
  | cons l ls ih =>
    simp only [List.cons_append, lineLoop]
    cases lineStep io specs st l with
    | error e => rfl
    | ok st' => exact ih st'

theorem lineStep_empty (io : FloatIO F) (specs : List (Str × Except String (List ColSpec)))
    (st : LoopSt F) : lineStep io specs st [] = .ok st := by
  simp [lineStep, skipLine]

/-- a comment line is skipped -/
theorem lineStep_comment (io : FloatIO F) (specs : List (Str × Except String (List ColSpec)))
    (st : LoopSt F) (l : Str) : lineStep io specs st ('#' :: l) = .ok st := by
  have : skipLine ('#' :: l) = true := by
    simp [skipLine, List.dropWhile, isSpace]
  simp [lineStep, this]

/-- the text left for the line loop is empty or ends with a newline (true of every text pydl
writes: each line is written with its newline) -/
def RestNl (text : Str) : Prop := (front text).rest = [] ∨ ∃ a, (front text).rest = a ++ ['\n']

theorem RestNl_of_restNl (text : Str) (h : restNl text = true) : RestNl text := by
  simp only [restNl, Bool.or_eq_true, beq_iff_eq] at h
  rcases h with h | h
  · exact Or.inl (List.isEmpty_iff.mp h)
  · exact Or.inr (List.getLast?_eq_some_iff.mp h)

/-- `parse_append`: when the appended chunk leaves the front half of `_parse` undisturbed
(`frontStable`: no typedef text, no continuation across the boundary), parsing the longer text is
parsing the old text and then running the line loop over the lines of the chunk, from the state
the old text left -/
theorem parse_append (io : FloatIO F) (raw : Bool) (text chunk : Str)
    (hfs : frontStable text chunk = true) (hnl : RestNl text) :
    loopOf io raw (text ++ chunk) =
      match loopOf io raw text with
      | .error e => .error e
      | .ok st => lineLoop io (specsOf (front text) raw) st (splitNl chunk) := by
  simp only [frontStable, Bool.and_eq_true, beq_iff_eq] at hfs
  obtain ⟨⟨⟨h1, h2⟩, h3⟩, h4⟩ := hfs
  have hs : specsOf (front (text ++ chunk)) raw = specsOf (front text) raw := by
    simp [specsOf, h1, h3]
  have hi : (initSt (front (text ++ chunk)) : LoopSt F) = initSt (front text) := by
    simp [initSt, h3]
  unfold loopOf
  simp only [hs, hi, h4]
  rcases hnl with h0 | ⟨a, ha⟩
  · rw [h0]
    simp [splitNl, splitNlAux, lineLoop, lineStep_empty]
  · rw [ha]
    have e1 : a ++ ['\n'] ++ chunk = a ++ '\n' :: chunk := by simp
    have e2 : splitNl (a ++ ['\n']) = splitNl a ++ [[]] := by
      have := splitNl_append a []
      simpa [splitNl, splitNlAux] using this
    rw [e1, splitNl_append, e2, lineLoop_append, lineLoop_append]
    cases lineLoop io (specsOf (front text) raw) (initSt (front text)) (splitNl a) with
    | error e => rfl
    | ok st' => simp [lineLoop, lineStep_empty]

/-! ### the lines of an appended chunk -/

/-- domain of an appended keyword pair (C01's `lineStep_pair`): the key is one word without `#`,
not starting like a quoted or braced token, not a table name; the value has no `#` and no newline;
the line has no `{ws{ws}ws}` pattern (D4 exclusion) -/
def PairOK (specs : List (Str × Except String (List ColSpec))) (kv : Str × Str) : Prop :=
  kv.1 ≠ [] ∧ (∀ c ∈ kv.1, isSpace c = false ∧ c ≠ '#') ∧ kv.1.head? ≠ some '"' ∧ kv.1.head? ≠ some '{' ∧
  '#' ∉ kv.2 ∧ '\n' ∉ kv.2 ∧ dbFree (strip (kv.1 ++ ' ' :: kv.2)) = true ∧
  lookupSpec specs (upper kv.1) = none

/-- domain of the rows appended to one table (C01's `lineStep_row`): the table is known under its
upper-case name with a column schema, every row is non-empty, fits the schema, and its line has no
`{ws{ws}ws}` pattern -/
def GroupOK (io : FloatIO F) (specs : List (Str × Except String (List ColSpec)))
    (g : Str × List (List (Cell F))) : Prop :=
  C01.bareWord g.1 = true ∧ upper g.1 = g.1 ∧
  ∃ sch, lookupSpec specs g.1 = some (.ok sch) ∧
    ∀ r ∈ g.2, r ≠ [] ∧ rowFits sch r = true ∧ dbFree (fmtRow io g.1 r) = true

theorem fmtRow_noNl (io : FloatIO F) (h2 : H2 io) (T : Str) (hT : C01.bareWord T = true)
    (sch : List ColSpec) (r : List (Cell F)) (hne : r ≠ []) (hr : rowFits sch r = true) :
    '\n' ∉ fmtRow io T r := by
  cases r with
  | nil => exact absurd rfl hne
  | cons x xs =>
    have hb := (C01.body_rest io h2 x xs (C01.rowFits_mem _ _ hr)).2
    have hT' := (C01.bareWord_props T hT).2.1
    have e : fmtRow io T (x :: xs) = T ++ ' ' :: joinSp ((x :: xs).map (fmtCell io)) := rfl
    rw [e]
    intro hm
    simp only [List.mem_append, List.mem_cons] at hm
    rcases hm with h | h | h
    · exact (hT' _ h).2.2.2 rfl
    · exact absurd h (by decide)
    · exact hb h

theorem lineLoop_pairs (io : FloatIO F) (specs : List (Str × Except String (List ColSpec)))
    (ps : List (Str × Str)) (h : ∀ kv ∈ ps, PairOK specs kv) (st : LoopSt F) :
    lineLoop io specs st (ps.map (fun kv => kv.1 ++ ' ' :: kv.2)) =
      .ok { st with pairs := ps.foldl (fun acc kv => setPair acc kv.1 (strip kv.2)) st.pairs } := by
  induction ps generalizing st with
  | nil => rfl
  | cons kv ps ih =>
    obtain ⟨a1, a2, a3, a4, a5, _, a7, a8⟩ := h kv (by simp)
    simp only [List.map, lineLoop, C01.lineStep_pair io specs st kv.1 kv.2 a1 a2 a3 a4 a5 a7 a8]
    rw [ih (fun x hx => h x (by simp [hx]))]
    rfl

theorem lineLoop_groups (io : FloatIO F) (h1 : H1 io) (h2 : H2 io)
    (specs : List (Str × Except String (List ColSpec)))
    (groups : List (Str × List (List (Cell F)))) (h : ∀ g ∈ groups, GroupOK io specs g) (st : LoopSt F) :
    lineLoop io specs st (groups.flatMap (fun g => g.2.map (fmtRow io g.1))) =
      .ok { st with rows := groups.foldl (fun acc g => g.2.foldl (fun a r => addRow a g.1 r) acc) st.rows } := by
  induction groups generalizing st with
  | nil => rfl
  | cons g gs ih =>
    obtain ⟨b1, b2, sch, b3, b4⟩ := h g (by simp)
    simp only [List.flatMap_cons, lineLoop_append,
      C01.parse_render_partial io h1 h2 specs g.1 b1 b2 sch b3 g.2 b4 st]
    rw [ih (fun x hx => h x (by simp [hx]))]
    rfl

def headerLine (stamp : Str) : Str := hdrPrefix ++ stamp ++ ['.']

theorem hdrPrefix_noNl : '\n' ∉ hdrPrefix := by decide

theorem headerLine_comment (stamp : Str) : ∃ l, headerLine stamp = '#' :: l := ⟨_, rfl⟩

theorem appendHeader_eq (stamp : Str) : appendHeader stamp = headerLine stamp ++ ['\n'] := by
  simp [appendHeader, headerLine]

theorem rowLinesOf_eq (io : FloatIO F) (groups : List (Str × List (List (Cell F)))) :
    rowLinesOf io groups =
      ((groups.flatMap (fun g => g.2.map (fmtRow io g.1))).map (fun l => l ++ ['\n'])).flatten := by
  induction groups with
  | nil => rfl
  | cons g gs ih =>
    have e : rowLinesOf io (g :: gs) = (g.2.map (fun r => fmtRow io g.1 r ++ ['\n'])).flatten ++ rowLinesOf io gs := by
      simp [rowLinesOf]
    rw [e, ih]
    simp [List.flatMap_cons, List.map_append, List.flatten_append, List.map_map, Function.comp_def]

/-- the chunk `append()` writes, as a list of lines each followed by its newline -/
def chunkLines (io : FloatIO F) (stamp : Str) (ps : List (Str × Str))
    (groups : List (Str × List (List (Cell F)))) : List Str :=
  headerLine stamp :: (ps.map (fun kv => kv.1 ++ ' ' :: kv.2) ++ groups.flatMap (fun g => g.2.map (fmtRow io g.1)))

theorem chunk_eq_lines (io : FloatIO F) (stamp : Str) (ps : List (Str × Str))
    (groups : List (Str × List (List (Cell F)))) :
    appendHeader stamp ++ ((ps.map pairLine).flatten ++ rowLinesOf io groups) =
      ((chunkLines io stamp ps groups).map (fun l => l ++ ['\n'])).flatten := by
  have ep : (ps.map pairLine).flatten = ((ps.map (fun kv => kv.1 ++ ' ' :: kv.2)).map (fun l => l ++ ['\n'])).flatten := by
    congr 1
    simp [pairLine, List.map_map, Function.comp_def]
  rw [appendHeader_eq, rowLinesOf_eq, ep]
  simp [chunkLines, List.map_append, List.flatten_append]

/-- `chunk_loop`: the line loop over the lines of a chunk written by `append()` - the comment
line is skipped, every pair line records its pair, every data line appends its row to its table,
nothing else changes - from any loop state -/
theorem chunk_loop (io : FloatIO F) (h1 : H1 io) (h2 : H2 io)
    (specs : List (Str × Except String (List ColSpec))) (st : LoopSt F) (stamp : Str)
    (ps : List (Str × Str)) (groups : List (Str × List (List (Cell F))))
    (hst : '\n' ∉ stamp) (hp : ∀ kv ∈ ps, PairOK specs kv) (hg : ∀ g ∈ groups, GroupOK io specs g) :
    lineLoop io specs st (splitNl (appendHeader stamp ++ ((ps.map pairLine).flatten ++ rowLinesOf io groups))) =
      .ok (applyAppend st ps groups) := by
  have hno : ∀ l ∈ chunkLines io stamp ps groups, '\n' ∉ l := by
    intro l hl
    simp only [chunkLines, List.mem_cons, List.mem_append, List.mem_map, List.mem_flatMap] at hl
    rcases hl with rfl | ⟨kv, hkv, rfl⟩ | ⟨g, hgm, r, hr, rfl⟩
    · intro hm
      simp only [headerLine, List.mem_append, List.mem_singleton] at hm
      rcases hm with (h | h) | h
      · exact hdrPrefix_noNl h
      · exact hst h
      · exact absurd h (by decide)
    · obtain ⟨_, a2, _, _, _, a6, _, _⟩ := hp kv hkv
      intro hm
      simp only [List.mem_append, List.mem_cons] at hm
      rcases hm with h | h | h
      · have := (a2 _ h).1
        simp [isSpace] at this
      · exact absurd h (by decide)
      · exact a6 h
    · obtain ⟨b1, _, sch, _, b4⟩ := hg g hgm
      obtain ⟨c1, c2, _⟩ := b4 r hr
      exact fmtRow_noNl io h2 g.1 b1 sch r c1 c2
  rw [chunk_eq_lines, splitNl_lines _ hno]
  obtain ⟨hl, hhl⟩ := headerLine_comment stamp
  have hc : lineStep io specs st (headerLine stamp) = .ok st := by
    rw [hhl]; exact lineStep_comment io specs st hl
  simp only [chunkLines, List.cons_append, lineLoop]
  rw [hc]
  simp only [List.append_assoc, lineLoop_append, lineLoop_pairs io specs ps hp,
    lineLoop_groups io h1 h2 specs groups hg, lineLoop, lineStep_empty]
  rfl

end PydlVerif.Yanny

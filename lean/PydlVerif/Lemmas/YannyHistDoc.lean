/-
C03, extension round: the two named hypotheses of `history_content_partial` discharged on C01's
document domain.

  PART 1  text of the object = a written document followed by whole appended lines
          (`front_lines`, `front_appended`: the front half of `_parse` is not disturbed by the lines
          `append()` adds; `front_stable`: the executable `frontStable` holds)
  PART 2  the line loop and the view of such a text (`loop_of_doc`, `specs_appended`, `view_of_loop`)
  PART 3  the text `write()` renders from the view of a document is `textOf` of a document
          (`renderView_doc`), documents after an append / a write (`appendDoc`, `writeDoc`)
  PART 4  the appended chunk is made of lines in C01's line domain (`chunk_linesOK`, `chunk_domain`)
-/
import PydlVerif.Lemmas.YannyHist
import PydlVerif.Model.YannyHistDom
namespace PydlVerif.Yanny
open PydlVerif.YannyRT PydlVerif.C01

variable {F : Type}

/-! ## PART 1: whole lines after a written document -/

/-- lines, each written with its newline -/
def linesText (ls : List Str) : Str := (ls.map (fun l => l ++ ['\n'])).flatten

theorem linesText_append (a b : List Str) : linesText (a ++ b) = linesText a ++ linesText b := by
  simp [linesText]

theorem linesText_nil : linesText [] = [] := rfl

/-- the data lines of a document, in file order -/
def dataLines (io : FloatIO F) (d : Doc F) : List Str :=
  d.tables.flatMap (fun t => t.rows.map (fmtRow io (upper t.name)))

theorem tables_lines (io : FloatIO F) (ts : List (TableD F)) :
    (ts.map (rowLines io)).flatten =
      linesText (ts.flatMap (fun t => t.rows.map (fmtRow io (upper t.name)))) := by
  induction ts with
  | nil => rfl
  | cons t rest ih =>
    simp only [List.map, List.flatten_cons, List.flatMap_cons, linesText_append, ih, rowLines_lines]
    rfl

theorem dataText_lines (io : FloatIO F) (d : Doc F) : dataText io d = '\n' :: linesText (dataLines io d) := by
  unfold dataText dataLines
  rw [tables_lines]

/-- general form of C01 `front_written`: after the definitions come an empty line and ANY whole
lines without `typedef`, newline or continuation mark (data lines, and whatever `append()` added) -/
theorem front_lines (d : Doc F) (ebs sbs : List (Str × Str))
    (he : ∀ b ∈ ebs, blockOK b.1 b.2) (hs : ∀ b ∈ sbs, blockOK b.1 b.2)
    (hbe : ∀ b ∈ ebs, '\\' ∉ blockText "enum".toList b.1 b.2)
    (hbs : ∀ b ∈ sbs, '\\' ∉ blockText "struct".toList b.1 b.2)
    (hnd : nodup (sbs.map (fun b => upper b.2)) = true)
    (hc : commentsOK d.comments = true) (hp : ∀ kv ∈ d.hdr, LineOK (kv.1 ++ ' ' :: kv.2))
    (L : List Str) (hL : ∀ l ∈ L, LineOK l) :
    front (headText d ++ (defsBlock (blocksOf "enum".toList ebs) ++
        (defsBlock (blocksOf "struct".toList sbs) ++ '\n' :: linesText L))) =
      ⟨sbs.map (fun b => ⟨blockText "struct".toList b.1 b.2, b.1, b.2⟩),
       ebs.map (fun b => ⟨blockText "enum".toList b.1 b.2, b.1, b.2⟩),
       sbs.map (fun b => (upper b.2, columnsOf b.1)),
       headText d ++ ((defsBlock (ebs.map (fun _ => ([] : Str))) ++ defsBlock (sbs.map (fun _ => ([] : Str)))) ++
         '\n' :: linesText L)⟩ := by
  have hZc : contFree ('\n' :: linesText L) = true := by
    have := lines_contFree L [] hL rfl
    rw [List.append_nil] at this
    exact contFree_line [] _ (by simp) rfl this
  have hcf : contFree (headText d ++ (defsBlock (blocksOf "enum".toList ebs) ++
      (defsBlock (blocksOf "struct".toList sbs) ++ '\n' :: linesText L))) = true := by
    apply head_contFree d hc hp
    apply contFree_nobs
    · apply defs_nobs
      intro t ht
      obtain ⟨b, hb, rfl⟩ := List.mem_map.mp ht
      exact hbe b hb
    · apply contFree_nobs
      · apply defs_nobs
        intro t ht
        obtain ⟨b, hb, rfl⟩ := List.mem_map.mp ht
        exact hbs b hb
      · exact hZc
  have hZ : ∀ kw, noMatchIn kw ('\n' :: linesText L) [] := by
    intro kw
    exact noMatchIn_append kw ['\n'] _ [] (noMatchIn_nl kw _) (lines_noMatch kw L [] hL)
  obtain ⟨e1, e2, e3⟩ := extract_written ebs sbs he hs (headText d) ('\n' :: linesText L)
    (fun kw B => head_noMatch d hc hp kw B) hZ
  unfold front
  simp only [joinCont_id _ hcf, e1, e2, e3, List.foldl_map]
  have := foldl_symInsert sbs (fun b => upper b.2) (fun b => columnsOf b.1) [] hnd
    (by intro e he'; cases he')
  simp only [List.nil_append] at this
  rw [this]

/-- **FrontStable, structural form**: the front half of `_parse` on a written document followed by
whole lines of C01's line domain - continuation joining is the identity, typedef extraction finds
exactly the written blocks, and the lines simply stay at the end of the text left for the line loop -/
theorem front_appended (io : FloatIO F) (h2 : H2 io) (d : Doc F) (hd : docOK io d = true)
    (ls : List Str) (hls : ∀ l ∈ ls, LineOK l) :
    front (textOf io d ++ linesText ls) =
      ⟨tdefsOf "struct".toList (structBlocks d), tdefsOf "enum".toList (enumBlocks d),
       d.tables.map (fun t => (upper t.name, t.cols.map (·.name))), restOf io d ++ linesText ls⟩ := by
  obtain ⟨hc, he, _, ht, htn, _, hp, _⟩ := docOK_props io d hd
  have htp := fun t (hm : t ∈ d.tables) => tableOK_props io d.enums t (ht t hm)
  have hbE : ∀ b ∈ enumBlocks d, blockOK b.1 b.2 ∧ '\\' ∉ blockText "enum".toList b.1 b.2 := by
    intro b hb
    unfold enumBlocks at hb
    split at hb
    · cases hb
    · obtain ⟨e, hm, rfl⟩ := List.mem_map.mp hb
      obtain ⟨hw, hne, hl⟩ := enumOK_props e (he e hm)
      refine ⟨enumBody_blockOK e (he e hm), block_nobs _ _ _ (Or.inr rfl) (enumBody_nobs _ hl) ?_⟩
      intro hmem
      exact wordCh_ne_bs _ ((wordOK_props _ (upper_wordOK _ hw).1).2 _ hmem).1 rfl
  have hbS : ∀ b ∈ structBlocks d, blockOK b.1 b.2 ∧ '\\' ∉ blockText "struct".toList b.1 b.2 := by
    intro b hb
    obtain ⟨t, hm, rfl⟩ := List.mem_map.mp hb
    obtain ⟨hw, _, hcol, _, _⟩ := htp t hm
    have hms : ∀ m ∈ t.cols.map (member d.enums), memOK m := by
      intro m hm'
      obtain ⟨x, hx, rfl⟩ := List.mem_map.mp hm'
      exact member_ok d.enums x (hcol x hx) he
    refine ⟨structBody_blockOK _ hms t.name hw, block_nobs _ _ _ (Or.inl rfl) (structBody_nobs _ hms) ?_⟩
    intro hmem
    exact wordCh_ne_bs _ ((wordOK_props _ (upper_wordOK _ hw).1).2 _ hmem).1 rfl
  have hndS : nodup ((structBlocks d).map (fun b => upper b.2)) = true := by
    have : (structBlocks d).map (fun b => upper b.2) = d.tables.map (fun t => upper t.name) := by
      unfold structBlocks
      rw [List.map_map]
      apply List.map_congr_left
      intro t hm
      exact (upper_wordOK t.name (htp t hm).1).2
    rw [this]; exact htn
  have hpl := doc_pairs io d hd
  have hlp : ∀ kv ∈ d.hdr, LineOK (kv.1 ++ ' ' :: kv.2) :=
    fun kv hm => pair_lineOK (docSpecs d) _ kv (hp kv hm) (hpl kv hm)
  have hlr : ∀ l ∈ dataLines io d ++ ls, LineOK l := by
    intro l hl
    rcases List.mem_append.mp hl with h | h
    · obtain ⟨t, hm, hr⟩ := List.mem_flatMap.mp h
      obtain ⟨r, hr', rfl⟩ := List.mem_map.mp hr
      exact row_lineOK io h2 d.enums t (ht t hm) r hr'
    · exact hls l h
  have hfront := front_lines d (enumBlocks d) (structBlocks d) (fun b hb => (hbE b hb).1)
    (fun b hb => (hbS b hb).1) (fun b hb => (hbE b hb).2) (fun b hb => (hbS b hb).2) hndS hc hlp
    (dataLines io d ++ ls) hlr
  rw [symtab_written io d he ht] at hfront
  have e1 : textOf io d ++ linesText ls =
      headText d ++ (defsBlock (blocksOf "enum".toList (enumBlocks d)) ++
        (defsBlock (blocksOf "struct".toList (structBlocks d)) ++ '\n' :: linesText (dataLines io d ++ ls))) := by
    unfold textOf
    rw [dataText_lines, linesText_append]
    simp only [List.append_assoc, List.cons_append]
  have e2 : restOf io d ++ linesText ls =
      headText d ++ ((defsBlock ((enumBlocks d).map (fun _ => ([] : Str))) ++
        defsBlock ((structBlocks d).map (fun _ => ([] : Str)))) ++ '\n' :: linesText (dataLines io d ++ ls)) := by
    unfold restOf
    rw [dataText_lines, linesText_append]
    simp only [List.append_assoc, List.cons_append]
  rw [e1, e2]
  exact hfront

/-- **FrontStable discharged**: the executable hypothesis `frontStable` of `parse_append` holds for
every text "written document + appended lines" and every further chunk of lines in the line domain -/
theorem front_stable (io : FloatIO F) (h2 : H2 io) (d : Doc F) (hd : docOK io d = true)
    (ls cl : List Str) (hls : ∀ l ∈ ls, LineOK l) (hcl : ∀ l ∈ cl, LineOK l) :
    frontStable (textOf io d ++ linesText ls) (linesText cl) = true := by
  have hall : ∀ l ∈ ls ++ cl, LineOK l := by
    intro l hl
    rcases List.mem_append.mp hl with h | h
    · exact hls l h
    · exact hcl l h
  unfold frontStable
  rw [List.append_assoc, ← linesText_append, front_appended io h2 d hd (ls ++ cl) hall,
    front_appended io h2 d hd ls hls]
  simp [linesText_append]

/-! ## PART 2: the line loop and the view of "written document + appended lines" -/

/-- `viewOfDoc` in terms of C01's shape functions (`structsOf`, `enumBlocks`, `rcolCanon`) -/
def viewRT (raw : Bool) (D : Doc F) : View F :=
  ⟨structsOf D, blocksOf "enum".toList (enumBlocks D),
   D.tables.map (fun t => (upper t.name, t.cols.map (·.name))),
   D.hdr.map (fun kv => (kv.1, strip kv.2)),
   D.tables.map (fun t => ⟨upper t.name, t.cols.map (·.name),
     if raw then none else some (t.cols.map (rcolCanon D.enums)), t.rows⟩)⟩

/-- on C01's domain the model-level `viewOfDoc` (struct and enum texts through `dtype_to_struct`) is
the shape form -/
theorem viewOfDoc_eq (raw : Bool) (D : Doc F) (he : ∀ e ∈ D.enums, enumOK e = true)
    (hsup : ∀ t ∈ D.tables, ∀ c ∈ t.cols, supported c.ty = true) : viewOfDoc raw D = viewRT raw D := by
  have hst := structTexts_shape D.enums D.tables hsup
  have hen : (if D.tables.isEmpty then [] else D.enums.map enumText) = blocksOf "enum".toList (enumBlocks D) := by
    unfold enumBlocks blocksOf
    by_cases h : D.tables.isEmpty = true
    · simp only [h, if_true, List.map_nil]
    · simp only [h, Bool.false_eq_true, if_false]
      rw [List.map_map]
      apply List.map_congr_left
      intro e hm
      rw [enumText_shape e (he e hm)]
      simp only [enumText', Function.comp]
  unfold viewOfDoc viewRT
  rw [hst, hen]
  rfl

theorem viewOfDoc_docOK (io : FloatIO F) (raw : Bool) (D : Doc F) (hD : docOK io D = true) :
    viewOfDoc raw D = viewRT raw D :=
  viewOfDoc_eq raw D (docOK_props io D hD).2.1 (docOK_supported io D hD)


theorem shape_map {β : Type} (f : Str → List Col → β) (A B : List (TableD F))
    (h : A.map (fun t => (t.name, t.cols)) = B.map (fun t => (t.name, t.cols))) :
    A.map (fun t => f t.name t.cols) = B.map (fun t => f t.name t.cols) := by
  have key : ∀ X : List (TableD F), X.map (fun t => f t.name t.cols) =
      (X.map (fun t => (t.name, t.cols))).map (fun p => f p.1 p.2) := by
    intro X; simp [List.map_map, Function.comp_def]
  rw [key A, key B, h]

theorem shape_facts (d D : Doc F) (h : shapeOf D = shapeOf d) :
    D.enums = d.enums ∧ structsOf D = structsOf d ∧ structBlocks D = structBlocks d ∧
    enumBlocks D = enumBlocks d ∧ docSpecs D = docSpecs d ∧
    D.tables.map (fun t => (upper t.name, t.cols.map (·.name))) =
      d.tables.map (fun t => (upper t.name, t.cols.map (·.name))) ∧
    D.tables.map (fun t => upper t.name) = d.tables.map (fun t => upper t.name) := by
  simp only [shapeOf, Prod.mk.injEq] at h
  obtain ⟨he, ht⟩ := h
  have hemp : D.tables.isEmpty = d.tables.isEmpty := by
    have := congrArg List.length ht
    simp only [List.length_map] at this
    cases hD : D.tables <;> cases hd' : d.tables <;> simp_all
  refine ⟨he, ?_, ?_, ?_, ?_, ?_, ?_⟩
  · unfold structsOf; rw [he]
    exact shape_map (fun n c => structText d.enums n c) _ _ ht
  · unfold structBlocks; rw [he]
    exact shape_map (fun n c => (structBody (c.map (member d.enums)), upper n)) _ _ ht
  · unfold enumBlocks; rw [he, hemp]
  · unfold docSpecs
    exact shape_map (fun n c => (upper n, (Except.ok (c.map specOfCol) : Except String (List ColSpec)))) _ _ ht
  · exact shape_map (fun n c => (upper n, c.map (·.name))) _ _ ht
  · exact shape_map (fun n _ => upper n) _ _ ht

theorem rawSpec_id (c : Col) (h : c.ty ≠ NpT.f4) : rawSpec (specOfCol c) = specOfCol c := by
  unfold rawSpec specOfCol convOfCol
  cases hty : c.ty <;> simp_all

theorem rawOK_cols (raw : Bool) (D : Doc F) (h : rawOK raw D = true) (t : TableD F) (ht : t ∈ D.tables) :
    (if raw then (t.cols.map specOfCol).map rawSpec else t.cols.map specOfCol) = t.cols.map specOfCol := by
  cases raw with
  | false => rfl
  | true =>
    simp only [rawOK, Bool.not_true, Bool.false_or, List.all_eq_true, bne_iff_ne, ne_eq] at h
    simp only [if_true, List.map_map]
    apply List.map_congr_left
    intro c hc
    exact rawSpec_id c (h t ht c hc)

/-- the symbol table with column specs the line loop works with, for every text whose front half
is the one of the written document -/
theorem specs_doc (io : FloatIO F) (d : Doc F) (hd : docOK io d = true) (raw : Bool)
    (hr : rawOK raw d = true) (E : List TDef) (R : Str) :
    specsOf ⟨tdefsOf "struct".toList (structBlocks d), E,
      d.tables.map (fun t => (upper t.name, t.cols.map (·.name))), R⟩ raw = docSpecs d := by
  unfold specsOf docSpecs
  simp only [texts_written, List.map_map]
  apply List.map_congr_left
  intro t hm
  simp only [Function.comp, (typing_render io d hd t hm).1, rawOK_cols raw d hr t hm]

theorem initSt_doc (d : Doc F) (S E : List TDef) (R : Str) :
    (initSt ⟨S, E, d.tables.map (fun t => (upper t.name, t.cols.map (·.name))), R⟩ : LoopSt F) =
      ⟨[], d.tables.map (fun t => (upper t.name, []))⟩ := by
  simp [initSt, List.map_map, Function.comp_def]

/-- the line loop of `_parse` (either mode) on the text of an in-domain document reads the document -/
theorem loop_of_doc (io : FloatIO F) (h1 : H1 io) (h2 : H2 io) (d : Doc F) (hd : docOK io d = true)
    (raw : Bool) (hr : rawOK raw d = true) : loopOf io raw (textOf io d) = .ok (docLoop d) := by
  unfold loopOf
  simp only [front_render io h2 d hd, specs_doc io d hd raw hr, initSt_doc]
  exact loop_render io h1 h2 d hd

theorem rawTables_doc (D : Doc F) (hnd : nodup (D.tables.map (fun t => upper t.name)) = true)
    (hne : ∀ t ∈ D.tables, ∀ r ∈ t.rows, r ≠ []) :
    rawTables (D.tables.map (fun t => (upper t.name, t.rows)))
      (D.tables.map (fun t => (upper t.name, t.cols.map (·.name)))) =
      D.tables.map (fun t => ⟨upper t.name, t.cols.map (·.name), none, t.rows⟩) := by
  unfold rawTables
  rw [List.map_map]
  apply List.map_congr_left
  intro t hm
  have hfind := find_by_key D.tables (fun t => upper t.name) (fun t => t.rows) hnd t hm
  have hf : t.rows.filter (fun r => !r.isEmpty) = t.rows := by
    apply List.filter_eq_self.mpr
    intro r hr
    have := hne t hm r hr
    cases r with
    | nil => exact absurd rfl this
    | cons a x => rfl
  simp only [Function.comp, rowsOf, hfind, hf]

/-- the view `_parse` leaves for a text "written document `d` + appended lines" whose line loop read
the document `D` (same declarations, tables and columns as `d`, itself in the domain): `_symbols`
of the written definitions, the pairs, and per table the record array (normal mode: C01
`finish_render` - canonical column types, every cell unchanged) or the bare lists (raw mode) -/
theorem view_of_loop (io : FloatIO F) (h2 : H2 io) (d D : Doc F) (hd : docOK io d = true)
    (hD : docOK io D = true) (hsh : shapeOf D = shapeOf d) (raw : Bool)
    (ls : List Str) (hls : ∀ l ∈ ls, LineOK l)
    (hloop : loopOf io raw (textOf io d ++ linesText ls) = .ok (docLoop D)) :
    parseView io raw (textOf io d ++ linesText ls) = .ok (viewRT raw D) := by
  obtain ⟨s1, s2, s3, s4, _, s6, _⟩ := shape_facts d D hsh
  obtain ⟨_, _, _, ht, htn, _, _, _⟩ := docOK_props io D hD
  unfold parseView
  rw [hloop]
  simp only [front_appended io h2 d hd ls hls]
  rw [← s3, ← s4, ← s6]
  unfold finishView
  have hen : (tdefsOf "enum".toList (enumBlocks D)).map (·.text) = blocksOf "enum".toList (enumBlocks D) := by
    unfold tdefsOf blocksOf
    rw [List.map_map]; rfl
  cases raw with
  | true =>
    simp only [if_true, texts_written, hen]
    have hne : ∀ t ∈ D.tables, ∀ r ∈ t.rows, r ≠ [] := by
      intro t hm r hr
      obtain ⟨_, hc, _, _, hrows⟩ := tableOK_props io D.enums t (ht t hm)
      have := hrows r hr
      simp only [rowOK, Bool.and_eq_true] at this
      exact cellsOK_ne_nil D.enums t.cols r hc this.1
    have := rawTables_doc D htn hne
    simp only [docLoop] at this ⊢
    rw [this]
    simp [viewRT]
  | false =>
    simp only [Bool.false_eq_true, if_false, texts_written, hen]
    have hfin := finish_render io D hD
    unfold docCache at hfin
    simp only [docLoop]
    rw [hfin]
    simp only [viewRT, canon, List.map_map, Bool.false_eq_true, if_false]
    congr 2
    apply List.map_congr_left
    intro t _
    simp [ofRTable, rcolCanon, List.map_map, Function.comp_def]

/-! ## PART 3: documents after a write / an append; what `write()` renders -/

/-- **RenderLoop, first half**: the text `write()` builds from the view of a document is C01's
`textOf` (= what `renderFile` writes) of the document `writeDoc` -/
theorem renderView_doc (io : FloatIO F) (raw : Bool) (D : Doc F) (block : Str) :
    renderView io (viewRT raw D) block = textOf io (writeDoc D block) := by
  have e1 : enumBlocks (writeDoc D block) = enumBlocks D := rfl
  have e2 : structBlocks (writeDoc D block) = structBlocks D := rfl
  have e3 : ((viewRT raw D).tables.map (tableLines io)).flatten = (D.tables.map (rowLines io)).flatten := by
    simp only [viewRT, List.map_map]
    rfl
  unfold renderView textOf headText dataText
  rw [e1, e2, e3, blocksOf_struct]
  generalize "#%yanny\n".toList = h0
  have hpl : (pairLine : Str × Str → Str) = fun kv => kv.1 ++ ' ' :: kv.2 ++ ['\n'] := rfl
  simp only [viewRT, writeDoc, hpl, List.append_assoc, List.cons_append, List.nil_append]

theorem shape_writeDoc (D : Doc F) (block : Str) : shapeOf (writeDoc D block) = shapeOf D := rfl

theorem lstrip_lstrip (s : Str) : lstrip (lstrip s) = lstrip s := by
  unfold lstrip
  induction s with
  | nil => rfl
  | cons a t ih =>
    by_cases h : isSpace a = true
    · simp only [List.dropWhile_cons_of_pos h]; exact ih
    · simp [List.dropWhile_cons_of_neg h]

theorem rstrip_rstrip (s : Str) : rstrip (rstrip s) = rstrip s := by
  have := lstrip_lstrip s.reverse
  unfold lstrip at this
  unfold rstrip
  rw [List.reverse_reverse, this]

/-- `strip` is idempotent: a header value the object holds is written and read back unchanged -/
theorem strip_strip (s : Str) : strip (strip s) = strip s := by
  unfold strip
  rw [lstrip_rstrip_comm, lstrip_lstrip, rstrip_rstrip]

theorem docLoop_writeDoc (D : Doc F) (block : Str) : docLoop (writeDoc D block) = docLoop D := by
  simp [docLoop, writeDoc, List.map_map, Function.comp_def, strip_strip]

theorem setPair_strip (l : List (Str × Str)) (k v : Str) :
    (setPair l k v).map (fun kv => (kv.1, strip kv.2)) =
      setPair (l.map (fun kv => (kv.1, strip kv.2))) k (strip v) := by
  unfold setPair
  have hany : (l.map (fun kv => (kv.1, strip kv.2))).any (fun p => p.1 == k) = l.any (fun p => p.1 == k) := by
    simp [List.any_map, Function.comp_def]
  rw [hany]
  split
  · rw [List.map_map, List.map_map]
    apply List.map_congr_left
    intro p _
    simp only [Function.comp]
    split <;> rfl
  · simp

theorem foldPairs_strip (ps l : List (Str × Str)) :
    (ps.foldl (fun acc kv => setPair acc kv.1 kv.2) l).map (fun kv => (kv.1, strip kv.2)) =
      ps.foldl (fun acc kv => setPair acc kv.1 (strip kv.2)) (l.map (fun kv => (kv.1, strip kv.2))) := by
  induction ps generalizing l with
  | nil => rfl
  | cons kv ps ih => simp only [List.foldl, ih, setPair_strip]

theorem addRows_eq (rows : List (Str × List (List (Cell F)))) (T : Str) (rs : List (List (Cell F))) :
    rs.foldl (fun a r => addRow a T r) rows = rows.map (fun e => if e.1 == T then (e.1, e.2 ++ rs) else e) := by
  induction rs generalizing rows with
  | nil =>
    simp only [List.foldl, List.append_nil]
    conv => lhs; rw [← List.map_id rows]
    apply List.map_congr_left
    intro e _
    split <;> rfl
  | cons r rs ih =>
    simp only [List.foldl]
    rw [ih]
    simp only [addRow, List.map_map]
    apply List.map_congr_left
    intro e _
    simp only [Function.comp]
    by_cases h : (e.1 == T) = true
    · simp [h]
    · simp [h]

theorem applyRows_eq (gs : List (Str × List (List (Cell F)))) (rows : List (Str × List (List (Cell F)))) :
    gs.foldl (fun acc g => g.2.foldl (fun a r => addRow a g.1 r) acc) rows =
      rows.map (fun e => (e.1, e.2 ++ extraRows gs e.1)) := by
  induction gs generalizing rows with
  | nil =>
    simp only [List.foldl, extraRows, List.filter_nil, List.flatMap_nil, List.append_nil]
    conv => lhs; rw [← List.map_id rows]
    rfl
  | cons g gs ih =>
    simp only [List.foldl]
    rw [ih, addRows_eq, List.map_map]
    apply List.map_congr_left
    intro e _
    simp only [Function.comp, extraRows, List.filter_cons]
    by_cases h : (e.1 == g.1) = true
    · simp [h]
    · simp [h]

theorem shape_appendDoc (D : Doc F) (ps : List (Str × Str)) (gs : List (Str × List (List (Cell F)))) :
    shapeOf (appendDoc D ps gs) = shapeOf D := by
  simp [shapeOf, appendDoc, List.map_map, Function.comp_def]

theorem docLoop_appendDoc (D : Doc F) (ps : List (Str × Str)) (gs : List (Str × List (List (Cell F)))) :
    docLoop (appendDoc D ps gs) = applyAppend (docLoop D) ps gs := by
  simp only [docLoop, appendDoc, applyAppend, foldPairs_strip, applyRows_eq, List.map_map]
  rfl

/-! ## PART 4: the chunk `append()` writes consists of lines of C01's line domain -/

theorem header_lineOK (stamp : Str) (h : stampOK stamp = true) : '\n' ∉ stamp ∧ LineOK (headerLine stamp) := by
  simp only [stampOK, Bool.and_eq_true, Bool.not_eq_true'] at h
  have hn : '\n' ∉ stamp := by
    intro hm
    have : stamp.contains '\n' = true := by simpa using hm
    rw [this] at h
    exact absurd h.1 (by decide)
  refine ⟨hn, h.2, ?_, ?_⟩
  · intro hm
    simp only [headerLine, List.mem_append, List.mem_singleton] at hm
    rcases hm with (h' | h') | h'
    · exact hdrPrefix_noNl h'
    · exact hn h'
    · exact absurd h' (by decide)
  · apply noCont_of_last
    intro c hc
    have : c = '.' := by
      simp only [headerLine, List.getLast?_append, List.getLast?_singleton, Option.some_or] at hc
      exact (Option.some.inj hc).symm
    subst this
    exact ⟨by decide, by decide⟩

theorem appendTables_names (io : FloatIO F) (v : View F) (data : List (Str × AVal F))
    (syms : List (Str × List Str)) (gs : List (Str × List (List (Cell F))))
    (h : appendTables io v data syms = .ok gs) : gs.map (·.1) = syms.map (·.1) := by
  induction syms generalizing gs with
  | nil =>
    simp only [appendTables, Except.ok.injEq] at h
    subst h; rfl
  | cons t ts ih =>
    obtain ⟨sym, cols⟩ := t
    unfold appendTables at h
    cases hr : appendTableRows io v data sym cols with
    | error e => simp [hr] at h
    | ok rows =>
      cases hm : appendTables io v data ts with
      | error e => simp [hr, hm] at h
      | ok more =>
        simp only [hr, hm, Except.ok.injEq] at h
        subst h
        simp [ih more hm]

/-- **the appended chunk is in the line domain**: under `appendOK`, every pair and every group of
rows taken from the dictionary meets the hypotheses of `chunk_loop` (`PairOK`, `GroupOK`) and every
line of the chunk is a `LineOK` line (no `typedef`, no newline, no continuation mark) -/
theorem chunk_domain (io : FloatIO F) (h2 : H2 io) (raw : Bool) (D : Doc F)
    (data : List (Str × AVal F)) (stamp : Str) (ps : List (Str × Str))
    (gs : List (Str × List (List (Cell F)))) (hD : docOK io D = true)
    (hg : appendTables io (viewRT raw D) data (viewRT raw D).symbols = .ok gs)
    (hok : appendOK io D stamp ps gs = true) :
    '\n' ∉ stamp ∧ (∀ kv ∈ ps, PairOK (docSpecs D) kv) ∧ (∀ g ∈ gs, GroupOK io (docSpecs D) g) ∧
    ∀ l ∈ chunkLines io stamp ps gs, LineOK l := by
  simp only [appendOK, Bool.and_eq_true, List.all_eq_true] at hok
  obtain ⟨⟨hst, hps⟩, hD'⟩ := hok
  obtain ⟨hnl, hhl⟩ := header_lineOK stamp hst
  obtain ⟨_, _, _, _, htn, _, _, _⟩ := docOK_props io D hD
  obtain ⟨_, _, _, ht', _, _, _, _⟩ := docOK_props io (appendDoc D ps gs) hD'
  have hspn : ∀ k, k ∉ D.tables.map (fun t => upper t.name) → lookupSpec (docSpecs D) k = none := by
    intro k hk
    apply lookupSpec_none
    simpa [docSpecs, List.map_map, Function.comp_def] using hk
  have hpl : ∀ kv ∈ ps, PairLineOK (docSpecs D) kv :=
    fun kv hm => pairLineOK_of_pairOK (docSpecs D) _ hspn kv (hps kv hm)
  -- every group belongs to a table of the document, and its rows are rows of the new document
  have hgrp : ∀ g ∈ gs, ∃ t ∈ D.tables, g.1 = upper t.name ∧
      tableOK io D.enums ({ name := t.name, cols := t.cols, rows := t.rows ++ extraRows gs (upper t.name) } : TableD F) = true ∧
      ∀ r ∈ g.2, r ∈ t.rows ++ extraRows gs (upper t.name) := by
    intro g hgm
    have hn := appendTables_names io _ data _ gs hg
    have : g.1 ∈ (viewRT raw D).symbols.map (·.1) := by
      rw [← hn]; exact List.mem_map.mpr ⟨g, hgm, rfl⟩
    simp only [viewRT, List.map_map, List.mem_map, Function.comp] at this
    obtain ⟨t, htm, hte⟩ := this
    refine ⟨t, htm, hte.symm, ?_, ?_⟩
    · exact ht' _ (List.mem_map.mpr ⟨t, htm, rfl⟩)
    · intro r hr
      apply List.mem_append_right
      simp only [extraRows, List.mem_flatMap, List.mem_filter]
      exact ⟨g, ⟨hgm, by simp [hte]⟩, hr⟩
  have hlook : ∀ t ∈ D.tables, lookupSpec (docSpecs D) (upper t.name) = some (.ok (t.cols.map specOfCol)) := by
    intro t hm
    have := find_by_key D.tables (fun t => upper t.name)
      (fun t => (Except.ok (t.cols.map specOfCol) : Except String (List ColSpec))) htn t hm
    simp only [lookupSpec, docSpecs, this, Option.map_some]
  refine ⟨hnl, ?_, ?_, ?_⟩
  · intro kv hm
    obtain ⟨a1, a2, a3, a4, a5, a6, a7, a8⟩ := hpl kv hm
    exact ⟨a1, fun c hc => ⟨(a2 c hc).1, (a2 c hc).2.1⟩, a3, a4, a5, a6, a7, a8⟩
  · intro g hgm
    obtain ⟨t, htm, hname, htab, hrows⟩ := hgrp g hgm
    obtain ⟨b1, b2, sch, b3, b4⟩ := tabOK_of_tableOK io (docSpecs D) D.enums _ htab (hlook t htm)
    obtain ⟨g1, g2⟩ := g
    simp only at hname hrows
    subst hname
    exact ⟨b1, b2, sch, b3, fun r hr => b4 r (hrows r hr)⟩
  · intro l hl
    simp only [chunkLines, List.mem_cons, List.mem_append, List.mem_map, List.mem_flatMap] at hl
    rcases hl with rfl | ⟨kv, hkv, rfl⟩ | ⟨g, hgm, r, hr, rfl⟩
    · exact hhl
    · exact pair_lineOK (docSpecs D) _ kv (hps kv hkv) (hpl kv hkv)
    · obtain ⟨t, htm, hname, htab, hrows⟩ := hgrp g hgm
      rw [hname]
      exact row_lineOK io h2 D.enums _ htab r (hrows r hr)

/-! ## PART 5: `RestNl`, accepted appends through the view, the domain of a history -/

theorem linesText_ends (L : List Str) : linesText L = [] ∨ ∃ a, linesText L = a ++ ['\n'] := by
  rcases List.eq_nil_or_concat L with h | ⟨L', l, h⟩
  · left; rw [h]; rfl
  · right
    refine ⟨linesText L' ++ l, ?_⟩
    rw [h, List.concat_eq_append, linesText_append]
    simp [linesText]

/-- the text left for the line loop ends its last line (hypothesis `RestNl` of `parse_append`) -/
theorem restNl_appended (io : FloatIO F) (h2 : H2 io) (d : Doc F) (hd : docOK io d = true)
    (ls : List Str) (hls : ∀ l ∈ ls, LineOK l) : RestNl (textOf io d ++ linesText ls) := by
  unfold RestNl
  rw [front_appended io h2 d hd ls hls]
  simp only
  right
  have e : restOf io d ++ linesText ls =
      (headText d ++ (defsBlock ((enumBlocks d).map (fun _ => ([] : Str))) ++
        defsBlock ((structBlocks d).map (fun _ => ([] : Str))))) ++ '\n' :: linesText (dataLines io d ++ ls) := by
    unfold restOf
    rw [dataText_lines, linesText_append]
    simp only [List.append_assoc, List.cons_append]
  rw [e]
  rcases linesText_ends (dataLines io d ++ ls) with h | ⟨a, h⟩
  · rw [h]; exact ⟨_, rfl⟩
  · rw [h]
    exact ⟨(headText d ++ (defsBlock ((enumBlocks d).map (fun _ => ([] : Str))) ++
        defsBlock ((structBlocks d).map (fun _ => ([] : Str))))) ++ '\n' :: a, by simp⟩

theorem rawOK_shape (raw : Bool) (d D : Doc F) (h : shapeOf D = shapeOf d) : rawOK raw D = rawOK raw d := by
  simp only [shapeOf, Prod.mk.injEq] at h
  have key : ∀ X : Doc F, X.tables.all (fun t => t.cols.all (fun c => c.ty != NpT.f4)) =
      (X.tables.map (fun t => (t.name, t.cols))).all (fun p => p.2.all (fun c => c.ty != NpT.f4)) := by
    intro X; simp [List.all_map, Function.comp_def]
  unfold rawOK
  rw [key D, key d, h.2]

theorem acceptedAppend_of_view (io : FloatIO F) (s : State F) (data : List (Str × AVal F)) (v : View F)
    (hb : s.obj.filename ≠ []) (hv : s.obj.view = .ok v) (hf : (s.fs s.obj.filename).isSome = true) :
    acceptedAppend io s data = acceptedOf io v data := by
  unfold acceptedAppend acceptedOf
  simp only [isEmpty_false_of_ne _ hb, Bool.false_eq_true, if_false, hv, hf, if_true]
  cases appendPairs v data with
  | error e => rfl
  | ok ps =>
    cases appendTables io v data v.symbols with
    | error e => rfl
    | ok gs => rfl

end PydlVerif.Yanny

/-
C02, file level: the typedef expression (`matchTypedef`, `tdFind`, `tdRemove`) on a typedef block
written in ANY layout (arbitrary white space `g1 g2 g3 g4` between the parts), typedef-free pieces
of text, and enum labels read back from an enum body in any layout.
Generalises PART 2 of YannyFront.lean (which treats the writer's canonical `blockText`).
-/
import PydlVerif.Lemmas.YannyLayout
import PydlVerif.Lemmas.YannyGlue
namespace PydlVerif.YannyLayBlock
open PydlVerif.Yanny PydlVerif.YannyRT

/-- a typedef block in any layout -/
def blockL (K g1 g2 body g3 name g4 : Str) : Str :=
  "typedef".toList ++ g1 ++ K ++ g2 ++ '{' :: body ++ '}' :: g3 ++ name ++ g4 ++ [';']

theorem blockL_shape (K g1 g2 body g3 name g4 B : Str) : blockL K g1 g2 body g3 name g4 ++ B =
    "typedef".toList ++ (g1 ++ (K ++ (g2 ++ '{' :: (body ++ '}' :: (g3 ++ (name ++ (g4 ++ ';' :: B))))))) := by
  unfold blockL
  generalize "typedef".toList = T
  simp only [List.append_assoc, List.cons_append, List.nil_append]

theorem blockL_ne_nil (K g1 g2 body g3 name g4 : Str) : blockL K g1 g2 body g3 name g4 ≠ [] := by
  unfold blockL
  generalize "typedef".toList = T
  intro h
  have := congrArg List.length h
  simp at this

theorem kw_dropWhile (K R : Str) (hK : isKw K) : (K ++ R).dropWhile isSpace = K ++ R := by
  rcases hK with rfl | rfl
  · exact dropWhile_head_false _ _ _ (by decide)
  · exact dropWhile_head_false _ _ _ (by decide)

theorem space_ne {c d : Char} (hc : isSpace c = true) (hd : isSpace d = false) : c ≠ d := by
  intro e; subst e; rw [hc] at hd; cases hd

/-! ## the expression for the block's own keyword -/

theorem matchTypedef_lay (K g1 g2 body g3 name g4 B : Str) (hK : isKw K)
    (hg1 : g1 ≠ [] ∧ ∀ c ∈ g1, isSpace c = true) (hg2 : ∀ c ∈ g2, isSpace c = true)
    (hg3 : ∀ c ∈ g3, isSpace c = true) (hg4 : ∀ c ∈ g4, isSpace c = true)
    (hb : body ≠ [] ∧ '}' ∉ body) (hn : wordy name) :
    matchTypedef K (blockL K g1 g2 body g3 name g4 ++ B) =
      some ((blockL K g1 g2 body g3 name g4).length - 1, body, name) := by
  obtain ⟨hb1, hb2⟩ := hb
  obtain ⟨hn1, hn2⟩ := hn
  obtain ⟨hg1n, hg1s⟩ := hg1
  have hbody : ∀ a ∈ body, (a != '}') = true := by
    intro a ha; simp only [bne_iff_ne, ne_eq]; intro e; subst e; exact hb2 ha
  have hlen : (blockL K g1 g2 body g3 name g4 ++ B).length - B.length - 1 =
      (blockL K g1 g2 body g3 name g4).length - 1 := by
    simp only [List.length_append]; omega
  rw [← hlen]
  have hbe : body.isEmpty = false := by cases body with
    | nil => exact absurd rfl hb1
    | cons a t => rfl
  have hne : name.isEmpty = false := by cases name with
    | nil => exact absurd rfl hn1
    | cons a t => rfl
  have e5 : ∀ R : Str, (body ++ '}' :: R).takeWhile (· != '}') = body :=
    fun R => takeWhile_app_stop _ body '}' R hbody (by decide)
  have e6 : ∀ R : Str, (body ++ '}' :: R).dropWhile (· != '}') = '}' :: R :=
    fun R => dropWhile_app_stop _ body '}' R hbody (by decide)
  have hstop : ∀ x, (g4 ++ ';' :: B).head? = some x → isWordCh x = false := by
    intro x hx
    cases g4 with
    | nil =>
      simp only [List.nil_append, List.head?_cons, Option.some.injEq] at hx
      subst hx; decide
    | cons a t =>
      simp only [List.cons_append, List.head?_cons, Option.some.injEq] at hx
      subst hx
      exact isSpace_not_wordCh _ (hg4 _ (by simp))
  have e7 : (name ++ (g4 ++ ';' :: B)).takeWhile isWordCh = name :=
    takeWhile_append_stop' _ name _ hn2 hstop
  have e8 : (name ++ (g4 ++ ';' :: B)).dropWhile isWordCh = g4 ++ ';' :: B :=
    dropWhile_append_stop' _ name _ hn2 hstop
  have eN : ∀ R : Str, (name ++ R).dropWhile isSpace = name ++ R := by
    intro R
    cases name with
    | nil => exact absurd rfl hn1
    | cons a t => exact dropWhile_head_false _ _ _ (isSpace_not_word a (hn2 a (by simp)))
  have eG3 : ∀ R : Str, (g3 ++ (name ++ R)).dropWhile isSpace = name ++ R := by
    intro R
    rw [dropWhile_append_all _ _ _ hg3, eN]
  have eG2 : ∀ R : Str, (g2 ++ '{' :: R).dropWhile isSpace = '{' :: R :=
    fun R => dropWhile_app_stop _ g2 '{' R hg2 (by decide)
  have eG4 : (g4 ++ ';' :: B).dropWhile isSpace = ';' :: B :=
    dropWhile_app_stop _ g4 ';' B hg4 (by decide)
  rw [blockL_shape]
  cases g1 with
  | nil => exact absurd rfl hg1n
  | cons a g1' =>
    have ha : isSpace a = true := hg1s a (by simp)
    have eG1 : ∀ R : Str, (a :: (g1' ++ (K ++ R))).dropWhile isSpace = K ++ R := by
      intro R
      have := dropWhile_append_all isSpace (a :: g1') (K ++ R) hg1s
      rw [List.cons_append] at this
      rw [this, kw_dropWhile K R hK]
    rw [List.cons_append]
    unfold matchTypedef
    generalize ("typedef".toList ++ a :: (g1' ++ (K ++ (g2 ++ '{' :: (body ++ '}' :: (g3 ++ (name ++
      (g4 ++ ';' :: B)))))))).length = L
    rw [stripPrefix_append]
    simp only []
    rw [if_neg (by simp [ha]), eG1, stripPrefix_append]
    simp only []
    rw [eG2]
    simp only []
    rw [e5, e6]
    simp only [hbe]
    rw [if_neg (by simp), eG3, e7, e8, eG4]
    simp [hne]

theorem tdFind_lay_same (K g1 g2 body g3 name g4 B : Str) (hK : isKw K)
    (hg1 : g1 ≠ [] ∧ ∀ c ∈ g1, isSpace c = true) (hg2 : ∀ c ∈ g2, isSpace c = true)
    (hg3 : ∀ c ∈ g3, isSpace c = true) (hg4 : ∀ c ∈ g4, isSpace c = true)
    (hb : body ≠ [] ∧ '}' ∉ body) (hn : wordy name) :
    tdFind K 0 (blockL K g1 g2 body g3 name g4 ++ B) =
      ⟨blockL K g1 g2 body g3 name g4, body, name⟩ :: tdFind K 0 B :=
  tdFind_at_match K _ B body name (blockL_ne_nil K g1 g2 body g3 name g4)
    (matchTypedef_lay K g1 g2 body g3 name g4 B hK hg1 hg2 hg3 hg4 hb hn)

theorem tdRemove_lay_same (K g1 g2 body g3 name g4 B : Str) (hK : isKw K)
    (hg1 : g1 ≠ [] ∧ ∀ c ∈ g1, isSpace c = true) (hg2 : ∀ c ∈ g2, isSpace c = true)
    (hg3 : ∀ c ∈ g3, isSpace c = true) (hg4 : ∀ c ∈ g4, isSpace c = true)
    (hb : body ≠ [] ∧ '}' ∉ body) (hn : wordy name) :
    tdRemove K 0 (blockL K g1 g2 body g3 name g4 ++ B) = tdRemove K 0 B :=
  tdRemove_at_match K _ B body name (blockL_ne_nil K g1 g2 body g3 name g4)
    (matchTypedef_lay K g1 g2 body g3 name g4 B hK hg1 hg2 hg3 hg4 hb hn)

/-! ## the expression for the other keyword -/

/-- a stretch without the letter `t` starts no match -/
theorem noMatchIn_pre_nt (kw X Y B : Str) (hX : 't' ∉ X) (h : noMatchIn kw Y B) :
    noMatchIn kw (X ++ Y) B := by
  induction X with
  | nil => simpa using h
  | cons c X' ih =>
    rw [List.cons_append]
    apply noMatchIn_cons_nt
    · intro e; exact hX (by simp [e])
    · exact ih (fun hm => hX (List.mem_cons_of_mem _ hm))

theorem noMatchIn_nt (kw X B : Str) (hX : 't' ∉ X) : noMatchIn kw X B := by
  have := noMatchIn_pre_nt kw X [] B hX (noMatchIn_nil _ _)
  simpa using this

/-- a `t` followed by a non-empty stretch without `t` and `y` -/
theorem noMatchIn_t_then (kw X B : Str) (hne : X ≠ []) (ht : 't' ∉ X) (hy : 'y' ∉ X) :
    noMatchIn kw ('t' :: X) B := by
  cases X with
  | nil => exact absurd rfl hne
  | cons c X' =>
    apply noMatchIn_cons_t2
    · intro e; exact hy (by simp [e])
    · exact noMatchIn_nt kw _ B ht

theorem space_not_mem (g : Str) (d : Char) (hg : ∀ c ∈ g, isSpace c = true) (hd : isSpace d = false) :
    d ∉ g := fun hm => by
  have := hg d hm
  rw [hd] at this; cases this

/-- at the head of the block the other keyword does not follow `typedef` -/
theorem matchTypedef_head_other (K kw g1 R : Str) (hK : isKw K) (hkw : isKw kw) (hne : K ≠ kw)
    (hg1 : g1 ≠ [] ∧ ∀ c ∈ g1, isSpace c = true) :
    matchTypedef kw ("typedef".toList ++ (g1 ++ (K ++ R))) = none := by
  obtain ⟨hg1n, hg1s⟩ := hg1
  cases g1 with
  | nil => exact absurd rfl hg1n
  | cons a g1' =>
    have ha : isSpace a = true := hg1s a (by simp)
    have eG1 : (a :: (g1' ++ (K ++ R))).dropWhile isSpace = K ++ R := by
      have := dropWhile_append_all isSpace (a :: g1') (K ++ R) hg1s
      rw [List.cons_append] at this
      rw [this, kw_dropWhile K R hK]
    have hsp : stripPrefix kw (K ++ R) = none := by
      rcases hK with rfl | rfl <;> rcases hkw with rfl | rfl
      · exact absurd rfl hne
      · rfl
      · rfl
      · exact absurd rfl hne
    rw [List.cons_append]
    unfold matchTypedef
    rw [stripPrefix_append]
    simp only []
    rw [if_neg (by simp [ha]), eG1, hsp]

theorem noMatchIn_kw_tail (K kw g2 R : Str) (hK : isKw K) (hg2 : ∀ c ∈ g2, isSpace c = true) :
    noMatchIn kw (K ++ (g2 ++ ['{'])) R := by
  have ht : 't' ∉ g2 ++ ['{'] := by
    intro hm
    rcases List.mem_append.mp hm with hm | hm
    · exact space_not_mem g2 't' hg2 (by decide) hm
    · exact absurd hm (by decide)
  have hy : 'y' ∉ g2 ++ ['{'] := by
    intro hm
    rcases List.mem_append.mp hm with hm | hm
    · exact space_not_mem g2 'y' hg2 (by decide) hm
    · exact absurd hm (by decide)
  rcases hK with rfl | rfl
  · show noMatchIn kw ('s' :: 't' :: 'r' :: 'u' :: 'c' :: 't' :: (g2 ++ ['{'])) R
    apply noMatchIn_cons_nt _ _ _ _ (by decide)
    apply noMatchIn_cons_t2 _ _ _ _ (by decide)
    iterate 3 apply noMatchIn_cons_nt _ _ _ _ (by decide)
    exact noMatchIn_t_then kw _ R (by simp) ht hy
  · show noMatchIn kw ('e' :: 'n' :: 'u' :: 'm' :: (g2 ++ ['{'])) R
    iterate 4 apply noMatchIn_cons_nt _ _ _ _ (by decide)
    exact noMatchIn_nt kw _ R ht

theorem noMatchIn_lay_head (K kw g1 g2 R : Str) (hK : isKw K) (hkw : isKw kw) (hne : K ≠ kw)
    (hg1 : g1 ≠ [] ∧ ∀ c ∈ g1, isSpace c = true) (hg2 : ∀ c ∈ g2, isSpace c = true) :
    noMatchIn kw ("typedef".toList ++ (g1 ++ (K ++ (g2 ++ ['{'])))) R := by
  have h0 := matchTypedef_head_other K kw g1 ((g2 ++ ['{']) ++ R) hK hkw hne hg1
  have e : "typedef".toList = 't' :: "ypedef".toList := rfl
  rw [e] at h0 ⊢
  rw [List.cons_append] at h0 ⊢
  apply noMatchIn_cons
  · rw [← h0]
    simp only [List.append_assoc, List.cons_append, List.nil_append]
  · rw [← List.append_assoc]
    apply noMatchIn_pre_nt
    · intro hm
      rcases List.mem_append.mp hm with hm | hm
      · exact absurd hm (by decide)
      · exact space_not_mem g1 't' hg1.2 (by decide) hm
    · exact noMatchIn_kw_tail K kw g2 R hK hg2

/-- the expression for the OTHER keyword matches nowhere inside the block -/
theorem noMatchIn_lay_other (K kw g1 g2 body g3 name g4 B : Str) (hK : isKw K) (hkw : isKw kw) (hne : K ≠ kw)
    (hg1 : g1 ≠ [] ∧ ∀ c ∈ g1, isSpace c = true) (hg2 : ∀ c ∈ g2, isSpace c = true)
    (hg3 : ∀ c ∈ g3, isSpace c = true) (hg4 : ∀ c ∈ g4, isSpace c = true)
    (hb : '{' ∉ body) (hn : wordy name) : noMatchIn kw (blockL K g1 g2 body g3 name g4) B := by
  have es : blockL K g1 g2 body g3 name g4 =
      ("typedef".toList ++ (g1 ++ (K ++ (g2 ++ ['{'])))) ++ (body ++ '}' :: (g3 ++ (name ++ (g4 ++ [';'])))) := by
    unfold blockL
    generalize "typedef".toList = T
    simp only [List.append_assoc, List.cons_append, List.nil_append]
  rw [es]
  apply noMatchIn_append
  · exact noMatchIn_lay_head K kw g1 g2 _ hK hkw hne hg1 hg2
  · apply noMatchIn_noBrace _ _ _ hkw
    · intro hm
      simp only [List.mem_append, List.mem_cons, List.mem_nil_iff, or_false] at hm
      rcases hm with hm | hm | hm | hm | hm | hm
      · exact hb hm
      · exact absurd hm (by decide)
      · exact space_not_mem g3 '{' hg3 (by decide) hm
      · exact absurd (hn.2 _ hm) (by decide)
      · exact space_not_mem g4 '{' hg4 (by decide) hm
      · exact absurd hm (by decide)
    · have e2 : body ++ '}' :: (g3 ++ (name ++ (g4 ++ [';']))) =
          (body ++ '}' :: (g3 ++ (name ++ g4))) ++ [';'] := by
        simp only [List.append_assoc, List.cons_append]
      rw [e2, List.getLast?_append]
      rfl

theorem tdFind_lay_other (K kw g1 g2 body g3 name g4 B : Str) (hK : isKw K) (hkw : isKw kw) (hne : K ≠ kw)
    (hg1 : g1 ≠ [] ∧ ∀ c ∈ g1, isSpace c = true) (hg2 : ∀ c ∈ g2, isSpace c = true)
    (hg3 : ∀ c ∈ g3, isSpace c = true) (hg4 : ∀ c ∈ g4, isSpace c = true)
    (hb : '{' ∉ body) (hn : wordy name) :
    tdFind kw 0 (blockL K g1 g2 body g3 name g4 ++ B) = tdFind kw 0 B :=
  tdFind_noMatch kw _ B (noMatchIn_lay_other K kw g1 g2 body g3 name g4 B hK hkw hne hg1 hg2 hg3 hg4 hb hn)

theorem tdRemove_lay_other (K kw g1 g2 body g3 name g4 B : Str) (hK : isKw K) (hkw : isKw kw) (hne : K ≠ kw)
    (hg1 : g1 ≠ [] ∧ ∀ c ∈ g1, isSpace c = true) (hg2 : ∀ c ∈ g2, isSpace c = true)
    (hg3 : ∀ c ∈ g3, isSpace c = true) (hg4 : ∀ c ∈ g4, isSpace c = true)
    (hb : '{' ∉ body) (hn : wordy name) :
    tdRemove kw 0 (blockL K g1 g2 body g3 name g4 ++ B) =
      blockL K g1 g2 body g3 name g4 ++ tdRemove kw 0 B :=
  tdRemove_noMatch kw _ B (noMatchIn_lay_other K kw g1 g2 body g3 name g4 B hK hkw hne hg1 hg2 hg3 hg4 hb hn)

/-! ## typedef-free pieces -/

/-- a piece of text without the word `typedef`, followed by the end of the text or by a character
that is not a letter of `typedef` -/
theorem noMatchIn_piece (kw l B : Str) (hl : noTypedef l = true)
    (hB : B = [] ∨ ∃ c B', B = c :: B' ∧ c ∉ "typedef".toList) : noMatchIn kw l B := by
  rcases hB with rfl | ⟨c, B', rfl, hc⟩
  · induction l with
    | nil => exact noMatchIn_nil _ _
    | cons a t ih =>
      obtain ⟨h1, h2⟩ := noTypedef_cons a t hl
      apply noMatchIn_cons _ _ _ _ _ (ih h2)
      apply matchTypedef_of_strip_none
      rw [List.append_nil]
      exact h1
  · exact noMatchIn_noTypedef kw l c B' hc hl

theorem noTypedef_cons_intro (c : Char) (t : Str) (h1 : stripPrefix "typedef".toList (c :: t) = none)
    (h2 : noTypedef t = true) : noTypedef (c :: t) = true := by
  simp only [noTypedef, hasSub, findSub, Bool.not_eq_true'] at h2 ⊢
  rw [h1]
  simpa using h2

theorem hasSub_suffix (sub x y : Str) (h : hasSub sub (x ++ y) = false) : hasSub sub y = false := by
  induction x with
  | nil => simpa using h
  | cons c t ih =>
    apply ih
    simp only [hasSub, List.cons_append, findSub] at h ⊢
    split at h
    · simp at h
    · simpa using h

theorem noTypedef_suffix (x y : Str) (h : noTypedef (x ++ y) = true) : noTypedef y = true := by
  simp only [noTypedef, Bool.not_eq_true'] at h ⊢
  exact hasSub_suffix _ x y h

theorem stripPrefix_typedef_nt (c : Char) (t : Str) (hc : c ≠ 't') :
    stripPrefix "typedef".toList (c :: t) = none := by
  show stripPrefix ('t' :: "ypedef".toList) (c :: t) = none
  simp [stripPrefix, Ne.symm hc]

theorem noTypedef_no_t (s : Str) (h : 't' ∉ s) : noTypedef s = true := by
  induction s with
  | nil => rfl
  | cons c t ih =>
    apply noTypedef_cons_intro
    · exact stripPrefix_typedef_nt c t (fun e => h (by simp [e]))
    · exact ih (fun hm => h (List.mem_cons_of_mem _ hm))

/-- gluing two typedef-free pieces with a separator character that is not a letter of the word -/
theorem noTypedef_glue (x y : Str) (c : Char) (hx : noTypedef x = true) (hy : noTypedef y = true)
    (hc : c ∉ "typedef".toList) : noTypedef (x ++ c :: y) = true := by
  induction x with
  | nil =>
    apply noTypedef_cons_intro _ _ _ hy
    exact stripPrefix_typedef_nt c y (fun e => hc (by rw [e]; decide))
  | cons a t ih =>
    obtain ⟨h1, h2⟩ := noTypedef_cons a t hx
    rw [List.cons_append]
    apply noTypedef_cons_intro _ _ _ (ih h2)
    cases hs : stripPrefix "typedef".toList (a :: (t ++ c :: y)) with
    | none => rfl
    | some r =>
      obtain ⟨r', hr'⟩ := stripPrefix_cut _ (a :: t) y c r hs hc
      rw [h1] at hr'
      cases hr'

/-! ## enum labels -/

theorem wordy_noComma (l : Str) (h : wordy l) : ',' ∉ l := fun hm => absurd (h.2 _ hm) (by decide)

theorem space_noComma (w : Str) (h : ∀ c ∈ w, isSpace c = true) : ',' ∉ w :=
  space_not_mem w ',' h (by decide)

theorem wordy_head (l R : Str) (h : wordy l) : ∀ c, (l ++ R).head? = some c → isSpace c = false := by
  intro c hc
  cases l with
  | nil => exact absurd rfl h.1
  | cons a t =>
    simp only [List.cons_append, List.head?_cons, Option.some.injEq] at hc
    subst hc
    exact isSpace_not_word _ (h.2 _ (by simp))

theorem wordy_last (l : Str) (h : wordy l) : ∀ c, l.getLast? = some c → isSpace c = false := by
  intro c hc
  exact isSpace_not_word _ (h.2 _ (List.mem_of_getLast? hc))

/-- the rendered label list starts and ends with a label character -/
theorem renderLabels_ends (labels : List Str) : ∀ (ws : List Str) (lbl : Str), (∀ l ∈ labels, wordy l) →
    renderLabels labels ws = some lbl →
    lbl ≠ [] ∧ (∀ c R, (lbl ++ R).head? = some c → isSpace c = false) ∧
      (∀ c, lbl.getLast? = some c → isSpace c = false) := by
  induction labels with
  | nil => intro ws lbl _ hr; simp [renderLabels] at hr
  | cons a t ih =>
    intro ws lbl hl hr
    have ha : wordy a := hl a (by simp)
    cases t with
    | nil =>
      cases ws with
      | nil =>
        simp only [renderLabels, Option.some.injEq] at hr
        subst hr
        exact ⟨ha.1, fun c R hc => wordy_head a R ha c hc, wordy_last a ha⟩
      | cons w ws => simp [renderLabels] at hr
    | cons b t =>
      cases ws with
      | nil => simp [renderLabels] at hr
      | cons w ws =>
        simp only [renderLabels] at hr
        cases hq : renderLabels (b :: t) ws with
        | none => rw [hq] at hr; cases hr
        | some r =>
          rw [hq] at hr
          simp only [Option.some.injEq] at hr
          subst hr
          obtain ⟨r1, _, r3⟩ := ih ws r (fun l h => hl l (List.mem_cons_of_mem _ h)) hq
          refine ⟨?_, ?_, ?_⟩
          · cases a with
            | nil => exact absurd rfl ha.1
            | cons x a' => simp
          · intro c R hc
            have e : a ++ ',' :: w ++ r ++ R = a ++ (',' :: (w ++ r) ++ R) := by
              simp only [List.append_assoc, List.cons_append]
            rw [e] at hc
            exact wordy_head a _ ha c hc
          · intro c hc
            rw [List.getLast?_append] at hc
            cases hr : r.getLast? with
            | none => exact absurd (List.getLast?_eq_none_iff.mp hr) r1
            | some z =>
              rw [hr] at hc
              simp only [Option.some_or, Option.some.injEq] at hc
              subst hc
              exact r3 _ hr

theorem splitCommaAux_lay (labels : List Str) : ∀ (ws : List Str) (lbl cur : Str), (∀ l ∈ labels, wordy l) →
    (∀ w ∈ ws, ∀ c ∈ w, isSpace c = true) → renderLabels labels ws = some lbl →
    ∃ a rest rest', labels = a :: rest ∧ splitCommaAux lbl cur = (cur.reverse ++ a) :: rest' ∧
      rest'.map lstrip = rest := by
  induction labels with
  | nil => intro ws lbl cur _ _ hr; simp [renderLabels] at hr
  | cons a t ih =>
    intro ws lbl cur hl hws hr
    have ha : wordy a := hl a (by simp)
    cases t with
    | nil =>
      cases ws with
      | nil =>
        simp only [renderLabels, Option.some.injEq] at hr
        subst hr
        refine ⟨a, [], [], rfl, ?_, rfl⟩
        have := splitCommaAux_noComma a [] cur (wordy_noComma a ha)
        rw [List.append_nil] at this
        rw [this]
        simp [splitCommaAux]
      | cons w ws => simp [renderLabels] at hr
    | cons b t =>
      cases ws with
      | nil => simp [renderLabels] at hr
      | cons w ws =>
        simp only [renderLabels] at hr
        cases hq : renderLabels (b :: t) ws with
        | none => rw [hq] at hr; cases hr
        | some r =>
          rw [hq] at hr
          simp only [Option.some.injEq] at hr
          subst hr
          have hw : ∀ c ∈ w, isSpace c = true := hws w (by simp)
          have hb : wordy b := hl b (by simp)
          obtain ⟨a2, rest2, rest2', e1, e2, e3⟩ := ih ws r w.reverse
            (fun l h => hl l (List.mem_cons_of_mem _ h)) (fun x h => hws x (List.mem_cons_of_mem _ h)) hq
          simp only [List.cons.injEq] at e1
          obtain ⟨e1a, e1b⟩ := e1
          subst e1a e1b
          refine ⟨a, b :: t, (w ++ b) :: rest2', rfl, ?_, ?_⟩
          · have e : a ++ ',' :: w ++ r = a ++ (',' :: (w ++ r)) := by
              simp only [List.append_assoc, List.cons_append]
            rw [e, splitCommaAux_noComma a _ cur (wordy_noComma a ha), splitCommaAux]
            simp only [beq_self_eq_true, if_true]
            rw [splitCommaAux_noComma w r [] (space_noComma w hw), List.append_nil, e2]
            simp
          · simp only [List.map_cons, e3, List.cons.injEq, and_true]
            show (w ++ b).dropWhile isSpace = b
            rw [dropWhile_append_all _ _ _ hw]
            have := wordy_head b [] hb
            rw [List.append_nil] at this
            exact lstrip_id b this

/-- enum labels read back from an enum body in any layout: `op a₁ , w₁ a₂ , w₂ a₃ … cl` -/
theorem splitComma_lay (labels ws : List Str) (op cl lbl : Str) (hl : ∀ l ∈ labels, wordy l)
    (hws : ∀ w ∈ ws, ∀ c ∈ w, isSpace c = true) (hop : ∀ c ∈ op, isSpace c = true)
    (hcl : ∀ c ∈ cl, isSpace c = true) (hr : renderLabels labels ws = some lbl) :
    splitComma (strip (op ++ lbl ++ cl)) = labels := by
  obtain ⟨h1, h2, h3⟩ := renderLabels_ends labels ws lbl hl hr
  have es : strip (op ++ lbl ++ cl) = lbl := by
    unfold strip lstrip
    rw [List.append_assoc, dropWhile_append_all _ _ _ hop, lstrip_id _ (fun c hc => h2 c cl hc)]
    exact rstrip_append_space lbl cl hcl h3
  rw [es]
  obtain ⟨a, rest, rest', e1, e2, e3⟩ := splitCommaAux_lay labels ws lbl [] hl hws hr
  unfold splitComma
  rw [e2]
  simp only [List.reverse_nil, List.nil_append]
  rw [e3, e1]

end PydlVerif.YannyLayBlock

/-
C02: continuation joining of a rendered layout.

`renders` writes every separator physically (`Sep.phys`: `a \ b <eol> c`); Python's
`re.sub(r'\\\s*\n', ' ', text)` (`joinCont`) turns that text into the one rendered with
`Sep.logical` (`a ' ' c`): theorem `joinCont_renders`.
-/
import PydlVerif.Lemmas.YannyLayout
import PydlVerif.Lemmas.YannyGlue
namespace PydlVerif.YannyLayCont
open PydlVerif.Yanny PydlVerif.YannyRT
variable {F : Type}

/-! ### `contGo` on plain text and on one continuation -/

/-- the white-space run at the head of `rest` has no newline -/
def SafeR (rest : Str) : Prop := '\n' ∉ rest.takeWhile isSpace

theorem safeR_of_head (ch : Char) (w : Str) (h : isSpace ch = false) : SafeR (ch :: w) := by
  unfold SafeR
  rw [List.takeWhile_cons_of_neg (by simp [h])]
  simp

theorem contGo_plain (x rest : Str) (hx : '\n' ∉ x) (hr : SafeR rest) :
    contGo 0 (x ++ rest) = x ++ contGo 0 rest ∧ SafeR (x ++ rest) := by
  induction x with
  | nil => exact ⟨rfl, hr⟩
  | cons c t ih =>
    have hc : c ≠ '\n' := fun e => hx (by simp [e])
    have ht : '\n' ∉ t := fun h => hx (List.mem_cons_of_mem _ h)
    obtain ⟨ih1, ih2⟩ := ih ht
    refine ⟨?_, ?_⟩
    · simp only [List.cons_append, contGo]
      rw [lastNlLen_zero _ ih2]
      simp [ih1]
    · unfold SafeR
      simp only [List.cons_append, List.takeWhile_cons]
      split
      · intro h
        simp only [List.mem_cons] at h
        rcases h with h | h
        · exact hc h.symm
        · exact ih2 h
      · simp

theorem contGo_nobs (x R : Str) (h : '\\' ∉ x) : contGo 0 (x ++ R) = x ++ contGo 0 R := by
  induction x with
  | nil => rfl
  | cons c t ih =>
    have hc : (c == '\\') = false := by
      simp only [beq_eq_false_iff_ne, ne_eq]
      intro e; exact h (by simp [e])
    have ht : '\\' ∉ t := fun hm => h (List.mem_cons_of_mem _ hm)
    simp only [List.cons_append, contGo, hc, ih ht]
    simp

theorem contGo_skip (x y : Str) : contGo x.length (x ++ y) = contGo 0 y := by
  induction x with
  | nil => rfl
  | cons c t ih => simp only [List.length_cons, List.cons_append, contGo, ih]

theorem lastNlLen_at (q W : Str) (hW : '\n' ∉ W) : lastNlLen (q ++ '\n' :: W) = q.length + 1 := by
  unfold lastNlLen
  have hr : (q ++ '\n' :: W).reverse = W.reverse ++ '\n' :: q.reverse := by simp
  rw [hr, dropWhile_app_stop _ W.reverse '\n' q.reverse _ (by decide)]
  · simp
  · intro a ha
    have ha' : a ∈ W := by simpa using ha
    simp only [bne_iff_ne, ne_eq]
    intro e; subst e; exact hW ha'

theorem blank_nonl (l : Str) (h : ∀ c ∈ l, isBlank c = true) : '\n' ∉ l := by
  intro hm; exact absurd (h _ hm) (by decide)

theorem blank_nobs (l : Str) (h : ∀ c ∈ l, isBlank c = true) : '\\' ∉ l := by
  intro hm; exact absurd (h _ hm) (by decide)

theorem eol_split (b : Str) (crlf : Bool) (hb : ∀ ch ∈ b, isBlank ch = true) :
    ∃ q, b ++ eol crlf = q ++ ['\n'] ∧ ∀ ch ∈ q, isSpace ch = true := by
  cases crlf with
  | false =>
    exact ⟨b, by simp [eol], fun ch hc => isBlank_isSpace ch (hb ch hc)⟩
  | true =>
    refine ⟨b ++ ['\r'], by simp [eol], ?_⟩
    intro ch hc
    simp only [List.mem_append, List.mem_cons, List.mem_nil_iff, or_false] at hc
    rcases hc with hc | hc
    · exact isBlank_isSpace ch (hb ch hc)
    · subst hc; decide

theorem contGo_cont (b c : Str) (crlf : Bool) (rest : Str) (hb : ∀ ch ∈ b, isBlank ch = true)
    (hc : ∀ ch ∈ c, isBlank ch = true) (hr : SafeR rest) :
    contGo 0 ('\\' :: (b ++ eol crlf ++ c) ++ rest) = ' ' :: (c ++ contGo 0 rest) ∧
      SafeR ('\\' :: (b ++ eol crlf ++ c) ++ rest) := by
  refine ⟨?_, safeR_of_head _ _ (by decide)⟩
  obtain ⟨q, hq, hqs⟩ := eol_split b crlf hb
  obtain ⟨p1, p2⟩ := contGo_plain c rest (blank_nonl c hc) hr
  have htxt : (b ++ eol crlf ++ c) ++ rest = (q ++ ['\n']) ++ (c ++ rest) := by
    rw [hq]; simp
  have htw : ((q ++ ['\n']) ++ (c ++ rest)).takeWhile isSpace =
      q ++ '\n' :: (c ++ rest).takeWhile isSpace := by
    rw [List.takeWhile_append_of_pos]
    · simp
    · intro a ha
      simp only [List.mem_append, List.mem_cons, List.mem_nil_iff, or_false] at ha
      rcases ha with ha | ha
      · exact hqs a ha
      · subst ha; decide
  have hk : lastNlLen (((q ++ ['\n']) ++ (c ++ rest)).takeWhile isSpace) = (q ++ ['\n']).length := by
    rw [htw, lastNlLen_at _ _ p2]; simp
  rw [List.cons_append, htxt]
  simp only [contGo, beq_self_eq_true, if_true, hk]
  rw [if_pos (by simp), contGo_skip, p1]

/-! ### physical / logical text pairs -/

inductive Lay2 : Str → Str → Prop
  | plain (x : Str) : '\n' ∉ x → Lay2 x x
  | cont (b c : Str) (crlf : Bool) : (∀ ch ∈ b, isBlank ch = true) → (∀ ch ∈ c, isBlank ch = true) →
      Lay2 ('\\' :: (b ++ eol crlf ++ c)) (' ' :: c)
  | app {x y x' y' : Str} : Lay2 x y → Lay2 x' y' → Lay2 (x ++ x') (y ++ y')

theorem lay2_go {x y : Str} (h : Lay2 x y) :
    ∀ rest, SafeR rest → contGo 0 (x ++ rest) = y ++ contGo 0 rest ∧ SafeR (x ++ rest) := by
  induction h with
  | plain x hx => intro rest hr; exact contGo_plain x rest hx hr
  | cont b c crlf hb hc =>
    intro rest hr
    have := contGo_cont b c crlf rest hb hc hr
    simpa using this
  | app h1 h2 ih1 ih2 =>
    intro rest hr
    obtain ⟨a2, s2⟩ := ih2 rest hr
    obtain ⟨a1, s1⟩ := ih1 _ s2
    rw [List.append_assoc, List.append_assoc]
    exact ⟨by rw [a1, a2], s1⟩

theorem lay2_nil {x y : Str} (h : Lay2 x y) : y = [] → x = [] := by
  induction h with
  | plain x _ => exact id
  | cont b c crlf _ _ => intro e; simp at e
  | app h1 h2 ih1 ih2 =>
    intro e
    simp only [List.append_eq_nil_iff] at e
    rw [ih1 e.1, ih2 e.2]; rfl

theorem lay2_split_last {x y : Str} (h : Lay2 x y) :
    ∀ ch, y.getLast? = some ch → isSpace ch = false →
      ∃ I I', x = I ++ [ch] ∧ y = I' ++ [ch] ∧ Lay2 I I' := by
  induction h with
  | plain x hx =>
    intro ch hl _
    obtain ⟨ys, rfl⟩ := List.getLast?_eq_some_iff.mp hl
    exact ⟨ys, ys, rfl, rfl, Lay2.plain ys (fun hm => hx (List.mem_append_left _ hm))⟩
  | cont b c crlf hb hc =>
    intro ch hl hs
    have hm : ch ∈ ' ' :: c := List.mem_of_getLast? hl
    simp only [List.mem_cons] at hm
    rcases hm with hm | hm
    · subst hm; exact absurd hs (by decide)
    · have := isBlank_isSpace ch (hc ch hm)
      rw [this] at hs; cases hs
  | @app x y x' y' h1 h2 ih1 ih2 =>
    intro ch hl hs
    cases hy : y' with
    | nil =>
      have hx' := lay2_nil h2 hy
      subst hx'
      rw [hy, List.append_nil] at hl
      obtain ⟨I, I', e1, e2, hI⟩ := ih1 ch hl hs
      exact ⟨I, I', by simpa using e1, by simpa using e2, hI⟩
    | cons a t =>
      have hl2 : y'.getLast? = some ch := by
        rw [List.getLast?_append, hy] at hl
        rw [hy]
        cases hg : (a :: t).getLast? with
        | none => simp at hg
        | some z => rw [hg] at hl; simpa using hl
      obtain ⟨I, I', e1, e2, hI⟩ := ih2 ch hl2 hs
      refine ⟨x ++ I, y ++ I', ?_, ?_, Lay2.app h1 hI⟩
      · rw [e1, List.append_assoc]
      · rw [← hy, e2, List.append_assoc]

/-! ### separators, tokens, cells -/

theorem all_blank {l : Str} (h : l.all isBlank = true) : ∀ c ∈ l, isBlank c = true :=
  List.all_eq_true.mp h

theorem sep_lay2 (s : Sep) (h : s.ok = true) : Lay2 s.phys s.logical := by
  obtain ⟨a, cont⟩ := s
  cases cont with
  | none =>
    simp only [Sep.ok, Bool.and_eq_true] at h
    exact Lay2.plain a (blank_nonl a (all_blank h.1))
  | some x =>
    obtain ⟨b, crlf, c⟩ := x
    simp only [Sep.ok, Bool.and_eq_true] at h
    exact Lay2.app (Lay2.plain a (blank_nonl a (all_blank h.1)))
      (Lay2.cont b c crlf (all_blank h.2.1) (all_blank h.2.2))

/-- the last character, if any, is not white space -/
def LastNS (b : Str) : Prop := ∀ ch, b.getLast? = some ch → isSpace ch = false

theorem tok_lay2 (q : QStyle) (s : Str) (hl : tokLegal q s = true ∨ elemLegal q s = true) :
    Lay2 (quoteTok q s) (quoteTok q s) :=
  Lay2.plain _ (quoteTok_props q s hl).2.2

theorem tok_last (q : QStyle) (s : Str) (hl : tokLegal q s = true ∨ elemLegal q s = true) :
    LastNS (quoteTok q s) := by
  intro ch hch
  cases q with
  | bare =>
    have hbl : bareLegal s = true := by
      rcases hl with hl | hl
      · simpa [tokLegal] using hl
      · simp only [elemLegal, Bool.and_eq_true] at hl; exact hl.1
    obtain ⟨_, hall, _⟩ := bareLegal_props s hbl
    exact (hall ch (List.mem_of_getLast? hch)).1
  | quoted =>
    have : quoteTok .quoted s = ('"' :: s) ++ ['"'] := rfl
    rw [this, List.getLast?_concat] at hch
    injection hch with hch; subst hch; decide
  | braced pad =>
    have : quoteTok (.braced pad) s = ('{' :: (pad ++ s)) ++ ['}'] := rfl
    rw [this, List.getLast?_concat] at hch
    injection hch with hch; subst hch; decide

theorem lastNS_append (a b : Str) (ha : LastNS a) (hb : LastNS b) : LastNS (a ++ b) := by
  intro ch hch
  rw [List.getLast?_append] at hch
  cases hg : b.getLast? with
  | none => rw [hg] at hch; exact ha ch (by simpa using hch)
  | some z => rw [hg] at hch; simp at hch; subst hch; exact hb z hg

theorem lastNS_append_ne (a b : Str) (hne : b ≠ []) (hb : LastNS b) : LastNS (a ++ b) := by
  intro ch hch
  rw [List.getLast?_append] at hch
  cases hg : b.getLast? with
  | none => exact absurd (List.getLast?_eq_none_iff.mp hg) hne
  | some z => rw [hg] at hch; simp at hch; subst hch; exact hb z hg

theorem elems_lay2 (io : FloatIO F) (vs : List (Sc F)) (ls : List (Sep × QStyle))
    (hok : elemsLayOK io vs ls = true) (p : Str) (hp : renderElems Sep.phys io vs ls = some p) :
    ∃ t, renderElems Sep.logical io vs ls = some t ∧ Lay2 p t := by
  induction vs generalizing ls p with
  | nil =>
    cases ls with
    | nil =>
      simp only [renderElems] at hp; injection hp with hp; subst hp
      exact ⟨[], rfl, Lay2.plain [] (by simp)⟩
    | cons l ls => simp [elemsLayOK] at hok
  | cons v vs ih =>
    cases ls with
    | nil => simp [elemsLayOK] at hok
    | cons l ls =>
      obtain ⟨s, q⟩ := l
      simp only [elemsLayOK, Bool.and_eq_true] at hok
      obtain ⟨⟨hs, hq⟩, hrest⟩ := hok
      simp only [renderElems] at hp
      cases hp' : renderElems Sep.phys io vs ls with
      | none => rw [hp'] at hp; cases hp
      | some p' =>
        rw [hp'] at hp; injection hp with hp; subst hp
        obtain ⟨t, ht, hlay⟩ := ih ls hrest p' hp'
        refine ⟨s.logical ++ quoteTok q (scText io v) ++ t, ?_, ?_⟩
        · simp only [renderElems, ht]
        · exact Lay2.app (Lay2.app (sep_lay2 s hs) (tok_lay2 q _ (Or.inr hq))) hlay

theorem cell_lay2 (io : FloatIO F) (x : Cell F) (l : CellLay) (hok : cellLayOK io x l = true)
    (p : Str) (hp : renderCell Sep.phys io x l = some p) :
    ∃ a, renderCell Sep.logical io x l = some a ∧ Lay2 p a ∧ a ≠ [] ∧ LastNS a := by
  cases x with
  | one v =>
    cases l with
    | one q =>
      simp only [cellLayOK] at hok
      simp only [renderCell] at hp; injection hp with hp; subst hp
      exact ⟨_, rfl, tok_lay2 q _ (Or.inl hok), (quoteTok_props q _ (Or.inl hok)).1,
        tok_last q _ (Or.inl hok)⟩
    | many op q rest cl => simp [cellLayOK] at hok
  | many vs =>
    cases l with
    | one q => simp [cellLayOK] at hok
    | many op q rest cl =>
      cases vs with
      | nil => simp [cellLayOK] at hok
      | cons v vs =>
        simp only [cellLayOK, Bool.and_eq_true] at hok
        obtain ⟨⟨⟨hop, hcl⟩, hq⟩, hrest⟩ := hok
        simp only [renderCell] at hp
        cases hp' : renderElems Sep.phys io vs rest with
        | none => rw [hp'] at hp; cases hp
        | some p' =>
          rw [hp'] at hp; injection hp with hp; subst hp
          obtain ⟨t, ht, hlay⟩ := elems_lay2 io vs rest hrest p' hp'
          refine ⟨'{' :: (op ++ quoteTok q (scText io v) ++ t ++ cl ++ ['}']), ?_, ?_, by simp, ?_⟩
          · simp only [renderCell, ht]
          · have hop' : '\n' ∉ '{' :: op := by
              intro hm
              simp only [List.mem_cons] at hm
              rcases hm with hm | hm
              · exact absurd hm (by decide)
              · exact blank_nonl op (all_blank hop) hm
            have h1 := Lay2.app (Lay2.app (Lay2.app (Lay2.app (Lay2.plain _ hop')
              (tok_lay2 q (scText io v) (Or.inr hq))) hlay)
              (Lay2.plain cl (blank_nonl cl (all_blank hcl)))) (Lay2.plain ['}'] (by decide))
            simpa using h1
          · intro ch hch
            have : '{' :: (op ++ quoteTok q (scText io v) ++ t ++ cl ++ ['}']) =
                ('{' :: (op ++ quoteTok q (scText io v) ++ t ++ cl)) ++ ['}'] := by simp
            rw [this, List.getLast?_concat] at hch
            injection hch with hch; subst hch; decide

theorem cells_lay2 (io : FloatIO F) (r : List (Cell F)) (lays : List (Sep × CellLay))
    (hok : cellsLayOK io r lays = true) (p : Str) (hp : renderCells Sep.phys io r lays = some p) :
    ∃ b, renderCells Sep.logical io r lays = some b ∧ Lay2 p b ∧ LastNS b := by
  induction r generalizing lays p with
  | nil =>
    cases lays with
    | nil =>
      simp only [renderCells] at hp; injection hp with hp; subst hp
      exact ⟨[], rfl, Lay2.plain [] (by simp), by intro ch h; simp at h⟩
    | cons l ls => simp [cellsLayOK] at hok
  | cons x xs ih =>
    cases lays with
    | nil => simp [cellsLayOK] at hok
    | cons l ls =>
      obtain ⟨s, l⟩ := l
      simp only [cellsLayOK, Bool.and_eq_true] at hok
      obtain ⟨⟨hs, hl⟩, hrest⟩ := hok
      simp only [renderCells] at hp
      cases hp1 : renderCell Sep.phys io x l with
      | none => rw [hp1] at hp; cases hp
      | some p1 =>
        cases hp2 : renderCells Sep.phys io xs ls with
        | none => rw [hp1, hp2] at hp; cases hp
        | some p2 =>
          rw [hp1, hp2] at hp; injection hp with hp; subst hp
          obtain ⟨a, ha, hla, hne, hlast⟩ := cell_lay2 io x l hl p1 hp1
          obtain ⟨b, hb, hlb, hlastb⟩ := ih ls hrest p2 hp2
          refine ⟨s.logical ++ a ++ b, ?_, ?_, ?_⟩
          · simp only [renderCells, ha, hb]
          · exact Lay2.app (Lay2.app (sep_lay2 s hs) hla) hlb
          · exact lastNS_append _ _ (lastNS_append_ne _ _ hne hlast) hlastb

/-! ### lines -/

/-- what `contGo 0` does to a chunk `l` of the file, whatever follows it -/
def ChunkRel (l l' : Str) : Prop := ∀ R, contGo 0 (l ++ R) = l' ++ contGo 0 R

theorem line_chunk (I I' : Str) (ch : Char) (w : Str) (h : Lay2 I I') (hch : isSpace ch = false)
    (hbs : '\\' ∉ ch :: w) : ChunkRel (I ++ ch :: w) (I' ++ ch :: w) := by
  intro R
  have hs : SafeR ((ch :: w) ++ R) := safeR_of_head ch (w ++ R) hch
  obtain ⟨a, _⟩ := lay2_go h _ hs
  rw [List.append_assoc, a, contGo_nobs _ R hbs, List.append_assoc]

theorem commentOK_nobs (c : Str) (h : commentOK (some c) = true) : '\\' ∉ c := by
  simp only [commentOK, Bool.and_eq_true] at h
  obtain ⟨⟨⟨⟨⟨_, _⟩, hbs⟩, _⟩, _⟩, _⟩ := h
  exact not_contains hbs

theorem line_tail (X Y trail : Str) (comment : Option Str) (h : Lay2 X Y)
    (ht : ∀ c ∈ trail, isBlank c = true) (hc : commentOK comment = true)
    (hlast : comment.isSome = true ∨ ∃ ch, Y.getLast? = some ch ∧ isSpace ch = false ∧ ch ≠ '\\') :
    ChunkRel (X ++ trail ++ commentText comment) (Y ++ trail ++ commentText comment) := by
  cases comment with
  | some c =>
    have hbs : '\\' ∉ '#' :: c := by
      intro hm
      simp only [List.mem_cons] at hm
      rcases hm with hm | hm
      · exact absurd hm (by decide)
      · exact commentOK_nobs c hc hm
    exact line_chunk (X ++ trail) (Y ++ trail) '#' c
      (Lay2.app h (Lay2.plain trail (blank_nonl trail ht))) (by decide) hbs
  | none =>
    rcases hlast with hl | ⟨ch, hl, hs, hb⟩
    · simp at hl
    · obtain ⟨I, I', e1, e2, hI⟩ := lay2_split_last h ch hl hs
      have hbs : '\\' ∉ ch :: trail := by
        intro hm
        simp only [List.mem_cons] at hm
        rcases hm with hm | hm
        · exact hb hm.symm
        · exact blank_nobs trail ht hm
      have := line_chunk I I' ch trail hI hs hbs
      subst e1 e2
      simpa [commentText] using this

theorem last_of_append (a b : Str) (z : Char) (h : b.getLast? = some z) : (a ++ b).getLast? = some z := by
  simp [List.getLast?_append, h]

theorem row_chunk (io : FloatIO F) (tb : TableD F) (r : List (Cell F)) (lay : RowLay)
    (hok : rowLayOK io tb r lay = true) (l : Str) (hl : renderRow Sep.phys io r lay = some l) :
    ∃ l', renderRow Sep.logical io r lay = some l' ∧ ChunkRel l l' := by
  simp only [rowLayOK, Bool.and_eq_true] at hok
  obtain ⟨⟨⟨⟨⟨⟨hlead, htrail⟩, _⟩, hname⟩, hcom⟩, hcells⟩, hm⟩ := hok
  simp only [renderRow] at hl
  cases hp : renderCells Sep.phys io r lay.cells with
  | none => rw [hp] at hl; cases hl
  | some p =>
    rw [hp] at hl; injection hl with hl; subst hl
    obtain ⟨b, hb, hlay, hlast⟩ := cells_lay2 io r lay.cells hcells p hp
    rw [hb] at hm
    simp only [Bool.and_eq_true, Bool.or_eq_true, Bool.not_eq_true'] at hm
    obtain ⟨_, hm⟩ := hm
    refine ⟨lay.lead ++ lay.name ++ b ++ lay.trail ++ commentText lay.comment, ?_, ?_⟩
    · simp only [renderRow, hb]
    · obtain ⟨hnne, hnch⟩ := wordOK_props lay.name hname
      have hln : '\n' ∉ lay.lead ++ lay.name := by
        intro hmem
        simp only [List.mem_append] at hmem
        rcases hmem with hmem | hmem
        · exact blank_nonl _ (all_blank hlead) hmem
        · exact (word_char_props _ (hnch _ hmem).2 (hnch _ hmem).1).2.2.2.1 rfl
      apply line_tail (lay.lead ++ lay.name ++ p) (lay.lead ++ lay.name ++ b) lay.trail lay.comment
        (Lay2.app (Lay2.plain _ hln) hlay) (all_blank htrail) hcom
      rcases hm with hm | hm
      · exact Or.inl hm
      · right
        cases hg : b.getLast? with
        | none =>
          have hbn : b = [] := List.getLast?_eq_none_iff.mp hg
          subst hbn
          cases hgn : lay.name.getLast? with
          | none => exact absurd (List.getLast?_eq_none_iff.mp hgn) hnne
          | some z =>
            have hz := hnch z (List.mem_of_getLast? hgn)
            have hw := word_char_props z hz.2 hz.1
            refine ⟨z, ?_, hw.1, hw.2.2.2.2.2⟩
            rw [List.append_nil]
            exact last_of_append _ _ z hgn
        | some z =>
          refine ⟨z, last_of_append _ _ z hg, hlast z hg, ?_⟩
          intro e; subst e
          simp [endsBackslash, hg] at hm

theorem strip_last (v : Str) (h : strip v = v) : LastNS v := by
  intro ch hch
  have hr : v.reverse = (lstrip v).reverse.dropWhile isSpace := by
    have := congrArg List.reverse h
    simpa [strip, rstrip] using this.symm
  rw [← List.head?_reverse] at hch
  cases hv : v.reverse with
  | nil => rw [hv] at hch; cases hch
  | cons a t =>
    rw [hv] at hch hr
    injection hch with hch; subst hch
    exact dropWhile_head_not _ _ _ _ hr.symm

theorem pair_chunk (tn : List Str) (kv : Str × Str) (lay : PairLay) (hp : pairOK2 tn kv = true)
    (hok : pairLayOK kv lay = true) :
    ChunkRel (renderPair Sep.phys kv lay) (renderPair Sep.logical kv lay) := by
  obtain ⟨k, v⟩ := kv
  obtain ⟨lead, sep, trail, comment, crlf⟩ := lay
  simp only [pairOK2, pairOK, Bool.and_eq_true, List.all_eq_true, beq_iff_eq, decide_eq_true_eq,
    Bool.not_eq_true', bne_iff_ne, ne_eq] at hp
  obtain ⟨⟨⟨⟨⟨⟨⟨⟨hkne, hk⟩, _⟩, _⟩, hv⟩, _⟩, _⟩, _⟩, _⟩ := hp
  simp only [pairLayOK, Bool.and_eq_true, beq_iff_eq, Bool.or_eq_true, Bool.not_eq_true'] at hok
  obtain ⟨⟨⟨⟨⟨hlead, htrail⟩, hcom⟩, hsep⟩, hstrip⟩, hlast⟩ := hok
  have hkn : '\n' ∉ lead ++ k := by
    intro hmem
    simp only [List.mem_append] at hmem
    rcases hmem with hmem | hmem
    · exact blank_nonl _ (all_blank hlead) hmem
    · have := hk _ hmem
      exact (key_char_props _ this.1.1 this.1.2).2 rfl
  have hvn : '\n' ∉ v := by
    intro hmem
    have := hv _ hmem
    simp [cellChar] at this
  cases v with
  | nil =>
    simp only [List.isEmpty_nil, if_true, Bool.and_eq_true] at hsep
    obtain ⟨a, cont⟩ := sep
    cases cont with
    | some x => simp at hsep
    | none =>
      have hblank : ∀ c ∈ a ++ trail, isBlank c = true := by
        intro c hc
        simp only [List.mem_append] at hc
        rcases hc with hc | hc
        · exact all_blank hsep.1 c hc
        · exact all_blank htrail c hc
      have := line_tail (lead ++ k) (lead ++ k) (a ++ trail) comment (Lay2.plain _ hkn) hblank hcom
        (by
          rcases hlast with hl | hl
          · exact Or.inl hl
          · right
            cases hg : k.getLast? with
            | none =>
              have : k = [] := List.getLast?_eq_none_iff.mp hg
              subst this; simp at hkne
            | some z =>
              have hz := hk z (List.mem_of_getLast? hg)
              refine ⟨z, last_of_append _ _ z hg, (key_char_props _ hz.1.1 hz.1.2).1, ?_⟩
              intro e; subst e
              simp [endsBackslash, hg] at hl)
      simpa [renderPair, Sep.phys, Sep.logical] using this
  | cons c t =>
    simp only [List.isEmpty_cons, Bool.false_eq_true, if_false] at hsep
    have := line_tail (lead ++ k ++ sep.phys ++ c :: t) (lead ++ k ++ sep.logical ++ c :: t) trail comment
      (Lay2.app (Lay2.app (Lay2.plain _ hkn) (sep_lay2 sep hsep)) (Lay2.plain _ hvn))
      (all_blank htrail) hcom
      (by
        rcases hlast with hl | hl
        · exact Or.inl hl
        · right
          cases hg : (c :: t).getLast? with
          | none => simp at hg
          | some z =>
            refine ⟨z, last_of_append _ _ z hg, strip_last _ hstrip z hg, ?_⟩
            intro e; subst e
            have : (k ++ c :: t).getLast? = some '\\' := last_of_append _ _ _ hg
            simp [endsBackslash, this] at hl)
    exact this

/-! ### chunks without any backslash: definitions and filler lines -/

theorem nobs_nil : '\\' ∉ ([] : Str) := by simp

theorem nobs_append {a b : Str} (ha : '\\' ∉ a) (hb : '\\' ∉ b) : '\\' ∉ a ++ b := by
  intro hm
  rcases List.mem_append.mp hm with h | h
  · exact ha h
  · exact hb h

theorem nobs_cons {c : Char} {t : Str} (hc : c ≠ '\\') (ht : '\\' ∉ t) : '\\' ∉ c :: t := by
  intro hm
  rcases List.mem_cons.mp hm with h | h
  · exact hc h.symm
  · exact ht h

macro "nobs" : tactic =>
  `(tactic| repeat' (first | assumption | exact nobs_nil | apply nobs_append | apply nobs_cons | decide))

theorem ws_nobs {l : Str} (h : l.all wsChar = true) : '\\' ∉ l := by
  intro hm; exact absurd (List.all_eq_true.mp h _ hm) (by decide)

theorem blanks_nobs {l : Str} (h : l.all isBlank = true) : '\\' ∉ l := blank_nobs l (all_blank h)

theorem wordy_nobs {s : Str} (h : wordy s) : '\\' ∉ s := fun hm => wordCh_ne_bs _ (h.2 _ hm) rfl

theorem digits_nobs (n : Nat) : '\\' ∉ fmtNat n := fun hm => absurd (fmtNat_chars n _ hm) (by decide)

theorem brk_nobs (legacy : Bool) (n : Option Nat) : '\\' ∉ brk legacy n := by
  rcases n with _ | k
  · cases legacy <;> simp only [brk, if_true, if_false, Bool.false_eq_true] <;> nobs
  · have := digits_nobs k
    cases legacy <;> simp only [brk, if_true, if_false, Bool.false_eq_true] <;> nobs

theorem tdWs_nobs (l : Str) : ∀ inC, tdWsOK inC l = true → '\\' ∉ l := by
  induction l with
  | nil => intro _ _; exact nobs_nil
  | cons c t ih =>
    intro inC h
    cases inC with
    | false =>
      simp only [tdWsOK] at h
      split at h
      · rename_i hc
        simp only [beq_iff_eq] at hc
        subst hc
        exact nobs_cons (by decide) (ih _ h)
      · simp only [Bool.and_eq_true] at h
        exact nobs_cons (fun e => by subst e; exact absurd h.1 (by decide)) (ih _ h.2)
    | true =>
      simp only [tdWsOK] at h
      split at h
      · rename_i hc
        simp only [beq_iff_eq] at hc
        subst hc
        exact nobs_cons (by decide) (ih _ h)
      · simp only [Bool.and_eq_true, bne_iff_ne, ne_eq] at h
        exact nobs_cons h.1.1.1.2 (ih _ h.2)

theorem commentText_nobs (c : Option Str) (h : commentOK c = true) : '\\' ∉ commentText c := by
  cases c with
  | none => exact nobs_nil
  | some c => exact nobs_cons (by decide) (commentOK_nobs c h)

theorem tdComment_ok (c : Option Str) (h : tdCommentOK c = true) : commentOK c = true := by
  cases c with
  | none => rfl
  | some c =>
    simp only [tdCommentOK, Bool.and_eq_true] at h
    exact h.1.1.1.1

theorem coldecl_nobs (enums : List EnumDecl) (hen : ∀ e ∈ enums, enumOK e = true) (c : Col) (l : ColLay)
    (hc : colOK c = true) (hl : colLayOK c l = true) (s : Str)
    (hs : renderColDecl enums c l = some s) : '\\' ∉ s := by
  simp only [colOK, Bool.and_eq_true] at hc
  simp only [colLayOK, Bool.and_eq_true] at hl
  obtain ⟨⟨⟨_, hpre⟩, _⟩, hgap⟩ := hl
  have hpre' := tdWs_nobs _ _ hpre
  have hgap' := blanks_nobs hgap
  have hname := wordy_nobs (identOK_wordy _ hc.1)
  have harr : '\\' ∉ (if c.alen > 0 then brk l.legacy1 (some c.alen) else []) := by
    split
    · exact brk_nobs _ _
    · exact nobs_nil
  have hchar : '\\' ∉ "char".toList := by decide
  simp only [renderColDecl] at hs
  cases hss : strSize c.ty with
  | some sz =>
    rw [hss] at hs
    have hbrk := brk_nobs l.legacy2 (if l.unsized then none else some sz)
    cases hf : enums.find? (fun e => e.col == c.name) with
    | some e =>
      rw [hf] at hs
      simp only [Option.some.injEq] at hs
      subst hs
      have he := hen e (List.mem_of_find?_eq_some hf)
      simp only [enumOK, Bool.and_eq_true] at he
      have hty := wordy_nobs (wordy_upper _ (wordOK_wordy _ he.1.1.2))
      nobs
    | none =>
      rw [hf] at hs
      simp only [Option.some.injEq] at hs
      subst hs
      nobs
  | none =>
    rw [hss] at hs
    cases hct : cType c.ty with
    | some tw =>
      rw [hct] at hs
      simp only [Option.some.injEq] at hs
      subst hs
      have htw := wordy_nobs (cType_wordy _ _ hct)
      nobs
    | none => rw [hct] at hs; cases hs

theorem coldecls_nobs (enums : List EnumDecl) (hen : ∀ e ∈ enums, enumOK e = true) :
    ∀ (cs : List Col) (ls : List ColLay), (∀ c ∈ cs, colOK c = true) → colsLayOK cs ls = true →
      ∀ s, renderColDecls enums cs ls = some s → '\\' ∉ s := by
  intro cs
  induction cs with
  | nil =>
    intro ls _ hl s hs
    cases ls with
    | nil => simp only [renderColDecls, Option.some.injEq] at hs; subst hs; exact nobs_nil
    | cons l ls => simp [colsLayOK] at hl
  | cons c cs ih =>
    intro ls hc hl s hs
    cases ls with
    | nil => simp [colsLayOK] at hl
    | cons l ls =>
      simp only [colsLayOK, Bool.and_eq_true] at hl
      simp only [renderColDecls] at hs
      cases h1 : renderColDecl enums c l with
      | none => rw [h1] at hs; cases hs
      | some a =>
        cases h2 : renderColDecls enums cs ls with
        | none => rw [h1, h2] at hs; cases hs
        | some b =>
          rw [h1, h2] at hs
          simp only [Option.some.injEq] at hs
          subst hs
          exact nobs_append (coldecl_nobs enums hen c l (hc c (by simp)) hl.1 a h1)
            (ih ls (fun c' hc' => hc c' (List.mem_cons_of_mem _ hc')) hl.2 b h2)

theorem struct_nobs (enums : List EnumDecl) (hen : ∀ e ∈ enums, enumOK e = true) (t : TableD F)
    (l : StructLay) (ht : tableOK2 enums t = true) (hl : structLayOK enums t l = true) (s : Str)
    (hs : renderStruct enums t l = some s) : '\\' ∉ s := by
  simp only [tableOK2, Bool.and_eq_true] at ht
  obtain ⟨⟨⟨⟨_, _⟩, hcols⟩, _⟩, _⟩ := ht
  simp only [structLayOK, Bool.and_eq_true] at hl
  obtain ⟨⟨⟨⟨⟨⟨⟨⟨⟨⟨⟨⟨hlead, _⟩, hg1⟩, hg2⟩, hcl⟩, hcp⟩, hg3⟩, hg4⟩, _⟩, hname⟩, htrail⟩, hcom⟩, _⟩ := hl
  simp only [renderStruct] at hs
  cases hb : renderColDecls enums t.cols l.cols with
  | none => rw [hb] at hs; cases hs
  | some body =>
    rw [hb] at hs
    simp only [Option.some.injEq] at hs
    subst hs
    have h1 := blanks_nobs hlead
    have h2 := ws_nobs hg1
    have h3 := ws_nobs hg2
    have h4 := coldecls_nobs enums hen t.cols l.cols (List.all_eq_true.mp hcols) hcl body hb
    have h5 := tdWs_nobs _ _ hcp
    have h6 := ws_nobs hg3
    have h7 := wordy_nobs (wordOK_wordy _ hname)
    have h8 := ws_nobs hg4
    have h9 := blanks_nobs htrail
    have h10 := commentText_nobs _ (tdComment_ok _ hcom)
    have h11 : '\\' ∉ "typedef".toList := by decide
    have h12 : '\\' ∉ "struct".toList := by decide
    nobs

theorem labels_nobs : ∀ (labs ws : List Str), (∀ a ∈ labs, wordOK a = true) →
    (∀ w ∈ ws, w.all wsChar = true) → ∀ s, renderLabels labs ws = some s → '\\' ∉ s := by
  intro labs
  induction labs with
  | nil => intro ws _ _ s hs; simp [renderLabels] at hs
  | cons a t ih =>
    intro ws hl hw s hs
    have ha := wordy_nobs (wordOK_wordy _ (hl a (by simp)))
    cases t with
    | nil =>
      cases ws with
      | nil => simp only [renderLabels, Option.some.injEq] at hs; subst hs; exact ha
      | cons w ws => simp [renderLabels] at hs
    | cons b t =>
      cases ws with
      | nil => simp [renderLabels] at hs
      | cons w ws =>
        simp only [renderLabels] at hs
        cases hr : renderLabels (b :: t) ws with
        | none => rw [hr] at hs; cases hs
        | some r =>
          rw [hr] at hs
          simp only [Option.some.injEq] at hs
          subst hs
          have h1 := ih ws (fun x hx => hl x (List.mem_cons_of_mem _ hx))
            (fun x hx => hw x (List.mem_cons_of_mem _ hx)) r hr
          have h2 := ws_nobs (hw w (by simp))
          nobs

theorem enum_nobs (e : EnumDecl) (l : EnumLay) (he : enumOK e = true) (hl : enumLayOK e l = true)
    (s : Str) (hs : renderEnum e l = some s) : '\\' ∉ s := by
  simp only [enumOK, Bool.and_eq_true] at he
  obtain ⟨⟨⟨_, hty⟩, _⟩, hlabs⟩ := he
  simp only [enumLayOK, Bool.and_eq_true] at hl
  obtain ⟨⟨⟨⟨⟨⟨⟨⟨⟨⟨⟨hlead, _⟩, hg1⟩, hg2⟩, hop⟩, hac⟩, _⟩, hcl⟩, hg3⟩, hg4⟩, htrail⟩, hcom⟩ := hl
  simp only [renderEnum] at hs
  cases hb : renderLabels e.labels l.afterComma with
  | none => rw [hb] at hs; cases hs
  | some body =>
    rw [hb] at hs
    simp only [Option.some.injEq] at hs
    subst hs
    have h1 := blanks_nobs hlead
    have h2 := ws_nobs hg1
    have h3 := ws_nobs hg2
    have h4 := ws_nobs hop
    have h5 := labels_nobs e.labels l.afterComma (List.all_eq_true.mp hlabs) (List.all_eq_true.mp hac) body hb
    have h6 := ws_nobs hcl
    have h7 := ws_nobs hg3
    have h8 := wordy_nobs (wordy_upper _ (wordOK_wordy _ hty))
    have h9 := ws_nobs hg4
    have h10 := blanks_nobs htrail
    have h11 := commentText_nobs _ (tdComment_ok _ hcom)
    have h12 : '\\' ∉ "typedef".toList := by decide
    have h13 : '\\' ∉ "enum".toList := by decide
    nobs

theorem filler_nobs (text : Str) (h : fillerOK text = true) : '\\' ∉ text := by
  rw [← List.takeWhile_append_dropWhile (p := isBlank) (l := text)]
  apply nobs_append
  · intro hm
    exact absurd (mem_takeWhile_sat _ _ _ hm) (by decide)
  · unfold fillerOK at h
    cases hd : text.dropWhile isBlank with
    | nil => exact nobs_nil
    | cons c t =>
      rw [hd] at h
      simp only [Bool.and_eq_true, beq_iff_eq] at h
      obtain ⟨⟨⟨⟨⟨hc, hbs⟩, _⟩, _⟩, _⟩, _⟩ := h
      subst hc
      exact nobs_cons (by decide) (not_contains hbs)

/-! ### the file -/

structure Inv (d : Doc F) (st : RSt F) : Prop where
  hdr : ∀ kv ∈ st.hdr, pairOK2 (d.tables.map (fun t => upper t.name)) kv = true
  enums : ∀ e ∈ st.enums, enumOK e = true
  defs : ∀ t ∈ st.defs, tableOK2 d.enums t = true

def ChunksRel : List (Str × Bool) → List (Str × Bool) → Prop
  | [], [] => True
  | (l, c) :: r, (l', c') :: r' => ChunkRel l l' ∧ c = c' ∧ ChunksRel r r'
  | _, _ => False

theorem nobs_chunk (x : Str) (h : '\\' ∉ x) : ChunkRel x x := fun R => contGo_nobs x R h

theorem eol_nobs (crlf : Bool) : '\\' ∉ eol crlf := by cases crlf <;> decide

theorem contGo_nil : contGo 0 [] = [] := by simp [contGo]

theorem joinChunks_cont (fe : Bool) : ∀ cs cs', ChunksRel cs cs' →
    contGo 0 (joinChunks fe cs) = joinChunks fe cs' := by
  intro cs
  induction cs with
  | nil =>
    intro cs' h
    cases cs' with
    | nil => exact contGo_nil
    | cons _ _ => simp [ChunksRel] at h
  | cons p r ih =>
    intro cs' h
    obtain ⟨l, c⟩ := p
    cases cs' with
    | nil => simp [ChunksRel] at h
    | cons p' r' =>
      obtain ⟨l', c'⟩ := p'
      simp only [ChunksRel] at h
      obtain ⟨h1, h2, h3⟩ := h
      subst h2
      cases r with
      | nil =>
        cases r' with
        | nil =>
          simp only [joinChunks]
          split
          · have := h1 (eol c)
            have h4 := contGo_nobs (eol c) [] (eol_nobs c)
            simp only [List.append_nil, contGo_nil] at h4
            rw [this, h4]
          · have := h1 []
            simpa [contGo_nil] using this
        | cons _ _ => simp [ChunksRel] at h3
      | cons q r2 =>
        cases r' with
        | nil => simp [ChunksRel] at h3
        | cons q' r2' =>
          simp only [joinChunks]
          rw [List.append_assoc, h1, contGo_nobs _ _ (eol_nobs c), ih _ h3, List.append_assoc]

theorem slots_cont (io : FloatIO F) (d : Doc F) (hen : ∀ e ∈ d.enums, enumOK e = true) :
    ∀ (ss : List Slot) (st : RSt F), Inv d st → slotsOK io d st ss = true →
      ∀ chunks, renderSlots Sep.phys io d st ss = some chunks →
        ∃ chunks', renderSlots Sep.logical io d st ss = some chunks' ∧ ChunksRel chunks chunks' := by
  intro ss
  induction ss with
  | nil =>
    intro st _ hok chunks hr
    simp only [slotsOK] at hok
    simp only [renderSlots, hok, if_true, Option.some.injEq] at hr ⊢
    subst hr
    exact ⟨[], rfl, trivial⟩
  | cons sl ss ih =>
    intro st inv hok chunks hr
    cases sl with
    | pair lay =>
      simp only [slotsOK] at hok
      simp only [renderSlots] at hr
      cases hh : st.hdr with
      | nil => rw [hh] at hok; cases hok
      | cons kv rest =>
        rw [hh] at hok hr
        simp only [Bool.and_eq_true] at hok
        obtain ⟨hpl, hrest⟩ := hok
        simp only at hr
        cases hr' : renderSlots Sep.phys io d { st with hdr := rest } ss with
        | none => rw [hr'] at hr; cases hr
        | some ls =>
          rw [hr'] at hr
          simp only [Option.some.injEq] at hr
          subst hr
          have inv' : Inv d { st with hdr := rest } :=
            ⟨fun kv' hkv' => inv.hdr kv' (by rw [hh]; exact List.mem_cons_of_mem _ hkv'), inv.enums, inv.defs⟩
          obtain ⟨ls', h1, h2⟩ := ih _ inv' hrest ls hr'
          refine ⟨(renderPair Sep.logical kv lay, lay.crlf) :: ls', ?_, ?_⟩
          · simp only [renderSlots, hh, h1]
          · exact ⟨pair_chunk _ kv lay (inv.hdr kv (by rw [hh]; simp)) hpl, rfl, h2⟩
    | row t lay =>
      simp only [slotsOK] at hok
      simp only [renderSlots] at hr
      cases hpop : popAt t st.rows with
      | none => rw [hpop] at hr; cases hr
      | some x =>
        obtain ⟨r, rows'⟩ := x
        rw [hpop] at hok hr
        simp only at hok hr
        cases htb : d.tables[t]? with
        | none => rw [htb] at hok; cases hok
        | some tb =>
          rw [htb] at hok
          simp only [Bool.and_eq_true] at hok
          obtain ⟨hrl, hrest⟩ := hok
          cases hl : renderRow Sep.phys io r lay with
          | none => rw [hl] at hr; cases hr
          | some l =>
            cases hr' : renderSlots Sep.phys io d { st with rows := rows' } ss with
            | none => rw [hl, hr'] at hr; cases hr
            | some ls =>
              rw [hl, hr'] at hr
              simp only [Option.some.injEq] at hr
              subst hr
              have inv' : Inv d { st with rows := rows' } := ⟨inv.hdr, inv.enums, inv.defs⟩
              obtain ⟨ls', h1, h2⟩ := ih _ inv' hrest ls hr'
              obtain ⟨l', h3, h4⟩ := row_chunk io tb r lay hrl l hl
              refine ⟨(l', lay.crlf) :: ls', ?_, ?_⟩
              · simp only [renderSlots, hpop, h1, h3]
              · exact ⟨h4, rfl, h2⟩
    | sdef lay =>
      simp only [slotsOK] at hok
      simp only [renderSlots] at hr
      cases hh : st.defs with
      | nil => rw [hh] at hok; cases hok
      | cons t rest =>
        rw [hh] at hok hr
        simp only [Bool.and_eq_true] at hok
        obtain ⟨hsl, hrest⟩ := hok
        simp only at hr
        cases hl : renderStruct d.enums t lay with
        | none => rw [hl] at hr; cases hr
        | some l =>
          cases hr' : renderSlots Sep.phys io d { st with defs := rest } ss with
          | none => rw [hl, hr'] at hr; cases hr
          | some ls =>
            rw [hl, hr'] at hr
            simp only [Option.some.injEq] at hr
            subst hr
            have inv' : Inv d { st with defs := rest } :=
              ⟨inv.hdr, inv.enums, fun t' ht' => inv.defs t' (by rw [hh]; exact List.mem_cons_of_mem _ ht')⟩
            obtain ⟨ls', h1, h2⟩ := ih _ inv' hrest ls hr'
            refine ⟨(l, lay.crlf) :: ls', ?_, ?_⟩
            · simp only [renderSlots, hh, hl, h1]
            · exact ⟨nobs_chunk l (struct_nobs d.enums hen t lay (inv.defs t (by rw [hh]; simp)) hsl l hl),
                rfl, h2⟩
    | edef lay =>
      simp only [slotsOK] at hok
      simp only [renderSlots] at hr
      cases hh : st.enums with
      | nil => rw [hh] at hok; cases hok
      | cons e rest =>
        rw [hh] at hok hr
        simp only [Bool.and_eq_true] at hok
        obtain ⟨hel, hrest⟩ := hok
        simp only at hr
        cases hl : renderEnum e lay with
        | none => rw [hl] at hr; cases hr
        | some l =>
          cases hr' : renderSlots Sep.phys io d { st with enums := rest } ss with
          | none => rw [hl, hr'] at hr; cases hr
          | some ls =>
            rw [hl, hr'] at hr
            simp only [Option.some.injEq] at hr
            subst hr
            have inv' : Inv d { st with enums := rest } :=
              ⟨inv.hdr, fun e' he' => inv.enums e' (by rw [hh]; exact List.mem_cons_of_mem _ he'), inv.defs⟩
            obtain ⟨ls', h1, h2⟩ := ih _ inv' hrest ls hr'
            refine ⟨(l, lay.crlf) :: ls', ?_, ?_⟩
            · simp only [renderSlots, hh, hl, h1]
            · exact ⟨nobs_chunk l (enum_nobs e lay (inv.enums e (by rw [hh]; simp)) hel l hl), rfl, h2⟩
    | filler text crlf =>
      simp only [slotsOK, Bool.and_eq_true] at hok
      obtain ⟨hf, hrest⟩ := hok
      simp only [renderSlots] at hr
      cases hr' : renderSlots Sep.phys io d st ss with
      | none => rw [hr'] at hr; cases hr
      | some ls =>
        rw [hr'] at hr
        simp only [Option.some.injEq] at hr
        subst hr
        obtain ⟨ls', h1, h2⟩ := ih _ inv hrest ls hr'
        refine ⟨(text, crlf) :: ls', ?_, ?_⟩
        · simp only [renderSlots, h1]
        · exact ⟨nobs_chunk text (filler_nobs text hf), rfl, h2⟩

/-- continuation joining of the file text of a layout gives the text of the same layout with every
separator in its logical form -/
theorem joinCont_renders (io : FloatIO F) (d : Doc F) (lay : Layout) (text : Str)
    (hd : docOK2 d = true) (hl : layoutOK io d lay = true) (hr : renders io d lay = some text) :
    ∃ ltext, rendersLogical io d lay = some ltext ∧ joinCont text = ltext := by
  simp only [docOK2, Bool.and_eq_true, List.all_eq_true] at hd
  obtain ⟨⟨⟨⟨⟨⟨hen, _⟩, _⟩, htab⟩, _⟩, hhdr⟩, _⟩ := hd
  have inv : Inv d (initRSt d) := ⟨hhdr, hen, htab⟩
  unfold renders at hr
  unfold rendersLogical
  cases hs : renderSlots Sep.phys io d (initRSt d) lay.slots with
  | none => rw [hs] at hr; cases hr
  | some chunks =>
    rw [hs] at hr
    simp only [Option.map_some, Option.some.injEq] at hr
    subst hr
    obtain ⟨chunks', h1, h2⟩ := slots_cont io d hen lay.slots (initRSt d) inv hl chunks hs
    exact ⟨joinChunks lay.finalEol chunks', by rw [h1]; rfl, joinChunks_cont _ _ _ h2⟩

end PydlVerif.YannyLayCont

/-
C02, file level: struct and enum definitions in any layout.

  PART 3  a rendered struct body as a list of member declarations (`memsOf`), characters of the
          rendered pieces, the struct / enum chunk as the reader sees it (`infoOK_sdef`, `infoOK_edef`)
  PART 4  typing of the columns from a laid-out struct text (`typing_lay`), incl. `char name[]`
-/
import PydlVerif.Lemmas.YannyLayFile
import PydlVerif.Lemmas.YannyLayScan
namespace PydlVerif.YannyLay
open PydlVerif.Yanny PydlVerif.YannyRT PydlVerif.YannyLayBlock PydlVerif.YannyLayLine PydlVerif.YannyLayScan

variable {F : Type}

/-! ## PART 3: definitions as written -/

/-- array part of a declaration as laid out -/
def arrLay (c : Col) (l : ColLay) : Str := if c.alen > 0 then brk l.legacy1 (some c.alen) else []

/-- size part of a `char` declaration as laid out -/
def sizeLay (enums : List EnumDecl) (c : Col) (l : ColLay) : Str :=
  match strSize c.ty with
  | some s =>
    match enums.find? (fun e => e.col == c.name) with
    | some _ => []
    | none => brk l.legacy2 (if l.unsized then none else some s)
  | none => []

def memOf (enums : List EnumDecl) (c : Col) (l : ColLay) : Mem :=
  ⟨l.pre, tyWord enums c, l.gap, c.name, arrLay c l ++ sizeLay enums c l⟩

def memsOf (enums : List EnumDecl) : List Col → List ColLay → List Mem
  | c :: cs, l :: ls => memOf enums c l :: memsOf enums cs ls
  | _, _ => []

theorem renderColDecl_mem (enums : List EnumDecl) (c : Col) (l : ColLay) (hs : supported c.ty = true) :
    renderColDecl enums c l = some (memOf enums c l).text := by
  unfold renderColDecl memOf Mem.text arrLay sizeLay tyWord
  cases hty : c.ty <;> simp only [hty, supported] at hs <;> try (exact absurd hs (by decide))
  all_goals simp only [strSize, cType, Option.getD_some]
  all_goals try generalize "short".toList = w1
  all_goals try generalize "int".toList = w2
  all_goals try generalize "long".toList = w3
  all_goals try generalize "float".toList = w4
  all_goals try generalize "double".toList = w5
  all_goals try generalize "char".toList = w6
  all_goals (try cases enums.find? (fun e => e.col == c.name)) <;> simp only [List.append_nil, List.append_assoc]

theorem renderColDecls_mems (enums : List EnumDecl) (cols : List Col) (lays : List ColLay)
    (hs : ∀ c ∈ cols, supported c.ty = true) (hl : colsLayOK cols lays = true) :
    renderColDecls enums cols lays = some ((memsOf enums cols lays).map Mem.text).flatten := by
  induction cols generalizing lays with
  | nil =>
    cases lays with
    | nil => rfl
    | cons l ls => simp [colsLayOK] at hl
  | cons c cs ih =>
    cases lays with
    | nil => simp [colsLayOK] at hl
    | cons l ls =>
      simp only [colsLayOK, Bool.and_eq_true] at hl
      simp only [renderColDecls, renderColDecl_mem enums c l (hs c (by simp)),
        ih ls (fun x hx => hs x (by simp [hx])) hl.2, memsOf, List.map_cons, List.flatten_cons]

theorem memsOf_names (enums : List EnumDecl) (cols : List Col) (lays : List ColLay)
    (hl : colsLayOK cols lays = true) : (memsOf enums cols lays).map (·.N) = cols.map (·.name) := by
  induction cols generalizing lays with
  | nil => cases lays <;> rfl
  | cons c cs ih =>
    cases lays with
    | nil => simp [colsLayOK] at hl
    | cons l ls =>
      simp only [colsLayOK, Bool.and_eq_true] at hl
      simp only [memsOf, List.map_cons, ih ls hl.2]
      rfl

theorem memsOf_mem (enums : List EnumDecl) (cols : List Col) (lays : List ColLay) (k : Nat) (c : Col) (l : ColLay)
    (hc : cols[k]? = some c) (hl : lays[k]? = some l) : memOf enums c l ∈ memsOf enums cols lays := by
  induction cols generalizing lays k with
  | nil => simp at hc
  | cons c0 cs ih =>
    cases lays with
    | nil => simp at hl
    | cons l0 ls =>
      cases k with
      | zero =>
        simp only [List.getElem?_cons_zero, Option.some.injEq] at hc hl
        subst hc; subst hl
        simp [memsOf]
      | succ k =>
        simp only [List.getElem?_cons_succ] at hc hl
        simp only [memsOf, List.mem_cons]
        exact Or.inr (ih ls k hc hl)

theorem memsOf_elim (enums : List EnumDecl) (cols : List Col) (lays : List ColLay) (m : Mem)
    (hm : m ∈ memsOf enums cols lays) : ∃ (k : Nat) (c : Col) (l : ColLay), cols[k]? = some c ∧ lays[k]? = some l ∧ m = memOf enums c l := by
  induction cols generalizing lays with
  | nil => cases lays <;> simp [memsOf] at hm
  | cons c0 cs ih =>
    cases lays with
    | nil => simp [memsOf] at hm
    | cons l0 ls =>
      simp only [memsOf, List.mem_cons] at hm
      rcases hm with rfl | hm
      · exact ⟨0, c0, l0, rfl, rfl, rfl⟩
      · obtain ⟨k, c, l, h1, h2, h3⟩ := ih ls hm
        exact ⟨k + 1, c, l, by simpa using h1, by simpa using h2, h3⟩

theorem memsOf_tail (enums : List EnumDecl) (cols : List Col) (lays : List ColLay) :
    (memsOf enums cols lays).tail = memsOf enums cols.tail lays.tail := by
  cases cols with
  | nil => cases lays <;> rfl
  | cons c cs =>
    cases lays with
    | nil => cases cs <;> rfl
    | cons l ls => rfl

/-! ### array suffixes -/

theorem arrL_wrap (o cl : Char) (ds : Str) (ho : isOpenB o = true) (hc : isCloseB cl = true)
    (hd : ∀ c ∈ ds, c.isDigit = true) : arrL (o :: (ds ++ [cl])) := by
  refine ⟨Or.inr ⟨⟨o, rfl, ho⟩, ⟨cl, by rw [show o :: (ds ++ [cl]) = (o :: ds) ++ [cl] from rfl, List.getLast?_append]; rfl, hc⟩⟩, ?_⟩
  intro c hcm
  simp only [List.mem_cons, List.mem_append, List.mem_nil_iff, or_false] at hcm
  rcases hcm with rfl | hcm | rfl
  · exact Or.inl ho
  · exact Or.inr (Or.inr (hd c hcm))
  · exact Or.inr (Or.inl hc)

theorem brk_arrL (legacy : Bool) (n : Option Nat) : arrL (brk legacy n) := by
  unfold brk
  cases legacy <;> cases n <;>
    first
      | exact arrL_wrap _ _ _ (by decide) (by decide) (fun c hc => by cases hc)
      | exact arrL_wrap _ _ _ (by decide) (by decide) (fun c hc => fmtNat_digits _ c hc)

theorem arrL_nil : arrL [] := ⟨Or.inl rfl, by simp⟩

theorem arrL_append (a b : Str) (ha : arrL a) (hb : arrL b) : arrL (a ++ b) := by
  refine ⟨?_, ?_⟩
  · rcases ha.1 with rfl | ⟨⟨o, ho, ho'⟩, _⟩
    · simpa using hb.1
    · rcases hb.1 with rfl | ⟨_, ⟨cl, hc, hc'⟩⟩
      · simpa using ha.1
      · right
        refine ⟨⟨o, ?_, ho'⟩, ⟨cl, ?_, hc'⟩⟩
        · cases a with
          | nil => cases ho
          | cons x t => simpa using ho
        · rw [List.getLast?_append, hc]; rfl
  · intro c hc
    rcases List.mem_append.mp hc with h | h
    · exact ha.2 c h
    · exact hb.2 c h

theorem arr_memOf (enums : List EnumDecl) (c : Col) (l : ColLay) : arrL (memOf enums c l).arr := by
  apply arrL_append
  · unfold arrLay; split
    · exact brk_arrL _ _
    · exact arrL_nil
  · unfold sizeLay
    split
    · split
      · exact arrL_nil
      · exact brk_arrL _ _
    · exact arrL_nil

theorem memOf_ok (enums : List EnumDecl) (he : ∀ e ∈ enums, enumOK e = true) (c : Col) (l : ColLay)
    (hc : colOK c = true) (hl : colLayOK c l = true) : MemOK (memOf enums c l) := by
  simp only [colLayOK, Bool.and_eq_true, Bool.not_eq_true', List.all_eq_true] at hl
  obtain ⟨⟨⟨h1, h2⟩, h3⟩, h4⟩ := hl
  have hc' := hc
  simp only [colOK, Bool.and_eq_true] at hc'
  refine ⟨?_, h2, ?_, h4, tyWord_wordy enums c hc'.2 he, identOK_wordy _ hc'.1, arr_memOf enums c l⟩
  · intro e
    have : (memOf enums c l).pre = l.pre := rfl
    rw [this] at e; rw [e] at h1; simp at h1
  · intro e
    have : (memOf enums c l).gap = l.gap := rfl
    rw [this] at e; rw [e] at h3; simp at h3

theorem memsOf_ok (enums : List EnumDecl) (he : ∀ e ∈ enums, enumOK e = true) (cols : List Col)
    (lays : List ColLay) (hc : ∀ c ∈ cols, colOK c = true) (hl : colsLayOK cols lays = true) :
    ∀ m ∈ memsOf enums cols lays, MemOK m := by
  induction cols generalizing lays with
  | nil => cases lays <;> simp [memsOf]
  | cons c cs ih =>
    cases lays with
    | nil => simp [memsOf]
    | cons l ls =>
      simp only [colsLayOK, Bool.and_eq_true] at hl
      intro m hm
      simp only [memsOf, List.mem_cons] at hm
      rcases hm with rfl | hm
      · exact memOf_ok enums he c l (hc c (by simp)) hl.1
      · exact ih ls (fun x hx => hc x (by simp [hx])) hl.2 m hm

/-! ### characters of a struct body -/

theorem tdWs_no_brace (b : Bool) (s : Str) (h : tdWsOK b s = true) : '{' ∉ s ∧ '}' ∉ s := by
  induction s generalizing b with
  | nil => simp
  | cons a t ih =>
    obtain ⟨b', hb'⟩ := tdWs_tail b a t h
    have hne : a ≠ '{' ∧ a ≠ '}' := by
      constructor <;> (intro e; subst e; cases b <;> simp [tdWsOK, wsChar] at h)
    obtain ⟨i1, i2⟩ := ih b' hb'
    constructor
    · intro hm
      rcases List.mem_cons.mp hm with e | hm
      · exact hne.1 e.symm
      · exact i1 hm
    · intro hm
      rcases List.mem_cons.mp hm with e | hm
      · exact hne.2 e.symm
      · exact i2 hm

theorem arrL_no_brace (a : Str) (h : arrL a) : ∀ c ∈ a, c ≠ '{' ∧ c ≠ '}' := by
  intro c hc
  rcases h.2 c hc with h | h | h
  · constructor <;> (intro e; subst e; exact absurd h (by decide))
  · constructor <;> (intro e; subst e; exact absurd h (by decide))
  · constructor <;> (intro e; subst e; exact absurd h (by decide))

theorem mem_text_no_brace (m : Mem) (h : MemOK m) : ∀ c ∈ m.text, c ≠ '{' ∧ c ≠ '}' := by
  obtain ⟨_, h2, _, h4, h5, h6, h7⟩ := h
  intro c hc
  simp only [Mem.text, List.mem_append, List.mem_singleton] at hc
  rcases hc with ((((hc | hc) | hc) | hc) | hc) | hc
  · have := tdWs_no_brace false m.pre h2
    exact ⟨fun e => this.1 (e ▸ hc), fun e => this.2 (e ▸ hc)⟩
  · exact wordy_plain _ h5 c hc
  · have := h4 c hc
    constructor <;> (intro e; subst e; exact absurd this (by decide))
  · exact wordy_plain _ h6 c hc
  · exact arrL_no_brace _ h7 c hc
  · subst hc; exact ⟨by decide, by decide⟩

theorem body_no_brace (ms : List Mem) (closePre : Str) (hms : ∀ m ∈ ms, MemOK m)
    (hcp : tdWsOK false closePre = true) : '{' ∉ bodyL ms closePre ∧ '}' ∉ bodyL ms closePre := by
  have key : ∀ c ∈ bodyL ms closePre, c ≠ '{' ∧ c ≠ '}' := by
    intro c hc
    simp only [bodyL, List.mem_append, List.mem_flatten, List.mem_map] at hc
    rcases hc with ⟨l, ⟨m, hm, rfl⟩, hc⟩ | hc
    · exact mem_text_no_brace m (hms m hm) c hc
    · have := tdWs_no_brace false closePre hcp
      exact ⟨fun e => this.1 (e ▸ hc), fun e => this.2 (e ▸ hc)⟩
  exact ⟨fun hm => (key _ hm).1 rfl, fun hm => (key _ hm).2 rfl⟩

theorem body_ne_nil (ms : List Mem) (closePre : Str) (hne : ms ≠ []) : bodyL ms closePre ≠ [] := by
  cases ms with
  | nil => exact absurd rfl hne
  | cons m t =>
    intro e
    have : (';' : Char) ∈ bodyL (m :: t) closePre := by
      simp [bodyL, Mem.text]
    rw [e] at this
    cases this

/-! ### the struct chunk -/

def structBodyL (enums : List EnumDecl) (t : TableD F) (l : StructLay) : Str :=
  bodyL (memsOf enums t.cols l.cols) l.closePre

def structBlk (enums : List EnumDecl) (t : TableD F) (l : StructLay) : Str :=
  blockL kS l.g1 l.g2 (structBodyL enums t l) l.g3 l.name l.g4

def structTD (enums : List EnumDecl) (t : TableD F) (l : StructLay) : TDef :=
  ⟨structBlk enums t l, structBodyL enums t l, l.name⟩

theorem tdComment_comment (cm : Option Str) (h : tdCommentOK cm = true) : commentOK cm = true := by
  cases cm with
  | none => rfl
  | some c =>
    simp only [tdCommentOK, Bool.and_eq_true] at h
    exact h.1.1.1.1

structure SLP (enums : List EnumDecl) (t : TableD F) (l : StructLay) : Prop where
  lead : ∀ c ∈ l.lead, isBlank c = true
  g1ne : l.g1 ≠ []
  g1 : ∀ c ∈ l.g1, wsChar c = true
  g2 : ∀ c ∈ l.g2, wsChar c = true
  cols : colsLayOK t.cols l.cols = true
  cp : tdWsOK false l.closePre = true
  g3 : ∀ c ∈ l.g3, wsChar c = true
  g4 : ∀ c ∈ l.g4, wsChar c = true
  up : upper l.name = upper t.name
  name : wordOK l.name = true
  trail : ∀ c ∈ l.trail, isBlank c = true
  com : commentOK l.comment = true
  uns : unsizedOK enums t 0 t.cols l.cols = true

theorem structLayOK_props (enums : List EnumDecl) (t : TableD F) (l : StructLay)
    (h : structLayOK enums t l = true) : SLP enums t l := by
  simp only [structLayOK, Bool.and_eq_true, List.all_eq_true, beq_iff_eq, Bool.not_eq_true'] at h
  obtain ⟨⟨⟨⟨⟨⟨⟨⟨⟨⟨⟨⟨a1, a2⟩, a3⟩, a4⟩, a5⟩, a6⟩, a7⟩, a8⟩, a9⟩, a10⟩, a11⟩, a12⟩, a13⟩ := h
  exact ⟨a1, by intro e; rw [e] at a2; simp at a2, a3, a4, a5, a6, a7, a8, a9, a10, a11,
    tdComment_comment _ a12, a13⟩

theorem tableOK2_props (enums : List EnumDecl) (t : TableD F) (h : tableOK2 enums t = true) :
    wordOK t.name = true ∧ t.cols ≠ [] ∧ (∀ c ∈ t.cols, colOK c = true) ∧
    nodup (t.cols.map (·.name)) = true ∧ ∀ r ∈ t.rows, cellsOK enums t.cols r = true := by
  simp only [tableOK2, Bool.and_eq_true, List.all_eq_true, Bool.not_eq_true'] at h
  obtain ⟨⟨⟨⟨hw, hne⟩, hc⟩, hn⟩, hr⟩ := h
  refine ⟨hw, ?_, hc, hn, hr⟩
  intro e; rw [e] at hne; simp at hne

def blockLT (T K g1 g2 body g3 name g4 : Str) : Str :=
  T ++ g1 ++ K ++ g2 ++ '{' :: body ++ '}' :: g3 ++ name ++ g4 ++ [';']

theorem struct_assoc (T S lead g1 g2 decls cp g3 name g4 trail cmt : Str) :
    lead ++ T ++ g1 ++ S ++ g2 ++ '{' :: decls ++ cp ++ '}' :: g3 ++ name ++ g4 ++ ';' :: trail ++ cmt =
      lead ++ blockLT T S g1 g2 (decls ++ cp) g3 name g4 ++ (trail ++ cmt) := by
  unfold blockLT
  simp only [List.append_assoc, List.cons_append, List.nil_append]

theorem enum_assoc (T S lead g1 g2 op lbl cl g3 name g4 trail cmt : Str) :
    lead ++ T ++ g1 ++ S ++ g2 ++ '{' :: op ++ lbl ++ cl ++ '}' :: g3 ++ name ++ g4 ++ ';' :: trail ++ cmt =
      lead ++ blockLT T S g1 g2 (op ++ lbl ++ cl) g3 name g4 ++ (trail ++ cmt) := by
  unfold blockLT
  simp only [List.append_assoc, List.cons_append, List.nil_append]

theorem renderStruct_shape (enums : List EnumDecl) (t : TableD F) (l : StructLay)
    (ht : tableOK2 enums t = true) (hl : structLayOK enums t l = true) :
    renderStruct enums t l = some (l.lead ++ structBlk enums t l ++ (l.trail ++ commentText l.comment)) := by
  obtain ⟨_, _, hc, _, _⟩ := tableOK2_props enums t ht
  have hp := structLayOK_props enums t l hl
  unfold renderStruct
  rw [renderColDecls_mems enums t.cols l.cols (fun c hm => colOK_supported c (hc c hm)) hp.cols]
  exact congrArg some (struct_assoc "typedef".toList "struct".toList l.lead l.g1 l.g2 _ l.closePre l.g3 l.name l.g4
    l.trail (commentText l.comment))

theorem ws_space (g : Str) (h : ∀ c ∈ g, wsChar c = true) : ∀ c ∈ g, isSpace c = true :=
  fun c hc => wsChar_isSpace c (h c hc)

theorem resid_props (lead trail : Str) (cm : Option Str) (hlead : ∀ c ∈ lead, isBlank c = true)
    (htrail : ∀ c ∈ trail, isBlank c = true) (hc : commentOK cm = true) :
    noTypedef (trail ++ commentText cm) = true ∧ '\n' ∉ trail ++ commentText cm ∧
    noTypedef (lead ++ (trail ++ commentText cm)) = true ∧ '\n' ∉ lead ++ (trail ++ commentText cm) := by
  have h1 : noTypedef (trail ++ commentText cm) = true :=
    noTypedef_comment _ _ hc (noTypedef_no_t _ (fun hm => blanks_no_t _ htrail _ hm rfl))
  have h2 : '\n' ∉ trail ++ commentText cm := by
    intro hm
    rcases List.mem_append.mp hm with hm | hm
    · exact nl_blanks _ htrail hm
    · exact nl_comment _ hc hm
  refine ⟨h1, h2, noTypedef_left _ _ (blanks_no_t _ hlead) h1, ?_⟩
  intro hm
  rcases List.mem_append.mp hm with hm | hm
  · exact nl_blanks _ hlead hm
  · exact h2 hm

theorem lead_no_t (lead : Str) (h : ∀ c ∈ lead, isBlank c = true) : 't' ∉ lead :=
  fun hm => blanks_no_t _ h _ hm rfl

theorem isKw_S : isKw kS := Or.inl rfl
theorem isKw_E : isKw kE := Or.inr rfl
theorem kS_ne_kE : kS ≠ kE := by decide
theorem kE_ne_kS : kE ≠ kS := by decide

/-- a chunk `lead ++ block ++ tail` whose block is a struct definition -/
theorem infoOK_blockS (io : FloatIO F) (specs) (lead blk tl : Str) (td : TDef) (crlf : Bool)
    (hlead : ∀ c ∈ lead, isBlank c = true)
    (htl : noTypedef tl = true) (hres : noTypedef (lead ++ tl) = true) (hnl : '\n' ∉ lead ++ tl)
    (hfind : ∀ B, tdFind kS 0 (blk ++ B) = td :: tdFind kS 0 B)
    (hrem : ∀ B, tdRemove kS 0 (blk ++ B) = tdRemove kS 0 B)
    (hother : ∀ B, noMatchIn kE blk B)
    (hskip : ∀ cr, (cr = [] ∨ cr = ['\r']) → skipLine (lead ++ tl ++ cr) = true) :
    InfoOK io specs ⟨lead ++ blk ++ tl, lead ++ tl, lead ++ tl, crlf, [td], [], id⟩ := by
  have ptl : ∀ kw B, Bnd B → noMatchIn kw tl B := fun kw B hB => noMatchIn_piece kw tl B htl (bnd_piece B hB)
  have pres : ∀ kw B, Bnd B → noMatchIn kw (lead ++ tl) B :=
    fun kw B hB => noMatchIn_piece kw _ B hres (bnd_piece B hB)
  have pl : ∀ kw B, noMatchIn kw lead B := fun kw B => noMatchIn_nt kw lead B (lead_no_t lead hlead)
  refine ⟨?_, ?_, ?_, ?_, hnl, ?_⟩
  · intro B hB
    show tdFind kS 0 (lead ++ blk ++ tl ++ B) = [td] ++ tdFind kS 0 B
    rw [List.append_assoc, List.append_assoc, tdFind_noMatch _ lead _ (pl _ _), hfind,
      tdFind_noMatch _ tl B (ptl _ B hB)]
    rfl
  · intro B hB
    show tdFind kE 0 (lead ++ blk ++ tl ++ B) = [] ++ tdFind kE 0 B
    rw [List.append_assoc, List.append_assoc, tdFind_noMatch _ lead _ (pl _ _),
      tdFind_noMatch _ blk _ (hother _), tdFind_noMatch _ tl B (ptl _ B hB)]
    rfl
  · intro B hB
    show tdRemove kS 0 (lead ++ blk ++ tl ++ B) = lead ++ tl ++ tdRemove kS 0 B
    rw [List.append_assoc, List.append_assoc, tdRemove_noMatch _ lead _ (pl _ _), hrem,
      tdRemove_noMatch _ tl B (ptl _ B hB), List.append_assoc]
  · intro B hB
    exact tdRemove_noMatch kE _ B (pres _ B hB)
  · intro cr hcr st
    exact lineStep_skip io specs st _ (hskip cr hcr)

/-- a chunk `lead ++ block ++ tail` whose block is an enum definition -/
theorem infoOK_blockE (io : FloatIO F) (specs) (lead blk tl : Str) (td : TDef) (crlf : Bool)
    (hlead : ∀ c ∈ lead, isBlank c = true)
    (htl : noTypedef tl = true) (hres : noTypedef (lead ++ tl) = true) (hnl : '\n' ∉ lead ++ tl)
    (hfind : ∀ B, tdFind kE 0 (blk ++ B) = td :: tdFind kE 0 B)
    (hrem : ∀ B, tdRemove kE 0 (blk ++ B) = tdRemove kE 0 B)
    (hother : ∀ B, noMatchIn kS blk B)
    (hskip : ∀ cr, (cr = [] ∨ cr = ['\r']) → skipLine (lead ++ tl ++ cr) = true) :
    InfoOK io specs ⟨lead ++ blk ++ tl, lead ++ blk ++ tl, lead ++ tl, crlf, [], [td], id⟩ := by
  have ptl : ∀ kw B, Bnd B → noMatchIn kw tl B := fun kw B hB => noMatchIn_piece kw tl B htl (bnd_piece B hB)
  have pl : ∀ kw B, noMatchIn kw lead B := fun kw B => noMatchIn_nt kw lead B (lead_no_t lead hlead)
  refine ⟨?_, ?_, ?_, ?_, hnl, ?_⟩
  · intro B hB
    show tdFind kS 0 (lead ++ blk ++ tl ++ B) = [] ++ tdFind kS 0 B
    rw [List.append_assoc, List.append_assoc, tdFind_noMatch _ lead _ (pl _ _),
      tdFind_noMatch _ blk _ (hother _), tdFind_noMatch _ tl B (ptl _ B hB)]
    rfl
  · intro B hB
    show tdFind kE 0 (lead ++ blk ++ tl ++ B) = [td] ++ tdFind kE 0 B
    rw [List.append_assoc, List.append_assoc, tdFind_noMatch _ lead _ (pl _ _), hfind,
      tdFind_noMatch _ tl B (ptl _ B hB)]
    rfl
  · intro B hB
    show tdRemove kS 0 (lead ++ blk ++ tl ++ B) = lead ++ blk ++ tl ++ tdRemove kS 0 B
    rw [List.append_assoc, List.append_assoc, tdRemove_noMatch _ lead _ (pl _ _),
      tdRemove_noMatch _ blk _ (hother _), tdRemove_noMatch _ tl B (ptl _ B hB)]
    simp only [List.append_assoc]
  · intro B hB
    show tdRemove kE 0 (lead ++ blk ++ tl ++ B) = lead ++ tl ++ tdRemove kE 0 B
    rw [List.append_assoc, List.append_assoc, tdRemove_noMatch _ lead _ (pl _ _), hrem,
      tdRemove_noMatch _ tl B (ptl _ B hB), List.append_assoc]
  · intro cr hcr st
    exact lineStep_skip io specs st _ (hskip cr hcr)

theorem skip_resid' (lead trail : Str) (cm : Option Str) (hlead : ∀ c ∈ lead, isBlank c = true)
    (htrail : ∀ c ∈ trail, isBlank c = true) (cr : Str) (hcr : cr = [] ∨ cr = ['\r']) :
    skipLine (lead ++ (trail ++ commentText cm) ++ cr) = true := by
  have := skipLine_resid lead trail cm cr hlead htrail hcr
  simpa only [List.append_assoc] using this

/-- the struct definition chunk -/
theorem infoOK_sdef (io : FloatIO F) (specs) (enums : List EnumDecl) (he : ∀ e ∈ enums, enumOK e = true)
    (t : TableD F) (l : StructLay) (ht : tableOK2 enums t = true) (hl : structLayOK enums t l = true) :
    InfoOK io specs ⟨l.lead ++ structBlk enums t l ++ (l.trail ++ commentText l.comment),
      l.lead ++ (l.trail ++ commentText l.comment), l.lead ++ (l.trail ++ commentText l.comment),
      l.crlf, [structTD enums t l], [], id⟩ := by
  obtain ⟨_, hne, hc, _, _⟩ := tableOK2_props enums t ht
  have hp := structLayOK_props enums t l hl
  obtain ⟨r1, _, r3, r4⟩ := resid_props l.lead l.trail l.comment hp.lead hp.trail hp.com
  have hms := memsOf_ok enums he t.cols l.cols hc hp.cols
  have hmne : memsOf enums t.cols l.cols ≠ [] := by
    cases hcs : t.cols with
    | nil => exact absurd hcs hne
    | cons c cs =>
      have := hp.cols
      rw [hcs] at this
      cases hls : l.cols with
      | nil => rw [hls] at this; simp [colsLayOK] at this
      | cons a b => simp [memsOf]
  obtain ⟨b1, b2⟩ := body_no_brace _ l.closePre hms hp.cp
  have bne := body_ne_nil _ l.closePre hmne
  have hn := wordOK_wordy _ hp.name
  apply infoOK_blockS io specs l.lead (structBlk enums t l) _ (structTD enums t l) l.crlf hp.lead r1 r3 r4
  · intro B
    exact tdFind_lay_same kS l.g1 l.g2 _ l.g3 l.name l.g4 B isKw_S ⟨hp.g1ne, ws_space _ hp.g1⟩
      (ws_space _ hp.g2) (ws_space _ hp.g3) (ws_space _ hp.g4) ⟨bne, b2⟩ hn
  · intro B
    exact tdRemove_lay_same kS l.g1 l.g2 _ l.g3 l.name l.g4 B isKw_S ⟨hp.g1ne, ws_space _ hp.g1⟩
      (ws_space _ hp.g2) (ws_space _ hp.g3) (ws_space _ hp.g4) ⟨bne, b2⟩ hn
  · intro B
    exact noMatchIn_lay_other kS kE l.g1 l.g2 _ l.g3 l.name l.g4 B isKw_S isKw_E kS_ne_kE
      ⟨hp.g1ne, ws_space _ hp.g1⟩ (ws_space _ hp.g2) (ws_space _ hp.g3) (ws_space _ hp.g4) b1 hn
  · exact fun cr hcr => skip_resid' l.lead l.trail l.comment hp.lead hp.trail cr hcr

/-! ### the enum chunk -/

def enumBodyL (e : EnumDecl) (l : EnumLay) : Str :=
  l.op ++ (renderLabels e.labels l.afterComma).getD [] ++ l.cl

def enumBlk (e : EnumDecl) (l : EnumLay) : Str :=
  blockL kE l.g1 l.g2 (enumBodyL e l) l.g3 (upper e.tyName) l.g4

def enumTD (e : EnumDecl) (l : EnumLay) : TDef := ⟨enumBlk e l, enumBodyL e l, upper e.tyName⟩

theorem renderLabels_chars (labels ws : List Str) (lbl : Str) (h : renderLabels labels ws = some lbl) :
    ∀ c ∈ lbl, (∃ a ∈ labels, c ∈ a) ∨ c = ',' ∨ ∃ w ∈ ws, c ∈ w := by
  induction labels generalizing ws lbl with
  | nil => simp [renderLabels] at h
  | cons a t ih =>
    cases t with
    | nil =>
      cases ws with
      | nil =>
        simp only [renderLabels, Option.some.injEq] at h
        subst h
        intro c hc
        exact Or.inl ⟨a, by simp, hc⟩
      | cons w ws' => simp [renderLabels] at h
    | cons b t' =>
      cases ws with
      | nil => simp [renderLabels] at h
      | cons w ws' =>
        simp only [renderLabels] at h
        cases hr : renderLabels (b :: t') ws' with
        | none => rw [hr] at h; cases h
        | some r =>
          rw [hr] at h
          injection h with h
          subst h
          intro c hc
          simp only [List.mem_append, List.mem_cons] at hc
          rcases hc with (hc | hc | hc) | hc
          · exact Or.inl ⟨a, by simp, hc⟩
          · exact Or.inr (Or.inl hc)
          · exact Or.inr (Or.inr ⟨w, by simp, hc⟩)
          · rcases ih ws' r hr c hc with ⟨x, hx, hcx⟩ | h2 | ⟨x, hx, hcx⟩
            · exact Or.inl ⟨x, List.mem_cons_of_mem _ hx, hcx⟩
            · exact Or.inr (Or.inl h2)
            · exact Or.inr (Or.inr ⟨x, List.mem_cons_of_mem _ hx, hcx⟩)

structure ELP (e : EnumDecl) (l : EnumLay) : Prop where
  lead : ∀ c ∈ l.lead, isBlank c = true
  g1ne : l.g1 ≠ []
  g1 : ∀ c ∈ l.g1, wsChar c = true
  g2 : ∀ c ∈ l.g2, wsChar c = true
  op : ∀ c ∈ l.op, wsChar c = true
  ac : ∀ w ∈ l.afterComma, ∀ c ∈ w, wsChar c = true
  cl : ∀ c ∈ l.cl, wsChar c = true
  g3 : ∀ c ∈ l.g3, wsChar c = true
  g4 : ∀ c ∈ l.g4, wsChar c = true
  trail : ∀ c ∈ l.trail, isBlank c = true
  com : commentOK l.comment = true

theorem enumLayOK_props (e : EnumDecl) (l : EnumLay) (h : enumLayOK e l = true) : ELP e l := by
  simp only [enumLayOK, Bool.and_eq_true, List.all_eq_true, beq_iff_eq, Bool.not_eq_true'] at h
  obtain ⟨⟨⟨⟨⟨⟨⟨⟨⟨⟨⟨a1, a2⟩, a3⟩, a4⟩, a5⟩, a6⟩, _⟩, a8⟩, a9⟩, a10⟩, a11⟩, a12⟩ := h
  exact ⟨a1, by intro e'; rw [e'] at a2; simp at a2, a3, a4, a5, a6, a8, a9, a10, a11, tdComment_comment _ a12⟩

theorem wsChar_no_brace (c : Char) (h : wsChar c = true) : c ≠ '{' ∧ c ≠ '}' := by
  constructor <;> (intro e; subst e; exact absurd h (by decide))

/-- the enum definition chunk -/
theorem infoOK_edef (io : FloatIO F) (specs) (e : EnumDecl) (l : EnumLay) (he : enumOK e = true)
    (hl : enumLayOK e l = true) (txt : Str) (hr : renderEnum e l = some txt) :
    txt = l.lead ++ enumBlk e l ++ (l.trail ++ commentText l.comment) ∧
    InfoOK io specs ⟨txt, txt, l.lead ++ (l.trail ++ commentText l.comment), l.crlf, [], [enumTD e l], id⟩ := by
  have hp := enumLayOK_props e l hl
  obtain ⟨hw, _, hlab⟩ := enumOK_props e he
  obtain ⟨r1, _, r3, r4⟩ := resid_props l.lead l.trail l.comment hp.lead hp.trail hp.com
  unfold renderEnum at hr
  cases hlb : renderLabels e.labels l.afterComma with
  | none => rw [hlb] at hr; cases hr
  | some lbl =>
    rw [hlb] at hr
    injection hr with hr
    have hbody : enumBodyL e l = l.op ++ lbl ++ l.cl := by simp only [enumBodyL, hlb, Option.getD_some]
    have htxt : txt = l.lead ++ enumBlk e l ++ (l.trail ++ commentText l.comment) := by
      rw [← hr]
      have hb : enumBlk e l = blockLT "typedef".toList "enum".toList l.g1 l.g2 (l.op ++ lbl ++ l.cl) l.g3
          (upper e.tyName) l.g4 := by
        rw [enumBlk, hbody]; rfl
      rw [hb]
      exact enum_assoc "typedef".toList "enum".toList l.lead l.g1 l.g2 l.op lbl l.cl l.g3 (upper e.tyName) l.g4
        l.trail (commentText l.comment)
    refine ⟨htxt, ?_⟩
    rw [htxt]
    have hchars : ∀ c ∈ enumBodyL e l, c ≠ '{' ∧ c ≠ '}' := by
      intro c hc
      rw [hbody] at hc
      simp only [List.mem_append] at hc
      rcases hc with (hc | hc) | hc
      · exact wsChar_no_brace c (hp.op c hc)
      · rcases renderLabels_chars _ _ _ hlb c hc with ⟨a, ha, hca⟩ | h2 | ⟨w, hw', hcw⟩
        · exact wordy_plain _ (wordOK_wordy _ (hlab a ha)) c hca
        · subst h2; exact ⟨by decide, by decide⟩
        · exact wsChar_no_brace c (hp.ac w hw' c hcw)
      · exact wsChar_no_brace c (hp.cl c hc)
    have bne : enumBodyL e l ≠ [] := by
      rw [hbody]
      have := (renderLabels_ends e.labels l.afterComma lbl (fun a ha => wordOK_wordy _ (hlab a ha)) hlb).1
      intro e'
      have h1 := List.append_eq_nil_iff.mp e'
      have h2 := List.append_eq_nil_iff.mp h1.1
      exact this h2.2
    have hn : wordy (upper e.tyName) := wordy_upper _ (wordOK_wordy _ hw)
    apply infoOK_blockE io specs l.lead (enumBlk e l) _ (enumTD e l) l.crlf hp.lead r1 r3 r4
    · intro B
      exact tdFind_lay_same kE l.g1 l.g2 _ l.g3 _ l.g4 B isKw_E ⟨hp.g1ne, ws_space _ hp.g1⟩
        (ws_space _ hp.g2) (ws_space _ hp.g3) (ws_space _ hp.g4) ⟨bne, fun hm => (hchars _ hm).2 rfl⟩ hn
    · intro B
      exact tdRemove_lay_same kE l.g1 l.g2 _ l.g3 _ l.g4 B isKw_E ⟨hp.g1ne, ws_space _ hp.g1⟩
        (ws_space _ hp.g2) (ws_space _ hp.g3) (ws_space _ hp.g4) ⟨bne, fun hm => (hchars _ hm).2 rfl⟩ hn
    · intro B
      exact noMatchIn_lay_other kE kS l.g1 l.g2 _ l.g3 _ l.g4 B isKw_E isKw_S kE_ne_kS
        ⟨hp.g1ne, ws_space _ hp.g1⟩ (ws_space _ hp.g2) (ws_space _ hp.g3) (ws_space _ hp.g4)
        (fun hm => (hchars _ hm).1 rfl) hn
    · exact fun cr hcr => skip_resid' l.lead l.trail l.comment hp.lead hp.trail cr hcr

/-! ## PART 4: typing from a laid-out struct text -/

theorem structBlk_structL (enums : List EnumDecl) (t : TableD F) (l : StructLay) :
    structBlk enums t l = structL l.g1 l.g2 (structBodyL enums t l) l.g3 l.name l.g4 := rfl

theorem normB_append (a b : Str) : normB (a ++ b) = normB a ++ normB b := by simp [normB]

theorem normB_digits (n : Nat) : normB (fmtNat n) = fmtNat n := by
  unfold normB
  conv => rhs; rw [← List.map_id (fmtNat n)]
  apply List.map_congr_left
  intro c hc
  have := digit_facts c (fmtNat_chars n c hc)
  simp [this.2.2.2.1, this.2.2.2.2.1]

theorem normB_brk_some (legacy : Bool) (n : Nat) : normB (brk legacy (some n)) = brack n := by
  cases legacy
  · simp only [brk, Bool.false_eq_true, if_false]
    exact normB_arrOK _ (brack_arrOK n)
  · simp only [brk, if_true, brack]
    show normB ('<' :: (fmtNat n ++ ['>'])) = _
    rw [show '<' :: (fmtNat n ++ ['>']) = ['<'] ++ (fmtNat n ++ ['>']) from rfl, normB_append, normB_append,
      normB_digits]
    rfl

theorem normB_brk_none (legacy : Bool) : normB (brk legacy none) = ['[', ']'] := by
  cases legacy <;> rfl

/-- the type text `yanny.type()` returns for a column written with `char name[]` -/
def typUnsized (c : Col) : Str := "char".toList ++ arrA c ++ ['[', ']']

theorem brk_ne_nil (legacy : Bool) (n : Option Nat) : brk legacy n ≠ [] := by simp [brk]

/-- a declaration without brackets has an empty array suffix -/
theorem arr_of_noBr (enums : List EnumDecl) (c : Col) (l : ColLay) (h : hasBr enums c = false) :
    (memOf enums c l).arr = [] := by
  simp only [hasBr, Bool.or_eq_false_iff, decide_eq_false_iff_not, Bool.and_eq_false_iff] at h
  obtain ⟨h1, h2⟩ := h
  simp only [memOf, arrLay, sizeLay, h1, if_false, List.nil_append]
  cases hs : strSize c.ty with
  | none => rfl
  | some n =>
    cases hf : enums.find? (fun e => e.col == c.name) with
    | some e => rfl
    | none => simp [hs, hf] at h2

theorem restNoBr_memsOf (enums : List EnumDecl) (cols : List Col) (lays : List ColLay)
    (h : lineRestOK enums cols lays = true) : restNoBr (memsOf enums cols lays) := by
  induction cols generalizing lays with
  | nil => cases lays <;> trivial
  | cons c cs ih =>
    cases lays with
    | nil => trivial
    | cons l ls =>
      simp only [lineRestOK, Bool.or_eq_true, Bool.and_eq_true, Bool.not_eq_true'] at h
      rcases h with h | h
      · exact Or.inl (by simpa [memOf] using h)
      · exact Or.inr ⟨arr_of_noBr enums c l h.1, ih ls h.2⟩

theorem LineOK_memsOf (enums : List EnumDecl) (cols : List Col) (lays : List ColLay)
    (h : declLineOK enums cols lays = true) : LineOK (memsOf enums cols lays) := by
  induction cols generalizing lays with
  | nil => cases lays <;> trivial
  | cons c cs ih =>
    cases lays with
    | nil => trivial
    | cons l ls =>
      simp only [declLineOK, Bool.and_eq_true, Bool.or_eq_true, Bool.not_eq_true'] at h
      refine ⟨?_, ih ls h.2⟩
      rcases h.1 with h1 | h1
      · exact Or.inl (arr_of_noBr enums c l h1)
      · exact Or.inr (restNoBr_memsOf enums cs ls h1)

theorem lineRestOK_of_all (enums : List EnumDecl) (cols : List Col) (lays : List ColLay)
    (h : lays.all (fun l => l.pre.contains '\n') = true) : lineRestOK enums cols lays = true := by
  cases cols with
  | nil => cases lays <;> rfl
  | cons c cs =>
    cases lays with
    | nil => rfl
    | cons l ls =>
      simp only [List.all_cons, Bool.and_eq_true] at h
      simp only [lineRestOK, h.1, Bool.true_or]

theorem declLineOK_of_all (enums : List EnumDecl) (cols : List Col) (lays : List ColLay)
    (h : lays.all (fun l => l.pre.contains '\n') = true) : declLineOK enums cols lays = true := by
  induction cols generalizing lays with
  | nil => cases lays <;> rfl
  | cons c cs ih =>
    cases lays with
    | nil => rfl
    | cons l ls =>
      simp only [List.all_cons, Bool.and_eq_true] at h
      simp only [declLineOK, lineRestOK_of_all enums cs ls h.2, Bool.or_true, ih ls h.2, Bool.and_self]

/-- the assumption of the first extension round is a special case of `declLineOK` -/
theorem declLineOK_of_nl (enums : List EnumDecl) (cols : List Col) (lays : List ColLay)
    (h : declNlOK lays = true) : declLineOK enums cols lays = true := by
  cases cols with
  | nil => cases lays <;> rfl
  | cons c cs =>
    cases lays with
    | nil => rfl
    | cons l ls =>
      have h' : ls.all (fun l => l.pre.contains '\n') = true := h
      simp only [declLineOK, lineRestOK_of_all enums cs ls h', Bool.or_true, declLineOK_of_all enums cs ls h',
        Bool.and_self]

theorem typeOf_layW (enums : List EnumDecl) (he : ∀ e ∈ enums, enumOK e = true) (t : TableD F) (l : StructLay)
    (ht : tableOK2 enums t = true) (hl : structLayOK enums t l = true)
    (hline : declLineOK enums t.cols l.cols = true)
    (sts : List Str) (hsel : selectDef sts (upper t.name) = some (structBlk enums t l))
    (k : Nat) (c : Col) (cl : ColLay) (hc : t.cols[k]? = some c) (hcl : l.cols[k]? = some cl) :
    typeOf sts (upper t.name) c.name =
      .ok (tyWord enums c ++ normB (arrLay c cl ++ sizeLay enums c cl)) := by
  obtain ⟨_, _, hcols, hnd, _⟩ := tableOK2_props enums t ht
  have hp := structLayOK_props enums t l hl
  have hms := memsOf_ok enums he t.cols l.cols hcols hp.cols
  have hmem := memsOf_mem enums t.cols l.cols k c cl hc hcl
  have hts := typeSearch_layW (memsOf enums t.cols l.cols) l.closePre l.g1 l.g2 l.g3 l.name l.g4 hms
    (by rw [memsOf_names enums _ _ hp.cols]; exact nodup_Nodup _ hnd)
    (LineOK_memsOf enums t.cols l.cols hline)
    hp.cp ⟨hp.g1ne, hp.g1⟩ hp.g2 hp.g3 hp.g4 (wordOK_wordy _ hp.name) (memOf enums c cl) hmem
  have hts' : typeSearch c.name (structBlk enums t l) =
      some (tyWord enums c, arrLay c cl ++ sizeLay enums c cl) := hts
  simp only [typeOf, hsel, hts']

theorem typeOf_lay (enums : List EnumDecl) (he : ∀ e ∈ enums, enumOK e = true) (t : TableD F) (l : StructLay)
    (ht : tableOK2 enums t = true) (hl : structLayOK enums t l = true) (hnl : declNlOK l.cols = true)
    (sts : List Str) (hsel : selectDef sts (upper t.name) = some (structBlk enums t l))
    (k : Nat) (c : Col) (cl : ColLay) (hc : t.cols[k]? = some c) (hcl : l.cols[k]? = some cl) :
    typeOf sts (upper t.name) c.name =
      .ok (tyWord enums c ++ normB (arrLay c cl ++ sizeLay enums c cl)) :=
  typeOf_layW enums he t l ht hl (declLineOK_of_nl enums t.cols l.cols hnl) sts hsel k c cl hc hcl

theorem arrLay_normB (c : Col) (cl : ColLay) : normB (arrLay c cl) = arrA c := by
  unfold arrLay arrA
  split
  · exact normB_brk_some _ _
  · rfl

/-- a sized declaration: the type text is the canonical one -/
theorem typ_sized (enums : List EnumDecl) (c : Col) (cl : ColLay) (hu : cl.unsized = false) :
    tyWord enums c ++ normB (arrLay c cl ++ sizeLay enums c cl) = typOf enums c := by
  rw [typOf_eq, normB_append, arrLay_normB]
  congr 1
  unfold arrSuffix arrA sizeLay
  congr 1
  cases strSize c.ty with
  | none => rfl
  | some s =>
    cases enums.find? (fun e => e.col == c.name) with
    | some e => rfl
    | none => simp only [hu, Bool.false_eq_true, if_false]; exact normB_brk_some _ _

theorem typ_unsized (enums : List EnumDecl) (c : Col) (cl : ColLay) (n : Nat) (hu : cl.unsized = true)
    (hty : c.ty = .S n) (hf : enums.find? (fun e => e.col == c.name) = none) :
    tyWord enums c ++ normB (arrLay c cl ++ sizeLay enums c cl) = typUnsized c := by
  rw [normB_append, arrLay_normB]
  have h1 : tyWord enums c = "char".toList := by simp only [tyWord, hty, strSize, hf]
  have h2 : sizeLay enums c cl = brk cl.legacy2 none := by simp only [sizeLay, hty, strSize, hf, hu, if_true]
  rw [h1, h2, normB_brk_none, typUnsized, List.append_assoc]

theorem colSpec_of_typ (structs : List Str) (T : Str) (enums : List EnumDecl) (c : Col)
    (hty : typeOf structs T c.name = .ok (typOf enums c))
    (hc : colOK c = true) (he : ∀ e ∈ enums, enumOK e = true) :
    colSpec structs T c.name = .ok (specOfCol c) := by
  rw [colSpec, hty]
  show Except.ok (ColSpec.mk (convOfBase (baseType (typOf enums c))) (isArrayT (typOf enums c))) = _
  rw [baseType_typ enums c hc he, convOfBase_tyWord enums c hc he, isArrayT_typ enums c hc he]
  rfl

theorem rcolOf_of_typ (structs : List Str) (cache : List (Str × List Str)) (T : Str)
    (enums : List EnumDecl) (c : Col) (data : List (Cell F))
    (hty : typeOf structs T c.name = .ok (typOf enums c))
    (hc : colOK c = true) (he : ∀ e ∈ enums, enumOK e = true)
    (hcache : ∀ e, enums.find? (fun e => e.col == c.name) = some e →
      lookupLast (upper e.tyName) cache = some e.labels)
    (hnum : ∀ w ∈ ["short".toList, "int".toList, "long".toList, "float".toList, "double".toList],
      lookupLast w cache = none) :
    rcolOf structs cache T c.name data = .ok (rcolCanon enums c) := by
  unfold rcolOf rcolCanon
  simp only [hty, baseType_typ enums c hc he, isArrayT_typ enums c hc he]
  have hs : supported c.ty = true := by
    simp only [colOK, Bool.and_eq_true] at hc
    exact hc.2
  have hstr : ∀ s, strSize c.ty = some s →
      rtOfCol enums c = (match enums.find? (fun e => e.col == c.name) with
        | some e => some (RT.S (maxLen e.labels))
        | none => some (RT.S s)) := by
    intro s h
    unfold rtOfCol
    cases hty : c.ty <;> simp only [hty, strSize, Option.some.injEq] at h
    all_goals first | (subst h; rfl) | cases h
  have hstrcase : ∀ s, strSize c.ty = some s → ∀ a : Option Nat,
      (match
        if (tyWord enums c == "char".toList) = true then
          match charLength (typOf enums c) data with
          | Except.error e => Except.error e
          | Except.ok n => Except.ok (RT.S n)
        else
          match lookupLast (tyWord enums c) cache with
          | some labels => Except.ok (RT.S (maxLen labels))
          | none =>
            match rtOfBase (tyWord enums c) with
            | some t => Except.ok t
            | none => Except.error "KeyError" with
      | Except.error e => Except.error e
      | Except.ok t => Except.ok { name := c.name, ty := t, alen := a }) =
      (Except.ok { name := c.name, ty := (rtOfCol enums c).getD RT.i2, alen := a } : Except String RCol) := by
    intro s hss a
    have hro := hstr s hss
    cases hf : enums.find? (fun e => e.col == c.name) with
    | none =>
      have htw : tyWord enums c = "char".toList := by simp only [tyWord, hss, hf]
      rw [hf] at hro
      simp only [htw, charLength_typ enums c s hss hf data, hro]
      rfl
    | some e =>
      have htw : tyWord enums c = upper e.tyName := by simp only [tyWord, hss, hf]
      rw [hf] at hro
      simp only [htw, upper_beq _ (enumOK_of_find enums he _ e hf).1 _ (by decide : "char".toList.any lowerCh = true),
        hcache e hf, hro]
      rfl
  by_cases h : c.alen > 0 <;>
    simp only [h, decide_true, decide_false, if_true, if_false, Bool.false_eq_true,
      arrayLength_typ enums c hc he] <;>
    (cases hty : c.ty <;> simp only [hty, supported] at hs <;> try (exact absurd hs (by decide))) <;>
    first
      | exact hstrcase _ (by rw [hty]; rfl) _
      | (have htw : tyWord enums c = ((cType c.ty).getD []) := by simp only [tyWord, hty, strSize]
         have hro : rtOfCol enums c = (match c.ty with
            | .i2 => some RT.i2 | .i4 => some .i4 | .i8 => some .i8 | .f4 => some .f4 | _ => some .f8) := by
           simp only [rtOfCol, hty]
         have hl : lookupLast ((cType c.ty).getD []) cache = none := by
           rw [hty]; exact hnum _ (by simp [cType])
         rw [hty] at htw hro hl
         simp only [cType, Option.getD_some] at htw hl
         simp only [htw, hl, hro]
         rfl)

/-! ### `char name[]` -/

theorem typUnsized_shape (c : Col) : ∃ rest, typUnsized c = "char".toList ++ '[' :: rest := by
  unfold typUnsized arrA
  split
  · exact ⟨fmtNat c.alen ++ [']'] ++ ['[', ']'], by simp [brack]⟩
  · exact ⟨[']'], by simp⟩

theorem baseType_unsized (c : Col) : baseType (typUnsized c) = "char".toList := by
  obtain ⟨rest, h⟩ := typUnsized_shape c
  rw [h, baseType]
  exact takeWhile_app_stop _ _ '[' rest (by decide) (by decide)

theorem isArrayT_unsized (c : Col) : isArrayT (typUnsized c) = decide (c.alen > 0) := by
  by_cases h : c.alen > 0
  · have e : typUnsized c = "char".toList ++ '[' :: (fmtNat c.alen ++ ']' :: '[' :: (']' :: [])) := by
      simp [typUnsized, arrA, h, brack]
    have hm : matchCharArr (typUnsized c) = true := by
      rw [e, matchCharArr, stripPrefix_app]
      simp only [digitsThenClose_fmt]
      rfl
    rw [isArrayT, searchCharArr_of_match _ hm]
    simp [h]
  · have e : typUnsized c = "char".toList ++ ['[', ']'] := by simp [typUnsized, arrA, h]
    rw [e]
    simp only [h, decide_false]
    decide

theorem arrayLength_unsized (c : Col) (h : c.alen > 0) : arrayLength (typUnsized c) = .ok c.alen := by
  have e : typUnsized c = "char".toList ++ '[' :: (fmtNat c.alen ++ ']' :: ['[', ']']) := by
    simp [typUnsized, arrA, h, brack]
  rw [e, arrayLength]
  have h1 : ("char".toList ++ '[' :: (fmtNat c.alen ++ ']' :: ['[', ']'])).contains '[' = true := by simp
  have h2 : ("char".toList ++ '[' :: (fmtNat c.alen ++ ']' :: ['[', ']'])).contains ']' = true := by simp
  rw [h1, h2, dropWhile_app_stop _ _ '[' _ (by decide) (by decide)]
  show (match parseNat ((fmtNat c.alen ++ ']' :: ['[', ']']).takeWhile (· != ']')) with
    | some n => Except.ok n
    | none => Except.error "ValueError") = _
  have hd : ∀ a ∈ fmtNat c.alen, (a != ']') = true := by
    intro a ha
    have := (digit_facts a (fmtNat_chars _ a ha)).2.2.1
    simpa using this
  rw [takeWhile_app_stop _ _ ']' _ hd (by decide), parseNat_fmtNat]

theorem charLength_unsized (c : Col) (data : List (Cell F)) :
    charLength (typUnsized c) data =
      if data.isEmpty then .ok 1 else .ok ((data.map cellMaxLen).foldl max 0) := by
  have hr : (typUnsized c).reverse = ']' :: '[' :: ("char".toList ++ arrA c).reverse := by
    simp [typUnsized]
  rw [charLength, lastBracket, hr, dropWhile_head_false _ _ _ (by decide)]
  rfl

theorem colSpec_unsized (structs : List Str) (T : Str) (c : Col) (n : Nat)
    (hty : typeOf structs T c.name = .ok (typUnsized c)) (hs : c.ty = .S n) :
    colSpec structs T c.name = .ok (specOfCol c) := by
  rw [colSpec, hty]
  show Except.ok (ColSpec.mk (convOfBase (baseType (typUnsized c))) (isArrayT (typUnsized c))) = _
  rw [baseType_unsized, isArrayT_unsized]
  simp only [specOfCol, convOfCol, hs]
  rfl

theorem rcolOf_unsized (structs : List Str) (cache : List (Str × List Str)) (T : Str)
    (enums : List EnumDecl) (c : Col) (n : Nat) (data : List (Cell F))
    (hty : typeOf structs T c.name = .ok (typUnsized c)) (hs : c.ty = .S n) (hn : n ≥ 1)
    (hf : enums.find? (fun e => e.col == c.name) = none)
    (hmax : (data.map cellMaxLen).foldl max 0 = n) :
    rcolOf structs cache T c.name data = .ok (rcolCanon enums c) := by
  have hne : data.isEmpty = false := by
    cases data with
    | nil => simp at hmax; omega
    | cons a t => rfl
  have hrt : (rtOfCol enums c).getD .i2 = .S n := by simp only [rtOfCol, hs, hf, Option.getD_some]
  unfold rcolOf rcolCanon
  simp only [hty, baseType_unsized, isArrayT_unsized, charLength_unsized, hne, Bool.false_eq_true, if_false,
    beq_self_eq_true, if_true, hmax, hrt]
  by_cases h : c.alen > 0
  · simp only [h, decide_true, if_true, arrayLength_unsized c h]
  · simp only [h, decide_false, Bool.false_eq_true, if_false]

/-! ### all columns of a table -/

theorem colsLayOK_get (cols : List Col) (lays : List ColLay) (h : colsLayOK cols lays = true) (k : Nat) (c : Col)
    (hc : cols[k]? = some c) : ∃ cl, lays[k]? = some cl := by
  induction cols generalizing lays k with
  | nil => simp at hc
  | cons c0 cs ih =>
    cases lays with
    | nil => simp [colsLayOK] at h
    | cons l0 ls =>
      simp only [colsLayOK, Bool.and_eq_true] at h
      cases k with
      | zero => exact ⟨l0, rfl⟩
      | succ k =>
        simp only [List.getElem?_cons_succ] at hc ⊢
        exact ih ls h.2 k hc

theorem unsizedOK_at (enums : List EnumDecl) (t : TableD F) (j : Nat) (cols : List Col) (lays : List ColLay)
    (h : unsizedOK enums t j cols lays = true) (k : Nat) (c : Col) (cl : ColLay)
    (hc : cols[k]? = some c) (hcl : lays[k]? = some cl) (hu : cl.unsized = true) :
    ∃ n, c.ty = .S n ∧ colMaxLen t.rows (j + k) = n ∧ enums.find? (fun e => e.col == c.name) = none := by
  induction cols generalizing lays k j with
  | nil => simp at hc
  | cons c0 cs ih =>
    cases lays with
    | nil => simp at hcl
    | cons l0 ls =>
      simp only [unsizedOK, Bool.and_eq_true, Bool.or_eq_true, Bool.not_eq_true'] at h
      cases k with
      | zero =>
        simp only [List.getElem?_cons_zero, Option.some.injEq] at hc hcl
        subst hc; subst hcl
        rcases h.1 with h1 | h1
        · rw [hu] at h1; cases h1
        · cases hty : c0.ty <;> rw [hty] at h1 <;> simp at h1
          exact ⟨_, rfl, by simpa using h1.1.2, by simpa using h1.2⟩
      | succ k =>
        simp only [List.getElem?_cons_succ] at hc hcl
        obtain ⟨n, a1, a2, a3⟩ := ih (j + 1) ls h.2 k hc hcl
        exact ⟨n, a1, by rw [← a2]; congr 1; omega, a3⟩

/-- piece (2'): column typing from a struct definition in any layout - `type()`, `basetype`,
`isarray`, `array_length`, `char_length` (incl. `char name[]` sized by the longest value) give the
column specs the row reader needs and the canonical record-array column types -/
theorem typing_layW (enums : List EnumDecl) (he : ∀ e ∈ enums, enumOK e = true) (t : TableD F) (l : StructLay)
    (ht : tableOK2 enums t = true) (hl : structLayOK enums t l = true) (hline : declLineOK enums t.cols l.cols = true)
    (sts : List Str) (hsel : selectDef sts (upper t.name) = some (structBlk enums t l))
    (cache : List (Str × List Str))
    (hcache : ∀ e ∈ enums, lookupLast (upper e.tyName) cache = some e.labels)
    (hnum : ∀ w ∈ ["short".toList, "int".toList, "long".toList, "float".toList, "double".toList],
      lookupLast w cache = none) :
    colSpecs sts (upper t.name) (t.cols.map (·.name)) = .ok (t.cols.map specOfCol) ∧
    ∀ (k : Nat) (c : Col), t.cols[k]? = some c →
      rcolOf sts cache (upper t.name) c.name (t.rows.filterMap (fun r => r[k]?)) = .ok (rcolCanon enums c) := by
  obtain ⟨_, _, hcols, _, _⟩ := tableOK2_props enums t ht
  have hp := structLayOK_props enums t l hl
  have key : ∀ (k : Nat) (c : Col), t.cols[k]? = some c →
      colSpec sts (upper t.name) c.name = .ok (specOfCol c) ∧
      rcolOf sts cache (upper t.name) c.name (t.rows.filterMap (fun r => r[k]?)) = .ok (rcolCanon enums c) := by
    intro k c hc
    obtain ⟨cl, hcl⟩ := colsLayOK_get _ _ hp.cols k c hc
    have hcm : c ∈ t.cols := List.mem_of_getElem? hc
    have hco := hcols c hcm
    have hty := typeOf_layW enums he t l ht hl hline sts hsel k c cl hc hcl
    cases hu : cl.unsized with
    | false =>
      rw [typ_sized enums c cl hu] at hty
      exact ⟨colSpec_of_typ sts _ enums c hty hco he,
        rcolOf_of_typ sts cache _ enums c _ hty hco he
          (fun e hf => hcache e (List.mem_of_find?_eq_some hf)) hnum⟩
    | true =>
      obtain ⟨n, a1, a2, a3⟩ := unsizedOK_at enums t 0 t.cols l.cols hp.uns k c cl hc hcl hu
      rw [typ_unsized enums c cl n hu a1 a3] at hty
      have hn : n ≥ 1 := by
        have := colOK_supported c hco
        rw [a1] at this
        simpa [supported] using this
      refine ⟨colSpec_unsized sts _ c n hty a1, rcolOf_unsized sts cache _ enums c n _ hty a1 hn a3 ?_⟩
      have : colMaxLen t.rows k = n := by simpa using a2
      exact this
  refine ⟨?_, fun k c hc => (key k c hc).2⟩
  apply colSpecs_of_each
  intro c hc
  obtain ⟨k, hk⟩ := List.getElem?_of_mem hc
  exact (key k c hk).1

theorem typing_lay (enums : List EnumDecl) (he : ∀ e ∈ enums, enumOK e = true) (t : TableD F) (l : StructLay)
    (ht : tableOK2 enums t = true) (hl : structLayOK enums t l = true) (hnl : declNlOK l.cols = true)
    (sts : List Str) (hsel : selectDef sts (upper t.name) = some (structBlk enums t l))
    (cache : List (Str × List Str))
    (hcache : ∀ e ∈ enums, lookupLast (upper e.tyName) cache = some e.labels)
    (hnum : ∀ w ∈ ["short".toList, "int".toList, "long".toList, "float".toList, "double".toList],
      lookupLast w cache = none) :
    colSpecs sts (upper t.name) (t.cols.map (·.name)) = .ok (t.cols.map specOfCol) ∧
    ∀ (k : Nat) (c : Col), t.cols[k]? = some c →
      rcolOf sts cache (upper t.name) c.name (t.rows.filterMap (fun r => r[k]?)) = .ok (rcolCanon enums c) :=
  typing_layW enums he t l ht hl (declLineOK_of_nl enums t.cols l.cols hnl) sts hsel cache hcache hnum

/-! ### record arrays (as C01's `finishTables_written`, with the column data that is actually passed) -/

theorem rcolsOf_canon' (st : List Str) (cache : List (Str × List Str)) (T : Str) (enums : List EnumDecl)
    (rows : List (List (Cell F))) (cols : List Col) (j : Nat)
    (h : ∀ (k : Nat) (c : Col), cols[k]? = some c →
      rcolOf st cache T c.name (rows.filterMap (fun r => r[j + k]?)) = .ok (rcolCanon enums c)) :
    rcolsOf st cache T rows j (cols.map (·.name)) = .ok (cols.map (rcolCanon enums)) := by
  induction cols generalizing j with
  | nil => rfl
  | cons c cs ih =>
    have h0 := h 0 c rfl
    simp only [Nat.add_zero] at h0
    have ih' := ih (j + 1) (by
      intro k c' hc'
      have := h (k + 1) c' (by simpa using hc')
      have e : j + (k + 1) = j + 1 + k := by omega
      rw [e] at this
      exact this)
    simp only [List.map, rcolsOf, h0, ih']

theorem finishTable_written' (st : List Str) (cache : List (Str × List Str)) (T : Str)
    (enums : List EnumDecl) (cols : List Col) (rows : List (List (Cell F))) (hc : cols ≠ [])
    (hcol : ∀ (k : Nat) (c : Col), cols[k]? = some c →
      rcolOf st cache T c.name (rows.filterMap (fun r => r[k]?)) = .ok (rcolCanon enums c))
    (hrows : ∀ r ∈ rows, cellsOK enums cols r = true) :
    finishTable st cache T (cols.map (·.name)) rows = .ok ⟨T, cols.map (rcolCanon enums), rows⟩ := by
  have hf : rows.filter (fun r => !r.isEmpty) = rows := by
    apply List.filter_eq_self.mpr
    intro r hr
    have := cellsOK_ne_nil enums cols r hc (hrows r hr)
    cases r with
    | nil => exact absurd rfl this
    | cons a t => rfl
  have := rcolsOf_canon' st cache T enums rows cols 0 (by simpa using hcol)
  simp only [finishTable, hf, this, castRows_id enums cols rows hrows]

theorem finishTables_written' (st : List Str) (cache : List (Str × List Str)) (enums : List EnumDecl)
    (all : List (TableD F)) (hnd : nodup (all.map (fun t => upper t.name)) = true)
    (ts : List (TableD F)) (hsub : ∀ t ∈ ts, t ∈ all)
    (hok : ∀ t ∈ ts, t.cols ≠ [] ∧
      (∀ (k : Nat) (c : Col), t.cols[k]? = some c →
        rcolOf st cache (upper t.name) c.name (t.rows.filterMap (fun r => r[k]?)) = .ok (rcolCanon enums c)) ∧
      ∀ r ∈ t.rows, cellsOK enums t.cols r = true) :
    finishTables st cache (all.map (fun t => (upper t.name, t.rows)))
      (ts.map (fun t => (upper t.name, t.cols.map (·.name)))) =
      .ok (ts.map (fun t => ⟨upper t.name, t.cols.map (rcolCanon enums), t.rows⟩)) := by
  induction ts with
  | nil => rfl
  | cons t rest ih =>
    obtain ⟨c1, c2, c3⟩ := hok t (by simp)
    have hfind := find_by_key all (fun t => upper t.name) (fun t => t.rows) hnd t (hsub t (by simp))
    simp only [List.map, finishTables, hfind,
      finishTable_written' st cache (upper t.name) enums t.cols t.rows c1 c2 c3,
      ih (fun u hu => hsub u (by simp [hu])) (fun u hu => hok u (by simp [hu]))]

end PydlVerif.YannyLay

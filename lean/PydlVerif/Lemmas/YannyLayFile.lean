/-
C02, file level: the reader on a whole laid-out file, chunk by chunk.

  PART 1  chunks: what the typedef extraction and the line loop do to a text `joinChunks fe chunks`
          when every chunk is known to behave (`InfoOK`)
  PART 2  small text facts (`noTypedef` of glued pieces, characters of rendered pieces)
-/
import PydlVerif.Lemmas.YannyLayBlock
import PydlVerif.Lemmas.YannyLayLine
namespace PydlVerif.YannyLay
open PydlVerif.Yanny PydlVerif.YannyRT PydlVerif.YannyLayBlock PydlVerif.YannyLayLine

variable {F : Type}

/-! ## PART 1: chunks -/

abbrev kS : Str := "struct".toList
abbrev kE : Str := "enum".toList

/-- what may follow a chunk: the end of the text or a line end -/
def Bnd (B : Str) : Prop := B = [] ∨ ∃ c B', B = c :: B' ∧ (c = '\n' ∨ c = '\r')

theorem bnd_piece (B : Str) (h : Bnd B) : B = [] ∨ ∃ c B', B = c :: B' ∧ c ∉ "typedef".toList := by
  rcases h with h | ⟨c, B', h, hc⟩
  · exact Or.inl h
  · refine Or.inr ⟨c, B', h, ?_⟩
    rcases hc with rfl | rfl <;> decide

theorem bnd_nil : Bnd [] := Or.inl rfl

theorem bnd_eol (crlf : Bool) (R : Str) : Bnd (eol crlf ++ R) := by
  cases crlf
  · exact Or.inr ⟨'\n', R, rfl, Or.inl rfl⟩
  · exact Or.inr ⟨'\r', '\n' :: R, rfl, Or.inr rfl⟩

theorem noMatchIn_no_t (kw X B : Str) (h : 't' ∉ X) : noMatchIn kw X B := by
  induction X with
  | nil => exact noMatchIn_nil _ _
  | cons c t ih =>
    apply noMatchIn_cons_nt _ _ _ _ (fun e => h (by simp [e]))
    exact ih (fun hm => h (List.mem_cons_of_mem _ hm))

theorem eol_no_t (crlf : Bool) : 't' ∉ eol crlf := by cases crlf <;> decide

theorem tdFind_eol (kw : Str) (crlf : Bool) (R : Str) : tdFind kw 0 (eol crlf ++ R) = tdFind kw 0 R :=
  tdFind_noMatch kw _ R (noMatchIn_no_t kw _ R (eol_no_t crlf))

theorem tdRemove_eol (kw : Str) (crlf : Bool) (R : Str) :
    tdRemove kw 0 (eol crlf ++ R) = eol crlf ++ tdRemove kw 0 R :=
  tdRemove_noMatch kw _ R (noMatchIn_no_t kw _ R (eol_no_t crlf))

/-- what follows the first chunk in `joinChunks` -/
def tailOf (fe : Bool) (crlf : Bool) (r : List (Str × Bool)) : Str :=
  match r with
  | [] => if fe then eol crlf else []
  | _ :: _ => eol crlf ++ joinChunks fe r

theorem joinChunks_cons (fe : Bool) (l : Str) (crlf : Bool) (r : List (Str × Bool)) :
    joinChunks fe ((l, crlf) :: r) = l ++ tailOf fe crlf r := by
  cases r with
  | nil => cases fe <;> simp [joinChunks, tailOf]
  | cons a t => simp [joinChunks, tailOf]

theorem bnd_tailOf (fe crlf : Bool) (r : List (Str × Bool)) : Bnd (tailOf fe crlf r) := by
  cases r with
  | nil =>
    cases fe
    · exact bnd_nil
    · simpa [tailOf] using bnd_eol crlf []
  | cons a t => exact bnd_eol crlf _

theorem tdFind_tailOf (kw : Str) (fe crlf : Bool) (r : List (Str × Bool)) :
    tdFind kw 0 (tailOf fe crlf r) = tdFind kw 0 (joinChunks fe r) := by
  cases r with
  | nil =>
    cases fe
    · rfl
    · have := tdFind_eol kw crlf []
      simpa [tailOf, joinChunks] using this
  | cons a t => exact tdFind_eol kw crlf _

/-- one chunk of the file, as the reader sees it: its text, the text with the struct blocks cut out
(`mid`), with all typedef blocks cut out (`resid`, one line), the definitions found in it, and what
the line loop does with the residual line -/
structure ChunkInfo (F : Type) where
  text : Str
  mid : Str
  resid : Str
  crlf : Bool
  sdefs : List TDef
  edefs : List TDef
  eff : LoopSt F → LoopSt F

def crOf (crlf : Bool) : Str := if crlf then ['\r'] else []

theorem crOf_cases (crlf : Bool) : crOf crlf = [] ∨ crOf crlf = ['\r'] := by cases crlf <;> simp [crOf]

theorem eol_crOf (crlf : Bool) : eol crlf = crOf crlf ++ ['\n'] := by cases crlf <;> rfl

structure InfoOK (io : FloatIO F) (specs : List (Str × Except String (List ColSpec))) (i : ChunkInfo F) : Prop where
  findS : ∀ B, Bnd B → tdFind kS 0 (i.text ++ B) = i.sdefs ++ tdFind kS 0 B
  findE : ∀ B, Bnd B → tdFind kE 0 (i.text ++ B) = i.edefs ++ tdFind kE 0 B
  remS : ∀ B, Bnd B → tdRemove kS 0 (i.text ++ B) = i.mid ++ tdRemove kS 0 B
  remE : ∀ B, Bnd B → tdRemove kE 0 (i.mid ++ B) = i.resid ++ tdRemove kE 0 B
  noNl : '\n' ∉ i.resid
  step : ∀ cr, (cr = [] ∨ cr = ['\r']) → ∀ st, lineStep io specs st (i.resid ++ cr) = .ok (i.eff st)

def textChunks (infos : List (ChunkInfo F)) : List (Str × Bool) := infos.map (fun i => (i.text, i.crlf))
def midChunks (infos : List (ChunkInfo F)) : List (Str × Bool) := infos.map (fun i => (i.mid, i.crlf))
def residChunks (infos : List (ChunkInfo F)) : List (Str × Bool) := infos.map (fun i => (i.resid, i.crlf))

theorem tdFind_nil (kw : Str) : tdFind kw 0 [] = [] := rfl
theorem tdRemove_nil (kw : Str) : tdRemove kw 0 [] = [] := rfl

theorem chunks_findS (io : FloatIO F) (specs) (fe : Bool) (infos : List (ChunkInfo F))
    (h : ∀ i ∈ infos, InfoOK io specs i) :
    tdFind kS 0 (joinChunks fe (textChunks infos)) = (infos.map (·.sdefs)).flatten := by
  induction infos with
  | nil => rfl
  | cons i t ih =>
    have hi := h i (by simp)
    have ih' := ih (fun x hx => h x (by simp [hx]))
    simp only [textChunks, List.map_cons] at ih' ⊢
    rw [joinChunks_cons, hi.findS _ (bnd_tailOf _ _ _), tdFind_tailOf, ih']
    simp

theorem chunks_findE (io : FloatIO F) (specs) (fe : Bool) (infos : List (ChunkInfo F))
    (h : ∀ i ∈ infos, InfoOK io specs i) :
    tdFind kE 0 (joinChunks fe (textChunks infos)) = (infos.map (·.edefs)).flatten := by
  induction infos with
  | nil => rfl
  | cons i t ih =>
    have hi := h i (by simp)
    have ih' := ih (fun x hx => h x (by simp [hx]))
    simp only [textChunks, List.map_cons] at ih' ⊢
    rw [joinChunks_cons, hi.findE _ (bnd_tailOf _ _ _), tdFind_tailOf, ih']
    simp

theorem tdRemove_tailOf (kw : Str) (fe crlf : Bool) (r r' : List (Str × Bool))
    (hl : r.length = r'.length) (h : tdRemove kw 0 (joinChunks fe r) = joinChunks fe r') :
    tdRemove kw 0 (tailOf fe crlf r) = tailOf fe crlf r' := by
  cases r with
  | nil =>
    have : r' = [] := by
      cases r' with
      | nil => rfl
      | cons a t => simp at hl
    subst this
    cases fe
    · rfl
    · have := tdRemove_eol kw crlf []
      simpa [tailOf, tdRemove_nil] using this
  | cons a t =>
    cases r' with
    | nil => simp at hl
    | cons b u =>
      simp only [tailOf]
      rw [tdRemove_eol, h]

theorem chunks_remS (io : FloatIO F) (specs) (fe : Bool) (infos : List (ChunkInfo F))
    (h : ∀ i ∈ infos, InfoOK io specs i) :
    tdRemove kS 0 (joinChunks fe (textChunks infos)) = joinChunks fe (midChunks infos) := by
  induction infos with
  | nil => rfl
  | cons i t ih =>
    have hi := h i (by simp)
    have ih' := ih (fun x hx => h x (by simp [hx]))
    simp only [textChunks, midChunks, List.map_cons] at ih' ⊢
    rw [joinChunks_cons, joinChunks_cons, hi.remS _ (bnd_tailOf _ _ _),
      tdRemove_tailOf kS fe i.crlf _ _ (by simp) ih']

theorem chunks_remE (io : FloatIO F) (specs) (fe : Bool) (infos : List (ChunkInfo F))
    (h : ∀ i ∈ infos, InfoOK io specs i) :
    tdRemove kE 0 (joinChunks fe (midChunks infos)) = joinChunks fe (residChunks infos) := by
  induction infos with
  | nil => rfl
  | cons i t ih =>
    have hi := h i (by simp)
    have ih' := ih (fun x hx => h x (by simp [hx]))
    simp only [residChunks, midChunks, List.map_cons] at ih' ⊢
    rw [joinChunks_cons, joinChunks_cons, hi.remE _ (bnd_tailOf _ _ _),
      tdRemove_tailOf kE fe i.crlf _ _ (by simp) ih']

theorem splitNl_line (l R : Str) (hn : '\n' ∉ l) : splitNl (l ++ '\n' :: R) = l :: splitNl R := by
  rw [splitNl_cut, splitNl_one l hn]; rfl

theorem eol_shift (x : Str) (crlf : Bool) (R : Str) : x ++ (eol crlf ++ R) = (x ++ crOf crlf) ++ '\n' :: R := by
  cases crlf <;> simp [eol, crOf]

theorem lineLoop_nilLine (io : FloatIO F) (specs) (st : LoopSt F) : lineLoop io specs st [[]] = .ok st := by
  simp [lineLoop, lineStep, skipLine_nil]

/-- the line loop over the residual text: every chunk acts by its `eff` -/
theorem chunks_loop (io : FloatIO F) (specs) (fe : Bool) (infos : List (ChunkInfo F))
    (h : ∀ i ∈ infos, InfoOK io specs i) (st : LoopSt F) :
    lineLoop io specs st (splitNl (joinChunks fe (residChunks infos))) =
      .ok (infos.foldl (fun s i => i.eff s) st) := by
  induction infos generalizing st with
  | nil => exact lineLoop_nilLine io specs st
  | cons i t ih =>
    have hi := h i (by simp)
    have ih' := ih (fun x hx => h x (by simp [hx]))
    have hn : '\n' ∉ i.resid ++ crOf i.crlf := by
      intro hm
      rcases List.mem_append.mp hm with hm | hm
      · exact hi.noNl hm
      · cases hc : i.crlf <;> simp [crOf, hc] at hm
    have hstep := hi.step (crOf i.crlf) (crOf_cases i.crlf) st
    have hstep0 := hi.step [] (Or.inl rfl) st
    simp only [List.append_nil] at hstep0
    simp only [residChunks, List.map_cons] at ih' ⊢
    rw [joinChunks_cons]
    cases t with
    | nil =>
      cases fe
      · simp only [List.map_nil, tailOf, Bool.false_eq_true, if_false, List.append_nil, List.foldl]
        rw [splitNl_one _ hi.noNl]
        simp only [lineLoop, hstep0]
      · simp only [List.map_nil, tailOf, if_true, List.foldl]
        rw [show i.resid ++ eol i.crlf = i.resid ++ (eol i.crlf ++ []) by simp, eol_shift,
          splitNl_line _ _ hn]
        simp only [lineLoop, hstep]
        exact lineLoop_nilLine io specs _
    | cons j u =>
      simp only [List.map_cons, tailOf, List.foldl]
      rw [eol_shift, splitNl_line _ _ hn]
      simp only [lineLoop, hstep]
      have := ih' (i.eff st)
      simp only [List.map_cons, List.foldl] at this
      exact this

/-! ## PART 2: small text facts -/

theorem noTypedef_cons_nt (c : Char) (X : Str) (hc : c ≠ 't') (h : noTypedef X = true) : noTypedef (c :: X) = true :=
  noTypedef_cons_intro c X (stripPrefix_typedef_nt c X hc) h

theorem noTypedef_left (ws X : Str) (hws : ∀ c ∈ ws, c ≠ 't') (h : noTypedef X = true) : noTypedef (ws ++ X) = true := by
  induction ws with
  | nil => exact h
  | cons c t ih =>
    exact noTypedef_cons_nt c _ (hws c (by simp)) (ih (fun x hx => hws x (by simp [hx])))

theorem blank_not_letter (c : Char) (h : isBlank c = true) : c ∉ "typedef".toList ∧ c ≠ 't' ∧ c ≠ '\n' ∧ c ≠ '\\' := by
  simp only [isBlank, Bool.or_eq_true, beq_iff_eq] at h
  rcases h with rfl | rfl <;> decide

theorem noTypedef_right (X ws : Str) (hws : ∀ c ∈ ws, isBlank c = true) (h : noTypedef X = true) :
    noTypedef (X ++ ws) = true := by
  cases ws with
  | nil => simpa using h
  | cons c t =>
    apply noTypedef_glue X t c h
    · apply noTypedef_no_t
      intro hm
      exact (blank_not_letter _ (hws 't' (by simp [hm]))).2.1 rfl
    · exact (blank_not_letter c (hws c (by simp))).1

theorem commentOK_all (c : Str) (h : commentOK (some c) = true) :
    '#' ∉ c ∧ c.count '"' % 2 = 0 ∧ '\\' ∉ c ∧ '\n' ∉ c ∧ '\r' ∉ c ∧ noTypedef c = true := by
  simp only [commentOK, Bool.and_eq_true, beq_iff_eq] at h
  obtain ⟨⟨⟨⟨⟨a1, a2⟩, a3⟩, a4⟩, a5⟩, a6⟩ := h
  exact ⟨not_contains a1, a2, not_contains a3, not_contains a4, not_contains a5, a6⟩

theorem noTypedef_comment (X : Str) (cm : Option Str) (hc : commentOK cm = true) (h : noTypedef X = true) :
    noTypedef (X ++ commentText cm) = true := by
  cases cm with
  | none => simpa [commentText] using h
  | some c =>
    exact noTypedef_glue X c '#' h (commentOK_all c hc).2.2.2.2.2 (by decide)

theorem nl_comment (cm : Option Str) (hc : commentOK cm = true) : '\n' ∉ commentText cm := by
  cases cm with
  | none => simp [commentText]
  | some c =>
    intro hm
    simp only [commentText, List.mem_cons] at hm
    rcases hm with h | h
    · exact absurd h (by decide)
    · exact (commentOK_all c hc).2.2.2.1 h

theorem nl_blanks (ws : Str) (h : ∀ c ∈ ws, isBlank c = true) : '\n' ∉ ws :=
  fun hm => (blank_not_letter _ (h _ hm)).2.2.1 rfl

theorem blanks_no_t (ws : Str) (h : ∀ c ∈ ws, isBlank c = true) : ∀ c ∈ ws, c ≠ 't' :=
  fun c hc => (blank_not_letter c (h c hc)).2.1

/-- a line that is not a definition: nothing is found in it, nothing is cut out of it -/
theorem infoOK_plain (io : FloatIO F) (specs) (l : Str) (crlf : Bool) (eff : LoopSt F → LoopSt F)
    (hnt : noTypedef l = true) (hnl : '\n' ∉ l)
    (hstep : ∀ cr, (cr = [] ∨ cr = ['\r']) → ∀ st, lineStep io specs st (l ++ cr) = .ok (eff st)) :
    InfoOK io specs ⟨l, l, l, crlf, [], [], eff⟩ := by
  have key : ∀ kw B, Bnd B → noMatchIn kw l B := fun kw B hB => noMatchIn_piece kw l B hnt (bnd_piece B hB)
  exact ⟨fun B hB => by simpa using tdFind_noMatch kS l B (key _ B hB),
    fun B hB => by simpa using tdFind_noMatch kE l B (key _ B hB),
    fun B hB => tdRemove_noMatch kS l B (key _ B hB),
    fun B hB => tdRemove_noMatch kE l B (key _ B hB), hnl, hstep⟩

/-- the symbol table the line loop works with (as C01's `docSpecs`) -/
def laySpecs (d : Doc F) : List (Str × Except String (List ColSpec)) :=
  d.tables.map (fun t => (upper t.name, .ok (t.cols.map specOfCol)))

theorem fillerOK_props (text : Str) (h : fillerOK text = true) : noTypedef text = true ∧ '\n' ∉ text := by
  unfold fillerOK at h
  have hsplit : text = text.takeWhile isBlank ++ text.dropWhile isBlank := List.takeWhile_append_dropWhile.symm
  have hb : ∀ c ∈ text.takeWhile isBlank, isBlank c = true := fun c hc => mem_takeWhile_sat _ _ _ hc
  cases hd : text.dropWhile isBlank with
  | nil =>
    rw [hd, List.append_nil] at hsplit
    rw [hsplit]
    exact ⟨noTypedef_no_t _ (fun hm => blanks_no_t _ hb _ hm rfl), nl_blanks _ hb⟩
  | cons c t =>
    rw [hd] at h hsplit
    simp only [Bool.and_eq_true, beq_iff_eq] at h
    obtain ⟨⟨⟨⟨⟨rfl, _⟩, a3⟩, _⟩, a5⟩, _⟩ := h
    rw [hsplit]
    refine ⟨noTypedef_left _ _ (blanks_no_t _ hb) (noTypedef_cons_nt '#' t (by decide) a5), ?_⟩
    intro hm
    rcases List.mem_append.mp hm with hm | hm
    · exact nl_blanks _ hb hm
    · simp only [List.mem_cons] at hm
      rcases hm with hm | hm
      · exact absurd hm (by decide)
      · exact not_contains a3 hm

theorem infoOK_filler (io : FloatIO F) (specs) (text : Str) (crlf : Bool) (h : fillerOK text = true) :
    InfoOK io specs ⟨text, text, text, crlf, [], [], id⟩ := by
  obtain ⟨a, b⟩ := fillerOK_props text h
  exact infoOK_plain io specs text crlf id a b
    (fun cr hcr st => lineStep_skip io specs st _ (skipLine_filler text cr h hcr))

/-! ### data lines -/

theorem scKind_of_scOK (c : Col) (labs : Option (List Str)) (arr : Bool) (v : Sc F)
    (h : scOK c.ty labs arr v = true) : scKind (convOfCol c) v = true := by
  cases v with
  | int n =>
    simp only [scOK, Bool.or_eq_true, Bool.and_eq_true, beq_iff_eq] at h
    rcases h with (⟨ht, _⟩ | ⟨ht, _⟩) | ⟨ht, _⟩ <;> simp [scKind, convOfCol, ht]
  | flt w x =>
    simp only [scOK, Bool.or_eq_true, Bool.and_eq_true, beq_iff_eq] at h
    rcases h with ⟨ht, hw⟩ | ⟨ht, hw⟩ <;> simp [scKind, convOfCol, ht, hw]
  | str s =>
    simp only [scOK, Bool.and_eq_true] at h
    obtain ⟨⟨hlen, _⟩, _⟩ := h
    cases hty : c.ty <;> rw [hty] at hlen <;> simp at hlen <;> simp [scKind, convOfCol, hty]

theorem rowKinds_of_cellsOK (enums : List EnumDecl) (cols : List Col) (r : List (Cell F))
    (h : cellsOK enums cols r = true) : rowKinds (cols.map specOfCol) r = true := by
  induction cols generalizing r with
  | nil =>
    cases r with
    | nil => rfl
    | cons a t => simp [cellsOK] at h
  | cons c cs ih =>
    cases r with
    | nil => simp [cellsOK] at h
    | cons x xs =>
      simp only [cellsOK, Bool.and_eq_true] at h
      simp only [List.map, rowKinds, Bool.and_eq_true]
      refine ⟨?_, ih xs h.2⟩
      cases x with
      | one v =>
        have h1 := h.1
        simp only [cellOK, Bool.and_eq_true, beq_iff_eq] at h1
        have h0 : ¬ c.alen > 0 := by omega
        simp [cellKind, specOfCol, h0, scKind_of_scOK c _ false v h1.2]
      | many vs =>
        have h1 := h.1
        simp only [cellOK, Bool.and_eq_true, decide_eq_true_eq, beq_iff_eq, List.all_eq_true] at h1
        obtain ⟨⟨h0, _⟩, hv⟩ := h1
        simp only [cellKind, specOfCol, h0, decide_true, Bool.true_and, List.all_eq_true]
        exact fun v hvm => scKind_of_scOK c _ true v (hv v hvm)

theorem word_no_nl (s : Str) (h : wordOK s = true) : '\n' ∉ s := by
  intro hm
  obtain ⟨_, hch⟩ := wordOK_props s h
  exact (word_char_props _ (hch _ hm).2 (hch _ hm).1).2.2.2.1 rfl

/-- a data line in any layout -/
theorem infoOK_row (io : FloatIO F) (h1 : H1 io) (d : Doc F) (tb : TableD F) (r : List (Cell F))
    (lay : RowLay) (l : Str) (hl : rowLayOK io tb r lay = true) (hr : renderRow Sep.logical io r lay = some l)
    (hspec : lookupSpec (laySpecs d) (upper tb.name) = some (.ok (tb.cols.map specOfCol)))
    (hcells : cellsOK d.enums tb.cols r = true) :
    InfoOK io (laySpecs d) ⟨l, l, l, lay.crlf, [], [],
      fun s => { s with rows := addRow s.rows (upper lay.name) r }⟩ := by
  unfold rowLayOK at hl
  unfold renderRow at hr
  cases hb : renderCells Sep.logical io r lay.cells with
  | none => rw [hb] at hr; cases hr
  | some b =>
    rw [hb] at hr hl
    injection hr with hr
    subst hr
    simp only [Bool.and_eq_true, List.all_eq_true, beq_iff_eq, Bool.or_eq_true, Bool.not_eq_true'] at hl
    obtain ⟨⟨⟨⟨⟨⟨hlead, htrail⟩, hup⟩, hname⟩, hcom⟩, hcl⟩, ⟨hdb, hnt⟩, _⟩ := hl
    have hk := rowKinds_of_cellsOK d.enums tb.cols r hcells
    obtain ⟨bnl, _⟩ := renderCells_props io h1 _ r lay.cells b hk hcl hb
    apply infoOK_plain
    · apply noTypedef_comment _ _ hcom
      apply noTypedef_right _ _ htrail
      rw [List.append_assoc]
      exact noTypedef_left _ _ (blanks_no_t _ hlead) hnt
    · intro hm
      simp only [List.mem_append] at hm
      rcases hm with (((hm | hm) | hm) | hm) | hm
      · exact nl_blanks _ hlead hm
      · exact word_no_nl _ hname hm
      · exact bnl hm
      · exact nl_blanks _ htrail hm
      · exact nl_comment _ hcom hm
    · intro cr hcr st
      exact lineStep_row_lay io h1 (laySpecs d) st _ r lay b cr hlead htrail hname hcom hcl hb hdb hk
        (by rw [hup]; exact hspec) hcr

/-! ### keyword lines -/

theorem sep_logical_blank (s : Sep) (h : s.ok = true ∨ ((∀ c ∈ s.a, isBlank c = true) ∧ s.cont = none)) :
    ∀ c ∈ s.logical, isBlank c = true := by
  obtain ⟨a, cont⟩ := s
  rcases h with h | ⟨h1, h2⟩
  · cases cont with
    | none =>
      simp only [Sep.ok, Bool.and_eq_true, List.all_eq_true] at h
      simpa [Sep.logical] using h.1
    | some x =>
      obtain ⟨b, crlf, c⟩ := x
      simp only [Sep.ok, Bool.and_eq_true, List.all_eq_true] at h
      intro y hy
      simp only [Sep.logical, List.mem_append, List.mem_cons] at hy
      rcases hy with hy | hy | hy
      · exact h.1 y hy
      · subst hy; decide
      · exact h.2.2 y hy
  · simp only at h2
    subst h2
    simpa [Sep.logical] using h1

theorem laySpecs_none (d : Doc F) (k : Str) (h : k ∉ d.tables.map (fun t => upper t.name)) :
    lookupSpec (laySpecs d) k = none := by
  apply lookupSpec_none
  simpa [laySpecs, List.map_map, Function.comp_def] using h

/-- a keyword line in any layout -/
theorem infoOK_pair (io : FloatIO F) (d : Doc F) (kv : Str × Str) (lay : PairLay)
    (hp : pairOK2 (d.tables.map (fun t => upper t.name)) kv = true) (hl : pairLayOK kv lay = true) :
    InfoOK io (laySpecs d) ⟨renderPair Sep.logical kv lay, renderPair Sep.logical kv lay,
      renderPair Sep.logical kv lay, lay.crlf, [], [],
      fun s => { s with pairs := setPair s.pairs kv.1 kv.2 }⟩ := by
  simp only [pairOK2, Bool.and_eq_true, beq_iff_eq] at hp
  obtain ⟨hpo, hvs⟩ := hp
  obtain ⟨a1, a2, a3, a4, a5, a6, _, a8⟩ :=
    pairLineOK_of_pairOK (laySpecs d) _ (fun k hk => laySpecs_none d k hk) kv hpo
  have hdbnt : dbFree (kv.1 ++ ' ' :: kv.2) = true ∧ noTypedef (kv.1 ++ ' ' :: kv.2) = true := by
    simp only [pairOK, Bool.and_eq_true] at hpo
    exact ⟨hpo.1.2.1.1, hpo.1.2.1.2⟩
  obtain ⟨hdb, hnt⟩ := hdbnt
  simp only [pairLayOK, Bool.and_eq_true, List.all_eq_true, beq_iff_eq] at hl
  obtain ⟨⟨⟨⟨⟨hlead, htrail⟩, hcom⟩, hsep⟩, _⟩, _⟩ := hl
  have hsep' : if kv.2.isEmpty then (∀ c ∈ lay.sep.a, isBlank c = true) ∧ lay.sep.cont = none
      else lay.sep.ok = true := by
    split at hsep
    · rename_i he
      simp only [he, if_true]
      simp only [Bool.and_eq_true, List.all_eq_true, Option.isNone_iff_eq_none] at hsep
      exact hsep
    · rename_i he
      simp only [he, if_false]
      exact hsep
  have hws : ∀ c ∈ lay.sep.logical, isBlank c = true := by
    apply sep_logical_blank
    split at hsep'
    · exact Or.inr hsep'
    · exact Or.inl hsep'
  have hwne : kv.2 ≠ [] → lay.sep.logical ≠ [] := by
    intro hv
    have : kv.2.isEmpty = false := by cases h : kv.2 with
      | nil => exact absurd h hv
      | cons a t => rfl
    simp only [this, Bool.false_eq_true, if_false] at hsep'
    exact (sep_logical_props _ hsep').1
  have hk' : noTypedef kv.1 = true := noTypedef_prefix kv.1 _ hnt
  have hv' : noTypedef kv.2 = true := by
    apply noTypedef_suffix (kv.1 ++ [' ']) kv.2
    simpa using hnt
  have hcore : noTypedef (kv.1 ++ lay.sep.logical ++ kv.2) = true ∧ dbFree (kv.1 ++ lay.sep.logical ++ kv.2) = true := by
    cases hw : lay.sep.logical with
    | nil =>
      have hv0 : kv.2 = [] := by
        cases h : kv.2 with
        | nil => rfl
        | cons a t => exact absurd hw (hwne (by rw [h]; simp))
      rw [hv0]
      simp only [List.append_nil]
      exact ⟨hk', dbFree_prefix kv.1 _ hdb⟩
    | cons c ws =>
      rw [hw] at hws
      refine ⟨?_, ?_⟩
      · rw [List.append_assoc, List.cons_append]
        apply noTypedef_glue _ _ c hk' _ (blank_not_letter c (hws c (by simp))).1
        exact noTypedef_left _ _ (blanks_no_t _ (fun x hx => hws x (by simp [hx]))) hv'
      · exact dbFree_respace kv.1 kv.2 (c :: ws) (fun x hx => (a2 x hx).1)
          ⟨by simp, fun x hx => isBlank_isSpace x (hws x hx)⟩ hdb
  unfold renderPair
  apply infoOK_plain
  · apply noTypedef_comment _ _ hcom
    apply noTypedef_right _ _ htrail
    have : lay.lead ++ kv.1 ++ lay.sep.logical ++ kv.2 = lay.lead ++ (kv.1 ++ lay.sep.logical ++ kv.2) := by
      simp only [List.append_assoc]
    rw [this]
    exact noTypedef_left _ _ (blanks_no_t _ hlead) hcore.1
  · intro hm
    simp only [List.mem_append] at hm
    rcases hm with ((((hm | hm) | hm) | hm) | hm) | hm
    · exact nl_blanks _ hlead hm
    · exact (a2 _ hm).2.2 rfl
    · exact nl_blanks _ hws hm
    · exact a6 hm
    · exact nl_blanks _ htrail hm
    · exact nl_comment _ hcom hm
  · intro cr hcr st
    exact lineStep_pair_lay io (laySpecs d) st kv.1 kv.2 lay cr hlead htrail hcom a1
      (fun c hc => ⟨(a2 c hc).1, (a2 c hc).2.1⟩) a3 a4 a5 a6 hvs hsep' hcore.2 a8 hcr

end PydlVerif.YannyLay

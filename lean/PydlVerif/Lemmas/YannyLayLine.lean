/-
C02, line level: one data line / keyword line / filler line in ANY admissible layout goes through
`lineStep` as the canonical line of C01 does (`lineStep_row`, `lineStep_pair` of Props/C01.lean).
-/
import PydlVerif.Lemmas.YannyLayout
import PydlVerif.Lemmas.YannyGlue
namespace PydlVerif.YannyLayLine
open PydlVerif.Yanny PydlVerif.YannyRT
variable {F : Type}

/-! ### generic facts -/

/-- the last character, if any, is not white space -/
def lastNS (s : Str) : Prop := ∀ x, s.getLast? = some x → isSpace x = false

theorem lastNS_append (a b : Str) (hb : b ≠ []) (h : lastNS b) : lastNS (a ++ b) := by
  intro x hx
  rw [List.getLast?_append] at hx
  cases hl : b.getLast? with
  | none => exact absurd (List.getLast?_eq_none_iff.mp hl) hb
  | some y => rw [hl] at hx; simp at hx; subst hx; exact h _ hl

theorem lastNS_append' (a b : Str) (ha : lastNS a) (h : lastNS b) : lastNS (a ++ b) := by
  cases b with
  | nil => simpa using ha
  | cons y t => exact lastNS_append a _ (by simp) h

theorem lastNS_concat (a : Str) (c : Char) (h : isSpace c = false) : lastNS (a ++ [c]) := by
  intro x hx
  rw [List.getLast?_concat] at hx
  injection hx with hx; subst hx; exact h

theorem lastNS_all (s : Str) (h : ∀ c ∈ s, isSpace c = false) : lastNS s :=
  fun x hx => h x (List.mem_of_getLast? hx)

theorem space_not_special (c : Char) (h : isSpace c = true) : c ≠ '"' ∧ c ≠ '#' ∧ c ≠ '{' := by
  simp only [isSpace, Bool.or_eq_true, beq_iff_eq] at h
  rcases h with ((((((((((h | h) | h) | h) | h) | h) | h) | h) | h) | h) | h) | h <;> subst h <;> decide

theorem good_spaces (s : Str) (h : ∀ c ∈ s, isSpace c = true) : good s = true :=
  good_plain s (fun hm => (space_not_special _ (h _ hm)).1 rfl) (fun hm => (space_not_special _ (h _ hm)).2.1 rfl)

theorem rstrip_spaces (l ws : Str) (hws : ∀ c ∈ ws, isSpace c = true) : rstrip (l ++ ws) = rstrip l := by
  unfold rstrip
  rw [List.reverse_append, dropWhile_append_all _ _ _ (by intro x hx; exact hws x (by simpa using hx))]

theorem rstrip_mid (a : Str) (x : Char) (t : Str) (hx : isSpace x = false) :
    rstrip (a ++ x :: t) = a ++ x :: rstrip t := by
  unfold rstrip
  have hr : (a ++ x :: t).reverse = t.reverse ++ x :: a.reverse := by simp
  rw [hr, dropWhile_append_cases]
  by_cases h : t.reverse.dropWhile isSpace = []
  · simp only [h, if_true]
    rw [dropWhile_head_false _ _ _ hx]
    simp
  · simp only [h, if_false]
    simp

theorem rstrip_split' (l : Str) : ∃ ws, l = rstrip l ++ ws ∧ ∀ c ∈ ws, isSpace c = true := by
  refine ⟨(l.reverse.takeWhile isSpace).reverse, ?_, ?_⟩
  · have := congrArg List.reverse (List.takeWhile_append_dropWhile (p := isSpace) (l := l.reverse))
    simp only [List.reverse_append, List.reverse_reverse] at this
    exact this.symm
  · intro c hc
    exact mem_takeWhile_sat isSpace l.reverse c (by simpa using hc)

theorem rstrip_lastNS (l : Str) : lastNS (rstrip l) := by
  intro x hx
  unfold rstrip at hx
  rw [List.getLast?_reverse] at hx
  cases hd : l.reverse.dropWhile isSpace with
  | nil => rw [hd] at hx; cases hx
  | cons y t =>
    rw [hd] at hx; simp at hx; subst hx
    exact dropWhile_head_not _ _ _ _ hd

/-- a stripped non-empty text starts and ends with a non-space character -/
theorem strip_fix_props (v : Str) (h : strip v = v) :
    (∀ c, v.head? = some c → isSpace c = false) ∧ lastNS v := by
  refine ⟨?_, ?_⟩
  · intro c hc
    have e : lstrip (rstrip v) = v := by rw [lstrip_rstrip_comm]; exact h
    cases hd : (rstrip v).dropWhile isSpace with
    | nil =>
      have : lstrip (rstrip v) = [] := hd
      rw [e] at this; subst this; cases hc
    | cons y t =>
      have hy := dropWhile_head_not _ _ _ _ hd
      have : v = y :: t := by rw [← e]; exact hd
      subst this
      simp at hc; subst hc; exact hy
  · have := rstrip_lastNS (lstrip v)
    have e : rstrip (lstrip v) = v := h
    rw [e] at this; exact this

/-! ### the three line-level steps on `lead ++ core ++ trail ++ comment ++ cr` -/

theorem skipLine_false (lead : Str) (c : Char) (rest : Str) (hlead : ∀ x ∈ lead, isSpace x = true)
    (h1 : isSpace c = false) (h2 : c ≠ '#') : skipLine (lead ++ c :: rest) = false := by
  unfold skipLine
  rw [dropWhile_app_stop _ lead c rest hlead h1]
  simpa using h2

theorem commentOK_props (c : Str) (h : commentOK (some c) = true) :
    '#' ∉ c ∧ c.count '"' % 2 = 0 := by
  simp only [commentOK, Bool.and_eq_true, beq_iff_eq] at h
  exact ⟨not_contains h.1.1.1.1.1, h.1.1.1.1.2⟩

theorem cr_space (cr : Str) (hcr : cr = [] ∨ cr = ['\r']) : ∀ c ∈ cr, isSpace c = true := by
  intro c hc
  rcases hcr with h | h
  · subst h; cases hc
  · subst h; simp at hc; subst hc; decide

/-- `strip`, `trailing_comment`, `double_braces.sub` leave exactly the core of the line -/
theorem cleanLine_lay (lead core trail : Str) (comment : Option Str) (cr : Str)
    (hlead : ∀ c ∈ lead, isSpace c = true) (htrail : ∀ c ∈ trail, isSpace c = true)
    (hcom : commentOK comment = true) (hcr : cr = [] ∨ cr = ['\r'])
    (hhead : ∀ c, core.head? = some c → isSpace c = false) (hne : core ≠ [])
    (hlast : lastNS core)
    (hgood : comment = none → trailingComment core = core)
    (hdb : dbFree core = true) :
    cleanLine (lead ++ (core ++ (trail ++ (commentText comment ++ cr)))) = core := by
  have hcrs := cr_space cr hcr
  have hhead' : ∀ r c, (core ++ r).head? = some c → isSpace c = false := by
    intro r c hc
    cases core with
    | nil => exact absurd rfl hne
    | cons y t => simp at hc; subst hc; exact hhead _ rfl
  unfold cleanLine strip lstrip
  rw [dropWhile_append_all _ _ _ hlead, lstrip_id _ (hhead' _)]
  cases comment with
  | none =>
    have e : core ++ (trail ++ (commentText none ++ cr)) = core ++ (trail ++ cr) := by simp [commentText]
    rw [e, rstrip_append_space core (trail ++ cr) (by
      intro c hc
      rcases List.mem_append.mp hc with h | h
      · exact htrail c h
      · exact hcrs c h) hlast]
    rw [hgood rfl, doubleBraces_dbFree _ hdb]
  | some c =>
    obtain ⟨hc1, hc2⟩ := commentOK_props c hcom
    have e : core ++ (trail ++ (commentText (some c) ++ cr)) = (core ++ trail) ++ '#' :: (c ++ cr) := by
      simp [commentText]
    rw [e, rstrip_mid _ '#' _ (by decide), rstrip_spaces c cr hcrs]
    obtain ⟨ws, hws, hsp⟩ := rstrip_split' c
    have h1 : '#' ∉ rstrip c := by
      intro hm; apply hc1; rw [hws]; exact List.mem_append_left _ hm
    have h2 : (rstrip c).count '"' % 2 = 0 := by
      have hz : ws.count '"' = 0 := by
        apply List.count_eq_zero.mpr
        intro hm
        exact (space_not_special _ (hsp _ hm)).1 rfl
      have : c.count '"' = (rstrip c).count '"' + ws.count '"' := by
        have := congrArg (List.count '"') hws
        rw [List.count_append] at this
        exact this
      omega
    rw [trailingComment_cut _ _ h1 h2, rstrip_append_space core trail htrail hlast,
      doubleBraces_dbFree _ hdb]

/-! ### the rendered cells: quote parity and last character -/

theorem quoteTok_good (q : QStyle) (s : Str) (hl : tokLegal q s = true ∨ elemLegal q s = true) :
    good (quoteTok q s) = true ∧ lastNS (quoteTok q s) := by
  cases q with
  | bare =>
    have hbl : bareLegal s = true := by
      rcases hl with hl | hl
      · simpa [tokLegal] using hl
      · simp only [elemLegal, Bool.and_eq_true] at hl; exact hl.1
    obtain ⟨_, hall, _⟩ := bareLegal_props s hbl
    exact ⟨good_plain s (fun hm => (hall _ hm).2.2 rfl) (fun hm => (hall _ hm).2.1 rfl),
      lastNS_all s (fun c hc => (hall c hc).1)⟩
  | quoted =>
    have hq : '"' ∉ s := by
      rcases hl with hl | hl
      · simp only [tokLegal, Bool.and_eq_true] at hl; exact not_contains hl.1
      · simp only [elemLegal, Bool.and_eq_true] at hl; exact not_contains hl.1.1
    refine ⟨good_quoted s hq, ?_⟩
    show lastNS (('"' :: s) ++ ['"'])
    exact lastNS_concat _ _ (by decide)
  | braced pad =>
    rcases hl with hl | hl
    · simp only [tokLegal, Bool.and_eq_true] at hl
      obtain ⟨⟨⟨⟨⟨hpad, _⟩, hh⟩, hq⟩, _⟩, _⟩ := hl
      have hpad' : ∀ a ∈ pad, isSpace a = true := fun a ha =>
        isBlank_isSpace a (List.all_eq_true.mp hpad a ha)
      refine ⟨?_, ?_⟩
      · apply good_plain
        · intro hm
          simp only [quoteTok, List.mem_cons, List.mem_append, List.mem_nil_iff, or_false] at hm
          rcases hm with h | (h | h) | h
          · exact absurd h (by decide)
          · exact (space_not_special _ (hpad' _ h)).1 rfl
          · exact (not_contains hq) h
          · exact absurd h (by decide)
        · intro hm
          simp only [quoteTok, List.mem_cons, List.mem_append, List.mem_nil_iff, or_false] at hm
          rcases hm with h | (h | h) | h
          · exact absurd h (by decide)
          · exact (space_not_special _ (hpad' _ h)).2.1 rfl
          · exact (not_contains hh) h
          · exact absurd h (by decide)
      · show lastNS (('{' :: (pad ++ s)) ++ ['}'])
        exact lastNS_concat _ _ (by decide)
    · simp [elemLegal] at hl

theorem renderElems_good (io : FloatIO F) (vs : List (Sc F)) (ls : List (Sep × QStyle)) (t : Str)
    (hok : elemsLayOK io vs ls = true) (ht : renderElems Sep.logical io vs ls = some t) :
    good t = true := by
  induction vs generalizing ls t with
  | nil =>
    cases ls with
    | nil => simp only [renderElems] at ht; injection ht with ht; subst ht; rfl
    | cons l ls => simp [renderElems] at ht
  | cons v vs ih =>
    cases ls with
    | nil => simp [renderElems] at ht
    | cons l ls =>
      obtain ⟨s, q⟩ := l
      simp only [elemsLayOK, Bool.and_eq_true] at hok
      simp only [renderElems] at ht
      cases hr : renderElems Sep.logical io vs ls with
      | none => rw [hr] at ht; cases ht
      | some t' =>
        rw [hr] at ht
        injection ht with ht; subst ht
        obtain ⟨_, s2, _, _⟩ := sep_logical_props s hok.1.1
        exact good_append _ _ (good_append _ _ (good_spaces _ s2)
          (quoteTok_good q _ (Or.inr hok.1.2)).1) (ih ls t' hok.2 hr)

theorem renderCell_good (io : FloatIO F) (x : Cell F) (l : CellLay) (a : Str)
    (hok : cellLayOK io x l = true) (ha : renderCell Sep.logical io x l = some a) :
    a ≠ [] ∧ good a = true ∧ lastNS a := by
  cases x with
  | one v =>
    cases l with
    | many op q rest cl => simp [renderCell] at ha
    | one q =>
      simp only [renderCell] at ha; injection ha with ha; subst ha
      simp only [cellLayOK] at hok
      obtain ⟨p1, _, _⟩ := quoteTok_props q (scText io v) (Or.inl hok)
      obtain ⟨g1, g2⟩ := quoteTok_good q (scText io v) (Or.inl hok)
      exact ⟨p1, g1, g2⟩
  | many vs0 =>
    cases l with
    | one q => cases vs0 <;> simp [renderCell] at ha
    | many op q rest cl =>
      cases vs0 with
      | nil => simp [renderCell] at ha
      | cons v vs =>
        simp only [renderCell] at ha
        cases hr : renderElems Sep.logical io vs rest with
        | none => rw [hr] at ha; cases ha
        | some t =>
          rw [hr] at ha
          injection ha with ha; subst ha
          simp only [cellLayOK, Bool.and_eq_true] at hok
          obtain ⟨⟨⟨hop, hcl⟩, hq⟩, hel⟩ := hok
          have hop' : ∀ c ∈ op, isSpace c = true := fun c hc => isBlank_isSpace c (List.all_eq_true.mp hop c hc)
          have hcl' : ∀ c ∈ cl, isSpace c = true := fun c hc => isBlank_isSpace c (List.all_eq_true.mp hcl c hc)
          refine ⟨by simp, ?_, ?_⟩
          · show good (['{'] ++ (op ++ quoteTok q (scText io v) ++ t ++ cl ++ ['}'])) = true
            apply good_append _ _ (by decide)
            apply good_append _ _ _ (by decide)
            apply good_append _ _ _ (good_spaces _ hcl')
            apply good_append _ _ _ (renderElems_good io vs rest t hel hr)
            exact good_append _ _ (good_spaces _ hop') (quoteTok_good q _ (Or.inr hq)).1
          · show lastNS (('{' :: (op ++ quoteTok q (scText io v) ++ t ++ cl)) ++ ['}'])
            exact lastNS_concat _ _ (by decide)

theorem renderCells_good (io : FloatIO F) (r : List (Cell F)) (lays : List (Sep × CellLay)) (body : Str)
    (hok : cellsLayOK io r lays = true) (hb : renderCells Sep.logical io r lays = some body) :
    good body = true ∧ lastNS body := by
  induction r generalizing lays body with
  | nil =>
    cases lays with
    | nil =>
      simp only [renderCells] at hb; injection hb with hb; subst hb
      exact ⟨rfl, fun x hx => by cases hx⟩
    | cons l ls => simp [renderCells] at hb
  | cons x xs ih =>
    cases lays with
    | nil => simp [renderCells] at hb
    | cons l ls =>
      obtain ⟨s, cl⟩ := l
      simp only [cellsLayOK, Bool.and_eq_true] at hok
      simp only [renderCells] at hb
      cases hc : renderCell Sep.logical io x cl with
      | none => rw [hc] at hb; cases hb
      | some a =>
        cases hr : renderCells Sep.logical io xs ls with
        | none => rw [hc, hr] at hb; cases hb
        | some b' =>
          rw [hc, hr] at hb
          injection hb with hb; subst hb
          obtain ⟨i1, i2⟩ := ih ls b' hok.2 hr
          obtain ⟨_, s2, _, _⟩ := sep_logical_props s hok.1.1
          obtain ⟨a1, a2, a3⟩ := renderCell_good io x cl a hok.1.2 hc
          exact ⟨good_append _ _ (good_append _ _ (good_spaces _ s2) a2) i1,
            lastNS_append' _ _ (lastNS_append _ _ a1 a3) i2⟩

/-! ### the line theorems -/

theorem wordOK_bare (name : Str) (h : wordOK name = true) :
    name ≠ [] ∧ (∀ c ∈ name, isSpace c = false ∧ c ≠ '"' ∧ c ≠ '#' ∧ c ≠ '\n' ∧ c ≠ '{' ∧ c ≠ '\\') ∧
    bareLegal name = true := by
  obtain ⟨hne, hch⟩ := wordOK_props name h
  have hall : ∀ c ∈ name, isSpace c = false ∧ c ≠ '"' ∧ c ≠ '#' ∧ c ≠ '\n' ∧ c ≠ '{' ∧ c ≠ '\\' :=
    fun c hc => word_char_props c (hch c hc).2 (hch c hc).1
  refine ⟨hne, hall, ?_⟩
  simp only [bareLegal, Bool.and_eq_true, Bool.not_eq_true', List.all_eq_true, bne_iff_ne, ne_eq]
  refine ⟨⟨?_, ?_⟩, ?_⟩
  · cases name with
    | nil => exact absurd rfl hne
    | cons a t => rfl
  · intro c hc
    obtain ⟨h1, h2, h3, _⟩ := hall c hc
    exact ⟨⟨h1, h3⟩, h2⟩
  · cases name with
    | nil => exact absurd rfl hne
    | cons a t =>
      have := (hall a (by simp)).2.2.2.2.1
      simpa using this

/-- one data line in any layout: leading blanks, struct name in any case, cells in any per-line layout
(after continuation joining), trailing blanks, optional trailing comment, optional CR before the newline -/
theorem lineStep_row_lay (io : FloatIO F) (h1 : H1 io) (specs : List (Str × Except String (List ColSpec)))
    (st : LoopSt F) (sch : List ColSpec) (r : List (Cell F)) (lay : RowLay) (b cr : Str)
    (hlead : ∀ c ∈ lay.lead, isBlank c = true) (htrail : ∀ c ∈ lay.trail, isBlank c = true)
    (hname : wordOK lay.name = true) (hcom : commentOK lay.comment = true)
    (hcells : cellsLayOK io r lay.cells = true) (hb : renderCells Sep.logical io r lay.cells = some b)
    (hdb : dbFree (lay.name ++ b) = true) (hk : rowKinds sch r = true)
    (hs : lookupSpec specs (upper lay.name) = some (.ok sch)) (hcr : cr = [] ∨ cr = ['\r']) :
    lineStep io specs st (lay.lead ++ lay.name ++ b ++ lay.trail ++ commentText lay.comment ++ cr) =
      .ok { st with rows := addRow st.rows (upper lay.name) r } := by
  obtain ⟨hne, hall, hbare⟩ := wordOK_bare lay.name hname
  obtain ⟨bnl, bhead⟩ := renderCells_props io h1 sch r lay.cells b hk hcells hb
  obtain ⟨bgood, blast⟩ := renderCells_good io r lay.cells b hcells hb
  have hleads : ∀ c ∈ lay.lead, isSpace c = true := fun c hc => isBlank_isSpace c (hlead c hc)
  have htrails : ∀ c ∈ lay.trail, isSpace c = true := fun c hc => isBlank_isSpace c (htrail c hc)
  have e : lay.lead ++ lay.name ++ b ++ lay.trail ++ commentText lay.comment ++ cr =
      lay.lead ++ ((lay.name ++ b) ++ (lay.trail ++ (commentText lay.comment ++ cr))) := by
    simp only [List.append_assoc]
  obtain ⟨c0, t0, hn0⟩ : ∃ c t, lay.name = c :: t := by
    cases hn : lay.name with
    | nil => exact absurd hn hne
    | cons c t => exact ⟨c, t, rfl⟩
  have hc0 := hall c0 (by rw [hn0]; simp)
  have hskip : skipLine (lay.lead ++ lay.name ++ b ++ lay.trail ++ commentText lay.comment ++ cr) = false := by
    rw [e, hn0]
    exact skipLine_false lay.lead c0 _ hleads hc0.1 hc0.2.2.1
  have hngood : good lay.name = true :=
    good_plain _ (fun hm => (hall _ hm).2.1 rfl) (fun hm => (hall _ hm).2.2.1 rfl)
  have hclean : cleanLine (lay.lead ++ lay.name ++ b ++ lay.trail ++ commentText lay.comment ++ cr) =
      lay.name ++ b := by
    rw [e]
    apply cleanLine_lay lay.lead (lay.name ++ b) lay.trail lay.comment cr hleads htrails hcom hcr
    · intro c hc
      rw [hn0] at hc; simp at hc; subst hc; exact hc0.1
    · rw [hn0]; simp
    · exact lastNS_append' _ _ (lastNS_all _ (fun c hc => (hall c hc).1)) blast
    · intro _
      exact trailingComment_good _ (good_append _ _ hngood bgood)
    · exact hdb
  have hget : getToken (lay.name ++ b) = .ok (lay.name, b.dropWhile isSpace) :=
    getToken_quote_any .bare lay.name b (Or.inl hbare) bhead bnl
  have hparse : parseRow io sch (b.dropWhile isSpace) = .ok r := by
    have := parseRow_layout' io h1 sch r lay.cells b [] hk hcells hb (by intro c hc; cases hc)
    simpa using this
  unfold lineStep
  simp only [hskip, Bool.false_eq_true, if_false, hclean, hget, hs, hparse]

/-- comment lines, blank lines -/
theorem skipLine_filler (text cr : Str) (hf : fillerOK text = true) (hcr : cr = [] ∨ cr = ['\r']) :
    skipLine (text ++ cr) = true := by
  have hcrs := cr_space cr hcr
  unfold fillerOK at hf
  have hsplit : text = text.takeWhile isBlank ++ text.dropWhile isBlank :=
    (List.takeWhile_append_dropWhile).symm
  have htw : ∀ c ∈ text.takeWhile isBlank, isSpace c = true :=
    fun c hc => isBlank_isSpace c (mem_takeWhile_sat _ _ _ hc)
  cases hd : text.dropWhile isBlank with
  | nil =>
    rw [hd] at hsplit
    have hall : ∀ c ∈ text ++ cr, isSpace c = true := by
      intro c hc
      rcases List.mem_append.mp hc with h | h
      · rw [hsplit] at h; exact htw c (by simpa using h)
      · exact hcrs c h
    unfold skipLine
    rw [dropWhile_all _ _ hall]
  | cons c t =>
    rw [hd] at hf hsplit
    simp only [Bool.and_eq_true, beq_iff_eq] at hf
    have hc : c = '#' := hf.1.1.1.1.1
    subst hc
    unfold skipLine
    rw [hsplit, List.append_assoc, List.cons_append, dropWhile_app_stop _ _ '#' _ htw (by decide)]
    rfl

/-- what is left of a definition line once the typedef block is cut out -/
theorem skipLine_resid (lead trail : Str) (comment : Option Str) (cr : Str)
    (hlead : ∀ c ∈ lead, isBlank c = true) (htrail : ∀ c ∈ trail, isBlank c = true)
    (hcr : cr = [] ∨ cr = ['\r']) : skipLine (lead ++ trail ++ commentText comment ++ cr) = true := by
  have hcrs := cr_space cr hcr
  have hlt : ∀ c ∈ lead ++ trail, isSpace c = true := by
    intro c hc
    rcases List.mem_append.mp hc with h | h
    · exact isBlank_isSpace c (hlead c h)
    · exact isBlank_isSpace c (htrail c h)
  unfold skipLine
  cases comment with
  | none =>
    have hall : ∀ c ∈ lead ++ trail ++ commentText none ++ cr, isSpace c = true := by
      intro c hc
      simp only [commentText, List.append_nil] at hc
      rcases List.mem_append.mp hc with h | h
      · exact hlt c h
      · exact hcrs c h
    rw [dropWhile_all _ _ hall]
  | some c =>
    have e : lead ++ trail ++ commentText (some c) ++ cr = (lead ++ trail) ++ '#' :: (c ++ cr) := by
      simp [commentText]
    rw [e, dropWhile_app_stop _ _ '#' _ hlt (by decide)]
    rfl

/-- `lineStep` on a skipped line -/
theorem lineStep_skip (io : FloatIO F) (specs : List (Str × Except String (List ColSpec)))
    (st : LoopSt F) (l : Str) (h : skipLine l = true) :
    lineStep io specs st l = .ok st := by
  unfold lineStep
  simp only [h, if_true]

/-! ### keyword lines -/

theorem getToken_key (k sep v : Str) (hne : k ≠ []) (hk : ∀ c ∈ k, isSpace c = false)
    (hh1 : k.head? ≠ some '"') (hh2 : k.head? ≠ some '{') (hsne : sep ≠ [])
    (hs : ∀ c ∈ sep, isSpace c = true) (hv : ∀ c, v.head? = some c → isSpace c = false) :
    getToken (k ++ sep ++ v) = .ok (k, v) := by
  have hns : ∀ a ∈ k, (!isSpace a) = true := by intro a ha; simp [hk a ha]
  cases k with
  | nil => exact absurd rfl hne
  | cons c t =>
    have hc1 : c ≠ '"' := by intro e; subst e; simp at hh1
    have hc2 : c ≠ '{' := by intro e; subst e; simp at hh2
    cases sep with
    | nil => exact absurd rfl hsne
    | cons b sp =>
      have hbs : (!isSpace b) = false := by simp [hs b (by simp)]
      have e1 : (c :: t) ++ (b :: sp) ++ v = c :: (t ++ b :: (sp ++ v)) := by simp
      have e2 : c :: (t ++ b :: (sp ++ v)) = (c :: t) ++ b :: (sp ++ v) := rfl
      rw [e1, getToken_bare c _ hc1 hc2, e2, dropWhile_app_stop _ (c :: t) b _ hns hbs,
        takeWhile_app_stop _ (c :: t) b _ hns hbs]
      have e3 : (b :: (sp ++ v)).dropWhile isSpace = v := by
        have : b :: (sp ++ v) = (b :: sp) ++ v := rfl
        rw [this, dropWhile_append_all _ _ _ hs]
        exact lstrip_id v hv
      simp only [e3]

theorem getToken_key_alone (k : Str) (hne : k ≠ []) (hk : ∀ c ∈ k, isSpace c = false)
    (hh1 : k.head? ≠ some '"') (hh2 : k.head? ≠ some '{') : getToken k = .ok (k, []) := by
  have hns : ∀ a ∈ k, (!isSpace a) = true := by intro a ha; simp [hk a ha]
  cases k with
  | nil => exact absurd rfl hne
  | cons c t =>
    have hc1 : c ≠ '"' := by intro e; subst e; simp at hh1
    have hc2 : c ≠ '{' := by intro e; subst e; simp at hh2
    rw [getToken_bare c _ hc1 hc2, dropWhile_all _ _ hns]

/-- one keyword line in any layout -/
theorem lineStep_pair_lay (io : FloatIO F) (specs : List (Str × Except String (List ColSpec)))
    (st : LoopSt F) (k v : Str) (lay : PairLay) (cr : Str)
    (hlead : ∀ c ∈ lay.lead, isBlank c = true) (htrail : ∀ c ∈ lay.trail, isBlank c = true)
    (hcom : commentOK lay.comment = true)
    (hne : k ≠ []) (hk : ∀ c ∈ k, isSpace c = false ∧ c ≠ '#')
    (hh1 : k.head? ≠ some '"') (hh2 : k.head? ≠ some '{')
    (hv : '#' ∉ v) (hvn : '\n' ∉ v) (hvs : strip v = v)
    (hsep : if v.isEmpty then (∀ c ∈ lay.sep.a, isBlank c = true) ∧ lay.sep.cont = none else lay.sep.ok = true)
    (hdb : dbFree (k ++ lay.sep.logical ++ v) = true)
    (hs : lookupSpec specs (upper k) = none) (hcr : cr = [] ∨ cr = ['\r']) :
    lineStep io specs st (lay.lead ++ k ++ lay.sep.logical ++ v ++ lay.trail ++ commentText lay.comment ++ cr) =
      .ok { st with pairs := setPair st.pairs k v } := by
  have hleads : ∀ c ∈ lay.lead, isSpace c = true := fun c hc => isBlank_isSpace c (hlead c hc)
  have htrails : ∀ c ∈ lay.trail, isSpace c = true := fun c hc => isBlank_isSpace c (htrail c hc)
  have hks : ∀ c ∈ k, isSpace c = false := fun c hc => (hk c hc).1
  obtain ⟨c0, t0, hk0⟩ : ∃ c t, k = c :: t := by
    cases k with
    | nil => exact absurd rfl hne
    | cons c t => exact ⟨c, t, rfl⟩
  have hc0 := hk c0 (by rw [hk0]; simp)
  have hkhead : ∀ r c, (k ++ r).head? = some c → isSpace c = false := by
    intro r c hc
    rw [hk0] at hc; simp at hc; subst hc; exact hc0.1
  cases v with
  | nil =>
    simp only [List.isEmpty_nil, if_true] at hsep
    have hlog : lay.sep.logical = lay.sep.a := by
      unfold Sep.logical; rw [hsep.2]
    have hseps : ∀ c ∈ lay.sep.a ++ lay.trail, isSpace c = true := by
      intro c hc
      rcases List.mem_append.mp hc with h | h
      · exact isBlank_isSpace c (hsep.1 c h)
      · exact htrails c h
    have e : lay.lead ++ k ++ lay.sep.logical ++ [] ++ lay.trail ++ commentText lay.comment ++ cr =
        lay.lead ++ (k ++ ((lay.sep.a ++ lay.trail) ++ (commentText lay.comment ++ cr))) := by
      rw [hlog]; simp only [List.append_assoc, List.append_nil]
    have hskip : skipLine (lay.lead ++ k ++ lay.sep.logical ++ [] ++ lay.trail ++ commentText lay.comment ++ cr)
        = false := by
      rw [e, hk0]
      exact skipLine_false lay.lead c0 _ hleads hc0.1 hc0.2
    have hclean : cleanLine (lay.lead ++ k ++ lay.sep.logical ++ [] ++ lay.trail ++ commentText lay.comment ++ cr)
        = k := by
      rw [e]
      apply cleanLine_lay lay.lead k (lay.sep.a ++ lay.trail) lay.comment cr hleads hseps hcom hcr
      · intro c hc; exact hkhead [] c (by simpa using hc)
      · exact hne
      · exact lastNS_all _ hks
      · intro _; exact trailingComment_nohash _ (fun hm => (hk _ hm).2 rfl)
      · apply dbFree_prefix k (lay.sep.logical ++ [])
        rw [← List.append_assoc]; exact hdb
    unfold lineStep
    simp only [hskip, Bool.false_eq_true, if_false, hclean, getToken_key_alone k hne hks hh1 hh2, hs]
  | cons a w =>
    simp only [List.isEmpty_cons, Bool.false_eq_true, if_false] at hsep
    obtain ⟨s1, s2, _, _⟩ := sep_logical_props lay.sep hsep
    obtain ⟨vh, vl⟩ := strip_fix_props (a :: w) hvs
    have e : lay.lead ++ k ++ lay.sep.logical ++ (a :: w) ++ lay.trail ++ commentText lay.comment ++ cr =
        lay.lead ++ ((k ++ lay.sep.logical ++ (a :: w)) ++ (lay.trail ++ (commentText lay.comment ++ cr))) := by
      simp only [List.append_assoc]
    have hskip : skipLine (lay.lead ++ k ++ lay.sep.logical ++ (a :: w) ++ lay.trail ++
        commentText lay.comment ++ cr) = false := by
      rw [e, hk0]
      simp only [List.append_assoc, List.cons_append]
      exact skipLine_false lay.lead c0 _ hleads hc0.1 hc0.2
    have hclean : cleanLine (lay.lead ++ k ++ lay.sep.logical ++ (a :: w) ++ lay.trail ++
        commentText lay.comment ++ cr) = k ++ lay.sep.logical ++ (a :: w) := by
      rw [e]
      apply cleanLine_lay lay.lead _ lay.trail lay.comment cr hleads htrails hcom hcr
      · intro c hc
        rw [List.append_assoc] at hc
        exact hkhead _ c hc
      · simp
      · exact lastNS_append _ _ (by simp) vl
      · intro _
        apply trailingComment_nohash
        intro hm
        simp only [List.mem_append] at hm
        rcases hm with (h | h) | h
        · exact (hk _ h).2 rfl
        · exact (space_not_special _ (s2 _ h)).2.1 rfl
        · exact hv h
      · exact hdb
    unfold lineStep
    simp only [hskip, Bool.false_eq_true, if_false, hclean,
      getToken_key k lay.sep.logical (a :: w) hne hks hh1 hh2 s1 s2 vh, hs]

/-! ### `{ws{ws}ws}` and the amount of white space between key and value -/

theorem matchDB_some_iff (s : Str) : (matchDB s).isSome = true ↔
    ∃ t t2 t4 t6, s = '{' :: t ∧ t.dropWhile isSpace = '{' :: t2 ∧ t2.dropWhile isSpace = '}' :: t4 ∧
      t4.dropWhile isSpace = '}' :: t6 := by
  constructor
  · intro h
    unfold matchDB at h
    split at h
    · rename_i t
      split at h
      · rename_i t2 h2
        split at h
        · rename_i t4 h4
          split at h
          · rename_i t6 h6
            exact ⟨t, t2, t4, t6, rfl, h2, h4, h6⟩
          · cases h
        · cases h
      · cases h
    · cases h
  · rintro ⟨t, t2, t4, t6, rfl, h2, h4, h6⟩
    simp only [matchDB, h2, h4, h6]
    rfl

/-- two texts that differ at most in one white-space run that follows non-space characters -/
def RespaceRel (X Y v a b : Str) : Prop :=
  a = b ∨ ∃ k2, (∀ c ∈ k2, isSpace c = false) ∧ a = k2 ++ (X ++ v) ∧ b = k2 ++ (Y ++ v)

theorem rel_step (X Y v a b : Str) (hX : ∀ c ∈ X, isSpace c = true) (hY : ∀ c ∈ Y, isSpace c = true)
    (h : RespaceRel X Y v a b) (x : Char) (r : Str) (ha : a.dropWhile isSpace = x :: r) :
    ∃ r', b.dropWhile isSpace = x :: r' ∧ RespaceRel X Y v r r' := by
  rcases h with h | ⟨k2, hk2, rfl, rfl⟩
  · subst h; exact ⟨r, ha, Or.inl rfl⟩
  · cases k2 with
    | nil =>
      simp only [List.nil_append] at ha ⊢
      rw [dropWhile_append_all _ _ _ hX] at ha
      rw [dropWhile_append_all _ _ _ hY]
      exact ⟨r, ha, Or.inl rfl⟩
    | cons d k' =>
      have hd : isSpace d = false := hk2 d (by simp)
      rw [List.cons_append, dropWhile_head_false _ _ _ hd] at ha
      injection ha with h1 h2
      subst h1; subst h2
      refine ⟨k' ++ (Y ++ v), ?_, Or.inr ⟨k', fun c hc => hk2 c (by simp [hc]), rfl, rfl⟩⟩
      rw [List.cons_append, dropWhile_head_false _ _ _ hd]

theorem matchDB_rel (X Y v a b : Str) (hX : ∀ c ∈ X, isSpace c = true) (hY : ∀ c ∈ Y, isSpace c = true)
    (h : RespaceRel X Y v a b) (hm : (matchDB ('{' :: a)).isSome = true) : (matchDB ('{' :: b)).isSome = true := by
  obtain ⟨t, t2, t4, t6, e, h2, h4, h6⟩ := (matchDB_some_iff _).mp hm
  injection e with _ e; subst e
  obtain ⟨u2, g2, r2⟩ := rel_step X Y v _ _ hX hY h _ _ h2
  obtain ⟨u4, g4, r4⟩ := rel_step X Y v _ _ hX hY r2 _ _ h4
  obtain ⟨u6, g6, _⟩ := rel_step X Y v _ _ hX hY r4 _ _ h6
  exact (matchDB_some_iff _).mpr ⟨b, u2, u4, u6, rfl, g2, g4, g6⟩

theorem matchDB_head (c : Char) (t : Str) (h : (matchDB (c :: t)).isSome = true) : c = '{' := by
  obtain ⟨_, _, _, _, e, _⟩ := (matchDB_some_iff _).mp h
  injection e

theorem dbFree_drop (a b : Str) (h : dbFree (a ++ b) = true) : dbFree b = true := by
  induction a with
  | nil => exact h
  | cons c t ih =>
    simp only [List.cons_append, dbFree, Bool.and_eq_true] at h
    exact ih h.2

theorem dbFree_spaces (ws v : Str) (hws : ∀ c ∈ ws, isSpace c = true) (h : dbFree v = true) :
    dbFree (ws ++ v) = true := by
  induction ws with
  | nil => exact h
  | cons c t ih =>
    simp only [List.cons_append, dbFree, Bool.and_eq_true]
    refine ⟨?_, ih (fun x hx => hws x (by simp [hx]))⟩
    cases hm : matchDB (c :: (t ++ v)) with
    | none => rfl
    | some n =>
      have := matchDB_head c _ (by rw [hm]; rfl)
      subst this
      exact absurd (hws '{' (by simp)) (by decide)

theorem dbFree_respace' (k v X Y : Str) (hk : ∀ c ∈ k, isSpace c = false)
    (hX : ∀ c ∈ X, isSpace c = true) (hY : ∀ c ∈ Y, isSpace c = true)
    (h : dbFree (k ++ (Y ++ v)) = true) : dbFree (k ++ (X ++ v)) = true := by
  induction k with
  | nil => exact dbFree_spaces X v hX (dbFree_drop Y v h)
  | cons c t ih =>
    simp only [List.cons_append, dbFree, Bool.and_eq_true] at h ⊢
    have hk' : ∀ x ∈ t, isSpace x = false := fun x hx => hk x (by simp [hx])
    refine ⟨?_, ih hk' h.2⟩
    cases hm : matchDB (c :: (t ++ (X ++ v))) with
    | none => rfl
    | some n =>
      exfalso
      have hs : (matchDB (c :: (t ++ (X ++ v)))).isSome = true := by rw [hm]; rfl
      have hc := matchDB_head c _ hs
      subst hc
      have := matchDB_rel X Y v _ _ hX hY (Or.inr ⟨t, hk', rfl, rfl⟩) hs
      have h1 := h.1
      cases hq : matchDB ('{' :: (t ++ (Y ++ v))) with
      | none => rw [hq] at this; cases this
      | some m => rw [hq] at h1; cases h1

/-- the `{ws{ws}ws}` pattern does not depend on how much white space separates key and value -/
theorem dbFree_respace (k v ws : Str) (hk : ∀ c ∈ k, isSpace c = false) (hws : ws ≠ [] ∧ ∀ c ∈ ws, isSpace c = true)
    (h : dbFree (k ++ ' ' :: v) = true) : dbFree (k ++ ws ++ v) = true := by
  rw [List.append_assoc]
  apply dbFree_respace' k v ws [' '] hk hws.2 (by intro c hc; simp at hc; subst hc; decide)
  exact h

end PydlVerif.YannyLayLine

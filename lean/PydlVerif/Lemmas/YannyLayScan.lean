import PydlVerif.Lemmas.YannyLayout
import PydlVerif.Lemmas.YannyScan
namespace PydlVerif.YannyLayScan
open PydlVerif.Yanny PydlVerif.YannyRT

/-!
C02, file level: scanning a struct definition in an ARBITRARY admissible layout
(generalisation of `typeSearch_struct` / `columnsOf_structBody` of YannyScan.lean).
  typeSearch_lay   `re.search(r'(\S+)\s+VAR([\[<].*[\]>]|);', text).groups()` finds the member's declaration
  columnsOf_lay    `re.findall(r'\S+\s+\S+;', body)` + `stripArr` gives the column names
Core Lean only.
-/

/-! ### lists -/

/-- a maximal run of `p` characters followed by the rest -/
theorem split_run {α} (p : α → Bool) (l : List α) :
    ∃ a b, l = a ++ b ∧ (∀ x ∈ a, p x = true) ∧ (∀ y, b.head? = some y → p y = false) := by
  refine ⟨l.takeWhile p, l.dropWhile p, List.takeWhile_append_dropWhile.symm,
    fun x hx => mem_takeWhile_sat p l x hx, ?_⟩
  intro y hy
  cases hd : l.dropWhile p with
  | nil => rw [hd] at hy; cases hy
  | cons z t =>
    rw [hd] at hy; simp at hy; subst hy
    exact dropWhile_head_not p l z t hd

theorem takeWhile_app_of_stop {α} (p : α → Bool) (l X : List α) (h : ∃ x ∈ l, p x = false) :
    (l ++ X).takeWhile p = l.takeWhile p := by
  induction l with
  | nil => obtain ⟨x, hx, _⟩ := h; cases hx
  | cons a t ih =>
    cases ha : p a with
    | false => simp [List.takeWhile, ha]
    | true =>
      simp only [List.cons_append, List.takeWhile, ha]
      congr 1
      apply ih
      obtain ⟨x, hx, hpx⟩ := h
      rcases List.mem_cons.mp hx with e | hx
      · subst e; rw [ha] at hpx; cases hpx
      · exact ⟨x, hx, hpx⟩

theorem mem_of_takeWhile {α} (p : α → Bool) (l : List α) (x : α) (h : x ∈ l.takeWhile p) : x ∈ l :=
  (List.takeWhile_sublist p).mem h

/-- ends in a white-space character (in particular is not empty) -/
def EndSp (J : Str) : Prop := ∃ J0 c, J = J0 ++ [c] ∧ isSpace c = true

theorem EndSp.ne_nil {J : Str} (h : EndSp J) : J ≠ [] := by
  obtain ⟨J0, c, rfl, _⟩ := h; simp

theorem EndSp.has_space {J : Str} (h : EndSp J) : ∃ x ∈ J, nonSp x = false := by
  obtain ⟨J0, c, rfl, hc⟩ := h
  exact ⟨c, by simp, by simp [nonSp, hc]⟩

theorem EndSp.suffix {u v : Str} (h : EndSp (u ++ v)) (hv : v ≠ []) : EndSp v := by
  obtain ⟨J0, c, e, hc⟩ := h
  rcases List.append_eq_append_iff.mp e with ⟨as, _, h2⟩ | ⟨bs, _, h2⟩
  · exact ⟨as, c, h2, hc⟩
  · cases bs with
    | nil => exact ⟨[], c, by simpa using h2.symm, hc⟩
    | cons b bs' =>
      simp at h2
      exact absurd h2.2.2 hv

theorem EndSp.prepend (u : Str) {v : Str} (h : EndSp v) : EndSp (u ++ v) := by
  obtain ⟨J0, c, rfl, hc⟩ := h
  exact ⟨u ++ J0, c, by simp, hc⟩

/-- a non-space run cannot end in white space -/
theorem EndSp.not_all {J : Str} (h : EndSp J) (hall : ∀ x ∈ J, nonSp x = true) : False := by
  obtain ⟨x, hx, hn⟩ := h.has_space
  rw [hall x hx] at hn; cases hn

/-! ### `tdWsOK` -/

theorem tdWs_tail (b : Bool) (a : Char) (t : Str) (h : tdWsOK b (a :: t) = true) :
    ∃ b', tdWsOK b' t = true := by
  cases b with
  | false =>
    simp only [tdWsOK] at h
    split at h
    · exact ⟨true, h⟩
    · simp only [Bool.and_eq_true] at h; exact ⟨false, h.2⟩
  | true =>
    simp only [tdWsOK] at h
    split at h
    · exact ⟨false, h⟩
    · simp only [Bool.and_eq_true] at h; exact ⟨true, h.2⟩

theorem tdWs_no_semi (b : Bool) (s : Str) (h : tdWsOK b s = true) : ';' ∉ s := by
  induction s generalizing b with
  | nil => simp
  | cons a t ih =>
    obtain ⟨b', hb'⟩ := tdWs_tail b a t h
    have hne : a ≠ ';' := by
      intro e; subst e
      cases b with
      | false => simp [tdWsOK, wsChar] at h
      | true => simp [tdWsOK] at h
    intro hm
    rcases List.mem_cons.mp hm with e | hm
    · exact hne e.symm
    · exact ih b' hb' hm

theorem tdWs_open_nl (s : Str) (h : tdWsOK true s = true) : '\n' ∈ s := by
  induction s with
  | nil => simp [tdWsOK] at h
  | cons a t ih =>
    simp only [tdWsOK] at h
    split at h
    · rename_i ha; simp at ha; subst ha; simp
    · simp only [Bool.and_eq_true] at h
      exact List.mem_cons_of_mem _ (ih h.2)

theorem wsChar_not_open (c : Char) (h : wsChar c = true) : isOpenB c = false := by
  simp only [wsChar, Bool.or_eq_true, beq_iff_eq] at h
  rcases h with ((h | h) | h) | h <;> subst h <;> decide

theorem wsChar_not_close (c : Char) (h : wsChar c = true) : isCloseB c = false := by
  simp only [wsChar, Bool.or_eq_true, beq_iff_eq] at h
  rcases h with ((h | h) | h) | h <;> subst h <;> decide

theorem wsChar_isSpace (c : Char) (h : wsChar c = true) : isSpace c = true := by
  simp only [wsChar, Bool.or_eq_true, beq_iff_eq] at h
  rcases h with ((h | h) | h) | h <;> subst h <;> decide

theorem wsChar_ne_semi (c : Char) (h : wsChar c = true) : c ≠ ';' := by
  intro e; subst e; simp [wsChar] at h

theorem tdWs_bracket_nl (b : Bool) (s : Str) (h : tdWsOK b s = true) :
    ∀ u c v, s = u ++ c :: v → isOpenB c = true → '\n' ∈ v := by
  induction s generalizing b with
  | nil => intro u c v e; simp at e
  | cons a t ih =>
    intro u c v e hc
    cases u with
    | nil =>
      simp only [List.nil_append, List.cons.injEq] at e
      obtain ⟨rfl, rfl⟩ := e
      cases b with
      | false =>
        simp only [tdWsOK] at h
        split at h
        · rename_i ha; simp at ha; subst ha; cases hc
        · simp only [Bool.and_eq_true] at h
          rw [wsChar_not_open a h.1] at hc; cases hc
      | true =>
        simp only [tdWsOK] at h
        split at h
        · rename_i ha; simp at ha; subst ha; cases hc
        · simp only [Bool.and_eq_true] at h
          exact tdWs_open_nl t h.2
    | cons x u' =>
      simp only [List.cons_append, List.cons.injEq] at e
      obtain ⟨b', hb'⟩ := tdWs_tail b a t h
      exact ih b' hb' u' c v e.2 hc

theorem tdWs_endSp (b : Bool) (s : Str) (h : tdWsOK b s = true) (hne : s ≠ []) : EndSp s := by
  induction s generalizing b with
  | nil => exact absurd rfl hne
  | cons a t ih =>
    cases t with
    | nil =>
      refine ⟨[], a, rfl, ?_⟩
      cases b with
      | false =>
        simp only [tdWsOK] at h
        split at h
        · simp at h
        · simp only [Bool.and_eq_true] at h; exact wsChar_isSpace a h.1
      | true =>
        simp only [tdWsOK] at h
        split at h
        · rename_i ha; simp at ha; subst ha; decide
        · simp at h
    | cons x t' =>
      obtain ⟨b', hb'⟩ := tdWs_tail b a _ h
      exact EndSp.prepend [a] (ih b' hb' (by simp))

theorem tdWs_no_nl (s : Str) (h : tdWsOK false s = true) (hn : '\n' ∉ s) : ∀ c ∈ s, wsChar c = true := by
  induction s with
  | nil => intro c hc; cases hc
  | cons a t ih =>
    simp only [tdWsOK] at h
    split at h
    · exact absurd (List.mem_cons_of_mem _ (tdWs_open_nl t h)) hn
    · simp only [Bool.and_eq_true] at h
      intro c hc
      rcases List.mem_cons.mp hc with e | hc
      · subst e; exact h.1
      · exact ih h.2 (fun hm => hn (List.mem_cons_of_mem _ hm)) c hc


/-! ### junk: text in which the member test can never succeed -/

/-- no `;`, and every open bracket is followed by a line end -/
def Junk (J : Str) : Prop :=
  ';' ∉ J ∧ ∀ u c v, J = u ++ c :: v → isOpenB c = true → '\n' ∈ v

theorem junk_nil : Junk [] := ⟨by simp, fun u c v e => by simp at e⟩

theorem junk_of_tdWs (s : Str) (h : tdWsOK false s = true) : Junk s :=
  ⟨tdWs_no_semi false s h, tdWs_bracket_nl false s h⟩

theorem junk_of_plain (s : Str) (h : ∀ c ∈ s, c ≠ ';' ∧ isOpenB c = false) : Junk s := by
  refine ⟨fun hm => (h _ hm).1 rfl, ?_⟩
  intro u c v e hc
  rw [(h c (by rw [e]; simp)).2] at hc; cases hc

theorem junk_append (a b : Str) (ha : Junk a) (hb : Junk b) : Junk (a ++ b) := by
  refine ⟨?_, ?_⟩
  · intro hm
    rcases List.mem_append.mp hm with hm | hm
    · exact ha.1 hm
    · exact hb.1 hm
  · intro u c v e hc
    rcases List.append_eq_append_iff.mp e with ⟨as, h1, h2⟩ | ⟨bs, h1, h2⟩
    · -- u = a ++ as, b = as ++ c :: v
      exact hb.2 as c v h2 hc
    · -- a = u ++ bs, c :: v = bs ++ b
      cases bs with
      | nil =>
        simp only [List.nil_append] at h2
        exact hb.2 [] c v (by simpa using h2.symm) hc
      | cons x bs' =>
        simp only [List.cons_append, List.cons.injEq] at h2
        obtain ⟨rfl, rfl⟩ := h2
        have := ha.2 u c bs' h1 hc
        exact List.mem_append_left _ this

theorem stripPrefix_eq (var s tail : Str) (h : stripPrefix var s = some tail) : s = var ++ tail := by
  induction var generalizing s with
  | nil => cases s <;> simp [stripPrefix] at h <;> simp [h]
  | cons p ps ih =>
    cases s with
    | nil => simp [stripPrefix] at h
    | cons c cs =>
      simp only [stripPrefix] at h
      split at h
      · rename_i hpc
        have : p = c := by simpa using hpc
        subst this
        rw [ih cs h]; rfl
      · cases h

theorem lastCloseAux_noSemi (l : Str) (i : Nat) (best : Option Nat) (h : ';' ∉ l) :
    lastCloseAux l i best = best := by
  induction l generalizing i with
  | nil => rfl
  | cons c t ih =>
    have ht : ';' ∉ t := fun hm => h (List.mem_cons_of_mem _ hm)
    have hh : (t.head? == some ';') = false := by
      cases t with
      | nil => rfl
      | cons x t' =>
        have : x ≠ ';' := fun e => ht (by simp [e])
        simp [this]
    simp only [lastCloseAux, hh, Bool.and_false, Bool.false_eq_true, if_false]
    exact ih _ ht

/-- the member test fails everywhere inside junk that ends in white space -/
theorem junk_fail (var J X : Str) (hv : ∀ x ∈ var, isWordCh x = true) (hJ : Junk J) (hE : EndSp J) :
    ∀ u v, J = u ++ v → v ≠ [] → ∀ tail, stripPrefix var (v ++ X) = some tail → arrTail tail = none := by
  intro u v e hvne tail hs
  have hEv : EndSp v := by rw [e] at hE; exact hE.suffix hvne
  obtain ⟨v0, sp, hv0, hsp⟩ := hEv
  have hspw : isWordCh sp = false := scan_space_not_word sp hsp
  have e2 := stripPrefix_eq var _ tail hs
  -- v ++ X = var ++ tail
  rcases List.append_eq_append_iff.mp e2 with ⟨as, h1, h2⟩ | ⟨bs, h1, h2⟩
  · -- var = v ++ as: the last char of v is a word char
    have : sp ∈ var := by rw [h1, hv0]; simp
    rw [hv sp this] at hspw; cases hspw
  · -- v = var ++ bs, tail = bs ++ X
    cases bs with
    | nil =>
      have : sp ∈ var := by
        have : var = v0 ++ [sp] := by rw [← hv0, h1]; simp
        rw [this]; simp
      rw [hv sp this] at hspw; cases hspw
    | cons c v'' =>
      rw [h2]
      have hJe : J = (u ++ var) ++ c :: v'' := by rw [e, h1]; simp
      have hcne : c ≠ ';' := by
        intro ec; apply hJ.1; rw [hJe, ec]; simp
      cases hco : isOpenB c with
      | false => exact arrTail_head_none c _ hco hcne
      | true =>
        have hnl : '\n' ∈ v'' := hJ.2 _ c v'' hJe hco
        have hline : ((c :: v'') ++ X).takeWhile (· != '\n') = (c :: v'').takeWhile (· != '\n') :=
          takeWhile_app_of_stop _ _ _ ⟨'\n', List.mem_cons_of_mem _ hnl, by decide⟩
        have hns : ';' ∉ (c :: v'').takeWhile (· != '\n') := by
          intro hm
          have := mem_of_takeWhile _ _ _ hm
          apply hJ.1; rw [hJe]
          exact List.mem_append_right _ this
        show arrTail (c :: (v'' ++ X)) = none
        unfold arrTail
        simp only [hco, if_true]
        rw [← List.cons_append, hline, lastCloseAux_noSemi _ _ _ hns]

/-- skipping junk: from the end of any word `w0`, over junk `J`, to the text `X` -/
theorem finds_skip_aux (var X : Str) (res : Option (Str × Str))
    (hX : ∀ c, X.head? = some c → isSpace c = false)
    (hfail : ∀ tail, stripPrefix var X = some tail → arrTail tail = none) (h : Finds var X res) :
    ∀ (n : Nat) (J w0 : Str), J.length ≤ n → w0 ≠ [] → (∀ c ∈ w0, nonSp c = true) → EndSp J →
      (∀ u v, J = u ++ v → v ≠ [] → ∀ tail, stripPrefix var (v ++ X) = some tail → arrTail tail = none) →
      Finds var (w0 ++ J ++ X) res := by
  intro n
  induction n with
  | zero =>
    intro J w0 hlen _ _ hE
    have : J = [] := by cases J with
      | nil => rfl
      | cons _ _ => simp at hlen
    exact absurd this hE.ne_nil
  | succ n ih =>
    intro J w0 hlen hw0ne hw0 hE hJf
    obtain ⟨a, J', hJ, ha, hJ'⟩ := split_run nonSp J
    have hJ'ne : J' ≠ [] := by
      intro e; rw [e, List.append_nil] at hJ; rw [hJ] at hE; exact hE.not_all ha
    obtain ⟨sp, J'', hJ'e, hsp, hJ''⟩ := split_run isSpace J'
    have hspne : sp ≠ [] := by
      intro e
      rw [e, List.nil_append] at hJ'e
      cases hJ'c : J' with
      | nil => exact hJ'ne hJ'c
      | cons y t =>
        have h1 := hJ' y (by rw [hJ'c]; rfl)
        have h2 := hJ'' y (by rw [← hJ'e, hJ'c]; rfl)
        simp [nonSp, h2] at h1
    have hwa : ∀ c ∈ w0 ++ a, nonSp c = true := by
      intro c hc
      rcases List.mem_append.mp hc with hc | hc
      · exact hw0 c hc
      · exact ha c hc
    have hwane : w0 ++ a ≠ [] := by
      intro e; exact hw0ne (List.append_eq_nil_iff.mp e).1
    have etext : w0 ++ J ++ X = (w0 ++ a) ++ sp ++ (J'' ++ X) := by
      rw [hJ, hJ'e]; simp only [List.append_assoc]
    rw [etext]
    cases hJ''c : J'' with
    | nil =>
      rw [List.nil_append]
      exact finds_word_fail var _ sp X res hwane hwa hspne hsp hX hfail h
    | cons c t =>
      have hcns : isSpace c = false := hJ'' c (by rw [hJ''c]; rfl)
      have hJsplit : J = (a ++ sp) ++ (c :: t) := by rw [hJ, hJ'e, hJ''c]; simp
      have hEt : EndSp (c :: t) := by rw [hJsplit] at hE; exact hE.suffix (by simp)
      have htne : t ≠ [] := by
        intro e
        rw [e] at hEt
        obtain ⟨J0, d, hd, hds⟩ := hEt
        cases J0 with
        | nil => simp at hd; rw [← hd] at hds; rw [hds] at hcns; cases hcns
        | cons _ J0' => simp at hd
      have hEt' : EndSp t := by
        have : EndSp ([c] ++ t) := hEt
        exact this.suffix htne
      apply finds_word_fail var _ sp _ res hwane hwa hspne hsp
      · intro d hd; simp at hd; subst hd; exact hcns
      · intro tail hs
        exact hJf (a ++ sp) (c :: t) hJsplit (by simp) tail hs
      · have := ih t [c] (by
            have : J.length = a.length + sp.length + (t.length + 1) := by rw [hJsplit]; simp; omega
            omega) (by simp) (by intro d hd; simp at hd; subst hd; simp [nonSp, hcns]) hEt'
          (by
            intro u v e hv tail hs
            exact hJf (a ++ sp ++ c :: u) v (by rw [hJsplit, e]; simp) hv tail hs)
        simpa using this

theorem finds_skip (var w0 J X : Str) (res : Option (Str × Str)) (hv : ∀ x ∈ var, isWordCh x = true)
    (hw0ne : w0 ≠ []) (hw0 : ∀ c ∈ w0, nonSp c = true) (hJ : Junk J) (hE : EndSp J)
    (hX : ∀ c, X.head? = some c → isSpace c = false)
    (hfail : ∀ tail, stripPrefix var X = some tail → arrTail tail = none) (h : Finds var X res) :
    Finds var (w0 ++ J ++ X) res :=
  finds_skip_aux var X res hX hfail h J.length J w0 (Nat.le_refl _) hw0ne hw0 hE
    (junk_fail var J X hv hJ hE)

/-! ### layouts -/

/-- one member declaration as laid out: white space / comments `pre`, type word `T`, blanks `gap`, column name `N`, array suffix `arr`, then `;` -/
structure Mem where
  pre : Str
  T : Str
  gap : Str
  N : Str
  arr : Str

def Mem.text (m : Mem) : Str := m.pre ++ m.T ++ m.gap ++ m.N ++ m.arr ++ [';']
/-- text between the braces -/
def bodyL (ms : List Mem) (closePre : Str) : Str := (ms.map Mem.text).flatten ++ closePre
def structL (g1 g2 body g3 name g4 : Str) : Str :=
  "typedef".toList ++ g1 ++ "struct".toList ++ g2 ++ '{' :: body ++ '}' :: g3 ++ name ++ g4 ++ [';']
/-- array suffix: empty, or starts with `[`/`<`, ends with `]`/`>`, made of brackets and digits (e.g. `[3]`, `<3>[10]`, `[]`, `[2]<>`) -/
def arrL (a : Str) : Prop :=
  (a = [] ∨ ((∃ o, a.head? = some o ∧ isOpenB o = true) ∧ (∃ c, a.getLast? = some c ∧ isCloseB c = true))) ∧
  ∀ c ∈ a, isOpenB c = true ∨ isCloseB c = true ∨ c.isDigit = true
def MemOK (m : Mem) : Prop :=
  m.pre ≠ [] ∧ tdWsOK false m.pre = true ∧ m.gap ≠ [] ∧ (∀ c ∈ m.gap, isBlank c = true) ∧
  wordy m.T ∧ wordy m.N ∧ arrL m.arr

theorem text_app (m : Mem) (rest : Str) :
    m.text ++ rest = m.pre ++ (m.T ++ m.gap ++ (m.N ++ (m.arr ++ ';' :: rest))) := by
  unfold Mem.text
  simp only [List.append_assoc, List.cons_append, List.nil_append]

/-! ### characters of an array suffix -/

theorem open_cases (c : Char) (h : isOpenB c = true) : c = '[' ∨ c = '<' := by
  simpa [isOpenB] using h

theorem close_cases (c : Char) (h : isCloseB c = true) : c = ']' ∨ c = '>' := by
  simpa [isCloseB] using h

theorem open_not_close (c : Char) (h : isOpenB c = true) : isCloseB c = false := by
  rcases open_cases c h with e | e <;> subst e <;> decide

theorem arrCh_facts (c : Char) (h : isOpenB c = true ∨ isCloseB c = true ∨ c.isDigit = true) :
    nonSp c = true ∧ c ≠ ';' ∧ c ≠ '\n' := by
  rcases h with h | h | h
  · rcases open_cases c h with e | e <;> subst e <;> decide
  · rcases close_cases c h with e | e <;> subst e <;> decide
  · have hw := scan_digit_word c h
    exact ⟨scan_word_nonSp c hw, scan_word_ne c ';' hw (by decide), scan_word_ne c '\n' hw (by decide)⟩

theorem arrL_head (A X : Str) (hA : arrL A) :
    ∃ c rest, A ++ ';' :: X = c :: rest ∧ isWordCh c = false := by
  cases hA' : A with
  | nil => exact ⟨';', X, rfl, by decide⟩
  | cons a A' =>
    refine ⟨a, A' ++ ';' :: X, rfl, ?_⟩
    rcases hA.1 with h | ⟨⟨o, ho, hoo⟩, _⟩
    · rw [hA'] at h; cases h
    · rw [hA'] at ho; simp at ho; subst ho
      rcases open_cases a hoo with e | e <;> subst e <;> decide

/-! ### `arrTail` at a general array suffix -/

theorem lastCloseAux_keep (L : Str) (i : Nat) (best : Option Nat)
    (h : ';' ∉ L ∨ ∀ c ∈ L, isCloseB c = false) : lastCloseAux L i best = best := by
  rcases h with h | h
  · exact lastCloseAux_noSemi L i best h
  · induction L generalizing i with
    | nil => rfl
    | cons c t ih =>
      simp only [lastCloseAux, h c (by simp), Bool.false_and, Bool.false_eq_true, if_false]
      exact ih _ (fun x hx => h x (List.mem_cons_of_mem _ hx))

/-! ### no `;` directly after a closing bracket (widened domain: several declarations on one line) -/

/-- `ssOK p s`: no `;` of `s` stands directly after a closing bracket (`p`: the character before `s` is one) -/
def ssOK : Bool → Str → Bool
  | _, [] => true
  | p, c :: t => (c != ';' || !p) && ssOK (isCloseB c) t

/-- is the last character of `p`-then-`s` a closing bracket -/
def lastCl : Bool → Str → Bool
  | p, [] => p
  | _, c :: t => lastCl (isCloseB c) t

theorem ssOK_noSemi (p : Bool) (s : Str) (h : ';' ∉ s) : ssOK p s = true := by
  induction s generalizing p with
  | nil => rfl
  | cons c t ih =>
    have hc : c ≠ ';' := fun e => h (by simp [e])
    simp only [ssOK, ih _ (fun hm => h (List.mem_cons_of_mem _ hm)), Bool.and_true, Bool.or_eq_true, bne_iff_ne, ne_eq]
    exact Or.inl hc

theorem ssOK_append (p : Bool) (a b : Str) : ssOK p (a ++ b) = (ssOK p a && ssOK (lastCl p a) b) := by
  induction a generalizing p with
  | nil => simp [ssOK, lastCl]
  | cons c t ih => simp only [List.cons_append, ssOK, lastCl, ih, Bool.and_assoc]

theorem ssOK_prefix (p : Bool) (a b : Str) (h : ssOK p (a ++ b) = true) : ssOK p a = true := by
  rw [ssOK_append, Bool.and_eq_true] at h; exact h.1

theorem lastCl_append (p : Bool) (a b : Str) : lastCl p (a ++ b) = lastCl (lastCl p a) b := by
  induction a generalizing p with
  | nil => rfl
  | cons c t ih => simp only [List.cons_append, lastCl, ih]

theorem lastCl_plain (p : Bool) (s : Str) (hne : s ≠ []) (h : ∀ c ∈ s, isCloseB c = false) : lastCl p s = false := by
  induction s generalizing p with
  | nil => exact absurd rfl hne
  | cons c t ih =>
    cases t with
    | nil => simp only [lastCl]; exact h c (by simp)
    | cons d t' =>
      show lastCl (isCloseB c) (d :: t') = false
      exact ih (isCloseB c) (by simp) (fun x hx => h x (List.mem_cons_of_mem _ hx))

theorem lastCl_plain' (s : Str) (h : ∀ c ∈ s, isCloseB c = false) : lastCl false s = false := by
  cases s with
  | nil => rfl
  | cons c t => exact lastCl_plain _ _ (by simp) h

/-- text without `;` whose last character is no closing bracket, followed by `;` -/
theorem ssOK_then_semi (p : Bool) (X : Str) (hs : ';' ∉ X) (hl : lastCl p X = false) : ssOK p (X ++ [';']) = true := by
  rw [ssOK_append, ssOK_noSemi p X hs, hl]; rfl

theorem lastCloseAux_keepW (L : Str) (i : Nat) (best : Option Nat) (p : Bool) (h : ssOK p L = true) :
    lastCloseAux L i best = best := by
  induction L generalizing i p with
  | nil => rfl
  | cons c t ih =>
    simp only [ssOK, Bool.and_eq_true] at h
    have hcond : (isCloseB c && decide (i ≥ 1) && (t.head? == some ';')) = false := by
      cases t with
      | nil => simp
      | cons d t' =>
        by_cases hd : d = ';'
        · subst hd
          have := h.2
          simp only [ssOK, Bool.and_eq_true, Bool.or_eq_true, bne_iff_ne, ne_eq, not_true_eq_false, false_or,
            Bool.not_eq_true'] at this
          simp [this.1]
        · simp [hd]
    simp only [lastCloseAux, hcond, Bool.false_eq_true, if_false]
    exact ih _ _ h.2

theorem lastCloseAux_endL (B : Str) (c : Char) (L : Str) (i : Nat) (best : Option Nat)
    (h : 1 ≤ i + B.length) (hc : isCloseB c = true) (hL : ssOK false L = true) :
    lastCloseAux (B ++ c :: ';' :: L) i best = some (i + B.length) := by
  induction B generalizing i best with
  | nil =>
    have hi : 1 ≤ i := by simpa using h
    have hi' : decide (i ≥ 1) = true := by simpa using hi
    simp only [List.nil_append, lastCloseAux, hc, hi', List.head?_cons, beq_self_eq_true, Bool.and_self,
      if_true]
    have hsc : isCloseB ';' = false := by decide
    simp only [hsc, Bool.false_and, Bool.false_eq_true, if_false]
    rw [lastCloseAux_keepW L _ _ false hL]; simp
  | cons b B' ih =>
    simp only [List.cons_append, lastCloseAux]
    rw [ih]
    · simp; omega
    · simp at h ⊢; omega

/-- `([\[<].*[\]>]|);` at an array suffix, when the rest of the line offers no later `];` (no condition
for a declaration without brackets) -/
theorem arrTail_arrL (A REST : Str) (hA : arrL A)
    (hL : A = [] ∨ ssOK false (REST.takeWhile (· != '\n')) = true) :
    arrTail (A ++ ';' :: REST) = some A := by
  rcases hA with ⟨h1, h2⟩
  rcases h1 with h1 | ⟨⟨o, ho, hoo⟩, ⟨cl, hcl, hclc⟩⟩
  · subst h1; simp [arrTail, isOpenB]
  · have hL : ssOK false (REST.takeWhile (· != '\n')) = true := by
      rcases hL with e | hL
      · rw [e] at ho; cases ho
      · exact hL
    obtain ⟨B, hB⟩ := List.getLast?_eq_some_iff.mp hcl
    have hBne : B ≠ [] := by
      intro e
      rw [e] at hB; rw [hB] at ho; simp at ho; subst ho
      rw [open_not_close _ hoo] at hclc; cases hclc
    have hBl : 1 ≤ B.length := by
      cases B with
      | nil => exact absurd rfl hBne
      | cons _ _ => simp
    have hline : (A ++ ';' :: REST).takeWhile (· != '\n') = A ++ ';' :: REST.takeWhile (· != '\n') := by
      have : A ++ ';' :: REST = (A ++ [';']) ++ REST := by simp
      rw [this, List.takeWhile_append_of_pos]
      · simp
      · intro x hx
        simp only [List.mem_append, List.mem_singleton] at hx
        rcases hx with hx | hx
        · have := (arrCh_facts x (h2 x hx)).2.2; simp [this]
        · subst hx; decide
    have hlc : lastCloseAux (A ++ ';' :: REST.takeWhile (· != '\n')) 0 none = some B.length := by
      rw [hB, List.append_assoc, List.singleton_append, lastCloseAux_endL B cl _ 0 none (by omega) hclc hL]
      simp
    have htake : (A ++ ';' :: REST.takeWhile (· != '\n')).take (B.length + 1) = A := by
      have hlen : B.length + 1 = A.length := by rw [hB]; simp
      rw [hlen]; simp
    cases hA' : A with
    | nil => rw [hA'] at ho; cases ho
    | cons a A' =>
      have ha : a = o := by rw [hA'] at ho; simpa using ho
      subst ha
      rw [hA'] at hline hlc htake
      show arrTail (a :: (A' ++ ';' :: REST)) = _
      unfold arrTail
      simp only [hoo, if_true]
      rw [← List.cons_append, hline, hlc]
      simp only [htake]

/-! ### walking over the member declarations -/

theorem blank_facts (c : Char) (h : isBlank c = true) :
    isWordCh c = false ∧ isOpenB c = false ∧ c ≠ ';' := by
  simp only [isBlank, Bool.or_eq_true, beq_iff_eq] at h
  rcases h with h | h <;> subst h <;> decide

/-- from the end of any word, over junk and the white space / comments before a member, into its
type word -/
theorem finds_enterL (var w0 J0 : Str) (p : Mem) (R : Str) (res : Option (Str × Str))
    (hv : ∀ x ∈ var, isWordCh x = true) (hw0ne : w0 ≠ []) (hw0 : ∀ c ∈ w0, nonSp c = true)
    (hJ0 : Junk J0) (hp : MemOK p) (h : Finds var (p.T ++ p.gap ++ R) res) :
    Finds var (w0 ++ (J0 ++ p.pre) ++ (p.T ++ p.gap ++ R)) res := by
  obtain ⟨hpne, hptd, hgne, hgb, hT, _, _⟩ := hp
  apply finds_skip var w0 (J0 ++ p.pre) _ res hv hw0ne hw0 (junk_append _ _ hJ0 (junk_of_tdWs _ hptd))
    (EndSp.prepend J0 (tdWs_endSp false _ hptd hpne)) _ _ h
  · rw [List.append_assoc]; exact wordy_head _ _ hT
  · intro tail hs
    cases hg : p.gap with
    | nil => exact absurd hg hgne
    | cons c g' =>
      rw [hg, List.append_assoc, List.cons_append] at hs
      obtain ⟨b1, b2, b3⟩ := blank_facts c (hgb c (by rw [hg]; simp))
      exact strip_arrTail_none var p.T c _ hv hT.2 b1 (Or.inr ⟨b2, b3⟩) tail hs

theorem gap_space (p : Mem) (hp : MemOK p) : ∀ c ∈ p.gap, isSpace c = true :=
  fun c hc => isBlank_isSpace c (hp.2.2.2.1 c hc)

theorem NA_nonSp (p : Mem) (hp : MemOK p) : ∀ c ∈ p.N ++ p.arr ++ [';'], nonSp c = true := by
  intro c hc
  simp only [List.mem_append, List.mem_singleton] at hc
  rcases hc with (hc | hc) | hc
  · exact scan_word_nonSp c (hp.2.2.2.2.2.1.2 c hc)
  · exact (arrCh_facts c (hp.2.2.2.2.2.2.2 c hc)).1
  · subst hc; decide

theorem scan_membersL (var : Str) (hv : ∀ x ∈ var, isWordCh x = true) (pre : List Mem) (m : Mem)
    (REST : Str) (hpre : ∀ p ∈ pre, MemOK p ∧ p.N ≠ var) (hm : MemOK m) (hmv : m.N = var)
    (hL : m.arr = [] ∨ ssOK false (REST.takeWhile (· != '\n')) = true) :
    ∀ (w0 J0 : Str), w0 ≠ [] → (∀ c ∈ w0, nonSp c = true) → Junk J0 →
      Finds var (w0 ++ J0 ++ ((pre.map Mem.text).flatten ++ (m.text ++ REST))) (some (m.T, m.arr)) := by
  induction pre with
  | nil =>
    intro w0 J0 hw0ne hw0 hJ0
    have e : w0 ++ J0 ++ ((([] : List Mem).map Mem.text).flatten ++ (m.text ++ REST))
        = w0 ++ (J0 ++ m.pre) ++ (m.T ++ m.gap ++ (m.N ++ (m.arr ++ ';' :: REST))) := by
      rw [text_app]; simp
    rw [e]
    apply finds_enterL var w0 J0 m _ _ hv hw0ne hw0 hJ0 hm
    apply finds_word_ok var m.T m.gap _ (m.arr ++ ';' :: REST) m.arr hm.2.2.2.2.1.1
      (wordy_nonSp _ hm.2.2.2.2.1) hm.2.2.1 (gap_space m hm) (wordy_head _ _ hm.2.2.2.2.2.1)
    · rw [← hmv]; exact stripPrefix_self_app _ _
    · exact arrTail_arrL _ _ hm.2.2.2.2.2.2 hL
  | cons p pre' ih =>
    intro w0 J0 hw0ne hw0 hJ0
    obtain ⟨hp, hpv⟩ := hpre p (by simp)
    have e : w0 ++ J0 ++ (((p :: pre').map Mem.text).flatten ++ (m.text ++ REST))
        = w0 ++ (J0 ++ p.pre) ++ (p.T ++ p.gap ++ (p.N ++ (p.arr ++ ';' ::
            ((pre'.map Mem.text).flatten ++ (m.text ++ REST))))) := by
      simp only [List.map_cons, List.flatten_cons, List.append_assoc]
      rw [text_app]; simp only [List.append_assoc]
    rw [e]
    apply finds_enterL var w0 J0 p _ _ hv hw0ne hw0 hJ0 hp
    apply finds_word_fail var p.T p.gap _ _ hp.2.2.2.2.1.1 (wordy_nonSp _ hp.2.2.2.2.1) hp.2.2.1
      (gap_space p hp) (wordy_head _ _ hp.2.2.2.2.2.1)
    · intro tail hs
      obtain ⟨c, rest, hc, hcw⟩ := arrL_head p.arr
        ((pre'.map Mem.text).flatten ++ (m.text ++ REST)) hp.2.2.2.2.2.2
      rw [hc] at hs
      exact strip_arrTail_none var p.N c rest hv hp.2.2.2.2.2.1.2 hcw (Or.inl (fun e => hpv e.symm)) tail hs
    · have := ih (fun q hq => hpre q (by simp [hq])) (p.N ++ p.arr ++ [';']) [] (by simp)
        (NA_nonSp p hp) junk_nil
      simpa only [List.append_assoc, List.cons_append, List.nil_append, List.append_nil] using this

/-! ### at most one bracketed declaration per line -/

/-- no bracketed declaration before the next newline -/
def restNoBr : List Mem → Prop
  | [] => True
  | q :: r => '\n' ∈ q.pre ∨ (q.arr = [] ∧ restNoBr r)

/-- a declaration written with brackets is the last such declaration of its line -/
def LineOK : List Mem → Prop
  | [] => True
  | m :: r => (m.arr = [] ∨ restNoBr r) ∧ LineOK r

theorem LineOK_split (pre : List Mem) (m : Mem) (post : List Mem) (h : LineOK (pre ++ m :: post)) :
    m.arr = [] ∨ restNoBr post := by
  induction pre with
  | nil => exact h.1
  | cons p pre' ih => exact ih h.2

theorem restNoBr_of_nl (r : List Mem) (h : ∀ q ∈ r, '\n' ∈ q.pre) : restNoBr r := by
  cases r with
  | nil => trivial
  | cons q r' => exact Or.inl (h q (by simp))

theorem LineOK_of_all (r : List Mem) (h : ∀ q ∈ r, '\n' ∈ q.pre) : LineOK r := by
  induction r with
  | nil => trivial
  | cons q r' ih =>
    exact ⟨Or.inr (restNoBr_of_nl r' (fun x hx => h x (by simp [hx]))), ih (fun x hx => h x (by simp [hx]))⟩

/-- the old assumption (every declaration after the first preceded by a newline) is a special case -/
theorem LineOK_of_nl (ms : List Mem) (h : ∀ m ∈ ms.tail, '\n' ∈ m.pre) : LineOK ms := by
  cases ms with
  | nil => trivial
  | cons m r => exact ⟨Or.inr (restNoBr_of_nl r h), LineOK_of_all r h⟩

theorem takeWhile_app_all {α} (p : α → Bool) (a b : List α) (h : ∀ x ∈ a, p x = true) :
    (a ++ b).takeWhile p = a ++ b.takeWhile p := by
  induction a with
  | nil => rfl
  | cons x t ih =>
    simp only [List.cons_append, List.takeWhile, h x (by simp)]
    rw [ih (fun y hy => h y (by simp [hy]))]

theorem tail_ss (closePre g3 name g4 : Str) (hcp : tdWsOK false closePre = true)
    (hg3 : ∀ c ∈ g3, wsChar c = true) (hg4 : ∀ c ∈ g4, wsChar c = true) (hname : wordy name) (p : Bool) :
    ssOK p (closePre ++ '}' :: (g3 ++ (name ++ (g4 ++ [';'])))) = true := by
  have e : closePre ++ '}' :: (g3 ++ (name ++ (g4 ++ [';']))) = (closePre ++ ('}' :: (g3 ++ (name ++ g4)))) ++ [';'] := by
    simp only [List.append_assoc, List.cons_append]
  rw [e]
  apply ssOK_then_semi
  · intro hm
    simp only [List.mem_append, List.mem_cons] at hm
    rcases hm with hm | hm | hm | hm | hm
    · exact tdWs_no_semi false _ hcp hm
    · cases hm
    · exact wsChar_ne_semi _ (hg3 _ hm) rfl
    · exact scan_word_ne _ ';' (hname.2 _ hm) (by decide) rfl
    · exact wsChar_ne_semi _ (hg4 _ hm) rfl
  · rw [lastCl_append]
    apply lastCl_plain _ _ (by simp)
    intro c hc
    simp only [List.mem_cons, List.mem_append] at hc
    rcases hc with hc | hc | hc | hc
    · subst hc; decide
    · exact wsChar_not_close c (hg3 c hc)
    · exact scan_word_not_close c (hname.2 c hc)
    · exact wsChar_not_close c (hg4 c hc)

/-- the line that follows the `;` of a member offers no later `];` -/
theorem rest_lineW (post : List Mem) (closePre g3 name g4 : Str)
    (hpost : ∀ q ∈ post, MemOK q) (hrest : restNoBr post) (hcp : tdWsOK false closePre = true)
    (hg3 : ∀ c ∈ g3, wsChar c = true) (hg4 : ∀ c ∈ g4, wsChar c = true) (hname : wordy name) :
    ssOK false (((post.map Mem.text).flatten ++ (closePre ++ '}' :: (g3 ++ (name ++ (g4 ++ [';']))))).takeWhile
      (· != '\n')) = true := by
  induction post with
  | nil =>
    simp only [List.map_nil, List.flatten_nil, List.nil_append]
    have := tail_ss closePre g3 name g4 hcp hg3 hg4 hname false
    rw [← List.takeWhile_append_dropWhile (p := (· != '\n'))
      (l := closePre ++ '}' :: (g3 ++ (name ++ (g4 ++ [';']))))] at this
    exact ssOK_prefix _ _ _ this
  | cons q post' ih =>
    have hq := hpost q (by simp)
    obtain ⟨hpne, hptd, hgne, hgb, hT, hN, hA⟩ := hq
    by_cases hn : '\n' ∈ q.pre
    · have e : ((q :: post').map Mem.text).flatten ++ (closePre ++ '}' :: (g3 ++ (name ++ (g4 ++ [';'])))) =
          q.pre ++ (q.T ++ q.gap ++ (q.N ++ (q.arr ++ ';' :: ((post'.map Mem.text).flatten ++
            (closePre ++ '}' :: (g3 ++ (name ++ (g4 ++ [';'])))))))) := by
        simp only [List.map_cons, List.flatten_cons, List.append_assoc]
        rw [text_app]; simp only [List.append_assoc]
      rw [e, takeWhile_app_of_stop _ _ _ ⟨'\n', hn, by decide⟩]
      apply ssOK_noSemi
      intro hm
      exact tdWs_no_semi false _ hptd (mem_of_takeWhile _ _ _ hm)
    · have hr : q.arr = [] ∧ restNoBr post' := by
        rcases hrest with h | h
        · exact absurd h hn
        · exact h
      have e : ((q :: post').map Mem.text).flatten ++ (closePre ++ '}' :: (g3 ++ (name ++ (g4 ++ [';'])))) =
          ((q.pre ++ (q.T ++ (q.gap ++ q.N))) ++ [';']) ++ ((post'.map Mem.text).flatten ++
            (closePre ++ '}' :: (g3 ++ (name ++ (g4 ++ [';']))))) := by
        simp only [List.map_cons, List.flatten_cons, List.append_assoc]
        rw [text_app, hr.1]; simp only [List.append_assoc, List.nil_append, List.cons_append]
      have hX : ∀ c ∈ q.pre ++ (q.T ++ (q.gap ++ q.N)), c ≠ ';' ∧ c ≠ '\n' := by
        intro c hc
        simp only [List.mem_append] at hc
        rcases hc with hc | hc | hc | hc
        · exact ⟨fun e => tdWs_no_semi false _ hptd (e ▸ hc), fun e => hn (e ▸ hc)⟩
        · exact ⟨scan_word_ne c ';' (hT.2 c hc) (by decide), scan_word_ne c '\n' (hT.2 c hc) (by decide)⟩
        · have := hgb c hc
          simp only [isBlank, Bool.or_eq_true, beq_iff_eq] at this
          rcases this with h | h <;> subst h <;> exact ⟨by decide, by decide⟩
        · exact ⟨scan_word_ne c ';' (hN.2 c hc) (by decide), scan_word_ne c '\n' (hN.2 c hc) (by decide)⟩
      rw [e, takeWhile_app_all]
      · rw [ssOK_append, Bool.and_eq_true]
        refine ⟨?_, ?_⟩
        · apply ssOK_then_semi
          · exact fun hm => (hX _ hm).1 rfl
          · rw [show q.pre ++ (q.T ++ (q.gap ++ q.N)) = (q.pre ++ (q.T ++ q.gap)) ++ q.N by simp, lastCl_append]
            exact lastCl_plain _ _ hN.1 (fun c hc => scan_word_not_close c (hN.2 c hc))
        · rw [lastCl_append]
          exact ih (fun x hx => hpost x (by simp [hx])) hr.2
      · intro c hc
        simp only [List.mem_append, List.mem_singleton] at hc
        rcases hc with hc | hc
        · have := (hX c (by simpa only [List.mem_append] using hc)).2
          simp [this]
        · subst hc; decide

/-- `type()`'s search on a struct definition in any layout in which a declaration written with
brackets is the last such declaration of its line -/
theorem typeSearch_layW (ms : List Mem) (closePre g1 g2 g3 name g4 : Str)
    (hms : ∀ m ∈ ms, MemOK m) (hnd : (ms.map (·.N)).Nodup)
    (hline : LineOK ms)
    (hcp : tdWsOK false closePre = true)
    (hg1 : g1 ≠ [] ∧ ∀ c ∈ g1, wsChar c = true) (hg2 : ∀ c ∈ g2, wsChar c = true)
    (hg3 : ∀ c ∈ g3, wsChar c = true) (hg4 : ∀ c ∈ g4, wsChar c = true)
    (hname : wordy name) (m : Mem) (hm : m ∈ ms) :
    typeSearch m.N (structL g1 g2 (bodyL ms closePre) g3 name g4) = some (m.T, m.arr) := by
  obtain ⟨pre, post, rfl⟩ := List.append_of_mem hm
  have hmk : MemOK m := hms m hm
  have hpre : ∀ p ∈ pre, MemOK p ∧ p.N ≠ m.N := by
    intro p hp
    refine ⟨hms p (by simp [hp]), ?_⟩
    rw [List.map_append, List.nodup_append] at hnd
    exact hnd.2.2 p.N (List.mem_map.mpr ⟨p, hp, rfl⟩) m.N (by simp)
  have hpost : ∀ q ∈ post, MemOK q := fun q hq => hms q (by simp [hq])
  have hst : "struct".toList = ['s', 't', 'r', 'u', 'c', 't'] := by decide
  have htd : "typedef".toList = ['t', 'y', 'p', 'e', 'd', 'e', 'f'] := by decide
  have hL : m.arr = [] ∨ ssOK false (((post.map Mem.text).flatten ++
      (closePre ++ '}' :: (g3 ++ (name ++ (g4 ++ [';']))))).takeWhile (· != '\n')) = true := by
    rcases LineOK_split pre m post hline with h | h
    · exact Or.inl h
    · exact Or.inr (rest_lineW post closePre g3 name g4 hpost h hcp hg3 hg4 hname)
  have hJ0 : Junk (g1 ++ "struct".toList ++ g2 ++ ['{']) := by
    apply junk_of_plain
    intro c hc
    rw [hst] at hc
    simp only [List.mem_append, List.mem_cons, List.mem_nil_iff, or_false] at hc
    rcases hc with ((hc | hc) | hc) | hc
    · exact ⟨wsChar_ne_semi c (hg1.2 c hc), wsChar_not_open c (hg1.2 c hc)⟩
    · rcases hc with hc | hc | hc | hc | hc | hc <;> subst hc <;> exact ⟨by decide, by decide⟩
    · exact ⟨wsChar_ne_semi c (hg2 c hc), wsChar_not_open c (hg2 c hc)⟩
    · subst hc; exact ⟨by decide, by decide⟩
  have hF := scan_membersL m.N hmk.2.2.2.2.2.1.2 pre m _ hpre hmk rfl hL "typedef".toList
    (g1 ++ "struct".toList ++ g2 ++ ['{']) (by decide) (by decide) hJ0
  have e : structL g1 g2 (bodyL (pre ++ m :: post) closePre) g3 name g4
      = "typedef".toList ++ (g1 ++ "struct".toList ++ g2 ++ ['{']) ++ ((pre.map Mem.text).flatten ++
          (m.text ++ ((post.map Mem.text).flatten ++
            (closePre ++ '}' :: (g3 ++ (name ++ (g4 ++ [';']))))))) := by
    unfold structL bodyL
    generalize "typedef".toList = td
    generalize "struct".toList = st
    simp only [List.map_append, List.map_cons, List.flatten_append, List.flatten_cons, List.append_assoc,
      List.cons_append, List.nil_append]
  unfold typeSearch
  rw [e]
  exact hF _ (Nat.lt_succ_self _)

/-- the same under the assumption of the first extension round: every declaration after the first is
preceded by a newline -/
theorem typeSearch_lay (ms : List Mem) (closePre g1 g2 g3 name g4 : Str)
    (hms : ∀ m ∈ ms, MemOK m) (hnd : (ms.map (·.N)).Nodup)
    (hnl : ∀ m ∈ ms.tail, '\n' ∈ m.pre)
    (hcp : tdWsOK false closePre = true)
    (hg1 : g1 ≠ [] ∧ ∀ c ∈ g1, wsChar c = true) (hg2 : ∀ c ∈ g2, wsChar c = true)
    (hg3 : ∀ c ∈ g3, wsChar c = true) (hg4 : ∀ c ∈ g4, wsChar c = true)
    (hname : wordy name) (m : Mem) (hm : m ∈ ms) :
    typeSearch m.N (structL g1 g2 (bodyL ms closePre) g3 name g4) = some (m.T, m.arr) :=
  typeSearch_layW ms closePre g1 g2 g3 name g4 hms hnd (LineOK_of_nl ms hnl) hcp hg1 hg2 hg3 hg4 hname m hm

/-! ### `bodyDefs` on a laid-out body -/

theorem lastSemiAux_noSemi (w : Str) (i : Nat) (best : Option Nat) (h : ';' ∉ w) :
    lastSemiAux w i best = best := by
  induction w generalizing i with
  | nil => rfl
  | cons c t ih =>
    have hc : (c == ';') = false := by
      have : c ≠ ';' := fun e => h (by simp [e])
      simp [this]
    simp only [lastSemiAux, hc, Bool.false_and, Bool.false_eq_true, if_false]
    exact ih _ (fun hm => h (List.mem_cons_of_mem _ hm))

theorem lastSemi_none (w : Str) (h : ';' ∉ w) : lastSemi w = none :=
  lastSemiAux_noSemi w 0 none h

theorem lastSemiAux_endL (u j : Str) (i : Nat) (best : Option Nat) (h : 1 ≤ i + u.length) (hj : ';' ∉ j) :
    lastSemiAux (u ++ ';' :: j) i best = some (i + u.length) := by
  induction u generalizing i best with
  | nil =>
    have hi : 1 ≤ i := by simpa using h
    have hi' : decide (i ≥ 1) = true := by simpa using hi
    simp only [List.nil_append, lastSemiAux, beq_self_eq_true, hi', Bool.and_self, if_true]
    rw [lastSemiAux_noSemi j _ _ hj]; simp
  | cons b u' ih =>
    simp only [List.cons_append, lastSemiAux]
    rw [ih]
    · simp; omega
    · simp at h ⊢; omega

/-- a word whose successor has no `;` gives no match -/
theorem defs_word_fail (w bl r' : Str) (res : List (Str × Str))
    (hne : w ≠ []) (hw : ∀ c ∈ w, nonSp c = true)
    (hbl : bl ≠ []) (hbs : ∀ c ∈ bl, isSpace c = true) (hr : ∀ c, r'.head? = some c → isSpace c = false)
    (hfail : ';' ∉ r'.takeWhile nonSp) (h : Defs r' res) : Defs (w ++ bl ++ r') res := by
  intro fuel hf
  obtain ⟨_, h2, h3⟩ := scan_split w bl r' hw hbl hbs hr
  cases fuel with
  | zero => cases hf
  | succ f =>
    cases hw' : w with
    | nil => exact absurd hw' hne
    | cons c w' =>
      have hc : isSpace c = false := by
        have := hw c (by rw [hw']; simp)
        simpa [nonSp] using this
      rw [hw'] at h2 hf
      have hblne : (bl ++ r').isEmpty = false := by
        cases bl with
        | nil => exact absurd rfl hbl
        | cons _ _ => rfl
      have hlen : r'.length < f := by
        have : 1 ≤ bl.length := by
          cases bl with
          | nil => exact absurd rfl hbl
          | cons _ _ => simp
        simp at hf; omega
      simp only [List.cons_append, List.append_assoc] at h2 ⊢
      simp only [bodyDefsAux, hc, Bool.false_eq_true, if_false, h2, hblne, h3, lastSemi_none _ hfail]
      exact h f hlen

/-- skipping white space and comments: no `;`, so no match starts there -/
theorem defs_skip_aux (X : Str) (res : List (Str × Str))
    (hX : ∀ c, X.head? = some c → isSpace c = false) (hX2 : ';' ∉ X.takeWhile nonSp) (h : Defs X res) :
    ∀ (n : Nat) (J : Str), J.length ≤ n → ';' ∉ J → (J = [] ∨ EndSp J) → Defs (J ++ X) res := by
  intro n
  induction n with
  | zero =>
    intro J hlen _ _
    have : J = [] := by cases J with
      | nil => rfl
      | cons _ _ => simp at hlen
    rw [this]; exact h
  | succ n ih =>
    intro J hlen hns hE
    rcases hE with hE | hE
    · rw [hE]; exact h
    obtain ⟨sp0, J1, hJ1, hsp0, hJ1h⟩ := split_run isSpace J
    rw [hJ1, List.append_assoc]
    apply defs_blanks _ _ _ hsp0
    cases hJ1c : J1 with
    | nil => exact h
    | cons c0 t0 =>
      have hJ1E : EndSp J1 := by rw [hJ1] at hE; exact hE.suffix (by rw [hJ1c]; simp)
      obtain ⟨w, J', hJ, hw, hJ'⟩ := split_run nonSp J1
      have hwne : w ≠ [] := by
        intro e
        rw [e, List.nil_append] at hJ
        have h1 := hJ1h c0 (by rw [hJ1c]; rfl)
        have h2 := hJ' c0 (by rw [← hJ, hJ1c]; rfl)
        simp [nonSp, h1] at h2
      have hJ'ne : J' ≠ [] := by
        intro e; rw [e, List.append_nil] at hJ; rw [hJ] at hJ1E; exact hJ1E.not_all hw
      obtain ⟨sp, J'', hJ'e, hsp, hJ''⟩ := split_run isSpace J'
      have hspne : sp ≠ [] := by
        intro e
        rw [e, List.nil_append] at hJ'e
        cases hJ'c : J' with
        | nil => exact hJ'ne hJ'c
        | cons y t =>
          have h1 := hJ' y (by rw [hJ'c]; rfl)
          have h2 := hJ'' y (by rw [← hJ'e, hJ'c]; rfl)
          simp [nonSp, h2] at h1
      have hJsplit : J = (sp0 ++ w ++ sp) ++ J'' := by rw [hJ1, hJ, hJ'e]; simp
      have hJ''E : J'' = [] ∨ EndSp J'' := by
        cases hJ''c : J'' with
        | nil => left; rfl
        | cons c t => right; rw [hJsplit, hJ''c] at hE; exact hE.suffix (by simp)
      have hns'' : ';' ∉ J'' := by
        intro hm; apply hns; rw [hJsplit]; exact List.mem_append_right _ hm
      have etext : c0 :: t0 ++ X = w ++ sp ++ (J'' ++ X) := by
        rw [← hJ1c, hJ, hJ'e]; simp only [List.append_assoc]
      rw [etext]
      apply defs_word_fail w sp _ res hwne hw hspne hsp
      · intro d hd
        cases hJ''c : J'' with
        | nil => rw [hJ''c] at hd; exact hX d hd
        | cons c t => rw [hJ''c] at hd; simp at hd; subst hd; exact hJ'' _ (by rw [hJ''c]; rfl)
      · rcases hJ''E with e | hE''
        · rw [e]; exact hX2
        · rw [takeWhile_app_of_stop _ _ _ hE''.has_space]
          intro hm; exact hns'' (mem_of_takeWhile _ _ _ hm)
      · apply ih J'' _ hns'' hJ''E
        have : J.length = sp0.length + w.length + sp.length + J''.length := by
          rw [hJsplit]; simp; omega
        have : 1 ≤ sp.length := by
          cases sp with
          | nil => exact absurd rfl hspne
          | cons _ _ => simp
        omega

theorem defs_skip (J X : Str) (res : List (Str × Str)) (hns : ';' ∉ J) (hE : J = [] ∨ EndSp J)
    (hX : ∀ c, X.head? = some c → isSpace c = false) (hX2 : ';' ∉ X.takeWhile nonSp) (h : Defs X res) :
    Defs (J ++ X) res :=
  defs_skip_aux X res hX hX2 h J.length J (Nat.le_refl _) hns hE

/-- one match of `\S+\s+\S+;`: a word, blanks, a word `u;` possibly glued to more non-space text without `;` -/
theorem defs_pairL (w bl u REST : Str) (res : List (Str × Str))
    (hne : w ≠ []) (hw : ∀ c ∈ w, nonSp c = true)
    (hbl : bl ≠ []) (hbs : ∀ c ∈ bl, isSpace c = true)
    (hune : u ≠ []) (hu : ∀ c ∈ u, nonSp c = true)
    (hj : ';' ∉ REST.takeWhile nonSp) (h : Defs REST res) :
    Defs (w ++ bl ++ (u ++ ';' :: REST)) ((noSemi w, noSemi u) :: res) := by
  intro fuel hf
  have hr : ∀ c, (u ++ ';' :: REST).head? = some c → isSpace c = false := by
    intro c hc
    cases hu' : u with
    | nil => exact absurd hu' hune
    | cons a t =>
      rw [hu'] at hc; simp at hc; subst hc
      have := hu a (by rw [hu']; simp)
      simpa [nonSp] using this
  obtain ⟨h1, h2, h3⟩ := scan_split w bl _ hw hbl hbs hr
  have hw2 : (u ++ ';' :: REST).takeWhile nonSp = u ++ ';' :: REST.takeWhile nonSp := by
    have : u ++ ';' :: REST = (u ++ [';']) ++ REST := by simp
    rw [this, List.takeWhile_append_of_pos]
    · simp
    · intro x hx
      simp only [List.mem_append, List.mem_singleton] at hx
      rcases hx with hx | hx
      · exact hu x hx
      · subst hx; decide
  have hul : 1 ≤ u.length := by
    cases u with
    | nil => exact absurd rfl hune
    | cons _ _ => simp
  have hls : lastSemi (u ++ ';' :: REST.takeWhile nonSp) = some u.length := by
    unfold lastSemi
    rw [lastSemiAux_endL _ _ _ _ (by omega) hj]; simp
  cases fuel with
  | zero => cases hf
  | succ f =>
    cases hw' : w with
    | nil => exact absurd hw' hne
    | cons c w' =>
      have hc : isSpace c = false := by
        have := hw c (by rw [hw']; simp)
        simpa [nonSp] using this
      rw [hw'] at h1 h2 hf
      have hblne : (bl ++ (u ++ ';' :: REST)).isEmpty = false := by
        cases bl with
        | nil => exact absurd rfl hbl
        | cons _ _ => rfl
      have hlen : REST.length < f := by
        simp at hf ⊢; omega
      have htake : (u ++ ';' :: REST.takeWhile nonSp).take u.length = u := by simp
      have hdrop : (u ++ ';' :: REST).drop (u.length + 1) = REST := by
        have : u ++ ';' :: REST = (u ++ [';']) ++ REST := by simp
        rw [this, List.drop_left' (by simp)]
      simp only [List.cons_append, List.append_assoc] at h1 h2 ⊢
      simp only [bodyDefsAux, hc, Bool.false_eq_true, if_false, h1, h2, hblne, h3, hw2, hls, htake, hdrop]
      rw [h f hlen]

/-- the leading non-space run of what follows a member's `;` has no `;` -/
theorem bodyL_lead (ms : List Mem) (closePre : Str) (hms : ∀ m ∈ ms, MemOK m)
    (hcp : tdWsOK false closePre = true) : ';' ∉ (bodyL ms closePre).takeWhile nonSp := by
  unfold bodyL
  cases ms with
  | nil =>
    intro hm
    exact tdWs_no_semi false _ hcp (mem_of_takeWhile _ _ _ (by simpa using hm))
  | cons q ms' =>
    have hq := hms q (by simp)
    simp only [List.map_cons, List.flatten_cons, List.append_assoc]
    rw [text_app, takeWhile_app_of_stop _ _ _ (tdWs_endSp false _ hq.2.1 hq.1).has_space]
    intro hm
    exact tdWs_no_semi false _ hq.2.1 (mem_of_takeWhile _ _ _ hm)

theorem bodyDefs_lay (ms : List Mem) (closePre : Str) (hms : ∀ m ∈ ms, MemOK m)
    (hcp : tdWsOK false closePre = true) :
    Defs (bodyL ms closePre) (ms.map (fun m => (m.T, m.N ++ m.arr))) := by
  induction ms with
  | nil =>
    have : bodyL [] closePre = closePre ++ [] := by simp [bodyL]
    rw [this]
    apply defs_skip closePre [] [] (tdWs_no_semi false _ hcp) _ (by simp) (by simp) defs_nil
    by_cases e : closePre = []
    · left; exact e
    · right; exact tdWs_endSp false _ hcp e
  | cons m ms' ih =>
    have hmk := hms m (by simp)
    obtain ⟨hpne, hptd, hgne, hgb, hT, hN, hA⟩ := hmk
    have e : bodyL (m :: ms') closePre
        = m.pre ++ (m.T ++ m.gap ++ ((m.N ++ m.arr) ++ ';' :: bodyL ms' closePre)) := by
      unfold bodyL
      simp only [List.map_cons, List.flatten_cons, List.append_assoc]
      rw [text_app]; simp only [List.append_assoc]
    rw [e]
    have hgs : ∀ c ∈ m.gap, isSpace c = true := fun c hc => isBlank_isSpace c (hgb c hc)
    have hTs : ∀ c ∈ m.T, c ≠ ';' := fun c hc => scan_word_ne c ';' (hT.2 c hc) (by decide)
    have hNA : ∀ c ∈ m.N ++ m.arr, c ≠ ';' := by
      intro c hc
      rcases List.mem_append.mp hc with hc | hc
      · exact scan_word_ne c ';' (hN.2 c hc) (by decide)
      · exact (arrCh_facts c (hA.2 c hc)).2.1
    apply defs_skip m.pre _ _ (tdWs_no_semi false _ hptd) (Or.inr (tdWs_endSp false _ hptd hpne))
    · rw [List.append_assoc]; exact wordy_head _ _ hT
    · cases hg : m.gap with
      | nil => exact absurd hg hgne
      | cons g gs =>
        have hgn : nonSp g = false := by simp [nonSp, hgs g (by rw [hg]; simp)]
        rw [List.append_assoc, List.cons_append, takeWhile_app_stop _ _ _ _ (wordy_nonSp _ hT) hgn]
        intro hm; exact hTs _ hm rfl
    · have := defs_pairL m.T m.gap (m.N ++ m.arr) (bodyL ms' closePre)
        (ms'.map (fun m => (m.T, m.N ++ m.arr))) hT.1 (wordy_nonSp _ hT) hgne hgs
        (by intro e; exact hN.1 (List.append_eq_nil_iff.mp e).1)
        (by
          intro c hc
          rcases List.mem_append.mp hc with hc | hc
          · exact scan_word_nonSp c (hN.2 c hc)
          · exact (arrCh_facts c (hA.2 c hc)).1)
        (bodyL_lead ms' closePre (fun q hq => hms q (by simp [hq])) hcp)
        (ih (fun q hq => hms q (by simp [hq])))
      rw [noSemi_id _ hTs, noSemi_id _ hNA] at this
      simpa using this

theorem stripArr_nameL (N A : Str) (hN : wordy N) (hA : arrL A) : stripArr (N ++ A) = N := by
  rcases hA.1 with h | ⟨⟨o, ho, hoo⟩, ⟨cl, hcl, hclc⟩⟩
  · subst h
    exact stripArr_name N [] hN ⟨Or.inl rfl, by simp⟩
  · cases hA' : A with
    | nil => rw [hA'] at ho; cases ho
    | cons a A' =>
      have ha : a = o := by rw [hA'] at ho; simpa using ho
      subst ha
      obtain ⟨B, hB⟩ := List.getLast?_eq_some_iff.mp hcl
      have hrev : (N ++ a :: A').reverse = cl :: (N ++ B).reverse := by
        rw [← hA', hB]; simp
      have hany : (N ++ a :: A').any isOpenB = true := by
        simp [hoo]
      have htw : (N ++ a :: A').takeWhile (fun c => !isOpenB c) = N := by
        apply takeWhile_app_stop
        · intro x hx; simp [scan_word_not_open x (hN.2 x hx)]
        · simp [hoo]
      unfold stripArr
      rw [hrev]
      simp only [hany, htw, hclc, Bool.and_self, if_true]

theorem columnsOf_lay (ms : List Mem) (closePre : Str) (hms : ∀ m ∈ ms, MemOK m)
    (hcp : tdWsOK false closePre = true) :
    columnsOf (bodyL ms closePre) = ms.map (·.N) := by
  unfold columnsOf bodyDefs
  rw [bodyDefs_lay ms closePre hms hcp _ (Nat.lt_succ_self _), List.map_map]
  apply List.map_congr_left
  intro m hm
  exact stripArr_nameL _ _ (hms m hm).2.2.2.2.2.1 (hms m hm).2.2.2.2.2.2
end PydlVerif.YannyLayScan
